"""fuzzdrv.py — libFuzzer engine of the C12 check (imported by verif.py).

quick:    seed corpus (valid artefacts made by the library itself + empty inputs + committed regression inputs +
          inputs handed over by the C20 harness), then `-fork=<ncpu> -ignore_crashes=1` for a wall-clock budget;
          every crash artefact is re-executed once, bucketed by (target, error class, innermost /repo function, text of
          the faulting source line) and compared with known_findings.json.
thorough: same with a longer budget and larger max_len.
"""
import os, sys, re, json, glob, time, shutil, subprocess, hashlib
from concurrent.futures import ThreadPoolExecutor

TARGETS = ["card_import", "cardsecret_import", "vtmfcard_import", "vtmfcardsecret_import", "vtmfstack_import", "tmcgstack_import", "vtmfstacksecret_import", "tmcgstacksecret_import", "mpz_stream", "publickey", "secretkey",
  "ctor_vtmf", "ctor_groupqr", "ctor_pedersencom", "ctor_grothskc", "ctor_grothvsshe", "ctor_vrhe", "ctor_pedersenvss", "ctor_gjkrdkg", "ctor_cgjkr", "ctor_eotp",
  "verify_updatekey", "verify_cp", "verify_or", "verify_masking", "verify_decryption", "verify_keyproof", "verify_stackequality", "verify_groth_ni", "verify_hoogh_ni", "verify_rabin", "verify_skc_ni",
  "pgp_armor", "pgp_packets", "pgp_pubkeyblock", "pgp_signature", "pgp_keyring", "pgp_prvkeyblock", "pgp_message", "pgp_signatures", "pgp_radix64", "stream_operators"]

def build_targets(V, prop, meta):
    """build the fuzz flavour of the library and the libFuzzer binary; returns its path"""
    flavour = "fuzz"
    with V.BuildLock():
        with ThreadPoolExecutor(V.NCPU) as pool:
            libf = V.build_library(flavour, pool)
            hh = V.sha(V.repo_header_hash(), V.verif_header_hash())
            outdir = os.path.join(V.BUILD, flavour, "hobj"); os.makedirs(outdir, exist_ok=True)
            flags = V.FLAVOURS[flavour]
            objs = [pool.submit(V.compile_obj, os.path.join(V.VERIF, "lib", n), flags, hh, outdir) for n in ["interpose.cc", "tmcg_init.cc"]]
            objs.append(pool.submit(V.compile_obj, os.path.join(V.VERIF, "harness", "c12_fuzz.cc"), flags, hh, outdir))
            libobjs = [f.result()[0] for f in libf]; hobjs = [f.result()[0] for f in objs]
        akey = V.sha(*libobjs); ar = os.path.join(V.BUILD, flavour, "libtmcg-%s.a" % akey)
        if not os.path.exists(ar):
            tmp = ar + ".tmp%d" % os.getpid(); subprocess.run(["ar", "rcs", tmp] + libobjs, check=True); os.rename(tmp, ar)
        bindir = os.path.join(V.BUILD, flavour, "bin"); os.makedirs(bindir, exist_ok=True)
        exe = os.path.join(bindir, "C12-%s" % V.sha(akey, *hobjs))
        if not os.path.exists(exe):
            tmp = exe + ".tmp%d" % os.getpid()
            cmd = [V.CXX] + V.BASE_FLAGS + V.SAN_FLAGS + ["-fsanitize=fuzzer"] + hobjs + [ar] + V.LIBS + ["-o", tmp]
            r = subprocess.run(cmd, capture_output=True, text=True)
            if r.returncode: raise RuntimeError("link failed: " + r.stderr[-3000:])
            os.rename(tmp, exe)
    return exe

def fenv(V, extra=None):
    e = dict(os.environ)
    e["ASAN_OPTIONS"] = "detect_leaks=0:abort_on_error=0:allocator_may_return_null=1:max_allocation_size_mb=2048:detect_stack_use_after_return=0:quarantine_size_mb=16:symbolize=1"
    e["UBSAN_OPTIONS"] = "print_stacktrace=1:halt_on_error=1"
    if extra: e.update(extra)
    return e

def source_line(V, fname, lineno):
    try:
        with open(os.path.join(V.REPO, "src", fname), errors="replace") as f:
            for i, l in enumerate(f, 1):
                if i == lineno: return re.sub(r"\s+", " ", l.strip())[:100]
    except OSError: pass
    return "?"

def signature(V, target, stderr_text, rc):
    kind = None
    m = re.search(r"SUMMARY: (\w+): ([\w-]+)", stderr_text)
    if m: kind = m.group(2)
    if not kind:
        m = re.search(r"runtime error: ([^\n]+)", stderr_text)
        if m: kind = "ubsan:" + re.sub(r"0x[0-9a-f]+|\d+", "N", m.group(1))[:70]
    m2 = re.search(r"Assertion `([^']+)' failed", stderr_text)
    if m2: kind = "assert:" + m2.group(1)[:80]
    if not kind:
        if "deadly signal" in stderr_text: kind = "deadly-signal"
        elif "out-of-memory" in stderr_text: kind = "oom"
        elif "timeout" in stderr_text: kind = "timeout"
        else: kind = "exit%d" % rc
    if kind == "deadly-signal" or kind.startswith("exit"):
        if "FPE" in stderr_text: kind = "SIGFPE"
    fm = re.search(r"#\d+ 0x[0-9a-f]+ in ([^\n]+?) " + re.escape(os.path.join(V.REPO, "src")) + r"/([\w.]+):(\d+)", stderr_text)
    where = "?"
    if fm:
        func = re.sub(r"\(.*", "", fm.group(1)); where = "%s@%s:[%s]" % (func.split("::")[-1] if "::" in func else func, fm.group(2), source_line(V, fm.group(2), int(fm.group(3))))
    return "crash/%s/%s/%s" % (target, kind, where)

GROUPS = {"imp": 3, "ctor": 3, "ver": 4, "pgp": 6}   # group -> forked workers (sum = 16)

def group_targets(V, exe, group):
    p = subprocess.run([exe], env=fenv(V, {"VF_GROUP": group, "VF_PRINT_GROUP": "1"}), capture_output=True, text=True)
    return [l.split()[1] for l in p.stdout.splitlines() if len(l.split()) == 2]

def run_one(V, exe, path, group, timeout=180):
    try:
        p = subprocess.run([exe, path], capture_output=True, text=True, errors="replace", timeout=timeout, env=fenv(V, {"VF_GROUP": group}))
        return p.returncode, p.stderr
    except subprocess.TimeoutExpired:
        return -9, "timeout (harness watchdog)"

def campaign(V, exe, group, workers, work, tier, seed, budget, prop):
    corpus = os.path.join(work, group, "corpus"); art = os.path.join(work, group, "art"); os.makedirs(corpus); os.makedirs(art)
    subprocess.run([exe], env=fenv(V, {"VF_GEN_CORPUS": corpus, "VF_GROUP": group}), capture_output=True, text=True)
    nseed = len(os.listdir(corpus)); targets = group_targets(V, exe, group)
    reg = sorted(glob.glob(os.path.join(V.VERIF, "replays", prop, group + "-*.bin")))
    for f in reg: shutil.copy(f, os.path.join(corpus, "regression-" + os.path.basename(f)))
    nhand = 0
    if group == "pgp":
        # committed valid artefacts (made by the library in the C20 harness, C20_EXPORT_DIR) first, then inputs on which a C20 fault child died
        hand = sorted(glob.glob(os.path.join(V.VERIF, "corpus", prop, "handoff", "*.bin"))) + sorted(glob.glob(os.path.join(V.BUILD, "handoff", prop, "*.bin")))
        ids = [targets.index(x) for x in ("pgp_signature", "pgp_signatures", "pgp_pubkeyblock", "pgp_keyring", "pgp_packets", "pgp_message") if x in targets]
        limit = 250 if tier == "quick" else 3000
        for f in hand[:limit]:
            data = open(f, "rb").read(); nhand += 1
            for tid in ids: open(os.path.join(corpus, "handoff-%d-%s" % (tid, os.path.basename(f))), "wb").write(bytes([tid]) + data)
    maxlen = 20000 if tier == "quick" else 60000
    stats = os.path.join(work, group, "stats.txt"); log = os.path.join(work, group, "fuzz.log")
    cmd = [exe, "-fork=%d" % workers, "-ignore_crashes=1", "-ignore_ooms=1", "-ignore_timeouts=1", "-max_total_time=%d" % budget, "-timeout=25", "-rss_limit_mb=3000", "-malloc_limit_mb=1500",
           "-max_len=%d" % maxlen, "-len_control=100", "-seed=%d" % (int(seed) % (2 ** 31) or 1), "-artifact_prefix=" + art + "/", corpus]
    with open(log, "w") as lf:
        try: subprocess.run(cmd, stdout=lf, stderr=subprocess.STDOUT, env=fenv(V, {"VF_STATS": stats, "VF_GROUP": group}), timeout=budget + 900)
        except subprocess.TimeoutExpired: pass
    text = open(log, errors="replace").read(); execs = 0
    for m in re.finditer(r"^#(\d+): cov: (\d+) ft: (\d+) corp: (\d+) exec/s", text, re.M): execs = max(execs, int(m.group(1)))
    cov = re.findall(r"cov: (\d+) ft: (\d+) corp: (\d+)", text); cov = cov[-1] if cov else ("0", "0", "0")
    return {"group": group, "corpus": corpus, "art": art, "nseed": nseed, "nreg": len(reg), "nhand": nhand, "execs": execs, "cov": list(cov), "targets": targets, "stats": stats}

def run_property(V, prop, tier, seed, meta):
    t0 = time.time()
    exe = build_targets(V, prop, meta)
    work = os.path.join(V.BUILD, "fuzz", "%s-%s-%d" % (prop, tier, os.getpid())); shutil.rmtree(work, ignore_errors=True); os.makedirs(work)
    known = V.known_for(prop)
    budget = int(os.environ.get("VERIF_FUZZ_SECONDS", meta.get("fuzz_seconds", {}).get(tier, 75 if tier == "quick" else 1500)))
    scale = max(1, V.NCPU // 16)
    groups = dict(GROUPS)
    if os.environ.get("VERIF_FUZZ_GROUPS"):   # development aid: concentrate all workers on some groups
        sel = os.environ["VERIF_FUZZ_GROUPS"].split(","); groups = {g: max(1, V.NCPU // len(sel)) for g in sel}
    with ThreadPoolExecutor(len(groups)) as pool:
        camps = list(pool.map(lambda kv: campaign(V, exe, kv[0], max(1, kv[1] * scale), work, tier, seed, budget, prop), groups.items()))
    # artefacts -> buckets
    buckets = {}; narts = 0; nothers = 0; examined = 0
    jobs = []
    for c in camps:
        arts = sorted(glob.glob(os.path.join(c["art"], "crash-*"))); narts += len(arts)
        nothers += len(glob.glob(os.path.join(c["art"], "timeout-*")) + glob.glob(os.path.join(c["art"], "oom-*")))
        for a in arts[: (300 if tier == "quick" else 1500)]: jobs.append((c, a))
    def classify(job):
        c, path = job; data = open(path, "rb").read(); target = c["targets"][data[0] % len(c["targets"])] if data else "empty"
        rc, err = run_one(V, exe, path, c["group"])
        if rc == 0: return path, None, target, "", c["group"]
        return path, signature(V, target, err, rc), target, err[-2500:], c["group"]
    with ThreadPoolExecutor(V.NCPU) as pool:
        for path, sig, target, err, group in pool.map(classify, jobs):
            examined += 1
            buckets.setdefault(sig or "not-reproducible", []).append((path, target, err, group))
    known_hits = {}; violations = []
    rdir = os.path.join(V.BUILD, "replay", prop); os.makedirs(rdir, exist_ok=True)
    for sig, items in sorted(buckets.items()):
        if sig == "not-reproducible": continue
        if sig in known: known_hits[sig] = len(items); continue
        items.sort(key=lambda it: os.path.getsize(it[0])); path, target, err, group = items[0]
        ok = all(run_one(V, exe, path, group)[0] != 0 for _ in range(2))
        if not ok: buckets.setdefault("flaky", []).append(items[0]); continue
        dst = os.path.join(rdir, "%s-%s-%s.bin" % (group, prop, hashlib.sha256(open(path, "rb").read()).hexdigest()[:12])); shutil.copy(path, dst)
        violations.append((sig, dst, err, len(items)))
    # gate statistics on the final corpora (crash tolerant merge pass)
    per_target = {}; samples = []
    def tally(sf, campaign_phase):
        if not os.path.exists(sf): return
        for l in open(sf):
            p = l.split()
            if len(p) == 3:
                d = per_target.setdefault(p[0], {"campaign_execs": 0, "campaign_gate_passes": 0, "corpus_units": 0, "corpus_units_passing_gate": 0})
                if campaign_phase: d["campaign_execs"] += int(p[1]); d["campaign_gate_passes"] += int(p[2])
                else: d["corpus_units"] += int(p[1]); d["corpus_units_passing_gate"] += int(p[2])
    def merge(c):
        merged = os.path.join(work, c["group"], "merged"); os.makedirs(merged); s2 = os.path.join(work, c["group"], "stats2.txt")
        try: subprocess.run([exe, "-merge=1", "-timeout=25", "-rss_limit_mb=3000", merged, c["corpus"]], capture_output=True, text=True, env=fenv(V, {"VF_STATS": s2, "VF_GROUP": c["group"]}), timeout=1500)
        except subprocess.TimeoutExpired: pass
        return merged, s2
    with ThreadPoolExecutor(len(camps)) as pool:
        for c, (merged, s2) in zip(camps, pool.map(merge, camps)):
            tally(c["stats"], True); tally(s2, False)
            fl = sorted(os.listdir(merged))
            for f in fl[:: max(1, len(fl) // 6)][:6]:
                b = open(os.path.join(merged, f), "rb").read(); samples.append({"group": c["group"], "target": c["targets"][b[0] % len(c["targets"])] if b else "empty", "size": len(b), "head_hex": b[:40].hex()})
    nontriv = sum(d["corpus_units_passing_gate"] for d in per_target.values())
    execs = max(sum(c["execs"] for c in camps), sum(d["campaign_execs"] for d in per_target.values()))
    ev = {"property_id": prop, "tier": tier, "seed": int(seed), "level": meta["level"],
          "coverage": {"evaluations": execs, "distinct_nontrivial": nontriv, "rule": meta["rule"], "samples": samples or [{"note": "no corpus unit"}], "per_target": per_target,
                       "campaigns": [{k: c[k] for k in ("group", "nseed", "nreg", "nhand", "execs", "cov")} for c in camps],
                       "crash_artefacts": narts, "crash_artefacts_examined": examined, "buckets": {k: len(v) for k, v in buckets.items()}, "excluded_known": known_hits,
                       "timeout_or_oom_artefacts_not_judged": nothers, "budget_seconds": budget, "engine": "libFuzzer fork mode (four target groups in parallel), ASan+UBSan, GMP write guard, allocator shim"},
          "assumptions": meta.get("assumptions", []), "wall_s": round(time.time() - t0, 1), "violations": len(violations)}
    V.write_evidence(prop, ev)
    for k, n in sorted(known_hits.items()):
        print("KNOWN-FINDING: property=%s %s — %s (%d artefacts)" % (prop, k, known.get(k, {}).get("what", ""), n))
    print("%s tier=%s execs=%d corpus_units_passing_gate=%d crash_artefacts=%d buckets=%d violations=%d wall=%.1fs" % (prop, tier, execs, nontriv, narts, len(buckets), len(violations), time.time() - t0))
    for sig, dst, err, n in violations:
        print("  signature=%s (%d artefacts) :: %s" % (sig, n, (re.findall(r"(?:ERROR|runtime error|Assertion|GMP-GUARD|VF-)[^\n]*", err) or [""])[0][:300]))
        print("VIOLATION property=%s replay=%s" % (prop, dst))
    sys.stdout.flush()
    dead = [c["group"] for c in camps if c["execs"] == 0]
    if dead and not violations:
        # a campaign without a single execution explored nothing: the fuzz binary died while it built its seeds / world
        for g in dead:
            try: print("HARNESS-ERROR: campaign '%s' executed nothing; tail of its log:\n%s" % (g, open(os.path.join(work, g, "fuzz.log"), errors="replace").read()[-1500:]))
            except Exception: print("HARNESS-ERROR: campaign '%s' executed nothing" % g)
        sys.stdout.flush(); return 2
    if not os.environ.get("VERIF_KEEP_WORK"): shutil.rmtree(work, ignore_errors=True)
    return 1 if violations else 0

def replay(V, prop, path, meta):
    exe = build_targets(V, prop, meta)
    group = os.path.basename(path).split("-")[0]
    if group not in GROUPS: print("file name must start with the target group (imp-, ctor-, ver-, pgp-)"); return 2
    targets = group_targets(V, exe, group)
    data = open(path, "rb").read(); target = targets[data[0] % len(targets)] if data else "empty"
    rc, err = run_one(V, exe, path, group)
    if rc == 0: print("pass (clean refusal) target=%s" % target); return 0
    print("fail", signature(V, target, err, rc)); print(err[-3000:]); return 1
