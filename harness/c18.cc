// C18 — oblivious transfer delivers exactly the chosen message (NaorPinkasEOTP, [NP01] protocol 4.1).
// Oracles: (1) library chooser against library sender over in-memory pipes: output == M_sigma;
// (2) a chooser written in the harness from [NP01] with GMP (it owns a, b and every c_i) against the
// library sender: it opens M_sigma, and no other ciphertext opens under a, b with its own or the chosen w;
// secondary oracle (derived from the anchored mechanism "fresh (r,s) per message"): the w_j are pairwise distinct;
// (3) malformed first moves (mutation catalogue x line role, coinciding z-values, non-members) judged by
// a reference predicate (0 < v < p, v^q = 1 mod p, z-values pairwise distinct): the sender must return false.
#include "fix.hh"
#include "pipes.hh"
#include "mutate.hh"
#include <sys/file.h>
#include <fcntl.h>
#include <pthread.h>
#include <set>
#include <map>
using namespace vf;
const char *vf::PROPERTY = "C18";
// Every protocol run starts two party threads; the OT code keeps its big integers on the heap, so 1 MiB stacks are
// ample and keep the per-thread mapping work small (thread exit is the dominant system-time cost of this harness).
void vf::harness_init() { pthread_attr_t a; pthread_attr_init(&a); pthread_attr_setstacksize(&a, 1 << 20); pthread_setattr_default_np(&a); pthread_attr_destroy(&a); }

enum Variant { V_2 = 0, V_N = 1, V_OPT = 2 };
static const char *VNAME[3] = {"oneoutoftwo", "oneoutofn", "oneoutofn_optimized"};
static std::string sig(int v, const char *cls) { return std::string("ot/") + VNAME[v] + "/" + cls; }

// --------------------------------------------------------------------------- groups (library generated, cached)
struct OtGroup {
  unsigned long fs, gs; unsigned idx; Z p, q, g; std::string desc;
  NaorPinkasEOTP *E[2]; // [0] built with the stream constructor, [1] with the mpz constructor
};
static OtGroup &get_group(unsigned long fs, unsigned long gs, unsigned idx) {
  static std::map<std::string, OtGroup *> cache;
  std::ostringstream key; key << "otgroup-" << fs << "-" << gs << "-" << idx;
  auto it = cache.find(key.str()); if (it != cache.end()) return *it->second;
  // many shards start at once: generate a missing fixture in one process only
  std::string lock = cache_dir() + "/.lock-" + key.str();
  int fd = open(lock.c_str(), O_CREAT | O_RDWR, 0644); if (fd >= 0) flock(fd, LOCK_EX);
  std::string text = cached_fixture(key.str(), [&]() { NaorPinkasEOTP e(fs, gs); std::ostringstream o; e.PublishGroup(o); return o.str(); });
  if (fd >= 0) { flock(fd, LOCK_UN); close(fd); }
  OtGroup *G = new OtGroup(); G->fs = fs; G->gs = gs; G->idx = idx;
  std::istringstream in(text); G->E[0] = new NaorPinkasEOTP(in, fs, gs);
  G->p = Z(G->E[0]->p); G->q = Z(G->E[0]->q); G->g = Z(G->E[0]->g);
  G->E[1] = new NaorPinkasEOTP(G->p.get_mpz_t(), G->q.get_mpz_t(), G->g.get_mpz_t(), fs, gs);
  if (!G->E[0]->CheckGroup() || !G->E[1]->CheckGroup()) throw std::runtime_error("fixture: library-generated OT group fails CheckGroup");
  // the harness's own reading of the group (the reference predicate below relies on it)
  if (!zprime(G->p) || !zprime(G->q) || zmod(G->p - 1, G->q) != 0 || G->g <= 1 || G->g >= G->p - 1 || zpowm(G->g, G->q, G->p) != 1 ||
      mpz_sizeinbase(G->p.get_mpz_t(), 2) < fs || mpz_sizeinbase(G->q.get_mpz_t(), 2) < gs)
    throw std::runtime_error("fixture: library-generated OT group is not a prime-order subgroup of the stated size");
  std::ostringstream d; d << "otgroup(" << fs << "/" << gs << ")#" << idx; G->desc = d.str();
  cache[key.str()] = G; return *G;
}
static OtGroup &pick_otgroup(Ctx &ctx) {
  static const unsigned long spec[][3] = {{384, 128, 0}, {384, 128, 1}, {384, 128, 2}, {512, 160, 0}, {512, 160, 1}, {1024, 160, 0}, {2048, 256, 0}};
  size_t i = ctx.c.weighted({3, 3, 3, 2, 2, 2, 1});
  return get_group(spec[i][0], spec[i][1], (unsigned)spec[i][2]);
}
static bool member(const OtGroup &G, const Z &v) { return v > 0 && v < G.p && zpowm(v, G.q, G.p) == 1; }

// --------------------------------------------------------------------------- messages
enum MsgClass { MC_DISTINCT = 0, MC_ONE_REPEATS = 1, MC_SMALLINT = 2, MC_RESIDUES = 3 };
static const char *MCNAME[4] = {"distinct-group-elements", "group-elements-with-1-and-repeats", "small-integers-0..N-1(as-t-eotp)", "residues-mod-p"};
static Z rand_elem(Ctx &ctx, const OtGroup &G) { return zpowm(G.g, zrand_below(ctx, G.q), G.p); }
static std::vector<Z> make_messages(Ctx &ctx, const OtGroup &G, size_t N, int mc) {
  std::vector<Z> M(N);
  switch (mc) {
    case MC_DISTINCT: { // distinct exponents modulo q (a colliding draw moves on to the next free exponent: an all-zero choice tail must terminate)
      std::set<Z> seen; for (size_t i = 0; i < N; i++) { Z e = (i == 0 && ctx.c.prob(1, 8)) ? Z(0) : zrand_below(ctx, G.q); while (!seen.insert(e).second) e = zmod(e + 1, G.q); M[i] = zpowm(G.g, e, G.p); } break; }
    case MC_ONE_REPEATS: {
      for (size_t i = 0; i < N; i++) { switch (ctx.c.weighted({2, 1, 2})) { case 1: M[i] = 1; break; case 2: M[i] = i ? M[ctx.c.index(i)] : Z(1); break; default: M[i] = rand_elem(ctx, G); } }
      M[ctx.c.index(N)] = 1; size_t i2 = ctx.c.index(N), i3 = (i2 + 1 + ctx.c.index(N - 1)) % N; M[i3] = M[i2]; break; }
    case MC_SMALLINT: for (size_t i = 0; i < N; i++) M[i] = (unsigned long)i; break;
    default: for (size_t i = 0; i < N; i++) { switch (ctx.c.weighted({6, 1, 1, 1})) { case 1: M[i] = 0; break; case 2: M[i] = G.p - 1; break; case 3: M[i] = 1; break; default: M[i] = zrand_below(ctx, G.p); } } break;
  }
  return M;
}

// --------------------------------------------------------------------------- library entry points by variant
static bool lib_send(const NaorPinkasEOTP *e, int v, std::vector<mpz_ptr> &Mp, std::iostream &io) {
  switch (v) {
    case V_2: return e->Send_interactive_OneOutOfTwo(Mp[0], Mp[1], io, io);
    case V_N: return e->Send_interactive_OneOutOfN(Mp, io, io);
    default: return e->Send_interactive_OneOutOfN_optimized(Mp, io, io);
  }
}
static bool lib_choose(const NaorPinkasEOTP *e, int v, size_t sigma, size_t N, mpz_ptr out, std::iostream &io) {
  switch (v) {
    case V_2: return e->Choose_interactive_OneOutOfTwo(sigma, out, io, io);
    case V_N: return e->Choose_interactive_OneOutOfN(sigma, N, out, io, io);
    default: return e->Choose_interactive_OneOutOfN_optimized(sigma, N, out, io, io);
  }
}
static bool parse62(const std::string &l, Z &out) { // GMP's reading of one transmitted line (same syntax as the wire format: base 62)
  if (l.empty() || l.size() + 2 >= TMCG_MAX_VALUE_CHARS) return false;
  return mpz_set_str(out.get_mpz_t(), l.c_str(), TMCG_MPZ_IO_BASE) == 0;
}
// secondary oracle on a sender transcript (lines w_0, c_0, w_1, c_1, ...): pairwise distinct w_j
static void check_w_distinct(Ctx &ctx, int v, const std::vector<std::string> &resp, size_t N, const std::string &d) {
  if (resp.size() < 2 * N) return;
  std::map<std::string, size_t> seen;
  for (size_t j = 0; j < N; j++) {
    auto it = seen.find(resp[2 * j]);
    if (it != seen.end()) { ctx.fail(sig(v, "blinding-values-w-repeat"), "secondary oracle (derived from the anchored mechanism 'fresh (r,s) per message'): w_" + std::to_string(it->second) + " == w_" + std::to_string(j) + " in one run: " + d); return; }
    seen[resp[2 * j]] = j;
  }
}

// --------------------------------------------------------------------------- (1) library sender vs library chooser
static void honest_case(Ctx &ctx, OtGroup &G, int v, size_t N, size_t sigma, int mc) {
  std::vector<Z> M = make_messages(ctx, G, N, mc), M0 = M;
  std::vector<mpz_ptr> Mp; for (auto &m : M) Mp.push_back(m.get_mpz_t());
  size_t si = ctx.c.index(2); // which of the two instances (stream-built / mpz-built) plays the sender
  Z out = -7; bool s_ok = false, c_ok = false;
  uint64_t sa = ctx.c.seed64(), sb = ctx.c.seed64();
  std::ostringstream d; d << VNAME[v] << " " << G.desc << " N=" << N << " sigma=" << sigma << " msgs=" << MCNAME[mc] << " sender-instance=" << si << " M_sigma=" << S(M[sigma]);
  ctx.desc << d.str();
  ctx.label(std::string("variant:") + VNAME[v]); ctx.label(std::string("msgs:") + MCNAME[mc]);
  ctx.label(N <= 2 ? "N=2" : N <= 8 ? "N=3..8" : N <= 32 ? "N=9..32" : "N=33..64");
  ctx.label(sigma == 0 ? "sigma=first" : sigma + 1 == N ? "sigma=last" : "sigma=inner");
  ctx.label("group:" + std::to_string(G.fs) + "/" + std::to_string(G.gs));
  if (N >= 3) ctx.nontrivial(d.str() + "/" + std::to_string(sa));
  Duplex dx;
  dx.run(sa, sb, [&](std::iostream &io) { s_ok = lib_send(G.E[si], v, Mp, io); },
                 [&](std::iostream &io) { c_ok = lib_choose(G.E[1 - si], v, sigma, N, out.get_mpz_t(), io); });
  ctx.count("protocol_runs");
  std::string tail = std::string(dx.stalled() ? " (stalled)" : "") + " " + dx.a_what + dx.b_what + ": " + d.str();
  if (dx.a_threw || dx.b_threw) { ctx.fail(sig(v, "honest-run-throws"), std::string(dx.a_threw ? "sender" : "chooser") + " threw" + tail); return; }
  if (!s_ok) ctx.fail(sig(v, "sender-refuses-honest-chooser"), "library sender returned false against the library chooser" + tail);
  if (!c_ok) ctx.fail(sig(v, "chooser-refuses-honest-sender"), "library chooser returned false against the library sender" + tail);
  if (out != M0[sigma]) ctx.fail(sig(v, "chooser-output-differs"), "chooser output " + S(out) + " != M_sigma " + S(M0[sigma]) + tail);
  if (M != M0) ctx.fail(sig(v, "sender-modifies-messages"), "the sender changed its message vector" + tail);
  check_w_distinct(ctx, v, split_lines(dx.a2b.log), N, d.str());
}

VF_SUB(chooser_gets_chosen_message, 520, 12000) {
  OtGroup &G = pick_otgroup(ctx);
  int v = (int)ctx.c.weighted({2, 4, 4});
  size_t N = v == V_2 ? 2 : (size_t)ctx.c.small(2, 64);
  if (v != V_2 && ctx.c.prob(1, 12)) N = 64;
  size_t sigma; switch (ctx.c.weighted({4, 1, 1})) { case 1: sigma = 0; break; case 2: sigma = N - 1; break; default: sigma = ctx.c.index(N); }
  int mc = (int)ctx.c.weighted({3, 3, 1, 2});
  honest_case(ctx, G, v, N, sigma, mc);
}

// all (N, sigma) pairs for N <= 8 (thorough: N <= 16), each variant, three message classes
struct Pair { int v; size_t N, sigma; };
static const std::vector<Pair> &pairs(bool thorough) {
  static std::vector<Pair> P[2]; std::vector<Pair> &p = P[thorough ? 1 : 0];
  if (p.empty()) {
    size_t nmax = thorough ? 16 : 8;
    p.push_back({V_2, 2, 0}); p.push_back({V_2, 2, 1});
    for (int v = V_N; v <= V_OPT; v++) for (size_t N = 2; N <= nmax; N++) for (size_t s = 0; s < N; s++) p.push_back({v, N, s});
  }
  return p;
}
VF_ENUM(all_small_n_sigma_pairs, 216, 816) { // quick: (2 + 2*35) * 3, thorough: (2 + 2*135) * 3
  size_t i = ctx.c.raw();
  const std::vector<Pair> &P = pairs(ctx.thorough);
  const Pair &pr = P[i % P.size()]; int mc = (int)((i / P.size()) % 3);
  OtGroup &G = pick_otgroup(ctx);
  ctx.label("enumerated-(N,sigma)");
  honest_case(ctx, G, pr.v, pr.N, pr.sigma, mc);
}

// --------------------------------------------------------------------------- the harness's own chooser ([NP01] 4.1 and the remarks of 4.1)
// first move: x = g^a, y = g^b, z_sigma = g^{ab}, z_i = g^{c_i} (c_i random) elsewhere; optimised variant: only z_0 = g^{ab} / g^sigma
// (the sender derives z_i = z_0 * g^i).  second move: (w_i, C_i) with w_i = x^{s_i} g^{r_i}, C_i = M_i * z_i^{s_i} y^{r_i}; M_sigma = C_sigma / w_sigma^b.
struct Query { Z a, b, x, y; std::vector<Z> z; };
static Query make_query(Ctx &ctx, const OtGroup &G, int v, size_t N, size_t sigma, bool edges) {
  Query Q;
  auto expo = [&]() { if (edges) switch (ctx.c.weighted({12, 1, 1, 1})) { case 1: return Z(0); case 2: return Z(1); case 3: return Z(G.q - 1); default: break; } return Z(zrand_below(ctx, G.q - 1) + 1); };
  Q.a = expo(); Q.b = expo();
  Q.x = zpowm(G.g, Q.a, G.p); Q.y = zpowm(G.g, Q.b, G.p);
  Z ab = zmod(Q.a * Q.b, G.q);
  if (v == V_OPT) { Q.z.push_back(zpowm(G.g, zmod(ab - Z((unsigned long)sigma), G.q), G.p)); return Q; }
  std::set<Z> used; used.insert(ab);
  for (size_t i = 0; i < N; i++) {
    if (i == sigma) { Q.z.push_back(zpowm(G.g, ab, G.p)); continue; }
    Z c = zrand_below(ctx, G.q); while (!used.insert(c).second) c = zmod(c + 1, G.q); // terminates on an all-zero choice tail
    Q.z.push_back(zpowm(G.g, c, G.p));
  }
  return Q;
}
static std::vector<std::string> query_lines(const Query &Q) {
  std::vector<std::string> l; l.push_back(z62(Q.x)); l.push_back(z62(Q.y)); for (auto &z : Q.z) l.push_back(z62(z)); return l;
}

struct SenderRun { bool ret = false, threw = false, stalled = false; std::string what; std::vector<std::string> resp; std::vector<Z> w, c; bool complete = false; };
static SenderRun run_sender(Ctx &ctx, OtGroup &G, int v, std::vector<Z> &M, const std::vector<std::string> &lines) {
  SenderRun r; std::vector<mpz_ptr> Mp; for (auto &m : M) Mp.push_back(m.get_mpz_t());
  size_t want = 2 * M.size(), si = ctx.c.index(2);
  uint64_t sa = ctx.c.seed64(), sb = ctx.c.seed64();
  std::string text = join_lines(lines);
  Duplex dx;
  dx.run(sa, sb, [&](std::iostream &io) { r.ret = lib_send(G.E[si], v, Mp, io); },
                 [&](std::iostream &io) { io.write(text.data(), (std::streamsize)text.size()); io.flush(); std::string l; while (r.resp.size() < want && std::getline(io, l)) r.resp.push_back(l); });
  ctx.count("protocol_runs");
  r.threw = dx.a_threw; r.what = dx.a_what; r.stalled = dx.stalled();
  if (r.resp.size() == want) {
    r.complete = true;
    for (size_t j = 0; j < M.size(); j++) { Z w, c; if (!parse62(r.resp[2 * j], w) || !parse62(r.resp[2 * j + 1], c)) { r.complete = false; break; } r.w.push_back(w); r.c.push_back(c); }
  }
  return r;
}
// does ciphertext j open to M_j when unblinded with w_k^e ?
static bool opens(const OtGroup &G, const SenderRun &r, const std::vector<Z> &M, size_t j, size_t k, const Z &e) {
  Z key = zpowm(r.w[k], e, G.p), inv = zinv(key, G.p); if (inv == 0) return false;
  return zmod(r.c[j] * inv, G.p) == zmod(M[j], G.p);
}

VF_SUB(curious_chooser_learns_only_sigma, 450, 10000) {
  OtGroup &G = pick_otgroup(ctx);
  int v = (int)ctx.c.weighted({2, 4, 4});
  size_t N = v == V_2 ? 2 : (size_t)ctx.c.small(2, ctx.thorough ? 64 : 32);
  size_t sigma; switch (ctx.c.weighted({4, 1, 1})) { case 1: sigma = 0; break; case 2: sigma = N - 1; break; default: sigma = ctx.c.index(N); }
  std::vector<Z> M = make_messages(ctx, G, N, MC_DISTINCT); // distinct group elements: the comparisons below are meaningful
  Query Q = make_query(ctx, G, v, N, sigma, true);
  std::ostringstream d; d << VNAME[v] << " " << G.desc << " N=" << N << " sigma=" << sigma << " a=" << S(Q.a) << " b=" << S(Q.b);
  ctx.desc << d.str();
  ctx.label(std::string("variant:") + VNAME[v]); ctx.label(N <= 2 ? "N=2" : N <= 8 ? "N=3..8" : "N=9..");
  if (Q.a <= 1 || Q.b <= 1 || Q.a == G.q - 1 || Q.b == G.q - 1) ctx.label("edge-exponent(0,1,q-1)");
  ctx.label("secondary-oracle:w_j-pairwise-distinct(derived from anchored mechanism 'fresh (r,s) per message')");
  if (N >= 3) ctx.nontrivial(d.str());
  SenderRun r = run_sender(ctx, G, v, M, query_lines(Q));
  std::string tail = std::string(r.stalled ? " (stalled)" : "") + " " + r.what + ": " + d.str();
  if (r.threw) { ctx.fail(sig(v, "honest-run-throws"), "sender threw on the harness chooser's honest first move" + tail); return; }
  if (!r.ret || !r.complete) { ctx.fail(sig(v, "sender-refuses-honest-chooser"), "sender returned " + std::to_string(r.ret) + " with " + std::to_string(r.resp.size()) + " answer lines on the harness chooser's honest first move" + tail); return; }
  for (size_t j = 0; j < N; j++) if (!member(G, r.w[j])) ctx.fail(sig(v, "sender-answers-with-non-member-w"), "w_" + std::to_string(j) + " is not in the order-q subgroup" + tail);
  if (!opens(G, r, M, sigma, sigma, Q.b)) ctx.fail(sig(v, "harness-chooser-misses-chosen-message"), "C_sigma / w_sigma^b != M_sigma" + tail);
  unsigned long attempts = 0;
  for (size_t j = 0; j < N; j++) {
    if (j == sigma) continue;
    const Z *ex[2] = {&Q.b, &Q.a}; const char *en[2] = {"b", "a"};
    for (int e = 0; e < 2; e++) for (int own = 0; own < 2; own++) {
      size_t k = own ? j : sigma; attempts++;
      if (opens(G, r, M, j, k, *ex[e])) { ctx.fail(sig(v, "curious-chooser-decrypts-other-message"), "C_" + std::to_string(j) + " / w_" + std::string(own ? "j" : "sigma") + "^" + en[e] + " == M_" + std::to_string(j) + " (not chosen)" + tail); break; }
    }
  }
  ctx.count("curious_decryption_attempts", (int64_t)attempts);
  check_w_distinct(ctx, v, r.resp, N, d.str());
}

// --------------------------------------------------------------------------- (3) malformed first moves
enum Target { T_X = 0, T_Y = 1, T_ZSIGMA = 2, T_ZOTHER = 3 };
static const char *TNAME[4] = {"x", "y", "z_sigma", "z_other"};
struct Combo { int v, target; std::string mut; bool textual; };
static const std::vector<Combo> &combos() {
  static std::vector<Combo> C;
  if (C.empty()) for (int v = 0; v < 3; v++) for (int t = 0; t < 4; t++) {
    if (v == V_OPT && t == T_ZOTHER) continue; // the optimised first move carries one z only (z_0, derived from sigma)
    for (auto &m : catalogue()) C.push_back({v, t, m.name, m.textual});
    C.push_back({v, t, "fresh-group-element", false}); C.push_back({v, t, "times-order-k-element", false});
    if (t >= T_ZSIGMA) C.push_back({v, t, "copy-of-x", false});
    if (v != V_OPT && t == T_ZSIGMA) { C.push_back({v, t, "copy-of-other-z", false}); C.push_back({v, t, "all-z-equal-z_sigma", false}); }
    if (v != V_OPT && t == T_ZOTHER) { C.push_back({v, t, "copy-of-z_sigma", false}); if (v == V_N) C.push_back({v, t, "copy-of-another-other-z", false}); }
  }
  return C;
}
enum QClass { Q_WELLFORMED, Q_UNPARSABLE, Q_NONMEMBER, Q_COINCIDING };
// reference predicate over what the sender reads (its first `need` lines)
static QClass classify_query(const OtGroup &G, int v, size_t N, const std::vector<std::string> &lines, std::string &why) {
  size_t need = v == V_OPT ? 3 : N + 2; std::vector<Z> val;
  for (size_t i = 0; i < need; i++) {
    if (i >= lines.size()) { why = "line " + std::to_string(i) + " missing"; return Q_UNPARSABLE; }
    Z t; if (!parse62(lines[i], t)) { why = "line " + std::to_string(i) + " is not a number"; return Q_UNPARSABLE; }
    val.push_back(t);
  }
  for (size_t i = 0; i < need; i++) if (!member(G, val[i])) { why = "value " + std::to_string(i) + " is not in the order-q subgroup"; return Q_NONMEMBER; }
  if (v != V_OPT) for (size_t i = 2; i < need; i++) for (size_t j = 2; j < i; j++) if (val[i] == val[j]) { why = "z_" + std::to_string(j - 2) + " == z_" + std::to_string(i - 2); return Q_COINCIDING; }
  return Q_WELLFORMED;
}

VF_ENUM(sender_aborts_on_bad_queries, 574, 2296) { // 287 (variant, line role, mutation) combinations x 2 (thorough 8) repetitions
  size_t idx = ctx.c.raw();
  const std::vector<Combo> &C = combos();
  const Combo &cb = C[idx % C.size()]; size_t rep = idx / C.size();
  int v = cb.v;
  OtGroup &G = pick_otgroup(ctx);
  size_t N = 2;
  if (v != V_2) N = (rep % 2 == 0) ? (size_t)ctx.c.range(2, 3) : (size_t)ctx.c.small(4, 16);
  if (cb.mut == "copy-of-another-other-z" && N < 3) N = 3;
  size_t sigma = ctx.c.index(N);
  std::vector<Z> M = make_messages(ctx, G, N, MC_DISTINCT);
  Query Q = make_query(ctx, G, v, N, sigma, false);
  std::vector<std::string> lines = query_lines(Q);
  // position of the targeted line
  size_t other = (sigma + 1 + ctx.c.index(N - 1)) % N; // some index != sigma
  size_t pos = cb.target == T_X ? 0 : cb.target == T_Y ? 1 : v == V_OPT ? 2 : cb.target == T_ZSIGMA ? 2 + sigma : 2 + other;
  std::ostringstream d; d << VNAME[v] << " " << G.desc << " N=" << N << " sigma=" << sigma << " line=" << pos << "(" << TNAME[cb.target] << ") mutation=" << cb.mut;
  Z orig; parse62(lines[pos], orig);
  if (cb.textual) {
    size_t at = pos; if (cb.mut == "swap-with-next" && at + 1 >= lines.size()) at--;
    if (!mutate_text(cb.mut, lines, at)) { ctx.desc << d.str() << " (not applicable)"; ctx.discard(); return; }
  } else {
    Z nv; bool ok = true;
    if (cb.mut == "fresh-group-element") { nv = rand_elem(ctx, G); if (nv == orig) nv = zmod(nv * G.g, G.p); }
    else if (cb.mut == "times-order-k-element") { Z h; ok = mutate_value(ctx, "order-k-element", orig, G.p, G.q, h); nv = zmod(orig * h, G.p); }
    else if (cb.mut == "copy-of-x") nv = Q.x;
    else if (cb.mut == "copy-of-other-z") nv = Q.z[other];
    else if (cb.mut == "copy-of-z_sigma") nv = Q.z[sigma];
    else if (cb.mut == "copy-of-another-other-z") { size_t o2 = other; for (size_t t = 0; t < N; t++) if (t != sigma && t != other) { o2 = t; break; } nv = Q.z[o2]; d << " (z_" << other << " := z_" << o2 << ")"; }
    else if (cb.mut == "all-z-equal-z_sigma") { for (size_t i = 0; i < N; i++) lines[2 + i] = lines[2 + sigma]; nv = orig; }
    else ok = mutate_value(ctx, cb.mut, orig, G.p, G.q, nv);
    if (!ok) { ctx.desc << d.str() << " (not applicable)"; ctx.discard(); return; }
    if (cb.mut != "all-z-equal-z_sigma") lines[pos] = z62(nv);
    if (mpz_sizeinbase(nv.get_mpz_t(), 2) < 600) d << " value=" << S(nv);
  }
  std::string why; QClass qc = classify_query(G, v, N, lines, why);
  static const char *QN[4] = {"well-formed(unjudged)", "refuse:unparsable-or-missing-line", "refuse:non-member", "refuse:coinciding-z"};
  d << " expect=" << QN[qc] << (why.empty() ? "" : " [" + why + "]");
  ctx.desc << d.str();
  ctx.label(std::string("variant:") + VNAME[v]); ctx.label(std::string("line:") + TNAME[cb.target]); ctx.label("mutation:" + cb.mut); ctx.label(std::string("expect:") + QN[qc]);
  if (qc != Q_WELLFORMED || N >= 3) ctx.nontrivial(d.str());
  SenderRun r = run_sender(ctx, G, v, M, lines);
  std::string tail = std::string(r.stalled ? " (stalled)" : "") + " " + r.what + ": " + d.str();
  if (r.threw && r.what == "?") { ctx.fail(sig(v, "sender-throws-non-standard-exception"), "sender threw something that is not a std::exception" + tail); return; }
  bool accepted = r.ret && !r.threw;
  // what does the chooser side (which knows a and b) open?
  size_t opened = 0; std::string which;
  if (r.complete) for (size_t j = 0; j < N; j++) if (opens(G, r, M, j, j, Q.b) || opens(G, r, M, j, j, Q.a)) { opened++; which += " M_" + std::to_string(j); }
  if (qc == Q_WELLFORMED) {
    ctx.label(accepted ? "unjudged:sender-continued" : "unjudged:sender-refused"); ctx.count("unjudged_mutations");
    if (opened > 1) ctx.fail(sig(v, "curious-chooser-decrypts-other-message"), "a well-formed (mutated) query opened " + std::to_string(opened) + " messages:" + which + tail);
    return;
  }
  ctx.count("judged_mutations");
  ctx.label(r.threw ? "refused-by-exception" : !r.ret ? "refused-by-return-value" : "ACCEPTED");
  if (!accepted && !r.resp.empty()) ctx.label("refused-after-sending-answer-lines(not judged)");
  if (accepted) {
    std::string extra = "; the chooser side then opens " + std::to_string(opened) + " message(s):" + which;
    if (qc == Q_COINCIDING) ctx.fail(sig(v, "sender-accepts-coinciding-queries"), "sender returned true on a first move with " + why + extra + tail);
    else if (qc == Q_NONMEMBER) ctx.fail(sig(v, "sender-accepts-non-member-query"), "sender returned true on a first move where " + why + extra + tail);
    else ctx.fail(sig(v, "sender-accepts-unparsable-query"), "sender returned true on a first move where " + why + extra + tail);
  }
}
