// C20 — OpenPGP signatures and encryption are tamper-evident.
//
// Oracles (fault enumeration):
//  (a) positive: every untouched artefact the library creates verifies / decrypts to the original;
//      hash inputs, key IDs and MDCs are re-computed here with libgcrypt's message digests only.
//  (b) negative: every single-byte flip (and the listed structural faults) of a protected field is refused.
//      Protected = version, type, algorithms, hashed area (incl. its length), left 16 bits, signature MPI
//      values, key/user-ID packet bodies, signed documents, ciphertext, MDC, AEAD tags and associated data.
//      Not protected (never judged): packet framing (tag, length octets), unhashed area, MPI bit counts.
//  (c) validity: expired / older-than-key / far-future / weak-hash signatures are refused by CheckValidity
//      and by the key-block checks that use it.
// Every negative case that feeds mutated bytes to a parser runs in a forked child (the pinned decoder has
// memory-safety defects owned by C12): a dying child counts as "not accepted", its input is handed to C12.
#include "fix.hh"
#include <sys/wait.h>
#include <sys/types.h>
#include <signal.h>
#include <fcntl.h>
#include <dirent.h>
#include <algorithm>
#include <memory>
using namespace vf;
const char *vf::PROPERTY = "C20";
void vf::harness_init() {}

typedef CallasDonnerhackeFinneyShawThayerRFC4880 PGP;
typedef tmcg_openpgp_octets_t Oct;
typedef tmcg_openpgp_secure_octets_t SOct;

// =========================================================================== small utilities
static std::string hexs(const Oct &o, size_t max = 24) {
  static const char *d = "0123456789abcdef"; std::string s;
  for (size_t i = 0; i < o.size() && i < max; i++) { s += d[o[i] >> 4]; s += d[o[i] & 15]; }
  if (o.size() > max) s += "..(" + std::to_string(o.size()) + "B)";
  return s;
}
static uint64_t hash_oct(const Oct &o, uint64_t h = 1469598103934665603ULL) { for (unsigned char ch : o) { h ^= ch; h *= 1099511628211ULL; } return mix64(h); }
static std::string hkey(const Oct &o) { char b[32]; snprintf(b, sizeof b, "%016llx", (unsigned long long)hash_oct(o)); return b; }
static Oct cat(const Oct &a, const Oct &b) { Oct r(a); r.insert(r.end(), b.begin(), b.end()); return r; }
static void app(Oct &a, const Oct &b) { a.insert(a.end(), b.begin(), b.end()); }
static Oct stream_bytes(uint64_t seed, size_t n) { Oct o(n); for (size_t i = 0; i < n; i++) o[i] = (unsigned char)(mix64(seed ^ mix64(i + 0x51ED)) >> 24); return o; }
static time_t vtime() { return time(NULL); }
static SOct to_secure(const Oct &o) { SOct s; for (auto b : o) s.push_back(b); return s; }
static Oct from_secure(const SOct &o) { Oct s; for (auto b : o) s.push_back(b); return s; }

// --- message digests straight from libgcrypt (own id mapping, RFC 4880 9.4)
static int md_of(int pgp) {
  switch (pgp) { case 1: return GCRY_MD_MD5; case 2: return GCRY_MD_SHA1; case 3: return GCRY_MD_RMD160; case 8: return GCRY_MD_SHA256; case 9: return GCRY_MD_SHA384;
    case 10: return GCRY_MD_SHA512; case 11: return GCRY_MD_SHA224; case 12: return GCRY_MD_SHA3_256; case 14: return GCRY_MD_SHA3_512; default: return 0; }
}
static const char *hash_name(int pgp) {
  switch (pgp) { case 1: return "MD5"; case 2: return "SHA1"; case 3: return "RMD160"; case 8: return "SHA256"; case 9: return "SHA384"; case 10: return "SHA512"; case 11: return "SHA224"; case 12: return "SHA3-256"; case 14: return "SHA3-512"; default: return "?"; }
}
static bool md_available(int pgp) { int a = md_of(pgp); return a && gcry_md_test_algo(a) == 0; }
static Oct H(int pgp, const Oct &in) {
  int a = md_of(pgp); size_t l = gcry_md_get_algo_dlen(a); Oct o(l); unsigned char dummy = 0;
  gcry_md_hash_buffer(a, o.data(), in.empty() ? &dummy : in.data(), in.size()); return o;
}
static void put32(Oct &o, uint32_t v) { o.push_back(v >> 24); o.push_back(v >> 16); o.push_back(v >> 8); o.push_back(v); }

// =========================================================================== keys (libgcrypt-made, cached as S-expression text)
struct Key {
  std::string name; tmcg_openpgp_pkalgo_t algo = TMCG_OPENPGP_PKALGO_RSA; gcry_sexp_t full = nullptr, pub = nullptr;
  std::vector<gcry_mpi_t> m;          // public parameters in OpenPGP order (rsa: n e; dsa: p q g y; elg: p g y; ecc: q with prefix octet)
  std::vector<gcry_mpi_t> sec;        // rsa: d p q u; elg/dsa: x; ecc: d
  const tmcg_openpgp_byte_t *oid = nullptr; size_t oidlen = 0; std::string curve;
  tmcg_openpgp_hashalgo_t kdfh = TMCG_OPENPGP_HASHALGO_SHA256; tmcg_openpgp_skalgo_t kdfs = TMCG_OPENPGP_SKALGO_AES128;
  unsigned qbits = 0; bool ecc = false, can_sign = false;
};
static gcry_mpi_t mpi_from_bytes(const Oct &b) { gcry_mpi_t m = nullptr; gcry_mpi_scan(&m, GCRYMPI_FMT_USG, b.data(), b.size(), NULL); return m; }
static Oct mpi_bytes(gcry_mpi_t m) { size_t n = (gcry_mpi_get_nbits(m) + 7) / 8; Oct o(n ? n : 1, 0); size_t w = 0; if (n) gcry_mpi_print(GCRYMPI_FMT_USG, o.data(), n, &w, m); o.resize(n); return o; }
static Oct opaque_param(gcry_sexp_t key, const char *tok) {
  Oct o; gcry_sexp_t l = gcry_sexp_find_token(key, tok, 0); if (!l) return o; size_t n = 0; const char *d = gcry_sexp_nth_data(l, 1, &n);
  if (d) o.assign((const unsigned char *)d, (const unsigned char *)d + n); gcry_sexp_release(l); return o;
}
struct KeySpec { const char *name; const char *gen; tmcg_openpgp_pkalgo_t algo; const char *curve; };
static const KeySpec KEYSPECS[] = {
  {"rsa2048a", "(genkey (rsa (nbits 4:2048)(transient-key)))", TMCG_OPENPGP_PKALGO_RSA, ""},
  {"rsa2048b", "(genkey (rsa (nbits 4:2048)(transient-key)))", TMCG_OPENPGP_PKALGO_RSA, ""},
  {"dsa2048a", "(genkey (dsa (nbits 4:2048)(qbits 3:256)(transient-key)))", TMCG_OPENPGP_PKALGO_DSA, ""},
  {"dsa2048b", "(genkey (dsa (nbits 4:2048)(qbits 3:256)(transient-key)))", TMCG_OPENPGP_PKALGO_DSA, ""},
  {"dsa1024", "(genkey (dsa (nbits 4:1024)(qbits 3:160)(transient-key)))", TMCG_OPENPGP_PKALGO_DSA, ""},
  {"ecdsa256a", "(genkey (ecdsa (curve \"NIST P-256\")))", TMCG_OPENPGP_PKALGO_ECDSA, "NIST P-256"},
  {"ecdsa256b", "(genkey (ecdsa (curve \"NIST P-256\")))", TMCG_OPENPGP_PKALGO_ECDSA, "NIST P-256"},
  {"ecdsa384", "(genkey (ecdsa (curve \"NIST P-384\")))", TMCG_OPENPGP_PKALGO_ECDSA, "NIST P-384"},
  {"eddsa-a", "(genkey (ecc (curve Ed25519)(flags eddsa)))", TMCG_OPENPGP_PKALGO_EDDSA, "Ed25519"},
  {"eddsa-b", "(genkey (ecc (curve Ed25519)(flags eddsa)))", TMCG_OPENPGP_PKALGO_EDDSA, "Ed25519"},
  {"elg2048", "(genkey (elg (nbits 4:2048)(transient-key)))", TMCG_OPENPGP_PKALGO_ELGAMAL, ""},
  {"rsa2048e", "(genkey (rsa (nbits 4:2048)(transient-key)))", TMCG_OPENPGP_PKALGO_RSA_ENCRYPT_ONLY, ""},
  {"ecdh25519", "(genkey (ecc (curve Curve25519)(flags djb-tweak)))", TMCG_OPENPGP_PKALGO_ECDH, "Curve25519"},
  {"ecdh256", "(genkey (ecdh (curve \"NIST P-256\")))", TMCG_OPENPGP_PKALGO_ECDH, "NIST P-256"},
};
static const size_t NKEYS = sizeof(KEYSPECS) / sizeof(KEYSPECS[0]);
static Key *load_key(const KeySpec &sp) {
  std::string text = cached_fixture(std::string("c20key-") + sp.name, [&]() {
    gcry_sexp_t parms = nullptr, k = nullptr; size_t eo = 0;
    if (gcry_sexp_build(&parms, &eo, sp.gen)) throw std::runtime_error(std::string("fixture: bad genkey spec ") + sp.name);
    gcry_error_t e = gcry_pk_genkey(&k, parms); gcry_sexp_release(parms);
    if (e) throw std::runtime_error(std::string("fixture: gcry_pk_genkey failed for ") + sp.name + ": " + gcry_strerror(e));
    size_t n = gcry_sexp_sprint(k, GCRYSEXP_FMT_ADVANCED, NULL, 0); std::string s(n, '\0'); gcry_sexp_sprint(k, GCRYSEXP_FMT_ADVANCED, &s[0], n);
    while (!s.empty() && s.back() == '\0') s.pop_back(); gcry_sexp_release(k); return s; });
  Key *K = new Key(); K->name = sp.name; K->algo = sp.algo; K->curve = sp.curve;
  if (gcry_sexp_sscan(&K->full, NULL, text.c_str(), text.size())) throw std::runtime_error(std::string("fixture: cannot parse cached key ") + sp.name);
  K->pub = gcry_sexp_find_token(K->full, "public-key", 0);
  auto ext = [&](const char *list, std::vector<gcry_mpi_t> &dst, size_t cnt) {
    gcry_mpi_t v[6] = {0, 0, 0, 0, 0, 0};
    gcry_error_t e = gcry_sexp_extract_param(K->full, NULL, list, &v[0], cnt > 1 ? &v[1] : NULL, cnt > 2 ? &v[2] : NULL, cnt > 3 ? &v[3] : NULL, NULL);
    if (e) throw std::runtime_error(std::string("fixture: extract ") + list + " failed for " + sp.name);
    for (size_t i = 0; i < cnt; i++) dst.push_back(v[i]);
  };
  switch (sp.algo) {
    case TMCG_OPENPGP_PKALGO_RSA: case TMCG_OPENPGP_PKALGO_RSA_ENCRYPT_ONLY: ext("ne", K->m, 2); ext("dpqu", K->sec, 4); K->can_sign = sp.algo == TMCG_OPENPGP_PKALGO_RSA; break;
    case TMCG_OPENPGP_PKALGO_DSA: ext("pqgy", K->m, 4); ext("x", K->sec, 1); K->qbits = gcry_mpi_get_nbits(K->m[1]); K->can_sign = true; break;
    case TMCG_OPENPGP_PKALGO_ELGAMAL: ext("pgy", K->m, 3); ext("x", K->sec, 1); break;
    default: {
      K->ecc = true; K->can_sign = sp.algo != TMCG_OPENPGP_PKALGO_ECDH;
      Oct q = opaque_param(K->pub, "q"), d; { gcry_sexp_t prv = gcry_sexp_find_token(K->full, "private-key", 0); d = opaque_param(prv, "d"); gcry_sexp_release(prv); }
      if (q.empty() || d.empty()) throw std::runtime_error(std::string("fixture: no q/d in ") + sp.name);
      if (K->curve == "Ed25519" && q.size() == 32) q.insert(q.begin(), 0x40); // OpenPGP native point format
      K->m.push_back(mpi_from_bytes(q)); K->sec.push_back(mpi_from_bytes(d));
      for (size_t idx = 0; tmcg_openpgp_oidtable[idx].name != NULL; idx++) if (K->curve == tmcg_openpgp_oidtable[idx].name) { K->oidlen = tmcg_openpgp_oidtable[idx].oid[0]; K->oid = tmcg_openpgp_oidtable[idx].oid + 1; }
      if (!K->oid) throw std::runtime_error(std::string("fixture: no OID for ") + sp.name);
      if (K->curve == "NIST P-384") K->kdfh = TMCG_OPENPGP_HASHALGO_SHA384, K->kdfs = TMCG_OPENPGP_SKALGO_AES192;
      if (K->curve == "Curve25519") K->kdfs = TMCG_OPENPGP_SKALGO_AES128;
    }
  }
  return K;
}
static std::vector<Key *> &keys() { static std::vector<Key *> v; if (v.empty()) for (size_t i = 0; i < NKEYS; i++) v.push_back(load_key(KEYSPECS[i])); return v; }
static Key &key_named(const std::string &n) { for (auto k : keys()) if (k->name == n) return *k; throw std::runtime_error("no key " + n); }
static std::vector<Key *> signing_keys() { std::vector<Key *> v; for (auto k : keys()) if (k->can_sign) v.push_back(k); return v; }
static const char *algo_name(int a) {
  switch (a) { case 1: return "rsa"; case 2: return "rsa-e"; case 3: return "rsa-s"; case 16: return "elgamal"; case 17: return "dsa"; case 18: return "ecdh"; case 19: return "ecdsa"; case 22: return "eddsa"; default: return "other"; }
}

// OpenPGP key packets made by the library from the pooled keys
static Oct key_packet(const Key &k, time_t t, bool subkey) {
  Oct out;
  if (k.ecc) { if (subkey) PGP::PacketSubEncode(t, k.algo, k.oidlen, k.oid, k.m[0], k.kdfh, k.kdfs, out); else PGP::PacketPubEncode(t, k.algo, k.oidlen, k.oid, k.m[0], k.kdfh, k.kdfs, out); return out; }
  gcry_mpi_t p = k.m[0], q = k.m[0], g = k.m[0], y = k.m[0];
  switch (k.algo) {
    case TMCG_OPENPGP_PKALGO_RSA: case TMCG_OPENPGP_PKALGO_RSA_ENCRYPT_ONLY: q = k.m[1]; break;
    case TMCG_OPENPGP_PKALGO_DSA: q = k.m[1]; g = k.m[2]; y = k.m[3]; break;
    case TMCG_OPENPGP_PKALGO_ELGAMAL: g = k.m[1]; y = k.m[2]; break;
    default: break;
  }
  if (subkey) PGP::PacketSubEncode(t, k.algo, p, q, g, y, out); else PGP::PacketPubEncode(t, k.algo, p, q, g, y, out);
  return out;
}
static Oct body_of(const Oct &pkt) { Oct b; PGP::PacketBodyExtract(pkt, 0, b); return b; }
// library public-key object built through the public constructors (no parser involved); mp overrides the public parameters
static TMCG_OpenPGP_Pubkey *pubkey_object(const Key &k, time_t t, const Oct &pkt, const std::vector<gcry_mpi_t> *mp = nullptr) {
  const std::vector<gcry_mpi_t> &m = mp ? *mp : k.m;
  if (k.ecc) return new TMCG_OpenPGP_Pubkey(k.algo, t, 0, k.oidlen, k.oid, m[0], pkt);
  if (k.algo == TMCG_OPENPGP_PKALGO_DSA) return new TMCG_OpenPGP_Pubkey(k.algo, t, 0, m[0], m[1], m[2], m[3], pkt);
  return new TMCG_OpenPGP_Pubkey(k.algo, t, 0, m[0], m[1], pkt);
}
// RFC 4880 12.2: fingerprint = SHA1(0x99 || len2 || body), key ID = low 64 bits
static Oct my_fingerprint(const Oct &body) { Oct in; in.push_back(0x99); in.push_back(body.size() >> 8); in.push_back(body.size()); app(in, body); return H(2, in); }

// =========================================================================== packet layout knowledge (own splitter, new-format headers only)
struct Span { int tag; size_t off, hdr, body; size_t end() const { return off + hdr + body; } };
static bool split_packets(const Oct &in, std::vector<Span> &out) {
  size_t p = 0;
  while (p < in.size()) {
    if ((in[p] & 0xC0) != 0xC0) return false; Span s; s.tag = in[p] & 0x3F; s.off = p;
    if (p + 1 >= in.size()) return false; unsigned l0 = in[p + 1];
    if (l0 < 192) { s.hdr = 2; s.body = l0; }
    else if (l0 < 224) { if (p + 2 >= in.size()) return false; s.hdr = 3; s.body = ((l0 - 192) << 8) + in[p + 2] + 192; }
    else if (l0 == 255) { if (p + 5 >= in.size()) return false; s.hdr = 6; s.body = ((size_t)in[p + 2] << 24) | ((size_t)in[p + 3] << 16) | ((size_t)in[p + 4] << 8) | in[p + 5]; }
    else return false;
    if (s.end() > in.size()) return false; out.push_back(s); p = s.end();
  }
  return true;
}
enum Region { R_FRAMING, R_VERSION, R_TYPE, R_PKALGO, R_HASHALGO, R_HLEN, R_HASHED, R_ULEN, R_UNHASHED, R_LEFT16, R_MPIBITS, R_MPIVAL, R_KEYBODY, R_UIDBODY, R_ESKFIELD, R_CIPHERTEXT, R_AEADHDR, R_OTHER };
static const char *region_name(Region r) {
  static const char *n[] = {"framing", "version", "type", "pkalgo", "hashalgo", "hashed-length", "hashed-area", "unhashed-length", "unhashed-area", "left16", "mpi-bitcount", "signature-value", "key-body", "userid-body", "esk-field", "ciphertext", "aead-header", "other"};
  return n[r];
}
// protected by the signature / integrity mechanism => a flip there must be refused
static bool region_protected(Region r) {
  switch (r) { case R_VERSION: case R_TYPE: case R_PKALGO: case R_HASHALGO: case R_HLEN: case R_HASHED: case R_LEFT16: case R_MPIVAL: case R_KEYBODY: case R_UIDBODY: case R_CIPHERTEXT: case R_AEADHDR: return true; default: return false; }
}
// region of byte `pos` (offset in the stream) inside a v4/v5 signature packet spanning `s`
static Region sig_region(const Oct &in, const Span &s, size_t pos) {
  if (pos < s.off + s.hdr) return R_FRAMING;
  size_t b = pos - s.off - s.hdr; const unsigned char *p = in.data() + s.off + s.hdr;
  if (b == 0) return R_VERSION; if (b == 1) return R_TYPE; if (b == 2) return R_PKALGO; if (b == 3) return R_HASHALGO; if (b < 6) return R_HLEN;
  size_t hl = ((size_t)p[4] << 8) | p[5]; if (b < 6 + hl) return R_HASHED; if (b < 8 + hl) return R_ULEN;
  size_t ul = ((size_t)p[6 + hl] << 8) | p[7 + hl]; if (b < 8 + hl + ul) return R_UNHASHED; if (b < 10 + hl + ul) return R_LEFT16;
  size_t m = 10 + hl + ul;
  while (m + 2 <= s.body) { size_t bits = ((size_t)p[m] << 8) | p[m + 1], len = (bits + 7) / 8; if (b < m + 2) return R_MPIBITS; if (b < m + 2 + len) return R_MPIVAL; m += 2 + len; }
  return R_OTHER;
}

// =========================================================================== forked evaluation of parser-facing faults
static std::string handoff_dir() {
  static std::string d;
  if (d.empty()) {
    char buf[4096]; ssize_t n = readlink("/proc/self/exe", buf, sizeof buf - 1); std::string exe = n > 0 ? std::string(buf, n) : "/verif/build/asan/bin/x";
    size_t sl = exe.rfind('/'); std::string bin = exe.substr(0, sl); // .../build/<flavour>/bin
    std::string root = bin + "/../../handoff"; mkdir(root.c_str(), 0755); d = root + "/C12"; mkdir(d.c_str(), 0755);
  }
  return d;
}
static void handoff(const Oct &bytes, const char *what) {
  static int written = 0; if (written > 300) return; written++;
  std::string p = handoff_dir() + "/c20-" + what + "-" + hkey(bytes) + ".bin"; struct stat st; if (stat(p.c_str(), &st) == 0) return;
  std::string t = p + ".tmp" + std::to_string(getpid()); { std::ofstream f(t, std::ios::binary); f.write((const char *)bytes.data(), bytes.size()); } rename(t.c_str(), p.c_str());
}
enum { F_REFUSED = 0, F_CRASHED = 0xFE, F_TIMEOUT = 0xFD, F_UNSET = 0xFF };
// Runs eval(i) for i in [0,n) inside forked children; eval returns a small result code (< 0xF0; 0 = refused).
// A child that dies at fault i is restarted at i+1.  `input(i)` gives the bytes that were fed to the parser (for the C12 hand-off).
static std::vector<unsigned char> run_forked(Ctx &ctx, size_t n, const std::function<unsigned char(size_t)> &eval, const std::function<Oct(size_t)> &input, const char *what) {
  std::vector<unsigned char> res(n, F_UNSET); size_t start = 0; int restarts = 0;
  while (start < n) {
    int pfd[2]; if (pipe(pfd)) throw std::runtime_error("pipe failed");
    fflush(stdout); fflush(stderr);
    pid_t pid = fork(); if (pid < 0) throw std::runtime_error("fork failed");
    if (pid == 0) {
      close(pfd[0]); signal(SIGALRM, SIG_DFL);
      for (size_t i = start; i < n; i++) {
        alarm(20); unsigned char r = 0; PGP::MemoryGuardReset();
        try { r = eval(i); } catch (...) { r = 0; } // an exception out of a parser is a refusal
        alarm(0); if (write(pfd[1], &r, 1) != 1) _exit(3);
      }
      _exit(0);
    }
    close(pfd[1]); size_t got = 0; unsigned char buf[4096]; ssize_t k;
    while ((k = read(pfd[0], buf, sizeof buf)) > 0) for (ssize_t j = 0; j < k && start + got < n; j++) res[start + got++] = buf[j];
    close(pfd[0]); int status = 0; while (waitpid(pid, &status, 0) < 0 && errno == EINTR) {}
    if (start + got < n) {
      bool timeout = WIFSIGNALED(status) && WTERMSIG(status) == SIGALRM;
      res[start + got] = timeout ? F_TIMEOUT : F_CRASHED; ctx.count(timeout ? "child_timeout" : "child_crashed");
      handoff(input(start + got), what); start += got + 1;
      if (++restarts > 400) throw std::runtime_error("too many child restarts");
    } else start = n;
  }
  return res;
}

// fault position/mask plan for byte flips over an artefact of `len` bytes: all positions when len <= cap, a sample otherwise
struct FlipPlan { std::vector<size_t> pos; std::vector<unsigned char> mask; };
static unsigned char flip_mask(uint64_t seed, size_t i, unsigned mode) {
  switch (mode) { case 1: return 0xFF; case 2: return 0x01; case 3: return 0x80; case 4: { unsigned char m = (unsigned char)(mix64(seed ^ mix64(i + 99)) >> 11); return m ? m : 0x5A; } default: return (unsigned char)(1u << (mix64(seed ^ mix64(i + 7)) & 7)); }
}
static FlipPlan plan_flips(Ctx &ctx, size_t len, size_t cap) {
  FlipPlan P; uint64_t seed = ctx.c.raw64(); unsigned mode = (unsigned)ctx.c.weighted({6, 1, 1, 1, 3});
  if (len <= cap) for (size_t i = 0; i < len; i++) P.pos.push_back(i);
  else { std::set<size_t> s; s.insert(0); s.insert(len - 1); for (size_t j = 0; s.size() < cap; j++) s.insert((size_t)(mix64(seed ^ mix64(j + 12345)) % len)); P.pos.assign(s.begin(), s.end()); }
  for (size_t p : P.pos) P.mask.push_back(flip_mask(seed, p, mode));
  return P;
}

// =========================================================================== signing with the library
struct Mpis { gcry_mpi_t r, s; Mpis() : r(gcry_mpi_new(8)), s(gcry_mpi_new(8)) {} ~Mpis() { gcry_mpi_release(r); gcry_mpi_release(s); } };
static gcry_error_t lib_sign(const Key &k, const Oct &hash, tmcg_openpgp_hashalgo_t h, Mpis &o) {
  switch (k.algo) {
    case TMCG_OPENPGP_PKALGO_RSA: return PGP::AsymmetricSignRSA(hash, k.full, h, o.s);
    case TMCG_OPENPGP_PKALGO_DSA: return PGP::AsymmetricSignDSA(hash, k.full, o.r, o.s);
    case TMCG_OPENPGP_PKALGO_ECDSA: return PGP::AsymmetricSignECDSA(hash, k.full, o.r, o.s);
    case TMCG_OPENPGP_PKALGO_EDDSA: return PGP::AsymmetricSignEdDSA(hash, k.full, o.r, o.s);
    default: return gcry_error(GPG_ERR_PUBKEY_ALGO);
  }
}
static Oct sig_packet(const Key &k, const Oct &trailer, const Oct &left, Mpis &m) {
  Oct out; if (k.algo == TMCG_OPENPGP_PKALGO_RSA) PGP::PacketSigEncode(trailer, left, m.s, out); else PGP::PacketSigEncode(trailer, left, m.r, m.s, out); return out;
}
static bool hash_fits_key(const Key &k, int h) { // DSA: the library demands |hash| >= |q|
  if (!md_available(h)) return false;
  if (k.algo == TMCG_OPENPGP_PKALGO_DSA) return gcry_md_get_algo_dlen(md_of(h)) * 8 >= k.qbits;
  return true;
}
static const int STRONG_HASHES[] = {8, 9, 10, 12, 14}; // what CheckValidity documents as acceptable
static const int WEAK_HASHES[] = {1, 2, 3};
static tmcg_openpgp_hashalgo_t pick_hash(Ctx &ctx, const Key &k, bool allow_weak) {
  for (int tries = 0; tries < 20; tries++) {
    int h; unsigned w = (unsigned)ctx.c.weighted({10, (unsigned)(allow_weak ? 2 : 0), 1});
    if (w == 0) h = STRONG_HASHES[ctx.c.index(5)]; else if (w == 1) h = WEAK_HASHES[ctx.c.index(3)]; else h = 11;
    if (hash_fits_key(k, h)) return (tmcg_openpgp_hashalgo_t)h;
  }
  return TMCG_OPENPGP_HASHALGO_SHA512;
}
static bool is_strong(int h) { for (int s : STRONG_HASHES) if (s == h) return true; return false; }
static bool is_weak(int h) { for (int s : WEAK_HASHES) if (s == h) return true; return false; }

// --- documents
static Oct gen_binary_doc(Ctx &ctx, size_t len) { return stream_bytes(ctx.c.raw64(), len); }
static Oct gen_text_doc(Ctx &ctx, size_t approx, bool &lone_cr) {
  Oct d; uint64_t seed = ctx.c.raw64(); size_t i = 0; lone_cr = false; unsigned endmix = (unsigned)ctx.c.index(4); // 0 LF, 1 CRLF, 2 mixed, 3 mixed incl. lone CR
  while (d.size() < approx) {
    size_t ll = (size_t)(mix64(seed ^ mix64(++i)) % 40);
    for (size_t j = 0; j < ll && d.size() < approx; j++) { unsigned char ch = 0x20 + (unsigned char)(mix64(seed ^ mix64(i * 131 + j)) % 95); d.push_back(ch); }
    if (d.size() >= approx && (mix64(seed ^ i) & 1)) break; // sometimes no final line ending
    unsigned e = endmix == 0 ? 0 : endmix == 1 ? 1 : (unsigned)(mix64(seed ^ mix64(i + 777)) % (endmix == 2 ? 2 : 3));
    if (e == 0) d.push_back('\n'); else if (e == 1) { d.push_back('\r'); d.push_back('\n'); } else { d.push_back('\r'); lone_cr = true; }
  }
  // a CR directly followed by LF that came from "lone CR" + "LF line" is a CRLF, fine; re-detect lone CRs exactly
  lone_cr = false; for (size_t j = 0; j < d.size(); j++) if (d[j] == '\r' && (j + 1 >= d.size() || d[j + 1] != '\n')) lone_cr = true;
  return d;
}
static Oct to_lf(const Oct &d) { Oct o; for (size_t j = 0; j < d.size(); j++) { if (d[j] == '\r' && j + 1 < d.size() && d[j + 1] == '\n') continue; o.push_back(d[j]); } return o; }
static Oct to_crlf(const Oct &d) { Oct o; unsigned char last = 0; for (auto ch : d) { if (ch == '\n' && last != '\r') o.push_back('\r'); o.push_back(ch); last = ch; } return o; }
static size_t pick_doc_len(Ctx &ctx, std::string &cls) {
  switch (ctx.c.weighted({1, 1, 4, 4, (unsigned)(ctx.thorough ? 2 : 1)})) {
    case 0: cls = "empty"; return 0; case 1: cls = "one-byte"; return 1; case 2: cls = "short"; return (size_t)ctx.c.range(2, 64);
    case 3: cls = "medium"; return (size_t)ctx.c.range(65, 600); default: cls = "long"; return (size_t)ctx.c.range(601, 10000);
  }
}

// a detached document signature made by the library; V5 follows the library's own convention (six zero octets after the hashed area)
struct DocSig { Oct trailer, hash, left, pkt; std::string err; bool ok = false; };
static DocSig make_docsig(const Key &k, int version, bool text, tmcg_openpgp_hashalgo_t h, time_t sigtime, time_t exptime, const std::string &policy, const Oct &issuer, const Oct &data) {
  DocSig S; tmcg_openpgp_signature_t type = text ? TMCG_OPENPGP_SIGNATURE_CANONICAL_TEXT_DOCUMENT : TMCG_OPENPGP_SIGNATURE_BINARY_DOCUMENT; bool hr;
  if (version == 5) {
    PGP::PacketSigPrepareDetachedSignatureV5(type, k.algo, h, sigtime, exptime, policy, issuer, S.trailer);
    Oct th = S.trailer; for (int i = 0; i < 6; i++) th.push_back(0);
    hr = text ? PGP::TextDocumentHashV5(data, th, h, S.hash, S.left) : PGP::BinaryDocumentHashV5(data, th, h, S.hash, S.left);
  } else {
    PGP::PacketSigPrepareDetachedSignature(type, k.algo, h, sigtime, exptime, policy, issuer, S.trailer);
    hr = text ? PGP::TextDocumentHash(data, S.trailer, h, S.hash, S.left) : PGP::BinaryDocumentHash(data, S.trailer, h, S.hash, S.left);
  }
  if (!hr) { S.err = "document hash function returned false"; return S; }
  Mpis m; gcry_error_t e = lib_sign(k, S.hash, h, m);
  if (e) { S.err = std::string("sign: ") + gcry_strerror(e); return S; }
  S.pkt = sig_packet(k, S.trailer, S.left, m); S.ok = true; return S;
}
// RFC 4880 5.2.4 hash input of a V4 document signature, computed without the library
static Oct my_doc_hash_v4(int h, bool text, const Oct &data, const Oct &trailer) {
  Oct in = text ? to_crlf(data) : data; app(in, trailer); in.push_back(0x04); in.push_back(0xFF); put32(in, (uint32_t)trailer.size()); return H(h, in);
}
static TMCG_OpenPGP_Signature *parse_sig(const Oct &pkt) { TMCG_OpenPGP_Signature *s = nullptr; if (!PGP::SignatureParse(pkt, 0, s)) return nullptr; return s; }

// =========================================================================== (1) document signatures
VF_SUB(sig_document_roundtrip_and_flips, 240, 9000) {
  PGP::MemoryGuardReset();
  std::vector<Key *> sk = signing_keys(); Key &k = *sk[ctx.c.index(sk.size())];
  tmcg_openpgp_hashalgo_t h = pick_hash(ctx, k, true);
  bool text = ctx.c.prob(1, 3); int version = ctx.c.prob(1, 5) ? 5 : 4;
  std::string lcls; size_t len = pick_doc_len(ctx, lcls); bool lone_cr = false;
  Oct data = text ? gen_text_doc(ctx, len, lone_cr) : gen_binary_doc(ctx, len);
  time_t keytime = vtime() - (time_t)ctx.c.range(0, 100000000), sigtime = vtime() - (time_t)ctx.c.range(0, 1000);
  if (sigtime < keytime) sigtime = keytime;
  time_t exptime = ctx.c.coin() ? 0 : (time_t)ctx.c.range(2000, 100000000);
  std::string policy = ctx.c.prob(1, 4) ? "https://example.invalid/policy/" + std::to_string(ctx.c.range(0, 999)) : "";
  Oct pubpkt = key_packet(k, keytime, false), pubbody = body_of(pubpkt), fpr, kid; PGP::FingerprintCompute(pubbody, fpr); PGP::KeyidCompute(pubbody, kid);
  bool issuer_fpr = version == 5 || ctx.c.coin(); Oct issuer = issuer_fpr ? fpr : kid;
  std::ostringstream d; d << k.name << " " << hash_name(h) << " v" << version << (text ? " text" : " binary") << " doc=" << lcls << "(" << data.size() << ")" << (exptime ? " expiring" : "") << (policy.empty() ? "" : " policy") << (issuer_fpr ? " issuer=fpr" : " issuer=keyid");
  ctx.desc << d.str();
  ctx.label(std::string("algo:") + algo_name(k.algo)); ctx.label(std::string("hash:") + hash_name(h)); ctx.label(text ? "type:text" : "type:binary"); ctx.label("v" + std::to_string(version)); ctx.label("doc:" + lcls);
  const std::string A = algo_name(k.algo);

  // own fingerprint / key ID
  { Oct f = my_fingerprint(pubbody); Oct id(f.end() - 8, f.end());
    if (f != fpr) ctx.fail("keyid/fingerprint-differs-from-rfc4880", "FingerprintCompute " + hexs(fpr, 40) + " != SHA1(0x99||len||body) " + hexs(f, 40) + " for " + k.name);
    if (id != kid) ctx.fail("keyid/keyid-differs-from-rfc4880", "KeyidCompute " + hexs(kid) + " != " + hexs(id)); }

  DocSig S = make_docsig(k, version, text, h, sigtime, exptime, policy, issuer, data);
  if (!S.ok) { ctx.fail("sig/" + A + "/library-cannot-sign", S.err + " for " + d.str()); return; }
  if (version == 4) { Oct mine = my_doc_hash_v4(h, text, data, S.trailer);
    if (mine != S.hash) ctx.fail(std::string("hash/document/") + (text ? "text" : "binary") + "-differs-from-rfc4880", "library hash " + hexs(S.hash, 64) + ", RFC 4880 5.2.4 gives " + hexs(mine, 64) + " for " + d.str()); }
  if (S.left.size() != 2 || S.left[0] != S.hash[0] || S.left[1] != S.hash[1]) ctx.fail("hash/document/left16-not-hash-prefix", d.str());
  ctx.nontrivial(d.str() + hkey(S.pkt));

  // ---- positive
  std::unique_ptr<TMCG_OpenPGP_Pubkey> pko(pubkey_object(k, keytime, pubpkt));
  if (!pko->Good()) { ctx.fail("key/" + A + "/library-key-object-bad", d.str()); return; }
  gcry_sexp_t vkey = pko->key;
  std::unique_ptr<TMCG_OpenPGP_Signature> sig(parse_sig(S.pkt));
  if (!sig) { ctx.fail("sig/" + A + "/own-signature-unparsable", "SignatureParse refused " + hexs(S.pkt, 400) + " for " + d.str()); return; }
  if (!sig->Good()) { ctx.fail("sig/" + A + "/own-signature-not-good", d.str()); return; }
  if (sig->version != version || sig->pkalgo != k.algo || sig->hashalgo != h || sig->creationtime != sigtime || sig->expirationtime != exptime || sig->type != (text ? 1 : 0))
    ctx.fail("sig/" + A + "/parsed-fields-differ", "parsed version/pkalgo/hashalgo/times/type differ from what was encoded: " + d.str());
  if (!sig->VerifyData(vkey, data, 0)) { ctx.fail("sig/" + A + "/untouched-signature-refused", "VerifyData refused the library's own signature: " + d.str() + " sig=" + hexs(S.pkt, 600)); return; }
  if (!sig->VerifyData(k.pub, data, 0)) ctx.fail("sig/" + A + "/untouched-signature-refused-with-gcrypt-key", d.str());
  { bool cv = sig->CheckValidity(keytime, 0);
    if (is_strong(h) && !cv) ctx.fail("validity/fresh-strong-signature-refused", "CheckValidity refused a fresh signature: " + d.str());
    if (is_weak(h) && cv) ctx.fail("validity/weak-hash-accepted", "CheckValidity accepted " + std::string(hash_name(h)) + ": " + d.str()); }
  if (ctx.c.prob(1, 6)) { // file based entry point
    char tmpl[] = "/tmp/c20doc-XXXXXX"; int fd = mkstemp(tmpl);
    if (fd >= 0) { size_t w = 0; while (w < data.size()) { ssize_t r = write(fd, data.data() + w, data.size() - w); if (r <= 0) break; w += (size_t)r; } close(fd);
      bool ok = sig->Verify(vkey, std::string(tmpl), 0); unlink(tmpl); ctx.label("file-entry-point");
      if (!ok) ctx.fail("sig/" + A + "/untouched-signature-refused-from-file", d.str()); }
  }
  if (text && !lone_cr) { // all line-ending forms that canonicalise identically
    if (!sig->VerifyData(vkey, to_lf(data), 0)) ctx.fail("sig/text/lf-variant-refused", d.str());
    if (!sig->VerifyData(vkey, to_crlf(data), 0)) ctx.fail("sig/text/crlf-variant-refused", d.str());
    ctx.label("text:line-ending-variants");
  }
  if (ctx.failed) return;
  int64_t faults = 0;

  // ---- negative A: every byte of the signature packet (forked: mutated bytes reach the parser)
  {
    std::vector<Span> sp; if (!split_packets(S.pkt, sp) || sp.size() != 1 || sp[0].tag != 2) { ctx.fail("sig/" + A + "/packet-framing-unexpected", hexs(S.pkt, 40)); return; }
    FlipPlan P = plan_flips(ctx, S.pkt.size(), ctx.thorough ? 1200 : 600);
    auto mutated = [&](size_t i) { Oct m = S.pkt; m[P.pos[i]] ^= P.mask[i]; return m; };
    auto res = run_forked(ctx, P.pos.size(), [&](size_t i) -> unsigned char {
      Oct m = mutated(i); TMCG_OpenPGP_Signature *s = nullptr; if (!PGP::SignatureParse(m, 0, s)) return 0;
      bool ok = s->Good() && s->VerifyData(vkey, data, 0); delete s; return ok ? 1 : 0; }, mutated, "sig");
    for (size_t i = 0; i < res.size(); i++) {
      Region r = sig_region(S.pkt, sp[0], P.pos[i]); faults++;
      if (res[i] == 1) {
        if (region_protected(r)) { char b[96]; snprintf(b, sizeof b, " offset %zu xor 0x%02x", P.pos[i], P.mask[i]);
          if (!ctx.fail("sig/" + A + "/flipped-" + region_name(r) + "-accepted", "signature packet with one flipped byte verified:" + std::string(b) + " (" + region_name(r) + ") " + d.str() + " sig=" + hexs(S.pkt, 700))) break; }
        else ctx.count(std::string("accepted_unprotected:") + region_name(r));
      }
    }
    ctx.count("sig_packet_faults", (int64_t)res.size());
  }
  // ---- negative B: the signed document (no parser on mutated bytes: in-process)
  if (!ctx.failed) {
    size_t cap = ctx.thorough ? 1500 : 500; FlipPlan P = plan_flips(ctx, data.size(), cap); size_t n = 0;
    for (size_t i = 0; i < P.pos.size(); i++) {
      Oct m = data; unsigned char &b = m[P.pos[i]]; unsigned char nv = b ^ P.mask[i];
      if (text) { if (b == '\r' || b == '\n') continue; if (nv == '\r' || nv == '\n') nv = b ^ 0x40; if (nv == '\r' || nv == '\n') continue; }
      b = nv; n++;
      if (sig->VerifyData(vkey, m, 0)) { char bb[64]; snprintf(bb, sizeof bb, "offset %zu", P.pos[i]); ctx.fail("sig/" + A + "/flipped-document-accepted", std::string(bb) + " " + d.str()); break; }
    }
    { Oct m = data; m.push_back('x'); n++; if (sig->VerifyData(vkey, m, 0)) ctx.fail("sig/" + A + "/extended-document-accepted", d.str()); }
    if (!data.empty()) { Oct m(data.begin(), data.end() - 1); bool equiv = text && to_crlf(m) == to_crlf(data); n++; if (!equiv && sig->VerifyData(vkey, m, 0)) ctx.fail("sig/" + A + "/truncated-document-accepted", d.str()); }
    faults += (int64_t)n; ctx.count("document_faults", (int64_t)n);
  }
  // ---- negative C: the key material (library key object rebuilt from altered parameters; in-process)
  if (!ctx.failed) {
    size_t n = 0; uint64_t seed = ctx.c.raw64(); size_t per = ctx.thorough ? 48 : 16;
    for (size_t mi = 0; mi < k.m.size() && !ctx.failed; mi++) {
      Oct vb = mpi_bytes(k.m[mi]); std::set<size_t> pos; pos.insert(0); pos.insert(vb.size() - 1);
      for (size_t j = 0; pos.size() < std::min(per, vb.size()); j++) pos.insert((size_t)(mix64(seed ^ mix64(mi * 1000 + j)) % vb.size()));
      for (size_t p : pos) {
        Oct mb = vb; mb[p] ^= flip_mask(seed, p + mi * 4096, 0); std::vector<gcry_mpi_t> mp = k.m; gcry_mpi_t alt = mpi_from_bytes(mb); mp[mi] = alt;
        std::unique_ptr<TMCG_OpenPGP_Pubkey> ko(pubkey_object(k, keytime, pubpkt, &mp)); n++;
        bool acc = ko->Good() && sig->VerifyData(ko->key, data, 0); gcry_mpi_release(alt);
        if (acc) { char bb[96]; snprintf(bb, sizeof bb, "parameter #%zu byte %zu", mi, p); ctx.fail("sig/" + A + "/flipped-key-accepted", std::string(bb) + " " + d.str()); break; }
      }
    }
    for (auto o : sk) if (o != &k && o->algo == k.algo) { n++; if (sig->VerifyData(o->pub, data, 0)) ctx.fail("sig/" + A + "/other-key-accepted", d.str() + " verified with " + o->name); }
    faults += (int64_t)n; ctx.count("key_faults", (int64_t)n);
  }
  ctx.count("faults_injected", faults);
}
