// C20 — OpenPGP signatures and encryption are tamper-evident.
//
// Oracles (fault enumeration):
//  (a) positive: every untouched artefact the library creates verifies / decrypts to the original;
//      hash inputs, key IDs and MDCs are re-computed here with libgcrypt's message digests only.
//  (b) negative: every single-byte flip (and the listed structural faults) of a protected field is refused.
//      Protected = version, type, algorithms, hashed area (incl. its length), left 16 bits, signature MPI
//      values, key/user-ID packet bodies, signed documents, ciphertext, MDC, AEAD tags and associated data.
//      Not protected (never judged): packet framing (tag, length octets), unhashed area, MPI bit counts.
//  (c) validity: expired / older-than-key / far-future / weak-hash signatures are refused by CheckValidity
//      and by the key-block checks that use it.
// Every negative case that feeds mutated bytes to a parser runs in a forked child (the pinned decoder has
// memory-safety defects owned by C12): a dying child counts as "not accepted", its input is handed to C12.
#include "fix.hh"
#include <sys/wait.h>
#include <sys/resource.h>
#include <sys/types.h>
#include <signal.h>
#include <fcntl.h>
#include <dirent.h>
#include <algorithm>
#include <memory>
using namespace vf;
const char *vf::PROPERTY = "C20";
static void bench_fork();
void vf::harness_init() { if (getenv("C20_BENCH")) bench_fork(); }

typedef CallasDonnerhackeFinneyShawThayerRFC4880 PGP;
typedef tmcg_openpgp_octets_t Oct;
typedef tmcg_openpgp_secure_octets_t SOct;

// =========================================================================== small utilities
static std::string hexs(const Oct &o, size_t max = 24) {
  static const char *d = "0123456789abcdef"; std::string s;
  for (size_t i = 0; i < o.size() && i < max; i++) { s += d[o[i] >> 4]; s += d[o[i] & 15]; }
  if (o.size() > max) s += "..(" + std::to_string(o.size()) + "B)";
  return s;
}
static uint64_t hash_oct(const Oct &o, uint64_t h = 1469598103934665603ULL) { for (unsigned char ch : o) { h ^= ch; h *= 1099511628211ULL; } return mix64(h); }
static std::string hkey(const Oct &o) { char b[32]; snprintf(b, sizeof b, "%016llx", (unsigned long long)hash_oct(o)); return b; }
static Oct cat(const Oct &a, const Oct &b) { Oct r(a); r.insert(r.end(), b.begin(), b.end()); return r; }
static void app(Oct &a, const Oct &b) { a.insert(a.end(), b.begin(), b.end()); }
static Oct stream_bytes(uint64_t seed, size_t n) { Oct o(n); for (size_t i = 0; i < n; i++) o[i] = (unsigned char)(mix64(seed ^ mix64(i + 0x51ED)) >> 24); return o; }
static time_t vtime() { return time(NULL); }
static SOct to_secure(const Oct &o) { SOct s; for (auto b : o) s.push_back(b); return s; }
static Oct from_secure(const SOct &o) { Oct s; for (auto b : o) s.push_back(b); return s; }

// --- message digests straight from libgcrypt (own id mapping, RFC 4880 9.4)
static int md_of(int pgp) {
  switch (pgp) { case 1: return GCRY_MD_MD5; case 2: return GCRY_MD_SHA1; case 3: return GCRY_MD_RMD160; case 8: return GCRY_MD_SHA256; case 9: return GCRY_MD_SHA384;
    case 10: return GCRY_MD_SHA512; case 11: return GCRY_MD_SHA224; case 12: return GCRY_MD_SHA3_256; case 14: return GCRY_MD_SHA3_512; default: return 0; }
}
static const char *hash_name(int pgp) {
  switch (pgp) { case 1: return "MD5"; case 2: return "SHA1"; case 3: return "RMD160"; case 8: return "SHA256"; case 9: return "SHA384"; case 10: return "SHA512"; case 11: return "SHA224"; case 12: return "SHA3-256"; case 14: return "SHA3-512"; default: return "?"; }
}
static bool md_available(int pgp) { int a = md_of(pgp); return a && gcry_md_test_algo(a) == 0; }
static Oct H(int pgp, const Oct &in) {
  int a = md_of(pgp); size_t l = gcry_md_get_algo_dlen(a); Oct o(l); unsigned char dummy = 0;
  gcry_md_hash_buffer(a, o.data(), in.empty() ? &dummy : in.data(), in.size()); return o;
}
static void put32(Oct &o, uint32_t v) { o.push_back(v >> 24); o.push_back(v >> 16); o.push_back(v >> 8); o.push_back(v); }

// =========================================================================== keys (libgcrypt-made, cached as S-expression text)
struct Key {
  std::string name; tmcg_openpgp_pkalgo_t algo = TMCG_OPENPGP_PKALGO_RSA; gcry_sexp_t full = nullptr, pub = nullptr;
  std::vector<gcry_mpi_t> m;          // public parameters in OpenPGP order (rsa: n e; dsa: p q g y; elg: p g y; ecc: q with prefix octet)
  std::vector<gcry_mpi_t> sec;        // rsa: d p q u; elg/dsa: x; ecc: d
  const tmcg_openpgp_byte_t *oid = nullptr; size_t oidlen = 0; std::string curve;
  tmcg_openpgp_hashalgo_t kdfh = TMCG_OPENPGP_HASHALGO_SHA256; tmcg_openpgp_skalgo_t kdfs = TMCG_OPENPGP_SKALGO_AES128;
  unsigned qbits = 0; bool ecc = false, can_sign = false; double verify_ms = 1; // measured cost of one verification in the sanitized build
};
static gcry_mpi_t mpi_from_bytes(const Oct &b) { gcry_mpi_t m = nullptr; gcry_mpi_scan(&m, GCRYMPI_FMT_USG, b.data(), b.size(), NULL); return m; }
static Oct mpi_bytes(gcry_mpi_t m) { size_t n = (gcry_mpi_get_nbits(m) + 7) / 8; Oct o(n ? n : 1, 0); size_t w = 0; if (n) gcry_mpi_print(GCRYMPI_FMT_USG, o.data(), n, &w, m); o.resize(n); return o; }
static Oct opaque_param(gcry_sexp_t key, const char *tok) {
  Oct o; gcry_sexp_t l = gcry_sexp_find_token(key, tok, 0); if (!l) return o; size_t n = 0; const char *d = gcry_sexp_nth_data(l, 1, &n);
  if (d) o.assign((const unsigned char *)d, (const unsigned char *)d + n); gcry_sexp_release(l); return o;
}
struct KeySpec { const char *name; const char *gen; tmcg_openpgp_pkalgo_t algo; const char *curve; };
static const KeySpec KEYSPECS[] = {
  {"rsa2048a", "(genkey (rsa (nbits 4:2048)(transient-key)))", TMCG_OPENPGP_PKALGO_RSA, ""},
  {"rsa2048b", "(genkey (rsa (nbits 4:2048)(transient-key)))", TMCG_OPENPGP_PKALGO_RSA, ""},
  {"dsa2048a", "(genkey (dsa (nbits 4:2048)(qbits 3:256)(transient-key)))", TMCG_OPENPGP_PKALGO_DSA, ""},
  {"dsa2048b", "(genkey (dsa (nbits 4:2048)(qbits 3:256)(transient-key)))", TMCG_OPENPGP_PKALGO_DSA, ""},
  {"dsa1024", "(genkey (dsa (nbits 4:1024)(qbits 3:160)(transient-key)))", TMCG_OPENPGP_PKALGO_DSA, ""},
  {"ecdsa256a", "(genkey (ecdsa (curve \"NIST P-256\")))", TMCG_OPENPGP_PKALGO_ECDSA, "NIST P-256"},
  {"ecdsa256b", "(genkey (ecdsa (curve \"NIST P-256\")))", TMCG_OPENPGP_PKALGO_ECDSA, "NIST P-256"},
  {"ecdsa384", "(genkey (ecdsa (curve \"NIST P-384\")))", TMCG_OPENPGP_PKALGO_ECDSA, "NIST P-384"},
  {"eddsa-a", "(genkey (ecc (curve Ed25519)(flags eddsa)))", TMCG_OPENPGP_PKALGO_EDDSA, "Ed25519"},
  {"eddsa-b", "(genkey (ecc (curve Ed25519)(flags eddsa)))", TMCG_OPENPGP_PKALGO_EDDSA, "Ed25519"},
  {"elg2048", "(genkey (elg (nbits 4:2048)(transient-key)))", TMCG_OPENPGP_PKALGO_ELGAMAL, ""},
  {"rsa2048e", "(genkey (rsa (nbits 4:2048)(transient-key)))", TMCG_OPENPGP_PKALGO_RSA, ""}, // used as encryption subkey only
  {"ecdh25519", "(genkey (ecc (curve Curve25519)(flags djb-tweak)))", TMCG_OPENPGP_PKALGO_ECDH, "Curve25519"},
  {"ecdh256", "(genkey (ecdh (curve \"NIST P-256\")))", TMCG_OPENPGP_PKALGO_ECDH, "NIST P-256"},
};
static const size_t NKEYS = sizeof(KEYSPECS) / sizeof(KEYSPECS[0]);
static Key *load_key(const KeySpec &sp) {
  std::string text = cached_fixture(std::string("c20key-") + sp.name, [&]() {
    gcry_sexp_t parms = nullptr, k = nullptr; size_t eo = 0;
    if (gcry_sexp_build(&parms, &eo, sp.gen)) throw std::runtime_error(std::string("fixture: bad genkey spec ") + sp.name);
    for (int tries = 0;; tries++) {
      gcry_error_t e = gcry_pk_genkey(&k, parms);
      if (e) throw std::runtime_error(std::string("fixture: gcry_pk_genkey failed for ") + sp.name + ": " + gcry_strerror(e));
      if (std::string(sp.curve) != "Ed25519" && std::string(sp.curve) != "Curve25519") break;
      gcry_sexp_t prv = gcry_sexp_find_token(k, "private-key", 0); Oct q = opaque_param(prv, "q"), d = opaque_param(prv, "d"); gcry_sexp_release(prv);
      if (!q.empty() && !d.empty() && q[0] != 0 && d[0] != 0 && (q.size() == 32 || q.size() == 33) && d.size() == 32) break; // native encodings survive the MPI round trip
      gcry_sexp_release(k); k = nullptr; if (tries > 50) throw std::runtime_error("fixture: cannot make a plain ECC key");
    }
    gcry_sexp_release(parms);
    size_t n = gcry_sexp_sprint(k, GCRYSEXP_FMT_ADVANCED, NULL, 0); std::string s(n, '\0'); gcry_sexp_sprint(k, GCRYSEXP_FMT_ADVANCED, &s[0], n);
    while (!s.empty() && s.back() == '\0') s.pop_back(); gcry_sexp_release(k); return s; });
  Key *K = new Key(); K->name = sp.name; K->algo = sp.algo; K->curve = sp.curve;
  if (gcry_sexp_sscan(&K->full, NULL, text.c_str(), text.size())) throw std::runtime_error(std::string("fixture: cannot parse cached key ") + sp.name);
  K->pub = gcry_sexp_find_token(K->full, "public-key", 0);
  auto ext = [&](const char *list, std::vector<gcry_mpi_t> &dst, size_t cnt) {
    gcry_mpi_t v[6] = {0, 0, 0, 0, 0, 0};
    gcry_error_t e = gcry_sexp_extract_param(K->full, NULL, list, &v[0], cnt > 1 ? &v[1] : NULL, cnt > 2 ? &v[2] : NULL, cnt > 3 ? &v[3] : NULL, NULL);
    if (e) throw std::runtime_error(std::string("fixture: extract ") + list + " failed for " + sp.name);
    for (size_t i = 0; i < cnt; i++) dst.push_back(v[i]);
  };
  switch (sp.algo) {
    case TMCG_OPENPGP_PKALGO_RSA: case TMCG_OPENPGP_PKALGO_RSA_ENCRYPT_ONLY: ext("ne", K->m, 2); ext("dpqu", K->sec, 4); K->can_sign = K->name != "rsa2048e"; break;
    case TMCG_OPENPGP_PKALGO_DSA: ext("pqgy", K->m, 4); ext("x", K->sec, 1); K->qbits = gcry_mpi_get_nbits(K->m[1]); K->can_sign = true; break;
    case TMCG_OPENPGP_PKALGO_ELGAMAL: ext("pgy", K->m, 3); ext("x", K->sec, 1); break;
    default: {
      K->ecc = true; K->can_sign = sp.algo != TMCG_OPENPGP_PKALGO_ECDH;
      Oct q = opaque_param(K->pub, "q"), d; { gcry_sexp_t prv = gcry_sexp_find_token(K->full, "private-key", 0); d = opaque_param(prv, "d"); gcry_sexp_release(prv); }
      if (q.empty() || d.empty()) throw std::runtime_error(std::string("fixture: no q/d in ") + sp.name);
      if (K->curve == "Ed25519" && q.size() == 32) q.insert(q.begin(), 0x40); // OpenPGP native point format
      K->m.push_back(mpi_from_bytes(q)); K->sec.push_back(mpi_from_bytes(d));
      for (size_t idx = 0; tmcg_openpgp_oidtable[idx].name != NULL; idx++) if (K->curve == tmcg_openpgp_oidtable[idx].name) { K->oidlen = tmcg_openpgp_oidtable[idx].oid[0]; K->oid = tmcg_openpgp_oidtable[idx].oid + 1; }
      if (!K->oid) throw std::runtime_error(std::string("fixture: no OID for ") + sp.name);
      if (K->curve == "NIST P-384") K->kdfh = TMCG_OPENPGP_HASHALGO_SHA384, K->kdfs = TMCG_OPENPGP_SKALGO_AES192;
      if (K->curve == "Curve25519") K->kdfs = TMCG_OPENPGP_SKALGO_AES128;
    }
  }
  return K;
}
static std::vector<Key *> &keys() {
  static std::vector<Key *> v;
  if (v.empty()) for (size_t i = 0; i < NKEYS; i++) { Key *k = load_key(KEYSPECS[i]);
    k->verify_ms = k->algo == TMCG_OPENPGP_PKALGO_DSA ? (k->qbits > 200 ? 3.5 : 1.2) : k->curve == "NIST P-256" ? 2.7 : k->curve == "NIST P-384" ? 3.7 : 0.7; v.push_back(k); }
  return v;
}
static Key &key_named(const std::string &n) { for (auto k : keys()) if (k->name == n) return *k; throw std::runtime_error("no key " + n); }
static std::vector<Key *> signing_keys() { std::vector<Key *> v; for (auto k : keys()) if (k->can_sign) v.push_back(k); return v; }
static const char *algo_name(int a) {
  switch (a) { case 1: return "rsa"; case 2: return "rsa-e"; case 3: return "rsa-s"; case 16: return "elgamal"; case 17: return "dsa"; case 18: return "ecdh"; case 19: return "ecdsa"; case 22: return "eddsa"; default: return "other"; }
}

// OpenPGP key packets made by the library from the pooled keys
static Oct key_packet(const Key &k, time_t t, bool subkey) {
  Oct out;
  if (k.ecc) { if (subkey) PGP::PacketSubEncode(t, k.algo, k.oidlen, k.oid, k.m[0], k.kdfh, k.kdfs, out); else PGP::PacketPubEncode(t, k.algo, k.oidlen, k.oid, k.m[0], k.kdfh, k.kdfs, out); return out; }
  gcry_mpi_t p = k.m[0], q = k.m[0], g = k.m[0], y = k.m[0];
  switch (k.algo) {
    case TMCG_OPENPGP_PKALGO_RSA: case TMCG_OPENPGP_PKALGO_RSA_ENCRYPT_ONLY: q = k.m[1]; break;
    case TMCG_OPENPGP_PKALGO_DSA: q = k.m[1]; g = k.m[2]; y = k.m[3]; break;
    case TMCG_OPENPGP_PKALGO_ELGAMAL: g = k.m[1]; y = k.m[2]; break;
    default: break;
  }
  if (subkey) PGP::PacketSubEncode(t, k.algo, p, q, g, y, out); else PGP::PacketPubEncode(t, k.algo, p, q, g, y, out);
  return out;
}
static Oct body_of(const Oct &pkt) { Oct b; PGP::PacketBodyExtract(pkt, 0, b); return b; }
// library public-key object built through the public constructors (no parser involved); mp overrides the public parameters
static TMCG_OpenPGP_Pubkey *pubkey_object(const Key &k, time_t t, const Oct &pkt, const std::vector<gcry_mpi_t> *mp = nullptr) {
  const std::vector<gcry_mpi_t> &m = mp ? *mp : k.m;
  if (k.ecc) return new TMCG_OpenPGP_Pubkey(k.algo, t, 0, k.oidlen, k.oid, m[0], pkt);
  if (k.algo == TMCG_OPENPGP_PKALGO_DSA) return new TMCG_OpenPGP_Pubkey(k.algo, t, 0, m[0], m[1], m[2], m[3], pkt);
  return new TMCG_OpenPGP_Pubkey(k.algo, t, 0, m[0], m[1], pkt);
}
// RFC 4880 12.2: fingerprint = SHA1(0x99 || len2 || body), key ID = low 64 bits
static Oct my_fingerprint(const Oct &body) { Oct in; in.push_back(0x99); in.push_back(body.size() >> 8); in.push_back(body.size()); app(in, body); return H(2, in); }

// =========================================================================== packet layout knowledge (own splitter, new-format headers only)
struct Span { int tag; size_t off, hdr, body; size_t end() const { return off + hdr + body; } };
static bool split_packets(const Oct &in, std::vector<Span> &out) {
  size_t p = 0;
  while (p < in.size()) {
    if ((in[p] & 0xC0) != 0xC0) return false; Span s; s.tag = in[p] & 0x3F; s.off = p;
    if (p + 1 >= in.size()) return false; unsigned l0 = in[p + 1];
    if (l0 < 192) { s.hdr = 2; s.body = l0; }
    else if (l0 < 224) { if (p + 2 >= in.size()) return false; s.hdr = 3; s.body = ((l0 - 192) << 8) + in[p + 2] + 192; }
    else if (l0 == 255) { if (p + 5 >= in.size()) return false; s.hdr = 6; s.body = ((size_t)in[p + 2] << 24) | ((size_t)in[p + 3] << 16) | ((size_t)in[p + 4] << 8) | in[p + 5]; }
    else return false;
    if (s.end() > in.size()) return false; out.push_back(s); p = s.end();
  }
  return true;
}
enum Region { R_FRAMING, R_VERSION, R_TYPE, R_PKALGO, R_HASHALGO, R_HLEN, R_HASHED, R_ULEN, R_UNHASHED, R_LEFT16, R_MPIBITS, R_MPIVAL, R_KEYMATERIAL, R_KEYMETA, R_UIDBODY, R_ESKFIELD, R_CIPHERTEXT, R_AEADHDR, R_OTHER };
static const char *region_name(Region r) {
  static const char *n[] = {"framing", "version", "type", "pkalgo", "hashalgo", "hashed-length", "hashed-area", "unhashed-length", "unhashed-area", "left16", "mpi-bitcount", "signature-value", "key-material", "key-metadata", "userid-body", "esk-field", "ciphertext", "aead-header", "other"};
  return n[r];
}
// protected by the signature / integrity mechanism => a flip there must be refused
// (key-metadata = version, creation time, algorithm, MPI bit counts, EC point format octet, KDF parameters: covered only where the
//  whole key packet body is hashed, i.e. in certifications and bindings, not for document signatures)
static bool region_protected(Region r, bool key_body_hashed = false) {
  switch (r) { case R_VERSION: case R_TYPE: case R_PKALGO: case R_HASHALGO: case R_HLEN: case R_HASHED: case R_LEFT16: case R_MPIVAL: case R_KEYMATERIAL: case R_UIDBODY: case R_CIPHERTEXT: case R_AEADHDR: return true;
    case R_KEYMETA: return key_body_hashed; default: return false; }
}
// region of byte `pos` (offset in the stream) inside a v4/v5 signature packet spanning `s`
static Region sig_region(const Oct &in, const Span &s, size_t pos) {
  if (pos < s.off + s.hdr) return R_FRAMING;
  size_t b = pos - s.off - s.hdr; const unsigned char *p = in.data() + s.off + s.hdr;
  if (b == 0) return R_VERSION; if (b == 1) return R_TYPE; if (b == 2) return R_PKALGO; if (b == 3) return R_HASHALGO; if (b < 6) return R_HLEN;
  size_t hl = ((size_t)p[4] << 8) | p[5]; if (b < 6 + hl) return R_HASHED; if (b < 8 + hl) return R_ULEN;
  size_t ul = ((size_t)p[6 + hl] << 8) | p[7 + hl]; if (b < 8 + hl + ul) return R_UNHASHED; if (b < 10 + hl + ul) return R_LEFT16;
  size_t m = 10 + hl + ul;
  while (m + 2 <= s.body) { size_t bits = ((size_t)p[m] << 8) | p[m + 1], len = (bits + 7) / 8; if (b < m + 2) return R_MPIBITS; if (b < m + 2 + len) return R_MPIVAL; m += 2 + len; }
  return R_OTHER;
}

// region of byte `pos` inside a v4 public (sub)key packet
static Region key_region(const Oct &in, const Span &s, size_t pos) {
  if (pos < s.off + s.hdr) return R_FRAMING;
  size_t b = pos - s.off - s.hdr; const unsigned char *p = in.data() + s.off + s.hdr; if (b < 6 || s.body < 6) return R_KEYMETA;
  int algo = p[5]; size_t m = 6;
  if (algo == 18 || algo == 19 || algo == 22) {
    size_t ol = p[6]; if (b == 6) return R_KEYMATERIAL; if (b < 7 + ol) return R_KEYMATERIAL; m = 7 + ol;
    if (m + 2 > s.body) return R_KEYMETA; size_t bits = ((size_t)p[m] << 8) | p[m + 1], len = (bits + 7) / 8;
    if (b < m + 2) return R_KEYMETA; if (b == m + 2) return R_KEYMETA; /* point format octet */ if (b < m + 2 + len) return R_KEYMATERIAL; return R_KEYMETA; /* KDF parameters */
  }
  while (m + 2 <= s.body) { size_t bits = ((size_t)p[m] << 8) | p[m + 1], len = (bits + 7) / 8; if (b < m + 2) return R_KEYMETA; if (b < m + 2 + len) return R_KEYMATERIAL; m += 2 + len; }
  return R_KEYMETA;
}

// =========================================================================== forked evaluation of parser-facing faults
// A sanitizer report costs seconds (symbolizer); inside a fault child only the fact of the death matters.
// The fault loops allocate and free small buffers millions of times; with the default 256 MiB quarantine every allocation touches
// fresh pages (half of the run time was page-fault handling).  Memory-safety of the decoder is the business of C12, not of this check.
extern "C" const char *__asan_default_options() { return "quarantine_size_mb=1:thread_local_quarantine_size_kb=64:malloc_context_size=2:allocator_release_to_os_interval_ms=-1"; }
static volatile int g_in_child = 0;
extern "C" void __asan_on_error() { if (g_in_child) _exit(86); }
extern "C" void __ubsan_on_report() { if (g_in_child) _exit(87); }
static std::string handoff_dir() {
  static std::string d;
  if (d.empty()) {
    char buf[4096]; ssize_t n = readlink("/proc/self/exe", buf, sizeof buf - 1); std::string exe = n > 0 ? std::string(buf, n) : "/verif/build/asan/bin/x";
    size_t sl = exe.rfind('/'); std::string bin = exe.substr(0, sl); // .../build/<flavour>/bin
    std::string root = bin + "/../../handoff"; mkdir(root.c_str(), 0755); d = root + "/C12"; mkdir(d.c_str(), 0755);
  }
  return d;
}
static void handoff(const Oct &bytes, const char *what) {
  static int written = -1; // per process at most 300 files, and nothing once the directory holds 4000 entries
  if (written < 0) { written = 0; size_t n = 0; if (DIR *dp = opendir(handoff_dir().c_str())) { while (readdir(dp)) n++; closedir(dp); } if (n > 4000) written = 1000; }
  if (written > 300) return; written++;
  std::string p = handoff_dir() + "/c20-" + what + "-" + hkey(bytes) + ".bin"; struct stat st; if (stat(p.c_str(), &st) == 0) return;
  std::string t = p + ".tmp" + std::to_string(getpid()); { std::ofstream f(t, std::ios::binary); f.write((const char *)bytes.data(), bytes.size()); } rename(t.c_str(), p.c_str());
}
// with C20_EXPORT_DIR set, valid artefacts (signature packets, key blocks, encrypted messages) are written out as seed inputs for the
// C12 fuzz campaigns (a maintainer refreshes /verif/corpus/C12/handoff with them; the checks themselves never read that variable)
static void export_artefact(const char *kind, const Oct &bytes) {
  static const char *dir = getenv("C20_EXPORT_DIR"); if (!dir || g_in_child) return; static std::map<std::string, int> n; if (n[kind]++ >= 6) return;
  std::string p = std::string(dir) + "/valid-" + kind + "-" + hkey(bytes) + ".bin"; std::ofstream f(p, std::ios::binary); f.write((const char *)bytes.data(), bytes.size());
}
enum { F_REFUSED = 0, F_CRASHED = 0xFE, F_TIMEOUT = 0xFD, F_UNSET = 0xFF };
// Runs eval(i) for i in [0,n) inside forked children; eval returns a small result code (< 0xF0; 0 = refused).
// A child that dies at fault i is restarted at i+1.  `input(i)` gives the bytes that were fed to the parser (for the C12 hand-off).
static std::vector<unsigned char> run_forked(Ctx &ctx, size_t n, const std::function<unsigned char(size_t)> &eval, const std::function<Oct(size_t)> &input, const char *what) {
  std::vector<unsigned char> res(n, F_UNSET); size_t start = 0; int restarts = 0;
  while (start < n) {
    int pfd[2]; if (pipe(pfd)) throw std::runtime_error("pipe failed");
    fflush(stdout); fflush(stderr);
    pid_t pid = fork(); if (pid < 0) throw std::runtime_error("fork failed");
    if (pid == 0) {
      close(pfd[0]); g_in_child = 1;
      { int sg[] = {SIGALRM, SIGSEGV, SIGBUS, SIGFPE, SIGILL, SIGABRT, SIGTRAP}; for (int x : sg) signal(x, SIG_DFL); }
      for (size_t i = start; i < n; i++) {
        alarm(20); unsigned char r = 0; PGP::MemoryGuardReset();
        struct timespec t0, t1; clock_gettime(CLOCK_MONOTONIC, &t0);
        try { r = eval(i); } catch (...) { r = 0; } // an exception out of a parser is a refusal
        clock_gettime(CLOCK_MONOTONIC, &t1); double dt = (t1.tv_sec - t0.tv_sec) + 1e-9 * (t1.tv_nsec - t0.tv_nsec);
        if (dt > 0.1 && getenv("C20_DEBUG")) { FILE *f = fopen(getenv("C20_DEBUG"), "a"); if (f) { fprintf(f, "slow %s fault %zu: %.2fs input=%s\n", what, i, dt, hexs(input(i), 60).c_str()); fclose(f); } }
        alarm(0); if (write(pfd[1], &r, 1) != 1) _exit(3);
      }
      if (getenv("C20_DEBUG")) { struct rusage ru; getrusage(RUSAGE_SELF, &ru); FILE *f = fopen(getenv("C20_DEBUG"), "a"); if (f) { fprintf(f, "child %s faults=%zu user=%.3f sys=%.3f minflt=%ld\n", what, n - start, ru.ru_utime.tv_sec + 1e-6 * ru.ru_utime.tv_usec, ru.ru_stime.tv_sec + 1e-6 * ru.ru_stime.tv_usec, ru.ru_minflt); fclose(f); } }
      _exit(0);
    }
    close(pfd[1]); size_t got = 0; unsigned char buf[4096]; ssize_t k;
    while ((k = read(pfd[0], buf, sizeof buf)) > 0) for (ssize_t j = 0; j < k && start + got < n; j++) res[start + got++] = buf[j];
    close(pfd[0]); int status = 0; while (waitpid(pid, &status, 0) < 0 && errno == EINTR) {}
    if (start + got < n) {
      bool timeout = WIFSIGNALED(status) && WTERMSIG(status) == SIGALRM;
      res[start + got] = timeout ? F_TIMEOUT : F_CRASHED; ctx.count(timeout ? "child_timeout" : "child_crashed");
      handoff(input(start + got), what);
      if (getenv("C20_DEBUG")) { FILE *f = fopen(getenv("C20_DEBUG"), "a"); if (f) { fprintf(f, "%s fault %zu of %zu status=%x (%s %d) %s\n", what, start + got, n, status, WIFSIGNALED(status) ? "signal" : "exit", WIFSIGNALED(status) ? WTERMSIG(status) : WEXITSTATUS(status), ctx.desc.str().c_str()); fclose(f); } }
      start += got + 1;
      if (++restarts > 400) throw std::runtime_error("too many child restarts");
    } else start = n;
  }
  return res;
}

// fault position/mask plan for byte flips over an artefact of `len` bytes: all positions when len <= cap, a sample otherwise
struct FlipPlan { std::vector<size_t> pos; std::vector<unsigned char> mask; };
static unsigned char flip_mask(uint64_t seed, size_t i, unsigned mode) {
  switch (mode) { case 1: return 0xFF; case 2: return 0x01; case 3: return 0x80; case 4: { unsigned char m = (unsigned char)(mix64(seed ^ mix64(i + 99)) >> 11); return m ? m : 0x5A; } default: return (unsigned char)(1u << (mix64(seed ^ mix64(i + 7)) & 7)); }
}
static FlipPlan plan_flips(Ctx &ctx, size_t len, size_t cap) {
  FlipPlan P; uint64_t seed = ctx.c.raw64(); unsigned mode = (unsigned)ctx.c.weighted({6, 1, 1, 1, 3});
  if (len <= cap) for (size_t i = 0; i < len; i++) P.pos.push_back(i);
  else { std::set<size_t> s; s.insert(0); s.insert(len - 1); for (size_t j = 0; s.size() < cap; j++) s.insert((size_t)(mix64(seed ^ mix64(j + 12345)) % len)); P.pos.assign(s.begin(), s.end()); }
  for (size_t p : P.pos) P.mask.push_back(flip_mask(seed, p, mode));
  return P;
}

// =========================================================================== signing with the library
struct Mpis { gcry_mpi_t r, s; Mpis() : r(gcry_mpi_new(8)), s(gcry_mpi_new(8)) {} ~Mpis() { gcry_mpi_release(r); gcry_mpi_release(s); } };
static gcry_error_t lib_sign(const Key &k, const Oct &hash, tmcg_openpgp_hashalgo_t h, Mpis &o) {
  switch (k.algo) {
    case TMCG_OPENPGP_PKALGO_RSA: return PGP::AsymmetricSignRSA(hash, k.full, h, o.s);
    case TMCG_OPENPGP_PKALGO_DSA: return PGP::AsymmetricSignDSA(hash, k.full, o.r, o.s);
    case TMCG_OPENPGP_PKALGO_ECDSA: return PGP::AsymmetricSignECDSA(hash, k.full, o.r, o.s);
    case TMCG_OPENPGP_PKALGO_EDDSA: return PGP::AsymmetricSignEdDSA(hash, k.full, o.r, o.s);
    default: return gcry_error(GPG_ERR_PUBKEY_ALGO);
  }
}
static Oct sig_packet(const Key &k, const Oct &trailer, const Oct &left, Mpis &m) {
  Oct out; if (k.algo == TMCG_OPENPGP_PKALGO_RSA) PGP::PacketSigEncode(trailer, left, m.s, out); else PGP::PacketSigEncode(trailer, left, m.r, m.s, out); return out;
}
static bool hash_fits_key(const Key &k, int h) { // DSA: the library demands |hash| >= |q|
  if (!md_available(h)) return false;
  if (k.algo == TMCG_OPENPGP_PKALGO_DSA) return gcry_md_get_algo_dlen(md_of(h)) * 8 >= k.qbits;
  return true;
}
static const int STRONG_HASHES[] = {8, 9, 10, 12, 14}; // what CheckValidity documents as acceptable
static const int WEAK_HASHES[] = {1, 2, 3};
static tmcg_openpgp_hashalgo_t pick_hash(Ctx &ctx, const Key &k, bool allow_weak) {
  for (int tries = 0; tries < 20; tries++) {
    int h; unsigned w = (unsigned)ctx.c.weighted({10, (unsigned)(allow_weak ? 2 : 0), 1});
    if (w == 0) h = STRONG_HASHES[ctx.c.index(5)]; else if (w == 1) h = WEAK_HASHES[ctx.c.index(3)]; else h = 11;
    if (hash_fits_key(k, h)) return (tmcg_openpgp_hashalgo_t)h;
  }
  return TMCG_OPENPGP_HASHALGO_SHA512;
}
static bool is_strong(int h) { for (int s : STRONG_HASHES) if (s == h) return true; return false; }
static bool is_weak(int h) { for (int s : WEAK_HASHES) if (s == h) return true; return false; }

// --- documents
static Oct gen_binary_doc(Ctx &ctx, size_t len) { return stream_bytes(ctx.c.raw64(), len); }
static Oct gen_text_doc(Ctx &ctx, size_t approx, bool &lone_cr) {
  Oct d; uint64_t seed = ctx.c.raw64(); size_t i = 0; lone_cr = false; unsigned endmix = (unsigned)ctx.c.index(4); // 0 LF, 1 CRLF, 2 mixed, 3 mixed incl. lone CR
  while (d.size() < approx) {
    size_t ll = (size_t)(mix64(seed ^ mix64(++i)) % 40);
    for (size_t j = 0; j < ll && d.size() < approx; j++) { unsigned char ch = 0x20 + (unsigned char)(mix64(seed ^ mix64(i * 131 + j)) % 95); d.push_back(ch); }
    if (d.size() >= approx && (mix64(seed ^ i) & 1)) break; // sometimes no final line ending
    unsigned e = endmix == 0 ? 0 : endmix == 1 ? 1 : (unsigned)(mix64(seed ^ mix64(i + 777)) % (endmix == 2 ? 2 : 3));
    if (e == 0) d.push_back('\n'); else if (e == 1) { d.push_back('\r'); d.push_back('\n'); } else { d.push_back('\r'); lone_cr = true; }
  }
  // a CR directly followed by LF that came from "lone CR" + "LF line" is a CRLF, fine; re-detect lone CRs exactly
  lone_cr = false; for (size_t j = 0; j < d.size(); j++) if (d[j] == '\r' && (j + 1 >= d.size() || d[j + 1] != '\n')) lone_cr = true;
  return d;
}
static Oct to_lf(const Oct &d) { Oct o; for (size_t j = 0; j < d.size(); j++) { if (d[j] == '\r' && j + 1 < d.size() && d[j + 1] == '\n') continue; o.push_back(d[j]); } return o; }
static Oct to_crlf(const Oct &d) { Oct o; unsigned char last = 0; for (auto ch : d) { if (ch == '\n' && last != '\r') o.push_back('\r'); o.push_back(ch); last = ch; } return o; }
static size_t pick_doc_len(Ctx &ctx, std::string &cls) {
  switch (ctx.c.weighted({1, 1, 4, 4, (unsigned)(ctx.thorough ? 2 : 1)})) {
    case 0: cls = "empty"; return 0; case 1: cls = "one-byte"; return 1; case 2: cls = "short"; return (size_t)ctx.c.range(2, 64);
    case 3: cls = "medium"; return (size_t)ctx.c.range(65, 600); default: cls = "long"; return (size_t)ctx.c.range(601, 10000);
  }
}

// a detached document signature made by the library; V5 follows the library's own convention (six zero octets after the hashed area)
struct DocSig { Oct trailer, hash, left, pkt; std::string err; bool ok = false; };
static DocSig make_docsig(const Key &k, int version, bool text, tmcg_openpgp_hashalgo_t h, time_t sigtime, time_t exptime, const std::string &policy, const Oct &issuer, const Oct &data) {
  DocSig S; tmcg_openpgp_signature_t type = text ? TMCG_OPENPGP_SIGNATURE_CANONICAL_TEXT_DOCUMENT : TMCG_OPENPGP_SIGNATURE_BINARY_DOCUMENT; bool hr;
  if (version == 5) {
    PGP::PacketSigPrepareDetachedSignatureV5(type, k.algo, h, sigtime, exptime, policy, issuer, S.trailer);
    Oct th = S.trailer; for (int i = 0; i < 6; i++) th.push_back(0);
    hr = text ? PGP::TextDocumentHashV5(data, th, h, S.hash, S.left) : PGP::BinaryDocumentHashV5(data, th, h, S.hash, S.left);
  } else {
    PGP::PacketSigPrepareDetachedSignature(type, k.algo, h, sigtime, exptime, policy, issuer, S.trailer);
    hr = text ? PGP::TextDocumentHash(data, S.trailer, h, S.hash, S.left) : PGP::BinaryDocumentHash(data, S.trailer, h, S.hash, S.left);
  }
  if (!hr) { S.err = "document hash function returned false"; return S; }
  Mpis m; gcry_error_t e = lib_sign(k, S.hash, h, m);
  if (e) { S.err = std::string("sign: ") + gcry_strerror(e); return S; }
  S.pkt = sig_packet(k, S.trailer, S.left, m); S.ok = true; return S;
}
// RFC 4880 5.2.4 hash input of a V4 document signature, computed without the library
static Oct my_doc_hash_v4(int h, bool text, const Oct &data, const Oct &trailer) {
  Oct in = text ? to_crlf(data) : data; app(in, trailer); in.push_back(0x04); in.push_back(0xFF); put32(in, (uint32_t)trailer.size()); return H(h, in);
}
static TMCG_OpenPGP_Signature *parse_sig(const Oct &pkt) { TMCG_OpenPGP_Signature *s = nullptr; if (!PGP::SignatureParse(pkt, 0, s)) return nullptr; return s; }

// of the planned flips whose position is `expensive` (a full public-key operation will run) keep about `keep`
static void thin(FlipPlan &P, const std::function<bool(size_t)> &expensive, size_t keep, uint64_t seed) {
  std::vector<size_t> idx; for (size_t i = 0; i < P.pos.size(); i++) if (expensive(P.pos[i])) idx.push_back(i);
  if (idx.size() <= keep || keep < 2) return;
  std::set<size_t> all(idx.begin(), idx.end()), kp; kp.insert(idx.front()); kp.insert(idx.back());
  for (size_t j = 0; kp.size() < keep; j++) kp.insert(idx[(size_t)(mix64(seed ^ mix64(j + 4242)) % idx.size())]);
  FlipPlan Q; for (size_t i = 0; i < P.pos.size(); i++) if (!all.count(i) || kp.count(i)) { Q.pos.push_back(P.pos[i]); Q.mask.push_back(P.mask[i]); }
  P = Q;
}
static size_t pk_budget(Ctx &ctx, const Key &k, double ms) { double n = (ctx.thorough ? 2.5 * ms : ms) / k.verify_ms; return (size_t)std::max(8.0, std::min(4000.0, n)); }
static std::string at(size_t pos, unsigned char mask, Region r) { char b[96]; snprintf(b, sizeof b, "offset %zu xor 0x%02x (%s)", pos, mask, region_name(r)); return b; }
static bool write_file(const std::string &p, const Oct &d) { std::ofstream f(p, std::ios::binary); if (!f) return false; f.write((const char *)d.data(), d.size()); return (bool)f; }

// =========================================================================== (1) document signatures
VF_SUB(sig_document_roundtrip_and_flips, 112, 6000) {
  PGP::MemoryGuardReset();
  std::vector<Key *> sk = signing_keys(); Key &k = *sk[ctx.c.index(sk.size())];
  tmcg_openpgp_hashalgo_t h = pick_hash(ctx, k, true);
  bool text = ctx.c.prob(1, 3); int version = ctx.c.prob(1, 5) ? 5 : 4;
  std::string lcls; size_t len = pick_doc_len(ctx, lcls); bool lone_cr = false;
  Oct data = text ? gen_text_doc(ctx, len, lone_cr) : gen_binary_doc(ctx, len);
  time_t keytime = vtime() - (time_t)ctx.c.range(0, 100000000), sigtime = vtime() - (time_t)ctx.c.range(0, 1000);
  if (sigtime < keytime) sigtime = keytime;
  time_t exptime = ctx.c.coin() ? 0 : (time_t)ctx.c.range(2000, 100000000);
  std::string policy = ctx.c.prob(1, 4) ? "https://example.invalid/policy/" + std::to_string(ctx.c.range(0, 999)) : "";
  Oct pubpkt = key_packet(k, keytime, false), pubbody = body_of(pubpkt), fpr, kid; PGP::FingerprintCompute(pubbody, fpr); PGP::KeyidCompute(pubbody, kid);
  bool issuer_fpr = version == 5 || ctx.c.coin(); Oct issuer = issuer_fpr ? fpr : kid;
  std::ostringstream d; d << k.name << " " << hash_name(h) << " v" << version << (text ? " text" : " binary") << " doc=" << lcls << "(" << data.size() << ")" << (lone_cr ? " lone-CR" : "") << (exptime ? " expiring" : "") << (policy.empty() ? "" : " policy") << (issuer_fpr ? " issuer=fpr" : " issuer=keyid");
  ctx.desc << d.str();
  ctx.label(std::string("algo:") + algo_name(k.algo)); ctx.label(std::string("hash:") + hash_name(h)); ctx.label(text ? "type:text" : "type:binary"); ctx.label("v" + std::to_string(version)); ctx.label("doc:" + lcls);
  const std::string A = algo_name(k.algo);

  { Oct f = my_fingerprint(pubbody); Oct id(f.end() - 8, f.end()); // own fingerprint / key ID
    if (f != fpr) ctx.fail("keyid/fingerprint-differs-from-rfc4880", "FingerprintCompute " + hexs(fpr, 40) + " != SHA1(0x99||len||body) " + hexs(f, 40) + " for " + k.name);
    if (id != kid) ctx.fail("keyid/keyid-differs-from-rfc4880", "KeyidCompute " + hexs(kid) + " != " + hexs(id)); }

  DocSig S = make_docsig(k, version, text, h, sigtime, exptime, policy, issuer, data);
  if (S.ok) export_artefact((std::string("sig-") + algo_name(k.algo)).c_str(), S.pkt);
  if (!S.ok) { ctx.fail("sig/" + A + "/library-cannot-sign", S.err + " for " + d.str()); return; }
  if (version == 4) { Oct mine = my_doc_hash_v4(h, text, data, S.trailer);
    if (mine != S.hash) ctx.fail(std::string("hash/document/") + (text ? "text" : "binary") + "-differs-from-rfc4880", "library hash " + hexs(S.hash, 64) + ", RFC 4880 5.2.4 gives " + hexs(mine, 64) + " for " + d.str()); }
  if (S.left.size() != 2 || S.left[0] != S.hash[0] || S.left[1] != S.hash[1]) ctx.fail("hash/document/left16-not-hash-prefix", d.str());
  ctx.nontrivial(d.str() + hkey(S.pkt));

  // ---- positive
  std::unique_ptr<TMCG_OpenPGP_Pubkey> pko(pubkey_object(k, keytime, pubpkt));
  if (!pko->Good()) { ctx.fail("key/" + A + "/library-key-object-bad", d.str()); return; }
  gcry_sexp_t vkey = pko->key;
  std::unique_ptr<TMCG_OpenPGP_Signature> sig(parse_sig(S.pkt));
  if (!sig) { ctx.fail("sig/" + A + "/own-signature-unparsable", "SignatureParse refused " + hexs(S.pkt, 400) + " for " + d.str()); return; }
  if (!sig->Good()) { ctx.fail("sig/" + A + "/own-signature-not-good", d.str()); return; }
  if (sig->version != version || sig->pkalgo != k.algo || sig->hashalgo != h || sig->creationtime != sigtime || sig->expirationtime != exptime || sig->type != (text ? 1 : 0))
    ctx.fail("sig/" + A + "/parsed-fields-differ", "parsed version/pkalgo/hashalgo/times/type differ from what was encoded: " + d.str());
  if (!sig->VerifyData(vkey, data, 0)) { ctx.fail("sig/" + A + "/untouched-signature-refused", "VerifyData refused the library's own signature: " + d.str() + " sig=" + hexs(S.pkt, 600)); return; }
  if (!sig->VerifyData(k.pub, data, 0)) ctx.fail("sig/" + A + "/untouched-signature-refused-with-gcrypt-key", d.str());
  { bool cv = sig->CheckValidity(keytime, 0);
    if (is_strong(h) && !cv) ctx.fail("validity/fresh-strong-signature-refused", "CheckValidity refused a fresh signature: " + d.str());
    if (is_weak(h) && cv) ctx.fail("validity/weak-hash-accepted", "CheckValidity accepted " + std::string(hash_name(h)) + ": " + d.str()); }
  if (ctx.c.prob(1, 6) && !lone_cr) { // file based entry point (texts with a lone CR: see sig_text_file_vs_memory)
    char tmpl[] = "/tmp/c20doc-XXXXXX"; int fd = mkstemp(tmpl);
    if (fd >= 0) { close(fd); write_file(tmpl, data);
      bool ok = sig->Verify(vkey, std::string(tmpl), 0); unlink(tmpl); ctx.label("file-entry-point");
      if (!ok) ctx.fail("sig/" + A + "/untouched-signature-refused-from-file", d.str()); }
  }
  if (text && !lone_cr) { // all line-ending forms that canonicalise identically
    if (!sig->VerifyData(vkey, to_lf(data), 0)) ctx.fail("sig/text/lf-variant-refused", d.str());
    if (!sig->VerifyData(vkey, to_crlf(data), 0)) ctx.fail("sig/text/crlf-variant-refused", d.str());
    ctx.label("text:line-ending-variants");
  }
  if (ctx.failed) return;
  int64_t faults = 0;

  // ---- negative A + C: every byte of the signature packet, and the key packet (one forked batch: mutated bytes reach the parsers, and
  //      libgcrypt is not robust against malformed key parameters)
  {
    std::vector<Span> sp, kp; if (!split_packets(S.pkt, sp) || sp.size() != 1 || sp[0].tag != 2) { ctx.fail("sig/" + A + "/packet-framing-unexpected", hexs(S.pkt, 40)); return; }
    if (!split_packets(pubpkt, kp) || kp.size() != 1 || kp[0].tag != 6) { ctx.fail("key/" + A + "/packet-framing-unexpected", hexs(pubpkt, 40)); return; }
    FlipPlan P = plan_flips(ctx, S.pkt.size(), ctx.thorough ? 1200 : 600);
    thin(P, [&](size_t pos) { Region r = sig_region(S.pkt, sp[0], pos); return r == R_MPIVAL || r == R_MPIBITS || r == R_UNHASHED || r == R_ULEN; }, pk_budget(ctx, k, 1000), ctx.c.raw64());
    FlipPlan K = plan_flips(ctx, pubpkt.size(), 100000);
    thin(K, [&](size_t) { return true; }, std::min<size_t>(pk_budget(ctx, k, 500), ctx.thorough ? 600 : 200), ctx.c.raw64());
    size_t ns = P.pos.size(), nk = K.pos.size();
    auto mutated = [&](size_t i) { if (i < ns) { Oct m = S.pkt; m[P.pos[i]] ^= P.mask[i]; return m; } Oct m = pubpkt; m[K.pos[i - ns]] ^= K.mask[i - ns]; return m; };
    auto res = run_forked(ctx, ns + nk, [&](size_t i) -> unsigned char {
      Oct m = mutated(i);
      if (i < ns) { TMCG_OpenPGP_Signature *s = nullptr; if (!PGP::SignatureParse(m, 0, s)) return 0; bool ok = s->Good() && s->VerifyData(vkey, data, 0); delete s; return ok ? 1 : 0; }
      TMCG_OpenPGP_Pubkey *pk = nullptr; if (!PGP::PublicKeyBlockParse(m, 0, pk)) return 0; bool ok = pk->Good() && sig->VerifyData(pk->key, data, 0); delete pk; return ok ? 1 : 0; }, mutated, "sig-or-key");
    for (size_t i = 0; i < res.size(); i++) {
      faults++; if (res[i] != 1) continue;
      if (i < ns) { Region r = sig_region(S.pkt, sp[0], P.pos[i]);
        if (region_protected(r)) { if (!ctx.fail("sig/" + A + "/flipped-" + region_name(r) + "-accepted", "signature packet with one flipped byte verified: " + at(P.pos[i], P.mask[i], r) + " " + d.str() + " sig=" + hexs(S.pkt, 700))) break; }
        else ctx.count(std::string("accepted_unprotected:") + region_name(r)); }
      else { size_t j = i - ns; Region r = key_region(pubpkt, kp[0], K.pos[j]);
        if (region_protected(r, false)) { if (!ctx.fail("sig/" + A + "/flipped-key-accepted", "signature verified with an altered key: " + at(K.pos[j], K.mask[j], r) + " " + d.str() + " key=" + hexs(pubpkt, 700))) break; }
        else ctx.count(std::string("accepted_unprotected:") + region_name(r)); }
    }
    ctx.count("sig_packet_faults", (int64_t)ns); ctx.count("key_faults", (int64_t)nk);
    for (auto o : sk) if (o != &k && o->algo == k.algo) { faults++; if (sig->VerifyData(o->pub, data, 0)) ctx.fail("sig/" + A + "/other-key-accepted", d.str() + " verified with " + o->name); }
  }
  // ---- negative B: the signed document (no parser on mutated bytes: in-process)
  if (!ctx.failed) {
    size_t cap = ctx.thorough ? 1500 : 500; FlipPlan P = plan_flips(ctx, data.size(), cap); size_t n = 0;
    for (size_t i = 0; i < P.pos.size(); i++) {
      Oct m = data; unsigned char &b = m[P.pos[i]]; unsigned char nv = b ^ P.mask[i];
      if (text) { if (b == '\r' || b == '\n') continue; if (nv == '\r' || nv == '\n') nv = b ^ 0x40; if (nv == '\r' || nv == '\n') continue; }
      b = nv; n++;
      if (sig->VerifyData(vkey, m, 0)) { ctx.fail("sig/" + A + "/flipped-document-accepted", "document offset " + std::to_string(P.pos[i]) + " " + d.str()); break; }
    }
    { Oct m = data; m.push_back('x'); n++; if (sig->VerifyData(vkey, m, 0)) ctx.fail("sig/" + A + "/extended-document-accepted", d.str()); }
    if (!data.empty()) { Oct m(data.begin(), data.end() - 1); bool equiv = text && to_crlf(m) == to_crlf(data); n++; if (!equiv && sig->VerifyData(vkey, m, 0)) ctx.fail("sig/" + A + "/truncated-document-accepted", d.str()); }
    faults += (int64_t)n; ctx.count("document_faults", (int64_t)n);
  }
  ctx.count("faults_injected", faults);
}

// texts whose line-ending forms the two entry points may treat differently (lone CR): the same signature over the same bytes must get
// the same verdict from VerifyData (memory) and Verify (file)
// Signature values with leading zero octets.  r and s travel as MPIs, which drop leading zeros; EdDSA wants them back as 32-octet strings,
// (EC)DSA as integers.  One signature in 256 has a short r, one in 256 a short s - far too rare for the round trips above to meet them,
// so this sub-property searches for them: documents are generated until the library's own signature falls into the wanted class
// (r short and s full length, s short and r full length, r shorter by two octets or both short as met on the way), then the untouched
// signature must verify through every entry point, and one flipped bit in r respectively s must not.
VF_SUB(sig_value_length_classes, 64, 2500) {
  PGP::MemoryGuardReset();
  static const char *names[] = {"eddsa-a", "eddsa-b", "ecdsa256a", "ecdsa384", "dsa2048a", "dsa1024"};
  Key &k = key_named(names[ctx.c.weighted({6, 6, 2, 1, 1, 1})]); const std::string A = algo_name(k.algo);
  size_t nominal = k.algo == TMCG_OPENPGP_PKALGO_DSA ? k.qbits / 8 : k.curve == "NIST P-384" ? 48 : 32;
  int want = (int)ctx.c.weighted({5, 5}); // 0: r short, 1: s short
  tmcg_openpgp_hashalgo_t h = k.algo == TMCG_OPENPGP_PKALGO_DSA && k.qbits > 256 ? TMCG_OPENPGP_HASHALGO_SHA512 : (ctx.c.coin() ? TMCG_OPENPGP_HASHALGO_SHA256 : TMCG_OPENPGP_HASHALGO_SHA512);
  int version = ctx.c.prob(1, 5) ? 5 : 4; time_t keytime = vtime() - 5000, sigtime = vtime() - 10; uint64_t seed = ctx.c.raw64();
  Oct pubpkt = key_packet(k, keytime, false), pubbody = body_of(pubpkt), fpr; PGP::FingerprintCompute(pubbody, fpr);
  std::unique_ptr<TMCG_OpenPGP_Pubkey> pko(pubkey_object(k, keytime, pubpkt));
  if (!pko->Good()) { ctx.fail("key/" + A + "/library-key-object-bad", k.name); return; }
  size_t budget = ctx.thorough ? 4000 : 2500, tries = 0; bool hit = false; DocSig S; Oct data; size_t rl = 0, sl = 0; std::unique_ptr<TMCG_OpenPGP_Signature> sig;
  for (; tries < budget && !hit; tries++) {
    data = stream_bytes(seed + tries, 1 + (size_t)(mix64(seed ^ tries) % 40));
    S = make_docsig(k, version, false, h, sigtime, 0, "", fpr, data);
    if (!S.ok) { ctx.fail("sig/" + A + "/library-cannot-sign", S.err + " for " + k.name); return; }
    sig.reset(parse_sig(S.pkt)); if (!sig || !sig->Good()) { ctx.fail("sig/" + A + "/own-signature-unparsable", "SignatureParse refused " + hexs(S.pkt, 400) + " key " + k.name); return; }
    rl = (gcry_mpi_get_nbits(sig->dsa_r) + 7) / 8; sl = (gcry_mpi_get_nbits(sig->dsa_s) + 7) / 8;
    hit = want == 0 ? (rl < nominal) : (sl < nominal);
  }
  ctx.count("signatures_made_while_searching", (int64_t)tries);
  std::ostringstream d; d << k.name << " " << hash_name(h) << " v" << version << " nominal " << nominal << " octets, r has " << rl << ", s has " << sl << " (document #" << tries << " of the search, " << data.size() << " octets)";
  ctx.desc << d.str(); ctx.label(std::string("algo:") + A);
  if (!hit) { ctx.label("class-not-reached-within-budget"); return; }
  std::string cls = rl < nominal && sl < nominal ? "both-short" : rl < nominal ? (rl + 1 < nominal ? "r-short-by-two-or-more" : "r-short") : (sl + 1 < nominal ? "s-short-by-two-or-more" : "s-short");
  ctx.label("class:" + cls); ctx.nontrivial(d.str() + hkey(S.pkt));
  if (!sig->VerifyData(pko->key, data, 0)) { ctx.fail("sig/" + A + "/untouched-signature-refused/" + (rl < nominal ? "r" : "s") + "-with-leading-zero-octet", "VerifyData refused the library's own signature: " + d.str() + " sig=" + hexs(S.pkt, 600)); return; }
  if (!sig->VerifyData(k.pub, data, 0)) { ctx.fail("sig/" + A + "/untouched-signature-refused-with-gcrypt-key/" + (rl < nominal ? "r" : "s") + "-with-leading-zero-octet", d.str()); return; }
  { char tmpl[] = "/tmp/c20doc-XXXXXX"; int fd = mkstemp(tmpl);
    if (fd >= 0) { close(fd); write_file(tmpl, data); bool ok = sig->Verify(pko->key, std::string(tmpl), 0); unlink(tmpl);
      if (!ok) { ctx.fail("sig/" + A + "/untouched-signature-refused-from-file/" + (rl < nominal ? "r" : "s") + "-with-leading-zero-octet", d.str()); return; } } }
  // tamper: the last octet of the packet belongs to s, the octet before the MPI header of s to r
  for (int which = 0; which < 2 && !ctx.failed; which++) {
    Oct m = S.pkt; size_t pos = which == 0 ? m.size() - 1 : m.size() - sl - 3; m[pos] ^= 0x04;
    std::unique_ptr<TMCG_OpenPGP_Signature> t(parse_sig(m)); if (!t) continue; // unparsable = refused
    if (t->Good() && t->VerifyData(pko->key, data, 0)) ctx.fail("sig/" + A + "/altered-signature-value-accepted/short-value-class", std::string(which ? "r" : "s") + " altered, " + d.str());
  }
}

VF_SUB(sig_text_file_vs_memory, 40, 1500) {
  PGP::MemoryGuardReset();
  Key &k = key_named(ctx.c.coin() ? "rsa2048a" : "eddsa-a"); tmcg_openpgp_hashalgo_t h = TMCG_OPENPGP_HASHALGO_SHA256;
  bool lone_cr = false; Oct data = gen_text_doc(ctx, (size_t)ctx.c.range(1, 300), lone_cr);
  switch (ctx.c.weighted({3, 1, 1, 1})) { case 1: data.push_back('\r'); break; case 2: { Oct x = {'a', '\r', '\r', '\n', 'b'}; app(data, x); break; } case 3: { Oct x = {'a', '\r', 'b', '\n'}; app(data, x); break; } default: break; }
  lone_cr = false; for (size_t j = 0; j < data.size(); j++) if (data[j] == '\r' && (j + 1 >= data.size() || data[j + 1] != '\n')) lone_cr = true;
  time_t t = vtime(); Oct pubpkt = key_packet(k, t, false), kid; PGP::KeyidCompute(body_of(pubpkt), kid);
  bool sign_from_file = ctx.c.coin();
  char tmpl[] = "/tmp/c20txt-XXXXXX"; int fd = mkstemp(tmpl); if (fd < 0) { ctx.discard(); return; } close(fd); write_file(tmpl, data);
  Oct trailer, hash, left; PGP::PacketSigPrepareDetachedSignature(TMCG_OPENPGP_SIGNATURE_CANONICAL_TEXT_DOCUMENT, k.algo, h, t, 0, "", kid, trailer);
  bool hr = sign_from_file ? PGP::TextDocumentHash(std::string(tmpl), trailer, h, hash, left) : PGP::TextDocumentHash(data, trailer, h, hash, left);
  ctx.desc << k.name << " text(" << data.size() << ")" << (lone_cr ? " lone-CR" : "") << (sign_from_file ? " hashed-from-file" : " hashed-from-memory") << " doc=" << hexs(data, 48);
  ctx.label(lone_cr ? "lone-CR" : "no-lone-CR"); ctx.label(sign_from_file ? "hashed-from-file" : "hashed-from-memory"); ctx.nontrivial(hkey(data) + (sign_from_file ? "f" : "m"));
  if (!hr) { unlink(tmpl); ctx.fail("sig/text/hash-function-failed", ctx.desc.str()); return; }
  Mpis m; if (lib_sign(k, hash, h, m)) { unlink(tmpl); ctx.fail("sig/text/library-cannot-sign", ctx.desc.str()); return; }
  Oct pkt = sig_packet(k, trailer, left, m); std::unique_ptr<TMCG_OpenPGP_Signature> sig(parse_sig(pkt));
  if (!sig) { unlink(tmpl); ctx.fail("sig/text/own-signature-unparsable", ctx.desc.str()); return; }
  bool vm = sig->VerifyData(k.pub, data, 0), vf_ = sig->Verify(k.pub, std::string(tmpl), 0); unlink(tmpl);
  if (!(sign_from_file ? vf_ : vm)) ctx.fail("sig/text/untouched-signature-refused-by-same-entry-point", ctx.desc.str());
  if (vm != vf_) ctx.fail(lone_cr ? "sig/text/lone-cr-file-and-memory-verdicts-differ" : "sig/text/file-and-memory-verdicts-differ",
    std::string("the same type 0x01 signature over the same bytes: VerifyData(memory)=") + (vm ? "true" : "false") + " Verify(file)=" + (vf_ ? "true" : "false") + "; " + ctx.desc.str());
}

// =========================================================================== key blocks: certifications, bindings, direct-key signatures
struct BlockSpec {
  Key *prim = nullptr, *sub = nullptr, *certifier = nullptr; std::string uid; tmcg_openpgp_signature_t certtype = TMCG_OPENPGP_SIGNATURE_POSITIVE_CERTIFICATION;
  tmcg_openpgp_hashalgo_t h_uid = TMCG_OPENPGP_HASHALGO_SHA256, h_sub = TMCG_OPENPGP_HASHALGO_SHA256, h_dir = TMCG_OPENPGP_HASHALGO_SHA256, h_cert = TMCG_OPENPGP_HASHALGO_SHA256;
  time_t keytime = 0, uidsigtime = 0, subtime = 0, subsigtime = 0, dirsigtime = 0, certsigtime = 0, keyexp = 0, certexp = 0; bool direct = false, bis = true, issuer_fpr = true;
};
struct Block { Oct pub, pubbody, fpr, kid, uidpkt, uidsig, dirsig, certsig, sub, subbody, subsig, all; std::vector<Span> spans; std::vector<std::string> role; std::string err; bool ok = false; std::vector<std::string> oracle_diffs; };
static Oct key_hash_prefix(const Oct &body) { Oct in; in.push_back(0x99); in.push_back(body.size() >> 8); in.push_back(body.size()); app(in, body); return in; }
static Oct v4_finish(int h, Oct in, const Oct &trailer) { app(in, trailer); in.push_back(0x04); in.push_back(0xFF); put32(in, (uint32_t)trailer.size()); return H(h, in); }
static bool sign_into(const Key &k, const Oct &trailer, const Oct &hash, const Oct &left, tmcg_openpgp_hashalgo_t h, Oct &pkt, std::string &err) {
  Mpis m; gcry_error_t e = lib_sign(k, hash, h, m); if (e) { err = std::string("sign: ") + gcry_strerror(e); return false; } pkt = sig_packet(k, trailer, left, m); return true;
}
static Block build_block(const BlockSpec &sp) {
  Block B; const Key &P = *sp.prim; Oct empty;
  B.pub = key_packet(P, sp.keytime, false); B.pubbody = body_of(B.pub); PGP::FingerprintCompute(B.pubbody, B.fpr); PGP::KeyidCompute(B.pubbody, B.kid);
  Oct issuer = sp.issuer_fpr ? B.fpr : B.kid, pubflags, subflags; pubflags.push_back(0x03); subflags.push_back(0x0C);
  auto add = [&](const Oct &pkt, const char *role) { app(B.all, pkt); B.role.push_back(role); };
  add(B.pub, "pub");
  if (sp.direct) {
    Oct tr, hash, left; PGP::PacketSigPrepareDesignatedRevoker(P.algo, sp.h_dir, sp.dirsigtime, pubflags, issuer, P.algo, empty, sp.bis, tr);
    PGP::KeyHash(B.pubbody, tr, sp.h_dir, hash, left);
    if (hash != v4_finish(sp.h_dir, key_hash_prefix(B.pubbody), tr)) B.oracle_diffs.push_back("direct-key");
    if (!sign_into(P, tr, hash, left, sp.h_dir, B.dirsig, B.err)) return B; add(B.dirsig, "dirsig");
  }
  PGP::PacketUidEncode(sp.uid, B.uidpkt); add(B.uidpkt, "uid");
  {
    Oct tr, hash, left; PGP::PacketSigPrepareSelfSignature(sp.certtype, P.algo, sp.h_uid, sp.uidsigtime, sp.keyexp, pubflags, issuer, sp.bis, tr);
    PGP::CertificationHash(B.pubbody, sp.uid, empty, tr, sp.h_uid, hash, left);
    Oct in = key_hash_prefix(B.pubbody); in.push_back(0xB4); put32(in, (uint32_t)sp.uid.size()); for (char ch : sp.uid) in.push_back((unsigned char)ch);
    if (hash != v4_finish(sp.h_uid, in, tr)) B.oracle_diffs.push_back("certification");
    if (!sign_into(P, tr, hash, left, sp.h_uid, B.uidsig, B.err)) return B; add(B.uidsig, "uidsig");
  }
  if (sp.certifier) {
    const Key &C = *sp.certifier; Oct cpub = key_packet(C, sp.keytime, false), cfpr, tr, hash, left; PGP::FingerprintCompute(body_of(cpub), cfpr);
    PGP::PacketSigPrepareCertificationSignature(TMCG_OPENPGP_SIGNATURE_GENERIC_CERTIFICATION, C.algo, sp.h_cert, sp.certsigtime, sp.certexp, "", cfpr, tr);
    PGP::CertificationHash(B.pubbody, sp.uid, empty, tr, sp.h_cert, hash, left);
    if (!sign_into(C, tr, hash, left, sp.h_cert, B.certsig, B.err)) return B; add(B.certsig, "certsig");
  }
  if (sp.sub) {
    B.sub = key_packet(*sp.sub, sp.subtime, true); B.subbody = body_of(B.sub); add(B.sub, "sub");
    Oct tr, hash, left; PGP::PacketSigPrepareSelfSignature(TMCG_OPENPGP_SIGNATURE_SUBKEY_BINDING, P.algo, sp.h_sub, sp.subsigtime, 0, subflags, issuer, sp.bis, tr);
    PGP::KeyHash(B.pubbody, B.subbody, tr, sp.h_sub, hash, left);
    if (hash != v4_finish(sp.h_sub, cat(key_hash_prefix(B.pubbody), key_hash_prefix(B.subbody)), tr)) B.oracle_diffs.push_back("subkey-binding");
    if (!sign_into(P, tr, hash, left, sp.h_sub, B.subsig, B.err)) return B; add(B.subsig, "subsig");
  }
  if (!split_packets(B.all, B.spans) || B.spans.size() != B.role.size()) { B.err = "own splitter disagrees with the library's packet framing"; return B; }
  B.ok = true; return B;
}
// verdict bits of the object-level checks on a (possibly altered) key block
enum { V_KEY = 1, V_UID = 2, V_SUB = 4, V_DIRECT = 8, V_CERT = 16, V_PARSED = 32 };
static unsigned char eval_block(const Oct &bytes, gcry_sexp_t certifier_key) {
  TMCG_OpenPGP_Pubkey *pub = nullptr; if (!PGP::PublicKeyBlockParse(bytes, 0, pub)) return 0;
  unsigned char v = V_PARSED; TMCG_OpenPGP_Keyring *ring = new TMCG_OpenPGP_Keyring();
  if (pub->CheckSelfSignatures(ring, 0)) v |= V_KEY;
  if (pub->userids.size() > 0 && pub->userids[0]->valid) v |= V_UID;
  pub->CheckSubkeys(ring, 0); if (pub->subkeys.size() > 0 && pub->subkeys[0]->valid) v |= V_SUB;
  for (auto s : pub->selfsigs) if (s->valid) v |= V_DIRECT;
  if (certifier_key && pub->userids.size() > 0) for (auto s : pub->userids[0]->certsigs) if (s->Verify(certifier_key, pub->pub_hashing, pub->userids[0]->userid, 0)) v |= V_CERT;
  delete ring; delete pub; return v;
}
static std::string verdict_str(unsigned v) { std::string s; if (v & V_PARSED) s += "parsed "; if (v & V_KEY) s += "key-valid "; if (v & V_UID) s += "uid-valid "; if (v & V_SUB) s += "subkey-valid "; if (v & V_DIRECT) s += "direct-sig-valid "; if (v & V_CERT) s += "certification-valid "; return s.empty() ? "refused" : s; }
static std::string gen_uid(Ctx &ctx) {
  size_t n = (size_t)ctx.c.range(1, 40); uint64_t seed = ctx.c.raw64(); std::string u;
  for (size_t i = 0; i < n; i++) u += (char)(0x20 + mix64(seed ^ mix64(i + 5)) % 95);
  return u;
}

VF_SUB(sig_certification_and_key_signatures, 80, 3000) {
  PGP::MemoryGuardReset();
  std::vector<Key *> sk = signing_keys(); BlockSpec sp; sp.prim = sk[ctx.c.index(sk.size())]; Key &P = *sp.prim;
  static const char *subs[] = {"", "elg2048", "rsa2048e", "ecdh25519", "ecdh256"}; std::string sn = subs[ctx.c.weighted({2, 2, 2, 3, 2})]; if (!sn.empty()) sp.sub = &key_named(sn);
  sp.uid = gen_uid(ctx); sp.certtype = (tmcg_openpgp_signature_t)(0x10 + ctx.c.index(4)); sp.direct = ctx.c.prob(1, 3); sp.bis = ctx.c.coin(); sp.issuer_fpr = ctx.c.coin();
  auto strong = [&](const Key &k) { for (int t = 0; t < 20; t++) { int h = STRONG_HASHES[ctx.c.index(5)]; if (hash_fits_key(k, h)) return (tmcg_openpgp_hashalgo_t)h; } return TMCG_OPENPGP_HASHALGO_SHA512; };
  sp.h_uid = strong(P); sp.h_sub = strong(P); sp.h_dir = strong(P);
  if (ctx.c.prob(1, 3)) { std::vector<Key *> o; for (auto k : sk) if (k != &P && k->verify_ms < 30) o.push_back(k); sp.certifier = o[ctx.c.index(o.size())]; sp.h_cert = strong(*sp.certifier); sp.certexp = ctx.c.coin() ? 0 : 1000000; }
  sp.keytime = vtime() - (time_t)ctx.c.range(100, 100000000); sp.subtime = sp.keytime + (time_t)ctx.c.range(0, 50); sp.uidsigtime = sp.keytime + (time_t)ctx.c.range(0, 50);
  sp.subsigtime = sp.subtime + (time_t)ctx.c.range(0, 40); sp.dirsigtime = sp.keytime + (time_t)ctx.c.range(0, 50); sp.certsigtime = sp.keytime + (time_t)ctx.c.range(0, 90);
  sp.keyexp = ctx.c.coin() ? 0 : (time_t)ctx.c.range(200000000, 400000000);
  std::ostringstream d; d << P.name << " uid(" << sp.uid.size() << ") cert=0x" << std::hex << (int)sp.certtype << std::dec << " " << hash_name(sp.h_uid) << (sp.sub ? " sub=" + sp.sub->name + "/" + hash_name(sp.h_sub) : std::string(" no-subkey")) << (sp.direct ? std::string(" direct-key-sig/") + hash_name(sp.h_dir) : std::string(""))
    << (sp.certifier ? " certified-by=" + sp.certifier->name : std::string("")) << (sp.keyexp ? " key-expires" : "") << (sp.bis ? " bis" : "") << (sp.issuer_fpr ? " issuer=fpr" : " issuer=keyid");
  ctx.desc << d.str(); const std::string A = algo_name(P.algo);
  ctx.label(std::string("primary:") + A); ctx.label("sub:" + (sp.sub ? std::string(algo_name(sp.sub->algo)) + (sp.sub->curve.empty() ? "" : "/" + sp.sub->curve) : std::string("none"))); ctx.label("cert:0x1" + std::to_string((int)sp.certtype - 0x10));
  if (sp.direct) ctx.label("with-direct-key-signature"); if (sp.certifier) ctx.label("with-third-party-certification");
  Block B = build_block(sp);
  if (!B.ok) { ctx.fail("cert/" + A + "/library-cannot-build-block", B.err + " for " + d.str()); return; }
  export_artefact((std::string("keyblock-") + A).c_str(), B.all);
  for (auto &w : B.oracle_diffs) ctx.fail("hash/" + w + "/differs-from-rfc4880", "the library's hash input for a " + w + " signature differs from RFC 4880 5.2.4: " + d.str());
  ctx.nontrivial(d.str() + hkey(B.all));
  std::unique_ptr<TMCG_OpenPGP_Pubkey> cko; gcry_sexp_t ckey = nullptr;
  if (sp.certifier) { cko.reset(pubkey_object(*sp.certifier, sp.keytime, key_packet(*sp.certifier, sp.keytime, false))); ckey = cko->key; }
  // ---- positive
  unsigned want = V_PARSED | V_KEY | V_UID | (sp.sub ? V_SUB : 0) | (sp.direct ? V_DIRECT : 0) | (sp.certifier ? V_CERT : 0);
  unsigned got = eval_block(B.all, ckey);
  if ((got & want) != want) { ctx.fail("cert/" + A + "/untouched-block-refused", "expected {" + verdict_str(want) + "} got {" + verdict_str(got) + "} for " + d.str() + " block=" + hexs(B.all, 1500)); return; }
  { TMCG_OpenPGP_Pubkey *pub = nullptr; // the direct object-level entry points on the parsed signatures
    if (PGP::PublicKeyBlockParse(B.all, 0, pub)) {
      if (pub->id != B.kid || pub->fingerprint != B.fpr) ctx.fail("keyid/parsed-key-id-differs", d.str());
      if (pub->userids.size() == 1 && pub->userids[0]->selfsigs.size() == 1) {
        TMCG_OpenPGP_Signature *s = pub->userids[0]->selfsigs[0];
        if (!s->Verify(pub->key, pub->pub_hashing, sp.uid, 0)) ctx.fail("cert/" + A + "/untouched-certification-refused", d.str());
        if (s->Verify(pub->key, pub->pub_hashing, sp.uid + "x", 0)) ctx.fail("cert/" + A + "/certification-verifies-for-other-userid", d.str());
        if (sp.uid.size() > 1 && s->Verify(pub->key, pub->pub_hashing, sp.uid.substr(1), 0)) ctx.fail("cert/" + A + "/certification-verifies-for-other-userid", d.str());
        if (sp.sub && s->Verify(pub->key, pub->pub_hashing, B.subbody, 0)) ctx.fail("cert/" + A + "/certification-verifies-as-binding", d.str());
      } else ctx.fail("cert/" + A + "/parsed-structure-unexpected", d.str());
      if (sp.sub && pub->subkeys.size() == 1 && pub->subkeys[0]->bindsigs.size() == 1) {
        TMCG_OpenPGP_Signature *s = pub->subkeys[0]->bindsigs[0];
        if (!s->Verify(pub->key, pub->pub_hashing, pub->subkeys[0]->sub_hashing, 0)) ctx.fail("cert/" + A + "/untouched-binding-refused", d.str());
        if (s->Verify(pub->key, pub->subkeys[0]->sub_hashing, pub->pub_hashing, 0)) ctx.fail("cert/" + A + "/binding-verifies-with-swapped-keys", d.str());
      }
      delete pub;
    }
  }
  if (ctx.failed) return;
  // ---- negative: every byte of the block (sampled beyond the cap), forked
  size_t cap = ctx.thorough ? 1500 : 600; FlipPlan Pl = plan_flips(ctx, B.all.size(), cap);
  auto span_of = [&](size_t pos) { for (size_t j = 0; j < B.spans.size(); j++) if (pos >= B.spans[j].off && pos < B.spans[j].end()) return j; return (size_t)0; };
  auto region_of = [&](size_t pos, size_t j) -> Region {
    const std::string &r = B.role[j]; if (pos < B.spans[j].off + B.spans[j].hdr) return R_FRAMING;
    if (r == "pub" || r == "sub") return key_region(B.all, B.spans[j], pos); if (r == "uid") return R_UIDBODY; return sig_region(B.all, B.spans[j], pos); };
  // flips that leave a signature cryptographically checkable (signature values, unprotected fields) cost a public-key operation each
  thin(Pl, [&](size_t pos) { size_t j = span_of(pos); Region r = region_of(pos, j); return r == R_MPIVAL || r == R_MPIBITS || r == R_ULEN || r == R_FRAMING; }, pk_budget(ctx, P, 1800), ctx.c.raw64());
  auto mutated = [&](size_t i) { Oct m = B.all; m[Pl.pos[i]] ^= Pl.mask[i]; return m; };
  auto res = run_forked(ctx, Pl.pos.size(), [&](size_t i) -> unsigned char { return eval_block(mutated(i), ckey); }, mutated, "keyblock");
  for (size_t i = 0; i < res.size() && !ctx.failed; i++) {
    if (res[i] >= 0xF0) continue; size_t j = span_of(Pl.pos[i]); Region r = region_of(Pl.pos[i], j); const std::string &role = B.role[j]; unsigned v = res[i];
    unsigned forbidden = role == "pub" ? (V_KEY | V_UID | V_SUB | V_DIRECT) : role == "dirsig" ? V_DIRECT : (role == "uid" || role == "uidsig") ? V_UID : role == "certsig" ? V_CERT : V_SUB;
    if (!region_protected(r, true)) { if (v & forbidden) ctx.count(std::string("accepted_unprotected:") + region_name(r)); continue; }
    if (v & forbidden) ctx.fail("cert/" + A + "/flipped-" + role + "-" + region_name(r) + "-accepted", "key block with one flipped byte in the " + role + " packet still gives {" + verdict_str(v & forbidden) + "}: " + at(Pl.pos[i], Pl.mask[i], r) + " " + d.str() + " block=" + hexs(B.all, 1500));
  }
  ctx.count("faults_injected", (int64_t)res.size());
}

// =========================================================================== (3) validity: expiry, key age, future dating, weak hashes
static const long H25 = 25 * 3600;
// re-frame a signature packet with extra unhashed subpackets (the unhashed area is not covered by the signature)
static Oct with_unhashed(const Oct &pkt, const Oct &uspd) {
  std::vector<Span> sp; if (!split_packets(pkt, sp) || sp.size() != 1) return pkt;
  const unsigned char *b = pkt.data() + sp[0].hdr; size_t hl = ((size_t)b[4] << 8) | b[5];
  Oct body(b, b + 6 + hl); body.push_back(uspd.size() >> 8); body.push_back(uspd.size()); app(body, uspd); body.insert(body.end(), b + 8 + hl, b + sp[0].body);
  Oct out; PGP::PacketTagEncode(2, out); PGP::PacketLengthEncode(body.size(), out); app(out, body); return out;
}
VF_SUB(sig_validity_time_and_weakhash, 480, 20000) {
  PGP::MemoryGuardReset();
  std::vector<Key *> sk = signing_keys(); std::vector<Key *> cheap; for (auto k : sk) if (k->verify_ms < 10) cheap.push_back(k);
  Key &k = *cheap[ctx.c.index(cheap.size())]; const std::string A = algo_name(k.algo);
  unsigned scen = (unsigned)ctx.c.weighted({4, 3, 4, 3, 4, 2});
  static const char *names[] = {"expired", "older-than-key", "future-dated", "weak-hash", "key-block-defect", "unhashed-override"};
  ctx.label(names[scen]); ctx.label(std::string("algo:") + A);
  time_t T0 = vtime(); Oct data = gen_binary_doc(ctx, (size_t)ctx.c.range(0, 40));
  auto strong = [&]() { for (int t = 0; t < 20; t++) { int h = STRONG_HASHES[ctx.c.index(5)]; if (hash_fits_key(k, h)) return (tmcg_openpgp_hashalgo_t)h; } return TMCG_OPENPGP_HASHALGO_SHA512; };
  Oct pubpkt = key_packet(k, T0 - 1000, false), kid, fpr; PGP::KeyidCompute(body_of(pubpkt), kid); PGP::FingerprintCompute(body_of(pubpkt), fpr);
  auto mk = [&](tmcg_openpgp_hashalgo_t h, time_t sigtime, time_t exp, std::unique_ptr<TMCG_OpenPGP_Signature> &sig, Oct *pktout = nullptr) -> bool {
    int ver = ctx.c.prob(1, 6) ? 5 : 4; DocSig S = make_docsig(k, ver, false, h, sigtime, exp, "", (ver == 5 || ctx.c.coin()) ? fpr : kid, data);
    if (!S.ok) { ctx.fail("sig/" + A + "/library-cannot-sign", S.err); return false; }
    sig.reset(parse_sig(S.pkt)); if (pktout) *pktout = S.pkt;
    if (!sig || !sig->Good()) { ctx.fail("sig/" + A + "/own-signature-unparsable", hexs(S.pkt, 300)); return false; }
    if (!sig->VerifyData(k.pub, data, 0)) { ctx.fail("sig/" + A + "/untouched-signature-refused", ctx.desc.str()); return false; }
    return true; };
  std::unique_ptr<TMCG_OpenPGP_Signature> sig;
  switch (scen) {
    case 0: { // created now, lifetime E; judged at several later instants of the virtual clock
      tmcg_openpgp_hashalgo_t h = strong(); time_t E = (time_t)ctx.c.small(2, 300000000), keyt = T0 - (time_t)ctx.c.range(0, 1000);
      ctx.desc << k.name << " " << hash_name(h) << " lifetime=" << E << "s"; if (!mk(h, T0, E, sig)) return;
      long before = (long)ctx.c.range(0, (uint64_t)E - 1), after = (long)E + 1 + (long)ctx.c.small(0, 400000000);
      ctx.desc << " judged at +" << before << "s and +" << after << "s"; ctx.nontrivial(ctx.desc.str());
      set_vnow(before); if (!sig->CheckValidity(keyt, 0)) ctx.fail("validity/unexpired-signature-refused", ctx.desc.str());
      set_vnow(after); bool v = sig->CheckValidity(keyt, 0); set_vnow(0);
      if (v) ctx.fail("validity/expired-signature-accepted", "CheckValidity accepted a signature " + std::to_string(after - (long)E) + "s after its expiration: " + ctx.desc.str());
      else if (!sig->expired) ctx.fail("validity/expired-flag-not-set", ctx.desc.str());
      // a signature without expiration subpacket never expires
      std::unique_ptr<TMCG_OpenPGP_Signature> s2; if (mk(h, T0, 0, s2)) { set_vnow(after); bool v2 = s2->CheckValidity(keyt, 0); set_vnow(0); if (!v2) ctx.fail("validity/non-expiring-signature-refused", ctx.desc.str()); }
      break; }
    case 1: { // key creation time after the signature creation time
      tmcg_openpgp_hashalgo_t h = strong(); time_t sigt = T0 - (time_t)ctx.c.range(0, 100000); long dlt = (long)ctx.c.small(1, 500000000);
      ctx.desc << k.name << " " << hash_name(h) << " key created " << dlt << "s after the signature"; ctx.nontrivial(ctx.desc.str()); if (!mk(h, sigt, 0, sig)) return;
      if (sig->CheckValidity(sigt + dlt, 0)) ctx.fail("validity/signature-older-than-key-accepted", ctx.desc.str());
      if (!sig->CheckValidity(sigt, 0)) ctx.fail("validity/signature-as-old-as-key-refused", ctx.desc.str());
      if (!sig->CheckValidity(sigt - (time_t)ctx.c.small(1, 1000000), 0)) ctx.fail("validity/signature-younger-than-key-refused", ctx.desc.str());
      break; }
    case 2: { // creation time beyond the documented tolerance of 25 hours
      tmcg_openpgp_hashalgo_t h = strong(); long ahead = H25 + 3600 + (long)ctx.c.small(0, 400000000), near = (long)ctx.c.range(0, 23 * 3600); bool by_clock = ctx.c.coin();
      ctx.desc << k.name << " " << hash_name(h) << " created " << ahead << "s ahead of the clock" << (by_clock ? " (clock moved back)" : ""); ctx.nontrivial(ctx.desc.str());
      if (by_clock) { set_vnow(ahead); bool ok = mk(h, vtime(), 0, sig); set_vnow(0); if (!ok) return; } else if (!mk(h, T0 + ahead, 0, sig)) return;
      if (sig->CheckValidity(T0 - 5000, 0)) ctx.fail("validity/far-future-signature-accepted", ctx.desc.str());
      std::unique_ptr<TMCG_OpenPGP_Signature> s2; if (mk(h, T0 + near, 0, s2) && !s2->CheckValidity(T0 - 5000, 0)) ctx.fail("validity/slightly-ahead-signature-refused", "created " + std::to_string(near) + "s ahead (tolerance 25h): " + ctx.desc.str());
      break; }
    case 3: { // MD5, SHA-1, RIPEMD-160
      std::vector<int> hs; for (int h : WEAK_HASHES) if (hash_fits_key(k, h)) hs.push_back(h);
      if (hs.empty()) { ctx.count("skipped_no_weak_hash_for_key"); ctx.label("skipped"); ctx.desc << k.name << " cannot sign with a weak hash"; return; }
      tmcg_openpgp_hashalgo_t h = (tmcg_openpgp_hashalgo_t)hs[ctx.c.index(hs.size())]; ctx.desc << k.name << " " << hash_name(h); ctx.label(std::string("hash:") + hash_name(h)); ctx.nontrivial(ctx.desc.str() + hkey(data));
      if (!mk(h, T0, 0, sig)) return;
      if (sig->CheckValidity(T0 - 1000, 0)) ctx.fail("validity/weak-hash-accepted", "CheckValidity accepted a " + std::string(hash_name(h)) + " signature: " + ctx.desc.str());
      std::unique_ptr<TMCG_OpenPGP_Signature> s2; if (mk(strong(), T0, 0, s2) && !s2->CheckValidity(T0 - 1000, 0)) ctx.fail("validity/fresh-strong-signature-refused", ctx.desc.str());
      break; }
    case 4: { // the same defects inside a key block: the user ID / subkey must not become valid
      BlockSpec sp; sp.prim = &k; sp.sub = &key_named(ctx.c.coin() ? "ecdh25519" : "rsa2048e"); sp.uid = gen_uid(ctx); sp.h_uid = sp.h_sub = strong();
      sp.keytime = T0 - 100000; sp.subtime = sp.keytime + 10; sp.uidsigtime = sp.keytime + 20; sp.subsigtime = sp.subtime + 20;
      unsigned defect = (unsigned)ctx.c.index(3), where = (unsigned)ctx.c.index(2); static const char *dn[] = {"older-than-key", "future-dated", "weak-hash"};
      if (defect == 2) { std::vector<int> hs; for (int h : WEAK_HASHES) if (hash_fits_key(k, h)) hs.push_back(h); if (hs.empty()) defect = 0; else (where ? sp.h_sub : sp.h_uid) = (tmcg_openpgp_hashalgo_t)hs[ctx.c.index(hs.size())]; }
      if (defect == 0) { (where ? sp.subsigtime : sp.uidsigtime) = (where ? sp.subtime : sp.keytime) - (time_t)ctx.c.small(1, 100000000); }
      if (defect == 1) { (where ? sp.subsigtime : sp.uidsigtime) = T0 + H25 + 3600 + (time_t)ctx.c.small(0, 300000000); }
      ctx.desc << k.name << " key block, " << (where ? "subkey binding" : "user ID certification") << " is " << dn[defect] << " (" << hash_name(where ? sp.h_sub : sp.h_uid) << ")"; ctx.label(std::string("block:") + dn[defect]); ctx.nontrivial(ctx.desc.str() + sp.uid);
      Block B = build_block(sp); if (!B.ok) { ctx.fail("cert/" + A + "/library-cannot-build-block", B.err); return; }
      unsigned v = eval_block(B.all, nullptr), bad = where ? V_SUB : (V_UID | V_KEY);
      if (!(v & V_PARSED)) { ctx.fail("cert/" + A + "/untouched-block-unparsable", ctx.desc.str()); return; }
      if (v & bad) ctx.fail(std::string("validity/key-block/") + dn[defect] + "-signature-accepted", "verdict {" + verdict_str(v) + "} for " + ctx.desc.str());
      if (!(v & (where ? (V_UID | V_KEY) : 0)) && where) ctx.fail("cert/" + A + "/untouched-part-of-block-refused", "verdict {" + verdict_str(v) + "} for " + ctx.desc.str());
      BlockSpec ok = sp; ok.h_uid = ok.h_sub = strong(); ok.uidsigtime = ok.keytime + 20; ok.subsigtime = ok.subtime + 20; Block G = build_block(ok);
      if (G.ok) { unsigned vg = eval_block(G.all, nullptr); if ((vg & (V_KEY | V_UID | V_SUB)) != (V_KEY | V_UID | V_SUB)) ctx.fail("cert/" + A + "/untouched-block-refused", "control block verdict {" + verdict_str(vg) + "} for " + ctx.desc.str()); }
      break; }
    default: { // an expired signature dressed up with unhashed creation/expiration subpackets stays expired
      tmcg_openpgp_hashalgo_t h = strong(); time_t E = (time_t)ctx.c.small(2, 1000000); Oct pkt;
      ctx.desc << k.name << " " << hash_name(h) << " lifetime=" << E << "s with unhashed creation/expiration subpackets"; ctx.nontrivial(ctx.desc.str()); if (!mk(h, T0, E, sig, &pkt)) return;
      long after = (long)E + 1 + (long)ctx.c.small(0, 100000000); Oct us, t4;
      PGP::PacketTimeEncode(T0 + after, t4); PGP::SubpacketEncode(2, false, t4, us); Oct e4; PGP::PacketTimeEncode((time_t)0x7FFFFFF0 - T0, e4); PGP::SubpacketEncode(3, false, e4, us);
      if (ctx.c.coin()) { Oct z(4, 0); PGP::SubpacketEncode(3, false, z, us); }
      Oct forged = with_unhashed(pkt, us); time_t keyt = T0 - 1000;
      auto res = run_forked(ctx, 1, [&](size_t) -> unsigned char {
        TMCG_OpenPGP_Signature *s = nullptr; if (!PGP::SignatureParse(forged, 0, s)) return 0; unsigned char r = 4;
        if (s->Good() && s->VerifyData(k.pub, data, 0)) r |= 1; set_vnow(after); if (s->CheckValidity(keyt, 0)) r |= 2; set_vnow(0); if (s->creationtime != T0 || s->expirationtime != E) r |= 8; delete s; return r; }, [&](size_t) { return forged; }, "sig");
      if (res[0] < 0xF0) {
        if ((res[0] & 3) == 3) ctx.fail("validity/expired-signature-revived-by-unhashed-subpackets", ctx.desc.str() + " sig=" + hexs(forged, 400));
        else if (res[0] & 8) ctx.fail("validity/unhashed-subpackets-override-hashed-times", ctx.desc.str() + " sig=" + hexs(forged, 400));
        if (res[0] & 4) ctx.label((res[0] & 1) ? "forged-unhashed-area:still-verifies" : "forged-unhashed-area:no-longer-verifies"); else ctx.label("forged-unhashed-area:unparsable");
      }
      ctx.count("faults_injected", 1);
      break; }
  }
  set_vnow(0);
}

// =========================================================================== symmetric encryption
static int gc_cipher(int pgp) {
  switch (pgp) { case 1: return GCRY_CIPHER_IDEA; case 2: return GCRY_CIPHER_3DES; case 3: return GCRY_CIPHER_CAST5; case 4: return GCRY_CIPHER_BLOWFISH; case 7: return GCRY_CIPHER_AES128; case 8: return GCRY_CIPHER_AES192;
    case 9: return GCRY_CIPHER_AES256; case 10: return GCRY_CIPHER_TWOFISH; case 11: return GCRY_CIPHER_CAMELLIA128; case 12: return GCRY_CIPHER_CAMELLIA192; case 13: return GCRY_CIPHER_CAMELLIA256; default: return 0; }
}
static const char *cipher_name(int pgp) {
  switch (pgp) { case 1: return "IDEA"; case 2: return "3DES"; case 3: return "CAST5"; case 4: return "BLOWFISH"; case 7: return "AES128"; case 8: return "AES192"; case 9: return "AES256"; case 10: return "TWOFISH"; case 11: return "CAMELLIA128"; case 12: return "CAMELLIA192"; case 13: return "CAMELLIA256"; default: return "?"; }
}
static std::vector<int> usable_ciphers(bool block16) {
  std::vector<int> v; static const int all[] = {2, 3, 4, 7, 8, 9, 10, 11, 12, 13, 1};
  for (int a : all) { int g = gc_cipher(a); if (!g || gcry_cipher_test_algo(g)) continue; if (PGP::AlgorithmKeyLength((tmcg_openpgp_skalgo_t)a) == 0 || PGP::AlgorithmIVLength((tmcg_openpgp_skalgo_t)a) == 0) continue;
    if (block16 && gcry_cipher_get_algo_blklen(g) != 16) continue; v.push_back(a); }
  return v;
}
// session key in the OpenPGP form: algorithm octet, key, two-octet checksum
static SOct session_key(int algo, const Oct &key) { SOct s; s.push_back((unsigned char)algo); unsigned sum = 0; for (auto b : key) { s.push_back(b); sum += b; } s.push_back((sum >> 8) & 0xFF); s.push_back(sum & 0xFF); return s; }
// RFC 4880 5.13: CFB with zero IV over prefix || plaintext || 0xD3 0x14 || SHA1(prefix || plaintext || 0xD3 0x14), no resynchronisation
static bool my_seipd_encrypt(int algo, const Oct &key, const Oct &rnd, const Oct &plain, bool with_mdc, Oct &out) {
  int g = gc_cipher(algo); size_t bs = gcry_cipher_get_algo_blklen(g); Oct buf(rnd.begin(), rnd.begin() + bs); buf.push_back(buf[bs - 2]); buf.push_back(buf[bs - 1]); app(buf, plain);
  if (with_mdc) { buf.push_back(0xD3); buf.push_back(0x14); Oct hsh = H(2, buf); app(buf, hsh); }
  gcry_cipher_hd_t hd; if (gcry_cipher_open(&hd, g, GCRY_CIPHER_MODE_CFB, 0)) return false;
  bool ok = !gcry_cipher_setkey(hd, key.data(), key.size()) && !gcry_cipher_setiv(hd, NULL, 0); out.assign(buf.size(), 0);
  ok = ok && !gcry_cipher_encrypt(hd, out.data(), out.size(), buf.data(), buf.size()); gcry_cipher_close(hd); return ok;
}
static size_t pick_plain_len(Ctx &ctx, std::string &cls) {
  switch (ctx.c.weighted({1, 1, 4, 4, 1})) { case 0: cls = "empty"; return 0; case 1: cls = "one-byte"; return 1; case 2: cls = "short"; return (size_t)ctx.c.range(2, 40); case 3: cls = "medium"; return (size_t)ctx.c.range(41, 500); default: cls = "long"; return (size_t)ctx.c.range(501, ctx.thorough ? 20000 : 3000); }
}
// parse + decrypt as a consumer of the object-level API does; 0 = refused, 1 = decrypted to `expect`, 2 = decrypted to something else
static unsigned char eval_message(const Oct &bytes, const SOct &key, const Oct &expect) {
  TMCG_OpenPGP_Message *msg = nullptr; if (!PGP::MessageParse(bytes, 0, msg)) return 0;
  Oct out; bool ok = msg->Decrypt(key, 0, out); delete msg; if (!ok) return 0; return out == expect ? 1 : 2;
}
static bool decrypted_literal_equals(const Oct &dec, const Oct &data) {
  TMCG_OpenPGP_Message *m2 = nullptr; if (!PGP::MessageParse(dec, 0, m2)) return false; bool ok = m2->literal_data == data; delete m2; return ok;
}

VF_SUB(sym_mdc_roundtrip_and_flips, 128, 5000) {
  PGP::MemoryGuardReset();
  std::string lcls; size_t len = pick_plain_len(ctx, lcls); Oct data = gen_binary_doc(ctx, len), lit; PGP::PacketLitEncode(data, lit);
  bool own = ctx.c.prob(2, 5); std::vector<int> cs = usable_ciphers(false); int algo = own ? cs[ctx.c.index(cs.size())] : 9;
  std::ostringstream d; d << (own ? "reference-encrypted " : "library-encrypted ") << cipher_name(algo) << " plaintext=" << lcls << "(" << data.size() << ")"; ctx.label(own ? "encryptor:reference" : "encryptor:library"); ctx.label(std::string("cipher:") + cipher_name(algo)); ctx.label("plaintext:" + lcls);
  SOct seskey; Oct enc, litmdc;
  if (!own) { // exactly as the library's test does: a first call fixes the prefix, the MDC is appended, a second call encrypts
    Oct prefix, dummy, mdcpkt; if (PGP::SymmetricEncryptAES256(lit, seskey, prefix, true, dummy)) { ctx.fail("sym/mdc/library-cannot-encrypt", d.str()); return; }
    Oct hin = prefix; app(hin, lit); hin.push_back(0xD3); hin.push_back(0x14); PGP::PacketMdcEncode(H(2, hin), mdcpkt); litmdc = cat(lit, mdcpkt);
    if (ctx.c.coin()) seskey.clear(); // fresh key, same prefix
    if (PGP::SymmetricEncryptAES256(litmdc, seskey, prefix, false, enc)) { ctx.fail("sym/mdc/library-cannot-encrypt", d.str()); return; }
    if (seskey.size() != 35 || seskey[0] != 9) ctx.fail("sym/mdc/session-key-format-unexpected", d.str());
    { unsigned sum = 0; for (size_t i = 1; i + 2 < seskey.size(); i++) sum += seskey[i]; if (seskey.size() == 35 && (((sum >> 8) & 0xFF) != seskey[33] || (sum & 0xFF) != seskey[34])) ctx.fail("sym/mdc/session-key-checksum-wrong", d.str()); }
  } else {
    size_t kl = gcry_cipher_get_algo_keylen(gc_cipher(algo)); Oct key = stream_bytes(ctx.c.raw64(), kl), rnd = stream_bytes(ctx.c.raw64(), 16); seskey = session_key(algo, key);
    if (!my_seipd_encrypt(algo, key, rnd, lit, true, enc)) { ctx.count("skipped_cipher_unusable"); ctx.label("skipped"); return; }
    Oct mdcpkt; size_t bs = gcry_cipher_get_algo_blklen(gc_cipher(algo)); Oct hin(rnd.begin(), rnd.begin() + bs); hin.push_back(hin[bs - 2]); hin.push_back(hin[bs - 1]); app(hin, lit); hin.push_back(0xD3); hin.push_back(0x14);
    mdcpkt.push_back(0xD3); mdcpkt.push_back(0x14); app(mdcpkt, H(2, hin)); litmdc = cat(lit, mdcpkt);
  }
  Oct pkt; PGP::PacketSeipdEncode(enc, pkt); ctx.desc << d.str(); ctx.nontrivial(d.str() + hkey(pkt)); export_artefact("seipd", pkt);
  // ---- positive
  TMCG_OpenPGP_Message *msg = nullptr; if (!PGP::MessageParse(pkt, 0, msg)) { ctx.fail("sym/mdc/untouched-message-unparsable", d.str()); return; }
  std::unique_ptr<TMCG_OpenPGP_Message> M(msg);
  if (!M->have_seipd || M->have_sed || M->have_aead || M->encrypted_message != enc) ctx.fail("sym/mdc/parsed-message-differs", d.str());
  { Oct out; if (!M->Decrypt(seskey, 0, out)) { ctx.fail("sym/mdc/untouched-message-refused", "Decrypt refused: " + d.str() + " pkt=" + hexs(pkt, 300)); return; }
    if (out != litmdc) { ctx.fail("sym/mdc/decrypts-to-other-plaintext", d.str()); return; }
    if (!data.empty() && !decrypted_literal_equals(out, data)) ctx.fail("sym/mdc/decrypted-literal-differs", d.str()); // (the decoder refuses a literal packet without data octets)
    SOct k1(seskey.begin(), seskey.end() - 2); Oct o2; if (!M->Decrypt(k1, 0, o2) || o2 != litmdc) ctx.fail("sym/mdc/key-without-checksum-refused", d.str()); }
  if (ctx.failed) return; int64_t faults = 0;
  // ---- every ciphertext byte (object-level, no parser on altered bytes)
  { FlipPlan P = plan_flips(ctx, enc.size(), ctx.thorough ? 2500 : 400);
    for (size_t i = 0; i < P.pos.size(); i++) { M->encrypted_message[P.pos[i]] ^= P.mask[i]; Oct out; bool acc = M->Decrypt(seskey, 0, out); M->encrypted_message[P.pos[i]] ^= P.mask[i]; faults++;
      if (acc) { size_t bs = PGP::AlgorithmIVLength((tmcg_openpgp_skalgo_t)algo); const char *w = P.pos[i] < bs + 2 ? "prefix" : P.pos[i] + 22 >= enc.size() ? "mdc" : "ciphertext";
        ctx.fail(std::string("sym/mdc/flipped-") + w + "-accepted", "offset " + std::to_string(P.pos[i]) + " of " + std::to_string(enc.size()) + (out == litmdc ? " (same plaintext) " : " (other plaintext) ") + d.str()); break; } }
    ctx.count("ciphertext_faults", (int64_t)P.pos.size()); }
  // ---- structural faults
  if (!ctx.failed) {
    auto refuse = [&](const Oct &e, const char *what) { Oct save = M->encrypted_message; M->encrypted_message = e; Oct out; bool acc = e.size() && M->Decrypt(seskey, 0, out); M->encrypted_message = save; faults++;
      if (acc) ctx.fail(std::string("sym/mdc/") + what + "-accepted", d.str()); };
    for (size_t cut : {(size_t)1, (size_t)2, (size_t)20, (size_t)22, (size_t)23}) if (enc.size() > cut) refuse(Oct(enc.begin(), enc.end() - cut), "truncated-ciphertext");
    { Oct e = enc; e.push_back(0x00); refuse(e, "extended-ciphertext"); }
    { Oct e; if (own) { size_t kl = seskey.size() - 3; Oct key(seskey.begin() + 1, seskey.begin() + 1 + kl); my_seipd_encrypt(algo, key, stream_bytes(7, 16), lit, false, e); }
      else { Oct prefix; SOct k = seskey; PGP::SymmetricEncryptAES256(lit, k, prefix, false, e); }
      refuse(e, "missing-mdc"); } // the plaintext without MDC packet inside an integrity-protected packet
    if (enc.size() > 60) { size_t bs = PGP::AlgorithmIVLength((tmcg_openpgp_skalgo_t)algo); Oct e = enc; for (size_t j = 0; j < bs; j++) std::swap(e[bs + 2 + j], e[2 * bs + 2 + j]); if (e != enc) refuse(e, "swapped-blocks"); }
    // the session key
    for (size_t i = 0; i < seskey.size(); i++) { SOct k = seskey; k[i] ^= flip_mask(ctx.c.raw64(), i, 0); Oct out; faults++; if (M->Decrypt(k, 0, out) && out == litmdc && i != 0) { ctx.fail("sym/mdc/flipped-session-key-accepted", "octet " + std::to_string(i) + " " + d.str()); break; }
      if (i == 0 && M->Decrypt(k, 0, out)) { ctx.fail("sym/mdc/flipped-session-key-algorithm-accepted", d.str()); break; } }
  }
  // ---- the same ciphertext in a packet without integrity protection (tag 9), and every byte of the packet through the parser
  if (!ctx.failed) {
    Oct sed; PGP::PacketSedEncode(enc, sed); unsigned char r = eval_message(sed, seskey, litmdc); faults++;
    if (r) ctx.fail("sym/sed/downgraded-packet-accepted", "the SEIPD ciphertext repacked as tag 9 was decrypted: " + d.str());
    std::vector<Span> sp; if (!split_packets(pkt, sp) || sp.size() != 1 || sp[0].tag != 18) { ctx.fail("sym/mdc/packet-framing-unexpected", hexs(pkt, 20)); return; }
    FlipPlan P = plan_flips(ctx, pkt.size(), ctx.thorough ? 800 : 200); auto mutated = [&](size_t i) { Oct m = pkt; m[P.pos[i]] ^= P.mask[i]; return m; };
    auto res = run_forked(ctx, P.pos.size(), [&](size_t i) -> unsigned char { return eval_message(mutated(i), seskey, litmdc); }, mutated, "seipd");
    for (size_t i = 0; i < res.size(); i++) { faults++; if (res[i] >= 0xF0 || res[i] == 0) continue; size_t pos = P.pos[i]; Region r = pos < sp[0].hdr ? R_FRAMING : pos == sp[0].hdr ? R_VERSION : R_CIPHERTEXT;
      if (r == R_CIPHERTEXT) { ctx.fail("sym/mdc/flipped-packet-ciphertext-accepted", at(pos, P.mask[i], r) + " " + d.str()); break; } else ctx.count(std::string("accepted_unprotected:") + region_name(r)); }
  }
  ctx.count("faults_injected", faults);
}

// --------------------------------------------------------------------------- encrypted data without integrity protection
VF_SUB(sed_refused, 96, 3000) {
  PGP::MemoryGuardReset();
  std::string lcls; size_t len = pick_plain_len(ctx, lcls); Oct data = gen_binary_doc(ctx, len), lit, enc, prefix; PGP::PacketLitEncode(data, lit); SOct seskey;
  unsigned variant = (unsigned)ctx.c.index(3); static const char *vn[] = {"plain SED (resynchronised CFB)", "SED carrying literal+MDC", "SED after a PKESK"};
  Oct body = lit;
  if (variant == 1) { Oct dummy, mdcpkt; PGP::SymmetricEncryptAES256(lit, seskey, prefix, true, dummy); Oct hin = prefix; app(hin, lit); hin.push_back(0xD3); hin.push_back(0x14); PGP::PacketMdcEncode(H(2, hin), mdcpkt); body = cat(lit, mdcpkt); }
  bool resync = variant != 1 || ctx.c.coin();
  if (PGP::SymmetricEncryptAES256(body, seskey, prefix, resync, enc)) { ctx.fail("sym/sed/library-cannot-encrypt", vn[variant]); return; }
  Oct msgb;
  if (variant == 2) { Key &rk = key_named("rsa2048e"); gcry_mpi_t me = gcry_mpi_new(8); if (PGP::AsymmetricEncryptRSA(seskey, rk.pub, me)) { gcry_mpi_release(me); ctx.fail("pkesk/rsa/library-cannot-encrypt", ""); return; }
    Oct kid(8, 0); PGP::PacketPkeskEncode(kid, me, msgb); gcry_mpi_release(me); }
  PGP::PacketSedEncode(enc, msgb);
  ctx.desc << vn[variant] << (resync ? " resync" : " no-resync") << " plaintext=" << lcls << "(" << data.size() << ")"; ctx.label(vn[variant]); ctx.label("plaintext:" + lcls); ctx.nontrivial(ctx.desc.str() + hkey(msgb));
  // the function level does decrypt (round trip of the primitive) ...
  { Oct out, pfx; SOct k = seskey; gcry_error_t e = PGP::SymmetricDecryptAES256(enc, k, pfx, resync, out); if (e || out != body || pfx != prefix) ctx.fail("sym/sed/function-level-roundtrip-differs", ctx.desc.str()); }
  // ... the message level must refuse
  TMCG_OpenPGP_Message *msg = nullptr; if (!PGP::MessageParse(msgb, 0, msg)) { ctx.label("refused-by-parser"); return; }
  std::unique_ptr<TMCG_OpenPGP_Message> M(msg); if (!M->have_sed || M->have_seipd) ctx.fail("sym/sed/parsed-message-differs", ctx.desc.str());
  Oct out; bool acc = M->Decrypt(seskey, 0, out); ctx.count("faults_injected", 1);
  if (acc) ctx.fail("sym/sed/unprotected-data-accepted", "Decrypt returned true for a Symmetrically Encrypted Data packet: " + ctx.desc.str());
  else if (!out.empty()) ctx.count("refused_but_plaintext_left_in_output_buffer");
  SOct k1(seskey.begin(), seskey.end() - 2); Oct o2; if (M->Decrypt(k1, 0, o2)) ctx.fail("sym/sed/unprotected-data-accepted", ctx.desc.str());
}

// --------------------------------------------------------------------------- AEAD (draft rfc4880bis: OCB / EAX, chunked)
static bool aead_mode_available(int aead) { gcry_cipher_hd_t hd; if (gcry_cipher_open(&hd, GCRY_CIPHER_AES128, aead == 1 ? GCRY_CIPHER_MODE_EAX : GCRY_CIPHER_MODE_OCB, 0)) return false; gcry_cipher_close(hd); return true; }
static Oct aead_ad(int skalgo, int aead, int c) { Oct ad = {0xD4, 0x01, (unsigned char)skalgo, (unsigned char)aead, (unsigned char)c}; for (int i = 0; i < 8; i++) ad.push_back(0); return ad; }
static size_t pick_aead_len(Ctx &ctx, size_t cd, std::string &cls) {
  switch (ctx.c.weighted({1, 2, 2, 2, 2, 2, 2, 3})) {
    case 0: cls = "1"; return 1; case 1: cls = "chunk-1"; return cd - 1; case 2: cls = "chunk"; return cd; case 3: cls = "chunk+1"; return cd + 1; case 4: cls = "2*chunk"; return 2 * cd; case 5: cls = "2*chunk+1"; return 2 * cd + 1;
    case 6: cls = "k*chunk"; return cd * (size_t)ctx.c.range(3, 6); default: cls = "random"; return (size_t)ctx.c.range(2, 6 * cd);
  }
}
struct AeadMsg { int skalgo, aead, c; size_t cd; Oct lit, iv, enc, pkt; SOct key; std::string err; bool ok = false; };
// lit is the complete plaintext (a literal packet whose total length is `want`)
static AeadMsg make_aead(int skalgo, int aead, int c, const Oct &lit) {
  AeadMsg A; A.skalgo = skalgo; A.aead = aead; A.c = c; A.cd = (size_t)1 << (c + 6); A.lit = lit;
  gcry_error_t e = PGP::SymmetricEncryptAEAD(lit, A.key, (tmcg_openpgp_skalgo_t)skalgo, (tmcg_openpgp_aeadalgo_t)aead, (tmcg_openpgp_byte_t)c, aead_ad(skalgo, aead, c), 0, A.iv, A.enc);
  if (e) { A.err = gcry_strerror(e); return A; }
  PGP::PacketAeadEncode((tmcg_openpgp_skalgo_t)skalgo, (tmcg_openpgp_aeadalgo_t)aead, (tmcg_openpgp_byte_t)c, A.iv, A.enc, A.pkt); A.ok = true; export_artefact(aead == 1 ? "aead-eax" : "aead-ocb", A.pkt); return A;
}
static Oct literal_of_total_length(Ctx &ctx, size_t want, Oct &data) { // literal packet: header 8 (body < 192), 9 or 12 octets
  for (size_t hdr : {(size_t)8, (size_t)9, (size_t)12}) { if (want < hdr) continue; data = gen_binary_doc(ctx, want - hdr); Oct lit; PGP::PacketLitEncode(data, lit); if (lit.size() == want) return lit; }
  data = gen_binary_doc(ctx, want); Oct lit; PGP::PacketLitEncode(data, lit); return lit;
}

VF_SUB(sym_aead_roundtrip_and_flips, 112, 5000) {
  PGP::MemoryGuardReset();
  std::vector<int> modes; if (aead_mode_available(2)) modes.push_back(2); if (aead_mode_available(1)) modes.push_back(1);
  if (modes.empty()) { ctx.count("skipped_no_aead_mode"); ctx.label("skipped"); return; }
  int aead = modes[ctx.c.index(modes.size())]; std::vector<int> cs = usable_ciphers(true); int skalgo = ctx.c.coin() ? 9 : cs[ctx.c.index(cs.size())];
  if (ctx.c.prob(1, 8)) { // the four-octet associated data form (AEAD-protected session key of a version 5 SKESK), function level only
    Oct ad = {0xC3, 0x05, (unsigned char)skalgo, (unsigned char)aead}, in = gen_binary_doc(ctx, (size_t)ctx.c.range(1, 64)), iv, enc, out; SOct key;
    ctx.desc << "skesk-v5 form " << cipher_name(skalgo) << (aead == 2 ? " OCB" : " EAX") << " |in|=" << in.size(); ctx.label("ad4:skesk-v5"); ctx.nontrivial(ctx.desc.str() + hkey(in));
    if (PGP::SymmetricEncryptAEAD(in, key, (tmcg_openpgp_skalgo_t)skalgo, (tmcg_openpgp_aeadalgo_t)aead, 0, ad, 0, iv, enc)) { ctx.fail("aead/ad4/library-cannot-encrypt", ctx.desc.str()); return; }
    if (PGP::SymmetricDecryptAEAD(enc, key, (tmcg_openpgp_skalgo_t)skalgo, (tmcg_openpgp_aeadalgo_t)aead, 0, iv, ad, 0, out) || out != in) { ctx.fail("aead/ad4/untouched-refused", ctx.desc.str()); return; }
    int64_t n = 0; uint64_t seed = ctx.c.raw64();
    for (size_t i = 0; i < enc.size(); i++) { Oct e = enc, o; e[i] ^= flip_mask(seed, i, 0); n++; if (!PGP::SymmetricDecryptAEAD(e, key, (tmcg_openpgp_skalgo_t)skalgo, (tmcg_openpgp_aeadalgo_t)aead, 0, iv, ad, 0, o)) { ctx.fail("aead/ad4/flipped-ciphertext-accepted", ctx.desc.str()); break; } }
    for (size_t i = 0; i < ad.size(); i++) { Oct a = ad, o; a[i] ^= flip_mask(seed, i + 500, 0); n++; gcry_error_t e = PGP::SymmetricDecryptAEAD(enc, key, (tmcg_openpgp_skalgo_t)skalgo, (tmcg_openpgp_aeadalgo_t)aead, 0, iv, a, 0, o); if (!e) { ctx.fail("aead/ad4/flipped-associated-data-accepted", "octet " + std::to_string(i) + " " + ctx.desc.str()); break; } }
    for (size_t i = 0; i < iv.size(); i++) { Oct v = iv, o; v[i] ^= flip_mask(seed, i + 900, 0); n++; if (!PGP::SymmetricDecryptAEAD(enc, key, (tmcg_openpgp_skalgo_t)skalgo, (tmcg_openpgp_aeadalgo_t)aead, 0, v, ad, 0, o)) { ctx.fail("aead/ad4/flipped-nonce-accepted", ctx.desc.str()); break; } }
    for (size_t i = 0; i < key.size(); i++) { SOct k = key; Oct o; k[i] ^= flip_mask(seed, i + 1300, 0); n++; if (!PGP::SymmetricDecryptAEAD(enc, k, (tmcg_openpgp_skalgo_t)skalgo, (tmcg_openpgp_aeadalgo_t)aead, 0, iv, ad, 0, o)) { ctx.fail("aead/ad4/flipped-key-accepted", ctx.desc.str()); break; } }
    ctx.count("faults_injected", n); return;
  }
  int c = (int)ctx.c.weighted({6, 3, 2, 1}); size_t cd = (size_t)1 << (c + 6); std::string lcls; size_t want = pick_aead_len(ctx, cd, lcls); Oct data, lit = literal_of_total_length(ctx, want, data);
  std::ostringstream d; d << cipher_name(skalgo) << (aead == 2 ? " OCB" : " EAX") << " chunk-octet=" << c << " (" << cd << "B) plaintext=" << lcls << "(" << lit.size() << ")";
  ctx.desc << d.str(); ctx.label(aead == 2 ? "mode:OCB" : "mode:EAX"); ctx.label(std::string("cipher:") + cipher_name(skalgo)); ctx.label("chunk-octet:" + std::to_string(c)); ctx.label("length:" + lcls);
  const std::string Mn = aead == 2 ? "ocb" : "eax";
  AeadMsg Am = make_aead(skalgo, aead, c, lit); if (!Am.ok) { ctx.fail("aead/" + Mn + "/library-cannot-encrypt", Am.err + " " + d.str()); return; }
  size_t nfull = (lit.size() - 1) / cd, lastlen = lit.size() - nfull * cd; ctx.nontrivial(d.str() + hkey(Am.pkt));
  if (Am.enc.size() != lit.size() + 16 * (nfull + 1) + 16) ctx.fail("aead/" + Mn + "/ciphertext-length-unexpected", std::to_string(Am.enc.size()) + " octets for " + d.str());
  size_t ivlen = aead == 1 ? 16 : 15; if (Am.iv.size() != ivlen) ctx.fail("aead/" + Mn + "/nonce-length-unexpected", d.str());
  // ---- positive
  TMCG_OpenPGP_Message *msg = nullptr; if (!PGP::MessageParse(Am.pkt, 0, msg)) { ctx.fail("aead/" + Mn + "/untouched-message-unparsable", d.str()); return; }
  std::unique_ptr<TMCG_OpenPGP_Message> M(msg);
  if (!M->have_aead || M->encrypted_message != Am.enc || M->iv != Am.iv || M->chunksize != c || M->skalgo != skalgo || M->aeadalgo != aead) ctx.fail("aead/" + Mn + "/parsed-message-differs", d.str());
  { Oct out; if (!M->Decrypt(Am.key, 0, out)) { ctx.fail("aead/" + Mn + "/untouched-message-refused", d.str() + " pkt=" + hexs(Am.pkt, 200)); return; }
    if (out != lit) { ctx.fail("aead/" + Mn + "/decrypts-to-other-plaintext", d.str()); return; } if (!data.empty() && !decrypted_literal_equals(out, data)) ctx.fail("aead/" + Mn + "/decrypted-literal-differs", d.str());
    SOct full = session_key(skalgo, from_secure(Am.key)); Oct o2; if (!M->Decrypt(full, 0, o2) || o2 != lit) ctx.fail("aead/" + Mn + "/key-with-checksum-refused", d.str()); }
  if (ctx.failed) return; int64_t faults = 0;
  // All faults are evaluated object-level on altered members of the parsed message, inside a forked child: the pinned AEAD
  // decryption has undefined behaviour on some truncated inputs (zero-length VLA), which is C12's business.
  struct AFault { std::string cls; Oct enc, iv; int c, version, aead, skalgo; SOct key; };
  std::vector<AFault> F; auto base = [&](const std::string &cls) { AFault f; f.cls = cls; f.enc = Am.enc; f.iv = Am.iv; f.c = c; f.version = 1; f.aead = aead; f.skalgo = skalgo; f.key = Am.key; return f; };
  { // every ciphertext / tag byte
    size_t cap = ctx.thorough ? 2500 : 700; FlipPlan P = plan_flips(ctx, Am.enc.size(), cap);
    if (Am.enc.size() > cap) for (size_t p = Am.enc.size() - 32; p < Am.enc.size(); p++) if (std::find(P.pos.begin(), P.pos.end(), p) == P.pos.end()) { P.pos.push_back(p); P.mask.push_back(0x01); }
    for (size_t i = 0; i < P.pos.size(); i++) { size_t p = P.pos[i], off = p % (cd + 16);
      const char *w = p >= Am.enc.size() - 16 ? "final-tag" : (p / (cd + 16) < nfull ? (off >= cd ? "chunk-tag" : "chunk-ciphertext") : (p - nfull * (cd + 16) >= lastlen ? "chunk-tag" : "chunk-ciphertext"));
      AFault f = base(std::string("flipped-") + w); f.enc[p] ^= P.mask[i]; F.push_back(f); }
    ctx.count("ciphertext_faults", (int64_t)P.pos.size()); }
  { // associated data: the authenticated header octets, the nonce, the key
    uint64_t seed = ctx.c.raw64();
    for (size_t i = 0; i < Am.iv.size(); i++) { AFault f = base("flipped-nonce"); f.iv[i] ^= flip_mask(seed, i, 0); F.push_back(f); }
    for (int bit = 0; bit < 8; bit++) { int nc = c ^ (1 << bit); if (nc > 8) continue; AFault f = base("altered-chunk-size-octet"); f.c = nc; F.push_back(f); }
    for (int v : {0, 2, 3, 5, 255}) { AFault f = base("altered-version-octet"); f.version = v; F.push_back(f); }
    if (modes.size() == 2) { AFault f = base("altered-aead-algorithm-octet"); f.aead = 3 - aead; if (f.aead == 1) f.iv.push_back(0); else f.iv.pop_back(); F.push_back(f); }
    for (int o : cs) if (o != skalgo && PGP::AlgorithmKeyLength((tmcg_openpgp_skalgo_t)o) == PGP::AlgorithmKeyLength((tmcg_openpgp_skalgo_t)skalgo)) { AFault f = base("altered-cipher-octet"); f.skalgo = o; F.push_back(f); }
    for (size_t i = 0; i < Am.key.size(); i++) { AFault f = base("flipped-key"); f.key[i] ^= flip_mask(seed, i + 64, 0); F.push_back(f); }
  }
  { // structural faults on the chunk sequence
    const Oct &E = Am.enc; size_t cs16 = cd + 16; auto add = [&](const Oct &e, const char *what) { if (e != E && !e.empty()) { AFault f = base(what); f.enc = e; F.push_back(f); } };
    add(Oct(E.begin(), E.end() - 16), "dropped-final-tag"); add(Oct(E.begin(), E.end() - 1), "truncated-final-tag"); { Oct e = E; e.push_back(0); add(e, "extended-ciphertext"); }
    { Oct e(E.begin(), E.begin() + nfull * cs16); e.insert(e.end(), E.end() - 16, E.end()); add(e, "dropped-last-chunk"); } // truncation: last chunk removed, final tag kept
    { Oct e(E.begin(), E.begin() + nfull * cs16 + lastlen + 16); add(e, "dropped-final-tag"); }
    if (nfull >= 1) { Oct e(E.begin() + cs16, E.end()); add(e, "dropped-first-chunk"); }
    if (nfull >= 2) { Oct e = E; for (size_t j = 0; j < cs16; j++) std::swap(e[j], e[cs16 + j]); add(e, "swapped-chunks"); Oct f = E; for (size_t j = 0; j < cd; j++) std::swap(f[j], f[cs16 + j]); add(f, "swapped-chunk-ciphertexts"); }
    if (nfull >= 3) { size_t a = ctx.c.index(nfull), b = ctx.c.index(nfull); if (a != b) { Oct e = E; for (size_t j = 0; j < cs16; j++) std::swap(e[a * cs16 + j], e[b * cs16 + j]); add(e, "swapped-chunks"); } }
    if (nfull >= 1) { Oct e(E.begin(), E.begin() + cs16); e.insert(e.end(), E.begin(), E.end()); add(e, "duplicated-chunk"); }
    if (nfull >= 1 && lastlen == cd) { Oct e = E; for (size_t j = 0; j < cs16; j++) std::swap(e[j], e[nfull * cs16 + j]); add(e, "swapped-chunks"); }
    { Oct e = E; std::rotate(e.end() - 32, e.end() - 16, e.end()); add(e, "swapped-last-tags"); }
  }
  {
    auto as_packet = [&](size_t i) { Oct p; PGP::PacketAeadEncode((tmcg_openpgp_skalgo_t)F[i].skalgo, (tmcg_openpgp_aeadalgo_t)F[i].aead, (tmcg_openpgp_byte_t)F[i].c, F[i].iv, F[i].enc, p); return p; };
    auto res = run_forked(ctx, F.size(), [&](size_t i) -> unsigned char {
      M->encrypted_message = F[i].enc; M->iv = F[i].iv; M->chunksize = (tmcg_openpgp_byte_t)F[i].c; M->version = (tmcg_openpgp_byte_t)F[i].version; M->aeadalgo = (tmcg_openpgp_aeadalgo_t)F[i].aead; M->skalgo = (tmcg_openpgp_skalgo_t)F[i].skalgo;
      Oct out; if (!M->Decrypt(F[i].key, 0, out)) return 0; return out == lit ? 1 : 2; }, as_packet, "aead");
    for (size_t i = 0; i < res.size(); i++) { faults++; if (res[i] == 1 || res[i] == 2) { ctx.fail("aead/" + Mn + "/" + F[i].cls + "-accepted", std::string(res[i] == 1 ? "decrypted to the original plaintext: " : "decrypted to OTHER plaintext: ") + d.str() + " packet=" + hexs(as_packet(i), 120)); break; } }
  }
  // ---- every byte of the packet through the parser (forked)
  if (!ctx.failed) {
    std::vector<Span> sp; if (!split_packets(Am.pkt, sp) || sp.size() != 1 || sp[0].tag != 20) { ctx.fail("aead/" + Mn + "/packet-framing-unexpected", hexs(Am.pkt, 20)); return; }
    FlipPlan P = plan_flips(ctx, Am.pkt.size(), ctx.thorough ? 800 : 200);
    for (size_t p = 0; p < std::min<size_t>(Am.pkt.size(), sp[0].hdr + 4 + ivlen); p++) if (std::find(P.pos.begin(), P.pos.end(), p) == P.pos.end()) { P.pos.push_back(p); P.mask.push_back(flip_mask(p, p, 0)); }
    auto mutated = [&](size_t i) { Oct m = Am.pkt; m[P.pos[i]] ^= P.mask[i]; return m; };
    auto res = run_forked(ctx, P.pos.size(), [&](size_t i) -> unsigned char { return eval_message(mutated(i), Am.key, lit); }, mutated, "aead");
    for (size_t i = 0; i < res.size(); i++) { faults++; if (res[i] >= 0xF0 || res[i] == 0) continue; size_t pos = P.pos[i]; Region r = pos < sp[0].hdr ? R_FRAMING : pos < sp[0].hdr + 4 + ivlen ? R_AEADHDR : R_CIPHERTEXT;
      if (region_protected(r)) { ctx.fail("aead/" + Mn + "/flipped-packet-" + region_name(r) + "-accepted", at(pos, P.mask[i], r) + " " + d.str()); break; } else ctx.count(std::string("accepted_unprotected:") + region_name(r)); }
  }
  ctx.count("faults_injected", faults);
}

// =========================================================================== private key blocks (pass-phrase protected secret keys)
// The library's own secret key encoders cover DSA primary keys and ElGamal subkeys.  A complete transferable secret key is built from
// the pooled keys (secret key packet, user ID, self-signature, secret subkey packet, binding signature), armored, and read back through
// PrivateKeyBlockParse: with the pass phrase it was protected with the key must come back complete (secret exponents equal, self-signatures
// and binding valid, signing with the parsed key verifies under the pooled public key, a session key encrypted to the subkey decrypts);
// with any other pass phrase, or with one byte of the protected secret material altered, it must be refused.
static unsigned char eval_prvblock(const Oct &bytes, const std::string &pass, gcry_mpi_t want_x, gcry_mpi_t want_subx) {
  TMCG_OpenPGP_Prvkey *prv = nullptr; tmcg_openpgp_secure_string_t pw; for (char ch : pass) pw += ch;
  if (!PGP::PrivateKeyBlockParse(bytes, 0, pw, prv)) return 0; // frees its out-pointer on failure
  unsigned char v = 1; if (prv->Good()) v |= 2;
  if (prv->dsa_x && gcry_mpi_cmp(prv->dsa_x, want_x) == 0) v |= 4;
  if (prv->private_subkeys.size() == 1 && prv->private_subkeys[0]->elg_x && gcry_mpi_cmp(prv->private_subkeys[0]->elg_x, want_subx) == 0) v |= 8;
  delete prv; return v;
}
VF_SUB(private_key_block_roundtrip, 40, 1500) {
  PGP::MemoryGuardReset();
  static const char *pn[] = {"dsa2048a", "dsa2048b", "dsa1024"}; BlockSpec sp; sp.prim = &key_named(pn[ctx.c.index(3)]); sp.sub = &key_named("elg2048"); Key &P = *sp.prim, &Sb = *sp.sub;
  sp.uid = gen_uid(ctx); sp.bis = ctx.c.coin(); sp.issuer_fpr = ctx.c.coin(); sp.direct = ctx.c.prob(1, 4);
  auto strong = [&](const Key &k) { for (int t = 0; t < 20; t++) { int h = STRONG_HASHES[ctx.c.index(5)]; if (hash_fits_key(k, h)) return (tmcg_openpgp_hashalgo_t)h; } return TMCG_OPENPGP_HASHALGO_SHA512; };
  sp.h_uid = strong(P); sp.h_sub = strong(P); sp.h_dir = strong(P);
  sp.keytime = vtime() - (time_t)ctx.c.range(100, 100000000); sp.subtime = sp.keytime + (time_t)ctx.c.range(0, 50); sp.uidsigtime = sp.keytime + (time_t)ctx.c.range(0, 50); sp.subsigtime = sp.subtime + (time_t)ctx.c.range(0, 40); sp.dirsigtime = sp.keytime + (time_t)ctx.c.range(0, 50);
  std::string pcls, pass; switch (ctx.c.weighted({2, 3, 2, 1})) { case 0: pcls = "empty"; break; case 1: pcls = "short"; pass = gen_uid(ctx).substr(0, 12); break; case 2: pcls = "long"; for (int i = 0; i < 4; i++) pass += gen_uid(ctx); break; default: pcls = "non-ascii"; pass = "p\xc3\xa4ss \xe2\x82\xac " + gen_uid(ctx); }
  bool armored = ctx.c.coin();
  std::ostringstream d; d << P.name << "+" << Sb.name << " uid(" << sp.uid.size() << ") pass-phrase=" << pcls << "(" << pass.size() << ")" << (armored ? " armored" : " binary") << (sp.direct ? " direct-key-sig" : "");
  ctx.desc << d.str(); ctx.label("primary:" + P.name); ctx.label("pass-phrase:" + pcls); ctx.label(armored ? "armored" : "binary");
  Block B = build_block(sp); if (!B.ok) { ctx.fail("prvkey/library-cannot-build-block", B.err + " for " + d.str()); return; }
  tmcg_openpgp_secure_string_t pw; for (char ch : pass) pw += ch;
  Oct sec, ssb; gcry_mpi_t zero = gcry_mpi_set_ui(NULL, 0);
  PGP::PacketSecEncode(sp.keytime, P.algo, P.m[0], P.m[1], P.m[2], P.m[3], P.sec[0], pw, sec);
  PGP::PacketSsbEncode(sp.subtime, Sb.algo, Sb.m[0], zero, Sb.m[1], Sb.m[2], Sb.sec[0], pw, ssb); gcry_mpi_release(zero);
  // the public part of a secret key packet is the public key packet: same fingerprint, the signatures of the public block stay valid
  Oct all; std::vector<std::string> role; std::vector<std::pair<size_t, size_t> > where; // (offset, length) of sec / ssb in `all`
  for (size_t j = 0; j < B.spans.size(); j++) { const std::string &r = B.role[j]; Oct pkt = r == "pub" ? sec : r == "sub" ? ssb : Oct(B.all.begin() + B.spans[j].off, B.all.begin() + B.spans[j].end());
    if (r == "pub" || r == "sub") where.push_back(std::make_pair(all.size(), pkt.size())); app(all, pkt); role.push_back(r); }
  Oct fed = all; std::string arm; if (armored) { PGP::ArmorEncode(TMCG_OPENPGP_ARMOR_PRIVATE_KEY_BLOCK, all, arm); }
  auto parse = [&](const Oct &bin, const std::string &pp, TMCG_OpenPGP_Prvkey *&prv) { tmcg_openpgp_secure_string_t w; for (char ch : pp) w += ch; return armored ? (bin == all ? PGP::PrivateKeyBlockParse(arm, 0, w, prv) : [&] { std::string a2; PGP::ArmorEncode(TMCG_OPENPGP_ARMOR_PRIVATE_KEY_BLOCK, bin, a2); return PGP::PrivateKeyBlockParse(a2, 0, w, prv); }()) : PGP::PrivateKeyBlockParse(bin, 0, w, prv); };
  ctx.nontrivial(d.str() + hkey(all));
  // ---- positive
  TMCG_OpenPGP_Prvkey *prv = nullptr;
  if (!parse(all, pass, prv)) { ctx.fail("prvkey/own-block-refused-with-its-pass-phrase", d.str() + " block=" + hexs(all, 1200)); return; }
  std::unique_ptr<TMCG_OpenPGP_Prvkey> hold(prv);
  if (!prv->Good() || !prv->pub || !prv->pub->Good()) { ctx.fail("prvkey/parsed-key-not-good", d.str()); return; }
  if (prv->pub->fingerprint != B.fpr || prv->pub->id != B.kid) ctx.fail("prvkey/fingerprint-differs-from-public-key", d.str());
  if (!prv->dsa_x || gcry_mpi_cmp(prv->dsa_x, P.sec[0])) ctx.fail("prvkey/secret-exponent-differs", "primary key x differs after the round trip: " + d.str());
  if (prv->private_subkeys.size() != 1) { ctx.fail("prvkey/subkey-lost", std::to_string(prv->private_subkeys.size()) + " private subkeys: " + d.str()); return; }
  if (!prv->private_subkeys[0]->elg_x || gcry_mpi_cmp(prv->private_subkeys[0]->elg_x, Sb.sec[0])) ctx.fail("prvkey/secret-exponent-differs", "subkey x differs after the round trip: " + d.str());
  { TMCG_OpenPGP_Keyring *ring = new TMCG_OpenPGP_Keyring(); prv->RelinkPublicSubkeys(); // the documented way to check a parsed private key: its public subkeys are linked into the public key object for the check
    if (!prv->pub->CheckSelfSignatures(ring, 0)) ctx.fail("prvkey/self-signatures-refused", d.str());
    if (!prv->pub->CheckSubkeys(ring, 0) || prv->pub->subkeys.size() != 1 || !prv->pub->subkeys[0]->valid) ctx.fail("prvkey/subkey-binding-refused", d.str());
    prv->RelinkPrivateSubkeys(); delete ring; }
  if (ctx.failed) return;
  { // sign with the parsed key, verify under the pooled public key
    Oct data = gen_binary_doc(ctx, (size_t)ctx.c.range(0, 300)), tr, hash, left, sigpkt; tmcg_openpgp_hashalgo_t h = strong(P);
    PGP::PacketSigPrepareDetachedSignature(TMCG_OPENPGP_SIGNATURE_BINARY_DOCUMENT, P.algo, h, vtime() - 5, 0, "", B.fpr, tr); PGP::BinaryDocumentHash(data, tr, h, hash, left);
    if (!prv->SignData(hash, h, tr, left, 0, sigpkt)) ctx.fail("prvkey/parsed-key-cannot-sign", d.str());
    else { std::unique_ptr<TMCG_OpenPGP_Signature> sg(parse_sig(sigpkt)); if (!sg || !sg->VerifyData(P.pub, data, 0)) ctx.fail("prvkey/signature-of-parsed-key-refused", d.str()); else { if (data.size()) { Oct d2 = data; d2[0] ^= 1; if (sg->VerifyData(P.pub, d2, 0)) ctx.fail("prvkey/signature-of-parsed-key-verifies-other-data", d.str()); } } } }
  { // a session key encrypted to the subkey
    SOct seskey = session_key(9, stream_bytes(ctx.c.raw64(), 32)); gcry_mpi_t gk = gcry_mpi_new(8), myk = gcry_mpi_new(8); Oct pkesk;
    gcry_error_t e = PGP::AsymmetricEncryptElgamal(seskey, prv->private_subkeys[0]->pub->key, gk, myk);
    if (e) ctx.fail("prvkey/cannot-encrypt-to-parsed-subkey", gcry_strerror(e));
    else { PGP::PacketPkeskEncode(prv->private_subkeys[0]->pub->id, gk, myk, pkesk); Oct lit, msgb; PGP::PacketLitEncode(Oct(1, 'x'), lit); Oct prefix, enc, seipd, mdcpkt; SOct k2 = seskey; // message: PKESK + SEIPD
      TMCG_OpenPGP_Message *msg = nullptr; Oct dummy; Oct hin; SOct sk;
      if (!PGP::SymmetricEncryptAES256(lit, k2, prefix, true, dummy)) { hin = prefix; app(hin, lit); hin.push_back(0xD3); hin.push_back(0x14); PGP::PacketMdcEncode(H(2, hin), mdcpkt); Oct pl = cat(lit, mdcpkt);
        if (!PGP::SymmetricEncryptAES256(pl, k2, prefix, false, enc)) { PGP::PacketSeipdEncode(enc, seipd); msgb = cat(pkesk, seipd);
          if (PGP::MessageParse(msgb, 0, msg)) { const TMCG_OpenPGP_PKESK *esk = msg->PKESKs.size() ? msg->PKESKs[0] : nullptr;
            if (!esk || !prv->private_subkeys[0]->Decrypt(esk, 0, sk) || from_secure(sk) != from_secure(k2)) ctx.fail("prvkey/parsed-subkey-cannot-decrypt", d.str());
            else { Oct out; if (!msg->Decrypt(sk, 0, out)) ctx.fail("prvkey/message-to-parsed-subkey-refused", d.str()); }
            delete msg; } else ctx.fail("prvkey/own-message-unparsable", d.str()); } } }
    gcry_mpi_release(gk); gcry_mpi_release(myk); }
  if (ctx.failed) return;
  // ---- negative: other pass phrases
  if (!pass.empty()) { // (an empty pass phrase leaves the secret material unprotected: there is nothing a pass phrase could be checked against)
    std::vector<std::string> wrong; wrong.push_back(pass + "x"); if (!pass.empty()) { wrong.push_back(pass.substr(0, pass.size() - 1)); std::string w = pass; w[ctx.c.index(w.size())] ^= 0x01; wrong.push_back(w); wrong.push_back(""); wrong.push_back(pass + std::string(1, '\0')); } else wrong.push_back(" ");
    for (auto &w : wrong) { if (w == pass) continue; TMCG_OpenPGP_Prvkey *q = nullptr; bool acc = parse(all, w, q); if (acc) { delete q; ctx.fail("prvkey/wrong-pass-phrase-accepted", "pass phrase of " + std::to_string(w.size()) + " octets instead of " + std::to_string(pass.size()) + ": " + d.str()); break; } }
    ctx.count("faults_injected", (int64_t)wrong.size()); }
  if (ctx.failed) return;
  // ---- negative: one bit of the protected secret material.  A protected packet ends with salt (8), count (1), IV (16) and the CFB ciphertext
  //      of MPI(x) || SHA-1; an unprotected one with MPI(x) and a two-octet sum.  Everything before that is public material, which the
  //      self-signatures protect (judged in sig_certification_and_key_signatures), not the pass phrase.
  { std::vector<std::pair<size_t, unsigned char> > fl; for (size_t wi = 0; wi < where.size(); wi++) { auto &w = where[wi]; size_t xl = (gcry_mpi_get_nbits(wi == 0 ? P.sec[0] : Sb.sec[0]) + 7) / 8, tail = pass.empty() ? 2 + xl + 2 : 8 + 1 + 16 + 2 + xl + 20; size_t hi = w.first + w.second, lo = hi - std::min(tail, w.second); for (int k = 0; k < 10; k++) fl.push_back(std::make_pair(lo + ctx.c.index(hi - lo), (unsigned char)(1u << ctx.c.index(8)))); fl.push_back(std::make_pair(hi - 1, (unsigned char)0x01)); }
    auto mutated = [&](size_t i) { Oct m = all; m[fl[i].first] ^= fl[i].second; return m; };
    auto res = run_forked(ctx, fl.size(), [&](size_t i) -> unsigned char { Oct m = mutated(i); if (armored) { std::string a2; PGP::ArmorEncode(TMCG_OPENPGP_ARMOR_PRIVATE_KEY_BLOCK, m, a2); TMCG_OpenPGP_Prvkey *q = nullptr; tmcg_openpgp_secure_string_t w; for (char ch : pass) w += ch; if (!PGP::PrivateKeyBlockParse(a2, 0, w, q)) return 0; unsigned char v = 1; if (q->dsa_x && !gcry_mpi_cmp(q->dsa_x, P.sec[0])) v |= 4; if (q->private_subkeys.size() == 1 && q->private_subkeys[0]->elg_x && !gcry_mpi_cmp(q->private_subkeys[0]->elg_x, Sb.sec[0])) v |= 8; delete q; return v; } return eval_prvblock(m, pass, P.sec[0], Sb.sec[0]); }, mutated, "prvblock");
    ctx.count("faults_injected", (int64_t)fl.size());
    if (pass.empty()) { // unprotected material carries a 16-bit additive checksum only: an altered value that still sums up would be a different key, never the same one
      for (size_t i = 0; i < res.size() && !ctx.failed; i++) if (res[i] < 0xF0 && (res[i] & 1) && (res[i] & 4) && (res[i] & 8)) ctx.fail("prvkey/altered-secret-material-yields-the-same-key", "flip at offset " + std::to_string(fl[i].first) + " " + d.str()); }
    else for (size_t i = 0; i < res.size() && !ctx.failed; i++) if (res[i] < 0xF0 && (res[i] & 1)) ctx.fail("prvkey/altered-protected-secret-material-accepted", "one flipped bit at offset " + std::to_string(fl[i].first) + " (mask " + std::to_string(fl[i].second) + ") of the encrypted secret key material and the block is still accepted with the pass phrase: " + d.str()); }
}

// =========================================================================== public-key encrypted session keys
struct Recipient { Key *k = nullptr; Oct subpkt; std::unique_ptr<TMCG_OpenPGP_PrivateSubkey> prv; };
static bool make_recipient(Key &k, time_t t, Recipient &R) {
  R.k = &k; R.subpkt = key_packet(k, t, true);
  if (k.algo == TMCG_OPENPGP_PKALGO_RSA) R.prv.reset(new TMCG_OpenPGP_PrivateSubkey(k.algo, t, 0, k.m[0], k.m[1], k.sec[1], k.sec[2], k.sec[3], k.sec[0], R.subpkt));
  else if (k.algo == TMCG_OPENPGP_PKALGO_ELGAMAL) R.prv.reset(new TMCG_OpenPGP_PrivateSubkey(k.algo, t, 0, k.m[0], k.m[1], k.m[2], k.sec[0], R.subpkt));
  else if (k.algo == TMCG_OPENPGP_PKALGO_ECDH) R.prv.reset(new TMCG_OpenPGP_PrivateSubkey(k.algo, t, 0, k.oidlen, k.oid, k.m[0], k.sec[0], k.kdfh, k.kdfs, R.subpkt));
  else return false;
  return R.prv->Good();
}
// PKESK v3 body: version, key ID (8), algorithm, then MPIs (ECDH: MPI, length octet, wrapped key)
static Region pkesk_region(const Oct &in, const Span &s, size_t pos) {
  if (pos < s.off + s.hdr) return R_FRAMING; size_t b = pos - s.off - s.hdr; const unsigned char *p = in.data() + s.off + s.hdr; if (b < 10) return R_ESKFIELD;
  int algo = p[9]; size_t m = 10; int nm = algo == 16 ? 2 : 1;
  for (int j = 0; j < nm && m + 2 <= s.body; j++) { size_t bits = ((size_t)p[m] << 8) | p[m + 1], len = (bits + 7) / 8; if (b < m + 2) return R_ESKFIELD; if (b < m + 2 + len) return R_CIPHERTEXT; m += 2 + len; }
  if (algo == 18) { if (b == m) return R_ESKFIELD; return R_CIPHERTEXT; }
  return R_OTHER;
}
// ECDH ephemeral point: the format octet (0x40 / 0x04) is an encoding tag, and X25519 ignores the top bit of the last octet (RFC 7748 sec. 5)
static bool ecdh_point_encoding_slack(const Oct &in, const Span &s, size_t pos, unsigned char mask, bool cv25519) {
  const unsigned char *p = in.data() + s.off + s.hdr; if (s.body < 13 || p[9] != 18) return false; size_t b = pos - s.off - s.hdr, len = ((((size_t)p[10] << 8) | p[11]) + 7) / 8;
  if (b == 12) return true; return cv25519 && b == 12 + len - 1 && mask == 0x80;
}
VF_SUB(pkesk_roundtrip, 80, 3000) {
  PGP::MemoryGuardReset();
  static const char *rk[] = {"rsa2048e", "elg2048", "ecdh25519", "ecdh256"}; Key &k = key_named(rk[ctx.c.weighted({3, 3, 2, 2})]); const std::string A = algo_name(k.algo) + (k.curve.empty() ? std::string("") : "/" + k.curve);
  time_t t = vtime() - 1000; Recipient R; if (!make_recipient(k, t, R)) { ctx.fail("pkesk/" + A + "/library-key-object-bad", k.name); return; }
  bool aead = ctx.c.prob(1, 4) && aead_mode_available(2), wildcard = ctx.c.coin(); std::string lcls; size_t len = pick_plain_len(ctx, lcls); if (len > 600) len = 600;
  Oct data = gen_binary_doc(ctx, len), lit, encpkt, expect; PGP::PacketLitEncode(data, lit); SOct seskey;
  if (aead) { AeadMsg Am = make_aead(9, 2, 0, lit); if (!Am.ok) { ctx.fail("aead/ocb/library-cannot-encrypt", Am.err); return; } seskey = session_key(9, from_secure(Am.key)); encpkt = Am.pkt; expect = lit; }
  else { Oct prefix, dummy, mdcpkt, enc; if (PGP::SymmetricEncryptAES256(lit, seskey, prefix, true, dummy)) { ctx.fail("sym/mdc/library-cannot-encrypt", ""); return; }
    Oct hin = prefix; app(hin, lit); hin.push_back(0xD3); hin.push_back(0x14); PGP::PacketMdcEncode(H(2, hin), mdcpkt); expect = cat(lit, mdcpkt);
    if (PGP::SymmetricEncryptAES256(expect, seskey, prefix, false, enc)) { ctx.fail("sym/mdc/library-cannot-encrypt", ""); return; } PGP::PacketSeipdEncode(enc, encpkt); }
  Oct keyid = wildcard ? Oct(8, 0) : R.prv->pub->id, pkesk; gcry_error_t e = 0;
  if (k.algo == TMCG_OPENPGP_PKALGO_RSA) { gcry_mpi_t me = gcry_mpi_new(8); e = PGP::AsymmetricEncryptRSA(seskey, R.prv->pub->key, me); if (!e) PGP::PacketPkeskEncode(keyid, me, pkesk); gcry_mpi_release(me); }
  else if (k.algo == TMCG_OPENPGP_PKALGO_ELGAMAL) { gcry_mpi_t gk = gcry_mpi_new(8), myk = gcry_mpi_new(8); e = PGP::AsymmetricEncryptElgamal(seskey, R.prv->pub->key, gk, myk); if (!e) PGP::PacketPkeskEncode(keyid, gk, myk, pkesk); gcry_mpi_release(gk); gcry_mpi_release(myk); }
  else { gcry_mpi_t ep = gcry_mpi_new(8); size_t rl = 0; tmcg_openpgp_byte_t rkw[256]; memset(rkw, 0, sizeof rkw);
    e = PGP::AsymmetricEncryptECDH(seskey, R.prv->pub->key, k.kdfh, k.kdfs, k.curve, R.prv->pub->fingerprint, ep, rl, rkw); if (!e) PGP::PacketPkeskEncode(keyid, ep, rl, rkw, pkesk); gcry_mpi_release(ep); }
  std::ostringstream d; d << k.name << (wildcard ? " wildcard-keyid" : " keyid") << (aead ? " + AEAD(OCB)" : " + SEIPD") << " plaintext=" << lcls << "(" << data.size() << ")"; ctx.desc << d.str();
  ctx.label("recipient:" + A); ctx.label(aead ? "data:aead" : "data:seipd"); ctx.label(wildcard ? "keyid:wildcard" : "keyid:set");
  if (e) { ctx.fail("pkesk/" + A + "/library-cannot-encrypt", std::string(gcry_strerror(e)) + " " + d.str()); return; }
  Oct msgb = cat(pkesk, encpkt); ctx.nontrivial(d.str() + hkey(msgb)); export_artefact((std::string("pkesk-") + A).c_str(), msgb);
  // 0 refused; 1 original plaintext; 2 other plaintext; 3 session key recovered but data refused
  auto eval = [&](const Oct &bytes, bool want_key_only) -> unsigned char {
    TMCG_OpenPGP_Message *msg = nullptr; if (!PGP::MessageParse(bytes, 0, msg)) return 0; unsigned char r = 0;
    if (msg->PKESKs.size() >= 1) { const TMCG_OpenPGP_PKESK *esk = msg->PKESKs[0]; SOct sk; if (R.prv->Decrypt(esk, 0, sk)) { if (want_key_only) r = (from_secure(sk) == Oct(seskey.begin(), seskey.begin() + sk.size()) && sk.size() + 2 >= seskey.size()) ? 1 : 2;
      else { Oct out; if (msg->Decrypt(sk, 0, out)) r = out == expect ? 1 : 2; else r = 3; } } }
    delete msg; return r; };
  // ---- positive
  if (eval(msgb, true) != 1) { ctx.fail("pkesk/" + A + "/session-key-not-recovered", "PrivateSubkey::Decrypt did not return the wrapped session key: " + d.str() + " pkesk=" + hexs(pkesk, 700)); return; }
  if (eval(msgb, false) != 1) { ctx.fail("pkesk/" + A + "/untouched-message-refused", d.str()); return; }
  // a different recipient key must not unwrap it
  { Key &o = key_named(k.name == "rsa2048e" ? "rsa2048b" : k.name == "ecdh25519" ? "ecdh256" : k.name == "ecdh256" ? "ecdh25519" : "rsa2048b"); Recipient R2;
    if (o.algo == TMCG_OPENPGP_PKALGO_RSA || o.algo == TMCG_OPENPGP_PKALGO_ECDH) if (make_recipient(o, t, R2)) { TMCG_OpenPGP_Message *msg = nullptr;
      if (PGP::MessageParse(msgb, 0, msg)) { SOct sk; Oct out; const TMCG_OpenPGP_PKESK *esk = msg->PKESKs.size() ? msg->PKESKs[0] : nullptr; if (esk && R2.prv->Decrypt(esk, 0, sk) && msg->Decrypt(sk, 0, out)) ctx.fail("pkesk/" + A + "/other-recipient-decrypts", d.str()); delete msg; } } }
  if (ctx.failed) return;
  // ---- every byte of the PKESK packet, plus a sample of the data packet, through the parser (forked)
  std::vector<Span> sp; if (!split_packets(msgb, sp) || sp.size() != 2 || sp[0].tag != 1) { ctx.fail("pkesk/" + A + "/packet-framing-unexpected", hexs(msgb, 30)); return; }
  FlipPlan P = plan_flips(ctx, sp[0].end(), ctx.thorough ? 1200 : 600); double cost = k.algo == TMCG_OPENPGP_PKALGO_RSA ? 12 : k.algo == TMCG_OPENPGP_PKALGO_ELGAMAL ? 12 : 3;
  thin(P, [&](size_t pos) { Region r = pkesk_region(msgb, sp[0], pos); return r == R_CIPHERTEXT || r == R_ESKFIELD; }, (size_t)((ctx.thorough ? 2500 : 800) / cost), ctx.c.raw64());
  { uint64_t seed = ctx.c.raw64(); for (int j = 0; j < 24; j++) { size_t p = sp[1].off + (size_t)(mix64(seed ^ mix64(j)) % (sp[1].hdr + sp[1].body)); P.pos.push_back(p); P.mask.push_back(flip_mask(seed, p, 0)); } }
  auto mutated = [&](size_t i) { Oct m = msgb; m[P.pos[i]] ^= P.mask[i]; return m; };
  auto res = run_forked(ctx, P.pos.size(), [&](size_t i) -> unsigned char { return eval(mutated(i), false); }, mutated, "pkesk");
  for (size_t i = 0; i < res.size(); i++) {
    if (res[i] >= 0xF0 || res[i] == 0 || res[i] == 3) continue; size_t pos = P.pos[i]; bool in_esk = pos < sp[0].end();
    Region r = in_esk ? pkesk_region(msgb, sp[0], pos) : (pos < sp[1].off + sp[1].hdr ? R_FRAMING : (aead ? (pos < sp[1].off + sp[1].hdr + 4 + 15 ? R_AEADHDR : R_CIPHERTEXT) : (pos == sp[1].off + sp[1].hdr ? R_VERSION : R_CIPHERTEXT)));
    if (in_esk && r == R_CIPHERTEXT && ecdh_point_encoding_slack(msgb, sp[0], pos, P.mask[i], k.curve == "Curve25519")) r = R_ESKFIELD;
    if (r == R_CIPHERTEXT || r == R_AEADHDR) { ctx.fail(std::string("pkesk/") + A + (in_esk ? "/flipped-wrapped-key-accepted" : "/flipped-data-accepted"), std::string(res[i] == 1 ? "decrypted to the original plaintext: " : "decrypted to OTHER plaintext: ") + at(pos, P.mask[i], r) + " " + d.str() + " msg=" + hexs(msgb, 700)); break; }
    ctx.count(std::string("accepted_unprotected:") + region_name(r));
  }
  ctx.count("faults_injected", (int64_t)res.size());
}

// =========================================================================== AEAD nonce schedule: an independent decryptor, and what nonce reuse between chunks allows
// Reference decryption after draft-ietf-openpgp-rfc4880bis (the text the library quotes): nonce_i = IV with its low 64 bits XORed with
// the chunk index i; AD_i = D4 01 cipher mode chunkoctet || i (8 octets); final tag over the empty string with AD || total length.
static bool ref_aead_decrypt(int skalgo, int aead, int c, const Oct &key, const Oct &iv, const Oct &enc, Oct &out, std::string &why) {
  size_t cd = (size_t)1 << (c + 6); if (enc.size() < 32) { why = "too short"; return false; }
  size_t body = enc.size() - 16, nch = 0, p = 0; gcry_cipher_hd_t hd; if (gcry_cipher_open(&hd, gc_cipher(skalgo), aead == 1 ? GCRY_CIPHER_MODE_EAX : GCRY_CIPHER_MODE_OCB, 0)) { why = "cipher open"; return false; }
  bool ok = !gcry_cipher_setkey(hd, key.data(), key.size()); uint64_t total = 0;
  auto nonce = [&](uint64_t idx) { Oct n = iv; for (int j = 0; j < 8; j++) n[n.size() - 1 - j] ^= (unsigned char)(idx >> (8 * j)); return n; };
  auto ad = [&](uint64_t idx) { Oct a = {0xD4, 0x01, (unsigned char)skalgo, (unsigned char)aead, (unsigned char)c}; for (int j = 7; j >= 0; j--) a.push_back((unsigned char)(idx >> (8 * j))); return a; };
  while (ok && p < body) {
    size_t take = std::min(cd, body - p - 16); if (body - p < 17) { why = "chunk framing"; ok = false; break; }
    Oct n = nonce(nch), a = ad(nch), pt(take);
    ok = !gcry_cipher_setiv(hd, n.data(), n.size()) && !gcry_cipher_authenticate(hd, a.data(), a.size()) && !gcry_cipher_final(hd) && !gcry_cipher_decrypt(hd, pt.data(), take, enc.data() + p, take);
    if (ok && gcry_cipher_checktag(hd, enc.data() + p + take, 16)) { why = "tag of chunk " + std::to_string(nch) + " does not verify"; ok = false; break; }
    app(out, pt); total += take; p += take + 16; nch++;
  }
  if (ok) { Oct n = nonce(nch), a = ad(nch); for (int j = 7; j >= 0; j--) a.push_back((unsigned char)(total >> (8 * j))); unsigned char dummy;
    ok = !gcry_cipher_setiv(hd, n.data(), n.size()) && !gcry_cipher_authenticate(hd, a.data(), a.size()) && !gcry_cipher_final(hd) && !gcry_cipher_decrypt(hd, &dummy, 0, NULL, 0);
    if (ok && gcry_cipher_checktag(hd, enc.data() + body, 16)) { why = "final tag does not verify"; ok = false; } }
  else if (why.empty()) why = "libgcrypt error";
  gcry_cipher_close(hd); return ok;
}
VF_SUB(aead_nonce_schedule, 48, 2000) {
  PGP::MemoryGuardReset();
  std::vector<int> modes; if (aead_mode_available(2)) modes.push_back(2); if (aead_mode_available(1)) modes.push_back(1);
  if (modes.empty()) { ctx.count("skipped_no_aead_mode"); ctx.label("skipped"); return; }
  int aead = modes[ctx.c.index(modes.size())]; std::vector<int> cs = usable_ciphers(true); int skalgo = cs[ctx.c.index(cs.size())]; int c = (int)ctx.c.weighted({5, 2, 1}); size_t cd = (size_t)1 << (c + 6);
  const std::string Mn = aead == 2 ? "ocb" : "eax"; bool splice = aead == 2 && ctx.c.coin();
  size_t nchunks = splice ? (size_t)ctx.c.range(4, 7) : (size_t)ctx.c.range(1, 7); size_t want = (nchunks - 1) * cd + (splice ? cd : (size_t)ctx.c.range(1, cd)); Oct data, lit = literal_of_total_length(ctx, want, data);
  std::ostringstream d; d << cipher_name(skalgo) << (aead == 2 ? " OCB" : " EAX") << " chunk-octet=" << c << " chunks=" << nchunks << " plaintext=" << lit.size(); ctx.label(aead == 2 ? "mode:OCB" : "mode:EAX"); ctx.label("chunks:" + std::to_string(nchunks)); ctx.label(splice ? "cross-chunk-splice" : "reference-decryptor");
  if (splice) { // plaintext blocks 1 and 2 of chunks 0 and 3 differ by the same XOR difference
    size_t hdr = lit.size() - data.size(); uint64_t seed = ctx.c.raw64();
    for (size_t i = 0; i < 16; i++) { unsigned char D = (unsigned char)(1 + mix64(seed ^ i) % 255); lit[3 * cd + 16 + i] = lit[16 + i] ^ D; lit[3 * cd + 32 + i] = lit[32 + i] ^ D; }
    data.assign(lit.begin() + hdr, lit.end());
  }
  ctx.desc << d.str(); ctx.nontrivial(d.str() + hkey(lit));
  AeadMsg Am = make_aead(skalgo, aead, c, lit); if (!Am.ok) { ctx.fail("aead/" + Mn + "/library-cannot-encrypt", Am.err + " " + d.str()); return; }
  TMCG_OpenPGP_Message *msg = nullptr; if (!PGP::MessageParse(Am.pkt, 0, msg)) { ctx.fail("aead/" + Mn + "/untouched-message-unparsable", d.str()); return; } std::unique_ptr<TMCG_OpenPGP_Message> M(msg);
  { Oct out; if (!M->Decrypt(Am.key, 0, out) || out != lit) { ctx.fail("aead/" + Mn + "/untouched-message-refused", d.str()); return; } }
  if (!splice) {
    Oct out; std::string why; bool ok = ref_aead_decrypt(skalgo, aead, c, from_secure(Am.key), Am.iv, Am.enc, out, why);
    if (!ok) ctx.fail("aead/" + Mn + "/reference-decryptor-refuses-library-ciphertext", "an independent implementation of the draft's chunked AEAD cannot decrypt what the library encrypted (" + why + "): " + d.str() + " iv=" + hexs(Am.iv, 16) + " key=" + hexs(from_secure(Am.key), 32) + " ct=" + hexs(Am.enc, 64));
    else if (out != lit) ctx.fail("aead/" + Mn + "/reference-decryptor-gets-other-plaintext", d.str());
    return;
  }
  // ciphertext blocks 1 and 2 of chunk 3 spliced into chunk 0: altered ciphertext, altered plaintext; accepted iff chunks 0 and 3 share a nonce
  Oct forged = Am.enc; size_t cs16 = cd + 16; for (size_t i = 16; i < 48; i++) forged[i] = Am.enc[3 * cs16 + i];
  Oct expect_forged = lit; for (size_t i = 16; i < 48; i++) expect_forged[i] = lit[3 * cd + i];
  auto as_packet = [&](size_t) { Oct p; PGP::PacketAeadEncode((tmcg_openpgp_skalgo_t)skalgo, (tmcg_openpgp_aeadalgo_t)aead, (tmcg_openpgp_byte_t)c, Am.iv, forged, p); return p; };
  auto res = run_forked(ctx, 1, [&](size_t) -> unsigned char { M->encrypted_message = forged; Oct out; if (!M->Decrypt(Am.key, 0, out)) return 0; return out == lit ? 1 : out == expect_forged ? 2 : 3; }, as_packet, "aead");
  ctx.count("faults_injected", 1);
  if (res[0] >= 1 && res[0] <= 3) ctx.fail("aead/ocb/spliced-ciphertext-blocks-accepted", std::string("32 ciphertext octets of chunk 0 replaced by those of chunk 3; Decrypt returned true and ") + (res[0] == 2 ? "the spliced plaintext" : res[0] == 1 ? "the original plaintext" : "another plaintext") + ": " + d.str() + " packet=" + hexs(as_packet(0), 80));
}

// =========================================================================== GnuPG as second judge (RFC 4880 subset)
static std::string sh_quote(const std::string &s) { return "'" + s + "'"; }
static int run_cmd(const std::string &cmd, const std::string &outfile) { int st = system((cmd + " >" + sh_quote(outfile) + " 2>&1 </dev/null").c_str()); if (st == -1) return -1; return WIFEXITED(st) ? WEXITSTATUS(st) : 128 + WTERMSIG(st); }
static std::string slurp(const std::string &p) { std::ifstream f(p); std::stringstream ss; ss << f.rdbuf(); return ss.str(); }
VF_SUB(gpg_cross_check, 12, 300) {
  PGP::MemoryGuardReset();
  static int have_gpgv = -1; if (have_gpgv < 0) have_gpgv = system("gpgv --version >/dev/null 2>&1") == 0 ? 1 : 0;
  if (!have_gpgv) { ctx.count("skipped_gpgv_unavailable"); ctx.label("skipped"); ctx.desc << "gpgv not installed"; return; }
  static const char *ks[] = {"rsa2048a", "rsa2048b", "dsa2048a", "dsa2048b"}; Key &k = key_named(ks[ctx.c.index(4)]); const std::string A = algo_name(k.algo);
  tmcg_openpgp_hashalgo_t h = k.algo == TMCG_OPENPGP_PKALGO_RSA ? (tmcg_openpgp_hashalgo_t)STRONG_HASHES[ctx.c.index(3)] : TMCG_OPENPGP_HASHALGO_SHA256; bool text = ctx.c.prob(1, 4), lone_cr = false;
  Oct data = text ? gen_text_doc(ctx, (size_t)ctx.c.range(0, 400), lone_cr) : gen_binary_doc(ctx, (size_t)ctx.c.small(0, 5000)); if (text && lone_cr) data = to_lf(to_crlf(data)), text = true;
  for (auto &b : data) if (text && b == '\r') b = ' ';
  BlockSpec sp; sp.prim = &k; sp.uid = "C20 Test <c20@example.invalid>"; sp.h_uid = TMCG_OPENPGP_HASHALGO_SHA256; sp.keytime = vtime() - 5000; sp.uidsigtime = sp.keytime + 1; sp.issuer_fpr = ctx.c.coin(); sp.bis = false;
  Block B = build_block(sp); if (!B.ok) { ctx.fail("cert/" + A + "/library-cannot-build-block", B.err); return; }
  DocSig S = make_docsig(k, 4, text, h, vtime() - 100, 0, "", sp.issuer_fpr ? B.fpr : B.kid, data); if (!S.ok) { ctx.fail("sig/" + A + "/library-cannot-sign", S.err); return; }
  ctx.desc << k.name << " " << hash_name(h) << (text ? " text" : " binary") << " doc(" << data.size() << ") judged by gpgv"; ctx.label(std::string("algo:") + A); ctx.label(text ? "type:text" : "type:binary"); ctx.nontrivial(ctx.desc.str() + hkey(S.pkt));
  { std::unique_ptr<TMCG_OpenPGP_Signature> sig(parse_sig(S.pkt)); if (!sig || !sig->VerifyData(k.pub, data, 0)) { ctx.fail("sig/" + A + "/untouched-signature-refused", ctx.desc.str()); return; } }
  char tmpl[] = "/tmp/c20gpg-XXXXXX"; if (!mkdtemp(tmpl)) { ctx.count("skipped_no_tmpdir"); ctx.label("skipped"); return; } std::string D = tmpl; chmod(D.c_str(), 0700);
  Oct bad = data; if (bad.empty()) bad.push_back('x'); else bad[ctx.c.index(bad.size())] ^= 0x01; if (text) for (auto &b : bad) if (b == '\r' || b == '\n') b = '#';
  Oct badsig = S.pkt; badsig[badsig.size() - 1 - ctx.c.index(20)] ^= 0x04;
  write_file(D + "/key.gpg", B.all); write_file(D + "/doc", data); write_file(D + "/doc.sig", S.pkt); write_file(D + "/bad", bad); write_file(D + "/bad.sig", S.pkt); write_file(D + "/doc2", data); write_file(D + "/doc2.sig", badsig);
  std::string base = "gpgv --homedir " + sh_quote(D) + " --keyring " + sh_quote(D + "/key.gpg") + " --ignore-time-conflict --status-fd 1 ";
  int r1 = run_cmd(base + sh_quote(D + "/doc.sig") + " " + sh_quote(D + "/doc"), D + "/out1"); std::string o1 = slurp(D + "/out1");
  int r2 = run_cmd(base + sh_quote(D + "/bad.sig") + " " + sh_quote(D + "/bad"), D + "/out2"); std::string o2 = slurp(D + "/out2");
  int r3 = run_cmd(base + sh_quote(D + "/doc2.sig") + " " + sh_quote(D + "/doc2"), D + "/out3"); std::string o3 = slurp(D + "/out3");
  if (system(("rm -rf " + sh_quote(D)).c_str())) {}
  auto brief = [](const std::string &o) { std::string s; std::istringstream in(o); std::string l; while (std::getline(in, l)) if (l.find("[GNUPG:]") != std::string::npos) s += l.substr(0, 70) + " | "; return s.substr(0, 400); };
  bool good1 = r1 == 0 && o1.find("GOODSIG") != std::string::npos && o1.find("VALIDSIG") != std::string::npos;
  if (good1) { ctx.label("gnupg:GOODSIG"); ctx.count("gnupg_agreed_good"); }
  else if (o1.find("BADSIG") != std::string::npos) ctx.fail("gpg/" + A + "/gnupg-says-bad-signature", "gpgv judged the library's signature BAD: " + ctx.desc.str() + " status: " + brief(o1));
  else { ctx.label("gnupg:skipped"); ctx.count("skipped_gnupg_no_verdict"); ctx.desc << " (no verdict: rc=" << r1 << " " << brief(o1) << ")"; return; }
  if (r2 == 0 || o2.find("GOODSIG") != std::string::npos) ctx.fail("gpg/judge-accepts-altered-document", "the second judge is unusable: " + brief(o2)); else ctx.count("gnupg_agreed_bad");
  if (r3 == 0 || o3.find("GOODSIG") != std::string::npos) ctx.fail("gpg/judge-accepts-altered-signature", "the second judge is unusable: " + brief(o3)); else ctx.count("gnupg_agreed_bad");
}

// developer aid: cost of fork/exit in the sanitized process (C20_BENCH=1)
static void bench_fork() {
  keys(); struct timespec a, b; clock_gettime(CLOCK_MONOTONIC, &a); int n = 30;
  for (int i = 0; i < n; i++) { pid_t p = fork(); if (p == 0) _exit(0); int st; waitpid(p, &st, 0); }
  clock_gettime(CLOCK_MONOTONIC, &b); struct rusage ru, rc; getrusage(RUSAGE_SELF, &ru); getrusage(RUSAGE_CHILDREN, &rc);
  fprintf(stderr, "fork+exit+wait: %.1f ms each; parent sys %.3f s, children sys %.3f s user %.3f s\n", ((b.tv_sec - a.tv_sec) * 1e3 + (b.tv_nsec - a.tv_nsec) / 1e6) / n, ru.ru_stime.tv_sec + ru.ru_stime.tv_usec / 1e6, rc.ru_stime.tv_sec + rc.ru_stime.tv_usec / 1e6, rc.ru_utime.tv_sec + rc.ru_utime.tv_usec / 1e6);
}
