// C12 — untrusted input never corrupts memory or kills the process.
// One libFuzzer binary; the first input byte selects the target, the rest is the untrusted input.
// Oracle: a clean refusal is a return value, a stream failbit or a std::exception.  Everything else
// (ASan/UBSan report, assert/abort, signal, GMP write guard, single allocation request >= 1 GiB,
// any non-standard exception) terminates the process and is bucketed by the driver (lib/fuzzdrv.py).
#include "fix.hh"
#include "cards.hh"
#include "refpgp.hh"
#include <dirent.h>
using namespace vf;
typedef CallasDonnerhackeFinneyShawThayerRFC4880 PGP;

namespace vf { const char *PROPERTY = "C12"; void harness_init() {} std::vector<SubInfo> &registry() { static std::vector<SubInfo> r; return r; } }
namespace { struct NullBuf : std::streambuf { int overflow(int c) override { return c; } }; }

enum { T_CARD, T_CARDSECRET, T_VCARD, T_VCARDSECRET, T_VSTACK, T_TSTACK, T_VSTACKSECRET, T_TSTACKSECRET, T_MPZ_STREAM, T_PUBKEY, T_SECKEY,
       T_CTOR_VTMF, T_CTOR_QR, T_CTOR_COM, T_CTOR_SKC, T_CTOR_VSSHE, T_CTOR_VRHE, T_CTOR_PVSS, T_CTOR_GJKR, T_CTOR_CGJKR, T_CTOR_EOTP,
       T_UPDATEKEY, T_CP, T_OR, T_MASK, T_DECRYPT, T_KEYPROOF, T_STACKEQ, T_GROTH_NI, T_HOOGH_NI, T_RABIN, T_SKC_NI,
       T_ARMOR, T_PACKETS, T_PUBKEYBLOCK, T_SIGNATURE, T_KEYRING, T_PRVKEYBLOCK, T_MESSAGE, T_SIGNATURES, T_RADIX64, T_STREAM_OPS, T_COUNT };
static const char *TNAME[] = {"card_import", "cardsecret_import", "vtmfcard_import", "vtmfcardsecret_import", "vtmfstack_import", "tmcgstack_import", "vtmfstacksecret_import", "tmcgstacksecret_import", "mpz_stream", "publickey", "secretkey",
  "ctor_vtmf", "ctor_groupqr", "ctor_pedersencom", "ctor_grothskc", "ctor_grothvsshe", "ctor_vrhe", "ctor_pedersenvss", "ctor_gjkrdkg", "ctor_cgjkr", "ctor_eotp",
  "verify_updatekey", "verify_cp", "verify_or", "verify_masking", "verify_decryption", "verify_keyproof", "verify_stackequality", "verify_groth_ni", "verify_hoogh_ni", "verify_rabin", "verify_skc_ni",
  "pgp_armor", "pgp_packets", "pgp_pubkeyblock", "pgp_signature", "pgp_keyring", "pgp_prvkeyblock", "pgp_message", "pgp_signatures", "pgp_radix64", "stream_operators"};

struct World {
  std::string gtext, qrtext; VtmfPlayers *P; SchindelhauerTMCG *T; BarnettSmartVTMF_dlog *pv, *vv;
  TMCG_Stack<VTMF_Card> s, s2; TMCG_StackSecret<VTMF_CardSecret> ss; GrothVSSHE *vsshe; HooghSchoenmakersSkoricVillegasVRHE *vrhe; TMCG_Stack<VTMF_Card> rs2; TMCG_StackSecret<VTMF_CardSecret> rss;
  Z x, y, gg, hh, y1, y2, g1, g2; VTMF_Card c, cc; mpz_t m, c1, c2;
  TMCG_SecretKey *sk; TMCG_PublicKey *pk; TMCG_PublicKeyRing *ring; TMCG_Card tc, tcc; TMCG_Stack<TMCG_Card> ts, ts2;
  PedersenCommitmentScheme *com; GrothSKC *skc; std::vector<mpz_ptr> skc_m; mpz_t skc_c;
  std::map<int, std::vector<std::string> > seeds; uint64_t gate[T_COUNT], execs[T_COUNT];
};
static World *W = nullptr;
// target groups: each campaign fuzzes one group; the first input byte selects the target WITHIN the group
static std::vector<int> g_group; static std::string g_group_name = "all";
static void set_group() {
  const char *g = getenv("VF_GROUP"); g_group.clear(); g_group_name = g ? g : "all";
  auto range = [&](int a, int b) { for (int i = a; i <= b; i++) g_group.push_back(i); };
  if (g_group_name == "imp") { range(T_CARD, T_SECKEY); g_group.push_back(T_STREAM_OPS); }
  else if (g_group_name == "ctor") range(T_CTOR_VTMF, T_CTOR_EOTP);
  else if (g_group_name == "ver") range(T_UPDATEKEY, T_SKC_NI);
  else if (g_group_name == "pgp") range(T_ARMOR, T_RADIX64);
  else range(0, T_COUNT - 1);
}
static int group_index_of(int t) { for (size_t i = 0; i < g_group.size(); i++) if (g_group[i] == t) return (int)i; return -1; }

static void add_seed(int t, const std::string &s) { W->seeds[t].push_back(s); }
static std::string pgp_str(const tmcg_openpgp_octets_t &o) { return std::string(o.begin(), o.end()); }

static void pgp_seeds();
static std::vector<std::string> split_lines_local(const std::string &s) { std::vector<std::string> v; size_t i = 0; while (i < s.size()) { size_t j = s.find('\n', i); if (j == std::string::npos) { v.push_back(s.substr(i)); break; } v.push_back(s.substr(i, j - i)); i = j + 1; } return v; }
static void build_world(bool heavy) {
  W = new World(); memset(W->gate, 0, sizeof W->gate); memset(W->execs, 0, sizeof W->execs);
  rng_seed(20260924);
  if (!heavy) { W->gtext = vtmf_group_text(G_SCHNORR, 384, 128, 0); W->qrtext = vtmf_group_text(G_QR, 256, 128, 0); pgp_seeds(); return; }
  GroupSpec g{G_SCHNORR, 384, 128, 0}; W->gtext = vtmf_group_text(g.kind, g.fsize, g.gsize, g.idx); W->qrtext = vtmf_group_text(G_QR, 256, 128, 0);
  W->P = new VtmfPlayers(g, 2); W->pv = (*W->P)[1]; W->vv = (*W->P)[0]; W->T = new SchindelhauerTMCG(2, 2, 4);
  BarnettSmartVTMF_dlog *pv = W->pv; Z p(pv->p), q(pv->q), gz(pv->g);
  // statements and honest transcripts (seeds)
  { std::ostringstream o; pv->KeyGenerationProtocol_PublishKey(o); add_seed(T_UPDATEKEY, o.str()); }
  Z alpha = 12345; W->gg = zpowm(gz, 777, p); W->hh = zpowm(gz, 999, p); W->x = zpowm(W->gg, alpha, p); W->y = zpowm(W->hh, alpha, p);
  { std::ostringstream o; pv->CP_Prove(W->x.get_mpz_t(), W->y.get_mpz_t(), W->gg.get_mpz_t(), W->hh.get_mpz_t(), alpha.get_mpz_t(), o, false); add_seed(T_CP, o.str()); }
  W->g1 = zpowm(gz, 31, p); W->g2 = zpowm(gz, 37, p); W->y1 = zpowm(W->g1, alpha, p); W->y2 = zpowm(gz, 4242, p);
  { std::ostringstream o; pv->OR_ProveFirst(W->y1.get_mpz_t(), W->y2.get_mpz_t(), W->g1.get_mpz_t(), W->g2.get_mpz_t(), alpha.get_mpz_t(), o); add_seed(T_OR, o.str()); }
  mpz_init(W->m), mpz_init(W->c1), mpz_init(W->c2); { mpz_t r; mpz_init(r); mpz_set(W->m, zpowm(gz, 5, p).get_mpz_t()); pv->VerifiableMaskingProtocol_Mask(W->m, W->c1, W->c2, r);
    std::ostringstream o; pv->VerifiableMaskingProtocol_Prove(W->m, W->c1, W->c2, r, o); add_seed(T_MASK, o.str()); mpz_clear(r); }
  { VTMF_CardSecret cs; W->T->TMCG_CreatePrivateCard(W->c, cs, pv, 3); std::stringstream o, in; W->T->TMCG_ProveCardSecret(W->c, pv, in, o); add_seed(T_DECRYPT, o.str()); }
  { std::ostringstream o; o << zpowm(gz, 99, p).get_str(62) << "\n" << Z(5).get_str(62) << "\n"; add_seed(T_KEYPROOF, o.str()); }
  for (size_t i = 0; i < 3; i++) { VTMF_Card c; VTMF_CardSecret cs; W->T->TMCG_CreatePrivateCard(c, cs, pv, i); W->s.push(c); }
  W->T->TMCG_CreateStackSecret(W->ss, false, 3, pv); W->T->TMCG_MixStack(W->s, W->s2, W->ss, pv);
  { // a cut-and-choose transcript: commitment hash + glued/fresh secret per round (both coin values as seeds)
    for (int coin = 0; coin < 2; coin++) { std::ostringstream o; mpz_t foo; mpz_init(foo);
      for (int r = 0; r < 2; r++) { TMCG_StackSecret<VTMF_CardSecret> ss2; TMCG_Stack<VTMF_Card> s3; W->T->TMCG_CreateStackSecret(ss2, false, 3, pv); W->T->TMCG_MixStack(W->s2, s3, ss2, pv);
        std::ostringstream ost; ost << s3 << std::endl; tmcg_mpz_shash(foo, ost.str()); o << foo << std::endl; o << ss2 << std::endl; (void)coin; }
      mpz_clear(foo); add_seed(T_STACKEQ, o.str()); } }
  W->vsshe = new GrothVSSHE(4, pv->p, pv->q, pv->k, pv->g, pv->h, 32, 384, 128);
  { std::ostringstream o; W->T->TMCG_ProveStackEquality_Groth_noninteractive(W->s, W->s2, W->ss, pv, W->vsshe, o); add_seed(T_GROTH_NI, o.str()); }
  W->vrhe = new HooghSchoenmakersSkoricVillegasVRHE(pv->p, pv->q, pv->g, pv->h, 384, 128);
  W->T->TMCG_CreateStackSecret(W->rss, true, 3, pv); W->T->TMCG_MixStack(W->s, W->rs2, W->rss, pv);
  { std::ostringstream o; W->T->TMCG_ProveStackEquality_Hoogh_noninteractive(W->s, W->rs2, W->rss, pv, W->vrhe, o); add_seed(T_HOOGH_NI, o.str()); }
  // shuffle of known content
  W->com = new PedersenCommitmentScheme(3, pv->p, pv->q, pv->k, pv->h, 384, 128); { std::stringstream t; W->com->PublishGroup(t); W->skc = new GrothSKC(3, t, 32, 384, 128); add_seed(T_CTOR_COM, "\x02" + t.str()); add_seed(T_CTOR_SKC, "\x02" + t.str()); /* first byte: number of generators minus one */ }
  { std::vector<size_t> pi = {2, 0, 1}; std::vector<mpz_ptr> mpi; for (size_t i = 0; i < 3; i++) { mpz_ptr a = new mpz_t(); mpz_init_set_ui(a, 10 + i); W->skc_m.push_back(a); } for (size_t i = 0; i < 3; i++) { mpz_ptr a = new mpz_t(); mpz_init_set(a, W->skc_m[pi[i]]); mpi.push_back(a); }
    mpz_t r; mpz_init(r); mpz_init(W->skc_c); W->com->Commit(W->skc_c, r, mpi); std::ostringstream o; W->skc->Prove_noninteractive(pi, r, W->skc_m, o); add_seed(T_SKC_NI, o.str()); mpz_clear(r); }
  // Rabin world
  W->sk = new TMCG_SecretKey(rabin_key_text(672, false, 0)); W->pk = new TMCG_PublicKey(*W->sk); W->ring = new TMCG_PublicKeyRing(1); W->ring->keys[0] = *W->pk;
  { std::ostringstream o; o << *W->pk; std::string sig = W->sk->sign("data"); add_seed(T_PUBKEY, o.str() + std::string(1, '\0') + sig); std::ostringstream o2; o2 << *W->sk; unsigned char pt[TMCG_SAEP_S0]; memset(pt, 7, sizeof pt); add_seed(T_SECKEY, o2.str() + std::string(1, '\0') + W->pk->encrypt(pt)); }
  { SchindelhauerTMCG t1(2, 1, 2); W->tc.resize(1, 2); W->tcc.resize(1, 2); t1.TMCG_CreateOpenCard(W->tc, *W->ring, 2); TMCG_CardSecret cs(1, 2); t1.TMCG_CreateCardSecret(cs, *W->ring, 0); t1.TMCG_MaskCard(W->tc, W->tcc, cs, *W->ring);
    std::ostringstream a, b; a << W->tcc; b << cs; add_seed(T_CARD, a.str()); add_seed(T_CARDSECRET, b.str()); W->ts.push(W->tc); W->ts.push(W->tcc); std::ostringstream c; c << W->ts; add_seed(T_TSTACK, c.str());
    TMCG_StackSecret<TMCG_CardSecret> tss; t1.TMCG_CreateStackSecret(tss, false, *W->ring, 0, 2); t1.TMCG_MixStack(W->ts, W->ts2, tss, *W->ring); std::ostringstream dss; dss << tss; add_seed(T_TSTACKSECRET, dss.str()); add_seed(T_RABIN, "0\n1\n2\n3\n" + dss.str() + "\n"); }
  { std::ostringstream a, b, c, d; a << W->c; VTMF_CardSecret cs; mpz_set_ui(cs.r, 987654321); b << cs; c << W->s2; d << W->ss; add_seed(T_VCARD, a.str()); add_seed(T_VCARDSECRET, b.str()); add_seed(T_VSTACK, c.str()); add_seed(T_VSTACKSECRET, d.str()); }
  add_seed(T_MPZ_STREAM, "0\n-1\nzzzz\n12345678901234567890\n"); add_seed(T_STREAM_OPS, std::string("\x00", 1) + W->seeds[T_VCARD][0] + "\n");
  // constructor texts
  add_seed(T_CTOR_VTMF, W->gtext); add_seed(T_CTOR_QR, W->qrtext);
  { std::stringstream t; W->vsshe->PublishGroup(t); add_seed(T_CTOR_VSSHE, "\x03" + t.str()); std::stringstream u; W->vrhe->PublishGroup(u); add_seed(T_CTOR_VRHE, u.str()); }
  { std::ostringstream o; o << p.get_str(62) << "\n" << q.get_str(62) << "\n" << gz.get_str(62) << "\n" << Z(pv->h).get_str(62) << "\n"; add_seed(T_CTOR_PVSS, o.str() + "3\n1\n0\n"); add_seed(T_CTOR_GJKR, o.str() + "3\n1\n0\n"); add_seed(T_CTOR_CGJKR, "\x00" + o.str() + "3\n1\n0\n"); add_seed(T_CTOR_EOTP, o.str()); }
  { // PedersenVSS::CheckGroup insists on the canonical generator: a state over the canonical group as well
    auto cl = split_lines_local(vtmf_group_text(G_SCHNORR_CANON, 384, 128, 0)); Z cp, cq, cg; mpz_set_str(cp.get_mpz_t(), cl[0].c_str(), 62); mpz_set_str(cq.get_mpz_t(), cl[1].c_str(), 62); mpz_set_str(cg.get_mpz_t(), cl[2].c_str(), 62); Z ch = zpowm(cg, 4711, cp);
    PedersenVSS vc(3, 1, 0, cp.get_mpz_t(), cq.get_mpz_t(), cg.get_mpz_t(), ch.get_mpz_t(), 384, 128, false); std::ostringstream oc; vc.PublishState(oc); add_seed(T_CTOR_PVSS, oc.str()); }
  { PedersenVSS v(3, 1, 0, pv->p, pv->q, pv->g, pv->h, 384, 128, false); std::ostringstream o; v.PublishState(o); add_seed(T_CTOR_PVSS, o.str());
    GennaroJareckiKrawczykRabinDKG d(3, 1, 0, pv->p, pv->q, pv->g, pv->h, 384, 128, false, false); std::ostringstream o2; d.PublishState(o2); add_seed(T_CTOR_GJKR, o2.str());
    CanettiGennaroJareckiKrawczykRabinRVSS r(3, 1, 0, 1, pv->p, pv->q, pv->g, pv->h, 384, 128, false, false, "x"); std::ostringstream o3; r.PublishState(o3); add_seed(T_CTOR_CGJKR, "\x00" + o3.str());
    CanettiGennaroJareckiKrawczykRabinDKG dk(3, 1, 0, pv->p, pv->q, pv->g, pv->h, 384, 128, false, false); std::ostringstream o4; dk.PublishState(o4); add_seed(T_CTOR_CGJKR, "\x02" + o4.str());
    CanettiGennaroJareckiKrawczykRabinDSS ds(3, 1, 0, pv->p, pv->q, pv->g, pv->h, 384, 128, false, false); std::ostringstream o5; ds.PublishState(o5); add_seed(T_CTOR_CGJKR, "\x03" + o5.str()); }
  pgp_seeds();
}
static void pgp_seeds() {
  // OpenPGP seeds built with the library's own encoders
  { tmcg_openpgp_octets_t uid, lit, pub, all, seipd; PGP::PacketUidEncode("Alice <a@example.invalid>", uid); tmcg_openpgp_octets_t data = {'h', 'e', 'l', 'l', 'o'}; PGP::PacketLitEncode(data, lit);
    gcry_mpi_t a = gcry_mpi_set_ui(NULL, 65537), n = NULL; { std::string hx(256, 'c'); gcry_mpi_scan(&n, GCRYMPI_FMT_HEX, hx.c_str(), 0, NULL); }
    PGP::PacketPubEncode(1790000000, TMCG_OPENPGP_PKALGO_RSA, n, a, a, a, pub); PGP::PacketSeipdEncode(data, seipd);
    all = pub; all.insert(all.end(), uid.begin(), uid.end());
    add_seed(T_PACKETS, pgp_str(uid) + pgp_str(lit) + pgp_str(pub)); add_seed(T_PUBKEYBLOCK, pgp_str(all)); add_seed(T_KEYRING, pgp_str(all)); add_seed(T_MESSAGE, pgp_str(lit)); add_seed(T_MESSAGE, pgp_str(seipd)); add_seed(T_PRVKEYBLOCK, pgp_str(all));
    std::string arm; PGP::ArmorEncode(TMCG_OPENPGP_ARMOR_PUBLIC_KEY_BLOCK, all, arm); add_seed(T_ARMOR, arm); add_seed(T_RADIX64, "aGVsbG8gd29ybGQ="); add_seed(T_SIGNATURE, pgp_str(uid)); add_seed(T_SIGNATURES, pgp_str(uid));
    gcry_mpi_release(a); gcry_mpi_release(n); }
  // Structure seeds written with the independent reference encoder (lib/refpgp.hh): packet forms the library cannot emit itself or
  // that need key material (v5 keys, secret keys plain and protected, every public-key algorithm, signatures v3/v4/v5 with subpackets,
  // session key packets, AEAD, one-pass, old-format and partial lengths).  The numbers have no cryptographic meaning.
  { using namespace refpgp; typedef refpgp::Bytes B; auto S = [](const B &b) { return std::string(b.begin(), b.end()); };
    auto big = [](unsigned bits, unsigned salt) -> mpz_class { mpz_class v = 1; v <<= (bits - 1); for (unsigned i = 0; i < bits / 29; i++) v += mpz_class(0x1234567 + 977 * salt + i) << (29 * i); v |= 1; return v; };
    const B oid_p256 = {0x2A, 0x86, 0x48, 0xCE, 0x3D, 0x03, 0x01, 0x07}, oid_ed = {0x2B, 0x06, 0x01, 0x04, 0x01, 0xDA, 0x47, 0x0F, 0x01}, oid_cv = {0x2B, 0x06, 0x01, 0x04, 0x01, 0x97, 0x55, 0x01, 0x05, 0x01};
    mpz_class pt256 = (mpz_class(4) << 512) + big(500, 3), pt255 = (mpz_class(0x40) << 256) + big(250, 4);
    struct KM { unsigned algo; B pub; std::vector<mpz_class> sec; };
    std::vector<KM> kms = {
      {1, mpis({big(1024, 1), 65537}), {big(1000, 2), big(512, 3), big(512, 4), big(500, 5)}},
      {17, mpis({big(1024, 6), big(160, 7), big(1000, 8), big(1001, 9)}), {big(150, 10)}},
      {16, mpis({big(1024, 11), 5, big(1002, 12)}), {big(300, 13)}},
      {19, ecc_material(oid_p256, pt256, false, 0, 0), {big(250, 14)}},
      {22, ecc_material(oid_ed, pt255, false, 0, 0), {big(252, 15)}},
      {18, ecc_material(oid_cv, pt255, true, 8, 7), {big(252, 16)}}};
    B keyid = {1, 2, 3, 4, 5, 6, 7, 8}, salt = {9, 8, 7, 6, 5, 4, 3, 2}, iv16(16, 0x5A), left = {0xAB, 0xCD};
    B uid = packet(13, B{'B', 'o', 'b', ' ', '<', 'b', '@', 'x', '>'});
    // signatures
    B hashed; put(hashed, subpacket(2, false, time_body(1790000000))); put(hashed, subpacket(27, false, B{3})); put(hashed, subpacket(9, false, time_body(86400)));
    put(hashed, subpacket(11, false, B{9, 8, 7})); put(hashed, subpacket(21, false, B{10, 9, 8})); put(hashed, subpacket(22, false, B{2, 1})); put(hashed, subpacket(30, false, B{1}));
    put(hashed, subpacket(33, false, cat(B{4}, B(20, 0x11)))); put(hashed, subpacket(20, false, notation_body(true, B{'a', '@', 'b'}, B{'v'}))); put(hashed, subpacket(26, true, B{'h', 't', 't', 'p', ':', '/', '/', 'x'}));
    put(hashed, subpacket(3, false, time_body(1000))); put(hashed, subpacket(7, false, B{1})); put(hashed, subpacket(23, false, B{0x80})); put(hashed, subpacket(25, false, B{1})); put(hashed, subpacket(28, false, B{'b', '@', 'x'}));
    put(hashed, subpacket(34, false, B{2, 1})); put(hashed, subpacket(12, false, cat(B{0x80, 17}, B(20, 0x22)))); put(hashed, subpacket(29, false, B{0, 'r'})); put(hashed, subpacket(31, false, cat(B{17, 8}, B(32, 0x33))));
    B unhashed = subpacket(16, false, keyid);
    auto sig = [&](unsigned ver, unsigned type, unsigned pk, const B &m) { return packet(2, sig4_body(sig4_hashed_part(ver, type, pk, 8, hashed), unhashed, left, m)); };
    B sig_rsa = sig(4, 0x13, 1, mpis({big(1020, 20)})), sig_dsa = sig(4, 0x00, 17, mpis({big(159, 21), big(158, 22)})), sig_ed = sig(4, 0x18, 22, mpis({big(255, 23), big(254, 24)})), sig_v5 = sig(5, 0x01, 19, mpis({big(255, 25), big(254, 26)}));
    B emb = subpacket(32, false, B(sig_rsa.begin() + 3, sig_rsa.end())); B hashed2 = hashed; put(hashed2, emb); B sig_emb = packet(2, sig4_body(sig4_hashed_part(4, 0x18, 1, 10, hashed2), unhashed, left, mpis({big(1019, 27)})));
    B sig_v3 = packet(2, sig3_body(0x00, 1790000000, keyid, 17, 2, left, mpis({big(159, 28), big(157, 29)})));
    // minimal variants (creation time and issuer only) next to the rich ones: the parsers refuse some subpacket combinations as a whole
    B hmin; put(hmin, subpacket(2, false, time_body(1790000000))); put(hmin, subpacket(33, false, cat(B{4}, B(20, 0x11))));
    auto sigmin = [&](unsigned type, unsigned pk, unsigned hash, const B &m) { return packet(2, sig4_body(sig4_hashed_part(4, type, pk, hash, hmin), unhashed, left, m)); };
    B smin_rsa = sigmin(0x00, 1, 8, mpis({big(1020, 40)})), smin_dsa = sigmin(0x01, 17, 8, mpis({big(159, 41), big(158, 42)})), smin_ed = sigmin(0x10, 22, 10, mpis({big(255, 43), big(254, 44)})), smin_ecdsa = sigmin(0x13, 19, 9, mpis({big(255, 45), big(254, 46)}));
    for (const B &x : {smin_rsa, smin_dsa, smin_ed, smin_ecdsa}) { add_seed(T_SIGNATURE, S(x)); add_seed(T_PACKETS, S(x)); }
    add_seed(T_SIGNATURES, S(cat(smin_rsa, smin_dsa))); add_seed(T_SIGNATURES, S(smin_ed));
    for (const B &x : {sig_rsa, sig_dsa, sig_ed, sig_v5, sig_emb, sig_v3}) { add_seed(T_SIGNATURE, S(x)); add_seed(T_PACKETS, S(x)); }
    add_seed(T_SIGNATURES, S(cat(cat(sig_rsa, sig_dsa), sig_ed)));
    { std::string arm; tmcg_openpgp_octets_t o(sig_dsa.begin(), sig_dsa.end()); PGP::ArmorEncode(TMCG_OPENPGP_ARMOR_SIGNATURE, o, arm); add_seed(T_ARMOR, arm); add_seed(T_SIGNATURE, arm); }
    // keys: public / secret, primary / sub, v4 / v5, plain / protected
    for (size_t k = 0; k < kms.size(); k++) for (unsigned ver = 4; ver <= 5; ver++) {
      const KM &m = kms[k]; B pubbody = key_body(ver, 1790000000, m.algo, m.pub), secm = mpis(m.sec);
      B plain; put8(plain, 0); if (ver == 5) { put8(plain, 0); put32(plain, secm.size()); } put(plain, secm); put16(plain, sum16(secm));
      B prot; { B spec = s2k_specifier(3, 8, salt, 96), enc = cfb_encrypt(GCRY_CIPHER_AES256, s2k(8, 3, salt, 96, "pw", 32), iv16, cat(secm, digest(GCRY_MD_SHA1, secm)));
        put8(prot, 254); if (ver == 5) put8(prot, 1 + spec.size() + iv16.size()); put8(prot, 9); put(prot, spec); put(prot, iv16); if (ver == 5) put32(prot, enc.size()); put(prot, enc); }
      B pub = packet(6, pubbody), sub = packet(14, pubbody), sec = packet(5, cat(pubbody, plain)), ssb = packet(7, cat(pubbody, plain)), secp = packet(5, cat(pubbody, prot)), ssbp = packet(7, cat(pubbody, prot));
      B pubblock = cat(cat(cat(pub, uid), sig_rsa), cat(sub, sig_ed)), secblock = cat(cat(cat(sec, uid), sig_rsa), cat(ssb, sig_ed)), secblockp = cat(cat(cat(secp, uid), sig_rsa), cat(ssbp, sig_ed));
      add_seed(T_PACKETS, S(cat(pub, sec))); add_seed(T_PACKETS, S(cat(ssbp, sub))); add_seed(T_PUBKEYBLOCK, S(pubblock)); add_seed(T_KEYRING, S(cat(pubblock, pubblock)));
      add_seed(T_PRVKEYBLOCK, S(secblock)); add_seed(T_PRVKEYBLOCK, S(secblockp));
      if (k < 2) { std::string arm; tmcg_openpgp_octets_t o(secblock.begin(), secblock.end()); PGP::ArmorEncode(TMCG_OPENPGP_ARMOR_PRIVATE_KEY_BLOCK, o, arm); add_seed(T_ARMOR, arm); add_seed(T_PRVKEYBLOCK, arm);
        std::string arm2; tmcg_openpgp_octets_t o2(pubblock.begin(), pubblock.end()); PGP::ArmorEncode(TMCG_OPENPGP_ARMOR_PUBLIC_KEY_BLOCK, o2, arm2); add_seed(T_PUBKEYBLOCK, arm2); add_seed(T_KEYRING, arm2); } }
    // messages
    B lit = packet(11, literal_body('b', "f.txt", 1790000000, B{'h', 'i', '\n'})), litold = old_packet(11, literal_body('t', "", 0, B{'x'}), 0), litpart = partial_packet(11, literal_body('u', "n", 1, B(700, 'y')), {9});
    B pk_rsa = packet(1, pkesk_body(keyid, 1, mpis({big(1023, 30)}))), pk_elg = packet(1, pkesk_body(keyid, 16, mpis({big(1022, 31), big(1021, 32)}))), pk_ecdh = packet(1, pkesk_body(keyid, 18, cat(mpi(pt255), cat(B{48}, B(48, 0x44)))));
    B sk4 = packet(3, skesk4_body(9, s2k_specifier(3, 8, salt, 96), B())), sk4e = packet(3, skesk4_body(9, s2k_specifier(1, 2, salt, 0), B(33, 0x55))), sk5 = packet(3, skesk5_body(9, 2, s2k_specifier(3, 8, salt, 96), B(15, 0x66), B(48, 0x77)));
    B seipd = packet(18, seipd_body(B(60, 0x21))), sed = packet(9, B(40, 0x22)), aead = packet(20, aead_body(9, 2, 0, B(15, 0x23), B(64 + 16 + 16, 0x24))), aeadx = packet(20, aead_body(7, 1, 1, B(16, 0x25), B(40, 0x26)));
    B onep = packet(4, onepass_body(0, 8, 17, keyid, 1)), comp = packet(8, cat(B{0}, lit)), compz = packet(8, B{1, 0x03, 0x00}), marker = packet(10, B{'P', 'G', 'P'}), trust = packet(12, B{1, 2}), uat = packet(17, B{5, 1, 1, 0, 0, 0}), mdc = packet(19, B(20, 0x27));
    for (const B &x : {cat(pk_rsa, seipd), cat(pk_elg, seipd), cat(pk_ecdh, aead), cat(sk4, seipd), cat(sk4e, sed), cat(sk5, aead), cat(sk4, aeadx), cat(cat(onep, lit), sig_dsa), cat(marker, comp), compz, litold, litpart, cat(sig_dsa, lit)}) { add_seed(T_MESSAGE, S(x)); add_seed(T_PACKETS, S(x)); }
    add_seed(T_PACKETS, S(cat(cat(trust, uat), cat(mdc, marker))));
    { std::string arm; B m = cat(pk_rsa, seipd); tmcg_openpgp_octets_t o(m.begin(), m.end()); PGP::ArmorEncode(TMCG_OPENPGP_ARMOR_MESSAGE, o, arm); add_seed(T_ARMOR, arm); add_seed(T_MESSAGE, arm); }
  }
}

static bool stdexc = false; // set when a std::exception was the (clean) refusal
template <class F> static void guarded(F f) { try { f(); } catch (std::exception &) { stdexc = true; } }
static inline void gate(int t) { W->gate[t]++; }

static void run_target(int t, const std::string &in) {
  BarnettSmartVTMF_dlog *vv = W->vv; std::stringstream sink;
  // the OpenPGP block parsers have an ASCII-armor and a binary entry point: armored text goes to the former, everything else to the latter
  // (a mutated armor hardly ever keeps its checksum, so the armor entry point alone would stop most inputs before any packet is parsed)
  bool armored = in.compare(0, 5, "-----") == 0; tmcg_openpgp_octets_t oct; if (!armored && t >= T_ARMOR && t <= T_RADIX64) oct.assign(in.begin(), in.end());
  switch (t) {
    // import into a fresh object AND into objects that already hold a card of other dimensions (the usual `TMCG_Card c(players, bits); in >> c;`
    // pattern: import resizes the held matrix before it parses the body), then once more into the object just filled
    case T_CARD: guarded([&] { TMCG_Card c; if (c.import(in)) { gate(t); std::ostringstream o; o << c; }
        static const size_t HELD[][2] = {{4, 8}, {3, 2}, {5, 2}, {2, 1}, {1, 3}};
        for (auto &hd : HELD) { TMCG_Card u(hd[0], hd[1]); if (u.import(in)) { std::ostringstream o; o << u; u.import(in); } TMCG_Card u2(hd[0], hd[1]); std::istringstream is(in); is >> u2; } }); break;
    case T_CARDSECRET: guarded([&] { TMCG_CardSecret c; if (c.import(in)) { gate(t); std::ostringstream o; o << c; }
        static const size_t HELD[][2] = {{4, 8}, {3, 2}, {5, 2}, {2, 1}, {1, 3}};
        for (auto &hd : HELD) { TMCG_CardSecret u(hd[0], hd[1]); if (u.import(in)) { std::ostringstream o; o << u; u.import(in); } TMCG_CardSecret u2(hd[0], hd[1]); std::istringstream is(in); is >> u2; } }); break;
    case T_VCARD: guarded([&] { VTMF_Card c; if (c.import(in)) { gate(t); vv->CheckElement(c.c_1); } }); break;
    case T_VCARDSECRET: guarded([&] { VTMF_CardSecret c; if (c.import(in)) gate(t); }); break;
    case T_VSTACK: guarded([&] { TMCG_Stack<VTMF_Card> s; if (s.import(in)) { gate(t); std::ostringstream o; o << s; } }); break;
    case T_TSTACK: guarded([&] { TMCG_Stack<TMCG_Card> s; if (s.import(in)) { gate(t); std::ostringstream o; o << s; }
        { TMCG_Stack<TMCG_Card> u; for (size_t z = 0; z < 3; z++) u.push(TMCG_Card(3 + z, 2)); if (u.import(in)) { std::ostringstream o; o << u; while (u.size()) { TMCG_Card x(5, 2); u.pop(x); } } } }); break; // a used stack; popping into cards of other dimensions
    case T_VSTACKSECRET: guarded([&] { TMCG_StackSecret<VTMF_CardSecret> s; if (s.import(in)) { gate(t); if (s.size() == W->s.size()) { TMCG_Stack<VTMF_Card> o; W->T->TMCG_MixStack(W->s, o, s, vv); } } }); break;
    case T_TSTACKSECRET: guarded([&] { TMCG_StackSecret<TMCG_CardSecret> s; if (s.import(in)) { gate(t); std::ostringstream o; o << s; } }); break;
    case T_MPZ_STREAM: guarded([&] { std::istringstream is(in); mpz_t v; mpz_init(v); try { for (int i = 0; i < 8 && is.good(); i++) { is >> v; gate(t); } } catch (...) { mpz_clear(v); throw; } mpz_clear(v); }); break;
    case T_PUBKEY: guarded([&] { size_t z = in.find('\0'); std::string k = in.substr(0, z), sig = z == std::string::npos ? "" : in.substr(z + 1); TMCG_PublicKey pk; if (pk.import(k)) { gate(t); pk.verify("data", sig); pk.fingerprint(); pk.selfid(); if (pk.nizk.size() < 2000) pk.check(); } W->pk->verify("data", sig); }); break;
    case T_SECKEY: guarded([&] { size_t z = in.find('\0'); std::string k = in.substr(0, z), enc = z == std::string::npos ? "" : in.substr(z + 1); unsigned char out[TMCG_SAEP_S0 + 8]; W->sk->decrypt(out, enc); W->sk->decrypt(out, k);
        if (k.size() < 20000) { TMCG_SecretKey sk; if (sk.import(k)) { gate(t); if (mpz_sizeinbase(sk.m, 2) < 1200 && mpz_sizeinbase(sk.m, 2) >= 672 && mpz_sizeinbase(sk.m, 2) % 8 == 0) { sk.decrypt(out, enc); } } } }); break;
    case T_CTOR_VTMF: guarded([&] { std::istringstream is(in); BarnettSmartVTMF_dlog v(is, 384, 128, false); if (v.CheckGroup()) { gate(t); v.CheckElement(v.g); } std::ostringstream o; v.PublishGroup(o); }); break; // an object whose group check fails is not used any further
    case T_CTOR_QR: guarded([&] { std::istringstream is(in); BarnettSmartVTMF_dlog_GroupQR v(is, 256, 128); if (v.CheckGroup()) { gate(t); v.CheckElement(v.g); } }); break;
    case T_CTOR_COM: guarded([&] { if (in.empty()) return; size_t n = 1 + (unsigned char)in[0] % 8; std::istringstream is(in.substr(1)); PedersenCommitmentScheme c(n, is, 384, 128); if (c.CheckGroup()) gate(t); }); break;
    case T_CTOR_SKC: guarded([&] { if (in.empty()) return; size_t n = 1 + (unsigned char)in[0] % 8; std::istringstream is(in.substr(1)); GrothSKC c(n, is, 32, 384, 128); if (c.CheckGroup()) gate(t); }); break;
    case T_CTOR_VSSHE: guarded([&] { if (in.empty()) return; size_t n = 1 + (unsigned char)in[0] % 8; std::istringstream is(in.substr(1)); GrothVSSHE c(n, is, 32, 384, 128); if (c.CheckGroup()) gate(t); }); break;
    case T_CTOR_VRHE: guarded([&] { std::istringstream is(in); HooghSchoenmakersSkoricVillegasVRHE c(is, 384, 128); if (c.CheckGroup()) { gate(t); c.CheckElement(c.g); } }); break;
    case T_CTOR_PVSS: guarded([&] { std::istringstream is(in); PedersenVSS c(is, 384, 128, false); if (c.CheckGroup()) gate(t); std::ostringstream o; c.PublishState(o); }); break;
    case T_CTOR_GJKR: guarded([&] { std::istringstream is(in); GennaroJareckiKrawczykRabinDKG c(is, 384, 128, false, false); std::ostringstream o; c.PublishState(o); if (c.CheckGroup()) { gate(t); c.CheckKey(); } }); break;
    case T_CTOR_CGJKR: guarded([&] { if (in.empty()) return; int k = (unsigned char)in[0] % 4; std::istringstream is(in.substr(1));
        if (k == 0) { CanettiGennaroJareckiKrawczykRabinRVSS c(is, 384, 128, false, false, "x"); if (c.CheckGroup()) gate(t); std::ostringstream o; c.PublishState(o); }
        else if (k == 1) { CanettiGennaroJareckiKrawczykRabinZVSS c(is, 384, 128, false, false, "x"); if (c.CheckGroup()) gate(t); std::ostringstream o; c.PublishState(o); }
        else if (k == 2) { CanettiGennaroJareckiKrawczykRabinDKG c(is, 384, 128, false, false); if (c.CheckGroup()) gate(t); std::ostringstream o; c.PublishState(o); }
        else { CanettiGennaroJareckiKrawczykRabinDSS c(is, 384, 128, false, false); if (c.CheckGroup()) gate(t); std::ostringstream o; c.PublishState(o); } }); break;
    case T_CTOR_EOTP: guarded([&] { std::istringstream is(in); NaorPinkasEOTP c(is, 384, 128); if (c.CheckGroup()) gate(t); }); break;
    case T_UPDATEKEY: guarded([&] { std::istringstream is(in); if (vv->KeyGenerationProtocol_UpdateKey(is)) { gate(t); std::istringstream is2(in); vv->KeyGenerationProtocol_RemoveKey(is2); } std::istringstream is3(in); vv->KeyGenerationProtocol_RemoveKey(is3); }); break;
    case T_CP: guarded([&] { std::istringstream is(in); if (vv->CP_Verify(W->x.get_mpz_t(), W->y.get_mpz_t(), W->gg.get_mpz_t(), W->hh.get_mpz_t(), is, false)) gate(t); std::istringstream is2(in); vv->CP_Verify(vv->g, vv->h, vv->g, vv->h, is2, true); }); break;
    case T_OR: guarded([&] { std::istringstream is(in); if (vv->OR_Verify(W->y1.get_mpz_t(), W->y2.get_mpz_t(), W->g1.get_mpz_t(), W->g2.get_mpz_t(), is)) gate(t); }); break;
    case T_MASK: guarded([&] { std::istringstream is(in); if (vv->VerifiableMaskingProtocol_Verify(W->m, W->c1, W->c2, is)) gate(t); std::istringstream is2(in); std::stringstream o; W->T->TMCG_VerifyMaskCard(W->c, W->c, vv, is2, o); }); break;
    case T_DECRYPT: guarded([&] { std::istringstream is(in); std::stringstream o; W->T->TMCG_SelfCardSecret(W->c, vv); if (W->T->TMCG_VerifyCardSecret(W->c, vv, is, o)) gate(t); W->T->TMCG_TypeOfCard(W->c, vv); }); break;
    case T_KEYPROOF: guarded([&] { std::istringstream is(in); std::stringstream o; if (vv->KeyGenerationProtocol_VerifyKey_interactive(W->pv->h_i, is, o)) gate(t); }); break;
    case T_STACKEQ: guarded([&] { for (int cyc = 0; cyc < 2; cyc++) { std::istringstream is(in); std::stringstream o; if (W->T->TMCG_VerifyStackEquality(W->s, W->s2, cyc != 0, vv, is, o)) gate(t); } }); break;
    case T_GROTH_NI: guarded([&] { std::istringstream is(in); if (W->T->TMCG_VerifyStackEquality_Groth_noninteractive(W->s, W->s2, vv, W->vsshe, is)) gate(t); }); break;
    case T_HOOGH_NI: guarded([&] { std::istringstream is(in); if (W->T->TMCG_VerifyStackEquality_Hoogh_noninteractive(W->s, W->rs2, vv, W->vrhe, is)) gate(t); }); break;
    case T_SKC_NI: guarded([&] { std::istringstream is(in); if (W->skc->Verify_noninteractive(W->skc_c, W->skc_m, is, true)) gate(t); std::istringstream is2(in); W->skc->Verify_noninteractive(W->skc_c, W->skc_m, is2, false); }); break;
    case T_RABIN: guarded([&] { SchindelhauerTMCG t1(2, 1, 2); { std::istringstream is(in); std::stringstream o; TMCG_CardSecret cs(1, 2); if (t1.TMCG_VerifyCardSecret(W->tcc, cs, *W->pk, 0, is, o)) gate(t); }
        { std::istringstream is(in); std::stringstream o; t1.TMCG_VerifyMaskCard(W->tc, W->tcc, *W->ring, is, o); } { std::istringstream is(in); std::stringstream o; t1.TMCG_VerifyStackEquality(W->ts, W->ts2, false, *W->ring, is, o); } }); break;
    case T_ARMOR: guarded([&] { tmcg_openpgp_octets_t out; if (PGP::ArmorDecode(in, out) != TMCG_OPENPGP_ARMOR_UNKNOWN) gate(t); }); break;
    case T_RADIX64: guarded([&] { tmcg_openpgp_octets_t out; PGP::Radix64Decode(in, out); std::string back; PGP::Radix64Encode(out, back, true); gate(t); }); break;
    case T_PACKETS: guarded([&] { tmcg_openpgp_octets_t pkts(in.begin(), in.end()); for (int i = 0; i < 16 && !pkts.empty(); i++) { tmcg_openpgp_packet_ctx_t ctx; tmcg_openpgp_octets_t cur; tmcg_openpgp_notations_t nt; tmcg_openpgp_multiple_octets_t es, rf;
          tmcg_openpgp_byte_t r = PGP::PacketDecode(pkts, 0, ctx, cur, nt, es, rf); PGP::PacketContextRelease(ctx); if (r == 0) break; if (r != 0xFE && r != 0xFD && r != 0xFA && r != 0xFB && r != 0xFC) gate(t); } }); break;
    case T_PUBKEYBLOCK: guarded([&] { TMCG_OpenPGP_Pubkey *pub = NULL; if (armored ? PGP::PublicKeyBlockParse(in, 0, pub) : PGP::PublicKeyBlockParse(oct, 0, pub)) { gate(t); pub->CheckSelfSignatures(NULL, 0); delete pub; } }); break; // the parser frees its out-pointer on failure
    case T_SIGNATURE: guarded([&] { TMCG_OpenPGP_Signature *sig = NULL; if (armored ? PGP::SignatureParse(in, 0, sig) : PGP::SignatureParse(oct, 0, sig)) { gate(t); sig->CheckValidity(1790000000, 0); delete sig; } }); break;
    case T_SIGNATURES: guarded([&] { TMCG_OpenPGP_Signatures sigs; if (armored ? PGP::SignaturesParse(in, 0, sigs) : PGP::SignaturesParse(oct, 0, sigs)) gate(t); for (size_t i = 0; i < sigs.size(); i++) delete sigs[i]; }); break;
    case T_KEYRING: guarded([&] { TMCG_OpenPGP_Keyring *ring = NULL; if (armored ? PGP::PublicKeyringParse(in, 0, ring) : PGP::PublicKeyringParse(oct, 0, ring)) { gate(t); delete ring; } }); break;
    case T_PRVKEYBLOCK: guarded([&] { TMCG_OpenPGP_Prvkey *prv = NULL; tmcg_openpgp_secure_string_t pw; pw += 'p'; pw += 'w'; if (armored ? PGP::PrivateKeyBlockParse(in, 0, pw, prv) : PGP::PrivateKeyBlockParse(oct, 0, pw, prv)) { gate(t); delete prv; } }); break;
    case T_MESSAGE: guarded([&] { TMCG_OpenPGP_Message *msg = NULL; if (armored ? PGP::MessageParse(in, 0, msg) : PGP::MessageParse(oct, 0, msg)) { gate(t); tmcg_openpgp_secure_octets_t key; for (int i = 0; i < 33; i++) key.push_back(i == 0 ? 9 : 1); tmcg_openpgp_octets_t out; msg->Decrypt(key, 0, out); delete msg; } }); break;
    case T_STREAM_OPS: guarded([&] { if (in.empty()) return; int k = (unsigned char)in[0] % 4; std::istringstream is(in.substr(1));
        if (k == 0) { VTMF_Card c; is >> c; if (is.good()) gate(t); } else if (k == 1) { TMCG_Card c; is >> c; if (is.good()) gate(t); } else if (k == 2) { TMCG_Stack<VTMF_Card> s; is >> s; if (is.good()) gate(t); } else { TMCG_StackSecret<VTMF_CardSecret> s; is >> s; if (is.good()) gate(t); } }); break;
    default: break;
  }
}

static void dump_stats() {
  const char *f = getenv("VF_STATS"); if (!f || !W) return; FILE *o = fopen(f, "a"); if (!o) return;
  for (int t = 0; t < T_COUNT; t++) if (W->execs[t]) fprintf(o, "%s %llu %llu\n", TNAME[t], (unsigned long long)W->execs[t], (unsigned long long)W->gate[t]);
  fclose(o);
}

namespace tmcg_init { bool init(); }
extern "C" int LLVMFuzzerInitialize(int *, char ***) {
  static NullBuf nb; if (!getenv("VF_VERBOSE")) { std::cerr.rdbuf(&nb); std::cout.rdbuf(&nb); }
  if (!tmcg_init::init()) { fprintf(stderr, "init_libTMCG failed\n"); _exit(2); }
  set_group();
  // the OpenPGP and constructor groups need no protocol world; building it in every forked fuzz job would dominate the campaign
  if (getenv("VF_PRINT_GROUP")) { for (size_t gi = 0; gi < g_group.size(); gi++) fprintf(stdout, "%zu %s\n", gi, TNAME[g_group[gi]]); fflush(stdout); _exit(0); }
  build_world(getenv("VF_GEN_CORPUS") != nullptr || (g_group_name != "pgp" && g_group_name != "ctor"));
  if (const char *d = getenv("VF_GEN_CORPUS")) { // write the seed corpus of this group (valid artefacts made by the library itself) and leave
    size_t n = 0; for (auto &kv : W->seeds) { int gi = group_index_of(kv.first); if (gi < 0) continue; for (auto &s : kv.second) { char name[512]; snprintf(name, sizeof name, "%s/seed-%s-%zu", d, TNAME[kv.first], n++); FILE *o = fopen(name, "wb"); if (!o) continue; fputc(gi, o); fwrite(s.data(), 1, s.size(), o); fclose(o); } }
    // "count and length fields set to ... huge": every textual seed of the importer / constructor groups once more with one numeric
    // line replaced by an oversized integer (2047, 2048, 2049, 4100 bits: around and beyond the 2048-entry fixed-base tables), and once with
    // all of the first lines oversized.  Coverage-guided mutation lengthens a 22-digit number to 345 digits only by luck.
    if (g_group_name == "ctor" || g_group_name == "imp") {
      auto bigtxt = [](unsigned bits, unsigned salt) { mpz_class v = 1; v <<= (bits - 1); v += mpz_class(0x9E3779B9u + 7919u * salt) * mpz_class(salt + 3); v |= 1; return v.get_str(62); };
      size_t m = 0;
      for (auto &kv : W->seeds) { int gi = group_index_of(kv.first); if (gi < 0) continue;
        for (auto &s0 : kv.second) {
          std::string pre, body = s0; if (!body.empty() && (unsigned char)body[0] < 0x20 && body[0] != '\n') { pre = body.substr(0, 1); body = body.substr(1); }
          std::vector<std::string> ln = split_lines_local(body); if (ln.size() < 2) continue;
          bool numeric = true; for (size_t i = 0; i < ln.size() && i < 4; i++) for (char ch : ln[i]) if (!isalnum((unsigned char)ch) && ch != '-') numeric = false;
          if (!numeric) continue;
          auto emit = [&](const std::vector<std::string> &v) { std::string t = pre; for (auto &x : v) t += x + "\n"; char name[512]; snprintf(name, sizeof name, "%s/huge-%s-%zu", d, TNAME[kv.first], m++); FILE *o = fopen(name, "wb"); if (!o) return; fputc(gi, o); fwrite(t.data(), 1, t.size(), o); fclose(o); };
          static const unsigned BITS[] = {2048, 4100, 2047, 2049};
          for (size_t L = 0; L < ln.size() && L < 5; L++) for (size_t b = 0; b < (L == 1 ? 4u : 2u); b++) { std::vector<std::string> v = ln; v[L] = bigtxt(BITS[b], (unsigned)(L * 7 + b)); emit(v); }
          { std::vector<std::string> v = ln; for (size_t L = 0; L < v.size() && L < 4; L++) v[L] = bigtxt(2048 + (unsigned)L, (unsigned)L); emit(v); }
        } }
      n += m;
    }
    for (size_t gi = 0; gi < g_group.size(); gi++) { char name[512]; snprintf(name, sizeof name, "%s/empty-%s", d, TNAME[g_group[gi]]); FILE *o = fopen(name, "wb"); if (o) { fputc((int)gi, o); fclose(o); } }
    fprintf(stdout, "wrote %zu seeds\n", n); fflush(stdout); _exit(0); }
  atexit(dump_stats);
  return 0;
}
extern "C" int LLVMFuzzerTestOneInput(const uint8_t *data, size_t size) {
  if (size < 1) return 0; int t = g_group[data[0] % g_group.size()];
  PGP::MemoryGuardReset(); rng_seed(4711); rng_script_clear(); set_vnow(0); stdexc = false;
  W->execs[t]++;
  std::string in((const char *)data + 1, size - 1);
  try { run_target(t, in); }
  catch (std::exception &) {}
  catch (...) { fprintf(stderr, "VF-NONSTD-EXCEPTION in target %s\nSUMMARY: VfOracle: non-standard-exception in %s\n", TNAME[t], TNAME[t]); fflush(stderr); __builtin_trap(); }
  return 0;
}
