// C06 — parameter validation accepts exactly well-formed groups.
//
// Sub-properties
//   generated_groups_accepted   every class: parameter sets produced by the library's own generators
//                               (pooled on disk + a few fresh generations per run) => CheckGroup() == true
//   corrupted_groups_refused    fault enumeration (class, constructor, field, corruption): ONE defect is put into
//                               a valid set AT CONSTRUCTION (stream text / mpz arguments), CheckGroup() must agree
//                               with the GMP reference predicate below (refuse <=> the reference refuses)
//   element_checks_exhaustive   tiny harness-built groups (p < 4000): CheckElement(a) for ALL a in -2..p+2
//   element_checks_sampled      pooled real groups: members / non-members / out-of-range values
//
// Oracle: ref_level() — written from the property statement with GMP only (sizes, primality, p = kq+1 resp.
// p = 2q+1 and p = 7 mod 8, gcd(k,q) = 1, 1 < x < p-1 and x^q = 1 for every generator, distinctness,
// canonical g = the g the library's generating constructor derived for this very (p,q)).  It never calls a
// CheckGroup/CheckElement and not even the library's hash.
//
// Excluded by construction (owned by C12, counted): p == 0 (table precomputation divides by zero before any
// check), |p| < exponent size for the QR stream constructor (NULL dereference), q == 0 for the
// PedersenTrapdoorCommitmentScheme mpz constructor (random number modulo 0), and the three inputs that make the
// PedersenCommitmentScheme mpz constructor (also inside GrothVSSHE) loop forever while it samples generators
// (k == 0, p in {1,2}).
//
// C06_TREAT_AS_KNOWN=<prefix>[,<prefix>...]   (triage / mutant runs) signatures starting with a prefix are
// counted instead of reported.  A known_findings.json key "checkgroup/<class>/<field>/*/accepted" covers every
// corruption of that field.
#include "fix.hh"
#include "mutate.hh"
#include <memory>
#include <iostream>
using namespace vf;
const char *vf::PROPERTY = "C06";
// thousands of short-lived 2048-entry exponentiation tables per case: keep ASan's quarantine small (page-fault bound otherwise)
extern "C" const char *__asan_default_options() { return "quarantine_size_mb=16"; }

// ---------------------------------------------------------------------------------------------- helpers
static std::vector<std::string> g_env_known;
static bool g_run_excluded = false; // C06_RUN_EXCLUDED=1: diagnostic only, feeds the excluded inputs to the constructors (crashes / hangs)
void vf::harness_init() {
  g_run_excluded = getenv("C06_RUN_EXCLUDED") != nullptr;
  const char *e = getenv("C06_TREAT_AS_KNOWN");
  if (e) { std::string s(e); size_t i = 0; while (i <= s.size()) { size_t j = s.find(',', i); if (j == std::string::npos) j = s.size(); if (j > i) g_env_known.push_back(s.substr(i, j - i)); i = j + 1; } }
}
static void report(Ctx &ctx, const std::string &sig, const std::string &msg) {
  for (auto &p : g_env_known) if (sig.compare(0, p.size(), p) == 0) { ctx.count("env_treated_as_known"); ctx.label("env-known:" + sig); return; }
  if (ctx.known && !ctx.known->count(sig)) { // wildcard over the corruption component: a/b/c/*/e
    std::vector<size_t> sl; for (size_t i = 0; i < sig.size(); i++) if (sig[i] == '/') sl.push_back(i);
    if (sl.size() == 4) { std::string w = sig.substr(0, sl[2] + 1) + "*" + sig.substr(sl[3]); if (ctx.known->count(w)) { ctx.fail(w, msg); return; } }
  }
  ctx.fail(sig, msg);
}

// deterministic local generator seeded from the choice sequence (prime searches would otherwise consume
// thousands of draws); a case stays a pure function of its choice sequence
struct Prng {
  uint64_t s, n = 0;
  explicit Prng(uint64_t seed) : s(seed) {}
  uint64_t next() { return mix64(s ^ mix64(++n)); }
  Z bits(unsigned b) { Z r = 0; for (unsigned i = 0; i < (b + 63) / 64; i++) { r <<= 64; r += Z((unsigned long)next()); } if (b % 64) r >>= (64 - b % 64); return r; }
  Z exact(unsigned b, unsigned top = 1) { Z r = bits(b); mpz_setbit(r.get_mpz_t(), b - 1); if (top >= 2 && b >= 2) mpz_setbit(r.get_mpz_t(), b - 2); return r; }
  Z below(const Z &m) { if (m <= 1) return 0; return bits(mpz_sizeinbase(m.get_mpz_t(), 2) + 64) % m; }
};
static unsigned long nbits(const Z &z) { return mpz_sizeinbase(z.get_mpz_t(), 2); }
static Z next_prime(const Z &x) { Z r; mpz_nextprime(r.get_mpz_t(), x.get_mpz_t()); return r; }
static Z prime_exact(Prng &r, unsigned b, unsigned top = 1) { for (;;) { Z x = next_prime(r.exact(b, top)); if (nbits(x) == b) return x; } }
static Z next_odd_composite(Z x) { x += (x % 2 == 0) ? 1 : 2; while (zprime(x)) x += 2; return x; }
// p = m*kk + 1 prime with exactly `b` bits, kk even, gcd(kk, m) = 1
static bool find_pk(Prng &r, const Z &m, unsigned b, Z &p, Z &kk) {
  if (m < 2 || nbits(m) + 2 > b) return false;
  for (int t = 0; t < 200000; t++) {
    kk = r.exact(b) / m; if (kk < 2) continue; if (kk % 2 != 0) kk += 1;
    p = m * kk + 1; if (nbits(p) != b) continue; if (gcd(kk, m) != 1) continue;
    if (zprime(p)) return true;
  }
  return false;
}
struct Quiet { std::streambuf *old; std::ostringstream sink; Quiet() { old = std::cerr.rdbuf(sink.rdbuf()); } ~Quiet() { std::cerr.rdbuf(old); } };

// ---------------------------------------------------------------------------------------------- values
struct GV { Z p, q, k, g, h; std::vector<Z> gs; };
struct Cfg { unsigned long F, G, aux; }; // aux: exponent size (QR) / ell_e (SKC, VSSHE)
struct Base { GV v; Cfg cfg; bool canon = false, qr = false; std::string desc; };
static const size_t NGS = 3;             // generators g_1..g_3 of the commitment scheme
static const size_t DN = 3, DT = 1, DI = 0; // n, t, i of the threshold classes

// all generators of a level: y^e mod p, non-trivial, pairwise distinct
static bool rebuild_gens(Prng &r, GV &v, const Z &e, size_t ngs) {
  std::vector<Z> got; if (v.p < 7) return false;
  for (int t = 0; t < 4000 && got.size() < ngs + 2; t++) {
    Z x = zpowm(r.below(v.p - 3) + 2, e, v.p); if (x <= 1 || x >= v.p - 1) continue;
    bool dup = false; for (auto &y : got) if (y == x) dup = true; if (!dup) got.push_back(x);
  }
  if (got.size() < ngs + 2) return false;
  v.g = got[0]; v.h = got[1]; v.gs.assign(got.begin() + 2, got.end()); return true;
}

static const unsigned long SCH[][2] = {{384, 128}, {512, 160}, {1024, 160}};
static const unsigned long QRS[][2] = {{256, 128}, {384, 160}, {1024, 256}};
static void parse_vtmf(const std::string &text, GV &v) { auto l = split_lines(text); if (l.size() < 4) throw std::logic_error("harness: short group text"); v.p = zparse62(l[0]); v.q = zparse62(l[1]); v.g = zparse62(l[2]); v.k = zparse62(l[3]); }
// a library-generated group from the pool plus honest further generators h = g^x, g_i = g^x_i
static Base pool_base(Ctx &ctx, Prng &r, bool qr, int canon /* -1 any */) {
  Base b; b.qr = qr; size_t si = ctx.c.weighted({6, 4, (unsigned)(ctx.thorough ? 1 : 0)}); unsigned idx = (unsigned)ctx.c.index(si == 2 ? 1 : 3);
  b.canon = qr ? true : canon == 1 ? true : canon == 0 ? false : ctx.c.coin();
  int kind = qr ? G_QR : b.canon ? G_SCHNORR_CANON : G_SCHNORR;
  unsigned long F = qr ? QRS[si][0] : SCH[si][0], Gs = qr ? QRS[si][1] : SCH[si][1];
  parse_vtmf(vtmf_group_text(kind, F, Gs, idx), b.v);
  b.cfg.F = F; b.cfg.G = qr ? F - 1 : Gs; b.cfg.aux = qr ? Gs : (Gs >= 160 ? 80 : Gs / 2);
  std::vector<Z> got;
  while (got.size() < NGS + 1) { Z x = zpowm(b.v.g, r.below(b.v.q - 3) + 3, b.v.p); bool dup = (x == b.v.g || x <= 1); for (auto &y : got) if (y == x) dup = true; if (!dup) got.push_back(x); }
  b.v.h = got[0]; b.v.gs.assign(got.begin() + 1, got.end());
  std::ostringstream d; d << group_kind_name(kind) << "(" << F << "/" << Gs << ")#" << idx; b.desc = d.str();
  return b;
}

// ---------------------------------------------------------------------------------------------- classes
enum { C_VTMF, C_QR, C_COM, C_SKC, C_VSSHE, C_VRHE, C_PVSS, C_GDKG, C_GNTS, C_CRVSS, C_CZVSS, C_CDKG, C_CDSS, C_JLRVSS, C_EDCF, C_EOTP, C_TRAP, C_PUBROT, C_COUNT };
struct LevelDef { const char *prefix; bool k, g, h, gs, ne; };
struct ClsDef { int id; const char *name; bool qr, has_stream, has_mpz, has_gen, canon_flag, canon_always, has_cg, has_ce; std::vector<LevelDef> lv; };
static const std::vector<ClsDef> &classes() {
  static const std::vector<ClsDef> c = {
    {C_VTMF, "BarnettSmartVTMF_dlog", false, true, false, true, true, false, true, true, {{"", true, true, false, false, false}}},
    {C_QR, "BarnettSmartVTMF_dlog_GroupQR", true, true, false, true, false, false, true, true, {{"", true, true, false, false, false}}},
    {C_COM, "PedersenCommitmentScheme", false, true, true, true, false, false, true, false, {{"", true, false, true, true, true}}},
    {C_SKC, "GrothSKC", false, true, false, true, false, false, true, false, {{"", true, false, true, true, true}}},
    {C_VSSHE, "GrothVSSHE", false, true, true, false, false, false, true, false, {{"", false, true, true, false, false}, {"com.", true, false, true, true, true}}},
    {C_VRHE, "HooghSchoenmakersSkoricVillegasVRHE", false, true, true, true, false, false, true, true, {{"", false, true, true, false, true}}},
    {C_PVSS, "PedersenVSS", false, true, true, false, false, true, true, true, {{"", false, true, true, false, true}}},
    {C_GDKG, "GennaroJareckiKrawczykRabinDKG", false, true, true, false, true, false, true, true, {{"", false, true, true, false, true}}},
    {C_GNTS, "GennaroJareckiKrawczykRabinNTS", false, false, true, false, true, false, true, false, {{"", false, true, true, false, true}}},
    {C_CRVSS, "CanettiGennaroJareckiKrawczykRabinRVSS", false, true, true, false, true, false, true, true, {{"", false, true, true, false, true}}},
    {C_CZVSS, "CanettiGennaroJareckiKrawczykRabinZVSS", false, true, true, false, true, false, true, true, {{"", false, true, true, false, true}}},
    {C_CDKG, "CanettiGennaroJareckiKrawczykRabinDKG", false, true, true, false, true, false, true, true, {{"", false, true, true, false, true}, {"x_rvss.", false, true, true, false, true}}},
    {C_CDSS, "CanettiGennaroJareckiKrawczykRabinDSS", false, true, true, false, true, false, true, true, {{"", false, true, true, false, true}, {"dkg.", false, true, true, false, true}, {"dkg.x_rvss.", false, true, true, false, true}}},
    {C_JLRVSS, "JareckiLysyanskayaRVSS", false, false, true, false, false, false, true, true, {{"", false, true, true, false, true}}},
    {C_EDCF, "JareckiLysyanskayaEDCF", false, false, true, false, false, false, true, false, {{"", false, true, true, false, true}}},
    {C_EOTP, "NaorPinkasEOTP", false, true, true, true, false, false, true, true, {{"", false, true, false, false, false}}},
    {C_TRAP, "PedersenTrapdoorCommitmentScheme", false, true, true, true, false, false, true, false, {{"", true, true, true, false, true}}},
    {C_PUBROT, "HooghSchoenmakersSkoricVillegasPUBROTZK", false, false, true, false, false, false, false, true, {{"", false, true, true, false, false}}},
  };
  return c;
}

struct Obj { virtual ~Obj() {} virtual bool cg() = 0; virtual bool ce(mpz_srcptr) { return false; } };
template <class T> struct OG : Obj { std::unique_ptr<T> o; explicit OG(T *p) : o(p) {} bool cg() override { return o->CheckGroup(); } };
template <class T> struct OGE : OG<T> { explicit OGE(T *p) : OG<T>(p) {} bool ce(mpz_srcptr a) override { return this->o->CheckElement(a); } };
template <class T> struct OE : Obj { std::unique_ptr<T> o; explicit OE(T *p) : o(p) {} bool cg() override { return false; } bool ce(mpz_srcptr a) override { return o->CheckElement(a); } };

static std::string L4(const GV &v) { return z62(v.p) + "\n" + z62(v.q) + "\n" + z62(v.g) + "\n" + z62(v.h) + "\n"; }
static std::string com_text(const GV &v) { std::string s = z62(v.p) + "\n" + z62(v.q) + "\n" + z62(v.k) + "\n" + z62(v.h) + "\n"; for (auto &x : v.gs) s += z62(x) + "\n"; return s; }
// replace the (p,q,g,h) block of every level in the state text of an instance built from `valid`
static std::string patch_levels(const std::string &tmpl, const GV &valid, const std::vector<GV> &L) {
  auto lines = split_lines(tmpl); std::string P = z62(valid.p), Q = z62(valid.q), G = z62(valid.g), H = z62(valid.h); size_t li = 0;
  for (size_t i = 0; i + 3 < lines.size() && li < L.size(); i++) if (lines[i] == P && lines[i + 1] == Q && lines[i + 2] == G && lines[i + 3] == H) {
    lines[i] = z62(L[li].p); lines[i + 1] = z62(L[li].q); lines[i + 2] = z62(L[li].g); lines[i + 3] = z62(L[li].h); li++; i += 3; }
  if (li != L.size()) throw std::logic_error("harness: state text has " + std::to_string(li) + " parameter blocks, expected " + std::to_string(L.size()));
  return join_lines(lines);
}
template <class T> static std::string state_of(T *o) { std::unique_ptr<T> h(o); std::ostringstream s; h->PublishState(s); return s.str(); }
#define MP(x) (x).get_mpz_t()

// Build an instance of class `cls` from the level values L (L[0] outermost) through the stream or the mpz
// constructor.  `valid` is the uncorrupted set (needed to obtain the state text of the threshold classes).
static Obj *construct(int cls, bool stream, const std::vector<GV> &L, const GV &valid, const Cfg &c, bool canon) {
  const GV &v = L[0]; Z vp = valid.p, vq = valid.q, vg = valid.g, vh = valid.h; // non-const copies for MP()
  Z p = v.p, q = v.q, k = v.k, g = v.g, h = v.h;
  switch (cls) {
    case C_VTMF: { std::istringstream in(z62(p) + "\n" + z62(q) + "\n" + z62(g) + "\n" + z62(k) + "\n"); return new OGE<BarnettSmartVTMF_dlog>(new BarnettSmartVTMF_dlog(in, c.F, c.G, canon)); }
    case C_QR: { std::istringstream in(z62(p) + "\n" + z62(q) + "\n" + z62(g) + "\n" + z62(k) + "\n"); return new OGE<BarnettSmartVTMF_dlog_GroupQR>(new BarnettSmartVTMF_dlog_GroupQR(in, c.F, c.aux)); }
    case C_COM: if (stream) { std::istringstream in(com_text(v)); return new OG<PedersenCommitmentScheme>(new PedersenCommitmentScheme(NGS, in, c.F, c.G)); }
      return new OG<PedersenCommitmentScheme>(new PedersenCommitmentScheme(NGS, MP(p), MP(q), MP(k), MP(h), c.F, c.G));
    case C_SKC: { std::istringstream in(com_text(v)); return new OG<GrothSKC>(new GrothSKC(NGS, in, c.aux, c.F, c.G)); }
    case C_VSSHE: if (stream) { std::istringstream in(L4(v) + com_text(L[1])); return new OG<GrothVSSHE>(new GrothVSSHE(NGS, in, c.aux, c.F, c.G)); }
      return new OG<GrothVSSHE>(new GrothVSSHE(NGS, MP(p), MP(q), MP(k), MP(g), MP(h), c.aux, c.F, c.G));
    case C_VRHE: if (stream) { std::istringstream in(L4(v)); return new OGE<HooghSchoenmakersSkoricVillegasVRHE>(new HooghSchoenmakersSkoricVillegasVRHE(in, c.F, c.G)); }
      return new OGE<HooghSchoenmakersSkoricVillegasVRHE>(new HooghSchoenmakersSkoricVillegasVRHE(MP(p), MP(q), MP(g), MP(h), c.F, c.G));
    case C_PUBROT: return new OE<HooghSchoenmakersSkoricVillegasPUBROTZK>(new HooghSchoenmakersSkoricVillegasPUBROTZK(MP(p), MP(q), MP(g), MP(h)));
    case C_PVSS: if (stream) { std::istringstream in(patch_levels(state_of(new PedersenVSS(DN, DT, DI, MP(vp), MP(vq), MP(vg), MP(vh), c.F, c.G, false, "c06")), valid, L)); return new OGE<PedersenVSS>(new PedersenVSS(in, c.F, c.G, false, "c06")); }
      return new OGE<PedersenVSS>(new PedersenVSS(DN, DT, DI, MP(p), MP(q), MP(g), MP(h), c.F, c.G, false, "c06"));
    case C_GDKG: if (stream) { std::istringstream in(patch_levels(state_of(new GennaroJareckiKrawczykRabinDKG(DN, DT, DI, MP(vp), MP(vq), MP(vg), MP(vh), c.F, c.G, canon, false, "c06")), valid, L)); return new OGE<GennaroJareckiKrawczykRabinDKG>(new GennaroJareckiKrawczykRabinDKG(in, c.F, c.G, canon, false, "c06")); }
      return new OGE<GennaroJareckiKrawczykRabinDKG>(new GennaroJareckiKrawczykRabinDKG(DN, DT, DI, MP(p), MP(q), MP(g), MP(h), c.F, c.G, canon, false, "c06"));
    case C_GNTS: return new OG<GennaroJareckiKrawczykRabinNTS>(new GennaroJareckiKrawczykRabinNTS(DN, DT, DI, MP(p), MP(q), MP(g), MP(h), c.F, c.G, canon, false));
    case C_CRVSS: if (stream) { std::istringstream in(patch_levels(state_of(new CanettiGennaroJareckiKrawczykRabinRVSS(DN, DT, DI, DT, MP(vp), MP(vq), MP(vg), MP(vh), c.F, c.G, canon, false, "c06")), valid, L)); return new OGE<CanettiGennaroJareckiKrawczykRabinRVSS>(new CanettiGennaroJareckiKrawczykRabinRVSS(in, c.F, c.G, canon, false, "c06")); }
      return new OGE<CanettiGennaroJareckiKrawczykRabinRVSS>(new CanettiGennaroJareckiKrawczykRabinRVSS(DN, DT, DI, DT, MP(p), MP(q), MP(g), MP(h), c.F, c.G, canon, false, "c06"));
    case C_CZVSS: if (stream) { std::istringstream in(patch_levels(state_of(new CanettiGennaroJareckiKrawczykRabinZVSS(DN, DT, DI, DT, MP(vp), MP(vq), MP(vg), MP(vh), c.F, c.G, canon, false, "c06")), valid, L)); return new OGE<CanettiGennaroJareckiKrawczykRabinZVSS>(new CanettiGennaroJareckiKrawczykRabinZVSS(in, c.F, c.G, canon, false, "c06")); }
      return new OGE<CanettiGennaroJareckiKrawczykRabinZVSS>(new CanettiGennaroJareckiKrawczykRabinZVSS(DN, DT, DI, DT, MP(p), MP(q), MP(g), MP(h), c.F, c.G, canon, false, "c06"));
    case C_CDKG: if (stream) { std::istringstream in(patch_levels(state_of(new CanettiGennaroJareckiKrawczykRabinDKG(DN, DT, DI, MP(vp), MP(vq), MP(vg), MP(vh), c.F, c.G, canon, false, "c06")), valid, L)); return new OGE<CanettiGennaroJareckiKrawczykRabinDKG>(new CanettiGennaroJareckiKrawczykRabinDKG(in, c.F, c.G, canon, false, "c06")); }
      return new OGE<CanettiGennaroJareckiKrawczykRabinDKG>(new CanettiGennaroJareckiKrawczykRabinDKG(DN, DT, DI, MP(p), MP(q), MP(g), MP(h), c.F, c.G, canon, false, "c06"));
    case C_CDSS: if (stream) { std::istringstream in(patch_levels(state_of(new CanettiGennaroJareckiKrawczykRabinDSS(DN, DT, DI, MP(vp), MP(vq), MP(vg), MP(vh), c.F, c.G, canon, false)), valid, L)); return new OGE<CanettiGennaroJareckiKrawczykRabinDSS>(new CanettiGennaroJareckiKrawczykRabinDSS(in, c.F, c.G, canon, false)); }
      return new OGE<CanettiGennaroJareckiKrawczykRabinDSS>(new CanettiGennaroJareckiKrawczykRabinDSS(DN, DT, DI, MP(p), MP(q), MP(g), MP(h), c.F, c.G, canon, false));
    case C_JLRVSS: return new OGE<JareckiLysyanskayaRVSS>(new JareckiLysyanskayaRVSS(DN, DT, MP(p), MP(q), MP(g), MP(h), c.F, c.G));
    case C_EDCF: return new OG<JareckiLysyanskayaEDCF>(new JareckiLysyanskayaEDCF(DN, DT, MP(p), MP(q), MP(g), MP(h), c.F, c.G));
    case C_EOTP: if (stream) { std::istringstream in(z62(p) + "\n" + z62(q) + "\n" + z62(g) + "\n"); return new OGE<NaorPinkasEOTP>(new NaorPinkasEOTP(in, c.F, c.G)); }
      return new OGE<NaorPinkasEOTP>(new NaorPinkasEOTP(MP(p), MP(q), MP(g), c.F, c.G));
    case C_TRAP: if (stream) { std::istringstream in(z62(p) + "\n" + z62(q) + "\n" + z62(k) + "\n" + z62(g) + "\n" + z62(h) + "\n"); return new OG<PedersenTrapdoorCommitmentScheme>(new PedersenTrapdoorCommitmentScheme(in, c.F, c.G)); }
      return new OG<PedersenTrapdoorCommitmentScheme>(new PedersenTrapdoorCommitmentScheme(MP(p), MP(q), MP(k), MP(g), c.F, c.G));
  }
  throw std::logic_error("harness: unknown class");
}

// ---------------------------------------------------------------------------------------------- reference
struct Rule { bool explicit_k, has_g, has_h, has_gs, ne, canonical, qr; };
// true = the property statement lets this level pass; `why` names the first defect
static bool ref_level(const GV &v, const Rule &r, const Cfg &c, const Z &canon_g, std::string &why) {
  if (nbits(v.p) < c.F || v.p < 2) { why = "p shorter than configured"; return false; }
  if (nbits(v.q) < c.G || v.q < 2) { why = "q shorter than configured"; return false; }
  if (!zprime(v.p)) { why = "p composite"; return false; }
  if (!zprime(v.q)) { why = "q composite"; return false; }
  Z k;
  if (r.qr) { if (v.p != 2 * v.q + 1) { why = "p != 2q+1"; return false; } if (v.p % 8 != 7) { why = "p != 7 mod 8"; return false; } k = 2; }
  else {
    if (r.explicit_k) { if (v.p != v.k * v.q + 1) { why = "p != kq+1"; return false; } k = v.k; }
    else { if ((v.p - 1) % v.q != 0) { why = "q does not divide p-1"; return false; } k = (v.p - 1) / v.q; }
    if (gcd(k, v.q) != 1) { why = "gcd(k,q) > 1"; return false; }
  }
  std::vector<std::pair<std::string, Z> > gens;
  if (r.has_g && !r.qr) gens.push_back({"g", v.g}); // the QR constructor derives g itself and ignores the presented value
  if (r.has_h) gens.push_back({"h", v.h});
  if (r.has_gs) for (size_t i = 0; i < v.gs.size(); i++) gens.push_back({"g" + std::to_string(i + 1), v.gs[i]});
  for (auto &e : gens) {
    if (e.second <= 1 || e.second >= v.p - 1) { why = e.first + " trivial or out of range"; return false; }
    if (zpowm(e.second, v.q, v.p) != 1) { why = e.first + " not of order q"; return false; }
  }
  if (r.ne) for (size_t i = 0; i < gens.size(); i++) for (size_t j = i + 1; j < gens.size(); j++) if (gens[i].second == gens[j].second) { why = gens[i].first + " == " + gens[j].first; return false; }
  if (r.canonical && !r.qr && v.g != canon_g) { why = "g is not the verifiably derived generator"; return false; }
  return true;
}
// the levels an instance holds and the rule of each (mpz constructors share level 0 among all nested objects)
static bool ref_class(const ClsDef &cd, bool stream, const std::vector<GV> &L, const Cfg &c, bool canon, const Z &canon_g, std::string &why) {
  for (size_t li = 0; li < cd.lv.size(); li++) {
    const LevelDef &d = cd.lv[li]; const GV &v = stream ? L[li] : L[0];
    Rule r{d.k, d.g, d.h, d.gs, d.ne, (cd.canon_always || (cd.canon_flag && canon)), cd.qr};
    if (!stream) { if (cd.id == C_COM || (cd.id == C_VSSHE && li == 1)) r.has_gs = false; if (cd.id == C_TRAP) r.has_h = false; } // generated inside the constructor
    std::string w; if (!ref_level(v, r, c, canon_g, w)) { why = std::string(d.prefix) + w; return false; }
  }
  if (cd.id == C_VSSHE && nbits(L[0].q) < 2 * c.aux) { why = "q shorter than 2*ell_e"; return false; }
  return true;
}
static std::vector<GV> levels_of(const ClsDef &cd, bool stream, const GV &v) { return std::vector<GV>(stream ? cd.lv.size() : 1, v); }

// ---------------------------------------------------------------------------------------------- catalogue
static const char *P_CORR[] = {"zero", "one", "two", "plus-1", "next-odd-composite", "two-primes-1modq", "composite-consistent", "short-consistent", "cofactor-shares-q-consistent", "prime-other", "neg"};
static const char *PQR_CORR[] = {"zero", "one", "two", "plus-1", "next-odd-composite", "composite-consistent", "short-consistent", "3mod8-consistent", "prime-other", "neg"};
static const char *Q_CORR[] = {"zero", "one", "two", "plus-1", "next-odd-composite", "two-primes", "composite-consistent", "short-consistent", "prime-other", "neg"};
static const char *QQR_CORR[] = {"zero", "one", "two", "plus-1", "next-odd-composite", "composite-consistent", "prime-other", "neg"};
static const char *K_CORR[] = {"zero", "one", "two", "plus-1", "minus-1", "shares-factor-consistent", "neg"};
static const char *KQR_CORR[] = {"zero", "one", "plus-1"};
static const char *G_CORR[] = {"zero", "one", "two", "p-1", "p", "p+1", "plus-p", "neg", "p-minus", "order-k-element", "minus-other-member", "equals-other", "squared", "other-member"};
static const char *GQR_CORR[] = {"zero", "one"};
static const char *CFG_CORR[] = {"plus-1", "minus-1"};
struct Job { int cls; bool stream; int level; std::string field, corr; };
template <size_t N> static void add_jobs(std::vector<Job> &v, int cls, bool stream, int level, const std::string &field, const char *(&corr)[N]) { for (size_t i = 0; i < N; i++) v.push_back(Job{cls, stream, level, field, corr[i]}); }
static const std::vector<Job> &jobs() {
  static std::vector<Job> v;
  if (!v.empty()) return v;
  std::vector<Job> all;
  for (auto &cd : classes()) {
    if (!cd.has_cg) continue;
    for (int s = 0; s < 2; s++) {
      bool stream = s == 0; if (stream ? !cd.has_stream : !cd.has_mpz) continue;
      for (size_t li = 0; li < (stream ? cd.lv.size() : 1); li++) {
        const LevelDef &d = cd.lv[li]; int lv = (int)li;
        bool fk = d.k || (!stream && cd.id == C_VSSHE), fg = d.g, fh = d.h && !(!stream && cd.id == C_TRAP), fgs = d.gs && stream;
        if (cd.qr) { add_jobs(all, cd.id, stream, lv, "p", PQR_CORR); add_jobs(all, cd.id, stream, lv, "q", QQR_CORR); add_jobs(all, cd.id, stream, lv, "k", KQR_CORR); add_jobs(all, cd.id, stream, lv, "g", GQR_CORR); continue; }
        add_jobs(all, cd.id, stream, lv, "p", P_CORR); add_jobs(all, cd.id, stream, lv, "q", Q_CORR);
        if (fk) add_jobs(all, cd.id, stream, lv, "k", K_CORR);
        if (fg) add_jobs(all, cd.id, stream, lv, "g", G_CORR);
        if (fh) add_jobs(all, cd.id, stream, lv, "h", G_CORR);
        if (fgs) { add_jobs(all, cd.id, stream, lv, "g1", G_CORR); add_jobs(all, cd.id, stream, lv, "g3", G_CORR); }
      }
      add_jobs(all, cd.id, stream, 0, "cfg.fieldsize", CFG_CORR);
      if (!cd.qr) add_jobs(all, cd.id, stream, 0, "cfg.subgroupsize", CFG_CORR);
      if (cd.id == C_VSSHE) add_jobs(all, cd.id, stream, 0, "cfg.ell_e", CFG_CORR);
    }
  }
  // "equals-other" needs a partner generator in the same level
  for (auto &j : all) {
    const ClsDef &cd = classes()[j.cls]; const LevelDef &d = cd.lv[j.level];
    if (j.corr == "equals-other") { bool partner = (j.field == "g" && d.h && !(cd.id == C_TRAP && !j.stream)) || (j.field == "h" && (d.g || (d.gs && j.stream))) || j.field == "g1" || j.field == "g3"; if (!partner) continue; }
    v.push_back(j);
  }
  return v;
}
static const long N_JOBS_QUICK = 3400; // >= 2 * jobs().size() (checked at index 0): every catalogue entry twice, the second time with the canonical-g flag flipped where a class has one

enum St { APPLIED, NA, EXCLUDED };
#define EXCL(name) do { ctx.count(name); if (!g_run_excluded) return EXCLUDED; } while (0)
static Z &gen_ref(GV &v, const std::string &f) { if (f == "g") return v.g; if (f == "h") return v.h; if (f == "g1") return v.gs.at(0); if (f == "g3") return v.gs.at(2); throw std::logic_error("harness: no such generator " + f); }
// harness-built safe prime p = 2q+1 with p = 3 mod 8 (everything right except the residue class), cached on disk
static void safeprime_3mod8(unsigned long F, unsigned idx, Z &p, Z &q) {
  std::string t = cached_fixture("c06-safeprime3mod8-" + std::to_string(F) + "-" + std::to_string(idx), [&]() {
    Prng r(hash_str("c06-3mod8") ^ mix64(F * 1000 + idx)); Z qq, pp;
    for (;;) { qq = r.exact((unsigned)F - 1); qq -= qq % 4; qq += 1; if (nbits(qq) != F - 1) continue; // q = 1 mod 4 => p = 2q+1 = 3 mod 8
      if (mpz_probab_prime_p(qq.get_mpz_t(), 2) == 0) continue; pp = 2 * qq + 1; if (mpz_probab_prime_p(pp.get_mpz_t(), 2) == 0) continue; if (zprime(qq) && zprime(pp)) break; }
    return z62(pp) + "\n" + z62(qq) + "\n"; });
  auto l = split_lines(t); p = zparse62(l[0]); q = zparse62(l[1]);
}

// put ONE defect into level `v` (other fields are only touched to keep the set otherwise consistent)
static St corrupt(Ctx &ctx, Prng &r, const ClsDef &cd, const LevelDef &d, bool stream, GV &v, Cfg &c, const Base &b, const std::string &f, const std::string &m) {
  const unsigned long F = b.cfg.F, G = b.cfg.G; // the sizes the pooled set really has
  if (f == "cfg.fieldsize") { c.F = m == "plus-1" ? nbits(v.p) + 1 : c.F - 1; return APPLIED; }
  if (f == "cfg.subgroupsize") { c.G = m == "plus-1" ? nbits(v.q) + 1 : c.G - 1; return APPLIED; }
  if (f == "cfg.ell_e") { c.aux = m == "plus-1" ? nbits(v.q) / 2 + 1 : c.aux - 1; return APPLIED; }
  if (f == "p") {
    if (m == "zero") EXCL("excluded_constructor_crash_p0");
    if (cd.qr && (m == "one" || m == "two")) EXCL("excluded_constructor_crash_qr_p_below_exponent_size");
    if (!stream && (cd.id == C_COM || cd.id == C_VSSHE) && (m == "one" || m == "two")) EXCL("excluded_constructor_hang_com_mpz_tiny_p");
    if (m == "zero") v.p = 0; else if (m == "one") v.p = 1; else if (m == "two") v.p = 2; else if (m == "plus-1") v.p += 1; else if (m == "neg") v.p = -v.p;
    else if (m == "next-odd-composite") v.p = next_odd_composite(v.p);
    else if (m == "prime-other") { Z x; do x = prime_exact(r, (unsigned)F); while (x == v.p); v.p = x; }
    else if (m == "two-primes-1modq") { // composite of the configured size with p = 1 mod q; everything else untouched
      for (int t = 0;; t++) { if (t > 200) return NA; Z r1 = prime_exact(r, (unsigned)F / 2, 2), inv = zinv(r1, v.q); if (inv == 0) continue;
        Z s = r.exact((unsigned)(F - F / 2), 2); s = s - s % v.q + inv; int u = 0; while (!zprime(s) && u < 5000) { s += v.q; u++; } if (!zprime(s)) continue;
        Z x = r1 * s; if (nbits(x) != F) continue; v.p = x; break; } }
    else if (m == "composite-consistent") {
      if (cd.qr) { for (;;) { Z qq = r.exact((unsigned)F - 1); qq -= qq % 4; qq += 3; if (nbits(qq) != F - 1 || !zprime(qq)) continue; Z pp = 2 * qq + 1; if (zprime(pp)) continue; v.q = qq; v.p = pp; break; } }
      else { // p' = (aq+1)(bq+1): right size, p' = k'q+1, gcd(k',q) = 1, generators of order q modulo p'; only defect: p' is composite
        if (F / 2 < G + 8) return NA; Z r1, a, s, bb, kk;
        for (int t = 0;; t++) { if (t > 400) return NA; if (!find_pk(r, v.q, (unsigned)F / 2, r1, a) || !find_pk(r, v.q, (unsigned)(F - F / 2), s, bb)) return NA; if (r1 == s) continue;
          Z x = r1 * s; if (nbits(x) != F) continue; kk = (x - 1) / v.q; if (gcd(kk, v.q) != 1) continue; v.p = x; v.k = kk; break; }
        if (!rebuild_gens(r, v, lcm(a, bb), NGS)) return NA; } } // y^lcm(a,b) has order dividing q modulo both prime factors
    else if (m == "short-consistent") {
      if (cd.qr) { GV o; parse_vtmf(vtmf_group_text(G_QR, F - 1, b.cfg.aux, (unsigned)(r.next() % 2)), o); v.p = o.p; v.q = o.q; }
      else { Z pp, kk; if (!find_pk(r, v.q, (unsigned)F - 1, pp, kk)) return NA; v.p = pp; v.k = kk; if (!rebuild_gens(r, v, kk, NGS)) return NA; } }
    else if (m == "cofactor-shares-q-consistent") { Z pp, k2; if (cd.qr || !find_pk(r, v.q * v.q, (unsigned)F, pp, k2)) return NA; v.p = pp; v.k = k2 * v.q; if (!rebuild_gens(r, v, v.k, NGS)) return NA; } // p = q^2 k'' + 1: gcd(k,q) = q
    else if (m == "3mod8-consistent") safeprime_3mod8(F, (unsigned)(r.next() % 2), v.p, v.q);
    else return NA;
    if (cd.qr && nbits(v.p) < c.aux) EXCL("excluded_constructor_crash_qr_p_below_exponent_size");
    return APPLIED;
  }
  if (f == "q") {
    if (m == "zero" && !stream && cd.id == C_TRAP) EXCL("excluded_constructor_crash_trapdoor_mpz_q0");
    if (m == "zero") v.q = 0; else if (m == "one") v.q = 1; else if (m == "two") v.q = 2; else if (m == "plus-1") v.q += 1; else if (m == "neg") v.q = -v.q;
    else if (m == "next-odd-composite") v.q = next_odd_composite(v.q);
    else if (m == "prime-other") { Z x; do x = prime_exact(r, (unsigned)nbits(v.q)); while (x == v.q); v.q = x; }
    else if (m == "two-primes") { Z x; do x = prime_exact(r, (unsigned)G / 2, 2) * prime_exact(r, (unsigned)(G - G / 2), 2); while (nbits(x) != G); v.q = x; }
    else if (m == "composite-consistent") {
      if (cd.qr) { for (;;) { Z qq = r.exact((unsigned)F - 1); qq -= qq % 4; qq += 3; if (nbits(qq) != F - 1 || zprime(qq)) continue; Z pp = 2 * qq + 1; if (!zprime(pp)) continue; v.q = qq; v.p = pp; break; } }
      else { Z qq, pp, kk; do qq = prime_exact(r, (unsigned)G / 2, 2) * prime_exact(r, (unsigned)(G - G / 2), 2); while (nbits(qq) != G);
        if (!find_pk(r, qq, (unsigned)F, pp, kk)) return NA; v.q = qq; v.p = pp; v.k = kk; if (!rebuild_gens(r, v, kk, NGS)) return NA; } }
    else if (m == "short-consistent") { Z qq = prime_exact(r, (unsigned)G - 1), pp, kk; if (!find_pk(r, qq, (unsigned)F, pp, kk)) return NA; v.q = qq; v.p = pp; v.k = kk; if (!rebuild_gens(r, v, kk, NGS)) return NA; }
    else return NA;
    return APPLIED;
  }
  if (f == "k") {
    if (m == "zero" && !stream && (cd.id == C_COM || cd.id == C_VSSHE)) EXCL("excluded_constructor_hang_com_mpz_k0");
    if (m == "zero") v.k = 0; else if (m == "one") v.k = 1; else if (m == "two") v.k = 2; else if (m == "plus-1") v.k += 1; else if (m == "minus-1") v.k -= 1; else if (m == "neg") v.k = -v.k;
    else if (m == "shares-factor-consistent") { Z pp, k2; if (!find_pk(r, v.q * v.q, (unsigned)F, pp, k2)) return NA; v.p = pp; v.k = k2 * v.q; if (!rebuild_gens(r, v, v.k, NGS)) return NA; }
    else return NA;
    return APPLIED;
  }
  // generators
  Z &x = gen_ref(v, f); const Z old = x;
  if (m == "zero") x = 0; else if (m == "one") x = 1; else if (m == "two") x = 2; else if (m == "p-1") x = v.p - 1; else if (m == "p") x = v.p; else if (m == "p+1") x = v.p + 1;
  else if (m == "plus-p") x = old + v.p; else if (m == "neg") x = -old; else if (m == "p-minus") x = v.p - old;
  else if (m == "order-k-element") { Z y; int t = 0; do { y = zpowm(r.below(v.p - 3) + 2, v.q, v.p); t++; } while ((y <= 1 || y >= v.p - 1 || zpowm(y, v.q, v.p) == 1) && t < 200); if (t >= 200) return NA; x = y; }
  else if (m == "minus-other-member") x = v.p - zpowm(old, r.below(v.q - 3) + 2, v.p);
  else if (m == "squared") x = (old * old) % v.p;
  else if (m == "other-member") { Z y; do y = zpowm(old, r.below(v.q - 4) + 3, v.p); while (y == v.g || y == v.h || y == v.gs[0] || y == v.gs[1] || y == v.gs[2]); x = y; }
  else if (m == "equals-other") {
    if (f == "g") x = v.h; else if (f == "h") x = d.g ? v.g : v.gs[0]; else if (f == "g1") x = v.gs[2]; else x = (r.next() & 1) ? v.h : v.gs[0]; }
  else return NA;
  return x == old ? NA : APPLIED;
}

// ---------------------------------------------------------------------------------------------- sub 2
static std::string D(const Z &z) { return z.get_str(10); } // decimal; the stream constructors read base 62 (z62)
static std::string show(const GV &v, const LevelDef &d, bool withk) { std::ostringstream o; o << "p=" << D(v.p) << " q=" << D(v.q); if (withk) o << " k=" << D(v.k); if (d.g) o << " g=" << D(v.g); if (d.h) o << " h=" << D(v.h); if (d.gs) for (size_t i = 0; i < v.gs.size(); i++) o << " g" << i + 1 << "=" << D(v.gs[i]); return o.str(); }

VF_ENUM(corrupted_groups_refused, N_JOBS_QUICK, 27200) {
  size_t idx = ctx.c.raw(); const std::vector<Job> &J = jobs();
  if (idx == 0) ctx.count("catalogue_size", (int64_t)J.size());
  if (idx == 0 && 2 * (long)J.size() > N_JOBS_QUICK) ctx.fail("harness/catalogue-larger-than-quick-enumeration", "catalogue has " + std::to_string(J.size()) + " entries");
  const Job &j = J[(idx * 7919) % J.size()]; size_t rep = idx / J.size();
  const ClsDef &cd = classes()[j.cls]; Prng r(ctx.c.seed64()); Quiet quiet;
  Base b = pool_base(ctx, r, cd.qr, cd.canon_always ? 1 : cd.canon_flag ? -1 : -1);
  bool canon = cd.canon_always || cd.qr || (cd.canon_flag && b.canon); // pass the flag the pooled set can satisfy
  if (cd.canon_flag && b.canon && rep % 2 == 1) canon = false;             // canonical set presented to an instance that does not insist
  std::vector<GV> L = levels_of(cd, j.stream, b.v); Cfg cfg = b.cfg;
  std::string field = std::string(cd.lv[j.level].prefix) + j.field, name = std::string(cd.name);
  ctx.desc << name << (j.stream ? " stream" : " mpz") << " ctor, " << b.desc << (canon ? " canonical-g required" : "") << ", field " << field << " corruption " << j.corr;
  ctx.label("class:" + name); ctx.label(std::string("ctor:") + (j.stream ? "stream" : "mpz")); ctx.label("corruption:" + j.corr);
  St st = corrupt(ctx, r, cd, cd.lv[j.level], j.stream, L[j.level], cfg, b, j.field, j.corr);
  if (st == EXCLUDED) { ctx.label("excluded-known-constructor-crash(C12)"); return; }
  if (st == NA) { ctx.label("not-applicable:" + field + "/" + j.corr); ctx.count("not_applicable"); return; }
  ctx.nontrivial(name + "/" + field + "/" + j.corr);
  // which outcomes does the property statement decide?
  bool judged = true; std::string ureason;
  if (j.corr == "neg" && (j.field == "p" || j.field == "q" || j.field == "k")) { judged = false; ureason = "negative modulus/order/cofactor is not a listed defect"; }
  if (cd.qr && (j.field == "k" || j.field == "g")) { judged = false; ureason = "the QR constructor ignores the presented k and derives g itself"; }
  if (cd.id == C_VSSHE && j.level == 0 && j.corr == "equals-other") { judged = false; ureason = "h of the encryption scheme is a public key, g == h is not a listed defect"; }
  std::string why; bool ref = ref_class(cd, j.stream, L, cfg, canon, b.v.g, why);
  bool lib = false, threw = false; std::string ex;
  try { std::unique_ptr<Obj> o(construct(j.cls, j.stream, L, b.v, cfg, canon)); lib = o->cg(); }
  catch (std::exception &e) { threw = true; ex = e.what(); }
  if (threw) { ctx.count("refused_by_exception"); ctx.label("refused-by-exception"); }
  std::string detail = ctx.desc.str() + " [" + show(L[j.level], cd.lv[j.level], cd.lv[j.level].k || !j.stream) + "] configured " + std::to_string(cfg.F) + "/" + std::to_string(cfg.G) + (cd.id == C_VSSHE ? " ell_e=" + std::to_string(cfg.aux) : "") + "; reference: " + (ref ? "well-formed" : why) + "; library: " + (threw ? "exception " + ex : lib ? "CheckGroup true" : "CheckGroup false");
  if (!judged) { ctx.label("unjudged:" + ureason); ctx.count(lib ? "unjudged_accepted" : "unjudged_refused"); ctx.label(std::string("unjudged-") + field + "/" + j.corr + (lib ? "=accepted" : "=refused")); return; }
  ctx.label(ref ? "reference:accept" : "reference:refuse");
  if (!ref && lib) report(ctx, "checkgroup/" + name + "/" + field + "/" + j.corr + "/accepted", detail);
  if (ref && !lib) report(ctx, "checkgroup/" + name + "/" + field + "/" + j.corr + "/valid-set-refused", detail);
}

// ---------------------------------------------------------------------------------------------- sub 1
// PublishGroup text of the class's own generating constructor
static std::string generate_text(int cls, unsigned long F, unsigned long G, bool canon) {
  std::ostringstream o; unsigned long ell = G >= 160 ? 80 : G / 2;
  switch (cls) {
    case C_VTMF: { BarnettSmartVTMF_dlog x(F, G, canon); x.PublishGroup(o); break; }
    case C_QR: { BarnettSmartVTMF_dlog_GroupQR x(F, G); x.PublishGroup(o); break; }
    case C_COM: { PedersenCommitmentScheme x(NGS, F, G); x.PublishGroup(o); break; }
    case C_SKC: { GrothSKC x(NGS, ell, F, G); x.PublishGroup(o); break; }
    case C_VRHE: { HooghSchoenmakersSkoricVillegasVRHE x(F, G); x.PublishGroup(o); break; }
    case C_EOTP: { NaorPinkasEOTP x(F, G); x.PublishGroup(o); break; }
    case C_TRAP: { PedersenTrapdoorCommitmentScheme x(F, G); x.PublishGroup(o); break; }
    default: throw std::logic_error("harness: class has no generating constructor");
  }
  return o.str();
}
static void parse_generated(int cls, const std::string &text, GV &v) {
  auto l = split_lines(text); auto at = [&](size_t i) { if (i >= l.size()) throw std::logic_error("harness: short PublishGroup text"); return zparse62(l[i]); };
  v.p = at(0); v.q = at(1);
  switch (cls) {
    case C_VTMF: case C_QR: v.g = at(2); v.k = at(3); break;
    case C_COM: case C_SKC: v.k = at(2); v.h = at(3); v.gs.clear(); for (size_t i = 0; i < NGS; i++) v.gs.push_back(at(4 + i)); break;
    case C_VRHE: v.g = at(2); v.h = at(3); v.k = (v.p - 1) / v.q; break;
    case C_EOTP: v.g = at(2); v.k = (v.p - 1) / v.q; break;
    case C_TRAP: v.k = at(2); v.g = at(3); v.h = at(4); break;
  }
}

VF_SUB(generated_groups_accepted, 1000, 8000) {
  size_t ci = ctx.c.index(C_PUBROT); const ClsDef &cd = classes()[ci]; Prng r(ctx.c.seed64()); Quiet quiet;
  bool fresh = cd.has_gen && ctx.c.prob(1, cd.qr ? 24 : 8);
  size_t si = ctx.c.weighted({6, 4, (unsigned)(ctx.thorough && !fresh ? 1 : 0)}); unsigned idx = (unsigned)ctx.c.index(si == 2 ? 1 : 3);
  Base b; std::vector<GV> L; bool canon = false; std::string src;
  if (cd.has_gen) { // the class's own generator
    unsigned long F = cd.qr ? QRS[si][0] : SCH[si][0], Gs = cd.qr ? QRS[si][1] : SCH[si][1]; canon = cd.qr || (cd.canon_flag && ctx.c.coin());
    b.qr = cd.qr; b.canon = canon; b.cfg.F = F; b.cfg.G = cd.qr ? F - 1 : Gs; b.cfg.aux = cd.qr ? Gs : (Gs >= 160 ? 80 : Gs / 2);
    std::string text;
    if (fresh) { text = generate_text(cd.id, F, Gs, canon); src = "fresh"; ctx.count("fresh_generations"); }
    else { std::ostringstream key; key << "c06-gen-" << cd.name << "-" << F << "-" << Gs << "-" << (canon ? 1 : 0) << "-" << idx; text = cached_fixture(key.str(), [&]() { return generate_text(cd.id, F, Gs, canon); }); src = "pooled#" + std::to_string(idx); }
    b.v.gs.assign(NGS, Z(0)); parse_generated(cd.id, text, b.v); std::ostringstream d; d << "own generator (" << F << "/" << Gs << ") " << src; b.desc = d.str();
  } else { // parameter sets come from the card group generator (canonical where the class insists), h = g^x
    b = pool_base(ctx, r, false, cd.canon_always ? 1 : -1); canon = cd.canon_always || (cd.canon_flag && b.canon && ctx.c.coin()); b.desc = "vtmf generator " + b.desc;
  }
  // configured sizes at most the real ones must still be accepted
  Cfg cfg = b.cfg; size_t slack = ctx.c.weighted({5, 1, 1});
  if (slack == 1) cfg.F -= 1 + ctx.c.index(64); if (slack == 2 && !cd.qr) cfg.G -= 1 + ctx.c.index(32);
  bool stream = cd.has_stream && (!cd.has_mpz || ctx.c.coin());
  L = levels_of(cd, stream, b.v);
  ctx.desc << cd.name << " " << b.desc << (stream ? " stream" : " mpz") << " ctor configured " << cfg.F << "/" << cfg.G << (canon ? " canonical-g required" : "");
  ctx.label(std::string("class:") + cd.name); ctx.label(fresh ? "fresh-generation" : "pooled"); ctx.label(stream ? "ctor:stream" : "ctor:mpz");
  ctx.nontrivial(std::string(cd.name) + "/" + b.desc + "/" + z62(b.v.p) + "/" + std::to_string(cfg.F) + "/" + std::to_string(cfg.G) + (stream ? "s" : "m"));
  std::string why; if (!ref_class(cd, stream, L, cfg, canon, b.v.g, why)) { report(ctx, std::string("harness/reference-refuses-generated-group/") + cd.name, ctx.desc.str() + ": " + why + " [" + show(b.v, cd.lv[0], true) + "]"); return; }
  bool ok = false; std::string ex;
  try { std::unique_ptr<Obj> o(construct(cd.id, stream, L, b.v, cfg, canon)); ok = o->cg(); } catch (std::exception &e) { ex = std::string(" exception: ") + e.what(); }
  if (!ok) report(ctx, std::string("checkgroup/") + cd.name + "/generated-group-refused", ctx.desc.str() + ex + " [" + show(b.v, cd.lv[0], true) + "]");
}

// ---------------------------------------------------------------------------------------------- sub 3
static uint64_t powmod64(uint64_t a, uint64_t e, uint64_t m) { uint64_t r = 1 % m; a %= m; while (e) { if (e & 1) r = r * a % m; a = a * a % m; e >>= 1; } return r; }
struct Tiny { unsigned p, q; };
static const std::vector<Tiny> &tiny_groups() {
  static std::vector<Tiny> v;
  if (v.empty()) {
    auto isp = [](unsigned n) { if (n < 2) return false; for (unsigned d = 2; d * d <= n; d++) if (n % d == 0) return false; return true; };
    for (unsigned p = 5; p < 4000; p++) if (isp(p)) for (unsigned q = 2; q <= p - 1; q++) if ((p - 1) % q == 0 && isp(q) && ((p - 1) / q) % q != 0) v.push_back(Tiny{p, q});
  }
  return v;
}
static const long N_TINY = 1170; // == tiny_groups().size(): checked at index 0
static const int CE_CLASSES[] = {C_VTMF, C_QR, C_VRHE, C_PUBROT, C_PVSS, C_GDKG, C_CRVSS, C_CZVSS, C_CDKG, C_CDSS, C_JLRVSS, C_EOTP};

VF_ENUM(element_checks_exhaustive, N_TINY, N_TINY) {
  size_t idx = ctx.c.raw(); const auto &T = tiny_groups(); Quiet quiet;
  if (idx == 0 && (long)T.size() != N_TINY) ctx.fail("harness/tiny-group-count", "there are " + std::to_string(T.size()) + " tiny groups, enumeration covers " + std::to_string(N_TINY));
  const Tiny &t = T[(idx * 787) % T.size()]; unsigned k = (t.p - 1) / t.q;
  unsigned g = 0; for (unsigned y = 2; y < t.p; y++) { unsigned x = (unsigned)powmod64(y, k, t.p); if (x != 1) { g = x; break; } }
  GV v; v.p = t.p; v.q = t.q; v.k = k; v.g = g; v.h = (unsigned)powmod64(g, 1 + ctx.c.index(t.q), t.p); v.gs.assign(NGS, Z(g));
  Cfg cfg{16, 8, 2}; size_t members = 0, checked = 0;
  ctx.desc << "tiny group p=" << t.p << " q=" << t.q << " k=" << k << " g=" << g; ctx.nontrivial(ctx.desc.str()); ctx.label(k == 2 ? "safe-prime" : "schnorr");
  for (int cls : CE_CLASSES) {
    const ClsDef &cd = classes()[cls]; if (cd.qr && k != 2) continue;
    for (int s = 0; s < 2; s++) {
      bool stream = s == 0; if (stream ? !cd.has_stream : !cd.has_mpz) continue;
      if (!ctx.thorough && cd.has_stream && cd.has_mpz && ((idx + cls + s) & 1)) continue; // quick: alternate the constructor
      std::unique_ptr<Obj> o; try { o.reset(construct(cls, stream, levels_of(cd, stream, v), v, cfg, false)); } catch (std::exception &e) { ctx.fail(std::string("checkelement/") + cd.name + "/constructor-throws-on-tiny-group", ctx.desc.str() + ": " + e.what()); continue; }
      for (long a = -2; a <= (long)t.p + 2; a++) {
        bool expect = a > 0 && a < (long)t.p && powmod64((uint64_t)a, t.q, t.p) == 1; Z za((signed long)a);
        bool got = o->ce(za.get_mpz_t()); checked++; if (expect) members++;
        if (got && !expect) report(ctx, std::string("checkelement/") + cd.name + "/non-member-accepted", ctx.desc.str() + (stream ? " stream" : " mpz") + " ctor: a=" + std::to_string(a));
        if (!got && expect) report(ctx, std::string("checkelement/") + cd.name + "/member-refused", ctx.desc.str() + (stream ? " stream" : " mpz") + " ctor: a=" + std::to_string(a));
      }
    }
  }
  ctx.count("element_checks", (int64_t)checked); ctx.count("member_checks", (int64_t)members);
}

// ---------------------------------------------------------------------------------------------- sub 4
VF_SUB(element_checks_sampled, 3000, 30000) {
  int cls = CE_CLASSES[ctx.c.index(sizeof CE_CLASSES / sizeof CE_CLASSES[0])]; const ClsDef &cd = classes()[cls]; Prng r(ctx.c.seed64()); Quiet quiet;
  Base b = pool_base(ctx, r, cd.qr, cd.canon_always ? 1 : -1); bool stream = cd.has_stream && (!cd.has_mpz || ctx.c.coin());
  std::unique_ptr<Obj> o(construct(cls, stream, levels_of(cd, stream, b.v), b.v, b.cfg, cd.qr || cd.canon_always));
  const Z &p = b.v.p, &q = b.v.q; Z k = (p - 1) / q; Z m = zpowm(b.v.g, r.below(q - 1) + 1, p), nm;
  do nm = zpowm(r.below(p - 3) + 2, q, p); while (nm == 1); // order divides k, not 1 => outside the order-q subgroup
  struct V { const char *name; Z a; };
  std::vector<V> vals = {{"member", m}, {"generator", b.v.g}, {"one", 1}, {"order-k-element", nm}, {"zero", 0}, {"p", p}, {"p-1", p - 1}, {"p+member", p + m}, {"neg-member", -m}, {"p-member", p - m},
                         {"member-times-nonmember", (m * nm) % p}, {"random-residue", r.below(p)}, {"two", 2}, {"minus-one", -1}, {"q", q}, {"2p+member", 2 * p + m}};
  ctx.desc << cd.name << (stream ? " stream" : " mpz") << " ctor " << b.desc; ctx.label(std::string("class:") + cd.name); ctx.nontrivial(ctx.desc.str() + z62(m) + z62(nm));
  for (auto &x : vals) {
    bool expect = x.a > 0 && x.a < p && zpowm(x.a, q, p) == 1; bool got = o->ce(x.a.get_mpz_t());
    ctx.count(expect ? "members" : "non_members");
    if (got && !expect) report(ctx, std::string("checkelement/") + cd.name + "/non-member-accepted", ctx.desc.str() + ": " + x.name + " a=" + x.a.get_str() + " p=" + p.get_str() + " q=" + q.get_str());
    if (!got && expect) report(ctx, std::string("checkelement/") + cd.name + "/member-refused", ctx.desc.str() + ": " + x.name + " a=" + x.a.get_str() + " p=" + p.get_str() + " q=" + q.get_str());
  }
}
