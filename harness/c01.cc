// C01 — opening a masked card returns the type it was created with.
// Oracle: the type the harness chose at creation; sentinel 2^w when a share is missing.
#include "fix.hh"
#include "pipes.hh"
using namespace vf;
const char *vf::PROPERTY = "C01";
void vf::harness_init() {}

// open card `c` at player `who` with contributions of all players except `skip` (skip = k: nobody skipped)
static size_t vtmf_open(VtmfPlayers &P, std::vector<SchindelhauerTMCG *> &T, const VTMF_Card &c, size_t who, size_t skip, bool &verified) {
  verified = true;
  T[who]->TMCG_SelfCardSecret(c, P[who]);
  for (size_t j = 0; j < P.size(); j++) {
    if (j == who || j == skip) continue;
    std::stringstream proof, dummy_in, dummy_out;
    T[j]->TMCG_ProveCardSecret(c, P[j], dummy_in, proof);
    if (!T[who]->TMCG_VerifyCardSecret(c, P[who], proof, dummy_out)) verified = false;
  }
  return T[who]->TMCG_TypeOfCard(c, P[who]);
}

VF_SUB(vtmf_mask_chain_opens_to_type, 2500, 60000) {
  GroupSpec g = pick_group(ctx);
  size_t k = (size_t)ctx.c.range(1, 6);
  size_t w = (size_t)ctx.c.range(1, ctx.thorough ? 10 : 6);
  size_t maxt = (size_t)1 << w, T0;
  switch (ctx.c.weighted({5, 1, 1, 1})) { case 1: T0 = 0; break; case 2: T0 = maxt - 1; break; case 3: T0 = 1 % maxt; break; default: T0 = ctx.c.index(maxt); }
  VtmfPlayers P(g, k);
  std::vector<SchindelhauerTMCG *> T; for (size_t i = 0; i < k; i++) T.push_back(new SchindelhauerTMCG(16, k, w));
  VTMF_Card c; std::ostringstream d; d << group_desc(g) << " k=" << k << " w=" << w << " type=" << T0;
  size_t creator = ctx.c.index(k);
  bool priv = !ctx.c.coin();
  if (!priv) { T[creator]->TMCG_CreateOpenCard(c, P[creator], T0); d << " open"; }
  else { VTMF_CardSecret cs; T[creator]->TMCG_CreatePrivateCard(c, cs, P[creator], T0); d << " private@" << creator; }
  size_t chain = (size_t)ctx.c.small(0, 8); d << " chain=[";
  for (size_t s = 0; s < chain; s++) {
    size_t j = ctx.c.index(k); bool tap = ctx.c.coin();
    VTMF_CardSecret cs; VTMF_Card cc;
    T[j]->TMCG_CreateCardSecret(cs, P[j]);
    T[j]->TMCG_MaskCard(c, cc, cs, P[j], tap);
    c = cc; d << j << (tap ? "t" : "n") << (s + 1 < chain ? "," : "");
  }
  d << "]"; ctx.desc << d.str();
  ctx.label(std::string(group_kind_name(g.kind))); ctx.label("k=" + std::to_string(k)); ctx.label("chain=" + std::to_string(chain));
  if (chain >= 1 && k >= 2) ctx.nontrivial(d.str() + z62(zfrom(c.c_1)));
  for (size_t i = 0; i < k && !ctx.failed; i++) {
    bool ver; size_t t = vtmf_open(P, T, c, i, k, ver);
    if (!ver) ctx.fail("open/vtmf/honest-decryption-share-refused", "player " + std::to_string(i) + " refused an honest share: " + d.str());
    else if (t != T0) ctx.fail("open/vtmf/wrong-type", "player " + std::to_string(i) + " opened type " + std::to_string(t) + ": " + d.str());
  }
  // missing share => sentinel.  An open card that was never masked has c_1 = 1 and is public by
  // construction (no share is needed), so the clause is judged for masked cards only.
  if (k >= 2 && !ctx.failed && (priv || chain >= 1)) {
    size_t who = ctx.c.index(k), skip = (who + 1 + ctx.c.index(k - 1)) % k; bool ver;
    size_t t = vtmf_open(P, T, c, who, skip, ver);
    if (t != maxt) ctx.fail("open/vtmf/missing-share-not-sentinel", "player " + std::to_string(who) + " without the share of " + std::to_string(skip) + " got " + std::to_string(t) + " (sentinel " + std::to_string(maxt) + "): " + d.str());
    ctx.label("missing-share");
  }
  for (auto t : T) delete t;
}

// --------------------------------------------------------------------------- Rabin / QR-bit encoding
static const unsigned long RABIN_SIZES[] = {672, 768, 1024};
struct RabinPlayers {
  std::vector<TMCG_SecretKey *> sk; TMCG_PublicKeyRing ring;
  RabinPlayers(Ctx &ctx, size_t k, std::ostringstream &d) : ring(k) {
    unsigned off = (unsigned)ctx.c.index(3);
    for (size_t i = 0; i < k; i++) {
      unsigned long sz = RABIN_SIZES[ctx.c.weighted({5, 3, 2})];
      sk.push_back(new TMCG_SecretKey(rabin_key_text(sz, false, (unsigned)((i + off) % 6))));
      ring.keys[i] = TMCG_PublicKey(*sk[i]); d << (i ? "," : " keys=") << sz;
    }
  }
  ~RabinPlayers() { for (auto p : sk) delete p; }
};

VF_SUB(rabin_mask_chain_opens_to_type, 500, 12000) {
  size_t k = (size_t)ctx.c.range(1, 4), w = (size_t)ctx.c.range(1, ctx.thorough ? 6 : 4);
  size_t maxt = (size_t)1 << w, T0 = ctx.c.prob(1, 5) ? (ctx.c.coin() ? 0 : maxt - 1) : ctx.c.index(maxt);
  unsigned long kappa = (unsigned long)ctx.c.range(0, 3);
  std::ostringstream d; d << "rabin k=" << k << " w=" << w << " type=" << T0 << " kappa=" << kappa;
  RabinPlayers P(ctx, k, d);
  SchindelhauerTMCG tmcg(kappa, k, w);
  TMCG_Card c(k, w);
  size_t creator = ctx.c.index(k);
  if (ctx.c.coin()) { tmcg.TMCG_CreateOpenCard(c, P.ring, T0); d << " open"; }
  else { TMCG_CardSecret cs(k, w); tmcg.TMCG_CreatePrivateCard(c, cs, P.ring, creator, T0); d << " private@" << creator; }
  size_t chain = (size_t)ctx.c.small(0, 6); d << " chain=[";
  for (size_t s = 0; s < chain; s++) {
    size_t j = ctx.c.index(k); bool tap = ctx.c.coin();
    TMCG_CardSecret cs(k, w); TMCG_Card cc(k, w);
    tmcg.TMCG_CreateCardSecret(cs, P.ring, j);
    tmcg.TMCG_MaskCard(c, cc, cs, P.ring, tap);
    c = cc; d << j << (tap ? "t" : "n") << (s + 1 < chain ? "," : "");
  }
  d << "]"; ctx.desc << d.str();
  ctx.label("rabin"); ctx.label("k=" + std::to_string(k)); ctx.label("chain=" + std::to_string(chain));
  if (chain >= 1 && k >= 2) { std::ostringstream cx; cx << c; ctx.nontrivial(d.str() + cx.str().substr(0, 64)); }
  // a second card of another type: the opening accumulator (a TMCG_CardSecret) is a plain object that applications
  // reuse from card to card, so every player first opens the other card into the SAME accumulator (or into the secret
  // the card was created with) and then the card under test
  size_t T1 = ctx.c.index(maxt); TMCG_Card c2(k, w); TMCG_CardSecret creation2(k, w); tmcg.TMCG_CreatePrivateCard(c2, creation2, P.ring, ctx.c.index(k), T1);
  int reuse = (int)ctx.c.index(3); d << " accumulator=" << (reuse == 0 ? "fresh" : reuse == 1 ? "reused-after-other-card" : "creation-secret-of-other-card"); ctx.label(reuse == 0 ? "fresh-accumulator" : "reused-accumulator");
  auto open_into = [&](const TMCG_Card &card, TMCG_CardSecret &cs, size_t i, size_t expect, const char *which) -> bool {
    tmcg.TMCG_SelfCardSecret(card, cs, *P.sk[i], i);
    for (size_t j = 0; j < k; j++) {
      if (j == i) continue;
      Duplex dx; bool ok = false;
      dx.run(ctx.c.seed64(), ctx.c.seed64(),
        [&](std::iostream &io) { SchindelhauerTMCG pt(kappa, k, w); pt.TMCG_ProveCardSecret(card, *P.sk[j], j, io, io); },
        [&](std::iostream &io) { ok = tmcg.TMCG_VerifyCardSecret(card, cs, P.ring.keys[j], j, io, io); });
      if (!ok || dx.a_threw || dx.b_threw) { ctx.fail("open/rabin/honest-share-proof-refused", "verifier " + std::to_string(i) + " refused prover " + std::to_string(j) + (dx.stalled() ? " (stalled)" : "") + " " + dx.a_what + dx.b_what + ": " + d.str()); return false; }
    }
    size_t t = tmcg.TMCG_TypeOfCard(cs);
    if (t != expect) { ctx.fail(std::string("open/rabin/wrong-type") + (reuse ? "/reused-accumulator" : ""), "player " + std::to_string(i) + " opened the " + which + " card to type " + std::to_string(t) + " instead of " + std::to_string(expect) + ": " + d.str()); return false; }
    return true; };
  ctx.desc.str(""); ctx.desc << d.str();
  for (size_t i = 0; i < k && !ctx.failed; i++) {
    if (reuse == 0) { TMCG_CardSecret cs(k, w); open_into(c, cs, i, T0, "tested"); }
    else if (reuse == 1) { TMCG_CardSecret cs(k, w); if (open_into(c2, cs, i, T1, "other")) open_into(c, cs, i, T0, "tested"); }
    else { TMCG_CardSecret cs(creation2); open_into(c, cs, i, T0, "tested"); }
  }
}
