// C04 — soundness: proofs of false statements are rejected.
// (a) statement edits with the library's own prover holding the old witness => verifier false.
// (b) cut-and-choose: a prover that prepares each round for a guessed coin is accepted exactly
//     when the verifier's coin string equals the guess (coins are scripted, then READ BACK from the transcript).
#include "proofs.hh"
using namespace vf;
const char *vf::PROPERTY = "C04";
void vf::harness_init() {}

static std::vector<size_t> &entries_with_edits() {
  static std::vector<size_t> v;
  if (v.empty()) { Ctx probe; probe.c.tailseed = 12345; for (size_t i = 0; i < scenario_registry().size(); i++) { std::string n = scenario_registry()[i].name; 
      // entries that define statement edits (checked at build time of the list by name to avoid constructing scenarios here)
      static const char *with[] = {"key_interactive", "key_interactive_publiccoin", "cp_generic", "cp_table_path", "or_first", "or_second", "masking", "remasking", "tmcg_maskcard_vtmf",
        "stack_cutchoose_permutation", "stack_cutchoose_rotation", "stack_groth_interactive", "stack_groth_noninteractive", "stack_hoogh_interactive", "stack_hoogh_noninteractive", "skc_interactive", "skc_publiccoin", "skc_noninteractive"};
      for (auto w : with) if (n == w) v.push_back(i); } }
  return v;
}

static void false_statement_case(Ctx &ctx, size_t entry);
VF_ENUM(false_statement_rejected, 18 * 40, 18 * 600) { size_t i = ctx.c.raw(); false_statement_case(ctx, entries_with_edits()[i % entries_with_edits().size()]); }
// the class-level plain interactive shuffle / rotation arguments (registry entries added later)
VF_ENUM(false_statement_rejected_class_level, 2 * 40, 2 * 600) { size_t i = ctx.c.raw(); false_statement_case(ctx, REGISTRY_BASE + i % (scenario_registry().size() - REGISTRY_BASE)); }
static void false_statement_case(Ctx &ctx, size_t entry) {
  const Entry &e = scenario_registry()[entry]; ScenarioP s = e.make(ctx);
  if (s->edits.empty()) { ctx.discard(); return; }
  // cut-and-choose accepts a false statement with probability 2^-kappa: use the edit only with kappa >= 16 there (judged in (b) for small kappa)
  bool cutchoose = std::string(e.name).find("cutchoose") != std::string::npos;
  size_t which = ctx.c.index(s->edits.size()); std::string ename = s->edits[which].first;
  if (!s->edits[which].second(ctx)) { ctx.label("edit-not-applicable"); ctx.discard(); return; }
  if (cutchoose && s->kappa < 16) { ctx.label("cutchoose-small-kappa-left-to-guessing-check"); ctx.discard(); return; }
  RunResult r = run_scenario(ctx, *s);
  ctx.desc << s->desc.str() << " edit=" << ename;
  ctx.label(std::string(e.name)); ctx.label("edit:" + ename);
  ctx.nontrivial(s->desc.str() + ename + (r.p_lines.empty() ? "" : r.p_lines[0]));
  if (r.accepted) ctx.fail(std::string("soundness/") + e.name + "/" + ename + "/accepted", ctx.desc.str());
}

// ---------------------------------------------------------------------------------------------
// guessing prover for TMCG_VerifyStackEquality (VTMF encoding)
struct GuessRun { bool accepted; std::string coins; bool read_ok; };
static GuessRun guess_run(Ctx &ctx, StackWorld &W, size_t kappa, const std::vector<int> &guess, const std::vector<int> &coins, bool cyclic) {
  GuessRun g; g.accepted = false; g.read_ok = true;
  Relay rl; bool acc = false;
  SchindelhauerTMCG *Tv = new SchindelhauerTMCG(kappa, W.w.P->size(), 5), *Tp = new SchindelhauerTMCG(kappa, W.w.P->size(), 5);
  BarnettSmartVTMF_dlog *pv = W.w.pv(), *vv = W.w.vv();
  rl.run(ctx.c.seed64(), ctx.c.seed64(),
    [&](std::iostream &io) { // simulator-style prover
      unsigned long sec = 0; io >> sec; io.ignore(1, '\n');
      mpz_t foo; mpz_init(foo);
      for (unsigned long i = 0; i < sec && i < guess.size(); i++) {
        TMCG_StackSecret<VTMF_CardSecret> ss2; TMCG_Stack<VTMF_Card> s3;
        Tp->TMCG_CreateStackSecret(ss2, cyclic, W.n, pv);
        Tp->TMCG_MixStack(guess[i] ? *W.s2 : *W.s, s3, ss2, pv);
        std::ostringstream ost; ost << s3 << std::endl; tmcg_mpz_shash(foo, ost.str()); io << foo << std::endl;
        io >> foo; if (!io.good()) break;
        io << ss2 << std::endl;
      }
      mpz_clear(foo); },
    [&](std::iostream &io) { std::vector<int> f; for (int c : coins) f.push_back(c ? 0xFF : 0x00); rng_script_requests(f); acc = Tv->TMCG_VerifyStackEquality(*W.s, *W.s2, cyclic, vv, io, io); },
    nullptr);
  g.accepted = acc;
  // challenges actually sent: verifier lines after the first (security level) line
  for (size_t i = 1; i < rl.v_lines.size(); i++) g.coins += (rl.v_lines[i] == "0" ? '0' : '1');
  delete Tv; delete Tp;
  return g;
}
static StackWorld false_stack(Ctx &ctx, Scenario &sc, size_t n, bool cyclic) {
  StackWorld W; W.w = make_world(ctx, true, 2); base(sc, W.w, "guess"); W.n = n; W.cyclic = cyclic;
  W.Tp = sc.own(new SchindelhauerTMCG(1, 2, 5)); W.Tv = W.Tp;
  W.s = sc.own(new TMCG_Stack<VTMF_Card>()); W.s2 = sc.own(new TMCG_Stack<VTMF_Card>()); W.ss = sc.own(new TMCG_StackSecret<VTMF_CardSecret>());
  for (size_t i = 0; i < n; i++) { VTMF_Card c; VTMF_CardSecret cs; W.types.push_back(i); W.Tp->TMCG_CreatePrivateCard(c, cs, W.w.pv(), i); W.s->push(c); }
  W.Tp->TMCG_CreateStackSecret(*W.ss, cyclic, n, W.w.pv()); W.Tp->TMCG_MixStack(*W.s, *W.s2, *W.ss, W.w.pv());
  { VTMF_Card x; VTMF_CardSecret cs; W.Tp->TMCG_CreatePrivateCard(x, cs, W.w.pv(), n + 3); (*W.s2)[ctx.c.index(n)] = x; } // substituted card: statement false
  return W;
}
static void judge_guess(Ctx &ctx, const GuessRun &g, const std::vector<int> &guess, size_t kappa, const std::string &d) {
  std::string gs; for (int b : guess) gs += b ? '1' : '0';
  // the verifier stops at the first failed round: compare on the prefix it actually played
  bool equal_on_played = g.coins.size() <= gs.size() && gs.compare(0, g.coins.size(), g.coins) == 0;
  bool should_accept = (g.coins.size() == kappa) && equal_on_played;
  ctx.label(should_accept ? "guess==coins" : "guess!=coins");
  if (g.accepted && !should_accept) ctx.fail("soundness/stack_cutchoose/guessing-prover-accepted-for-other-coins", d + " guess=" + gs + " coins-sent=" + g.coins);
  if (!g.accepted && should_accept) ctx.fail("soundness/stack_cutchoose/guessing-prover-rejected-on-its-guess", d + " guess=" + gs + " coins-sent=" + g.coins);
}
// ALL guess x coin strings for kappa <= 6 (quick: 5460 pairs) / <= 8 (thorough: 87380 pairs)
VF_ENUM(cutchoose_all_guess_coin_pairs, 5460, 87380) {
  size_t idx = ctx.c.raw(), kappa = 1, cnt = 4; while (idx >= cnt) { idx -= cnt; kappa++; cnt = (size_t)1 << (2 * kappa); }
  size_t gbits = idx & (((size_t)1 << kappa) - 1), cbits = idx >> kappa;
  std::vector<int> guess(kappa), coins(kappa); for (size_t i = 0; i < kappa; i++) { guess[i] = (gbits >> i) & 1; coins[i] = (cbits >> i) & 1; }
  // one false statement per process and shuffle kind (building players and keys dominates the cost otherwise)
  static Scenario *sc2[2] = {nullptr, nullptr}; static StackWorld W2[2];
  bool cyclic = ctx.c.coin();
  if (!sc2[cyclic]) { Ctx b; b.c.tailseed = 0xC04C04 + cyclic; rng_push(4242 + cyclic); sc2[cyclic] = new Scenario(); W2[cyclic] = false_stack(b, *sc2[cyclic], 3, cyclic); rng_pop(); }
  StackWorld &W = W2[cyclic];
  GuessRun g = guess_run(ctx, W, kappa, guess, coins, cyclic);
  std::string cs; for (int b : coins) cs += b ? '1' : '0';
  ctx.desc << "kappa=" << kappa << " guess=" << gbits << " scripted-coins=" << cs << " sent=" << g.coins << " accepted=" << g.accepted;
  ctx.count((g.coins.size() <= cs.size() && cs.compare(0, g.coins.size(), g.coins) == 0) ? "coins_steered_as_scripted" : "coins_not_as_scripted");
  ctx.label("kappa=" + std::to_string(kappa));
  ctx.nontrivial("k" + std::to_string(kappa) + "g" + std::to_string(gbits) + "c" + cs + "/" + g.coins);
  judge_guess(ctx, g, guess, kappa, ctx.desc.str());
}
VF_SUB(cutchoose_sampled_large_kappa, 120, 4000) {
  size_t kappa = ctx.c.coin() ? 16 : (ctx.c.prob(1, 4) ? 80 : 12); bool diagonal = ctx.c.prob(1, 3);
  std::vector<int> guess(kappa), coins(kappa); for (size_t i = 0; i < kappa; i++) { guess[i] = ctx.c.coin(); coins[i] = diagonal ? guess[i] : (int)ctx.c.coin(); }
  if (!diagonal && ctx.c.coin()) { coins = guess; coins[ctx.c.index(kappa)] ^= 1; } // differ in exactly one round
  Scenario sc; bool cyclic = ctx.c.coin(); StackWorld W = false_stack(ctx, sc, (size_t)ctx.c.range(2, 4), cyclic);
  GuessRun g = guess_run(ctx, W, kappa, guess, coins, cyclic);
  ctx.desc << "kappa=" << kappa << (diagonal ? " diagonal" : " off-diagonal") << " sent=" << g.coins << " accepted=" << g.accepted;
  ctx.label("kappa=" + std::to_string(kappa)); ctx.nontrivial(ctx.desc.str());
  judge_guess(ctx, g, guess, kappa, ctx.desc.str());
}

// (c) a non-cyclic shuffle presented as a rotation to the cut-and-choose verifier: the library prover (cyclic flag on)
// answers coin 1 with a fresh rotation (passes) and coin 0 with the glued secret, which is never cyclic => accepted iff all coins are 1
VF_SUB(rotation_claim_for_noncyclic_shuffle, 300, 6000) {
  size_t kappa = (size_t)ctx.c.range(1, 6), n = (size_t)ctx.c.range(3, 6);
  Scenario sc; StackWorld W; W.w = make_world(ctx, true, 2); base(sc, W.w, "rotclaim"); W.n = n;
  SchindelhauerTMCG *Tp = sc.own(new SchindelhauerTMCG(kappa, 2, 5)), *Tv = sc.own(new SchindelhauerTMCG(kappa, 2, 5));
  TMCG_Stack<VTMF_Card> s, s2; TMCG_StackSecret<VTMF_CardSecret> ss;
  for (size_t i = 0; i < n; i++) { VTMF_Card c; VTMF_CardSecret cs; Tp->TMCG_CreatePrivateCard(c, cs, W.w.pv(), i); s.push(c); }
  std::vector<size_t> pi(n); for (size_t i = 0; i < n; i++) pi[i] = i; size_t a = ctx.c.index(n), b = (a + 1 + ctx.c.index(n - 1)) % n; std::swap(pi[a], pi[b]); // a transposition: not a rotation for n >= 3
  Tp->TMCG_CreateStackSecret(ss, pi, n, W.w.pv()); Tp->TMCG_MixStack(s, s2, ss, W.w.pv());
  std::vector<int> coins(kappa); bool allone = ctx.c.prob(1, 3); for (size_t i = 0; i < kappa; i++) coins[i] = allone ? 1 : (int)ctx.c.coin();
  Relay rl; bool acc = false; BarnettSmartVTMF_dlog *pv = W.w.pv(), *vv = W.w.vv();
  rl.run(ctx.c.seed64(), ctx.c.seed64(), [&](std::iostream &io) { Tp->TMCG_ProveStackEquality(s, s2, ss, true, pv, io, io); },
    [&](std::iostream &io) { std::vector<int> f; for (int c : coins) f.push_back(c ? 0xFF : 0x00); rng_script_requests(f); acc = Tv->TMCG_VerifyStackEquality(s, s2, true, vv, io, io); }, nullptr);
  std::string sent; for (size_t i = 1; i < rl.v_lines.size(); i++) sent += (rl.v_lines[i] == "0" ? '0' : '1');
  bool should = sent.size() == kappa && sent.find('0') == std::string::npos;
  ctx.desc << "kappa=" << kappa << " n=" << n << " transposition(" << a << "," << b << ") coins-sent=" << sent << " accepted=" << acc;
  ctx.label(should ? "all-coins-one" : "some-coin-zero"); ctx.nontrivial(ctx.desc.str());
  if (acc && !should) ctx.fail("soundness/stack_cutchoose_rotation/noncyclic-shuffle-accepted-as-rotation", ctx.desc.str());
  if (!acc && should) ctx.fail("soundness/stack_cutchoose_rotation/unexpected-reject-on-all-one-coins", ctx.desc.str());
}

// (d) drop-plus-duplicate statement with a prover that answers coin 0 with a NON-INJECTIVE index map.  The output stack holds a
// re-masked copy of card b where the copy of card a should be.  Coin 1 is answered honestly (a fresh shuffle of s2); for coin 0 the
// prover sends what a glued secret would look like if the map s -> s3 were a permutation: index vector f o pi2 (it lacks a and
// holds b twice) and, per SOURCE position, the total randomizer (TMCG_MixStack looks the randomizer up by source position, so the
// prover gives both descendants of b the same total).  The verifier has nothing but the import check of the secret to notice that
// the map is no bijection => accepted iff every coin actually played is 1.  Both card encodings share that import code; the
// discrete-log encoding is used here.
VF_SUB(cutchoose_prover_with_noninjective_map, 400, 8000) {
  size_t kappa = (size_t)ctx.c.range(1, 5), n = (size_t)ctx.c.range(2, 6);
  Scenario sc; StackWorld W; W.w = make_world(ctx, true, 2); base(sc, W.w, "noninj"); W.n = n;
  SchindelhauerTMCG *Tp = sc.own(new SchindelhauerTMCG(kappa, 2, 5)), *Tv = sc.own(new SchindelhauerTMCG(kappa, 2, 5));
  BarnettSmartVTMF_dlog *pv = W.w.pv(), *vv = W.w.vv(); Z q = zfrom(pv->q);
  TMCG_Stack<VTMF_Card> s, s2;
  for (size_t i = 0; i < n; i++) { VTMF_Card c; VTMF_CardSecret cs; Tp->TMCG_CreatePrivateCard(c, cs, pv, i); s.push(c); }
  // f: a permutation in which the image a is replaced by b
  size_t a = ctx.c.prob(1, 3) ? 0 : ctx.c.index(n), b = (a + 1 + ctx.c.index(n - 1)) % n;
  std::vector<size_t> f(n); for (size_t i = 0; i < n; i++) f[i] = i; for (size_t i = n; i > 1; i--) std::swap(f[i - 1], f[ctx.c.index(i)]);
  for (size_t i = 0; i < n; i++) if (f[i] == a) f[i] = b;
  std::vector<Z> r2(n); // per output position
  for (size_t i = 0; i < n; i++) { r2[i] = zrand_below(ctx, q - 1) + 1; VTMF_CardSecret cs; mpz_set(cs.r, r2[i].get_mpz_t()); VTMF_Card c; Tp->TMCG_MaskCard(s[f[i]], c, cs, pv, false); s2.push(c); }
  std::vector<int> coins(kappa); bool allone = ctx.c.prob(1, 4); for (size_t i = 0; i < kappa; i++) coins[i] = allone ? 1 : (int)ctx.c.coin();
  Relay rl; bool acc = false;
  rl.run(ctx.c.seed64(), ctx.c.seed64(),
    [&](std::iostream &io) {
      unsigned long sec = 0; io >> sec; io.ignore(1, '\n'); mpz_t foo; mpz_init(foo);
      for (unsigned long i = 0; i < sec && i < 64; i++) {
        TMCG_StackSecret<VTMF_CardSecret> ss2; TMCG_Stack<VTMF_Card> s3; Tp->TMCG_CreateStackSecret(ss2, false, n, pv);
        // equalise the totals of the two descendants of b: positions j1 < j2 of s2 with f = b
        size_t j1 = n, j2 = n; for (size_t j = 0; j < n; j++) if (f[j] == b) { if (j1 == n) j1 = j; else j2 = j; }
        { Z t = (r2[j1] + zfrom(ss2[j1].second.r) - r2[j2]) % q; if (t < 0) t += q; mpz_set(ss2[j2].second.r, t.get_mpz_t()); }
        Tp->TMCG_MixStack(s2, s3, ss2, pv, false);
        std::ostringstream ost; ost << s3 << std::endl; tmcg_mpz_shash(foo, ost.str()); io << foo << std::endl;
        io >> foo; if (!io.good()) break;
        if (mpz_get_ui(foo) & 1UL) io << ss2 << std::endl;
        else { TMCG_StackSecret<VTMF_CardSecret> g; std::vector<Z> tot(n, Z(1));
          for (size_t j = 0; j < n; j++) tot[f[j]] = (r2[j] + zfrom(ss2[j].second.r)) % q;
          for (size_t i2 = 0; i2 < n; i2++) { VTMF_CardSecret cs; mpz_set(cs.r, tot[i2].get_mpz_t()); g.push(f[ss2[i2].first], cs); }
          io << g << std::endl; }
      }
      mpz_clear(foo); },
    [&](std::iostream &io) { std::vector<int> fr; for (int c : coins) fr.push_back(c ? 0xFF : 0x00); rng_script_requests(fr); acc = Tv->TMCG_VerifyStackEquality(s, s2, false, vv, io, io); }, nullptr);
  std::string sent; for (size_t i = 1; i < rl.v_lines.size(); i++) sent += (rl.v_lines[i] == "0" ? '0' : '1');
  bool should = sent.size() == kappa && sent.find('0') == std::string::npos;
  ctx.desc << "kappa=" << kappa << " n=" << n << " output holds card " << b << " twice and card " << a << " never, f=["; for (size_t i = 0; i < n; i++) ctx.desc << (i ? "," : "") << f[i]; ctx.desc << "] coins-sent=" << sent << " accepted=" << acc;
  ctx.label(should ? "all-coins-one" : "some-coin-zero"); ctx.label(a == 0 ? "dropped-position-0" : a == n - 1 ? "dropped-last-position" : "dropped-inner-position"); ctx.nontrivial(ctx.desc.str());
  if (acc && !should) ctx.fail("soundness/stack_cutchoose/non-injective-index-map-accepted", ctx.desc.str());
  if (!acc && should) ctx.fail("soundness/stack_cutchoose/unexpected-reject-on-all-one-coins", ctx.desc.str());
}

// (e) guessing prover for the Rabin-encoding card-secret proof (TMCG_VerifyCardSecret on a TMCG_Card): the peer claims the WRONG share bit
// of a one-bit card and simulates the quadratic-residuosity proof for one guessed challenge string (R_i = r_i^2, S_i = t / R_i when it
// expects the R-question, S_i = s_i^2, R_i = t / S_i otherwise; answers prepared in advance).  t is a non-residue, so the prover can
// answer each round for the guessed question only => accepted iff the verifier's coins equal the guess in every round.
VF_SUB(rabin_cardsecret_guessing_prover, 400, 8000) {
  size_t kappa = (size_t)ctx.c.range(1, 6), k = (size_t)ctx.c.range(1, 3), index = ctx.c.index(k); std::ostringstream d;
  RabinPlayers P(ctx, k, d); SchindelhauerTMCG tv(kappa, k, 1); TMCG_Card c(k, 1); size_t type = ctx.c.index(2);
  if (ctx.c.coin()) tv.TMCG_CreateOpenCard(c, P.ring, type); else { TMCG_CardSecret cs0(k, 1); tv.TMCG_CreatePrivateCard(c, cs0, P.ring, ctx.c.index(k), type); }
  { TMCG_CardSecret cs1(k, 1); TMCG_Card cc(k, 1); tv.TMCG_CreateCardSecret(cs1, P.ring, ctx.c.index(k)); tv.TMCG_MaskCard(c, cc, cs1, P.ring); c = cc; }
  const TMCG_SecretKey &sk = *P.sk[index]; const TMCG_PublicKey &pk = P.ring.keys[index]; Z m(pk.m), y(pk.y), z(&c.z[index][0]);
  bool is_qr = tmcg_mpz_qrmn_p(z.get_mpz_t(), sk.p, sk.q); int claim = is_qr ? 1 : 0; // the wrong bit
  Z t = claim == 0 ? z : zmod(z * zinv(y, m), m); // claim 1: the QR proof runs on z / y
  std::vector<int> guess(kappa), coins(kappa); bool same = ctx.c.prob(1, 3); for (size_t i = 0; i < kappa; i++) { guess[i] = ctx.c.coin(); coins[i] = same ? guess[i] : (int)ctx.c.coin(); }
  std::vector<Z> R(kappa), S(kappa), ans(kappa);
  for (size_t i = 0; i < kappa; i++) { Z r; do { r = zrand_below(ctx, m - 3) + 2; } while (zinv(r, m) == 0); Z sq = zmod(r * r, m), other = zmod(t * zinv(sq, m), m); ans[i] = r; if (guess[i]) { R[i] = sq; S[i] = other; } else { S[i] = sq; R[i] = other; } }
  Relay rl; bool acc = false; TMCG_CardSecret acc_cs(k, 1);
  rl.run(ctx.c.seed64(), ctx.c.seed64(),
    [&](std::iostream &io) { io << claim << std::endl; if (claim == 1) io << z62(t) << std::endl;
      unsigned long sec = 0; io >> sec; io.ignore(1, '\n'); for (size_t i = 0; i < kappa; i++) io << z62(R[i]) << std::endl << z62(S[i]) << std::endl;
      mpz_t foo; mpz_init(foo); for (size_t i = 0; i < kappa && i < sec; i++) { io >> foo; if (!io.good()) break; io << z62(ans[i]) << std::endl; } mpz_clear(foo); },
    [&](std::iostream &io) { std::vector<int> fr; for (int cbit : coins) fr.push_back(cbit ? 0xFF : 0x00); rng_script_requests(fr); acc = tv.TMCG_VerifyCardSecret(c, acc_cs, pk, index, io, io); }, nullptr);
  std::string sent, gs; for (size_t i = 1; i < rl.v_lines.size(); i++) sent += (rl.v_lines[i] == "0" ? '0' : '1'); for (int b : guess) gs += b ? '1' : '0';
  bool should = sent.size() == kappa && sent == gs;
  ctx.desc << "rabin card-secret proof" << d.str() << " k=" << k << " prover=P" << index << " true share bit " << (is_qr ? 0 : 1) << " claimed " << claim << " kappa=" << kappa << " guess=" << gs << " coins-sent=" << sent << " accepted=" << acc;
  ctx.label(should ? "guess==coins" : "guess!=coins"); ctx.label(claim ? "claims-non-residue" : "claims-residue"); ctx.label("kappa=" + std::to_string(kappa)); ctx.nontrivial(ctx.desc.str());
  if (acc && !should) ctx.fail("soundness/rabin_cardsecret/guessing-prover-accepted-for-other-coins", ctx.desc.str());
  if (!acc && should) ctx.fail("soundness/rabin_cardsecret/guessing-prover-rejected-on-its-guess", ctx.desc.str());
}

// (f) the guessing prover of (b) for the Rabin card encoding: TMCG_VerifyStackEquality on TMCG_Card stacks with one substituted card.
VF_SUB(rabin_stack_guessing_prover, 160, 4000) {
  size_t kappa = (size_t)ctx.c.range(1, 5), k = (size_t)ctx.c.range(1, 2), w = (size_t)ctx.c.range(1, 2), n = (size_t)ctx.c.range(2, 3); bool cyclic = ctx.c.coin(); std::ostringstream d;
  RabinPlayers P(ctx, k, d); SchindelhauerTMCG tp(kappa, k, w), tv(kappa, k, w); size_t maxt = (size_t)1 << w;
  TMCG_Stack<TMCG_Card> s, s2; TMCG_StackSecret<TMCG_CardSecret> ss;
  for (size_t i = 0; i < n; i++) { TMCG_Card c(k, w); tp.TMCG_CreateOpenCard(c, P.ring, i % maxt); s.push(c); }
  tp.TMCG_CreateStackSecret(ss, cyclic, P.ring, 0, n); tp.TMCG_MixStack(s, s2, ss, P.ring);
  { size_t pos = ctx.c.index(n); TMCG_Card x(k, w), xm(k, w); TMCG_CardSecret cs(k, w); tp.TMCG_CreateOpenCard(x, P.ring, (ss[pos].first % maxt + 1) % maxt); tp.TMCG_CreateCardSecret(cs, P.ring, 0); tp.TMCG_MaskCard(x, xm, cs, P.ring); s2[pos] = xm; } // another type at one position: statement false
  std::vector<int> guess(kappa), coins(kappa); bool same = ctx.c.prob(1, 3); for (size_t i = 0; i < kappa; i++) { guess[i] = ctx.c.coin(); coins[i] = same ? guess[i] : (int)ctx.c.coin(); }
  Relay rl; bool acc = false;
  rl.run(ctx.c.seed64(), ctx.c.seed64(),
    [&](std::iostream &io) { unsigned long sec = 0; io >> sec; io.ignore(1, '\n'); mpz_t foo; mpz_init(foo);
      for (unsigned long i = 0; i < sec && i < guess.size(); i++) { TMCG_StackSecret<TMCG_CardSecret> ss2; TMCG_Stack<TMCG_Card> s3; tp.TMCG_CreateStackSecret(ss2, cyclic, P.ring, 0, n); tp.TMCG_MixStack(guess[i] ? s2 : s, s3, ss2, P.ring);
        std::ostringstream ost; ost << s3 << std::endl; tmcg_mpz_shash(foo, ost.str()); io << foo << std::endl; io >> foo; if (!io.good()) break; io << ss2 << std::endl; }
      mpz_clear(foo); },
    [&](std::iostream &io) { std::vector<int> fr; for (int cbit : coins) fr.push_back(cbit ? 0xFF : 0x00); rng_script_requests(fr); acc = tv.TMCG_VerifyStackEquality(s, s2, cyclic, P.ring, io, io); }, nullptr);
  std::string sent, gs; for (size_t i = 1; i < rl.v_lines.size(); i++) sent += (rl.v_lines[i] == "0" ? '0' : '1'); for (int b : guess) gs += b ? '1' : '0';
  bool equal_on_played = sent.size() <= gs.size() && gs.compare(0, sent.size(), sent) == 0, should = sent.size() == kappa && equal_on_played;
  ctx.desc << "rabin stack equality" << d.str() << " k=" << k << " w=" << w << " n=" << n << (cyclic ? " rotation" : " permutation") << " kappa=" << kappa << " guess=" << gs << " coins-sent=" << sent << " accepted=" << acc;
  ctx.label(should ? "guess==coins" : "guess!=coins"); ctx.label("kappa=" + std::to_string(kappa)); ctx.nontrivial(ctx.desc.str());
  if (acc && !should) ctx.fail("soundness/rabin_stack_cutchoose/guessing-prover-accepted-for-other-coins", ctx.desc.str());
  if (!acc && should) ctx.fail("soundness/rabin_stack_cutchoose/guessing-prover-rejected-on-its-guess", ctx.desc.str());
}
