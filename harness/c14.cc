// C14 — reliable broadcast: agreement, integrity, no duplication, FIFO order, channel isolation,
// validity/totality at quiescence.  The real CachinKursawePetzoldShoupRBC instances of all honest
// parties run in ONE thread; the harness owns the network (an in-memory aiounicast) and every step:
// one Deliver/DeliverFrom call with timeout 0 consumes at most one 5-tuple from the link the
// schedule names.  Byzantine parties are played by the harness (message injection / silence).
#include "fix.hh"
#include <deque>
#include <set>
#include <algorithm>
using namespace vf;
const char *vf::PROPERTY = "C14";
namespace { struct NullBuf : std::streambuf { int overflow(int c) override { return c; } }; }
void vf::harness_init() { static NullBuf nb; if (!getenv("C14_VERBOSE")) std::cerr.rdbuf(&nb); } // the class logs every discarded message on std::cerr

struct Net { size_t n; std::vector<std::vector<std::deque<Z> > > q; unsigned long sent = 0;
  std::vector<std::vector<Z> > log; // every 5-tuple an honest party sent (for replays and sniffing)
  std::vector<bool> honest;
  Net(size_t n_) : n(n_), q(n_, std::vector<std::deque<Z> >(n_)), honest(n_, true) {} };
struct StepNet : public aiounicast {
  Net *net; size_t next_link; unsigned long recvs = 0; std::vector<Z> last; // last 5-tuple handed to the protocol
  StepNet(size_t n_in, size_t j_in, Net *nt) : aiounicast(n_in, j_in, aio_scheduler_roundrobin, 0, false, false, false), net(nt), next_link(n_in) {}
  bool Send(mpz_srcptr m, const size_t i_in, const time_t) override { if (i_in >= n) return false; net->q[j][i_in].push_back(Z(m)); net->sent++; return true; }
  bool Send(const std::vector<mpz_srcptr> &m, const size_t i_in, const time_t to) override { if (i_in >= n) return false; std::vector<Z> t; for (auto x : m) { Send(x, i_in, to); t.push_back(Z(x)); } if (m.size() == 5) net->log.push_back(t); return true; }
  bool Receive(mpz_ptr, size_t &i_out, const size_t, const time_t) override { i_out = n; return false; }
  bool Receive(std::vector<mpz_ptr> &m, size_t &i_out, const size_t, const time_t) override {
    size_t l = next_link; next_link = n; if (l >= n || net->q[l][j].size() < m.size()) { i_out = n; return false; }
    i_out = l; recvs++; last.clear();
    for (size_t k = 0; k < m.size(); k++) { mpz_set(m[k], net->q[l][j].front().get_mpz_t()); last.push_back(net->q[l][j].front()); net->q[l][j].pop_front(); }
    return true; }
  void Reset(const size_t, const bool) override {}
};

struct ValInfo { size_t sender; std::string chan; size_t index; bool byz; std::string slot; };
struct Phase { int op; std::string label; bool fifo; bool from_mode; std::vector<int> nb; std::string chan; };

struct World {
  size_t n, t; Net *net; std::vector<StepNet *> a; std::vector<CachinKursawePetzoldShoupRBC *> r; std::vector<bool> honest;
  std::vector<Phase> prog; std::map<std::string, bool> chan_fifo;
  std::map<std::string, ValInfo> vals; unsigned long next_val = 1000;
  // per party
  std::vector<size_t> phase, done_bc; std::vector<bool> gaveup, finished;
  std::vector<std::map<std::string, std::map<size_t, size_t> > > got;        // party -> chan -> sender -> count of deliveries from honest sender
  std::vector<std::set<std::string> > delivered;                              // party -> values returned
  std::vector<std::map<std::string, std::string> > slot_val;                  // party -> byz slot -> value
  std::map<std::string, std::map<size_t, std::vector<std::string> > > bc;     // chan -> honest sender -> values broadcast so far (order)
  std::map<std::string, Z> chan_id;                                           // sniffed channel IDs
  std::vector<std::set<std::string> > seen_send; bool out_of_order = false; unsigned long injections = 0, deliveries = 0, steps = 0;
  std::ostringstream trace; size_t trace_ops = 0;
  ~World() { for (auto x : r) delete x; for (auto x : a) delete x; delete net; }
};
static std::string chan_of(const World &w, size_t p) { return w.prog[w.phase[p]].chan; }
// planned cumulative number of broadcasts of honest h on channel c up to and including phase k
static size_t planned(const World &w, const std::string &c, size_t h, size_t k) { size_t s = 0; for (size_t i = 0; i <= k && i < w.prog.size(); i++) if (w.prog[i].chan == c) s += w.prog[i].nb[h]; return s; }
static bool phase_complete(const World &w, size_t p) {
  if (w.gaveup[p]) return true; size_t k = w.phase[p]; const std::string &c = w.prog[k].chan;
  if (w.done_bc[p] < (size_t)w.prog[k].nb[p]) return false;
  for (size_t h = 0; h < w.n; h++) { if (!w.honest[h]) continue; size_t need = planned(w, c, h, k); size_t have = 0; auto it = w.got[p].find(c); if (it != w.got[p].end()) { auto jt = it->second.find(h); if (jt != it->second.end()) have = jt->second; } if (have < need) return false; }
  return true;
}

static void judge_delivery(Ctx &ctx, World &w, size_t p, size_t who, const Z &m, const char *via) {
  w.deliveries++;
  std::string v = m.get_str(), c = chan_of(w, p); std::ostringstream where; where << "party " << p << " (" << via << ", channel " << c << ") returned value " << v << " from sender " << who;
  if (who >= w.n) { ctx.fail("rbc/integrity/sender-index-out-of-range", where.str()); return; }
  auto it = w.vals.find(v);
  if (it == w.vals.end()) { ctx.fail(std::string("rbc/integrity/delivered-value-nobody-broadcast/") + (w.honest[who] ? "honest-sender" : "byzantine-sender"), where.str()); return; }
  const ValInfo &vi = it->second;
  if (vi.sender != who) { ctx.fail("rbc/integrity/value-attributed-to-wrong-sender", where.str() + " but it was broadcast by " + std::to_string(vi.sender)); return; }
  if (vi.chan != c) { ctx.fail(std::string("rbc/channel-isolation/delivery-crossed-channels/") + via, where.str() + " but it was broadcast on channel " + vi.chan); return; }
  if (w.delivered[p].count(v)) { ctx.fail(std::string("rbc/no-duplication/value-delivered-twice/") + (w.chan_fifo[c] ? "fifo" : "nonfifo") + (vi.byz ? "/byzantine-sender" : "/honest-sender"), where.str()); return; }
  w.delivered[p].insert(v);
  if (!vi.byz) {
    size_t &cnt = w.got[p][c][who];
    if (w.chan_fifo[c] && vi.index != cnt) { ctx.fail("rbc/fifo/out-of-order-delivery", where.str() + " which is broadcast #" + std::to_string(vi.index) + " of that sender on the channel, expected #" + std::to_string(cnt)); return; }
    cnt++;
  } else {
    if (w.slot_val[p].count(vi.slot)) { ctx.fail("rbc/no-duplication/slot-delivered-twice", where.str() + " slot " + vi.slot + " earlier value " + w.slot_val[p][vi.slot]); return; }
    w.slot_val[p][vi.slot] = v;
    for (size_t o = 0; o < w.n; o++) if (w.honest[o] && o != p && w.slot_val[o].count(vi.slot) && w.slot_val[o][vi.slot] != v) { ctx.fail("rbc/agreement/different-values-for-one-slot", where.str() + " while party " + std::to_string(o) + " returned " + w.slot_val[o][vi.slot] + " for slot " + vi.slot); return; }
  }
}

// the sender a party in sender-specific mode is waiting for: the library's protocols ask the senders one after the other
// (for j ... DeliverFrom(x, j)) and keep asking the same one until its value arrives, so the stated totality clause is
// "a party that keeps calling DeliverFrom(s) while messages are handed over fairly eventually gets what s broadcast"
static size_t awaited(const World &w, size_t p) {
  size_t k = w.phase[p]; const std::string &c = w.prog[k].chan;
  for (size_t h = 0; h < w.n; h++) { if (!w.honest[h]) continue; size_t need = planned(w, c, h, k), have = 0; auto it = w.got[p].find(c); if (it != w.got[p].end()) { auto jt = it->second.find(h); if (jt != it->second.end()) have = jt->second; } if (have < need) return h; }
  return w.n;
}
// one delivery call at party p, link l; FROM mode uses the named target sender
static bool step(Ctx &ctx, World &w, size_t p, size_t l, size_t target) {
  if (!w.honest[p]) return false; // a party that finished its program keeps serving the protocol on its last channel
  w.steps++; Z m; size_t who = w.n; bool ok = false; unsigned long before = w.a[p]->recvs;
  const Phase &ph = w.prog[w.phase[p]]; w.a[p]->next_link = l;
  try {
    if (ph.from_mode) { ok = w.r[p]->DeliverFrom(m.get_mpz_t(), target, aiounicast::aio_scheduler_roundrobin, 0); who = target; }
    else ok = w.r[p]->Deliver(m.get_mpz_t(), who, aiounicast::aio_scheduler_roundrobin, 0);
  } catch (std::exception &e) { ctx.fail("rbc/exception-in-delivery-call", std::string(e.what()) + " at party " + std::to_string(p)); return false; }
  w.a[p]->next_link = w.n;
  bool consumed = w.a[p]->recvs != before;
  if (getenv("C14_TRACE") && (size_t)atoi(getenv("C14_TRACE")) == p) { fprintf(stdout, "T p=%zu link=%zu consumed=%d ok=%d", p, l, (int)consumed, (int)ok); if (consumed) { const std::vector<Z> &tu = w.a[p]->last; fprintf(stdout, " tuple id=..%s snd=%s s=..%s act=%s pl=%s", tu[0].get_str().substr(0, 6).c_str(), tu[1].get_str().c_str(), tu[2].get_str().substr(0, 8).c_str(), tu[3].get_str().c_str(), tu[4].get_str().substr(0, 12).c_str()); } if (ok) fprintf(stdout, " => DELIVER %s from %zu", m.get_str().c_str(), who); fprintf(stdout, "\n"); }
  if (consumed && w.a[p]->last.size() == 5) { // bookkeeping for the non-triviality rule: ready/echo seen before the send of the same tag
    const std::vector<Z> &tu = w.a[p]->last; std::string tag = tu[0].get_str() + "|" + tu[1].get_str() + "|" + tu[2].get_str();
    if (tu[3] == 1) w.seen_send[p].insert(tag); else if ((tu[3] == 2 || tu[3] == 3) && !w.seen_send[p].count(tag)) w.out_of_order = true;
  }
  if (ok) judge_delivery(ctx, w, p, who, m, ph.from_mode ? "DeliverFrom" : "Deliver");
  return ok || consumed;
}
// sniff channel IDs and honest sequence numbers from the log of honest sends
static void sniff(World &w) { for (auto &tu : w.net->log) if (tu[3] == 1) { auto it = w.vals.find(tu[4].get_str()); if (it != w.vals.end() && !it->second.byz && !w.chan_id.count(it->second.chan)) w.chan_id[it->second.chan] = tu[0]; } }

// party p performs its next program action; returns false if nothing to do
static bool act(Ctx &ctx, World &w, size_t p) {
  if (!w.honest[p] || w.finished[p]) return false;
  size_t k = w.phase[p]; const Phase &ph = w.prog[k];
  if (w.done_bc[p] < (size_t)ph.nb[p] && !w.gaveup[p]) { // broadcast the next value
    Z v = Z(w.next_val++); ValInfo vi; vi.sender = p; vi.chan = ph.chan; vi.byz = false; vi.index = w.bc[ph.chan][p].size();
    w.vals[v.get_str()] = vi; w.bc[ph.chan][p].push_back(v.get_str()); w.done_bc[p]++;
    w.r[p]->Broadcast(v.get_mpz_t()); if (w.trace_ops++ < 60) w.trace << " B" << p << "=" << v.get_str(); return true;
  }
  if (!phase_complete(w, p)) return false;
  if (w.gaveup[p] && w.done_bc[p] < (size_t)ph.nb[p]) { // a party that gives up still sends what it promised (honest), so others can finish
    while (w.done_bc[p] < (size_t)ph.nb[p]) { Z v = Z(w.next_val++); ValInfo vi; vi.sender = p; vi.chan = ph.chan; vi.byz = false; vi.index = w.bc[ph.chan][p].size(); w.vals[v.get_str()] = vi; w.bc[ph.chan][p].push_back(v.get_str()); w.done_bc[p]++; w.r[p]->Broadcast(v.get_mpz_t()); }
  }
  if (k + 1 >= w.prog.size()) { w.finished[p] = true; if (w.trace_ops++ < 60) w.trace << " fin" << p; return true; }
  const Phase &nx = w.prog[k + 1];
  // outer channel's FIFO flag is needed for unsetID
  if (nx.op == 0) w.r[p]->setID(nx.label, nx.fifo); else if (nx.op == 2) w.r[p]->recoverID(nx.label, nx.fifo); else w.r[p]->unsetID(nx.fifo);
  w.phase[p] = k + 1; w.done_bc[p] = 0; w.gaveup[p] = false; if (w.trace_ops++ < 60) w.trace << " adv" << p << ">" << nx.chan; (void)ctx;
  return true;
}

static void build_program(Ctx &ctx, World &w) {
  std::vector<std::string> stack; std::map<std::string, std::vector<std::string> > popped; // parent path -> labels popped below it
  auto path = [&]() { std::string s = "root"; for (auto &l : stack) s += "/" + l; return s; };
  w.chan_fifo["root"] = true; size_t phases = (size_t)ctx.c.range(1, 5); unsigned lab = 0;
  for (size_t k = 0; k < phases; k++) {
    Phase ph; ph.fifo = true;
    if (k == 0) { ph.op = -1; }
    else {
      std::vector<int> ops; if (stack.size() < 3) ops.push_back(0); if (!stack.empty()) ops.push_back(1); if (stack.size() < 3 && !popped[path()].empty()) { ops.push_back(2); ops.push_back(2); }
      ph.op = ops[ctx.c.index(ops.size())];
      if (ph.op == 0) { ph.label = "L" + std::to_string(lab++); ph.fifo = !ctx.c.prob(1, 4); stack.push_back(ph.label); w.chan_fifo[path()] = ph.fifo; }
      else if (ph.op == 2) { auto &pl = popped[path()]; ph.label = pl[ctx.c.index(pl.size())]; stack.push_back(ph.label); ph.fifo = w.chan_fifo[path()]; }
      else { std::string l = stack.back(); stack.pop_back(); popped[path()].push_back(l); ph.fifo = w.chan_fifo[path()]; }
    }
    ph.chan = path();
    // the delivery call style is a property of the channel: values parked by the sender-specific call are only
    // handed out by that call, so one channel is always served through one style (as the protocols in the library do)
    static thread_local std::map<std::string, bool> *modes = nullptr; if (k == 0) { delete modes; modes = new std::map<std::string, bool>(); }
    if (!modes->count(ph.chan)) (*modes)[ph.chan] = ctx.c.prob(1, 3);
    ph.from_mode = (*modes)[ph.chan];
    for (size_t p = 0; p < w.n; p++) ph.nb.push_back(w.honest[p] ? (int)ctx.c.weighted({2, 5, 2}) : 0);
    w.prog.push_back(ph);
  }
}

// Byzantine injection towards honest q
static void inject(Ctx &ctx, World &w, size_t b, size_t q) {
  sniff(w); if (w.chan_id.empty()) return;
  std::vector<std::string> chans; for (auto &kv : w.chan_id) chans.push_back(kv.first);
  std::string c = chans[ctx.c.index(chans.size())]; Z id = w.chan_id[c]; bool fifo = w.chan_fifo[c];
  size_t kind = ctx.c.weighted({6, 3, 3, 1, 3, 3, 2, 1});
  std::vector<Z> tu(5); tu[0] = id;
  auto digest = [](const Z &pl) { Z d; tmcg_mpz_shash(d.get_mpz_t(), 1, pl.get_mpz_t()); return d; };
  auto fresh_byz_value = [&](const std::string &slot) { Z v = Z(w.next_val++); ValInfo vi; vi.sender = b; vi.chan = c; vi.byz = true; vi.slot = slot; vi.index = 0; w.vals[v.get_str()] = vi; return v; };
  // a known tag: either one of b's own slots or an honest broadcast observed on the wire
  auto known_tuple = [&](std::vector<Z> &out) { if (w.net->log.empty()) return false; out = w.net->log[ctx.c.index(w.net->log.size())]; return true; };
  std::ostringstream d;
  if (kind == 0) { // (equivocating) r-send for slot (b, c, s)
    Z s = fifo ? Z((unsigned long)ctx.c.range(1, 3)) : (Z(77777) + Z((unsigned long)ctx.c.range(1, 3)));
    std::string slot = c + "|" + std::to_string(b) + "|" + s.get_str();
    // reuse an existing variant of this slot or create a second one (equivocation)
    std::vector<std::string> have; for (auto &kv : w.vals) if (kv.second.byz && kv.second.slot == slot) have.push_back(kv.first);
    Z v = (!have.empty() && ctx.c.coin()) ? Z(have[ctx.c.index(have.size())]) : (have.size() < 2 ? fresh_byz_value(slot) : Z(have[0]));
    tu[1] = b; tu[2] = s; tu[3] = 1; tu[4] = v; d << "send(" << slot << "=" << v.get_str() << ")";
  } else if (kind == 1 || kind == 2 || kind == 3) { // echo / ready / request for a known tag with a right or wrong digest
    std::vector<Z> k; if (!known_tuple(k)) return; tu[0] = k[0]; tu[1] = k[1]; tu[2] = k[2]; tu[3] = kind == 1 ? 2 : kind == 2 ? 3 : 4;
    Z pl = k[3] == 1 ? k[4] : Z(0); tu[4] = (k[3] == 1 && ctx.c.coin()) ? digest(pl) : (k[3] != 1 && ctx.c.coin() ? k[4] : digest(Z(w.next_val + 999999)));
    d << (kind == 1 ? "echo" : kind == 2 ? "ready" : "request") << "(" << k[1].get_str() << "," << k[2].get_str() << ")";
  } else if (kind == 4) { // answer with right or wrong payload
    std::vector<Z> k; if (!known_tuple(k)) return; tu[0] = k[0]; tu[1] = k[1]; tu[2] = k[2]; tu[3] = 5;
    tu[4] = (k[3] == 1 && ctx.c.coin()) ? k[4] : Z(w.next_val + 888888); d << "answer(" << k[1].get_str() << "," << k[2].get_str() << ")";
  } else if (kind == 5) { // replay of an observed honest message on the byzantine link
    std::vector<Z> k; if (!known_tuple(k)) return; tu = k; d << "replay(act" << k[3].get_str() << ")";
  } else if (kind == 6) { // retrieval sub-protocol messages
    std::vector<Z> k; if (!known_tuple(k)) return; tu[0] = k[0]; tu[1] = k[1]; tu[2] = k[2]; tu[3] = 6 + ctx.c.index(3); tu[4] = ctx.c.coin() ? Z(w.next_val + 777777) : Z(6 + ctx.c.index(3)); d << "retrieval(act" << tu[3].get_str() << ")";
  } else { // malformed header fields
    tu[1] = ctx.c.coin() ? Z((unsigned long)(w.n + ctx.c.index(3))) : Z(-1); tu[2] = ctx.c.coin() ? Z(0) : Z(1); tu[3] = ctx.c.coin() ? Z(0) : Z(9); tu[4] = 5; d << "malformed";
  }
  for (auto &x : tu) w.net->q[b][q].push_back(x);
  w.injections++; if (w.trace_ops++ < 60) w.trace << " X" << b << ">" << q << ":" << d.str();
}

static void run_case(Ctx &ctx, World &w, size_t nops, bool pct) {
  size_t n = w.n;
  // PCT-style bias: a few links are starved for long stretches
  std::vector<std::pair<size_t, size_t> > starved; if (pct) for (size_t i = 0; i < 1 + ctx.c.index(3); i++) starved.push_back({ctx.c.index(n), ctx.c.index(n)});
  size_t starve_until = pct ? nops * 2 / 3 : 0;
  std::vector<size_t> hon, byz; for (size_t p = 0; p < n; p++) (w.honest[p] ? hon : byz).push_back(p);
  for (size_t op = 0; op < nops && !ctx.failed; op++) {
    size_t kind = ctx.c.weighted({3, 12, (unsigned)(byz.empty() ? 0 : 3), 1});
    size_t p = hon[ctx.c.index(hon.size())];
    if (kind == 0) { act(ctx, w, p); }
    else if (kind == 1) {
      // pick a non-empty incoming link of p (construction, not rejection)
      std::vector<size_t> ne; for (size_t l = 0; l < n; l++) if (w.net->q[l][p].size() >= 5) { bool st = false; if (op < starve_until) for (auto &s : starved) if (s.first == l && s.second == p) st = true; if (!st) ne.push_back(l); }
      size_t l = ne.empty() ? ctx.c.index(n) : ne[ctx.c.index(ne.size())]; size_t target = ctx.c.index(n);
      if (w.prog[w.phase[p]].from_mode && ctx.c.prob(2, 3)) { size_t a = awaited(w, p); if (a < n) target = a; } // mostly the sender the party is waiting for, sometimes any
      step(ctx, w, p, l, target);
    } else if (kind == 2) { inject(ctx, w, byz[ctx.c.index(byz.size())], p); }
    else { if (!w.finished[p] && w.phase[p] + 1 < w.prog.size() && !w.gaveup[p]) { w.gaveup[p] = true; if (w.trace_ops++ < 60) w.trace << " giveup" << p; } }
  }
  // fair drain until quiescence: byzantine parties stay silent from here on.  Per round every honest party performs its
  // program actions, takes one message from every non-empty incoming link, and makes one extra call without network input
  // (so buffered deliveries and, in sender-specific mode, parked values of every sender are handed out)
  size_t idle = 0;
  for (size_t round = 0; round < 20000 && !ctx.failed; round++) {
    bool progress = false;
    for (size_t p : hon) {
      while (act(ctx, w, p)) progress = true;
      // sender-specific mode: the party keeps asking the sender it is waiting for (when it waits for nobody, e.g. after its program, it asks the senders in turn)
      for (size_t l = 0; l < n && !ctx.failed; l++) if (w.net->q[l][p].size() >= 5) { bool from = w.prog[w.phase[p]].from_mode; size_t a = from ? awaited(w, p) : 0; if (step(ctx, w, p, l, from ? (a < n ? a : (round + l) % n) : 0)) progress = true; while (act(ctx, w, p)) progress = true; }
      { bool from = w.prog[w.phase[p]].from_mode; size_t a = from ? awaited(w, p) : 0;
        if (!from || a < n) { if (step(ctx, w, p, n, a)) progress = true; } else for (size_t target = 0; target < n && !ctx.failed; target++) if (step(ctx, w, p, n, target)) progress = true; }
    }
    if (!progress) { if (++idle >= n + 1) break; } else idle = 0; // sender-specific targets rotate with the round number
  }
}

static void judge_quiescence(Ctx &ctx, World &w) {
  if (ctx.failed) return;
  for (size_t p = 0; p < w.n; p++) {
    if (!w.honest[p]) continue;
    if (!w.finished[p]) {
      size_t k = w.phase[p]; const Phase &ph = w.prog[k]; std::ostringstream miss; bool pending = false;
      for (size_t l = 0; l < w.n; l++) if (w.net->q[l][p].size() >= 5) pending = true;
      for (size_t h = 0; h < w.n; h++) { if (!w.honest[h]) continue; size_t need = planned(w, ph.chan, h, k), have = w.got[p][ph.chan][h]; if (have < need) miss << " sender " << h << ": " << have << "/" << need; }
      ctx.fail(std::string("rbc/totality/honest-broadcast-never-returned/") + (ph.from_mode ? "DeliverFrom" : "Deliver"), "party " + std::to_string(p) + " is stuck in phase " + std::to_string(k) + " (channel " + ph.chan + ") although every message was handed over" + (pending ? " (its delivery calls no longer take messages from the network)" : "") + ":" + miss.str());
      return;
    }
  }
  for (size_t p = 0; p < w.n; p++) { if (!w.honest[p]) continue; for (size_t l = 0; l < w.n; l++) if (w.net->q[l][p].size() >= 5) { ctx.fail(std::string("rbc/totality/delivery-calls-stop-taking-messages/") + (w.prog[w.phase[p]].from_mode ? "DeliverFrom" : "Deliver"), "queue " + std::to_string(l) + ">" + std::to_string(p) + " still holds messages at quiescence"); return; } }
  // byzantine slots on the final channel: delivered somewhere honest => everywhere honest (parties still listen there)
  std::string fc = w.prog.back().chan; if (w.prog.back().from_mode) return; // in sender-specific mode parties only ask for awaited senders
  std::map<std::string, size_t> cnt; size_t hon = 0; for (size_t p = 0; p < w.n; p++) if (w.honest[p]) { hon++; for (auto &kv : w.slot_val[p]) if (kv.first.compare(0, fc.size() + 1, fc + "|") == 0) cnt[kv.first]++; }
  for (auto &kv : cnt) if (kv.second != hon) { ctx.fail("rbc/totality/byzantine-slot-delivered-by-some-but-not-all", "slot " + kv.first + " returned by " + std::to_string(kv.second) + " of " + std::to_string(hon) + " honest parties at quiescence"); return; }
}

static World *make_world(Ctx &ctx, size_t n, size_t t, size_t nbyz) {
  World *w = new World(); w->n = n; w->t = t; w->net = new Net(n); w->honest.assign(n, true);
  std::vector<size_t> idx(n); for (size_t i = 0; i < n; i++) idx[i] = i; for (size_t i = 0; i < nbyz; i++) { size_t j = i + ctx.c.index(n - i); std::swap(idx[i], idx[j]); w->honest[idx[i]] = false; }
  w->net->honest = w->honest;
  for (size_t p = 0; p < n; p++) { w->a.push_back(new StepNet(n, p, w->net)); w->r.push_back(new CachinKursawePetzoldShoupRBC(n, t, p, w->a[p], aiounicast::aio_scheduler_roundrobin, 0)); }
  w->phase.assign(n, 0); w->done_bc.assign(n, 0); w->gaveup.assign(n, false); w->finished.assign(n, false); w->got.resize(n); w->delivered.resize(n); w->slot_val.resize(n); w->seen_send.resize(n);
  for (size_t p = 0; p < n; p++) if (!w->honest[p]) w->finished[p] = true;
  return w;
}

VF_SUB(random_schedules, 3000, 120000) {
  size_t n = (size_t)(ctx.c.prob(1, 2) ? 4 : ctx.c.range(2, 7)), tmax = (n - 1) / 3, t = tmax ? (size_t)ctx.c.range(ctx.c.prob(3, 4) ? tmax : 0, tmax) : 0;
  size_t nbyz = t ? (size_t)ctx.c.range(0, t) : 0;
  World *w = make_world(ctx, n, t, nbyz); build_program(ctx, *w);
  bool pct = ctx.c.prob(1, 3); size_t nops = (size_t)ctx.c.range(10, ctx.thorough ? 500 : 250);
  std::ostringstream d; d << "n=" << n << " t=" << t << " byz=" << nbyz << " phases=["; for (auto &ph : w->prog) d << (ph.op == 0 ? "push " : ph.op == 1 ? "pop " : ph.op == 2 ? "recover " : "") << ph.chan << (ph.fifo ? "" : "(nofifo)") << (ph.from_mode ? "(from)" : "") << ";"; d << "] ops=" << nops << (pct ? " pct" : "");
  run_case(ctx, *w, nops, pct); judge_quiescence(ctx, *w);
  ctx.desc << d.str() << " steps=" << w->steps << " deliveries=" << w->deliveries << " injections=" << w->injections << " trace:" << w->trace.str();
  ctx.label("n=" + std::to_string(n)); ctx.label(nbyz ? "byzantine" : "all-honest"); if (w->out_of_order) ctx.label("out-of-order-arrival"); bool anyfrom = false, anynofifo = false; for (auto &ph : w->prog) { anyfrom |= ph.from_mode; anynofifo |= !ph.fifo; } if (anyfrom) ctx.label("sender-specific-delivery"); if (anynofifo) ctx.label("non-fifo-channel"); if (w->prog.size() > 1) ctx.label("channel-switches");
  ctx.count("steps", (int64_t)w->steps); ctx.count("deliveries", (int64_t)w->deliveries); ctx.count("injections", (int64_t)w->injections);
  if (w->injections || w->out_of_order) ctx.nontrivial(d.str() + w->trace.str() + std::to_string(w->steps));
  if (ctx.failed) ctx.fail_msg += " || " + ctx.desc.str();
  delete w;
}

// ---------------------------------------------------------------------------------------------------------------
// Systematic part: delay-bounded enumeration around a canonical order for n = 4, t = 1.  The canonical schedule hands over
// messages round-robin over (receiver, link); a schedule of the enumerated family deviates from it at <= d positions, where a
// deviation at position k picks the alt-th other non-empty (receiver, link) pair instead of the canonical one (which stays
// queued, i.e. is delayed).  ALL schedules with d <= 1 (positions 0..63, 8 alternatives) are run in the quick tier and all with
// d = 2 in the thorough tier, for six scenarios x both delivery call styles; d in 2..4 is sampled in the quick tier.
enum { SY_ONE = 0, SY_TWO, SY_SILENT_BYZ, SY_EQUIVOCATE, SY_EQUIVOCATE_MINORITY, SY_EQUIVOCATE_FLOOD, SY_COUNT };
static const char *SY_NAME[SY_COUNT] = {"one-broadcast", "two-broadcasts", "silent-byzantine", "equivocating-byzantine-supports-each-recipients-value", "equivocating-byzantine-supports-the-minority-value", "equivocating-byzantine-floods-echoes-and-readys-for-both-values"};
static const size_t SY_L = 64, SY_B = 8;
static void run_systematic(Ctx &ctx, int tmpl, bool from_mode, const std::vector<std::pair<size_t, size_t> > &dev) {
  const size_t n = 4, t = 1; bool has_byz = tmpl >= SY_SILENT_BYZ; size_t b = 3;
  World *w = new World(); w->n = n; w->t = t; w->net = new Net(n); w->honest.assign(n, true); if (has_byz) w->honest[b] = false; w->net->honest = w->honest;
  for (size_t p = 0; p < n; p++) { w->a.push_back(new StepNet(n, p, w->net)); w->r.push_back(new CachinKursawePetzoldShoupRBC(n, t, p, w->a[p], aiounicast::aio_scheduler_roundrobin, 0)); }
  w->phase.assign(n, 0); w->done_bc.assign(n, 0); w->gaveup.assign(n, false); w->finished.assign(n, false); w->got.resize(n); w->delivered.resize(n); w->slot_val.resize(n); w->seen_send.resize(n);
  if (has_byz) w->finished[b] = true;
  Phase ph; ph.op = -1; ph.fifo = true; ph.from_mode = from_mode; ph.chan = "root"; w->chan_fifo["root"] = true;
  for (size_t p = 0; p < n; p++) ph.nb.push_back(!w->honest[p] ? 0 : p == 0 ? 1 : (p == 1 && tmpl == SY_TWO) ? 1 : 0);
  w->prog.push_back(ph);
  for (size_t p = 0; p < n; p++) while (w->honest[p] && w->done_bc[p] < (size_t)ph.nb[p]) act(ctx, *w, p); // broadcasts happen at time 0
  if (tmpl >= SY_EQUIVOCATE) { // slot (root, b, 1): r-send v1 to P0 and P1, v2 to P2; echo and ready either for the value each recipient got, or for the minority value v2 everywhere
    sniff(*w); Z id = w->chan_id["root"]; auto digest = [](const Z &pl) { Z d; tmcg_mpz_shash(d.get_mpz_t(), 1, pl.get_mpz_t()); return d; };
    std::string slot = "root|3|1"; Z v1 = Z(w->next_val++), v2 = Z(w->next_val++);
    for (const Z &v : {v1, v2}) { ValInfo vi; vi.sender = b; vi.chan = "root"; vi.byz = true; vi.slot = slot; vi.index = 0; w->vals[v.get_str()] = vi; }
    auto put = [&](size_t q, int action, const Z &payload) { for (const Z &x : {id, Z((unsigned long)b), Z(1), Z(action), payload}) w->net->q[b][q].push_back(x); w->injections++; };
    for (size_t q = 0; q < 3; q++) { const Z &v = q < 2 ? v1 : v2; Z d = tmpl == SY_EQUIVOCATE ? digest(v) : digest(v2);
      if (tmpl == SY_EQUIVOCATE_FLOOD) { // repeated readys and echoes for both values, the readys ahead of the r-send
        put(q, 3, digest(v2)); put(q, 3, digest(v2)); put(q, 3, digest(v1)); put(q, 1, v); for (int rep = 0; rep < 2; rep++) { put(q, 2, digest(v2)); put(q, 2, digest(v1)); } put(q, 3, digest(v1)); }
      else { put(q, 1, v); put(q, 2, d); put(q, 3, d); } }
  }
  // the schedule
  std::vector<size_t> hon; for (size_t p = 0; p < n; p++) if (w->honest[p]) hon.push_back(p);
  size_t ptr = 0, k = 0, applied = 0; // ptr runs over the round-robin order of (receiver, link) pairs
  for (; k < 4000 && !ctx.failed; k++) {
    std::vector<std::pair<size_t, size_t> > ne; for (size_t z = 0; z < hon.size() * n; z++) { size_t x = (ptr + z) % (hon.size() * n), p = hon[x / n], l = x % n; if (w->net->q[l][p].size() >= 5) ne.push_back({p, l}); }
    if (ne.empty()) break;
    size_t choice = 0; for (auto &d : dev) if (d.first == k) { choice = d.second % ne.size(); if (choice) applied++; }
    size_t p = ne[choice].first, l = ne[choice].second; size_t a = from_mode ? awaited(*w, p) : 0;
    step(ctx, *w, p, l, from_mode ? (a < n ? a : (k + l) % n) : 0); while (act(ctx, *w, p)) {}
    if (choice == 0) { size_t x = 0; for (size_t z = 0; z < hon.size(); z++) if (hon[z] == p) x = z * n + l; ptr = (x + 1) % (hon.size() * n); }
  }
  if (!ctx.failed) { run_case(ctx, *w, 0, false); judge_quiescence(ctx, *w); }
  // an honest party's value must have reached every honest party; for the equivocated slot: all or none, and the same value (checked per step)
  std::ostringstream d; d << "systematic n=4 t=1 " << SY_NAME[tmpl] << (from_mode ? " DeliverFrom" : " Deliver") << " deviations=["; for (auto &x : dev) d << "(" << x.first << "," << x.second << ")"; d << "] applied=" << applied << " steps=" << w->steps << " deliveries=" << w->deliveries;
  if (!ctx.failed && tmpl >= SY_EQUIVOCATE && !from_mode) { size_t c = 0; for (size_t p : hon) c += w->slot_val[p].count("root|3|1"); if (c != 0 && c != hon.size()) ctx.fail("rbc/totality/byzantine-slot-delivered-by-some-but-not-all", d.str()); ctx.label(c ? "equivocated-slot-delivered" : "equivocated-slot-not-delivered"); }
  ctx.desc << d.str(); ctx.label(SY_NAME[tmpl]); ctx.label(from_mode ? "sender-specific-delivery" : "any-sender-delivery"); ctx.label("deviations=" + std::to_string(dev.size()));
  ctx.count("steps", (int64_t)w->steps); ctx.count("deliveries", (int64_t)w->deliveries);
  if (applied == dev.size()) ctx.nontrivial(d.str()); // every requested deviation changed the order (otherwise the schedule coincides with one of fewer deviations)
  if (ctx.failed) ctx.fail_msg += " || " + ctx.desc.str();
  delete w;
}
static const size_t SY_CFG = SY_COUNT * 2, SY_N1 = 1 + SY_L * SY_B, SY_PAIRS = SY_L * (SY_L - 1) / 2, SY_N2 = SY_PAIRS * SY_B * SY_B;
VF_ENUM(delay_bounded_schedules, SY_CFG * SY_N1, SY_CFG * SY_N1 + SY_CFG * SY_N2) {
  size_t idx = ctx.c.raw(); std::vector<std::pair<size_t, size_t> > dev; size_t cfg;
  if (idx < SY_CFG * SY_N1) { cfg = idx / SY_N1; size_t r = idx % SY_N1; if (r) dev.push_back({(r - 1) / SY_B, 1 + (r - 1) % SY_B}); }
  else { size_t j = idx - SY_CFG * SY_N1; cfg = (j / SY_N2) % SY_CFG; size_t r = j % SY_N2, pr = r / (SY_B * SY_B), al = r % (SY_B * SY_B); size_t i = 0; while (pr >= SY_L - 1 - i) { pr -= SY_L - 1 - i; i++; }
    dev.push_back({i, 1 + al % SY_B}); dev.push_back({i + 1 + pr, 1 + al / SY_B}); }
  run_systematic(ctx, (int)(cfg / 2), cfg % 2 == 1, dev);
}
VF_SUB(delay_bounded_schedules_sampled, 2500, 60000) {
  int tmpl = (int)ctx.c.index(SY_COUNT); bool from = ctx.c.coin(); size_t nd = (size_t)ctx.c.range(2, 4); std::vector<std::pair<size_t, size_t> > dev; std::set<size_t> used;
  for (size_t i = 0; i < nd; i++) { size_t pos = ctx.c.index(tmpl == SY_TWO ? 100 : SY_L); if (used.count(pos)) continue; used.insert(pos); dev.push_back({pos, 1 + ctx.c.index(12)}); }
  std::sort(dev.begin(), dev.end()); run_systematic(ctx, tmpl, from, dev);
}
