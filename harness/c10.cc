// C10 — Rabin key operations are consistent and tamper-evident.
// Oracles: round trips (sign/verify, encrypt/decrypt); for tampered texts a
// reference classification computed with GMP from p, q of the secret key: a
// mutated object is EQUIVALENT when its fields denote the same key id and a
// value with the same square (signature) / the same residue (ciphertext) /
// the same field values (public key); everything else must be refused by
// verify()/decrypt()/check() (a std::exception counts as refusal).  For the
// validity proof the harness owns an independent prover (GMP roots, the
// library's g() only as hash primitive) so that proofs with fewer rounds or
// for a residue y can be self-signed by the key owner.
#include "fix.hh"
#include <algorithm>
#include <sys/file.h>
#include <fcntl.h>
using namespace vf;
const char *vf::PROPERTY = "C10";
static void print_task_counts();
// check() hashes a growing transcript through ~100 KB temporaries; with ASan's default 256 MB quarantine every one of them is a page-fault storm (see HARNESS_GUIDE)
extern "C" const char *__asan_default_options() { return "quarantine_size_mb=16"; }
void vf::harness_init() { if (getenv("C10_PRINT_TASKS")) print_task_counts(); }

static const unsigned long SIZES[] = {672, 768, 1024, 2048};
static size_t nsizes(const Ctx &ctx) { return ctx.thorough ? 4 : 3; }

// --------------------------------------------------------------------------- text objects  f0|f1|...|fn-1|tail
struct TextObj { std::vector<std::string> f; std::string tail; };
static TextObj split_n(const std::string &t, size_t n) {
  TextObj o; size_t pos = 0;
  while (o.f.size() < n) { size_t e = t.find('|', pos); if (e == std::string::npos) break; o.f.push_back(t.substr(pos, e - pos)); pos = e + 1; }
  o.tail = t.substr(pos); return o;
}
static std::string join(const TextObj &o) { std::string s; for (auto &x : o.f) { s += x; s += '|'; } return s + o.tail; }
static bool parse62(const std::string &s, Z &out) { return mpz_set_str(out.get_mpz_t(), s.c_str(), TMCG_MPZ_IO_BASE) == 0; }
static std::string clip(const std::string &s, size_t n = 60) { return s.size() <= n ? s : s.substr(0, n / 2) + ".." + s.substr(s.size() - n / 2) + "(" + std::to_string(s.size()) + " chars)"; }

// --------------------------------------------------------------------------- pooled keys
struct Key {
  unsigned long size; bool nizk; unsigned idx;
  TMCG_SecretKey sk; TMCG_PublicKey pk; Z m, y, p, q;
  std::string pubtext, selfid; TextObj pub; // pub: 10 fields pub,name,email,type,m,y,nizk,sig,kid,val
  // many shards start at once: generate each missing key fixture in one process only (the others wait on a lock file)
  static std::string key_text(unsigned long s, bool n, unsigned i) {
    std::ostringstream l; l << cache_dir() << "/.lock-rabinkey-" << s << "-" << n << "-" << i;
    int fd = open(l.str().c_str(), O_CREAT | O_RDWR, 0644); if (fd >= 0) flock(fd, LOCK_EX);
    std::string t = rabin_key_text(s, n, i); if (fd >= 0) { flock(fd, LOCK_UN); close(fd); } return t;
  }
  Key(unsigned long s, bool n, unsigned i) : size(s), nizk(n), idx(i), sk(key_text(s, n, i)), pk(sk), m(sk.m), y(sk.y), p(sk.p), q(sk.q) {
    std::ostringstream o; o << pk; pubtext = o.str(); pub = split_n(pubtext, 10); selfid = pub.f.size() == 10 ? pub.f[9] : "";
    if (pub.f.size() != 10 || m != p * q) throw std::runtime_error("fixture: unexpected key text layout");
  }
  std::string desc() const { std::ostringstream o; o << "key(" << size << (nizk ? ",nizk" : "") << ")#" << idx; return o.str(); }
};
static Key &get_key(unsigned long size, bool nizk, unsigned idx) {
  static std::map<std::string, Key *> cache; std::ostringstream k; k << size << "/" << nizk << "/" << idx;
  auto it = cache.find(k.str()); if (it != cache.end()) return *it->second;
  Key *K = new Key(size, nizk, idx); cache[k.str()] = K; return *K;
}
static unsigned pool_n(unsigned long size, bool nizk) { return size >= 2048 ? (nizk ? 1 : 2) : (nizk ? 2 : 4); }
static Key &pick_key(Ctx &ctx, size_t si, int want_nizk = -1) {
  bool nizk = want_nizk < 0 ? ctx.c.prob(1, 4) : want_nizk != 0;
  return get_key(SIZES[si], nizk, (unsigned)ctx.c.index(pool_n(SIZES[si], nizk)));
}
static size_t pick_size(Ctx &ctx) { return ctx.c.weighted({4, 3, 3, (unsigned)(ctx.thorough ? 1 : 0)}); }
static Key &other_key(Ctx &ctx, const Key &K) { // a pooled key different from K (same or other size)
  size_t own = (size_t)(std::find(SIZES, SIZES + 4, K.size) - SIZES);
  for (int tries = 0; tries < 6; tries++) { size_t si = ctx.c.coin() ? ctx.c.index(3) : own; Key &O = pick_key(ctx, si, ctx.c.coin() ? (K.nizk ? 1 : 0) : 0); if (O.m != K.m) return O; }
  return get_key(K.size, false, K.nizk ? 0 : (K.idx + 1) % pool_n(K.size, false));
}

// reference arithmetic (GMP only)
static bool is_qr(const Key &K, const Z &a) { return mpz_jacobi(a.get_mpz_t(), K.p.get_mpz_t()) == 1 && mpz_jacobi(a.get_mpz_t(), K.q.get_mpz_t()) == 1; }
static void roots4(const Key &K, const Z &a, Z r[4]) { // the four square roots of a residue modulo the Blum integer m
  Z rp = zpowm(zmod(a, K.p), (K.p + 1) / 4, K.p), rq = zpowm(zmod(a, K.q), (K.q + 1) / 4, K.q);
  Z cp = K.q * zinv(K.q, K.p), cq = K.p * zinv(K.p, K.q);
  r[0] = zmod(rp * cp + rq * cq, K.m); r[1] = K.m - r[0]; r[2] = zmod(rp * cp - rq * cq, K.m); r[3] = K.m - r[2];
}
static bool same_square(const Z &a, const Z &b, const Z &m) { return zmod(a * a - b * b, m) == 0; }

// key id "ID<n>^<last n characters of the self id>" (every n >= 0 denotes the same key by design of keyid(size))
static bool kid_alias(const std::string &kid, const std::string &selfid) {
  if (kid.size() < 4 || kid.compare(0, 2, "ID") != 0) return false;
  size_t c = kid.find('^'); if (c == std::string::npos || c == 2) return false;
  std::string num = kid.substr(2, c - 2), rest = kid.substr(c + 1);
  for (char ch : num) if (ch < '0' || ch > '9') return false;
  if (num.size() > 1 && num[0] == '0') return false;
  if (num.size() > 9) return false;
  size_t n = (size_t)atol(num.c_str());
  return rest.size() == n && n <= selfid.size() && selfid.compare(selfid.size() - n, n, rest) == 0;
}

// --------------------------------------------------------------------------- mutation catalogue
enum FieldKind { FK_TEXT, FK_NUM, FK_KID };
struct NumCtx { Z v, m; const Key *K; bool roots, cipher, modulus; };
static const char B62[] = "0123456789ABCDEFGHIJKLMNOPQRSTUVWXYZabcdefghijklmnopqrstuvwxyz";

static std::vector<std::string> structural_muts() { return {"delete-field", "duplicate-field", "delimiter-dropped", "delimiter-replaced", "truncate-after-field", "truncate-inside-field", "swap-with-next"}; }
static std::vector<std::string> text_muts() { return {"char-changed", "char-appended", "last-char-dropped", "empty", "case-flipped", "space-appended", "nul-appended"}; }
static std::vector<std::string> kid_muts() { return {"char-changed", "last-char-dropped", "empty", "other-key-id", "wildcard-ID0", "shorter-alias", "longer-alias", "count+1", "count-1", "count-leading-zero", "count-plus-sign", "count-overflow", "caret-dropped", "prefix-lowercase"}; }
static std::vector<std::string> num_muts(const NumCtx &n) {
  std::vector<std::string> v = {"+1", "-1", "random-residue", "zero", "one", "two", "4096-bit", "minus-sign", "non-digit-text", "foreign-char-inside", "empty", "leading-zero", "leading-space", "digit-changed", "last-digit-dropped", "first-digit-dropped", "hex-prefix"};
  if (!n.modulus) for (const char *s : {"m-1", "m", "+m", "-m", "negated(m-v)"}) v.push_back(s);
  if (n.roots) for (const char *s : {"other-root", "other-root-negated", "root-of-square-with-altered-padding-bytes", "root-of-square-with-altered-hash-bytes"}) v.push_back(s);
  if (n.cipher) { v.push_back("times-4"); v.push_back("squared"); }
  if (n.modulus) for (const char *s : {"+2", "prime-factor-p", "m-squared", "other-key-modulus", "m-times-3"}) v.push_back(s);
  return v;
}
static bool is_structural(const std::string &mu) { for (auto &s : structural_muts()) if (s == mu) return true; return false; }

// numeric field: new text for the field
static std::string num_mut(Ctx &ctx, const std::string &mu, const NumCtx &n, const std::string &orig) {
  const Z &v = n.v, &m = n.m; Z r; bool have = true;
  if (mu == "+1") r = v + 1; else if (mu == "-1") r = v - 1; else if (mu == "+2") r = v + 2;
  else if (mu == "random-residue") { r = zrand_below(ctx, m); if (n.modulus) r |= 1; if (r == v) r += 2; }
  else if (mu == "zero") r = 0; else if (mu == "one") r = 1; else if (mu == "two") r = 2;
  else if (mu == "m-1") r = m - 1; else if (mu == "m") r = m; else if (mu == "+m") r = v + m; else if (mu == "-m") r = v - m;
  else if (mu == "negated(m-v)") r = m - v; else if (mu == "minus-sign") r = -v;
  else if (mu == "4096-bit") { r = zrand_bits(ctx, 4100) | 1; mpz_setbit(r.get_mpz_t(), 4099); }
  else if (mu == "other-root" || mu == "other-root-negated") { Z rt[4]; roots4(*n.K, zmod(v * v, m), rt); size_t i = (rt[0] == v || rt[1] == v) ? 2 : 0; r = rt[i + (mu == "other-root" ? 0 : 1)]; }
  else if (mu == "root-of-square-with-altered-padding-bytes" || mu == "root-of-square-with-altered-hash-bytes") {
    // PRab layout of the square (mnsize bytes, big endian): hash w | masked r | padding gamma.  A residue that differs only in gamma (or only in w) has a root the key owner can compute.
    size_t mn = mpz_sizeinbase(m.get_mpz_t(), 2) / 8, g = mn - gcry_md_get_algo_dlen(TMCG_GCRY_MD_ALGO) - TMCG_PRAB_K0; Z s = zmod(v * v, m), s2, rt[4];
    for (unsigned long d = 1;; d++) {
      if (mu == "root-of-square-with-altered-padding-bytes") { s2 = s + d; if ((s2 >> (8 * g)) != (s >> (8 * g))) s2 = s - d; }
      else { s2 = s; mpz_combit(s2.get_mpz_t(), 8 * mn - d); }
      if (s2 > 0 && s2 < m && is_qr(*n.K, s2)) break;
    }
    roots4(*n.K, s2, rt); r = rt[ctx.c.index(4)]; }
  else if (mu == "times-4") r = zmod(4 * v, m); else if (mu == "squared") r = zmod(v * v, m);
  else if (mu == "prime-factor-p") r = n.K->p; else if (mu == "m-squared") r = v * v; else if (mu == "m-times-3") r = v * 3;
  else if (mu == "other-key-modulus") { const Key &O = other_key(ctx, *n.K); r = O.m; }
  else have = false;
  if (have) return z62(r);
  if (mu == "non-digit-text") return "not~a~number";
  if (mu == "empty") return "";
  if (mu == "leading-zero") return "0" + orig;
  if (mu == "leading-space") return " " + orig;
  if (mu == "hex-prefix") return "0x" + orig;
  if (mu == "last-digit-dropped") return orig.substr(0, orig.size() - 1);
  if (mu == "first-digit-dropped") return orig.substr(1);
  size_t pos = orig.empty() ? 0 : ctx.c.index(orig.size()); std::string s = orig;
  if (mu == "foreign-char-inside") { s.insert(pos, 1, "#~!$ "[ctx.c.index(4)]); return s; }
  if (mu == "digit-changed") { char ch = B62[ctx.c.index(62)]; if (ch == s[pos]) ch = (ch == '7' ? '8' : '7'); s[pos] = ch; return s; }
  throw std::logic_error("harness: unknown numeric mutation " + mu);
}
static std::string text_mut(Ctx &ctx, const std::string &mu, const std::string &orig) {
  std::string s = orig; size_t pos = orig.empty() ? 0 : ctx.c.index(orig.size());
  if (mu == "char-changed") { if (s.empty()) return "x"; s[pos] = (s[pos] == 'x' ? 'y' : 'x'); return s; }
  if (mu == "char-appended") return s + "x";
  if (mu == "last-char-dropped") return s.empty() ? s : s.substr(0, s.size() - 1);
  if (mu == "empty") return "";
  if (mu == "case-flipped") { for (size_t i = 0; i < s.size(); i++) { size_t j = (pos + i) % s.size(); if (isalpha((unsigned char)s[j])) { s[j] ^= 0x20; return s; } } return s + "X"; }
  if (mu == "space-appended") return s + " ";
  if (mu == "nul-appended") return s + std::string(1, '\0');
  throw std::logic_error("harness: unknown text mutation " + mu);
}
static std::string kid_mut(Ctx &ctx, const std::string &mu, const std::string &orig, const std::string &selfid, const Key &K) {
  size_t c = orig.find('^'); std::string rest = c == std::string::npos ? "" : orig.substr(c + 1); std::string s = orig;
  if (mu == "char-changed") { size_t pos = c + 1 + ctx.c.index(rest.size()); s[pos] = (s[pos] == 'x' ? 'y' : 'x'); return s; }
  if (mu == "last-char-dropped") return s.substr(0, s.size() - 1);
  if (mu == "empty") return "";
  if (mu == "other-key-id") { Key &O = other_key(ctx, K); return O.sk.keyid(); }
  if (mu == "wildcard-ID0") return "ID0^";
  if (mu == "shorter-alias") { size_t n = 1 + ctx.c.index(rest.size() - 1); return "ID" + std::to_string(n) + "^" + selfid.substr(selfid.size() - n); }
  if (mu == "longer-alias") { size_t n = std::min(selfid.size(), rest.size() + 1 + ctx.c.index(8)); return "ID" + std::to_string(n) + "^" + selfid.substr(selfid.size() - n); }
  if (mu == "count+1") return "ID" + std::to_string(rest.size() + 1) + "^" + rest;
  if (mu == "count-1") return "ID" + std::to_string(rest.size() - 1) + "^" + rest;
  if (mu == "count-leading-zero") return "ID0" + std::to_string(rest.size()) + "^" + rest;
  if (mu == "count-plus-sign") return "ID+" + std::to_string(rest.size()) + "^" + rest;
  if (mu == "count-overflow") return "ID" + Z(Z("18446744073709551616") + Z((unsigned long)rest.size())).get_str() + "^" + rest;
  if (mu == "caret-dropped") return "ID" + std::to_string(rest.size()) + rest;
  if (mu == "prefix-lowercase") return "id" + orig.substr(2);
  throw std::logic_error("harness: unknown key id mutation " + mu);
}
// structural mutation of field fi of a text object (fields are all '|'-terminated)
static std::string struct_mut(const std::string &mu, TextObj o, size_t fi) {
  if (mu == "delete-field") { o.f.erase(o.f.begin() + fi); return join(o); }
  if (mu == "duplicate-field") { o.f.insert(o.f.begin() + fi, o.f[fi]); return join(o); }
  if (mu == "swap-with-next") { if (fi + 1 < o.f.size()) std::swap(o.f[fi], o.f[fi + 1]); else std::swap(o.f[fi], o.f[fi - 1]); return join(o); }
  std::string s; for (size_t i = 0; i < o.f.size(); i++) {
    if (i == fi && mu == "truncate-inside-field") return s + o.f[i].substr(0, o.f[i].size() / 2);
    s += o.f[i];
    if (i == fi && mu == "truncate-after-field") return s;
    if (i == fi && mu == "delimiter-dropped") continue;
    s += (i == fi && mu == "delimiter-replaced") ? '^' : '|';
  }
  return s + o.tail;
}

struct Task { size_t field; std::string mut; };
static void add_tasks(std::vector<Task> &t, size_t field, const std::vector<std::string> &muts) { for (auto &m : muts) t.push_back(Task{field, m}); }

// --------------------------------------------------------------------------- messages
static std::string gen_message(Ctx &ctx, std::string &cls) {
  static const char *names[] = {"empty", "one-byte", "short-random", "delimiters-and-NUL", "all-NUL", "long-random", "key-like-text", "hash-block-boundary"};
  size_t k = ctx.c.weighted({1, 1, 3, 2, 1, 2, 1, 1}); cls = names[k];
  uint64_t s = ctx.c.seed64(); auto nextb = [&]() { s = mix64(s); return (unsigned char)(s >> 24); };
  std::string d;
  switch (k) {
    case 0: break;
    case 1: { size_t w = ctx.c.weighted({2, 1, 1, 1}); d.push_back(w == 0 ? (char)nextb() : "\0|\n"[w - 1]); break; }
    case 2: { size_t n = ctx.c.range(2, 64); for (size_t i = 0; i < n; i++) d.push_back((char)nextb()); break; }
    case 3: { size_t n = ctx.c.small(1, 300); for (size_t i = 0; i < n; i++) { unsigned char b = nextb(); d.push_back(b < 64 ? '|' : b < 96 ? '\n' : b < 128 ? '\0' : b < 140 ? '^' : (char)('a' + b % 26)); } break; }
    case 4: d.assign(ctx.c.small(1, 70000), '\0'); break;
    case 5: { size_t n = ctx.c.small(65, 70000); d.reserve(n); for (size_t i = 0; i < n; i++) d.push_back((char)nextb()); break; }
    case 6: { Key &O = get_key(672, false, 0); d = O.pubtext; break; }
    default: { static const size_t L[] = {35, 36, 43, 44, 45, 99, 100, 107, 108, 109, 70000}; size_t n = L[ctx.c.index(11)]; for (size_t i = 0; i < n; i++) d.push_back((char)nextb()); break; }
  }
  return d;
}
static std::string data_desc(const std::string &d) { std::ostringstream o; o << "len=" << d.size(); if (d.size() <= 12) { o << " bytes="; for (unsigned char ch : d) { char b[4]; snprintf(b, sizeof b, "%02x", ch); o << b; } } return o.str(); }
static std::string alter_data(Ctx &ctx, const std::string &d, std::string &how) {
  std::string r = d;
  switch (d.empty() ? 1 + ctx.c.index(2) : ctx.c.index(5)) {
    case 0: { size_t pos = ctx.c.index(d.size()); r[pos] ^= (char)(1 << ctx.c.index(8)); how = "bit-flipped"; break; }
    case 1: r.push_back('\0'); how = "NUL-appended"; break;
    case 2: r.push_back('x'); how = "byte-appended"; break;
    case 3: r.erase(r.size() - 1); how = "last-byte-dropped"; break;
    default: r.erase(0, 1); how = "first-byte-dropped"; break;
  }
  return r;
}

#define GUARDED(expr, onthrow) ([&]() -> bool { try { return (expr); } catch (const std::exception &) { return (onthrow); } })()

// =========================================================================== (1) sign / verify
VF_SUB(sign_verify_roundtrip, 2400, 40000) {
  Key &K = pick_key(ctx, pick_size(ctx)); std::string cls, d = gen_message(ctx, cls);
  ctx.desc << K.desc() << " message(" << cls << ") " << data_desc(d);
  ctx.label("size=" + std::to_string(K.size)); ctx.label("msg:" + cls);
  if (cls != "short-random") ctx.nontrivial(K.desc() + cls + std::to_string(d.size()) + std::to_string(hash_str(d)));
  std::string sig = K.sk.sign(d);
  TMCG_PublicKey pk(K.sk);
  ctx.check(pk.verify(d, sig), "roundtrip/sign-verify/public-key-refuses-own-signature", ctx.desc.str() + " sig=" + clip(sig));
  ctx.check(K.sk.verify(d, sig), "roundtrip/sign-verify/secret-key-refuses-own-signature", ctx.desc.str() + " sig=" + clip(sig));
  // text form: sig|<key id>|<root below m>|
  TextObj o = split_n(sig, 3); Z v;
  if (o.f.size() != 3 || o.f[0] != "sig" || !o.tail.empty() || !parse62(o.f[2], v) || v < 0 || v >= K.m || o.f[1] != K.sk.keyid())
    ctx.fail("roundtrip/sign/unexpected-signature-format", ctx.desc.str() + " sig=" + clip(sig));
  // another key
  Key &O = other_key(ctx, K); TMCG_PublicKey opk(O.sk);
  ctx.check(!GUARDED(opk.verify(d, sig), false), "roundtrip/sign-verify/other-key-accepts", ctx.desc.str() + " verified under " + O.desc());
  if (o.f.size() == 3) { TextObj r = o; r.f[1] = O.sk.keyid(); // same value, relabelled with the other key's id
    ctx.check(!GUARDED(opk.verify(d, join(r)), false), "roundtrip/sign-verify/other-key-accepts-relabelled", ctx.desc.str() + " verified under " + O.desc()); }
  // different data
  std::string how, d2 = alter_data(ctx, d, how);
  ctx.check(!GUARDED(pk.verify(d2, sig), false), "roundtrip/sign-verify/different-data-accepted", ctx.desc.str() + " data " + how);
  ctx.check(!GUARDED(K.sk.verify(d2, sig), false), "roundtrip/sign-verify/different-data-accepted-by-secret-key", ctx.desc.str() + " data " + how);
  ctx.label("altered:" + how);
}

// =========================================================================== (2) encrypt / decrypt
VF_SUB(encrypt_decrypt_roundtrip, 2400, 40000) {
  Key &K = pick_key(ctx, pick_size(ctx));
  static const char *names[] = {"all-zero", "all-0xFF", "random", "single-bit", "ascii"};
  size_t k = ctx.c.weighted({2, 2, 4, 1, 1});
  unsigned char *v = new unsigned char[TMCG_SAEP_S0], *out = new unsigned char[TMCG_SAEP_S0]; // exact-size heap buffers: ASan sees any over-read/over-write
  for (size_t i = 0; i < TMCG_SAEP_S0; i++) v[i] = k == 0 ? 0 : k == 1 ? 0xFF : k == 2 ? (unsigned char)ctx.c.raw() : k == 3 ? 0 : (unsigned char)('A' + ctx.c.index(26));
  if (k == 3) v[ctx.c.index(TMCG_SAEP_S0)] = (unsigned char)(1 << ctx.c.index(8));
  // the padding randomness: stream, all-zero or all-0xFF
  size_t rk = ctx.c.weighted({6, 1, 1}); if (rk) rng_script_requests({rk == 1 ? 0x00 : 0xFF});
  bool by_secret = ctx.c.coin(); TMCG_PublicKey pk(K.sk);
  std::string ct = by_secret ? K.sk.encrypt(v) : pk.encrypt(v);
  rng_script_clear();
  ctx.desc << K.desc() << " plaintext(" << names[k] << ") padding-randomness(" << (rk == 0 ? "stream" : rk == 1 ? "all-zero" : "all-0xFF") << ") via " << (by_secret ? "secret" : "public") << " key";
  ctx.label("size=" + std::to_string(K.size)); ctx.label(std::string("plain:") + names[k]); if (rk) ctx.label("padding-randomness-constant");
  if (k != 2 || rk) ctx.nontrivial(K.desc() + names[k] + std::to_string(rk) + ct.substr(ct.size() > 24 ? ct.size() - 24 : 0));
  memset(out, 0xA5, TMCG_SAEP_S0);
  bool ok = K.sk.decrypt(out, ct);
  if (!ctx.check(ok, "roundtrip/encrypt-decrypt/own-ciphertext-refused", ctx.desc.str() + " ct=" + clip(ct))) {}
  else ctx.check(memcmp(out, v, TMCG_SAEP_S0) == 0, "roundtrip/encrypt-decrypt/plaintext-differs", ctx.desc.str() + " ct=" + clip(ct));
  TextObj o = split_n(ct, 3); Z c;
  if (o.f.size() != 3 || o.f[0] != "enc" || !o.tail.empty() || !parse62(o.f[2], c) || c < 0 || c >= K.m || o.f[1] != K.sk.keyid())
    ctx.fail("roundtrip/encrypt/unexpected-ciphertext-format", ctx.desc.str() + " ct=" + clip(ct));
  // another key must refuse, also when the ciphertext is relabelled with that key's id
  Key &O = other_key(ctx, K);
  ctx.check(!GUARDED(O.sk.decrypt(out, ct), false), "roundtrip/encrypt-decrypt/other-key-decrypts", ctx.desc.str() + " decrypted by " + O.desc());
  if (o.f.size() == 3) { TextObj r = o; r.f[1] = O.sk.keyid();
    ctx.check(!GUARDED(O.sk.decrypt(out, join(r)), false), "roundtrip/encrypt-decrypt/other-key-decrypts-relabelled", ctx.desc.str() + " decrypted by " + O.desc()); }
  delete[] v; delete[] out;
}

// =========================================================================== (3)/(4) tampered signature / ciphertext
enum Verdict { EQUIV, NONEQ };
static Verdict classify_sigenc(const std::string &t, const char *magic, const Key &K, const Z &v, bool cipher, std::string &why) {
  TextObj o = split_n(t, 3);
  if (o.f.size() < 3) { why = "fewer than three delimited fields"; return NONEQ; }
  if (o.f[0] != magic) { why = "magic differs"; return NONEQ; }
  if (!kid_alias(o.f[1], K.selfid)) { why = "key id does not denote the key"; return NONEQ; }
  Z w; if (!parse62(o.f[2], w)) { why = "value is not a base-62 integer"; return NONEQ; }
  if (cipher ? zmod(w - v, K.m) != 0 : !same_square(w, v, K.m)) { why = cipher ? "different residue" : "different square"; return NONEQ; }
  why = "same key id and " + std::string(cipher ? "congruent value" : "a square root of the same square"); return EQUIV;
}
static std::vector<Task> &sigenc_tasks(bool cipher) {
  static std::vector<Task> T[2];
  if (T[cipher].empty()) {
    NumCtx n; n.roots = !cipher; n.cipher = cipher; n.modulus = false; n.K = nullptr;
    add_tasks(T[cipher], 0, text_muts()); add_tasks(T[cipher], 1, kid_muts()); add_tasks(T[cipher], 2, num_muts(n));
    for (size_t f = 0; f < 3; f++) add_tasks(T[cipher], f, structural_muts());
    T[cipher].push_back(Task{2, "trailing-data"});
  }
  return T[cipher];
}
static void tamper_sigenc(Ctx &ctx, bool cipher) {
  static const char *fname[] = {"magic", "keyid", "value"};
  const char *obj = cipher ? "ciphertext" : "signature";
  std::vector<Task> &T = sigenc_tasks(cipher); size_t i = ctx.c.raw(), ns = nsizes(ctx);
  const Task &tk = T[i % T.size()]; size_t si = (i / T.size()) % ns;
  Key &K = pick_key(ctx, si);
  std::string d; unsigned char plain[TMCG_SAEP_S0], out[TMCG_SAEP_S0]; std::string text;
  if (cipher) { for (auto &b : plain) b = (unsigned char)ctx.c.raw(); text = K.sk.encrypt(plain); }
  else { size_t n = ctx.c.small(0, 200); for (size_t j = 0; j < n; j++) d.push_back((char)ctx.c.raw()); text = K.sk.sign(d); }
  TextObj o = split_n(text, 3); Z v;
  if (o.f.size() != 3 || !parse62(o.f[2], v)) { ctx.fail(std::string("tamper/") + obj + "/unexpected-format", text); return; }
  NumCtx n; n.v = v; n.m = K.m; n.K = &K; n.roots = !cipher; n.cipher = cipher; n.modulus = false;
  std::string mt;
  if (tk.mut == "trailing-data") mt = text + (ctx.c.coin() ? "junk" : o.f[2] + "|");
  else if (is_structural(tk.mut)) mt = struct_mut(tk.mut, o, tk.field);
  else { TextObj r = o; r.f[tk.field] = tk.field == 2 ? num_mut(ctx, tk.mut, n, o.f[2]) : tk.field == 1 ? kid_mut(ctx, tk.mut, o.f[1], K.selfid, K) : text_mut(ctx, tk.mut, o.f[0]); mt = join(r); }
  std::string why; Verdict vd = mt == text ? EQUIV : classify_sigenc(mt, cipher ? "enc" : "sig", K, v, cipher, why);
  std::string tag = std::string(fname[tk.field]) + "/" + tk.mut;
  ctx.desc << K.desc() << " " << obj << " " << tag << ": " << clip(text, 40) << " -> " << clip(mt, 40) << " [" << (vd == EQUIV ? "equivalent: " : "must be refused: ") << why << "]";
  ctx.label(std::string("field:") + fname[tk.field]); ctx.label("mut:" + tk.mut); ctx.label("size=" + std::to_string(K.size));
  ctx.nontrivial(std::to_string(K.size) + "/" + obj + "/" + tag);
  bool acc1, acc2 = false;
  if (cipher) { memset(out, 0, sizeof out); acc1 = GUARDED(K.sk.decrypt(out, mt), false); }
  else { TMCG_PublicKey pk(K.sk); acc1 = GUARDED(pk.verify(d, mt), false); acc2 = GUARDED(K.sk.verify(d, mt), false); }
  if (vd == EQUIV) {
    ctx.count(std::string("unjudged-equivalent/") + obj + "/" + tag + (acc1 ? "/accepted" : "/refused"));
    if (cipher && acc1 && memcmp(out, plain, sizeof out) != 0) ctx.fail(std::string("tamper/") + obj + "/" + tag + "-decrypts-to-other-plaintext", ctx.desc.str());
    return;
  }
  if (acc1 || acc2) ctx.fail(std::string("tamper/") + obj + "/" + tag + "-accepted", ctx.desc.str() + (cipher ? "" : std::string(acc1 ? " [public key]" : "") + (acc2 ? " [secret key]" : "")));
}
VF_ENUM(signature_tamper, 2484, 41400) { tamper_sigenc(ctx, false); }
VF_ENUM(ciphertext_tamper, 2412, 40200) { tamper_sigenc(ctx, true); }

// (3b)/(4b) the recovered square / root carries bits above the byte-aligned padding width 8*floor(|m|/8):
// a different square s' = s + j*2^(8*mnsize) < m (signature) or a different root x' = x + 2^(8*mnsize) < m
// (ciphertext) is NOT an equivalent representation and must be refused.
VF_SUB(value_above_padding_width, 600, 10000) {
  Key &K = pick_key(ctx, pick_size(ctx)); bool cipher = ctx.c.coin();
  size_t mn = mpz_sizeinbase(K.m.get_mpz_t(), 2) / 8; Z top = Z(1) << (8 * mn);
  ctx.label(cipher ? "ciphertext" : "signature"); ctx.label("size=" + std::to_string(K.size));
  if (cipher) {
    unsigned char plain[TMCG_SAEP_S0], out[TMCG_SAEP_S0]; for (auto &b : plain) b = (unsigned char)ctx.c.raw();
    std::string ct = K.sk.encrypt(plain); TextObj o = split_n(ct, 3); Z c; parse62(o.f[2], c);
    Z rt[4]; roots4(K, c, rt); size_t j = 1 + ctx.c.index(2), made = 0; // the padded plaintext x is one of the roots below 2^(8*mn)
    ctx.desc << K.desc() << " ciphertext c = x^2 replaced by (x + " << j << "*2^" << 8 * mn << ")^2";
    for (auto &x : rt) { Z x2 = x + top * j; if (x >= top || x2 >= K.m || zmod(x2 * x2 - c, K.m) == 0) continue;
      TextObj r = o; r.f[2] = z62(zmod(x2 * x2, K.m)); made++; memset(out, 0, sizeof out);
      if (GUARDED(K.sk.decrypt(out, join(r)), false)) ctx.fail("tamper/ciphertext/value/root-above-padding-width-accepted", ctx.desc.str() + ": c=" + clip(o.f[2]) + " c'=" + clip(r.f[2]) + " (not congruent)" + (memcmp(out, plain, sizeof out) ? " decrypts to another plaintext" : " decrypts to the same plaintext")); }
    if (!made) { ctx.count("not-constructible/ciphertext"); ctx.label("not-constructible"); return; }
    ctx.nontrivial(K.desc() + "enc" + o.f[2]);
  } else {
    std::string d; size_t n = ctx.c.small(0, 100); for (size_t j = 0; j < n; j++) d.push_back((char)ctx.c.raw());
    std::string sg = K.sk.sign(d); TextObj o = split_n(sg, 3); Z v; parse62(o.f[2], v);
    Z s = zmod(v * v, K.m), s2 = s + top * (1 + ctx.c.index(2));
    ctx.desc << K.desc() << " signature root replaced by a root of s + j*2^" << 8 * mn;
    if (s2 >= K.m || !is_qr(K, s2)) { ctx.count("not-constructible/signature"); ctx.label("not-constructible"); return; }
    Z rt[4]; roots4(K, s2, rt); Z w = rt[ctx.c.index(4)]; TextObj r = o; r.f[2] = z62(w); ctx.nontrivial(K.desc() + "sig" + r.f[2]);
    TMCG_PublicKey pk(K.sk);
    if (GUARDED(pk.verify(d, join(r)), false)) ctx.fail("tamper/signature/value/square-above-padding-width-accepted", ctx.desc.str() + ": " + data_desc(d) + " v=" + clip(o.f[2]) + " v'=" + clip(r.f[2]) + " with v'^2 mod m = v^2 mod m + " + S(s2 - s));
  }
}

// =========================================================================== (5) key validation
// independent prover for the three-stage validity proof with chosen round counts
static std::string own_proof_uncached(const Key &K, const Z &y, size_t s1, size_t s2, size_t s3, bool &complete);
static std::string own_proof(const Key &K, const Z &y, size_t s1, size_t s2, size_t s3, bool &complete) { // pure function of its arguments: memoised (shrinking re-runs the same task)
  static std::map<std::string, std::pair<std::string, bool> > memo; std::ostringstream k; k << K.desc() << "/" << y << "/" << s1 << "/" << s2 << "/" << s3;
  auto it = memo.find(k.str()); if (it == memo.end()) { bool c; std::string p = own_proof_uncached(K, y, s1, s2, s3, c); it = memo.insert(std::make_pair(k.str(), std::make_pair(p, c))).first; }
  complete = it->second.second; return it->second.first;
}
static std::string own_proof_uncached(const Key &K, const Z &y, size_t s1, size_t s2, size_t s3, bool &complete) {
  const Z &m = K.m; complete = true;
  std::string input = z62(m) + "^" + z62(y), out = "nzk^";
  size_t mnsize = mpz_sizeinbase(m.get_mpz_t(), 2) / 8; std::vector<unsigned char> mn(mnsize);
  auto challenge = [&](bool jacobi) { for (;;) {
      tmcg_g(mn.data(), mnsize, (const unsigned char *)input.data(), input.size());
      Z foo; mpz_import(foo.get_mpz_t(), 1, -1, mnsize, 1, 0, mn.data()); foo %= m; input += z62(foo);
      if (jacobi ? mpz_jacobi(foo.get_mpz_t(), m.get_mpz_t()) == 1 : gcd(foo, m) == 1) return foo; } };
  Z d = zinv(m, (K.p - 1) * (K.q - 1)), rt[4];
  out += std::to_string(s1) + "^";
  for (size_t i = 0; i < s1; i++) out += z62(zpowm(challenge(false), d, m)) + "^";
  out += std::to_string(s2) + "^";
  for (size_t i = 0; i < s2; i++) { Z foo = challenge(false), bar = 0; bool found = false;
    for (const Z &c : {foo, Z(m - foo), Z(zmod(2 * foo, m)), Z(zmod(-2 * foo, m))}) if (is_qr(K, c)) { roots4(K, c, rt); bar = std::min(std::min(rt[0], rt[1]), std::min(rt[2], rt[3])); found = true; break; }
    if (!found) complete = false; out += z62(bar) + "^"; }
  out += std::to_string(s3) + "^";
  for (size_t i = 0; i < s3; i++) { Z foo = challenge(true), bar = 0;
    if (!is_qr(K, foo)) foo = zmod(foo * y, m);
    if (is_qr(K, foo)) { roots4(K, foo, rt); bar = std::min(std::min(rt[0], rt[1]), std::min(rt[2], rt[3])); } else complete = false;
    out += z62(bar) + "^"; }
  return out;
}
// self-signature by the key owner over the (possibly altered) public fields
static std::string resign(const Key &K, const TextObj &pub) {
  std::string data; for (size_t i = 1; i <= 6; i++) data += pub.f[i] + "|";
  TMCG_SecretKey s2(K.sk); s2.sig = "";
  rng_push(hash_str(data)); std::string s = s2.sign(data); rng_pop(); // the signature is a function of the signed fields only
  TextObj o = split_n(s, 3);
  if (o.f.size() != 3) throw std::runtime_error("harness: sign() gave " + clip(s));
  const std::string &val = o.f[2]; size_t n = std::min<size_t>(TMCG_KEYID_SIZE, val.size());
  return "sig|ID" + std::to_string(n) + "^" + val.substr(val.size() - n) + "|" + val + "|";
}
static std::string pub_with(const Key &K, TextObj pub, bool re_sign) {
  if (re_sign) { TextObj s = split_n(resign(K, pub), 3); pub.f[7] = s.f[0]; pub.f[8] = s.f[1]; pub.f[9] = s.f[2]; }
  return join(pub);
}
// import + check of a public key text; refusal at either step (or an exception) is a refusal
static bool key_accepted_uncached(const std::string &text, std::string &stage);
static bool key_accepted(const std::string &text, std::string &stage) { // deterministic in the text: memoised per process so that shrinking does not repeat multi-second validations
  static std::map<std::string, std::pair<bool, std::string> > memo; std::string k = std::to_string(text.size()) + "/" + std::to_string(hash_str(text)) + "/" + std::to_string(hash_str(text, 7));
  auto it = memo.find(k); if (it == memo.end()) { std::string st; bool a = key_accepted_uncached(text, st); it = memo.insert(std::make_pair(k, std::make_pair(a, st))).first; }
  stage = it->second.second; return it->second.first;
}
static bool key_accepted_uncached(const std::string &text, std::string &stage) {
  try { TMCG_PublicKey k; if (!k.import(text)) { stage = "import"; return false; } stage = "check"; return k.check(); }
  catch (const std::exception &e) { stage = std::string("exception ") + e.what(); return false; }
}
// reference: the text denotes the same public key (same strings, same integer values, equivalent self-signature)
static Verdict classify_pub(const std::string &t, const Key &K, std::string &why) {
  TextObj o = split_n(t, 7);
  if (o.f.size() < 7) { why = "fewer than seven delimited fields"; return NONEQ; }
  static const char *nm[] = {"magic", "name", "email", "type", "m", "y", "nizk"};
  for (size_t i : {0, 1, 2, 3, 6}) if (o.f[i] != K.pub.f[i]) { why = std::string(nm[i]) + " differs"; return NONEQ; }
  Z a; if (!parse62(o.f[4], a) || a != K.m) { why = "modulus differs"; return NONEQ; }
  if (!parse62(o.f[5], a) || a != K.y) { why = "y differs"; return NONEQ; }
  TextObj s = split_n(o.tail, 3); Z v0, v; parse62(K.pub.f[9], v0);
  if (s.f.size() < 3 || s.f[0] != "sig") { why = "self-signature malformed"; return NONEQ; }
  if (!parse62(s.f[2], v) || !same_square(v, v0, K.m)) { why = "self-signature value has a different square"; return NONEQ; }
  if (!kid_alias(s.f[1], s.f[2])) { why = "self-signature key id does not match its value"; return NONEQ; }
  why = "same field values, equivalent self-signature"; return EQUIV;
}

struct KTask { int kind; size_t a, b; std::string mut; };
enum { KT_ACCEPT, KT_FIELD, KT_RESIGNED_FIELD, KT_COUNTER, KT_PROOFVAL, KT_PROOFVAL_AT, KT_Y_RESIDUE, KT_FOREIGN_PROOF, KT_RELABEL_NIZK, KT_OWN_PROOF };
static const size_t STAGE_N[3] = {TMCG_KEY_NIZK_STAGE1, TMCG_KEY_NIZK_STAGE2, TMCG_KEY_NIZK_STAGE3};
static const char *PUBF[] = {"magic", "name", "email", "type", "modulus", "y", "nizk", "selfsig-magic", "selfsig-keyid", "selfsig-value"};
static std::vector<std::string> counter_muts() { return {"coherent-minus-1", "number-minus-1", "number-plus-1", "zero", "one", "empty", "non-digit", "trailing-junk", "overflow-2^64+n", "minus-one", "leading-space", "coherent-plus-1"}; }
// stage 1 answers are unique m-th roots (the negated value must be refused); in stages 2 and 3 the negated root is an equivalent answer
static std::vector<std::string> proofval_muts(size_t st) { if (st == 0) return {"+1", "negated(m-v)", "random-residue", "zero"}; return {"+1", "-1", "random-residue", "zero"}; }
static std::vector<KTask> &key_tasks(bool thorough) {
  static std::vector<KTask> T[2]; std::vector<KTask> &t = T[thorough];
  if (!t.empty()) return t;
  for (size_t nizk = 0; nizk < 2; nizk++) for (size_t idx = 0; idx < (nizk ? 2 : 3); idx++) for (size_t via = 0; via < 3; via++) if (!nizk || idx == 0 || via == 1) t.push_back(KTask{KT_ACCEPT, nizk * 8 + idx, via, ""});
  // un-re-signed alteration of every field, on a key with and one without proof
  NumCtx nm; nm.roots = nm.cipher = false; nm.modulus = true; NumCtx ny; ny.roots = ny.cipher = ny.modulus = false; NumCtx nv; nv.roots = true; nv.cipher = nv.modulus = false;
  for (size_t nizk = 0; nizk < 2; nizk++) {
    for (size_t f : {0, 1, 2, 3, 6, 7}) for (auto &m : text_muts()) t.push_back(KTask{KT_FIELD, f, nizk, m});
    for (auto &m : {"nizk-suffix-toggled", "size-changed"}) t.push_back(KTask{KT_FIELD, 3, nizk, m});
    for (auto &m : num_muts(nm)) t.push_back(KTask{KT_FIELD, 4, nizk, m});
    for (auto &m : num_muts(ny)) t.push_back(KTask{KT_FIELD, 5, nizk, m});
    for (auto &m : kid_muts()) t.push_back(KTask{KT_FIELD, 8, nizk, m});
    for (auto &m : num_muts(nv)) t.push_back(KTask{KT_FIELD, 9, nizk, m});
    for (size_t f = 0; f < 10; f++) for (auto &m : structural_muts()) t.push_back(KTask{KT_FIELD, f, nizk, m});
    t.push_back(KTask{KT_FIELD, 9, nizk, "trailing-data"});
    t.push_back(KTask{KT_FIELD, 7, nizk, "signature-of-other-data"});
    t.push_back(KTask{KT_FIELD, 7, nizk, "self-signature-of-other-key"});
  }
  // altered by the key owner (fresh self-signature): y, proof counters, proof values
  for (auto &m : {"+1", "random-residue", "zero", "one", "m-1", "negated(m-v)", "+m"}) t.push_back(KTask{KT_RESIGNED_FIELD, 5, 1, m});
  for (size_t st = 0; st < 3; st++) for (auto &m : counter_muts()) t.push_back(KTask{KT_COUNTER, st, 0, m});
  if (!thorough) {
    for (size_t st = 0; st < 3; st++) for (auto &m : proofval_muts(st)) {
      t.push_back(KTask{KT_PROOFVAL_AT, st, 0, m}); t.push_back(KTask{KT_PROOFVAL_AT, st, STAGE_N[st] - 1, m});
      for (size_t r = 0; r < 4; r++) t.push_back(KTask{KT_PROOFVAL, st, r, m});
    }
  } else for (size_t st = 0; st < 3; st++) for (size_t pos = 0; pos < STAGE_N[st]; pos++) for (auto &m : proofval_muts(st)) t.push_back(KTask{KT_PROOFVAL_AT, st, pos, m});
  for (size_t st = 0; st < 3; st++) for (auto &m : {"empty", "non-digit-text", "value-deleted", "+m", "negated(m-v)"}) if (st || std::string(m) != "negated(m-v)") t.push_back(KTask{KT_PROOFVAL, st, 9, m});
  for (size_t v = 0; v < 3; v++) t.push_back(KTask{KT_Y_RESIDUE, v, 0, ""});
  t.push_back(KTask{KT_FOREIGN_PROOF, 0, 0, ""}); t.push_back(KTask{KT_RELABEL_NIZK, 0, 0, ""}); t.push_back(KTask{KT_RELABEL_NIZK, 1, 0, ""});
  t.push_back(KTask{KT_OWN_PROOF, 0, 0, ""});
  return t;
}
// proof text <-> (counters, values)
struct Proof { std::string cnt[3]; std::vector<std::string> val[3]; };
static bool parse_proof(const std::string &nizk, Proof &P) {
  std::vector<std::string> tok; size_t pos = 0; for (;;) { size_t e = nizk.find('^', pos); if (e == std::string::npos) break; tok.push_back(nizk.substr(pos, e - pos)); pos = e + 1; }
  if (tok.empty() || tok[0] != "nzk" || pos != nizk.size()) return false; size_t i = 1;
  for (size_t st = 0; st < 3; st++) { if (i >= tok.size()) return false; P.cnt[st] = tok[i++]; size_t n = (size_t)atol(P.cnt[st].c_str()); if (n != STAGE_N[st] || i + n > tok.size()) return false; P.val[st].assign(tok.begin() + i, tok.begin() + i + n); i += n; }
  return i == tok.size();
}
static std::string proof_text(const Proof &P) { std::string s = "nzk^"; for (size_t st = 0; st < 3; st++) { s += P.cnt[st] + "^"; for (auto &v : P.val[st]) s += v + "^"; } return s; }

static void key_check_case(Ctx &ctx);
#include <chrono>
VF_ENUM(key_check, 1653, 6268) { // 551 (thorough 1567) tasks x 3 (4) key sizes, visited in a stride order so that the expensive proof tasks spread over the shards
  auto t0 = std::chrono::steady_clock::now(); key_check_case(ctx); double dt = std::chrono::duration<double>(std::chrono::steady_clock::now() - t0).count(); if (getenv("C10_TIMING")) fprintf(stderr, "T %.3f %s\n", dt, ctx.desc.str().substr(0, 110).c_str()); }
static void key_check_case(Ctx &ctx) {
  std::vector<KTask> &T = key_tasks(ctx.thorough); size_t i = ctx.c.raw(), ns = nsizes(ctx);
  if (i >= T.size() * ns) { ctx.discard(); return; }
  i = (i * 1009) % (T.size() * ns);
  const KTask &tk = T[i % T.size()]; size_t si = i / T.size(); unsigned long size = SIZES[si];
  ctx.label("size=" + std::to_string(size)); std::string stage, why;
  auto must_refuse = [&](const std::string &text, const std::string &tag) {
    bool acc = key_accepted(text, stage); ctx.count(acc ? "check()-accepted" : "refused-at-" + stage.substr(0, stage.find(' ')));
    if (acc) ctx.fail("tamper/public-key/" + tag + "-accepted", ctx.desc.str());
  };
  switch (tk.kind) {
    case KT_ACCEPT: { bool nizk = tk.a >= 8; Key &K = get_key(size, nizk, (unsigned)(tk.a % 8)); bool ok;
      static const char *via[] = {"public key built from the secret key", "public key imported from text", "secret key"};
      ctx.desc << K.desc() << " check() of the generated " << via[tk.b]; ctx.label(nizk ? "accept:with-proof" : "accept:without-proof");
      if (tk.b == 0) { TMCG_PublicKey pk(K.sk); ok = pk.check(); } else if (tk.b == 1) { TMCG_PublicKey pk; ok = pk.import(K.pubtext) && pk.check(); } else ok = K.sk.check();
      ctx.count("check()-accepted", ok ? 1 : 0);
      ctx.check(ok, "key-check/generated-key-refused", ctx.desc.str()); ctx.nontrivial(K.desc() + via[tk.b]); return; }
    case KT_FIELD: case KT_RESIGNED_FIELD: {
      bool re = tk.kind == KT_RESIGNED_FIELD; Key &K = get_key(size, tk.b != 0, (unsigned)ctx.c.index(pool_n(size, tk.b != 0))); size_t f = tk.a; TextObj o = K.pub; std::string mt;
      NumCtx n; n.K = &K; n.m = K.m; n.roots = f == 9; n.cipher = false; n.modulus = f == 4; if (f == 4) n.v = K.m; else if (f == 5) n.v = K.y; else if (f == 9) parse62(o.f[9], n.v);
      if (tk.mut == "trailing-data") mt = K.pubtext + "junk";
      else if (tk.mut == "signature-of-other-data") { TextObj s = split_n(K.sk.sign("other data"), 3); o.f[7] = s.f[0]; o.f[8] = s.f[1]; o.f[9] = s.f[2]; mt = join(o); }
      else if (tk.mut == "self-signature-of-other-key") { Key &O = other_key(ctx, K); o.f[7] = O.pub.f[7]; o.f[8] = O.pub.f[8]; o.f[9] = O.pub.f[9]; mt = join(o); }
      else if (is_structural(tk.mut)) mt = struct_mut(tk.mut, o, f);
      else if (tk.mut == "nizk-suffix-toggled") { o.f[3] = K.nizk ? o.f[3].substr(0, o.f[3].size() - 5) : o.f[3] + "_NIZK"; mt = join(o); }
      else if (tk.mut == "size-changed") { o.f[3] = "TMCG/RABIN_" + std::to_string(size + 8) + (K.nizk ? "_NIZK" : ""); mt = join(o); }
      else { o.f[f] = (f == 4 || f == 5 || f == 9) ? num_mut(ctx, tk.mut, n, o.f[f]) : f == 8 ? kid_mut(ctx, tk.mut, o.f[8], K.selfid, K) : text_mut(ctx, tk.mut, o.f[f]); mt = re ? pub_with(K, o, true) : join(o); }
      Verdict vd = mt == K.pubtext ? EQUIV : classify_pub(mt, K, why);
      std::string tag = std::string(PUBF[f]) + "/" + tk.mut + (re ? "/re-signed" : "");
      ctx.desc << K.desc() << " public key " << tag << ": " << clip(K.pub.f[f], 30) << " -> " << (is_structural(tk.mut) ? "(structure)" : clip(o.f[f], 30)) << " [" << (vd == EQUIV ? "equivalent: " : "must be refused: ") << why << "]";
      ctx.label(std::string("field:") + PUBF[f]); ctx.label("mut:" + tk.mut); if (re) ctx.label("re-signed-by-owner");
      ctx.nontrivial(std::to_string(size) + "/public-key/" + (K.nizk ? "nizk/" : "plain/") + tag);
      if (re && f == 5 && vd == NONEQ) { // a different y signed by the owner: the old proof does not fit the new statement => refuse; exception: y' that is congruent is the same statement
        if (zmod(n.v - zparse62(o.f[5]), K.m) == 0) { ctx.count("unjudged-equivalent/public-key/" + tag); key_accepted(mt, stage); return; } }
      if (vd == EQUIV) { bool acc = key_accepted(mt, stage); ctx.count("unjudged-equivalent/public-key/" + tag + (acc ? "/accepted" : "/refused")); return; }
      must_refuse(mt, tag); return; }
    default: break;
  }
  // the remaining kinds work on a key with validity proof and re-sign it as its owner
  Key &K = get_key(size, true, ctx.thorough ? 0 : (unsigned)ctx.c.index(pool_n(size, true)));
  Proof P; if (!parse_proof(K.pub.f[6], P)) { ctx.fail("key-check/unexpected-proof-format", clip(K.pub.f[6])); return; }
  TextObj o = K.pub; ctx.label("re-signed-by-owner");
  switch (tk.kind) {
    case KT_COUNTER: { size_t st = tk.a, n = STAGE_N[st]; std::string tag = "nizk/stage" + std::to_string(st + 1) + "-counter/" + tk.mut; bool judged = true, complete = true;
      if (tk.mut == "coherent-minus-1" || tk.mut == "coherent-plus-1") { size_t c[3] = {STAGE_N[0], STAGE_N[1], STAGE_N[2]}; c[st] += tk.mut == "coherent-minus-1" ? -1 : 1; o.f[6] = own_proof(K, K.y, c[0], c[1], c[2], complete); judged = tk.mut == "coherent-minus-1"; }
      else { if (tk.mut == "number-minus-1") P.cnt[st] = std::to_string(n - 1); else if (tk.mut == "number-plus-1") P.cnt[st] = std::to_string(n + 1); else if (tk.mut == "zero") P.cnt[st] = "0"; else if (tk.mut == "one") P.cnt[st] = "1";
        else if (tk.mut == "empty") P.cnt[st] = ""; else if (tk.mut == "non-digit") P.cnt[st] = "x"; else if (tk.mut == "trailing-junk") P.cnt[st] += "x"; else if (tk.mut == "overflow-2^64+n") P.cnt[st] = Z(Z("18446744073709551616") + Z((unsigned long)n)).get_str();
        else if (tk.mut == "minus-one") P.cnt[st] = "-1"; else if (tk.mut == "leading-space") { P.cnt[st] = " " + P.cnt[st]; judged = false; } o.f[6] = proof_text(P); }
      ctx.desc << K.desc() << " public key " << tag << " (self-signed by the owner)" << (tk.mut.compare(0, 8, "coherent") == 0 ? ": complete valid proof with that many rounds" : "");
      ctx.label("field:nizk-counter"); ctx.label("mut:" + tk.mut); ctx.nontrivial(std::to_string(size) + "/public-key/" + tag);
      std::string mt = pub_with(K, o, true);
      if (!complete) { ctx.fail("harness-selfcheck/own-prover-incomplete", ctx.desc.str()); return; }
      if (!judged) { bool acc = key_accepted(mt, stage); ctx.count("unjudged-equivalent/public-key/" + tag + (acc ? "/accepted" : "/refused")); return; }
      must_refuse(mt, tag); return; }
    case KT_PROOFVAL: case KT_PROOFVAL_AT: { size_t st = tk.a, pos = tk.kind == KT_PROOFVAL_AT ? tk.b : 1 + ctx.c.index(STAGE_N[st] - 2); std::string &val = P.val[st][pos], old = val; Z v = zparse62(val);
      NumCtx n; n.K = &K; n.v = v; n.m = K.m; n.roots = n.cipher = n.modulus = false; bool deleted = tk.mut == "value-deleted";
      if (deleted) P.val[st].erase(P.val[st].begin() + pos); else val = num_mut(ctx, tk.mut, n, old);
      std::string tag = "nizk/stage" + std::to_string(st + 1) + "-value/" + tk.mut; Z w; bool eq = false;
      if (!deleted && parse62(val, w)) eq = st == 0 ? zmod(w - v, K.m) == 0 : same_square(w, v, K.m); // stage 1: m-th roots are unique; stages 2/3: any root of the same square
      ctx.desc << K.desc() << " public key " << tag << " at position " << pos << (tk.kind == KT_PROOFVAL_AT && (pos == 0 || pos + 1 == STAGE_N[st]) ? " (stage boundary)" : "") << ": " << clip(old, 24) << " -> " << (deleted ? "(removed)" : clip(val, 24)) << (eq ? " [equivalent]" : " [must be refused]") << " (self-signed by the owner)";
      ctx.label("field:nizk-value-stage" + std::to_string(st + 1)); ctx.label("mut:" + tk.mut);
      ctx.nontrivial(std::to_string(size) + "/public-key/" + tag + "/" + std::to_string(pos));
      o.f[6] = proof_text(P); std::string mt = pub_with(K, o, true);
      if (eq) { bool acc = key_accepted(mt, stage); ctx.count("unjudged-equivalent/public-key/" + tag + (acc ? "/accepted" : "/refused")); return; }
      must_refuse(mt, tag); return; }
    case KT_Y_RESIDUE: { // y' is a quadratic residue (or has Jacobi symbol -1): the owner cannot complete stage 3 and a zero stands in for the missing roots
      Z y2 = tk.a == 0 ? Z(4) : tk.a == 1 ? zmod(K.y * K.y, K.m) : Z(0); if (tk.a == 2) { for (y2 = 2; mpz_jacobi(y2.get_mpz_t(), K.m.get_mpz_t()) != -1; y2++) {} }
      bool complete; o.f[5] = z62(y2); o.f[6] = own_proof(K, y2, STAGE_N[0], STAGE_N[1], STAGE_N[2], complete);
      std::string tag = std::string("y/") + (tk.a == 0 ? "residue-4" : tk.a == 1 ? "residue-y^2" : "jacobi-minus-1") + "/re-proved";
      ctx.desc << K.desc() << " public key " << tag << ": y=" << S(y2) << " with a fresh proof by the owner (stage 3 " << (complete ? "complete" : "incomplete") << "), self-signed";
      ctx.label("field:y"); ctx.label("mut:" + tag); ctx.nontrivial(std::to_string(size) + "/public-key/" + tag);
      if (complete) { ctx.fail("harness-selfcheck/residue-y-proof-complete", ctx.desc.str()); return; }
      must_refuse(pub_with(K, o, true), tag); return; }
    case KT_FOREIGN_PROOF: { Key &O = get_key(size, true, (K.idx + 1) % pool_n(size, true)); o.f[6] = O.pub.f[6]; std::string tag = "nizk/proof-of-other-key/re-signed";
      ctx.desc << K.desc() << " public key carrying the proof of " << O.desc() << ", self-signed"; ctx.label("field:nizk"); ctx.label("mut:proof-of-other-key"); ctx.nontrivial(std::to_string(size) + "/public-key/" + tag);
      if (O.m == K.m) { ctx.count("not-constructible/foreign-proof"); return; }
      must_refuse(pub_with(K, o, true), tag); return; }
    case KT_RELABEL_NIZK: { Key &N = get_key(size, false, (unsigned)ctx.c.index(pool_n(size, false))); TextObj n = N.pub; std::string tag;
      if (tk.a == 0) { n.f[3] += "_NIZK"; tag = "type/plain-key-relabelled-NIZK/re-signed"; } else { n.f[3] += "_NIZK"; n.f[6] = K.pub.f[6]; tag = "type/plain-key-relabelled-NIZK-with-foreign-proof/re-signed"; }
      ctx.desc << N.desc() << " public key " << tag; ctx.label("field:type"); ctx.label("mut:relabelled-NIZK"); ctx.nontrivial(std::to_string(size) + "/public-key/" + tag);
      must_refuse(pub_with(N, n, true), tag); return; }
    default: { bool complete; o.f[6] = own_proof(K, K.y, STAGE_N[0], STAGE_N[1], STAGE_N[2], complete); std::string mt = pub_with(K, o, true);
      ctx.desc << K.desc() << " public key with a proof from the harness's own prover (" << (o.f[6] == K.pub.f[6] ? "identical to" : "differs from") << " the library's), self-signed";
      ctx.label("own-prover-selfcheck"); ctx.nontrivial(std::to_string(size) + "/own-proof"); ctx.count(o.f[6] == K.pub.f[6] ? "own-proof-identical-to-library" : "own-proof-differs-from-library");
      bool acc = key_accepted(mt, stage); ctx.count(acc ? "check()-accepted" : "refused-at-" + stage);
      if (!complete || !acc) ctx.fail("harness-selfcheck/own-prover-proof-refused", ctx.desc.str()); return; }
  }
}

// (5b) altered modulus far beyond the key size: check() must refuse (not crash).  Kept in a sub-property of its own
// because verify() sizes a buffer as mnsize+1024 bytes for a value of up to 2*mnsize bytes.
VF_ENUM(oversized_modulus_refused, 16, 32) {
  static const unsigned bitsv[] = {4100, 8199, 8201, 9001, 12289, 16383, 16391, 20001};
  size_t i = ctx.c.raw(); unsigned bits = bitsv[i % 8];
  Key &K = get_key(672, false, 0); TextObj o = K.pub;
  Z m2 = zrand_bits(ctx, bits) | 1; mpz_setbit(m2.get_mpz_t(), bits - 1);
  while (mpz_jacobi(K.y.get_mpz_t(), m2.get_mpz_t()) != 1 || mpz_probab_prime_p(m2.get_mpz_t(), 5)) m2 += 2;
  o.f[4] = z62(m2); bool bigsig = ctx.c.prob(3, 4);
  if (bigsig) { o.f[9] = z62(zrand_below(ctx, m2)); o.f[8] = "ID8^" + o.f[9].substr(o.f[9].size() - 8); } // a self-signature value as long as the new modulus, with the key id that belongs to it
  ctx.desc << K.desc() << " public key with the modulus replaced by an odd composite of " << mpz_sizeinbase(m2.get_mpz_t(), 2) << " bits (Jacobi symbol of y is 1)" << (bigsig ? " and the self-signature value by a random value below it" : "");
  ctx.label("bits=" + std::to_string(bits)); ctx.nontrivial("bits" + std::to_string(bits) + (bigsig ? "s" : ""));
  std::string stage; if (key_accepted(join(o), stage)) ctx.fail("tamper/public-key/modulus/oversized-accepted", ctx.desc.str());
}

static void print_task_counts() {
  fprintf(stderr, "signature tasks %zu ciphertext tasks %zu key tasks quick %zu thorough %zu\n", sigenc_tasks(false).size(), sigenc_tasks(true).size(), key_tasks(false).size(), key_tasks(true).size());
}
