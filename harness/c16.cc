// C16 — threshold signatures verify under the jointly generated key.
// (a) complete threshold Schnorr (new-TSch) and threshold DSS runs in the deterministic simulator; every
//     honest output is judged by an independent GMP implementation of the textbook verification equation
//     (the library's hash is the given random oracle), all honest parties must output the same signature;
// (b) the library verifiers against the reference on the range-boundary catalogue.
#include "parties.hh"
#include <map>
#include "mutate.hh"
using namespace vf;
const char *vf::PROPERTY = "C16";
void vf::harness_init() { silence_cerr(); }

struct Grp { Z p, q, g, h; unsigned long F, G; };
static Grp pick_grp(Ctx &ctx) {
  Grp r; GroupSpec gs{G_SCHNORR_CANON, 384, 128, (unsigned)ctx.c.index(3)};
  auto l = split_lines(vtmf_group_text(gs.kind, gs.fsize, gs.gsize, gs.idx)); r.p = zparse62(l[0]); r.q = zparse62(l[1]); r.g = zparse62(l[2]); r.F = gs.fsize; r.G = gs.gsize;
  r.h = zpowm(r.g, zrand_below(ctx, r.q - 2) + 2, r.p); return r;
}
// reference verifiers ------------------------------------------------------------------------------
static bool ref_schnorr(const Grp &G, const Z &y, const Z &m, const Z &c, const Z &s) {
  if (s < 0 || s >= G.q) return false;                 // range condition of the standard scheme
  Z yc = zpowm(y, c, G.p), inv = zinv(yc, G.p); if (inv == 0) return false;
  Z r = zpowm(G.g, s, G.p) * inv % G.p, hsh; tmcg_mpz_shash(hsh.get_mpz_t(), 2, m.get_mpz_t(), r.get_mpz_t());
  return hsh == c;
}
static bool ref_dsa(const Grp &G, const Z &y, const Z &m, const Z &r, const Z &s) {
  if (r <= 0 || r >= G.q || s <= 0 || s >= G.q) return false;
  Z w = zinv(s, G.q); if (w == 0) return false;
  Z u1 = zmod(m * w, G.q), u2 = zmod(r * w, G.q), v = zmod(zpowm(G.g, u1, G.p) * zpowm(y, u2, G.p), G.p) % G.q;
  return v == r;
}
static Z pick_message(Ctx &ctx, const Grp &G, std::string &cls) {
  switch (ctx.c.weighted({1, 1, 1, 1, 4})) { case 0: cls = "0"; return 0; case 1: cls = "1"; return 1; case 2: cls = "q-1"; return G.q - 1; case 3: cls = "q"; return G.q; default: cls = "random"; return zrand_bits(ctx, (unsigned)mpz_sizeinbase(G.q.get_mpz_t(), 2)); } // a hash value truncated to |q| bits (may exceed q)
}
struct FaultSet { std::vector<bool> present, libswitch, leaves, wrongkey; std::string desc; size_t count = 0; }; // wrongkey: honest in the key generation, then signs (unmodified library code) with a key share that no longer matches the public verification values // leaves: takes part honestly in the key generation and is gone when it comes to signing
static FaultSet pick_faults(Ctx &ctx, size_t n, size_t maxf) {
  FaultSet f; f.present.assign(n, true); f.libswitch.assign(n, false); f.leaves.assign(n, false); f.wrongkey.assign(n, false); size_t k = maxf ? (size_t)ctx.c.range(1, maxf) : 0;
  std::vector<size_t> idx(n); for (size_t i = 0; i < n; i++) idx[i] = i;
  for (size_t i = 0; i < k; i++) { size_t j = i + ctx.c.index(n - i); std::swap(idx[i], idx[j]); size_t who = idx[i]; switch (ctx.c.weighted({1, 2, 1, 2})) { case 3: f.wrongkey[who] = true; f.desc += " P" + std::to_string(who) + ":signs-with-altered-key-share"; break; case 0: f.present[who] = false; f.desc += " P" + std::to_string(who) + ":silent"; break; case 1: f.libswitch[who] = true; f.desc += " P" + std::to_string(who) + ":library-switch"; break;
      default: f.leaves[who] = true; f.desc += " P" + std::to_string(who) + ":leaves-after-key-generation"; } f.count++; }
  return f;
}

VF_SUB(threshold_schnorr_sign, 32, 1200) {
  Grp G = pick_grp(ctx); size_t n = (size_t)ctx.c.range(4, ctx.thorough ? 7 : 5), t = (size_t)ctx.c.range(1, (n - 1) / 3);
  FaultSet F = pick_faults(ctx, n, ctx.c.prob(3, 5) ? t : 0); std::string mcls; Z m = pick_message(ctx, G, mcls);
  Cluster cl(n, t, F.present);
  std::vector<GennaroJareckiKrawczykRabinNTS *> nts(n, nullptr); std::vector<bool> gret(n, false), sret(n, false), vret(n, false); std::vector<Z> C(n), S(n);
  std::ostringstream d; d << "threshold_schnorr n=" << n << " t=" << t << " m=" << mcls << " faults:" << (F.desc.empty() ? " none" : F.desc);
  bool simok = cl.run(ctx, [&](PartyEnv &e) {
    nts[e.i] = new GennaroJareckiKrawczykRabinNTS(n, t, e.i, G.p.get_mpz_t(), G.q.get_mpz_t(), G.g.get_mpz_t(), G.h.get_mpz_t(), G.F, G.G, true, false);
    e.rbc->setID("c16-nts-generate"); gret[e.i] = nts[e.i]->Generate(e.aiou, e.rbc, e.err, F.libswitch[e.i]); e.rbc->unsetID(); cl.barrier(e, 1); if (F.leaves[e.i]) return;
    if (F.wrongkey[e.i]) mpz_add_ui(nts[e.i]->z_i, nts[e.i]->z_i, 1);
    e.rbc->setID("c16-nts-sign"); sret[e.i] = nts[e.i]->Sign(m.get_mpz_t(), C[e.i].get_mpz_t(), S[e.i].get_mpz_t(), e.aiou, e.rbc, e.err, F.libswitch[e.i]); e.rbc->unsetID();
    if (sret[e.i]) vret[e.i] = nts[e.i]->Verify(m.get_mpz_t(), C[e.i].get_mpz_t(), S[e.i].get_mpz_t()); });
  ctx.desc << d.str() << " vtime=" << vf::vnow; ctx.label("n=" + std::to_string(n)); ctx.label(F.count ? "with-faults" : "fault-free"); ctx.label("m=" + mcls);
  ctx.nontrivial(d.str() + std::to_string(cl.bc.sent));
  if (!simok) ctx.fail("tsig/schnorr/simulation-deadlock-or-time-budget", d.str() + cl.task_errors());
  std::vector<size_t> H; for (size_t i = 0; i < n; i++) if (F.present[i] && !F.libswitch[i] && !F.leaves[i] && !F.wrongkey[i]) H.push_back(i);
  bool first = true; Z c0, s0;
  for (size_t i : H) { if (ctx.failed) break;
    if (!gret[i]) { ctx.fail("tsig/schnorr/honest-party-fails-key-generation", "party " + std::to_string(i) + " " + d.str() + " log: " + cl.env[i]->err.str().substr(0, 600) + cl.task_errors()); break; }
    if (!sret[i]) { ctx.fail("tsig/schnorr/honest-party-fails-signing", "party " + std::to_string(i) + " " + d.str() + " log: " + (getenv("VF_ALL_LOGS") ? cl.env[i]->err.str() : cl.env[i]->err.str().substr(0, 900)) + cl.task_errors()); break; }
    if (!ref_schnorr(G, Z(nts[i]->y), m, C[i], S[i])) { ctx.fail("tsig/schnorr/output-fails-reference-verification", "party " + std::to_string(i) + " c=" + vf::S(C[i]) + " s=" + vf::S(S[i]) + " " + d.str()); break; }
    if (!vret[i]) { ctx.fail("tsig/schnorr/library-verifier-refuses-own-output", d.str()); break; }
    if (first) { c0 = C[i]; s0 = S[i]; first = false; } else if (C[i] != c0 || S[i] != s0) { ctx.fail("tsig/schnorr/honest-parties-output-different-signatures", d.str()); break; }
    if (Z(nts[i]->y) != Z(nts[H[0]]->y)) { ctx.fail("tsig/schnorr/public-key-differs", d.str()); break; } }
  for (auto x : nts) delete x;
}

VF_SUB(threshold_dss_sign, 12, 400) {
  Grp G = pick_grp(ctx); size_t n = (size_t)ctx.c.range(4, 5), t = 1;
  FaultSet F = pick_faults(ctx, n, ctx.c.prob(3, 5) ? t : 0); std::string mcls; Z m = pick_message(ctx, G, mcls); bool do_refresh = ctx.c.coin();
  Cluster cl(n, t, F.present);
  std::vector<CanettiGennaroJareckiKrawczykRabinDSS *> dss(n, nullptr); std::vector<bool> gret(n, false), sret(n, false), rret(n, true), s2ret(n, true); std::vector<Z> R(n), S(n), R2(n), S2(n);
  std::ostringstream d; d << "threshold_dss n=" << n << " t=" << t << " m=" << mcls << (do_refresh ? " +refresh+sign" : "") << " faults:" << (F.desc.empty() ? " none" : F.desc);
  bool simok = cl.run(ctx, [&](PartyEnv &e) {
    dss[e.i] = new CanettiGennaroJareckiKrawczykRabinDSS(n, t, e.i, G.p.get_mpz_t(), G.q.get_mpz_t(), G.g.get_mpz_t(), G.h.get_mpz_t(), G.F, G.G, true, false);
    e.rbc->setID("c16-dss-generate"); gret[e.i] = dss[e.i]->Generate(e.aiou, e.rbc, e.err, F.libswitch[e.i]); e.rbc->unsetID(); cl.barrier(e, 1);
    if (F.leaves[e.i]) { cl.barrier(e, 2); if (do_refresh) cl.barrier(e, 3); return; } // keeps serving the broadcast layer inside the barriers, takes no part in the protocols
    if (F.wrongkey[e.i]) mpz_add_ui(dss[e.i]->x_i, dss[e.i]->x_i, 1);
    e.rbc->setID("c16-dss-sign"); sret[e.i] = dss[e.i]->Sign(n, e.i, m.get_mpz_t(), R[e.i].get_mpz_t(), S[e.i].get_mpz_t(), e.aiou, e.rbc, e.err, F.libswitch[e.i]); e.rbc->unsetID(); cl.barrier(e, 2);
    if (do_refresh) { e.rbc->setID("c16-dss-refresh"); rret[e.i] = dss[e.i]->Refresh(n, e.i, e.aiou, e.rbc, e.err, F.libswitch[e.i]); e.rbc->unsetID(); cl.barrier(e, 3);
      e.rbc->setID("c16-dss-sign-after-refresh"); s2ret[e.i] = dss[e.i]->Sign(n, e.i, m.get_mpz_t(), R2[e.i].get_mpz_t(), S2[e.i].get_mpz_t(), e.aiou, e.rbc, e.err, F.libswitch[e.i]); e.rbc->unsetID(); } });
  ctx.desc << d.str() << " vtime=" << vf::vnow; ctx.label("n=" + std::to_string(n)); ctx.label(F.count ? "with-faults" : "fault-free"); ctx.label("m=" + mcls); if (do_refresh) ctx.label("refresh");
  ctx.nontrivial(d.str() + std::to_string(cl.bc.sent));
  if (!simok) ctx.fail("tsig/dss/simulation-deadlock-or-time-budget", d.str() + cl.task_errors());
  std::vector<size_t> H; for (size_t i = 0; i < n; i++) if (F.present[i] && !F.libswitch[i] && !F.leaves[i] && !F.wrongkey[i]) H.push_back(i);
  bool first = true; Z r0, s0;
  for (size_t i : H) { if (ctx.failed) break; Z y(dss[i]->y);
    // a party may be disqualified-after-share-phase in key generation (known finding of C15 in the underlying DKG): then the key itself is inconsistent
    // the condition is visible in the key instance (share-phase QUAL vs final QUAL) and, for the per-signature instances
    // that live inside Sign(), only in the party's protocol log
    bool qual_shrunk = (dss[i]->dkg && dss[i]->dkg->x_rvss && dss[i]->dkg->x_rvss->QUAL.size() != dss[i]->dkg->QUAL.size()) || cl.env[i]->err.str().find("party erased from QUAL") != std::string::npos;
    std::string sfx = qual_shrunk ? "/party-disqualified-after-share-phase" : "";
    if (!gret[i]) { ctx.fail("tsig/dss/honest-party-fails-key-generation", "party " + std::to_string(i) + " " + d.str() + " log: " + cl.env[i]->err.str().substr(0, 600) + cl.task_errors()); break; }
    if (!sret[i]) { ctx.fail("tsig/dss/honest-party-fails-signing" + sfx, "party " + std::to_string(i) + " " + d.str() + " log tail: " + (getenv("VF_ALL_LOGS") ? cl.env[i]->err.str() : cl.env[i]->err.str().substr(cl.env[i]->err.str().size() > 900 ? cl.env[i]->err.str().size() - 900 : 0)) + cl.task_errors()); break; }
    if (!ref_dsa(G, y, m, R[i], S[i])) { std::ostringstream q1, q2; for (size_t z : dss[i]->QUAL) q1 << z << ","; if (dss[i]->dkg && dss[i]->dkg->x_rvss) for (size_t z : dss[i]->dkg->x_rvss->QUAL) q2 << z << ",";
      ctx.fail("tsig/dss/output-fails-reference-verification" + sfx, "party " + std::to_string(i) + " r=" + vf::S(R[i]) + " s=" + vf::S(S[i]) + " r<q:" + std::to_string(R[i] < G.q) + " s<q:" + std::to_string(S[i] < G.q) + " library-verify:" + std::to_string(dss[i]->Verify(m.get_mpz_t(), R[i].get_mpz_t(), S[i].get_mpz_t())) + " QUAL{" + q1.str() + "} share-phase-QUAL{" + q2.str() + "} " + d.str() + (getenv("VF_ALL_LOGS") ? "\n" + cl.env[i]->err.str() : std::string())); break; }
    if (!dss[i]->Verify(m.get_mpz_t(), R[i].get_mpz_t(), S[i].get_mpz_t())) { ctx.fail("tsig/dss/library-verifier-refuses-own-output", d.str()); break; }
    if (first) { r0 = R[i]; s0 = S[i]; first = false; } else if (R[i] != r0 || S[i] != s0) { ctx.fail("tsig/dss/honest-parties-output-different-signatures", d.str()); break; }
    if (do_refresh) { if (!rret[i]) { ctx.fail("tsig/dss/honest-party-fails-refresh" + sfx, "party " + std::to_string(i) + " " + d.str()); break; } if (!s2ret[i]) { ctx.fail("tsig/dss/honest-party-fails-signing-after-refresh" + sfx, "party " + std::to_string(i) + " " + d.str()); break; }
      if (!ref_dsa(G, y, m, R2[i], S2[i])) { ctx.fail("tsig/dss/output-after-refresh-fails-reference-verification" + sfx, d.str()); break; } } }
  for (auto x : dss) delete x;
}

// (b) verifier vs reference on the range-boundary catalogue -----------------------------------------
static std::vector<std::pair<std::string, Z> > boundary_catalogue(const Grp &G, const Z &v) {
  return {{"0", Z(0)}, {"1", Z(1)}, {"q-1", G.q - 1}, {"q", G.q}, {"q+1", G.q + 1}, {"v+q", v + G.q}, {"v-q", v - G.q}, {"-v", -v}, {"2^|q|", Z(1) << mpz_sizeinbase(G.q.get_mpz_t(), 2)}, {"2^2048", Z(1) << 2048}, {"2^2049", Z(1) << 2049}, {"v", v}, {"v+1", v + 1}};
}
// Threshold DSS with a REDUCED SIGNER SET: the key is generated by n parties; n - 1 of them sign over a network of their own,
// re-indexed 0..n-2, with the index maps the class takes for that purpose (as tests/t-astc2.cc does), optionally after a refresh
// among the same subset.  <= t members may run the library's faulty switch.
VF_SUB(threshold_dss_reduced_signer_set, 10, 400) {
  Grp G = pick_grp(ctx); const size_t n = 5, t = 1, n2 = n - 1; size_t dropped = ctx.c.index(n); std::string mcls; Z m = pick_message(ctx, G, mcls); bool do_refresh = ctx.c.prob(1, 3);
  std::vector<size_t> members; for (size_t i = 0; i < n; i++) if (i != dropped) members.push_back(i);
  size_t faulty = ctx.c.prob(1, 2) ? members[ctx.c.index(n2)] : n; // at most t = 1 member with the library's faulty switch in the signing phase
  bool wrongkey = faulty < n && ctx.c.coin(); // ... or with an altered key share and otherwise unmodified code
  std::vector<bool> present(n, true); Cluster cl(n, t, present); detsim::Net uni2(n2), bc2(n2); size_t done2 = 0, done3 = 0;
  std::vector<CanettiGennaroJareckiKrawczykRabinDSS *> dss(n, nullptr); std::vector<bool> gret(n, false), sret(n, false), rret(n, true); std::vector<Z> R(n), S(n);
  std::ostringstream d; d << "threshold_dss_reduced n=" << n << " t=" << t << " signers=all-but-P" << dropped << " m=" << mcls << (do_refresh ? " refresh-among-signers-first" : "") << " faults:" << (faulty < n ? " P" + std::to_string(faulty) + (wrongkey ? ":signs-with-altered-key-share" : ":library-switch(signing)") : " none");
  bool simok = cl.run(ctx, [&](PartyEnv &e) {
    dss[e.i] = new CanettiGennaroJareckiKrawczykRabinDSS(n, t, e.i, G.p.get_mpz_t(), G.q.get_mpz_t(), G.g.get_mpz_t(), G.h.get_mpz_t(), G.F, G.G, true, false);
    e.rbc->setID("c16-dssr-generate"); gret[e.i] = dss[e.i]->Generate(e.aiou, e.rbc, e.err, false); e.rbc->unsetID(); cl.barrier(e, 1);
    if (e.i == dropped) return;
    size_t k = 0; for (size_t z = 0; z < n2; z++) if (members[z] == e.i) k = z;
    detsim::SimNet a2u(n2, k, &uni2, cl.timeout), a2b(n2, k, &bc2, cl.timeout); CachinKursawePetzoldShoupRBC rbc2(n2, t, k, &a2b, aiounicast::aio_scheduler_roundrobin, cl.timeout);
    std::map<size_t, size_t> idx2dkg, dkg2idx; for (size_t z = 0; z < n2; z++) { idx2dkg[z] = members[z]; dkg2idx[members[z]] = z; }
    auto serve = [&](size_t &cnt) { cnt++; mpz_t tmp; mpz_init(tmp); size_t l; while (cnt < n2) rbc2.Deliver(tmp, l, aiounicast::aio_scheduler_roundrobin, 0); mpz_clear(tmp); };
    if (wrongkey && e.i == faulty) mpz_add_ui(dss[e.i]->x_i, dss[e.i]->x_i, 1);
    if (do_refresh) { rbc2.setID("c16-dssr-refresh"); rret[e.i] = dss[e.i]->Refresh(n2, k, idx2dkg, dkg2idx, &a2u, &rbc2, e.err, false); rbc2.unsetID(); serve(done3); }
    rbc2.setID("c16-dssr-sign"); sret[e.i] = dss[e.i]->Sign(n2, k, m.get_mpz_t(), R[e.i].get_mpz_t(), S[e.i].get_mpz_t(), idx2dkg, dkg2idx, &a2u, &rbc2, e.err, e.i == faulty && !wrongkey); rbc2.unsetID(); serve(done2); });
  ctx.desc << d.str() << " vtime=" << vf::vnow; ctx.label("reduced-signer-set"); ctx.label(faulty < n ? "with-faults" : "fault-free"); ctx.label("m=" + mcls); if (do_refresh) ctx.label("refresh");
  ctx.nontrivial(d.str() + std::to_string(cl.bc.sent + bc2.sent));
  if (!simok) ctx.fail("tsig/dss-reduced/simulation-deadlock-or-time-budget", d.str() + cl.task_errors());
  bool first = true; Z r0, s0;
  for (size_t i : members) { if (ctx.failed) break; if (i == faulty) continue; Z y(dss[i]->y);
    bool qual_shrunk = (dss[i]->dkg && dss[i]->dkg->x_rvss && dss[i]->dkg->x_rvss->QUAL.size() != dss[i]->dkg->QUAL.size()) || cl.env[i]->err.str().find("party erased from QUAL") != std::string::npos;
    std::string sfx = qual_shrunk ? "/party-disqualified-after-share-phase" : "";
    if (!gret[i]) { ctx.fail("tsig/dss-reduced/honest-party-fails-key-generation", "party " + std::to_string(i) + " " + d.str()); break; }
    if (!rret[i]) { ctx.fail("tsig/dss-reduced/honest-party-fails-refresh" + sfx, "party " + std::to_string(i) + " " + d.str() + " log: " + cl.env[i]->err.str().substr(0, 900)); break; }
    if (!sret[i]) { ctx.fail("tsig/dss-reduced/honest-party-fails-signing" + sfx, "party " + std::to_string(i) + " " + d.str() + " log: " + cl.env[i]->err.str().substr(0, 900) + cl.task_errors()); break; }
    Z mm = m; if (!ref_dsa(G, y, mm, R[i], S[i])) { ctx.fail("tsig/dss-reduced/output-fails-reference-verification" + sfx, "party " + std::to_string(i) + " r=" + vf::S(R[i]) + " s=" + vf::S(S[i]) + " " + d.str()); break; }
    if (!dss[i]->Verify(m.get_mpz_t(), R[i].get_mpz_t(), S[i].get_mpz_t())) { ctx.fail("tsig/dss-reduced/library-verifier-refuses-own-output", d.str()); break; }
    if (first) { r0 = R[i]; s0 = S[i]; first = false; } else if (R[i] != r0 || S[i] != s0) { ctx.fail("tsig/dss-reduced/honest-parties-output-different-signatures", d.str()); break; } }
  for (auto x : dss) delete x;
}

VF_SUB(schnorr_verifier_matches_reference, 900, 20000) {
  Grp G = pick_grp(ctx); Z x = zrand_below(ctx, G.q - 1) + 1, y = zpowm(G.g, x, G.p); std::string mcls; Z m = pick_message(ctx, G, mcls);
  static GennaroJareckiKrawczykRabinNTS *nts = nullptr; static std::string gkey; std::string k = z62(G.p) + z62(G.h);
  if (!nts || gkey != k) { delete nts; nts = new GennaroJareckiKrawczykRabinNTS(4, 1, 0, G.p.get_mpz_t(), G.q.get_mpz_t(), G.g.get_mpz_t(), G.h.get_mpz_t(), G.F, G.G, true, false); gkey = k; }
  mpz_set(nts->y, y.get_mpz_t());
  // textbook signature: r = g^k, c = H(m, r), s = k + c x mod q
  Z kk = zrand_below(ctx, G.q - 1) + 1, r = zpowm(G.g, kk, G.p), c; tmcg_mpz_shash(c.get_mpz_t(), 2, m.get_mpz_t(), r.get_mpz_t()); Z s = zmod(kk + c * x, G.q);
  if (!ref_schnorr(G, y, m, c, s)) { ctx.fail("harness/schnorr-reference-refuses-textbook-signature", "internal"); return; }
  size_t judged = 0;
  for (int comp = 0; comp < 2; comp++) for (auto &kv : boundary_catalogue(G, comp ? s : c)) {
    Z cc = comp ? c : kv.second, ss = comp ? kv.second : s; bool want = ref_schnorr(G, y, m, cc, ss), got = false;
    try { got = nts->Verify(m.get_mpz_t(), cc.get_mpz_t(), ss.get_mpz_t()); } catch (std::exception &) { got = false; }
    judged++;
    if (got != want) { ctx.fail(std::string("tsig/schnorr-verifier/") + (comp ? "s" : "c") + "=" + kv.first + (got ? "/accepted-but-reference-refuses" : "/refused-but-reference-accepts"), "m=" + mcls + " c=" + vf::S(cc) + " s=" + vf::S(ss)); }
  }
  ctx.count("triples_judged", (int64_t)judged); ctx.desc << "schnorr verifier m=" << mcls << " x=" << vf::S(x); ctx.label("m=" + mcls); ctx.nontrivial(ctx.desc.str());
}
VF_SUB(dsa_verifier_matches_reference, 900, 20000) {
  Grp G = pick_grp(ctx); Z x = zrand_below(ctx, G.q - 1) + 1, y = zpowm(G.g, x, G.p); std::string mcls; Z m = pick_message(ctx, G, mcls);
  static CanettiGennaroJareckiKrawczykRabinDSS *dss = nullptr; static std::string gkey; std::string k = z62(G.p) + z62(G.h);
  if (!dss || gkey != k) { delete dss; dss = new CanettiGennaroJareckiKrawczykRabinDSS(4, 1, 0, G.p.get_mpz_t(), G.q.get_mpz_t(), G.g.get_mpz_t(), G.h.get_mpz_t(), G.F, G.G, true, false); gkey = k; }
  mpz_set(dss->y, y.get_mpz_t());
  Z kk, r, s; for (;;) { kk = zrand_below(ctx, G.q - 1) + 1; r = zpowm(G.g, kk, G.p) % G.q; s = zmod(zinv(kk, G.q) * (m + x * r), G.q); if (r != 0 && s != 0) break; }
  if (!ref_dsa(G, y, m, r, s)) { ctx.fail("harness/dsa-reference-refuses-textbook-signature", "internal"); return; }
  size_t judged = 0;
  for (int comp = 0; comp < 2; comp++) for (auto &kv : boundary_catalogue(G, comp ? s : r)) {
    Z rr = comp ? r : kv.second, ss = comp ? kv.second : s; bool want = ref_dsa(G, y, m, rr, ss), got = false;
    try { got = dss->Verify(m.get_mpz_t(), rr.get_mpz_t(), ss.get_mpz_t()); } catch (std::exception &) { got = false; }
    judged++;
    if (got != want) { ctx.fail(std::string("tsig/dsa-verifier/") + (comp ? "s" : "r") + "=" + kv.first + (got ? "/accepted-but-reference-refuses" : "/refused-but-reference-accepts"), "m=" + mcls + " r=" + vf::S(rr) + " s=" + vf::S(ss)); }
  }
  ctx.count("triples_judged", (int64_t)judged); ctx.desc << "dsa verifier m=" << mcls << " x=" << vf::S(x); ctx.label("m=" + mcls); ctx.nontrivial(ctx.desc.str());
}
