// C02 — a shuffle is exactly a permutation plus re-masking.
// Oracles: opened types follow the secret's index vector (C01 opening procedure);
// index vectors are bijections / rotations; import accepts exactly bijections (reference: sort).
#include "cards.hh"
#include <algorithm>
using namespace vf;
const char *vf::PROPERTY = "C02";
void vf::harness_init() {}

static bool is_bijection(const std::vector<size_t> &v) { std::vector<size_t> s = v; std::sort(s.begin(), s.end()); for (size_t i = 0; i < s.size(); i++) if (s[i] != i) return false; return true; }
template <class SS> static std::vector<size_t> indices(const SS &ss) { std::vector<size_t> v; for (size_t i = 0; i < ss.size(); i++) v.push_back(ss[i].first); return v; }
static std::string vstr(const std::vector<size_t> &v) { std::ostringstream o; o << "["; for (size_t i = 0; i < v.size() && i < 24; i++) o << (i ? "," : "") << v[i]; if (v.size() > 24) o << ",..(" << v.size() << ")"; o << "]"; return o.str(); }
static std::vector<size_t> nth_permutation(size_t n, size_t idx) { std::vector<size_t> p(n); for (size_t i = 0; i < n; i++) p[i] = i; for (size_t i = 0; i < idx; i++) std::next_permutation(p.begin(), p.end()); return p; }
static size_t factorial(size_t n) { size_t f = 1; for (size_t i = 2; i <= n; i++) f *= i; return f; }

// judge the index vector of a freshly created secret
static bool check_created(Ctx &ctx, const std::vector<size_t> &pi, bool cyclic, size_t ret, size_t n, const std::string &enc, const std::string &d) {
  if (pi.size() != n) return !ctx.fail("secret/" + enc + "/wrong-size", d), false;
  if (!is_bijection(pi)) { ctx.fail("secret/" + enc + "/not-a-bijection", vstr(pi) + " " + d); return false; }
  if (cyclic) {
    for (size_t i = 0; i < n; i++) if (pi[i] != (pi[0] + i) % n) { ctx.fail("secret/" + enc + "/rotation-not-cyclic", vstr(pi) + " " + d); return false; }
    if ((n - pi[0]) % n != ret) { ctx.fail("secret/" + enc + "/rotation-offset-mismatch", "returned " + std::to_string(ret) + " for " + vstr(pi) + " " + d); return false; }
  }
  return true;
}

VF_SUB(vtmf_mix_follows_secret, 2000, 30000) {
  GroupSpec g = pick_group(ctx);
  size_t k = (size_t)ctx.c.range(1, 3), w = (size_t)ctx.c.range(1, 6), maxt = (size_t)1 << w;
  size_t n; switch (ctx.c.weighted({6, 3, 1})) { case 0: n = (size_t)ctx.c.range(1, 8); break; case 1: n = (size_t)ctx.c.range(9, 40); break; default: n = (size_t)ctx.c.range(41, ctx.thorough ? 512 : 96); }
  VtmfPlayers P(g, k);
  std::vector<SchindelhauerTMCG *> T; for (size_t i = 0; i < k; i++) T.push_back(new SchindelhauerTMCG(16, k, w));
  std::vector<size_t> types(n); bool repeats = ctx.c.coin();
  for (size_t i = 0; i < n; i++) types[i] = repeats ? ctx.c.index(std::min<size_t>(maxt, 3)) : ctx.c.index(maxt);
  TMCG_Stack<VTMF_Card> s;
  for (size_t i = 0; i < n; i++) { VTMF_Card c; if (ctx.c.coin()) T[0]->TMCG_CreateOpenCard(c, P[0], types[i]); else { VTMF_CardSecret cs; T[0]->TMCG_CreatePrivateCard(c, cs, P[0], types[i]); } s.push(c); }
  size_t rounds = (size_t)ctx.c.range(1, n <= 16 ? 3 : 1);
  std::ostringstream d; d << group_desc(g) << " k=" << k << " w=" << w << " n=" << n << " types=" << vstr(types) << " rounds=";
  bool anynonid = false; bool keep_secret_object = ctx.c.coin(); TMCG_StackSecret<VTMF_CardSecret> ss; if (keep_secret_object && rounds > 1) ctx.label("secret-object-kept-across-rounds");
  for (size_t r = 0; r < rounds && !ctx.failed; r++) {
    size_t j = ctx.c.index(k); bool cyclic = (n >= 2) && ctx.c.prob(1, 3), tap = ctx.c.coin(), explicit_pi = (!cyclic && n <= 5 && ctx.c.coin());
    if (!keep_secret_object || explicit_pi) ss.clear(); // the explicit-permutation overload appends by design
    size_t ret = 0; std::vector<size_t> want;
    if (explicit_pi) { want = nth_permutation(n, ctx.c.index(factorial(n))); T[j]->TMCG_CreateStackSecret(ss, want, n, P[j]); }
    else ret = T[j]->TMCG_CreateStackSecret(ss, cyclic, n, P[j]);
    std::vector<size_t> pi = indices(ss);
    d << (r ? ";" : "") << "P" << j << (cyclic ? "rot" : explicit_pi ? "pi" : "perm") << vstr(pi);
    if (explicit_pi && pi != want) { ctx.fail("secret/vtmf/explicit-permutation-not-used", vstr(pi) + " wanted " + vstr(want)); break; }
    if (!check_created(ctx, pi, cyclic, ret, n, "vtmf", d.str())) break;
    for (size_t i = 0; i < n; i++) if (pi[i] != i) anynonid = true;
    TMCG_Stack<VTMF_Card> s2;
    T[j]->TMCG_MixStack(s, s2, ss, P[j], tap);
    if (s2.size() != n) { ctx.fail("mix/vtmf/size-changed", d.str()); break; }
    std::vector<size_t> nt(n); for (size_t i = 0; i < n; i++) nt[i] = types[pi[i]];
    types = nt; s = s2;
  }
  ctx.desc << d.str(); ctx.label(group_kind_name(g.kind)); ctx.label(n <= 8 ? "n<=8" : n <= 40 ? "n<=40" : "n>40");
  if (n >= 3 && anynonid) ctx.nontrivial(d.str());
  // open every card of the final stack at one generated player
  size_t who = ctx.c.index(k);
  for (size_t i = 0; i < n && !ctx.failed; i++) {
    bool ver; size_t t = vtmf_open(P, T, s[i], who, k, ver);
    if (!ver) ctx.fail("mix/vtmf/honest-share-refused", "card " + std::to_string(i) + " " + d.str());
    else if (t != types[i]) ctx.fail("mix/vtmf/card-opens-to-wrong-type", "card " + std::to_string(i) + " opened " + std::to_string(t) + " expected " + std::to_string(types[i]) + " : " + d.str());
  }
  for (auto t : T) delete t;
}

VF_SUB(rabin_mix_follows_secret, 150, 4000) {
  size_t k = (size_t)ctx.c.range(1, 3), w = (size_t)ctx.c.range(1, 3), maxt = (size_t)1 << w, n = (size_t)ctx.c.range(1, 7);
  unsigned long kappa = (unsigned long)ctx.c.range(0, 2);
  std::ostringstream d; d << "rabin k=" << k << " w=" << w << " n=" << n << " kappa=" << kappa;
  RabinPlayers P(ctx, k, d);
  SchindelhauerTMCG tmcg(kappa, k, w);
  std::vector<size_t> types(n); for (size_t i = 0; i < n; i++) types[i] = ctx.c.index(maxt);
  TMCG_Stack<TMCG_Card> s;
  for (size_t i = 0; i < n; i++) { TMCG_Card c(k, w); tmcg.TMCG_CreateOpenCard(c, P.ring, types[i]); s.push(c); }
  size_t rounds = (size_t)ctx.c.range(1, 2); bool anynonid = false; bool keep_secret_object = ctx.c.coin(); TMCG_StackSecret<TMCG_CardSecret> ss; if (keep_secret_object && rounds > 1) ctx.label("secret-object-kept-across-rounds"); d << " types=" << vstr(types) << " rounds=";
  for (size_t r = 0; r < rounds && !ctx.failed; r++) {
    size_t j = ctx.c.index(k); bool cyclic = (n >= 2) && ctx.c.prob(1, 3), tap = ctx.c.coin(), explicit_pi = (!cyclic && n <= 5 && ctx.c.coin());
    if (!keep_secret_object || explicit_pi) ss.clear(); // the explicit-permutation overload appends by design
    size_t ret = 0; std::vector<size_t> want;
    if (explicit_pi) { want = nth_permutation(n, ctx.c.index(factorial(n))); tmcg.TMCG_CreateStackSecret(ss, want, P.ring, j, n); }
    else ret = tmcg.TMCG_CreateStackSecret(ss, cyclic, P.ring, j, n);
    std::vector<size_t> pi = indices(ss);
    d << (r ? ";" : "") << "P" << j << (cyclic ? "rot" : explicit_pi ? "pi" : "perm") << vstr(pi);
    if (explicit_pi && pi != want) { ctx.fail("secret/rabin/explicit-permutation-not-used", vstr(pi)); break; }
    if (!check_created(ctx, pi, cyclic, ret, n, "rabin", d.str())) break;
    for (size_t i = 0; i < n; i++) if (pi[i] != i) anynonid = true;
    TMCG_Stack<TMCG_Card> s2; tmcg.TMCG_MixStack(s, s2, ss, P.ring, tap);
    if (s2.size() != n) { ctx.fail("mix/rabin/size-changed", d.str()); break; }
    std::vector<size_t> nt(n); for (size_t i = 0; i < n; i++) nt[i] = types[pi[i]];
    types = nt; s = s2;
  }
  ctx.desc << d.str(); ctx.label("rabin n=" + std::to_string(n));
  if (n >= 3 && anynonid) ctx.nontrivial(d.str());
  size_t who = ctx.c.index(k);
  for (size_t i = 0; i < n && !ctx.failed; i++) {
    bool ver; std::string why; size_t t = rabin_open(ctx, P, kappa, w, s[i], who, ver, why);
    if (!ver) ctx.fail("mix/rabin/honest-share-refused", why + " " + d.str());
    else if (t != types[i]) ctx.fail("mix/rabin/card-opens-to-wrong-type", "card " + std::to_string(i) + " opened " + std::to_string(t) + " expected " + std::to_string(types[i]) + " : " + d.str());
  }
}

// every freshly generated secret holds a bijection / rotation, all sizes up to TMCG_MAX_CARDS
VF_SUB(created_secret_is_bijection, 1500, 40000) {
  static VtmfPlayers *P = nullptr; static SchindelhauerTMCG *T = nullptr; static RabinPlayers *RP = nullptr; static SchindelhauerTMCG *RT = nullptr;
  if (!P) { GroupSpec g{G_SCHNORR, 384, 128, 0}; rng_push(77); P = new VtmfPlayers(g, 1); rng_pop(); T = new SchindelhauerTMCG(16, 1, 1); }
  bool cyclic = ctx.c.coin();
  size_t n; switch (ctx.c.weighted({5, 3, 2})) { case 0: n = (size_t)ctx.c.range(cyclic ? 2 : 1, 8); break; case 1: n = (size_t)ctx.c.range(9, 64); break; default: n = (size_t)ctx.c.range(65, TMCG_MAX_CARDS); }
  if (ctx.c.prob(1, 20)) n = TMCG_MAX_CARDS;
  // the secret object handed to the generator: fresh, or one that already holds an earlier secret (applications re-draw a rotation
  // until the wanted offset appears and keep one secret variable across shuffles), or one that was filled by an import
  bool rabin = ctx.c.prob(1, 4); if (rabin && n > 40) n = 2 + n % 39; // the Rabin-type card secrets cost a Jacobi search per bit
  int reuse = (int)ctx.c.weighted({2, 2, 1}); size_t m = reuse ? (ctx.c.coin() ? n : (size_t)ctx.c.range(1, rabin ? 12 : 40)) : 0; bool cyc0 = m >= 2 && ctx.c.coin();
  std::vector<size_t> pi; size_t ret;
  if (!rabin) {
    TMCG_StackSecret<VTMF_CardSecret> ss;
    if (reuse == 1) T->TMCG_CreateStackSecret(ss, cyc0, m, (*P)[0]);
    else if (reuse == 2) { TMCG_StackSecret<VTMF_CardSecret> o; T->TMCG_CreateStackSecret(o, cyc0, m, (*P)[0]); std::ostringstream os; os << o; if (!ss.import(os.str())) { ctx.fail("import/stacksecret/bijection-refused", "own export of a generated secret, m=" + std::to_string(m)); return; } }
    ret = T->TMCG_CreateStackSecret(ss, cyclic, n, (*P)[0]); pi = indices(ss);
  } else {
    if (!RP) { RP = new RabinPlayers(1, 672, 0); RT = new SchindelhauerTMCG(2, 1, 1); }
    TMCG_StackSecret<TMCG_CardSecret> ss;
    if (reuse == 1) RT->TMCG_CreateStackSecret(ss, cyc0, RP->ring, 0, m);
    else if (reuse == 2) { TMCG_StackSecret<TMCG_CardSecret> o; RT->TMCG_CreateStackSecret(o, cyc0, RP->ring, 0, m); std::ostringstream os; os << o; if (!ss.import(os.str())) { ctx.fail("import/stacksecret/bijection-refused", "own export of a generated secret (TMCG_CardSecret), m=" + std::to_string(m)); return; } }
    ret = RT->TMCG_CreateStackSecret(ss, cyclic, RP->ring, 0, n); pi = indices(ss);
  }
  const char *rn = reuse == 0 ? "fresh-object" : reuse == 1 ? "object-held-earlier-secret" : "object-held-imported-secret";
  ctx.desc << (rabin ? "rabin " : "vtmf ") << (cyclic ? "rotation" : "permutation") << " n=" << n << " " << rn << (reuse ? " of size " + std::to_string(m) : "") << " -> " << vstr(pi) << " ret=" << ret;
  check_created(ctx, pi, cyclic, ret, n, std::string(rabin ? "rabin" : "vtmf") + (reuse ? "/reused-object" : ""), ctx.desc.str());
  ctx.label(cyclic ? "rotation" : "permutation"); ctx.label(n <= 8 ? "n<=8" : n <= 64 ? "n<=64" : "n>64"); ctx.label(rabin ? "rabin" : "vtmf"); ctx.label(rn);
  bool nonid = false; for (size_t i = 0; i < pi.size(); i++) if (pi[i] != i) nonid = true;
  if (n >= 3 && nonid) ctx.nontrivial(ctx.desc.str());
}

// import accepts exactly the bijections: ALL index vectors over {0..n-1}^n for n <= 4 (5 in thorough)
static void import_case(Ctx &ctx, const std::vector<size_t> &vec, bool rabin_secret) {
  size_t n = vec.size(); std::string text; std::vector<Z> rs;
  if (!rabin_secret) {
    TMCG_StackSecret<VTMF_CardSecret> ss;
    for (size_t i = 0; i < n; i++) { VTMF_CardSecret cs; Z r = zrand_bits(ctx, 64) + 1; rs.push_back(r); mpz_set(cs.r, r.get_mpz_t()); ss.push(vec[i], cs); }
    std::ostringstream o; o << ss; text = o.str();
    TMCG_StackSecret<VTMF_CardSecret> in; bool ok = in.import(text), want = is_bijection(vec);
    if (ok != want) { ctx.fail(want ? "import/stacksecret/bijection-refused" : "import/stacksecret/non-bijection-accepted", vstr(vec) + " text=" + text.substr(0, 120)); return; }
    if (ok) { bool same = in.size() == n; for (size_t i = 0; same && i < n; i++) same = in[i].first == vec[i] && Z(in[i].second.r) == rs[i]; if (!same) ctx.fail("import/stacksecret/imported-object-differs", vstr(vec)); }
  } else {
    TMCG_StackSecret<TMCG_CardSecret> ss;
    for (size_t i = 0; i < n; i++) { TMCG_CardSecret cs(2, 2); for (size_t a = 0; a < 2; a++) for (size_t b = 0; b < 2; b++) { mpz_set_ui(&cs.r[a][b], 5 + ctx.c.raw()); mpz_set_ui(&cs.b[a][b], ctx.c.coin()); } ss.push(vec[i], cs); }
    std::ostringstream o; o << ss; text = o.str();
    TMCG_StackSecret<TMCG_CardSecret> in; bool ok = in.import(text), want = is_bijection(vec);
    if (ok != want) { ctx.fail(want ? "import/stacksecret/bijection-refused" : "import/stacksecret/non-bijection-accepted", vstr(vec) + " (TMCG_CardSecret)"); return; }
    if (ok) { std::ostringstream o2; o2 << in; if (o2.str() != text) ctx.fail("import/stacksecret/imported-object-differs", vstr(vec) + " (TMCG_CardSecret)"); }
  }
}
VF_ENUM(import_all_index_vectors, 288, 3413) {
  size_t idx = ctx.c.raw(), n = 1, cnt = 1; // unrank: n=1 has 1 vector, n=2: 4, n=3: 27, n=4: 256, n=5: 3125
  while (idx >= cnt) { idx -= cnt; n++; cnt = 1; for (size_t i = 0; i < n; i++) cnt *= n; }
  std::vector<size_t> vec(n); for (size_t i = 0; i < n; i++) { vec[i] = idx % n; idx /= n; }
  import_case(ctx, vec, ctx.c.coin());
  ctx.desc << "n=" << n << " index vector " << vstr(vec) << (is_bijection(vec) ? " (bijection)" : " (not a bijection)");
  ctx.label(is_bijection(vec) ? "bijection" : "non-bijection"); ctx.label("n=" + std::to_string(n));
  ctx.nontrivial(vstr(vec));
}
VF_SUB(import_sampled_index_vectors, 1200, 30000) {
  size_t n; switch (ctx.c.weighted({4, 4, 2})) { case 0: n = (size_t)ctx.c.range(2, 8); break; case 1: n = (size_t)ctx.c.range(9, 64); break; default: n = (size_t)ctx.c.range(65, ctx.thorough ? TMCG_MAX_CARDS : 200); }
  std::vector<size_t> vec(n); for (size_t i = 0; i < n; i++) vec[i] = i;
  for (size_t i = n - 1; i > 0; i--) std::swap(vec[i], vec[ctx.c.index(i + 1)]);
  std::string kind;
  switch (ctx.c.weighted({3, 3, 2, 2})) {
    case 0: kind = "valid"; break;
    case 1: { size_t a = ctx.c.index(n), b = (a + 1 + ctx.c.index(n - 1)) % n; vec[a] = vec[b]; kind = "duplicate"; break; }
    case 2: { vec[ctx.c.index(n)] = n + ctx.c.index(3); kind = "out-of-range"; break; }
    default: { vec[ctx.c.index(n)] = ctx.c.index(n); kind = "random-overwrite"; break; }
  }
  bool rabin = (n <= 32) && ctx.c.coin();
  if (kind == "out-of-range") { // push() accepts any index; the exporter prints it; import must refuse
  }
  import_case(ctx, vec, rabin);
  ctx.desc << kind << " n=" << n << " " << vstr(vec); ctx.label(kind); ctx.label(is_bijection(vec) ? "bijection" : "non-bijection");
  if (!is_bijection(vec)) ctx.nontrivial(kind + vstr(vec) + std::to_string(n));
}
