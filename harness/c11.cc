// C11 — export and import round-trip every object unchanged.
// Objects are built from generated VALUES (no cryptographic meaning).  Oracles:
//  (a) the exported text equals the harness's own serialisation of the generated values
//      (format knowledge + GMP's mpz_get_str, independent of the exporter under test);
//  (b) import(export(x)) == x (operator== where the class has one, field-wise otherwise);
//  (c) export(import(export(x))) == export(x) as text;
//  (d) import into a USED object (other dimensions/values) == import into a fresh one
//      for the resetting types (cards, card secrets, keys).
#include "fix.hh"
#include <algorithm>
using namespace vf;
const char *vf::PROPERTY = "C11";
void vf::harness_init() {}
// many small GMP objects per case: keep ASan's quarantine small (see HARNESS_GUIDE)
extern "C" const char *__asan_default_options() { return "quarantine_size_mb=16"; }

typedef std::vector<Z> ZV;
static const size_t MAXLINE = TMCG_MAX_VALUE_CHARS - 2; // longest line operator>>(istream&, mpz_ptr) takes in completely: getline(buf, TMCG_MAX_VALUE_CHARS - 1)

// --------------------------------------------------------------------------- generated integers
struct ValGen {
  Ctx &ctx; size_t big_left; std::set<std::string> hit; bool boundary = false;
  ValGen(Ctx &c, size_t big) : ctx(c), big_left(big) {}
  Z maxlen(bool neg) { // base-62 text of exactly MAXLINE characters (sign included)
    size_t digits = MAXLINE - (neg ? 1 : 0); Z top; mpz_ui_pow_ui(top.get_mpz_t(), 62, digits);
    Z v; if (ctx.c.coin()) v = top - 1 - zrand_bits(ctx, 64); else { mpz_ui_pow_ui(v.get_mpz_t(), 62, digits - 1); v += zrand_bits(ctx, 64); }
    return neg ? Z(-v) : v;
  }
  Z any() {
    size_t k = ctx.c.weighted({2, 1, 2, 2, 1, 1, 1, 8, 2, 3}); if ((k == 5 || k == 6) && !big_left) k = 7;
    static const char *nm[] = {"zero", "one", "minus-one", "-(2^k)", "2^k", "max-length", "negative-max-length", "random", "negative-random", "small"};
    hit.insert(nm[k]); if (k <= 6 || k == 8) boundary = k != 1 && k != 4 ? true : boundary;
    switch (k) {
      case 0: return 0; case 1: return 1; case 2: return -1;
      case 3: return -(Z(1) << ctx.c.small(1, 2100)); case 4: return Z(1) << ctx.c.small(1, 2100);
      case 5: big_left--; return maxlen(false); case 6: big_left--; return maxlen(true);
      case 7: return zrand_bits(ctx, (unsigned)ctx.c.small(1, 2100));
      case 8: return -zrand_bits(ctx, (unsigned)ctx.c.small(1, 2100)) - 1;
      default: return Z((unsigned long)ctx.c.range(0, 70));
    }
  }
  Z positive(unsigned maxbits) { return zrand_bits(ctx, (unsigned)ctx.c.small(2, maxbits)) + 2; }
  std::string classes() const { std::string s; for (auto &h : hit) { if (!s.empty()) s += ","; s += h; } return s; }
};
static std::string clip(const std::string &s, size_t n = 80) { return s.size() <= n ? s : s.substr(0, n / 2) + ".." + s.substr(s.size() - n / 2) + "(" + std::to_string(s.size()) + " chars)"; }
static std::string first_diff(const std::string &a, const std::string &b) {
  size_t i = 0; while (i < a.size() && i < b.size() && a[i] == b[i]) i++;
  std::ostringstream o; o << "lengths " << a.size() << "/" << b.size() << ", first difference at offset " << i << ": '" << jstr(a.substr(i, 24)) << "' vs '" << jstr(b.substr(i, 24)) << "'"; return o.str();
}
template <class T> static std::string text_of(const T &x) { std::ostringstream o; o << x; return o.str(); }
static bool zeq(mpz_srcptr a, const Z &b) { return mpz_cmp(a, b.get_mpz_t()) == 0; }

// =========================================================================== (1) raw integers
VF_SUB(integer_stream_roundtrip, 5400, 100000) {
  size_t cnt = (size_t)ctx.c.range(1, 5); ValGen vg(ctx, 2); ZV vals; std::string ref; std::stringstream ss;
  for (size_t i = 0; i < cnt; i++) { vals.push_back(vg.any()); ref += z62(vals[i]) + "\n"; ss << vals[i].get_mpz_t() << std::endl; }
  ctx.desc << cnt << " integers (" << vg.classes() << ") through operator<< / operator>>"; for (auto &h : vg.hit) ctx.label("value:" + h);
  if (vg.boundary) ctx.nontrivial("int" + std::to_string(hash_str(ref)));
  if (ss.str() != ref) ctx.fail("roundtrip/integer/exported-text-differs", ctx.desc.str() + ": " + first_diff(ss.str(), ref));
  for (size_t i = 0; i < cnt && !ctx.failed; i++) {
    Z r = 12345;
    try { ss >> r.get_mpz_t(); } catch (const std::exception &e) { ctx.fail("roundtrip/integer/import-throws", ctx.desc.str() + ": value " + S(vals[i]) + ": " + e.what()); break; }
    if (!ss.good() && !(ss.eof() && i + 1 == cnt)) { ctx.fail("roundtrip/integer/stream-failed", ctx.desc.str() + ": after value " + std::to_string(i) + " = " + S(vals[i])); break; }
    if (r != vals[i]) ctx.fail("roundtrip/integer/differs", ctx.desc.str() + ": wrote " + S(vals[i]) + ", read " + S(r));
  }
  // the libgcrypt integer type: mpz -> gcry_mpi -> text (hexadecimal buffer of TMCG_MAX_VALUE_CHARS characters inside)
  if (ctx.c.coin()) {
    const Z &v = vals[ctx.c.index(cnt)]; gcry_mpi_t g = gcry_mpi_new(8); ctx.label("gcry_mpi");
    if (!tmcg_mpz_get_gcry_mpi(g, v.get_mpz_t())) ctx.fail("roundtrip/gcry_mpi/conversion-failed", S(v));
    else {
      std::ostringstream o; bool thrown = false; try { o << g; } catch (const std::runtime_error &) { thrown = true; }
      size_t hexlen = mpz_sizeinbase(v.get_mpz_t(), 16) + (v < 0 ? 1 : 0);
      if (thrown) { if (hexlen + 2 < TMCG_MAX_VALUE_CHARS - 1) ctx.fail("roundtrip/gcry_mpi/export-throws", ctx.desc.str() + ": " + S(v)); else ctx.count("gcry_mpi-too-long-refused"); }
      else if (o.str() != z62(v)) ctx.fail("roundtrip/gcry_mpi/exported-text-differs", ctx.desc.str() + ": " + S(v) + " printed as " + clip(o.str()));
    }
    gcry_mpi_release(g);
  }
}

// =========================================================================== (2) cards and card secrets
// Per type: fill an object with generated values (returning the reference text), and flatten an object to (shape, values).
struct Shape { std::string dims; ZV v; bool operator==(const Shape &o) const { return dims == o.dims && v == o.v; } };
struct DimGen { size_t k, w; bool boundary; };
static DimGen gen_dims(Ctx &ctx, size_t budget_cells) {
  DimGen d; size_t a = ctx.c.weighted({2, 2, 6}), b = ctx.c.weighted({2, 2, 6});
  d.k = a == 0 ? 1 : a == 1 ? TMCG_MAX_PLAYERS : (size_t)ctx.c.small(1, TMCG_MAX_PLAYERS);
  d.w = b == 0 ? 1 : b == 1 ? TMCG_MAX_TYPEBITS : (size_t)ctx.c.small(1, TMCG_MAX_TYPEBITS);
  while (d.k * d.w > budget_cells) { if (d.k >= d.w && d.k > 1) d.k /= 2; else d.w = (d.w + 1) / 2; }
  d.boundary = d.k == 1 || d.k == TMCG_MAX_PLAYERS || d.w == 1 || d.w == TMCG_MAX_TYPEBITS; return d;
}
struct XTmcgCard { typedef TMCG_Card T; static const char *name() { return "TMCG_Card"; } static const bool has_eq = true;
  static std::string fill(T &c, Ctx &ctx, ValGen &vg, size_t cells, const DimGen *fixed, bool &bdim) {
    DimGen d = fixed ? *fixed : gen_dims(ctx, cells); bdim = bdim || d.boundary; c.resize(d.k, d.w);
    std::string ref = "crd|" + std::to_string(d.k) + "|" + std::to_string(d.w) + "|";
    for (size_t i = 0; i < d.k; i++) for (size_t j = 0; j < d.w; j++) { Z v = vg.any(); mpz_set(&c.z[i][j], v.get_mpz_t()); ref += z62(v) + "|"; }
    return ref; }
  static void flat(const T &c, Shape &s) { s.dims += std::to_string(c.z.size()) + "x" + std::to_string(c.z.empty() ? 0 : c.z[0].size()) + ";";
    for (auto &row : c.z) { s.dims += std::to_string(row.size()) + ","; for (auto &e : row) s.v.push_back(Z(&e)); } }
  static bool eq(const T &a, const T &b) { return a == b && !(a != b); }
  static bool stack_eq(TMCG_Stack<T> &a, TMCG_Stack<T> &b) { return a == b && !(a != b); } };
struct XTmcgCardSecret { typedef TMCG_CardSecret T; static const char *name() { return "TMCG_CardSecret"; } static const bool has_eq = false;
  static std::string fill(T &c, Ctx &ctx, ValGen &vg, size_t cells, const DimGen *fixed, bool &bdim) {
    DimGen d = fixed ? *fixed : gen_dims(ctx, cells / 2 ? cells / 2 : 1); bdim = bdim || d.boundary; c.resize(d.k, d.w);
    std::string ref = "crs|" + std::to_string(d.k) + "|" + std::to_string(d.w) + "|";
    for (size_t i = 0; i < d.k; i++) for (size_t j = 0; j < d.w; j++) { Z r = vg.any(), b = ctx.c.prob(3, 4) ? Z((unsigned long)ctx.c.index(2)) : vg.any();
      mpz_set(&c.r[i][j], r.get_mpz_t()); mpz_set(&c.b[i][j], b.get_mpz_t()); ref += z62(r) + "|" + z62(b) + "|"; }
    return ref; }
  static void flat(const T &c, Shape &s) { s.dims += std::to_string(c.r.size()) + "x" + std::to_string(c.r.empty() ? 0 : c.r[0].size()) + "/" + std::to_string(c.b.size()) + ";";
    for (size_t i = 0; i < c.r.size(); i++) { s.dims += std::to_string(c.r[i].size()) + "," + std::to_string(i < c.b.size() ? c.b[i].size() : 0) + ","; for (size_t j = 0; j < c.r[i].size(); j++) { s.v.push_back(Z(&c.r[i][j])); if (i < c.b.size() && j < c.b[i].size()) s.v.push_back(Z(&c.b[i][j])); } } }
  static bool eq(const T &, const T &) { return true; }
  static bool stack_eq(TMCG_Stack<T> &, TMCG_Stack<T> &) { return true; } };
struct XVtmfCard { typedef VTMF_Card T; static const char *name() { return "VTMF_Card"; } static const bool has_eq = true;
  static std::string fill(T &c, Ctx &, ValGen &vg, size_t, const DimGen *, bool &) { Z a = vg.any(), b = vg.any(); mpz_set(c.c_1, a.get_mpz_t()); mpz_set(c.c_2, b.get_mpz_t()); return "crd|" + z62(a) + "|" + z62(b) + "|"; }
  static void flat(const T &c, Shape &s) { s.dims += "2;"; s.v.push_back(Z(c.c_1)); s.v.push_back(Z(c.c_2)); }
  static bool eq(const T &a, const T &b) { return a == b && !(a != b); }
  static bool stack_eq(TMCG_Stack<T> &a, TMCG_Stack<T> &b) { return a == b && !(a != b); } };
struct XVtmfCardSecret { typedef VTMF_CardSecret T; static const char *name() { return "VTMF_CardSecret"; } static const bool has_eq = false;
  static std::string fill(T &c, Ctx &, ValGen &vg, size_t, const DimGen *, bool &) { Z a = vg.any(); mpz_set(c.r, a.get_mpz_t()); return "crs|" + z62(a) + "|"; }
  static void flat(const T &c, Shape &s) { s.dims += "1;"; s.v.push_back(Z(c.r)); }
  static bool eq(const T &, const T &) { return true; }
  static bool stack_eq(TMCG_Stack<T> &, TMCG_Stack<T> &) { return true; } };

template <class T> static bool import_one(T &obj, const std::string &text, bool via_stream) {
  if (!via_stream) return obj.import(text);
  std::istringstream in(text + "\n"); in >> obj; return !in.fail();
}
static std::string describe_diff(const Shape &a, const Shape &b) {
  if (a.dims != b.dims) return "shape " + clip(a.dims, 40) + " vs " + clip(b.dims, 40);
  for (size_t i = 0; i < a.v.size() && i < b.v.size(); i++) if (a.v[i] != b.v[i]) return "value #" + std::to_string(i) + ": " + S(a.v[i]) + " vs " + S(b.v[i]);
  return "value counts " + std::to_string(a.v.size()) + " vs " + std::to_string(b.v.size());
}

template <class X> static void card_case(Ctx &ctx) {
  typedef typename X::T T; const std::string nm = X::name(); ValGen vg(ctx, 2); bool bdim = false;
  T a; std::string ref = X::fill(a, ctx, vg, 320, nullptr, bdim); Shape sa; X::flat(a, sa);
  bool via_stream = ctx.c.prob(1, 3);
  ctx.desc << nm << " " << sa.dims << " values(" << vg.classes() << ") import via " << (via_stream ? "operator>>" : "import()");
  ctx.label(nm); for (auto &h : vg.hit) ctx.label("value:" + h); if (bdim) ctx.label("dimension-at-boundary");
  if (bdim || vg.boundary) ctx.nontrivial(nm + std::to_string(hash_str(ref)));
  std::string t1 = text_of(a);
  if (t1 != ref) ctx.fail("roundtrip/" + nm + "/exported-text-differs", ctx.desc.str() + ": " + first_diff(t1, ref));
  T b; if (!import_one(b, t1, via_stream)) { ctx.fail("roundtrip/" + nm + "/import-refused", ctx.desc.str() + ": " + clip(t1)); return; }
  Shape sb; X::flat(b, sb);
  if (!(sa == sb)) ctx.fail("roundtrip/" + nm + "/differs", ctx.desc.str() + ": " + describe_diff(sa, sb));
  else if (X::has_eq && !X::eq(a, b)) ctx.fail("roundtrip/" + nm + "/operator==-false-for-equal-objects", ctx.desc.str());
  std::string t2 = text_of(b);
  if (t2 != t1) ctx.fail("roundtrip/" + nm + "/re-exported-text-differs", ctx.desc.str() + ": " + first_diff(t2, t1));
  // a used object (other dimensions, other values) must end up identical to the fresh one
  T u; ValGen vg2(ctx, 0); bool dummy = false; X::fill(u, ctx, vg2, 320, nullptr, dummy); Shape su0; X::flat(u, su0);
  if (!import_one(u, t1, ctx.c.prob(1, 3))) { ctx.fail("roundtrip/" + nm + "/import-into-used-object-refused", ctx.desc.str() + " (used object was " + su0.dims + ")"); return; }
  Shape su; X::flat(u, su);
  if (!(su == sb)) ctx.fail("roundtrip/" + nm + "/import-into-used-object-differs", ctx.desc.str() + " (used object was " + su0.dims + "): " + describe_diff(sb, su));
  else if (text_of(u) != t1) ctx.fail("roundtrip/" + nm + "/re-exported-text-of-used-object-differs", ctx.desc.str());
}
VF_SUB(card_roundtrip, 5200, 90000) {
  switch (ctx.c.weighted({4, 4, 2, 1})) { case 0: card_case<XTmcgCard>(ctx); break; case 1: card_case<XTmcgCardSecret>(ctx); break; case 2: card_case<XVtmfCard>(ctx); break; default: card_case<XVtmfCardSecret>(ctx); }
}

// =========================================================================== (3) stacks and stack secrets
static size_t gen_stack_size(Ctx &ctx, bool &bdim) {
  size_t a = ctx.c.weighted({2, 1, 9}); size_t n = a == 0 ? 1 : a == 1 ? TMCG_MAX_CARDS : (size_t)ctx.c.small(1, TMCG_MAX_CARDS);
  if (n == 1 || n == TMCG_MAX_CARDS) bdim = true; return n;
}
template <class X, bool SECRET> static void stack_case(Ctx &ctx) {
  typedef typename X::T T; const std::string nm = std::string(SECRET ? "TMCG_StackSecret<" : "TMCG_Stack<") + X::name() + ">";
  bool bdim = false; size_t n = gen_stack_size(ctx, bdim);
  size_t cells = std::max<size_t>(1, std::min<size_t>(320, 1200 / n)); // bound the total number of integers per stack
  ValGen vg(ctx, n <= 8 ? 1 : 0); DimGen d = gen_dims(ctx, cells); bool mixed = ctx.c.prob(1, 6), cb = false;
  std::vector<size_t> perm(n); for (size_t i = 0; i < n; i++) perm[i] = i;
  if (SECRET) { size_t pk = ctx.c.weighted({1, 1, 6}); if (pk == 1) std::reverse(perm.begin(), perm.end()); else if (pk == 2) for (size_t i = n; i > 1; i--) std::swap(perm[i - 1], perm[ctx.c.index(i)]); }
  TMCG_Stack<T> st; TMCG_StackSecret<T> ss; std::string ref = std::string(SECRET ? "sts^" : "stk^") + std::to_string(n) + "^"; Shape sa;
  for (size_t i = 0; i < n; i++) {
    T c; DimGen di = d; if (mixed) di = gen_dims(ctx, cells); std::string ct = X::fill(c, ctx, vg, cells, &di, cb); X::flat(c, sa);
    if (SECRET) { ss.push(perm[i], c); ref += std::to_string(perm[i]) + "^" + ct + "^"; sa.dims += "@" + std::to_string(perm[i]) + ";"; } else { st.push(c); ref += ct + "^"; }
  }
  bool via_stream = ctx.c.prob(1, 4);
  ctx.desc << nm << " n=" << n << " cards " << (mixed ? "of mixed dimensions" : "of dimension " + std::to_string(d.k) + "x" + std::to_string(d.w)) << " values(" << vg.classes() << ") import via " << (via_stream ? "operator>>" : "import()");
  ctx.label(nm); if (bdim) ctx.label("stack-size-at-boundary"); if (cb) ctx.label("dimension-at-boundary"); ctx.label(n <= 4 ? "n<=4" : n <= 52 ? "n<=52" : "n>52");
  if (bdim || cb || vg.boundary) ctx.nontrivial(nm + std::to_string(hash_str(ref)));
  std::string t1 = SECRET ? text_of(ss) : text_of(st);
  if (t1 != ref) ctx.fail("roundtrip/" + nm + "/exported-text-differs", ctx.desc.str() + ": " + first_diff(t1, ref));
  TMCG_Stack<T> st2; TMCG_StackSecret<T> ss2; bool ok = SECRET ? import_one(ss2, t1, via_stream) : import_one(st2, t1, via_stream);
  if (!ok) { ctx.fail("roundtrip/" + nm + "/import-refused", ctx.desc.str() + ": " + clip(t1)); return; }
  Shape sb; size_t n2 = SECRET ? ss2.size() : st2.size();
  for (size_t i = 0; i < n2; i++) { if (SECRET) { X::flat(ss2[i].second, sb); sb.dims += "@" + std::to_string(ss2[i].first) + ";"; } else X::flat(st2[i], sb); }
  if (n2 != n) ctx.fail("roundtrip/" + nm + "/size-differs", ctx.desc.str() + ": imported " + std::to_string(n2) + " entries");
  else if (!(sa == sb)) ctx.fail("roundtrip/" + nm + "/differs", ctx.desc.str() + ": " + describe_diff(sa, sb));
  else if (!SECRET && X::has_eq && !X::stack_eq(st, st2)) ctx.fail("roundtrip/" + nm + "/operator==-false-for-equal-objects", ctx.desc.str());
  std::string t2 = SECRET ? text_of(ss2) : text_of(st2);
  if (t2 != t1) ctx.fail("roundtrip/" + nm + "/re-exported-text-differs", ctx.desc.str() + ": " + first_diff(t2, t1));
}
VF_SUB(stack_roundtrip, 2600, 50000) {
  switch (ctx.c.weighted({3, 3, 2, 2})) { case 0: stack_case<XTmcgCard, false>(ctx); break; case 1: stack_case<XTmcgCardSecret, true>(ctx); break; case 2: stack_case<XVtmfCard, false>(ctx); break; default: stack_case<XVtmfCardSecret, true>(ctx); }
}

// =========================================================================== (4) keys
static std::string gen_text(Ctx &ctx, size_t maxlen, bool allow_bar) {
  static const char cs[] = "abcXYZ019 .@_-/^~#\t\"\\<>&%$"; size_t n = ctx.c.weighted({1, 6}) == 0 ? 0 : (size_t)ctx.c.small(1, maxlen); std::string s;
  for (size_t i = 0; i < n; i++) { size_t k = ctx.c.index(sizeof cs - 1 + (allow_bar ? 1 : 0)); s.push_back(k < sizeof cs - 1 ? cs[k] : '|'); }
  return s;
}
struct PubVals { std::string name, email, type, nizk, sig; Z m, y; };
static bool pub_equal(const TMCG_PublicKey &k, const PubVals &v, std::string &why) {
  if (k.name != v.name) { why = "name"; return false; } if (k.email != v.email) { why = "email"; return false; } if (k.type != v.type) { why = "type"; return false; }
  if (k.nizk != v.nizk) { why = "nizk"; return false; } if (k.sig != v.sig) { why = "sig '" + clip(k.sig, 30) + "' vs '" + clip(v.sig, 30) + "'"; return false; }
  if (!zeq(k.m, v.m)) { why = "m"; return false; } if (!zeq(k.y, v.y)) { why = "y"; return false; } return true;
}
static Z gen_prime(Ctx &ctx, unsigned maxbits) { Z r; Z s = zrand_bits(ctx, (unsigned)ctx.c.range(4, maxbits)) + 3; mpz_nextprime(r.get_mpz_t(), s.get_mpz_t()); return r; }
VF_SUB(key_roundtrip, 2400, 40000) {
  bool secret = ctx.c.coin(); ValGen vg(ctx, 2); PubVals v; Z p, q; bool real = false;
  if (secret && ctx.c.prob(1, 3)) { // a library-generated key text as is
    static const unsigned long sz[] = {672, 768, 1024}; real = true; bool nizk = ctx.c.prob(1, 4);
    TMCG_SecretKey sk(rabin_key_text(sz[ctx.c.index(3)], nizk, (unsigned)ctx.c.index(nizk ? 1 : 3)));
    v.name = sk.name; v.email = sk.email; v.type = sk.type; v.nizk = sk.nizk; v.sig = sk.sig; v.m = Z(sk.m); v.y = Z(sk.y); p = Z(sk.p); q = Z(sk.q);
  } else {
    v.name = gen_text(ctx, 40, false); v.email = gen_text(ctx, 40, false); v.type = gen_text(ctx, 24, false); v.nizk = gen_text(ctx, 400, false); v.sig = gen_text(ctx, 200, true);
    if (secret) { // import() precomputes inverses: y invertible mod m, m invertible mod m-p-q+1, gcd(p,q)=1 are part of the importer's contract
      for (int tries = 0;; tries++) { p = gen_prime(ctx, 300); q = gen_prime(ctx, 300); v.m = p * q; if (p != q && gcd(v.m, (p - 1) * (q - 1)) == 1) break; if (tries > 20) { p = 7; q = 11; v.m = 77; break; } }
      do v.y = zrand_below(ctx, v.m - 2) + 2; while (gcd(v.y, v.m) != 1);
    } else { v.m = vg.any(); v.y = vg.any(); }
  }
  std::string nm = secret ? "TMCG_SecretKey" : "TMCG_PublicKey";
  std::string ref = std::string(secret ? "sec|" : "pub|") + v.name + "|" + v.email + "|" + v.type + "|" + z62(v.m) + "|" + z62(v.y) + "|" + (secret ? z62(p) + "|" + z62(q) + "|" : "") + v.nizk + "|" + v.sig;
  bool via_stream = ctx.c.prob(1, 4), used_stream = ctx.c.prob(1, 4);
  ctx.desc << nm << (real ? " (library-generated)" : " (generated values)") << " name='" << clip(v.name, 20) << "' |m|=" << mpz_sizeinbase(v.m.get_mpz_t(), 2) << " nizk " << v.nizk.size() << " chars, sig " << v.sig.size() << " chars; values(" << vg.classes() << ") import via " << (via_stream ? "operator>>" : "import()");
  ctx.label(nm); if (real) ctx.label("library-generated"); for (auto &h : vg.hit) ctx.label("value:" + h);
  bool btext = v.name.empty() || v.email.empty() || v.type.empty() || v.nizk.empty() || v.sig.empty(); if (btext) ctx.label("empty-text-field");
  if (vg.boundary || btext) ctx.nontrivial(nm + std::to_string(hash_str(ref)));
  std::string why;
  if (!secret) {
    TMCG_PublicKey a; a.name = v.name; a.email = v.email; a.type = v.type; a.nizk = v.nizk; a.sig = v.sig; mpz_set(a.m, v.m.get_mpz_t()); mpz_set(a.y, v.y.get_mpz_t());
    std::string t1 = text_of(a); if (t1 != ref) ctx.fail("roundtrip/" + nm + "/exported-text-differs", ctx.desc.str() + ": " + first_diff(t1, ref));
    TMCG_PublicKey b; if (!import_one(b, t1, via_stream)) { ctx.fail("roundtrip/" + nm + "/import-refused", ctx.desc.str() + ": " + clip(t1)); return; }
    if (!pub_equal(b, v, why)) ctx.fail("roundtrip/" + nm + "/differs", ctx.desc.str() + ": field " + why);
    if (text_of(b) != t1) ctx.fail("roundtrip/" + nm + "/re-exported-text-differs", ctx.desc.str() + ": " + first_diff(text_of(b), t1));
    TMCG_PublicKey c(t1); if (!pub_equal(c, v, why)) ctx.fail("roundtrip/" + nm + "/string-constructor-differs", ctx.desc.str() + ": field " + why);
    // used object
    TMCG_PublicKey u; u.name = "used"; u.email = gen_text(ctx, 20, false); u.type = "T"; u.nizk = gen_text(ctx, 50, false); u.sig = "sig|x|y|"; mpz_set_ui(u.m, 77); mpz_set_si(u.y, -5);
    if (!import_one(u, t1, used_stream)) { ctx.fail("roundtrip/" + nm + "/import-into-used-object-refused", ctx.desc.str()); return; }
    if (!pub_equal(u, v, why)) ctx.fail("roundtrip/" + nm + "/import-into-used-object-differs", ctx.desc.str() + ": field " + why);
    else if (text_of(u) != t1) ctx.fail("roundtrip/" + nm + "/re-exported-text-of-used-object-differs", ctx.desc.str());
    return;
  }
  auto sec_equal = [&](const TMCG_SecretKey &k, std::string &w) {
    if (k.name != v.name || k.email != v.email || k.type != v.type || k.nizk != v.nizk || k.sig != v.sig) { w = "text field"; return false; }
    if (!zeq(k.m, v.m) || !zeq(k.y, v.y) || !zeq(k.p, p) || !zeq(k.q, q)) { w = "m, y, p or q"; return false; }
    // derived members against their definitions
    Z phi = (p - 1) * (q - 1);
    if (zmod(Z(k.y1) * v.y, v.m) != 1 % v.m) { w = "y1 is not the inverse of y"; return false; }
    if (zmod(Z(k.m1pq) * v.m, phi) != 1 % phi) { w = "m1pq is not the inverse of m"; return false; }
    if (Z(k.pa1d4) != (p + 1) / 4 || Z(k.qa1d4) != (q + 1) / 4) { w = "(p+1)/4 or (q+1)/4"; return false; }
    if (Z(k.gcdext_up) + Z(k.gcdext_vq) != 1 || zmod(Z(k.gcdext_up), p) != 0 || zmod(Z(k.gcdext_vq), q) != 0) { w = "Bezout products"; return false; }
    return true; };
  TMCG_SecretKey a; if (!a.import(ref)) { ctx.fail("roundtrip/" + nm + "/import-of-reference-text-refused", ctx.desc.str() + ": " + clip(ref)); return; }
  if (!sec_equal(a, why)) ctx.fail("roundtrip/" + nm + "/import-of-reference-text-differs", ctx.desc.str() + ": " + why);
  std::string t1 = text_of(a); if (t1 != ref) ctx.fail("roundtrip/" + nm + "/exported-text-differs", ctx.desc.str() + ": " + first_diff(t1, ref));
  TMCG_SecretKey b; if (!import_one(b, t1, via_stream)) { ctx.fail("roundtrip/" + nm + "/import-refused", ctx.desc.str() + ": " + clip(t1)); return; }
  if (!sec_equal(b, why)) ctx.fail("roundtrip/" + nm + "/differs", ctx.desc.str() + ": " + why);
  if (text_of(b) != t1) ctx.fail("roundtrip/" + nm + "/re-exported-text-differs", ctx.desc.str() + ": " + first_diff(text_of(b), t1));
  TMCG_SecretKey cpy(b), asg; asg = b; TMCG_PublicKey pub(b); // copies and the derived public key carry the same fields
  if (!sec_equal(cpy, why) || !sec_equal(asg, why)) ctx.fail("roundtrip/" + nm + "/copy-differs", ctx.desc.str() + ": " + why);
  if (!pub_equal(pub, v, why)) ctx.fail("roundtrip/" + nm + "/derived-public-key-differs", ctx.desc.str() + ": field " + why);
  TMCG_SecretKey u(rabin_key_text(672, false, 3)); // used object: a complete other key
  if (!import_one(u, t1, used_stream)) { ctx.fail("roundtrip/" + nm + "/import-into-used-object-refused", ctx.desc.str()); return; }
  if (!sec_equal(u, why)) ctx.fail("roundtrip/" + nm + "/import-into-used-object-differs", ctx.desc.str() + ": " + why);
  else if (text_of(u) != t1) ctx.fail("roundtrip/" + nm + "/re-exported-text-of-used-object-differs", ctx.desc.str());
}

// =========================================================================== (5) group / commitment parameters, (6) persisted state
// A record is a sequence of lines: integers in base 62 and decimal sizes.  `build` constructs the object from a text
// and returns its re-published text plus the public members it exposes (as a flat vector) for the field-wise oracle.
struct GroupGen { Z p, q; std::string mode; };
// p and q feed a table precomputation (|q| squarings modulo p) in most constructors: boundary values go to one of them at a time
static GroupGen gen_pq(Ctx &ctx, ValGen &vg, bool p_positive_only) {
  GroupGen g; size_t k = ctx.c.weighted({6, (unsigned)(p_positive_only ? 0 : 2), 2});
  if (k == 0) { g.mode = "plain"; g.p = vg.positive(1024) | 1; g.q = vg.positive(256); }
  else if (k == 1) { g.mode = "boundary-p"; g.p = vg.any(); g.q = Z((unsigned long)ctx.c.index(2)); }
  else { g.mode = "boundary-q"; g.p = vg.positive(200) | 1; g.q = vg.any(); }
  return g;
}
static void put(std::string &t, const Z &v) { t += z62(v); t += '\n'; }
static void putn(std::string &t, size_t n) { t += std::to_string(n); t += '\n'; }
static void zs(ZV &f, mpz_srcptr a) { f.push_back(Z(a)); }
static void zsv(ZV &f, const std::vector<mpz_ptr> &v) { f.push_back(Z((unsigned long)v.size())); for (auto x : v) f.push_back(Z(x)); }
static void zsn(ZV &f, size_t n) { f.push_back(Z((unsigned long)n)); }
typedef std::function<void(const std::string &, std::string &, ZV &)> Builder;

static void record_case(Ctx &ctx, const std::string &nm, const std::string &t0, const ZV &expect, const std::string &expect_text, const Builder &build, ValGen &vg, bool bdim, const std::string &extra) {
  ctx.desc << nm << " " << extra << " values(" << vg.classes() << "), " << t0.size() << " chars";
  ctx.label(nm); for (auto &h : vg.hit) ctx.label("value:" + h); if (bdim) ctx.label("dimension-at-boundary");
  if (bdim || vg.boundary) ctx.nontrivial(nm + std::to_string(hash_str(t0)));
  std::string t1, t2; ZV f1, f2;
  try { build(t0, t1, f1); } catch (const std::exception &e) { ctx.fail("roundtrip/" + nm + "/constructor-throws", ctx.desc.str() + ": " + e.what()); return; }
  if (!expect.empty() && f1 != expect) { size_t i = 0; while (i < f1.size() && i < expect.size() && f1[i] == expect[i]) i++;
    ctx.fail("roundtrip/" + nm + "/differs", ctx.desc.str() + ": member #" + std::to_string(i) + (i < f1.size() && i < expect.size() ? " is " + S(f1[i]) + ", expected " + S(expect[i]) : " (count " + std::to_string(f1.size()) + " vs " + std::to_string(expect.size()) + ")")); }
  if (t1 != expect_text) ctx.fail("roundtrip/" + nm + "/exported-text-differs", ctx.desc.str() + ": " + first_diff(t1, expect_text));
  try { build(t1, t2, f2); } catch (const std::exception &e) { ctx.fail("roundtrip/" + nm + "/constructor-throws-on-exported-text", ctx.desc.str() + ": " + e.what()); return; }
  if (f2 != f1) ctx.fail("roundtrip/" + nm + "/second-generation-differs", ctx.desc.str());
  if (t2 != t1) ctx.fail("roundtrip/" + nm + "/re-exported-text-differs", ctx.desc.str() + ": " + first_diff(t2, t1));
}

VF_SUB(group_roundtrip, 2400, 40000) {
  ValGen vg(ctx, 2); size_t which = ctx.c.index(9); std::string t0, exp_text, extra; ZV expect; Builder build; bool bdim = false; std::string nm;
  const unsigned long FS = 1024, GS = 160;
  switch (which) {
    case 0: case 1: { bool canon = which == 1; nm = canon ? "BarnettSmartVTMF_dlog(canonical-g)" : "BarnettSmartVTMF_dlog"; bool pre = ctx.c.coin();
      GroupGen g = pre ? gen_pq(ctx, vg, false) : GroupGen{vg.any(), vg.any(), "no-precomputation"}; Z gg = vg.any(), k = vg.any(); extra = g.mode;
      put(t0, g.p); put(t0, g.q); put(t0, gg); put(t0, k); expect = {g.p, g.q, gg, k}; exp_text = t0;
      build = [=](const std::string &t, std::string &out, ZV &f) { std::istringstream in(t); BarnettSmartVTMF_dlog v(in, FS, GS, canon, pre); std::ostringstream o; v.PublishGroup(o); out = o.str(); zs(f, v.p); zs(f, v.q); zs(f, v.g); zs(f, v.k); };
      break; }
    case 2: { nm = "BarnettSmartVTMF_dlog_GroupQR"; // g is not read but derived: g = 2^(2^(|p|-E)) mod p
      Z p = vg.positive(1024) | 1; while (mpz_sizeinbase(p.get_mpz_t(), 2) < 9) p = p * 2 + 1; Z q = ctx.c.coin() ? vg.positive(256) : vg.any(), gg = vg.any(), k = vg.any();
      unsigned long pb = mpz_sizeinbase(p.get_mpz_t(), 2), E = pb - (unsigned long)ctx.c.small(0, std::min<unsigned long>(pb - 1, 300)); extra = "|p|=" + std::to_string(pb) + " E=" + std::to_string(E);
      Z e = Z(1) << (pb - E), gd = zpowm(2, e, p);
      put(t0, p); put(t0, q); put(t0, gg); put(t0, k); expect = {p, q, gd, k}; put(exp_text, p); put(exp_text, q); put(exp_text, gd); put(exp_text, k);
      build = [=](const std::string &t, std::string &out, ZV &f) { std::istringstream in(t); BarnettSmartVTMF_dlog_GroupQR v(in, FS, E); std::ostringstream o; v.PublishGroup(o); out = o.str(); zs(f, v.p); zs(f, v.q); zs(f, v.g); zs(f, v.k); };
      break; }
    case 3: case 4: case 5: { nm = which == 3 ? "PedersenCommitmentScheme" : which == 4 ? "GrothSKC" : "GrothVSSHE";
      size_t a = ctx.c.weighted({2, 2, 6}); // boundary dimensions: 1, the table limit TMCG_MAX_FPOWM_N (generators beyond it are kept without a precomputed table) and its neighbours, the largest stack size
      static const size_t big_n[] = {64, TMCG_MAX_FPOWM_N - 1, TMCG_MAX_FPOWM_N, TMCG_MAX_FPOWM_N + 1, TMCG_MAX_FPOWM_N + 44, TMCG_MAX_CARDS};
      size_t n = a == 0 ? 1 : a == 1 ? big_n[ctx.c.index(ctx.thorough ? 6 : 5)] : (size_t)ctx.c.small(1, 40); bdim = a < 2;
      GroupGen g = gen_pq(ctx, vg, false); extra = "n=" + std::to_string(n) + " " + g.mode; Z k = vg.any(), h = vg.any(), gv = vg.any(), hv = vg.any(); ZV gen; for (size_t i = 0; i < n; i++) gen.push_back(vg.any());
      if (which == 5) { put(t0, g.p); put(t0, g.q); put(t0, gv); put(t0, hv); expect = {g.p, g.q, gv, hv}; }
      put(t0, g.p); put(t0, g.q); put(t0, k); put(t0, h); for (auto &x : gen) put(t0, x); exp_text = t0;
      if (which != 4) { expect.push_back(g.p); expect.push_back(g.q); expect.push_back(k); expect.push_back(h); expect.push_back(Z((unsigned long)n)); for (auto &x : gen) expect.push_back(x); }
      if (which == 3) build = [=](const std::string &t, std::string &out, ZV &f) { std::istringstream in(t); PedersenCommitmentScheme v(n, in, FS, GS); std::ostringstream o; v.PublishGroup(o); out = o.str(); zs(f, v.p); zs(f, v.q); zs(f, v.k); zs(f, v.h); zsv(f, v.g); };
      else if (which == 4) build = [=](const std::string &t, std::string &out, ZV &f) { std::istringstream in(t); GrothSKC v(n, in, 16, FS, GS); std::ostringstream o; v.PublishGroup(o); out = o.str(); };
      else build = [=](const std::string &t, std::string &out, ZV &f) { std::istringstream in(t); GrothVSSHE v(n, in, 16, FS, GS); std::ostringstream o; v.PublishGroup(o); out = o.str(); zs(f, v.p); zs(f, v.q); zs(f, v.g); zs(f, v.h); zs(f, v.com->p); zs(f, v.com->q); zs(f, v.com->k); zs(f, v.com->h); zsv(f, v.com->g); };
      break; }
    case 6: { nm = "HooghSchoenmakersSkoricVillegasVRHE"; GroupGen g = gen_pq(ctx, vg, false); extra = g.mode; Z gg = vg.any(), h = vg.any();
      put(t0, g.p); put(t0, g.q); put(t0, gg); put(t0, h); expect = {g.p, g.q, gg, h}; exp_text = t0;
      build = [=](const std::string &t, std::string &out, ZV &f) { std::istringstream in(t); HooghSchoenmakersSkoricVillegasVRHE v(in, FS, GS); std::ostringstream o; v.PublishGroup(o); out = o.str(); zs(f, v.p); zs(f, v.q); zs(f, v.g); zs(f, v.h); };
      break; }
    case 7: { nm = "PedersenTrapdoorCommitmentScheme"; GroupGen g = gen_pq(ctx, vg, false); extra = g.mode; Z k = vg.any(), gg = vg.any(), h = vg.any();
      put(t0, g.p); put(t0, g.q); put(t0, k); put(t0, gg); put(t0, h); expect = {g.p, g.q, k, gg, h}; exp_text = t0;
      build = [=](const std::string &t, std::string &out, ZV &f) { std::istringstream in(t); PedersenTrapdoorCommitmentScheme v(in, FS, GS); std::ostringstream o; v.PublishGroup(o); out = o.str(); zs(f, v.p); zs(f, v.q); zs(f, v.k); zs(f, v.g); zs(f, v.h); };
      break; }
    default: { nm = "NaorPinkasEOTP"; GroupGen g = gen_pq(ctx, vg, false); extra = g.mode; Z gg = vg.any();
      put(t0, g.p); put(t0, g.q); put(t0, gg); expect = {g.p, g.q, gg}; exp_text = t0;
      build = [=](const std::string &t, std::string &out, ZV &f) { std::istringstream in(t); NaorPinkasEOTP v(in, FS, GS); std::ostringstream o; v.PublishGroup(o); out = o.str(); zs(f, v.p); zs(f, v.q); zs(f, v.g); };
      break; }
  }
  record_case(ctx, nm, t0, expect, exp_text, build, vg, bdim, extra);
}

// --------------------------------------------------------------------------- persisted protocol state (fresh objects / generated values)
struct NTI { size_t n, t, i, tprime; std::vector<size_t> qual; bool boundary; };
static NTI gen_nti(Ctx &ctx, size_t nmax) {
  NTI r; size_t a = ctx.c.weighted({2, 1, 8}); r.n = a == 0 ? 1 : a == 1 ? nmax : (size_t)ctx.c.small(1, std::min<size_t>(nmax, 12));
  size_t b = ctx.c.weighted({2, 2, 5}); r.t = b == 0 ? 0 : b == 1 ? r.n : ctx.c.index(r.n + 1);
  size_t c = ctx.c.weighted({2, 2, 5}); r.i = c == 0 ? 0 : c == 1 ? r.n - 1 : ctx.c.index(r.n);
  size_t d = ctx.c.weighted({2, 2, 5}); r.tprime = d == 0 ? 0 : d == 1 ? r.n : ctx.c.index(r.n + 1);
  size_t qs = ctx.c.weighted({1, 2, 3}); qs = qs == 0 ? 0 : qs == 1 ? r.n : ctx.c.index(r.n + 1);
  for (size_t j = 0; j < qs; j++) r.qual.push_back(ctx.c.coin() ? j : ctx.c.index(r.n));
  r.boundary = a < 2 || b < 2 || c < 2; return r;
}
static std::string nti_desc(const NTI &x, bool tp) { std::ostringstream o; o << "n=" << x.n << " t=" << x.t << " i=" << x.i; if (tp) o << " t'=" << x.tprime; o << " |QUAL|=" << x.qual.size(); return o.str(); }
// text and expected members of the RVSS / ZVSS record
static void rvss_record(Ctx &ctx, ValGen &vg, const GroupGen &g, const Z &gg, const Z &h, const NTI &x, bool zvss, std::string &t, ZV &e) {
  put(t, g.p); put(t, g.q); put(t, gg); put(t, h); putn(t, x.n); putn(t, x.t); putn(t, x.i); putn(t, x.tprime);
  for (const Z *z : {&g.p, &g.q, &gg, &h}) e.push_back(*z); for (size_t v : {x.n, x.t, x.i, x.tprime}) e.push_back(Z((unsigned long)v));
  size_t nv = zvss ? 2 : 4; for (size_t j = 0; j < nv; j++) { Z v = vg.any(); put(t, v); e.push_back(v); }
  putn(t, x.qual.size()); e.push_back(Z((unsigned long)x.qual.size())); for (size_t w : x.qual) { putn(t, w); e.push_back(Z((unsigned long)w)); }
  for (size_t ii = 0; ii < x.n; ii++) { for (size_t j = 0; j < x.n; j++) { Z a = vg.any(), b = vg.any(); put(t, a); put(t, b); e.push_back(a); e.push_back(b); } for (size_t k = 0; k <= x.tprime; k++) { Z c = vg.any(); put(t, c); e.push_back(c); } }
}
template <class R> static void rvss_members(const R &v, ZV &f, bool zvss, mpz_srcptr z_i, mpz_srcptr zprime_i) {
  zs(f, v.p); zs(f, v.q); zs(f, v.g); zs(f, v.h); zsn(f, v.n); zsn(f, v.t); zsn(f, v.i); zsn(f, v.tprime); zs(f, v.x_i); zs(f, v.xprime_i); if (!zvss) { zs(f, z_i); zs(f, zprime_i); }
  zsn(f, v.QUAL.size()); for (size_t w : v.QUAL) zsn(f, w);
  for (size_t ii = 0; ii < v.n; ii++) { for (size_t j = 0; j < v.n; j++) { zs(f, v.s_ji[j][ii]); zs(f, v.sprime_ji[j][ii]); } for (size_t k = 0; k <= v.tprime; k++) zs(f, v.C_ik[ii][k]); }
}
static void head_record(ValGen &vg, const GroupGen &g, const Z &gg, const Z &h, const NTI &x, std::string &t, ZV &e) { // p q g h n t i x_i xprime_i y QUAL
  put(t, g.p); put(t, g.q); put(t, gg); put(t, h); putn(t, x.n); putn(t, x.t); putn(t, x.i);
  for (const Z *z : {&g.p, &g.q, &gg, &h}) e.push_back(*z); for (size_t v : {x.n, x.t, x.i}) e.push_back(Z((unsigned long)v));
  for (size_t j = 0; j < 3; j++) { Z v = vg.any(); put(t, v); e.push_back(v); }
  putn(t, x.qual.size()); e.push_back(Z((unsigned long)x.qual.size())); for (size_t w : x.qual) { putn(t, w); e.push_back(Z((unsigned long)w)); }
}
template <class D> static void head_members(const D &v, ZV &f) {
  zs(f, v.p); zs(f, v.q); zs(f, v.g); zs(f, v.h); zsn(f, v.n); zsn(f, v.t); zsn(f, v.i); zs(f, v.x_i); zs(f, v.xprime_i); zs(f, v.y); zsn(f, v.QUAL.size()); for (size_t w : v.QUAL) zsn(f, w);
}

VF_SUB(state_roundtrip, 2000, 30000) {
  ValGen vg(ctx, 2); size_t which = ctx.c.index(6); std::string t0, extra, nm; ZV expect; Builder build; const unsigned long FS = 1024, GS = 160;
  size_t nmax = ctx.thorough ? (ctx.c.prob(1, 20) ? TMCG_MAX_DKG_PLAYERS : 40) : 24;
  bool fresh = ctx.c.prob(1, 4); // a fresh object of the regular constructor instead of generated values in every member
  GroupGen g = gen_pq(ctx, vg, false); Z gg = vg.any(), h = vg.any(); NTI x = gen_nti(ctx, which >= 4 ? std::min<size_t>(nmax, 16) : nmax);
  if (fresh) { x.qual.clear(); }
  switch (which) {
    case 0: { nm = "PedersenVSS"; extra = nti_desc(x, false) + " " + g.mode;
      if (fresh) { PedersenVSS v(x.n, x.t, x.i, g.p.get_mpz_t(), g.q.get_mpz_t(), gg.get_mpz_t(), h.get_mpz_t(), FS, GS, false, "lbl"); std::ostringstream o; v.PublishState(o); t0 = o.str();
        for (const Z *z : {&g.p, &g.q, &gg, &h}) expect.push_back(*z); for (size_t v2 : {x.n, x.t, x.i}) expect.push_back(Z((unsigned long)v2)); for (size_t j = 0; j < 2 + 3 * (x.t + 1); j++) expect.push_back(0); }
      else { put(t0, g.p); put(t0, g.q); put(t0, gg); put(t0, h); putn(t0, x.n); putn(t0, x.t); putn(t0, x.i); for (const Z *z : {&g.p, &g.q, &gg, &h}) expect.push_back(*z); for (size_t v2 : {x.n, x.t, x.i}) expect.push_back(Z((unsigned long)v2));
        for (size_t j = 0; j < 2 + 3 * (x.t + 1); j++) { Z v = vg.any(); put(t0, v); expect.push_back(v); } }
      build = [=](const std::string &t, std::string &out, ZV &f) { std::istringstream in(t); PedersenVSS v(in, FS, GS, false, "lbl"); std::ostringstream o; v.PublishState(o); out = o.str();
        zs(f, v.p); zs(f, v.q); zs(f, v.g); zs(f, v.h); zsn(f, v.n); zsn(f, v.t); zsn(f, v.i); zs(f, v.sigma_i); zs(f, v.tau_i); for (auto a : v.a_j) zs(f, a); for (auto a : v.b_j) zs(f, a); for (auto a : v.A_j) zs(f, a); };
      break; }
    case 1: { nm = "GennaroJareckiKrawczykRabinDKG"; extra = nti_desc(x, false) + " " + g.mode;
      if (fresh) { GennaroJareckiKrawczykRabinDKG v(x.n, x.t, x.i, g.p.get_mpz_t(), g.q.get_mpz_t(), gg.get_mpz_t(), h.get_mpz_t(), FS, GS, false, false, "lbl"); std::ostringstream o; v.PublishState(o); t0 = o.str(); }
      else { head_record(vg, g, gg, h, x, t0, expect);
        for (size_t r = 0; r < 3; r++) for (size_t j = 0; j < x.n; j++) { Z v = vg.any(); put(t0, v); expect.push_back(v); }
        for (size_t ii = 0; ii < x.n; ii++) { for (size_t j = 0; j < x.n; j++) { Z a = vg.any(), b = vg.any(); put(t0, a); put(t0, b); expect.push_back(a); expect.push_back(b); } for (size_t k = 0; k <= x.t; k++) { Z c = vg.any(); put(t0, c); expect.push_back(c); } } }
      build = [=](const std::string &t, std::string &out, ZV &f) { std::istringstream in(t); GennaroJareckiKrawczykRabinDKG v(in, FS, GS, false, false, "lbl"); std::ostringstream o; v.PublishState(o); out = o.str();
        head_members(v, f); for (auto a : v.y_i) zs(f, a); for (auto a : v.z_i) zs(f, a); for (auto a : v.v_i) zs(f, a);
        for (size_t ii = 0; ii < v.n; ii++) { for (size_t j = 0; j < v.n; j++) { zs(f, v.s_ij[ii][j]); zs(f, v.sprime_ij[ii][j]); } for (size_t k = 0; k <= v.t; k++) zs(f, v.C_ik[ii][k]); } };
      break; }
    case 2: case 3: { bool zvss = which == 3; nm = zvss ? "CanettiGennaroJareckiKrawczykRabinZVSS" : "CanettiGennaroJareckiKrawczykRabinRVSS"; extra = nti_desc(x, true) + " " + g.mode;
      if (fresh) { std::ostringstream o;
        if (zvss) { CanettiGennaroJareckiKrawczykRabinZVSS v(x.n, x.t, x.i, x.tprime, g.p.get_mpz_t(), g.q.get_mpz_t(), gg.get_mpz_t(), h.get_mpz_t(), FS, GS, false, false, "lbl"); v.PublishState(o); }
        else { CanettiGennaroJareckiKrawczykRabinRVSS v(x.n, x.t, x.i, x.tprime, g.p.get_mpz_t(), g.q.get_mpz_t(), gg.get_mpz_t(), h.get_mpz_t(), FS, GS, false, false, "lbl"); v.PublishState(o); }
        t0 = o.str(); }
      else rvss_record(ctx, vg, g, gg, h, x, zvss, t0, expect);
      if (zvss) build = [=](const std::string &t, std::string &out, ZV &f) { std::istringstream in(t); CanettiGennaroJareckiKrawczykRabinZVSS v(in, FS, GS, false, false, "lbl"); std::ostringstream o; v.PublishState(o); out = o.str(); rvss_members(v, f, true, v.x_i, v.x_i); };
      else build = [=](const std::string &t, std::string &out, ZV &f) { std::istringstream in(t); CanettiGennaroJareckiKrawczykRabinRVSS v(in, FS, GS, false, false, "lbl"); std::ostringstream o; v.PublishState(o); out = o.str(); rvss_members(v, f, false, v.z_i, v.zprime_i); };
      break; }
    default: { bool dss = which == 5; nm = dss ? "CanettiGennaroJareckiKrawczykRabinDSS" : "CanettiGennaroJareckiKrawczykRabinDKG"; extra = nti_desc(x, false) + " " + g.mode;
      // nested records: DSS = head + DKG record, DKG = head + RVSS record (each level carries its own group and dimensions)
      if (fresh) { std::ostringstream o;
        if (dss) { CanettiGennaroJareckiKrawczykRabinDSS v(x.n, x.t, x.i, g.p.get_mpz_t(), g.q.get_mpz_t(), gg.get_mpz_t(), h.get_mpz_t(), FS, GS, false, false); v.PublishState(o); }
        else { CanettiGennaroJareckiKrawczykRabinDKG v(x.n, x.t, x.i, g.p.get_mpz_t(), g.q.get_mpz_t(), gg.get_mpz_t(), h.get_mpz_t(), FS, GS, false, false, "lbl"); v.PublishState(o); }
        t0 = o.str(); }
      else { if (dss) head_record(vg, g, gg, h, x, t0, expect);
        GroupGen g2 = ctx.c.coin() ? g : gen_pq(ctx, vg, false); NTI x2 = ctx.c.coin() ? x : gen_nti(ctx, 12); head_record(vg, g2, gg, h, x2, t0, expect);
        GroupGen g3 = ctx.c.coin() ? g : gen_pq(ctx, vg, false); NTI x3 = ctx.c.coin() ? x : gen_nti(ctx, 12); rvss_record(ctx, vg, g3, gg, h, x3, false, t0, expect); }
      if (dss) build = [=](const std::string &t, std::string &out, ZV &f) { std::istringstream in(t); CanettiGennaroJareckiKrawczykRabinDSS v(in, FS, GS, false, false); std::ostringstream o; v.PublishState(o); out = o.str();
        head_members(v, f); head_members(*v.dkg, f); rvss_members(*v.dkg->x_rvss, f, false, v.dkg->x_rvss->z_i, v.dkg->x_rvss->zprime_i); };
      else build = [=](const std::string &t, std::string &out, ZV &f) { std::istringstream in(t); CanettiGennaroJareckiKrawczykRabinDKG v(in, FS, GS, false, false, "lbl"); std::ostringstream o; v.PublishState(o); out = o.str();
        head_members(v, f); rvss_members(*v.x_rvss, f, false, v.x_rvss->z_i, v.x_rvss->zprime_i); };
      break; }
  }
  if (fresh) { ctx.label("fresh-object"); extra += " (fresh object of the regular constructor)"; }
  record_case(ctx, nm, t0, expect, t0, build, vg, x.boundary, extra);
}
