// C03 — completeness: an honest proof is always accepted.
// Oracle: the verifier's boolean when driven by the matching library prover on a true statement.
#include "proofs.hh"
using namespace vf;
const char *vf::PROPERTY = "C03";
void vf::harness_init() {}

static void completeness_case(Ctx &ctx, size_t entry) {
  const Entry &e = scenario_registry()[entry];
  ScenarioP s = e.make(ctx);
  auto t0 = std::chrono::steady_clock::now();
  RunResult r = run_scenario(ctx, *s);
  ctx.count(std::string("ms:") + e.name, (int64_t)std::chrono::duration_cast<std::chrono::milliseconds>(std::chrono::steady_clock::now() - t0).count()); // informational only
  ctx.desc << s->desc.str();
  ctx.label(e.name);
  if (s->n >= 3 || s->kappa >= 2 || (!s->n && !s->kappa)) ctx.nontrivial(s->desc.str() + "|" + (r.p_lines.empty() ? "" : r.p_lines[0]));
  if (!r.accepted) { ctx.fail(std::string("completeness/") + e.name + "/honest-proof-rejected", s->desc.str() + (r.threw ? " threw: " + r.what : "") + (r.stalled ? " (stalled)" : "")); return; }
  // the same statement proved once more with the SAME prover and verifier objects: applications keep one instance per game, so state
  // that a first proof leaves behind (tables, scratch members, counters) must not make the second honest proof fail
  if (ctx.c.prob(1, 3)) {
    RunResult r2 = run_scenario(ctx, *s); ctx.label("second-proof-on-same-objects");
    if (!r2.accepted) ctx.fail(std::string("completeness/") + e.name + "/honest-proof-rejected/second-proof-on-same-objects", s->desc.str() + (r2.threw ? " threw: " + r2.what : "") + (r2.stalled ? " (stalled)" : ""));
  }
}
// every registry entry in turn (index mod registry size), parameters generated
VF_ENUM(honest_proof_accepted, 27 * 45, 27 * 900) { size_t i = ctx.c.raw(); completeness_case(ctx, i % REGISTRY_BASE); }
VF_ENUM(honest_proof_accepted_class_level, 2 * 45, 2 * 900) { size_t i = ctx.c.raw(); completeness_case(ctx, REGISTRY_BASE + i % (scenario_registry().size() - REGISTRY_BASE)); }

// Rabin key validity proof: generated keys (with NIZK) check() fine, as secret and as public key
VF_ENUM(rabin_key_check, 9, 27) {
  size_t i = ctx.c.raw(); static const unsigned long sizes[] = {672, 768, 1024};
  unsigned long sz = sizes[i % 3]; unsigned idx = (unsigned)(i / 3);
  TMCG_SecretKey sk(rabin_key_text(sz, true, idx)); TMCG_PublicKey pk(sk);
  ctx.desc << "rabin key size=" << sz << " #" << idx << " with validity proof";
  ctx.label("size=" + std::to_string(sz)); ctx.nontrivial(ctx.desc.str());
  if (!sk.check()) ctx.fail("completeness/rabin_key_check/secret-key-rejected", ctx.desc.str());
  if (!pk.check()) ctx.fail("completeness/rabin_key_check/public-key-rejected", ctx.desc.str());
}
