// C09 — arithmetic primitives agree with their mathematical definition.
// Oracles: GMP's mpz_powm / mpz_jacobi / mpz_probab_prime_p, squaring back,
// Horner evaluation, three-way agreement of the big-integer wrapper.
#include <libTMCG.hh>
#include <gmpxx.h>
#include "vf.hh"
using namespace vf;
const char *vf::PROPERTY = "C09";
void vf::harness_init() {}

typedef mpz_class Z;
static Z zrand_bits(Ctx &ctx, unsigned bits) { // random integer of at most `bits` bits from the choice sequence
  Z r = 0; for (unsigned i = 0; i < (bits + 31) / 32; i++) { r <<= 32; r += ctx.c.raw(); }
  if (bits % 32) r >>= (32 - bits % 32);
  return r;
}
static Z zrand_below(Ctx &ctx, const Z &m) { if (m <= 1) return 0; return zrand_bits(ctx, mpz_sizeinbase(m.get_mpz_t(), 2) + 32) % m; }
static Z next_prime(Z x) { Z r; mpz_nextprime(r.get_mpz_t(), x.get_mpz_t()); return r; }
static std::string S(const Z &z) { return zshort(z.get_mpz_t()); }

// ---------------------------------------------------------------------------
// (1) modular exponentiation variants vs mpz_powm
VF_SUB(powm_variants, 6000, 120000) {
  // modulus: odd, >= 3
  Z p; std::string mclass;
  switch (ctx.c.weighted({3, 3, 2, 2, 1})) {
    case 0: { unsigned b = (unsigned)ctx.c.range(2, 16); p = zrand_bits(ctx, b) | 1; if (p < 3) p = 3; mclass = "tiny-odd"; break; }
    case 1: { unsigned b = (unsigned)ctx.c.range(8, 520); p = next_prime(zrand_bits(ctx, b) + 2); if (p == 2) p = 3; mclass = "prime"; break; }
    case 2: { unsigned b = (unsigned)ctx.c.range(6, 260); Z a = next_prime(zrand_bits(ctx, b) + 2), c = next_prime(zrand_bits(ctx, b) + 2); if (a == 2) a = 3; if (c == 2) c = 5; p = a * c; mclass = "two-primes"; break; }
    case 3: { unsigned b = (unsigned)ctx.c.range(17, ctx.thorough ? 2100 : 1100); p = zrand_bits(ctx, b) | 1; mpz_setbit(p.get_mpz_t(), b - 1); mclass = "random-odd"; break; }
    default: { Z a = next_prime(zrand_bits(ctx, 10) + 2); if (a == 2) a = 3; p = a * a * 3; mclass = "with-square-factor"; break; }
  }
  // base coprime to the modulus, in 1..p-1 (or slightly outside for the table-free variants)
  Z m;
  for (int tries = 0;; tries++) { m = zrand_below(ctx, p); if (tries > 50) m = 1; if (m != 0 && gcd(m, p) == 1) break; }
  if (ctx.c.prob(1, 10)) m = 1; else if (ctx.c.prob(1, 10)) m = p - 1;
  // exponent
  Z x; std::string xclass;
  switch (ctx.c.weighted({2, 1, 1, 1, 3, 3, 1, 1, 2})) {
    case 0: x = 0; xclass = "zero"; break;
    case 1: x = 1; xclass = "one"; break;
    case 2: x = -1; xclass = "minus-one"; break;
    case 3: x = 2; xclass = "two"; break;
    case 4: x = zrand_bits(ctx, (unsigned)ctx.c.range(2, 600)); xclass = "pos-random"; break;
    case 5: x = -zrand_bits(ctx, (unsigned)ctx.c.range(2, 600)) - 1; xclass = "neg-random"; break;
    case 6: x = (Z(1) << 2048) - 1; xclass = "table-limit"; break;
    case 7: x = -((Z(1) << 2048) - 1); xclass = "neg-table-limit"; break;
    default: { // multiple of a prime factor of the modulus (for a prime modulus: multiple of p)
      Z f = p; for (unsigned long d = 3; d < 70000; d += 2) if (mpz_divisible_ui_p(p.get_mpz_t(), d)) { f = d; break; }
      x = f * (1 + zrand_bits(ctx, 8)); if (ctx.c.coin()) x = -x; xclass = "multiple-of-factor"; break; }
  }
  ctx.desc << "mod(" << mclass << ")=" << S(p) << " base=" << S(m) << " exp(" << xclass << ")=" << S(x);
  ctx.label("mod:" + mclass); ctx.label("exp:" + xclass);
  if (xclass != "pos-random") ctx.nontrivial(mclass + "/" + xclass + "/" + p.get_str(62) + "/" + m.get_str(62) + "/" + x.get_str(62));
  Z ref; mpz_powm(ref.get_mpz_t(), m.get_mpz_t(), x.get_mpz_t(), p.get_mpz_t());
  Z r;
  auto cmp = [&](const char *who) { if (r != ref) ctx.fail(std::string("powm/") + who + "/wrong-residue", std::string(who) + " returned " + S(r) + ", mpz_powm " + S(ref) + " for " + ctx.desc.str()); };
  // spowm
  try { r = -7; tmcg_mpz_spowm(r.get_mpz_t(), m.get_mpz_t(), x.get_mpz_t(), p.get_mpz_t()); cmp("spowm"); }
  catch (std::exception &e) {
    Z g = gcd(abs(x), p);
    if (x != 0 && g != 1) ctx.fail("powm/spowm/throws-when-exponent-shares-factor-with-modulus", std::string("tmcg_mpz_spowm threw '") + e.what() + "' for " + ctx.desc.str());
    else ctx.fail("powm/spowm/throws", std::string("tmcg_mpz_spowm threw '") + e.what() + "' for " + ctx.desc.str());
  }
  // base blinding (draws its blinding value from the library's random stream)
  try { r = -7; tmcg_mpz_spowm_baseblind(r.get_mpz_t(), m.get_mpz_t(), x.get_mpz_t(), p.get_mpz_t()); cmp("spowm_baseblind"); }
  catch (std::exception &e) { ctx.fail("powm/spowm_baseblind/throws", e.what()); }
  // Kocher blinding: init once, several calc calls (seed is updated between calls)
  {
    tmcg_mpz_spowm_init(x.get_mpz_t(), p.get_mpz_t());
    for (int k = 0; k < 3; k++) { r = -7; tmcg_mpz_spowm_calc(r.get_mpz_t(), m.get_mpz_t()); if (r != ref) { ctx.fail("powm/spowm_calc/wrong-residue", "call " + std::to_string(k) + " returned " + S(r) + " expected " + S(ref) + " for " + ctx.desc.str()); break; } }
    tmcg_mpz_spowm_clear();
  }
  // table based
  mpz_t *tab = new mpz_t[TMCG_MAX_FPOWM_T];
  tmcg_mpz_fpowm_init(tab);
  size_t xb = mpz_sizeinbase(x.get_mpz_t(), 2);
  size_t t = ctx.c.coin() ? TMCG_MAX_FPOWM_T : std::min<size_t>(xb, TMCG_MAX_FPOWM_T); // the library itself precomputes |q| or |p| entries
  tmcg_mpz_fpowm_precompute(tab, m.get_mpz_t(), p.get_mpz_t(), t);
  // an exponent longer than the table (TMCG_MAX_FPOWM_T bits) is documented to be refused with invalid_argument (e.g. a multiple of a 2047-bit prime modulus)
  bool over = xb > TMCG_MAX_FPOWM_T; if (over) ctx.label("exp:beyond-table-limit");
  try { r = -7; tmcg_mpz_fpowm(tab, r.get_mpz_t(), m.get_mpz_t(), x.get_mpz_t(), p.get_mpz_t()); if (over) ctx.fail("powm/fpowm/exponent-beyond-table-accepted", ctx.desc.str()); else cmp("fpowm"); }
  catch (std::invalid_argument &e) { if (!over) ctx.fail("powm/fpowm/throws", std::string(e.what()) + " for " + ctx.desc.str()); }
  catch (std::exception &e) { ctx.fail("powm/fpowm/throws", std::string(e.what()) + " for " + ctx.desc.str()); }
  try { r = -7; tmcg_mpz_fspowm(tab, r.get_mpz_t(), m.get_mpz_t(), x.get_mpz_t(), p.get_mpz_t()); if (over) ctx.fail("powm/fspowm/exponent-beyond-table-accepted", ctx.desc.str()); else cmp("fspowm"); }
  catch (std::invalid_argument &e) { if (!over) ctx.fail("powm/fspowm/throws", std::string(e.what()) + " for " + ctx.desc.str()); }
  catch (std::exception &e) { ctx.fail("powm/fspowm/throws", std::string(e.what()) + " for " + ctx.desc.str()); }
  if (x >= 0 && x.fits_ulong_p()) {
    try { r = -7; tmcg_mpz_fpowm_ui(tab, r.get_mpz_t(), m.get_mpz_t(), x.get_ui(), p.get_mpz_t()); cmp("fpowm_ui"); }
    catch (std::exception &e) { ctx.fail("powm/fpowm_ui/throws", e.what()); }
  }
  // one beyond the table limit must be refused with invalid_argument, a wrong base too
  if (ctx.c.prob(1, 8)) {
    Z big = Z(1) << TMCG_MAX_FPOWM_T; bool thrown = false;
    tmcg_mpz_fpowm_precompute(tab, m.get_mpz_t(), p.get_mpz_t(), TMCG_MAX_FPOWM_T);
    try { tmcg_mpz_fpowm(tab, r.get_mpz_t(), m.get_mpz_t(), big.get_mpz_t(), p.get_mpz_t()); } catch (std::invalid_argument &) { thrown = true; }
    ctx.check(thrown, "powm/fpowm/beyond-table-limit-not-refused", "exponent 2^2048 accepted by fpowm");
    thrown = false;
    try { tmcg_mpz_fspowm(tab, r.get_mpz_t(), m.get_mpz_t(), big.get_mpz_t(), p.get_mpz_t()); } catch (std::invalid_argument &) { thrown = true; }
    ctx.check(thrown, "powm/fspowm/beyond-table-limit-not-refused", "exponent 2^2048 accepted by fspowm");
    Z other = m + 1; thrown = false;
    try { tmcg_mpz_fpowm(tab, r.get_mpz_t(), other.get_mpz_t(), x.get_mpz_t(), p.get_mpz_t()); } catch (std::invalid_argument &) { thrown = true; }
    ctx.check(thrown, "powm/fpowm/wrong-base-not-refused", "fpowm accepted a base that differs from its table");
    ctx.label("limit-and-base-checks");
  }
  tmcg_mpz_fpowm_done(tab); delete[] tab;
}

// ---------------------------------------------------------------------------
// (2) square roots modulo primes: all odd primes below a bound, all residues
static std::vector<unsigned long> &small_primes() {
  static std::vector<unsigned long> v;
  if (v.empty()) { Z p = 2; while (v.size() < 800) { p = next_prime(p); v.push_back(p.get_ui()); } } // odd primes 3..6143
  return v;
}
static void check_sqrtmp_all(Ctx &ctx, const Z &p, const Z &a, const std::string &tag) {
  Z r, sq;
  auto chk = [&](const char *who) {
    sq = (r * r) % p; if (sq < 0) sq += p;
    if (sq != a % p || r < 0 || r >= p) ctx.fail(std::string("sqrt/") + who + "/does-not-square-back", std::string(who) + "(" + S(a) + ", " + S(p) + ") = " + S(r) + " [" + tag + "]");
  };
  r = 0; tmcg_mpz_sqrtmp_r(r.get_mpz_t(), a.get_mpz_t(), p.get_mpz_t()); chk("sqrtmp_r");
  r = 0; tmcg_mpz_sqrtmp(r.get_mpz_t(), a.get_mpz_t(), p.get_mpz_t()); chk("sqrtmp");
  // documented precomputations of the fast variant
  Z nqr = 2; while (mpz_jacobi(nqr.get_mpz_t(), p.get_mpz_t()) != -1) nqr++;
  Z pa1d4 = (p + 1) / 4, ps1d4 = (p - 1) / 4, pa3d8 = (p + 3) / 8, nq;
  mpz_powm(nq.get_mpz_t(), nqr.get_mpz_t(), ps1d4.get_mpz_t(), p.get_mpz_t());
  r = 0; tmcg_mpz_sqrtmp_fast(r.get_mpz_t(), a.get_mpz_t(), p.get_mpz_t(), nqr.get_mpz_t(), pa1d4.get_mpz_t(), ps1d4.get_mpz_t(), pa3d8.get_mpz_t(), nq.get_mpz_t()); chk("sqrtmp_fast");
}
VF_ENUM(sqrtmp_small_primes, 240, 800) { // index -> i-th odd prime; every quadratic residue of it
  size_t i = ctx.c.raw(); if (i >= small_primes().size()) { ctx.discard(); return; }
  Z p = small_primes()[i]; unsigned long pu = p.get_ui(), cnt = 0;
  for (unsigned long a = 1; a < pu; a++) {
    Z A = a; if (mpz_jacobi(A.get_mpz_t(), p.get_mpz_t()) != 1) continue;
    check_sqrtmp_all(ctx, p, A, "small prime");
    cnt++; if (ctx.failed) break;
  }
  ctx.count("residues_checked", cnt);
  ctx.label("p mod 8 = " + std::to_string(pu % 8));
  ctx.desc << "p=" << pu << " (p mod 8 = " << pu % 8 << "), all " << cnt << " quadratic residues";
  ctx.nontrivial("p" + std::to_string(pu));
}

// big primes with forced 2-adic valuation of p-1 (exercises the 1 mod 8 loop depth)
VF_SUB(sqrtmp_big_primes, 400, 6000) {
  static const unsigned vals[] = {1, 2, 3, 4, 8, 16, 40};
  unsigned v2 = vals[ctx.c.index(7)], bits = (unsigned)ctx.c.range(64, ctx.thorough ? 512 : 256);
  // p = k*2^v2 + 1 with k odd
  Z k = zrand_bits(ctx, bits > v2 + 8 ? bits - v2 : 8) | 1, p;
  for (;; k += 2) { p = (k << v2) + 1; if (mpz_probab_prime_p(p.get_mpz_t(), 30)) break; }
  for (int j = 0; j < 4 && !ctx.failed; j++) {
    Z b = zrand_below(ctx, p - 1) + 1, a = (b * b) % p;
    if (j == 0 && ctx.c.prob(1, 4)) a = 1;
    if (j == 1 && ctx.c.prob(1, 4)) { a = p - 1; if (mpz_jacobi(a.get_mpz_t(), p.get_mpz_t()) != 1) a = 4 % p; }
    check_sqrtmp_all(ctx, p, a, "2-adic valuation " + std::to_string(v2));
  }
  ctx.label("v2(p-1)=" + std::to_string(v2));
  ctx.desc << "p=" << S(p) << " v2(p-1)=" << v2;
  ctx.nontrivial(p.get_str(62));
}

// (2b) square roots modulo n = p*q: all pairs of the first primes, all residues
static void check_sqrtmn(Ctx &ctx, const Z &p, const Z &q, const Z &a, bool blum) {
  Z n = p * q, r, r1, r2, r3, r4;
  auto sqok = [&](const Z &x) { return x >= 0 && x < n && (x * x) % n == a % n; };
  auto four = [&](const char *who) {
    bool ok = sqok(r1) && sqok(r2) && sqok(r3) && sqok(r4);
    std::set<std::string> d; d.insert(r1.get_str()); d.insert(r2.get_str()); d.insert(r3.get_str()); d.insert(r4.get_str());
    if (!ok) ctx.fail(std::string("sqrt/") + who + "/does-not-square-back", std::string(who) + " a=" + S(a) + " p=" + S(p) + " q=" + S(q) + " roots " + S(r1) + "," + S(r2) + "," + S(r3) + "," + S(r4));
    else if (d.size() != 4) ctx.fail(std::string("sqrt/") + who + "/roots-not-distinct", std::string(who) + " a=" + S(a) + " p=" + S(p) + " q=" + S(q) + " roots " + S(r1) + "," + S(r2) + "," + S(r3) + "," + S(r4));
  };
  auto one = [&](const char *who) { if (!sqok(r)) ctx.fail(std::string("sqrt/") + who + "/does-not-square-back", std::string(who) + " a=" + S(a) + " p=" + S(p) + " q=" + S(q) + " root " + S(r)); };
  r = 0; tmcg_mpz_sqrtmn_r(r.get_mpz_t(), a.get_mpz_t(), p.get_mpz_t(), q.get_mpz_t(), n.get_mpz_t()); one("sqrtmn_r");
  r = 0; tmcg_mpz_sqrtmn(r.get_mpz_t(), a.get_mpz_t(), p.get_mpz_t(), q.get_mpz_t(), n.get_mpz_t()); one("sqrtmn");
  tmcg_mpz_sqrtmn_r_all(r1.get_mpz_t(), r2.get_mpz_t(), r3.get_mpz_t(), r4.get_mpz_t(), a.get_mpz_t(), p.get_mpz_t(), q.get_mpz_t(), n.get_mpz_t()); four("sqrtmn_r_all");
  r1 = r2 = r3 = r4 = 0;
  tmcg_mpz_sqrtmn_all(r1.get_mpz_t(), r2.get_mpz_t(), r3.get_mpz_t(), r4.get_mpz_t(), a.get_mpz_t(), p.get_mpz_t(), q.get_mpz_t(), n.get_mpz_t()); four("sqrtmn_all");
  if (blum) { // precomputations exactly as TMCG_SecretKey does them
    Z g, up, vq; mpz_gcdext(g.get_mpz_t(), up.get_mpz_t(), vq.get_mpz_t(), p.get_mpz_t(), q.get_mpz_t());
    up *= p; vq *= q; Z pa = (p + 1) / 4, qa = (q + 1) / 4;
    r = 0; tmcg_mpz_sqrtmn_fast(r.get_mpz_t(), a.get_mpz_t(), p.get_mpz_t(), q.get_mpz_t(), n.get_mpz_t(), up.get_mpz_t(), vq.get_mpz_t(), pa.get_mpz_t(), qa.get_mpz_t()); one("sqrtmn_fast");
    r1 = r2 = r3 = r4 = 0;
    tmcg_mpz_sqrtmn_fast_all(r1.get_mpz_t(), r2.get_mpz_t(), r3.get_mpz_t(), r4.get_mpz_t(), a.get_mpz_t(), p.get_mpz_t(), q.get_mpz_t(), n.get_mpz_t(), up.get_mpz_t(), vq.get_mpz_t(), pa.get_mpz_t(), qa.get_mpz_t()); four("sqrtmn_fast_all");
  }
}
VF_ENUM(sqrtmn_small_products, 435, 1770) { // index -> unordered pair of distinct odd primes among the first 30 / 60
  size_t idx = ctx.c.raw(), i = 0, j = 1; // unrank the pair (i<j)
  while (idx >= j) { idx -= j; j++; } i = idx;
  Z p = small_primes()[i], q = small_primes()[j]; if (ctx.c.coin()) std::swap(p, q);
  bool blum = (p % 4 == 3) && (q % 4 == 3);
  Z n = p * q; unsigned long nu = n.get_ui(), cnt = 0;
  for (unsigned long a = 1; a < nu && !ctx.failed; a++) {
    Z A = a; if (mpz_jacobi(A.get_mpz_t(), p.get_mpz_t()) != 1 || mpz_jacobi(A.get_mpz_t(), q.get_mpz_t()) != 1) continue;
    if (tmcg_mpz_qrmn_p(A.get_mpz_t(), p.get_mpz_t(), q.get_mpz_t()) != 1) ctx.fail("sqrt/qrmn_p/rejects-residue", "a=" + S(A));
    check_sqrtmn(ctx, p, q, A, blum); cnt++;
  }
  ctx.count("residues_checked", cnt);
  ctx.label(blum ? "blum" : "non-blum");
  ctx.desc << "n=" << p << "*" << q << (blum ? " (Blum)" : "") << ", all " << cnt << " residues";
  ctx.nontrivial(n.get_str());
}
VF_SUB(sqrtmn_big, 300, 5000) {
  unsigned bits = (unsigned)ctx.c.range(24, ctx.thorough ? 512 : 200); bool blum = ctx.c.prob(2, 3);
  auto gp = [&]() { Z x = next_prime(zrand_bits(ctx, bits) + 3); if (blum) while (x % 4 != 3) x = next_prime(x); return x; };
  Z p = gp(), q = gp(); while (q == p) q = next_prime(q + (blum ? 0 : 0)), q = (blum && q % 4 != 3) ? next_prime(q) : q;
  if (blum) while (q % 4 != 3 || q == p) q = next_prime(q);
  Z n = p * q;
  for (int k = 0; k < 3 && !ctx.failed; k++) { Z b = zrand_below(ctx, n - 1) + 1; if (gcd(b, n) != 1) continue; check_sqrtmn(ctx, p, q, (b * b) % n, blum); }
  ctx.label(blum ? "blum" : "non-blum"); ctx.desc << "p=" << S(p) << " q=" << S(q);
  ctx.nontrivial(n.get_str(62));
}

// ---------------------------------------------------------------------------
// (3) interpolation: f(a_k) = b_k by Horner; colliding abscissae => false
static void run_interp(Ctx &ctx, const Z &q, const std::vector<Z> &a, const std::vector<Z> &b) {
  size_t m = a.size(); std::vector<Z> f(m);
  std::vector<mpz_ptr> av, bv, fv; std::vector<Z> ac = a, bc = b;
  for (size_t k = 0; k < m; k++) { av.push_back(ac[k].get_mpz_t()); bv.push_back(bc[k].get_mpz_t()); fv.push_back(f[k].get_mpz_t()); }
  bool collide = false; for (size_t i = 0; i < m; i++) for (size_t j = i + 1; j < m; j++) if ((a[i] - a[j]) % q == 0) collide = true;
  bool ret = tmcg_interpolate_polynom(av, bv, q.get_mpz_t(), fv);
  std::ostringstream d; d << "q=" << S(q) << " points="; for (size_t k = 0; k < m; k++) d << "(" << S(a[k]) << "," << S(b[k]) << ")";
  if (collide) { ctx.check(!ret, "interpolate/colliding-abscissae-accepted", d.str()); return; }
  if (!ctx.check(ret, "interpolate/refuses-valid-points", d.str())) return;
  for (size_t k = 0; k < m; k++) {
    Z y = 0; for (size_t i = m; i-- > 0;) { y = (y * a[k] + f[i]) % q; }
    Z want = b[k] % q; if (want < 0) want += q; if (y < 0) y += q;
    if (y != want) { ctx.fail("interpolate/polynomial-misses-point", d.str() + " f(a_" + std::to_string(k) + ")=" + S(y)); return; }
    if (f[k] < 0 || f[k] >= q) { ctx.fail("interpolate/coefficient-out-of-range", d.str()); return; }
  }
}
VF_ENUM(interpolate_small_exhaustive, 3, 5) { // index -> prime in {2,3,5,7,11,13}: ALL point sets of size <= 3 (<= 4 for q <= 5)
  static const unsigned qs[] = {3, 5, 7, 11, 13, 2};
  unsigned q = qs[ctx.c.raw() % 6]; unsigned long n = 0;
  unsigned maxm = q <= 5 ? 4 : (q <= 7 ? 3 : 2); if (ctx.thorough && q <= 7) maxm = 4; if (ctx.thorough && q > 7) maxm = 3;
  for (unsigned m = 1; m <= maxm && !ctx.failed; m++) {
    unsigned long total = 1; for (unsigned k = 0; k < 2 * m; k++) total *= q;
    for (unsigned long code = 0; code < total && !ctx.failed; code++) {
      std::vector<Z> a(m), b(m); unsigned long c = code;
      for (unsigned k = 0; k < m; k++) { a[k] = c % q; c /= q; b[k] = c % q; c /= q; }
      run_interp(ctx, Z(q), a, b); n++;
    }
  }
  ctx.count("point_sets", n); ctx.desc << "q=" << q << ": all " << n << " point sets of size <= " << maxm; ctx.label("exhaustive"); ctx.nontrivial("q" + std::to_string(q));
}
VF_SUB(interpolate_sampled, 1500, 40000) {
  unsigned m = (unsigned)ctx.c.range(1, 8); Z q;
  if (ctx.c.coin()) q = small_primes()[ctx.c.index(40)]; else q = next_prime(zrand_bits(ctx, (unsigned)ctx.c.range(8, 256)) + 2);
  std::vector<Z> a(m), b(m); bool forced = ctx.c.prob(1, 5);
  for (unsigned k = 0; k < m; k++) { a[k] = zrand_below(ctx, q); b[k] = zrand_below(ctx, q); }
  if (forced && m >= 2) { size_t i = ctx.c.index(m), j = ctx.c.index(m); if (i != j) a[i] = a[j]; }
  run_interp(ctx, q, a, b);
  ctx.label("m=" + std::to_string(m)); ctx.desc << "q=" << S(q) << " m=" << m << (forced ? " (collision forced)" : "");
  if (m >= 3) { std::string k = q.get_str(62); for (auto &x : a) k += "," + x.get_str(62); ctx.nontrivial(k); }
}

// ---------------------------------------------------------------------------
// (4) prime generators: defining relations re-checked with GMP
VF_SUB(prime_generators, 160, 2500) {
  unsigned which = (unsigned)ctx.c.index(11);
  unsigned qsize = (unsigned)ctx.c.range(ctx.c.coin() ? 16 : 64, ctx.thorough ? 320 : 160);
  Z p, q, k; std::string name; unsigned long mr = 32;
  auto isprime = [](const Z &x) { return mpz_probab_prime_p(x.get_mpz_t(), 40) != 0; };
  auto safe = [&](bool mod8) {
    std::ostringstream d; d << name << "(qsize=" << qsize << ") p=" << S(p) << " q=" << S(q);
    ctx.check(isprime(p) && isprime(q), "primes/" + name + "/not-prime", d.str());
    ctx.check(p == 2 * q + 1, "primes/" + name + "/p-not-2q+1", d.str());
    ctx.check(mpz_sizeinbase(q.get_mpz_t(), 2) >= qsize, "primes/" + name + "/q-too-short", d.str());
    if (mod8) ctx.check(p % 8 == 7, "primes/" + name + "/p-not-7-mod-8", d.str());
  };
  switch (which) {
    case 0: name = "sprime"; tmcg_mpz_sprime(p.get_mpz_t(), q.get_mpz_t(), qsize, mr); safe(false); break;
    case 1: name = "smprime"; tmcg_mpz_smprime(p.get_mpz_t(), q.get_mpz_t(), qsize, mr); safe(false); break;
    case 2: name = "sprime_naive"; qsize = std::min(qsize, 96u); tmcg_mpz_sprime_naive(p.get_mpz_t(), q.get_mpz_t(), qsize, mr); safe(false); break;
    case 3: name = "smprime_naive"; qsize = std::min(qsize, 96u); tmcg_mpz_smprime_naive(p.get_mpz_t(), q.get_mpz_t(), qsize, mr); safe(false); break;
    case 4: name = "sprime_noninc"; qsize = std::min(qsize, 96u); tmcg_mpz_sprime_noninc(p.get_mpz_t(), q.get_mpz_t(), qsize, mr); safe(false); break;
    case 5: name = "sprime2g"; tmcg_mpz_sprime2g(p.get_mpz_t(), q.get_mpz_t(), qsize, mr); safe(true); break;
    case 6: { name = "sprime3mod4"; unsigned psize = qsize + 1; tmcg_mpz_sprime3mod4(p.get_mpz_t(), psize, mr);
      std::ostringstream d; d << name << "(psize=" << psize << ") p=" << S(p);
      ctx.check(isprime(p), "primes/sprime3mod4/not-prime", d.str()); ctx.check(p % 4 == 3, "primes/sprime3mod4/not-3-mod-4", d.str());
      ctx.check(mpz_sizeinbase(p.get_mpz_t(), 2) >= psize, "primes/sprime3mod4/too-short", d.str()); break; }
    case 7: case 8: { name = which == 7 ? "lprime" : "lprime_prefix"; unsigned psize = qsize + (unsigned)ctx.c.range(8, 400);
      if (which == 7) tmcg_mpz_lprime(p.get_mpz_t(), q.get_mpz_t(), k.get_mpz_t(), psize, qsize, mr);
      else { k = 1 + zrand_bits(ctx, 16); tmcg_mpz_lprime_prefix(p.get_mpz_t(), q.get_mpz_t(), k.get_mpz_t(), psize, qsize, mr); }
      std::ostringstream d; d << name << "(psize=" << psize << ",qsize=" << qsize << ") p=" << S(p) << " q=" << S(q) << " k=" << S(k);
      ctx.check(isprime(p) && isprime(q), "primes/" + name + "/not-prime", d.str());
      ctx.check(p == q * k + 1, "primes/" + name + "/p-not-qk+1", d.str());
      ctx.check(gcd(k, q) == 1, "primes/" + name + "/k-q-not-coprime", d.str());
      ctx.check(mpz_sizeinbase(p.get_mpz_t(), 2) >= psize && mpz_sizeinbase(q.get_mpz_t(), 2) >= qsize, "primes/" + name + "/too-short", d.str()); break; }
    default: { name = which == 9 ? "oprime" : "oprime_noninc";
      if (which == 9) tmcg_mpz_oprime(p.get_mpz_t(), qsize, mr); else tmcg_mpz_oprime_noninc(p.get_mpz_t(), qsize, mr);
      std::ostringstream d; d << name << "(psize=" << qsize << ") p=" << S(p);
      ctx.check(isprime(p), "primes/" + name + "/not-prime", d.str()); ctx.check(mpz_sizeinbase(p.get_mpz_t(), 2) >= qsize, "primes/" + name + "/too-short", d.str()); break; }
  }
  ctx.label(name); ctx.desc << name << " size=" << qsize << " p=" << S(p);
  ctx.nontrivial(name + p.get_str(62));
}

// ---------------------------------------------------------------------------
// (5) mpz <-> gcry_mpi round trip
VF_SUB(mpi_roundtrip, 3000, 60000) {
  Z v; std::string cls;
  unsigned bits = (unsigned)ctx.c.small(1, 16000);
  switch (ctx.c.weighted({1, 1, 2, 2, 4})) {
    case 0: v = 0; cls = "zero"; break;
    case 1: v = 1; cls = "one"; break;
    case 2: v = Z(1) << bits; cls = "2^k"; break;
    case 3: v = (Z(1) << bits) - 1; cls = "2^k-1"; break;
    default: v = zrand_bits(ctx, bits); cls = "random"; break;
  }
  gcry_mpi_t g = gcry_mpi_new(8); Z back = -5;
  bool ok1 = tmcg_mpz_get_gcry_mpi(g, v.get_mpz_t());
  bool ok2 = ok1 && tmcg_mpz_set_gcry_mpi(g, back.get_mpz_t());
  ctx.desc << cls << " bits=" << mpz_sizeinbase(v.get_mpz_t(), 2) << " v=" << S(v);
  ctx.check(ok1 && ok2 && back == v, "mpi/roundtrip-lossy", ctx.desc.str() + " came back as " + S(back));
  if (ok1) { // also compare against libgcrypt's own view of the number
    unsigned nb = gcry_mpi_get_nbits(g); ctx.check(nb == (v == 0 ? 0 : mpz_sizeinbase(v.get_mpz_t(), 2)), "mpi/bit-length-differs", ctx.desc.str());
    if (v.fits_ulong_p() && v < 1000000) ctx.check(tmcg_get_gcry_mpi_ui(g) == v.get_ui(), "mpi/get_ui-differs", ctx.desc.str());
  }
  gcry_mpi_release(g);
  ctx.label(cls); if (cls != "random") ctx.nontrivial(cls + v.get_str(62)); else if (bits > 4096) ctx.nontrivial(v.get_str(62));
}

// ---------------------------------------------------------------------------
// (6) TMCG_Bigint: plain back end, secure back end and raw GMP agree on non-negative operands
static Z from_secret(const TMCG_Bigint &b) { Z r; tmcg_mpz_set_gcry_mpi(b.secret_bigint, r.get_mpz_t()); return r; }
VF_SUB(bigint_wrapper, 2500, 50000) {
  TMCG_Bigint a(false), b(false), sa(true), sb(true), m(false), sm(true);
  Z ra, rb;
  auto setv = [&](TMCG_Bigint &pl, TMCG_Bigint &se, Z &ref, const Z &val) { TMCG_Bigint t(val.get_mpz_t()); pl = t; se = t; ref = val; };
  setv(a, sa, ra, zrand_bits(ctx, (unsigned)ctx.c.small(0, 700)));
  setv(b, sb, rb, zrand_bits(ctx, (unsigned)ctx.c.small(0, 700)));
  unsigned nops = (unsigned)ctx.c.range(1, 12); std::ostringstream ops; ops << "a=" << S(ra) << " b=" << S(rb) << " ops:";
  std::set<std::string> kinds;
  for (unsigned i = 0; i < nops && !ctx.failed; i++) {
    unsigned op = (unsigned)ctx.c.index(24); unsigned long u = ctx.c.coin() ? (unsigned long)ctx.c.range(0, 10) : (unsigned long)ctx.c.raw64();
    const char *nm = "";
    switch (op) {
      case 0: nm = "+=b"; a += b; sa += sb; ra += rb; break;
      case 1: nm = "+=ui"; a += u; sa += u; ra += Z(u); break;
      case 2: nm = "-=b"; if (ra < rb) { std::swap(ra, rb); TMCG_Bigint t(a); a = b; b = t; TMCG_Bigint st(sa); sa = sb; sb = st; } a -= b; sa -= sb; ra -= rb; break;
      case 3: nm = "-=ui"; if (ra < Z(u)) { u = 0; } a -= u; sa -= u; ra -= Z(u); break;
      case 4: nm = "*=b"; if (mpz_sizeinbase(ra.get_mpz_t(), 2) > 6000) break; a *= b; sa *= sb; ra *= rb; break;
      case 5: nm = "*=ui"; if (mpz_sizeinbase(ra.get_mpz_t(), 2) > 6000) break; a *= u; sa *= u; ra *= Z(u); break;
      case 6: nm = "/=b"; if (rb == 0) break; a /= b; sa /= sb; ra /= rb; break;
      case 7: nm = "%=b"; if (rb == 0) break; a %= b; sa %= sb; ra %= rb; break;
      case 8: nm = "%=ui"; if (u == 0) break; a %= u; sa %= u; ra %= Z(u); break;
      case 9: { nm = "mul2exp"; size_t e = (size_t)ctx.c.range(0, 130); if (mpz_sizeinbase(ra.get_mpz_t(), 2) > 6000) break; a.mul2exp(e); sa.mul2exp(e); ra <<= e; break; }
      case 10: { nm = "powm"; Z mod = zrand_bits(ctx, (unsigned)ctx.c.range(2, 300)) | 1; if (mod < 3) mod = 3; Z mv; setv(m, sm, mv, mod);
        TMCG_Bigint r(false), sr(true); r.powm(a, b, m); sr.powm(sa, sb, sm); Z rr; mpz_powm(rr.get_mpz_t(), ra.get_mpz_t(), rb.get_mpz_t(), mod.get_mpz_t());
        a = r; sa = sr; ra = rr; break; }
      case 11: { nm = "powm_ui"; Z mod = zrand_bits(ctx, (unsigned)ctx.c.range(2, 300)) | 1; if (mod < 3) mod = 3; Z mv; setv(m, sm, mv, mod); unsigned long e = (unsigned long)ctx.c.range(0, 100000);
        TMCG_Bigint r(false), sr(true); r.powm_ui(a, e, m); sr.powm_ui(sa, e, sm); Z rr; mpz_powm_ui(rr.get_mpz_t(), ra.get_mpz_t(), e, mod.get_mpz_t());
        a = r; sa = sr; ra = rr; break; }
      case 12: { nm = "swap"; std::swap(ra, rb); TMCG_Bigint t(a); a = b; b = t; TMCG_Bigint st(sa); sa = sb; sb = st; break; }
      case 13: { nm = "=ui"; a = u; sa = u; ra = Z(u); break; }
      // operations that exist on the plain back end only: the secure object is brought along by assignment
      case 14: { nm = "/=ui"; if (u == 0) u = 3; a /= u; ra /= Z(u); sa = a; break; }
      case 15: { nm = "div2exp"; size_t e = (size_t)ctx.c.range(0, 130); a.div2exp(e); ra >>= e; sa = a; break; }
      case 16: { nm = "ui_pow_ui"; unsigned long bs = (unsigned long)ctx.c.range(0, 40), ex = (unsigned long)ctx.c.range(0, 60); a.ui_pow_ui(bs, ex); mpz_ui_pow_ui(ra.get_mpz_t(), bs, ex); sa = a; break; }
      case 17: { nm = "spowm"; Z mod = zrand_bits(ctx, (unsigned)ctx.c.range(2, 300)) | 1; if (mod < 3) mod = 3; Z mv; setv(m, sm, mv, mod); Z bs = ra % mod; if (bs == 0) bs = 1; Z g; mpz_gcd(g.get_mpz_t(), bs.get_mpz_t(), mod.get_mpz_t()); if (g != 1) bs = 1;
        TMCG_Bigint base(bs.get_mpz_t()), r(false); r.spowm(base, b, m); Z rr; mpz_powm(rr.get_mpz_t(), bs.get_mpz_t(), rb.get_mpz_t(), mod.get_mpz_t()); a = r; sa = r; ra = rr; break; }
      case 18: { nm = "abs"; a.abs(); sa.abs(); break; } // non-negative: unchanged on both back ends
      case 19: { nm = "=si"; long v = (long)(u >> 1); a = v; sa = a; ra = Z(v); break; } // the secure back end refuses operator=(long) by design
      case 20: { nm = "set_str"; unsigned base = ctx.c.coin() ? 10 : (ctx.c.coin() ? 16 : 36); std::string t = ra.get_str((int)base); a.set_str(t, base); sa = a; break; } // value unchanged
      case 21: { nm = "stream"; std::stringstream io; io << a << std::endl; TMCG_Bigint r(false); io >> r; if (!io.good() && !io.eof()) { ctx.fail("bigint/stream-roundtrip-fails", ops.str() + " value " + S(ra)); break; } a = r; sa = r; break; } // value unchanged
      case 22: { nm = "probab_prime"; Z cand = ctx.c.coin() ? zrand_bits(ctx, (unsigned)ctx.c.range(2, 200)) : Z((unsigned long)ctx.c.range(0, 2000)); if (ctx.c.coin()) mpz_nextprime(cand.get_mpz_t(), cand.get_mpz_t());
        TMCG_Bigint c0(cand.get_mpz_t()), pc(false), sc(true); pc = c0; sc = c0; bool want = mpz_probab_prime_p(cand.get_mpz_t(), 40) > 0, gp = pc.probab_prime(), gs = cand > 1 ? sc.probab_prime() : want; // gcry_prime_check is specified for candidates > 1
        if (gp != want || gs != want) { ctx.fail(std::string("bigint/probab_prime-differs/") + (gp != want ? "plain" : "secure"), ops.str() + " candidate " + S(cand) + " gmp says " + (want ? "prime" : "composite")); } break; }
      default: { nm = "random"; // samplers of both back ends stay inside their range (the distribution is C07's business)
        size_t bits = (size_t)ctx.c.range(1, 300); Z mod = zrand_bits(ctx, (unsigned)ctx.c.range(2, 300)) + 2; TMCG_Bigint pm(mod.get_mpz_t()), smod(true); smod = pm; unsigned which = (unsigned)ctx.c.index(7);
        for (int sec = 0; sec < 2 && !ctx.failed; sec++) { TMCG_Bigint r(sec == 1); bool bitwise = which < 3; Z lim = bitwise ? (Z(1) << bits) : mod;
          switch (which) { case 0: r.wrandomb(bits); break; case 1: r.srandomb(bits); break; case 2: r.ssrandomb(bits); break; case 3: r.wrandomm(sec ? smod : pm); break; case 4: r.srandomm(sec ? smod : pm); break; case 5: r.ssrandomm(sec ? smod : pm); break;
            default: { size_t cn = (size_t)ctx.c.range(1, 4); r.ssrandomm_cache_init(pm, cn); for (size_t z = 0; z < cn + 1 && !ctx.failed; z++) { r.ssrandomm_cache(); Z v = sec ? from_secret(r) : Z(r.bigint); if (v < 0 || v >= mod) ctx.fail("bigint/random-out-of-range/ssrandomm_cache", ops.str() + " drew " + S(v) + " for modulus " + S(mod)); } r.ssrandomm_cache_done(); } }
          Z v = sec ? from_secret(r) : Z(r.bigint); static const char *rn[] = {"wrandomb", "srandomb", "ssrandomb", "wrandomm", "srandomm", "ssrandomm", "ssrandomm_cache"};
          if (v < 0 || v >= lim) ctx.fail(std::string("bigint/random-out-of-range/") + rn[which] + (sec ? "/secure" : "/plain"), ops.str() + " drew " + S(v) + " limit " + S(lim)); }
        break; }
    }
    if (ctx.failed) break;
    ops << " " << nm; kinds.insert(nm);
    Z pa(a.bigint), ps = from_secret(sa);
    if (pa != ra || ps != ra) { ctx.fail(std::string("bigint/") + (pa != ra ? "plain" : "secure") + "-backend-differs/" + nm, ops.str() + " => gmp " + S(ra) + " plain " + S(pa) + " secure " + S(ps)); break; }
    // relational operators agree
    bool lt = ra < rb, eq = ra == rb;
    if ((a < b) != lt || (sa < sb) != lt || (a == b) != eq || (sa == sb) != eq || (a >= b) != !lt || (sa >= sb) != !lt || (a > b) != (!lt && !eq) || (sa > sb) != (!lt && !eq) || (a <= b) != (lt || eq) || (sa <= sb) != (lt || eq) || (a != b) != !eq)
    { ctx.fail("bigint/comparison-differs", ops.str() + " a=" + S(ra) + " b=" + S(rb)); break; }
    // the overloads that take a machine word
    { unsigned long w = ctx.c.coin() ? u : (ra.fits_ulong_p() ? ra.get_ui() : u); Z zw(w); bool l2 = ra < zw, e2 = ra == zw; long sw = (long)(w >> 1); bool e3 = ra == Z(sw);
      if ((a < w) != l2 || (sa < w) != l2 || (a == w) != e2 || (a != w) != !e2 || (a > w) != (!l2 && !e2) || (sa > w) != (!l2 && !e2) || (a >= w) != !l2 || (sa >= w) != !l2 || (a <= w) != (l2 || e2) || (sa <= w) != (l2 || e2) || (a == sw) != e3 || (a != sw) != !e3)
      { ctx.fail("bigint/comparison-with-machine-word-differs", ops.str() + " a=" + S(ra) + " word=" + std::to_string(w)); break; }
      if (ra.fits_ulong_p() && (a.get_ui() != ra.get_ui() || sa.get_ui() != ra.get_ui())) { ctx.fail("bigint/get_ui-differs", ops.str() + " a=" + S(ra)); break; } }
    if (a.size(2) != mpz_sizeinbase(ra.get_mpz_t(), 2)) { ctx.fail("bigint/size-differs", ops.str()); break; }
  }
  ctx.desc << ops.str(); for (auto &k : kinds) ctx.label(k);
  if (nops >= 3) ctx.nontrivial(ops.str());
}
