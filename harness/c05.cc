// C05 — proofs bind every public input and every transmitted value.
// Fault enumeration: (a) every line of an accepted transcript x mutation catalogue (non-interactive:
// literally; interactive: relaying man in the middle), (b) every public input handle x value catalogue,
// (c) every in-use line of the constructor text of the verifier-side argument object x value catalogue.
// Oracle: reference classification from lib/mutate.hh (independent of the library): anything but a
// negative representative of the same residue must be refused (false or std::exception).
#include "proofs.hh"
using namespace vf;
const char *vf::PROPERTY = "C05";
void vf::harness_init() {}

static bool parse_value(const std::string &line, Z &v) { if (line.empty()) return false; for (char ch : line) if (!isalnum((unsigned char)ch) && ch != '-') return false; return mpz_set_str(v.get_mpz_t(), line.c_str(), TMCG_MPZ_IO_BASE) == 0; }
// role-free reference classification
static Expect expect_for(const Scenario &s, const Z &v, const Z &vp) {
  if (s.rabin) { Z m = s.p; if (zmod(vp * vp - v * v, m) == 0) return UNJUDGED; // the other roots of the same square are equivalent representations
    if ((v == 0 || v == 1) && zmod(vp - v, 2) == 0) return UNJUDGED;          // bit-valued lines of the QR/NQR proofs are read modulo 2
    return MUST_REFUSE; }
  if (vp < 0 && s.q > 0 && zmod(vp - v, s.q) == 0) return UNJUDGED;
  return MUST_REFUSE;
}
// A duplicated line shifts every later line by one position and the surplus at the end is never read: the verifier then reads
// orig[i-1] where it read orig[i].  When each of these replacements is an equivalent representation (equal text, or equivalent
// under expect_for, e.g. a bit-valued line of the Rabin-type proofs that receives a value of the same parity), the transcript read
// is equivalent to the accepted one and the outcome is recorded, not judged.
static bool duplicate_is_equivalent(const Scenario &s, const std::vector<std::string> &orig, size_t pos) {
  for (size_t i = pos + 1; i < orig.size(); i++) { if (orig[i] == orig[i - 1]) continue; Z a, b; if (!parse_value(orig[i], a) || !parse_value(orig[i - 1], b)) return false; if (expect_for(s, a, b) != UNJUDGED) return false; }
  return true;
}
static std::string short_sig(const std::string &scen, const std::string &where, const std::string &mut) { return "binding/" + scen + "/" + where + "/" + mut + "/accepted"; }

// classify a transcript line position into a coarse, stable name for signatures (first / last / middle would be unstable across sizes; use index for short transcripts, "line" otherwise)
static std::string pos_name(size_t pos, size_t total) { if (total <= 8) return "line" + std::to_string(pos); return "line"; }

static void mutate_transcript_case(Ctx &ctx, size_t entry, bool range_sweep = false) {
  const Entry &e = scenario_registry()[entry]; ScenarioP s = e.make(ctx);
  ctx.desc << s->desc.str(); ctx.label(e.name);
  size_t judged = 0, unjudged = 0, refused_by_exception = 0;
  if (!s->interactive) {
    std::stringstream t, nul; s->prove(nul, t); std::string text = t.str(); std::vector<std::string> lines = split_lines(text);
    { std::istringstream in(text); std::stringstream o; bool ok = false; try { ok = s->verify(in, o); } catch (std::exception &) {} if (ok && s->after_accept) s->after_accept(); if (!ok) { ctx.label("baseline-rejected(C03)"); ctx.discard(); return; } }
    // full product position x catalogue for short transcripts, sampled positions for long ones
    std::vector<size_t> positions; if (lines.size() <= 40) for (size_t i = 0; i < lines.size(); i++) positions.push_back(i); else for (int k = 0; k < 24; k++) positions.push_back(ctx.c.index(lines.size()));
    for (size_t pos : positions) for (const Mutation &m : catalogue()) {
      std::vector<std::string> ml = lines; Expect ex = MUST_REFUSE; Z v, mv;
      if (m.textual) { if (m.name == "duplicate-line" && duplicate_is_equivalent(*s, lines, pos)) { ctx.count("duplicate_line_equivalent_transcript"); continue; } if (!mutate_text(m.name, ml, pos)) continue; }
      else { if (!parse_value(lines[pos], v)) continue; if (!mutate_value(ctx, m.name, v, s->p, s->q, mv)) continue; ml[pos] = z62(mv); ex = expect_for(*s, v, mv); }
      std::istringstream in(join_lines(ml)); std::stringstream o; bool ok = false, threw = false;
      try { ok = s->verify(in, o); } catch (std::exception &) { threw = true; }
      if (ok && s->after_accept) s->after_accept();
      if (threw) refused_by_exception++;
      if (ex == UNJUDGED) { unjudged++; ctx.count(ok ? "unjudged_accepted" : "unjudged_refused"); continue; }
      judged++;
      if (ok) { ctx.fail(short_sig(e.name, pos_name(pos, lines.size()), m.name), s->desc.str() + " transcript line " + std::to_string(pos) + "/" + std::to_string(lines.size()) + " mutation " + m.name + (m.textual ? "" : " value " + S(v) + " -> " + S(mv))); }
    }
  } else {
    RunResult base = run_scenario(ctx, *s);
    if (!base.accepted) { ctx.label("baseline-rejected(C03)"); ctx.discard(); return; }
    size_t total = base.p_lines.size(); if (!total) { ctx.discard(); return; }
    // sampled (line, mutation) pairs; in the range sweep EVERY prover line (64 sampled lines of longer transcripts) gets the three
    // out-of-range representatives v+p, v-p, v+q ("refused ... instead of being silently reduced")
    static const char *SWEEP[3] = {"v+p", "v-p", "v+q"}; std::vector<size_t> sweep_pos;
    if (range_sweep) { if (total <= 64) for (size_t i = 0; i < total; i++) sweep_pos.push_back(i); else for (int k = 0; k < 64; k++) sweep_pos.push_back(ctx.c.index(total)); }
    size_t tries = range_sweep ? sweep_pos.size() * 3 : ctx.thorough ? 14 : 7;
    for (size_t k = 0; k < tries; k++) {
      size_t mi = 0; if (range_sweep) { for (size_t z = 0; z < catalogue().size(); z++) if (catalogue()[z].name == SWEEP[k % 3]) mi = z; } else mi = (size_t)-1;
      size_t pos = range_sweep ? sweep_pos[k / 3] : ctx.c.index(total); const Mutation &m = catalogue()[range_sweep ? mi : ctx.c.index(catalogue().size())];
      if (m.name == "swap-with-next") continue; // a relay cannot swap with a line not yet sent
      Expect ex = MUST_REFUSE; Z v, mv; bool applied = false;
      auto hook = [&](size_t n, std::string &line) -> int {
        if (n != pos) return 0;
        if (m.textual) { applied = true; if (m.name == "delete-line") return 1; if (m.name == "duplicate-line") return 2; if (m.name == "truncate-here") return 3; if (m.name == "non-digit") { line = "?" + line + "!"; return 0; } if (m.name == "empty-line") { if (line.empty()) applied = false; line = ""; return 0; } applied = false; return 0; }
        if (!parse_value(line, v)) return 0; if (!mutate_value(ctx, m.name, v, s->p, s->q, mv)) return 0; applied = true; ex = expect_for(*s, v, mv); line = z62(mv); return 0; };
      RunResult r = run_scenario(ctx, *s, hook);
      if (!applied) continue;
      if (m.name == "duplicate-line" && duplicate_is_equivalent(*s, r.p_lines, pos)) { ctx.count("duplicate_line_equivalent_transcript"); continue; } // incl. trailing data after the last message, which is never read
      if (r.threw) refused_by_exception++;
      if (ex == UNJUDGED) { unjudged++; ctx.count(r.accepted ? "unjudged_accepted" : "unjudged_refused"); continue; }
      judged++;
      if (r.accepted) ctx.fail(short_sig(e.name, "line", m.name), s->desc.str() + " prover line " + std::to_string(pos) + "/" + std::to_string(total) + " mutation " + m.name + (m.textual ? "" : " value " + S(v) + " -> " + S(mv)));
    }
  }
  ctx.count("mutations_judged", (int64_t)judged); ctx.count("mutations_unjudged", (int64_t)unjudged); ctx.count("refused_by_exception", (int64_t)refused_by_exception);
  if (judged) ctx.nontrivial(s->desc.str() + "#" + std::to_string(judged));
}
VF_ENUM(transcript_values_bound, 27 * 8, 27 * 150) { size_t i = ctx.c.raw(); mutate_transcript_case(ctx, i % REGISTRY_BASE); }
VF_ENUM(transcript_values_bound_class_level, 2 * 8, 2 * 150) { size_t i = ctx.c.raw(); mutate_transcript_case(ctx, REGISTRY_BASE + i % (scenario_registry().size() - REGISTRY_BASE)); }
// (a') interactive proofs: every prover line x {v+p, v-p, v+q}
VF_ENUM(interactive_out_of_range_values_refused, 15 * 3, 15 * 40) {
  static const char *IA[15] = {"groth_class_interactive", "hoogh_class_interactive", "key_interactive", "key_interactive_publiccoin", "stack_cutchoose_permutation", "stack_cutchoose_rotation", "stack_groth_interactive", "stack_hoogh_interactive", "skc_interactive", "skc_publiccoin",
    "flip_twoparty", "tmcg_maskcard_rabin", "tmcg_cardsecret_rabin", "stack_cutchoose_rabin_permutation", "stack_cutchoose_rabin_rotation"};
  size_t i = ctx.c.raw() % 15; const std::vector<Entry> &R = scenario_registry();
  for (size_t z = 0; z < R.size(); z++) if (std::string(R[z].name) == IA[i]) { mutate_transcript_case(ctx, z, true); return; }
  ctx.discard();
}

// (b) public inputs
static bool modulus_handle(const std::string &n) { return n == "group.p" || n == "group.q"; }
static void public_input_case(Ctx &ctx, size_t entry) {
  const Entry &e = scenario_registry()[entry]; ScenarioP s = e.make(ctx);
  ctx.desc << s->desc.str(); ctx.label(e.name);
  if (s->pub.empty()) { ctx.discard(); return; }
  size_t judged = 0;
  std::string text; if (!s->interactive) { std::stringstream t, nul; s->prove(nul, t); text = t.str(); std::istringstream in(text); std::stringstream o; bool ok = false; try { ok = s->verify(in, o); } catch (std::exception &) {} if (ok && s->after_accept) s->after_accept(); if (!ok) { ctx.label("baseline-rejected(C03)"); ctx.discard(); return; } }
  // handles: all of them for short lists, sampled otherwise
  std::vector<size_t> hs; if (s->pub.size() <= 16) for (size_t i = 0; i < s->pub.size(); i++) hs.push_back(i); else for (int k = 0; k < 12; k++) hs.push_back(ctx.c.index(s->pub.size()));
  for (size_t hi : hs) {
    const std::string &hn = s->pub[hi].first; mpz_ptr h = s->pub[hi].second;
    bool verifier_only = hn.compare(0, 6, "group.") == 0 || hn.compare(0, 10, "commonkey.") == 0 || hn.compare(0, 4, "key.") == 0;
    if (s->interactive && !verifier_only) continue; // shared handles would also change the prover's view (that is C04)
    if (s->interactive && hn == "group.q") continue; // interactive arguments never touch q beyond range checks: poking the verifier's copy is not a changed statement
    // the commitment of the shuffle-of-known-content sub-argument is checked for membership by its caller (the shuffle argument):
    // a negative integer is outside that precondition
    bool caller_checked_element = (hn == "commitment.c");
    for (const Mutation &m : catalogue()) {
      if (m.textual) continue;
      if (modulus_handle(hn) && (m.name == "0" || m.name == "1" || m.name == "2" || m.name == "neg-v" || m.name == "v-q" || m.name == "24000-bit")) continue; // degenerate moduli are caller errors (CheckGroup), not proof inputs
      if (s->interactive && !(ctx.c.prob(1, 4))) continue;
      Z v(h), mv; if (!mutate_value(ctx, m.name, v, s->p, s->q, mv)) continue;
      // another integer representing the same group element (or the same exponent for the known-content messages) is an
      // equivalent statement, not a changed one: recorded, not judged
      if (zmod(mv - v, s->p) == 0 || (hn.compare(0, 2, "m[") == 0 && zmod(mv - v, s->q) == 0)) { ctx.count("public_input_equivalent_representation"); continue; }
      if (caller_checked_element && mv < 0) { ctx.count("public_input_outside_caller_precondition"); continue; }
      mpz_set(h, mv.get_mpz_t()); bool ok = false, threw = false;
      if (!s->interactive) { std::istringstream in(text); std::stringstream o; try { ok = s->verify(in, o); } catch (std::exception &) { threw = true; } if (ok && s->after_accept) s->after_accept(); }
      else { RunResult r = run_scenario(ctx, *s); ok = r.accepted; threw = r.threw; }
      mpz_set(h, v.get_mpz_t());
      judged++; (void)threw;
      std::string cls = hn; size_t br = cls.find('['); if (br != std::string::npos) cls = cls.substr(0, br) + cls.substr(cls.find(']') + 1);
      if (ok) ctx.fail("binding/" + std::string(e.name) + "/public-input:" + cls + "/" + m.name + "/accepted", s->desc.str() + " public input " + hn + " " + S(v) + " -> " + S(mv) + " (" + m.name + ")");
    }
  }
  ctx.count("mutations_judged", (int64_t)judged);
  if (judged) ctx.nontrivial(s->desc.str() + "#" + std::to_string(judged));
}
VF_ENUM(public_inputs_bound, 27 * 6, 27 * 100) { size_t i = ctx.c.raw(); public_input_case(ctx, i % REGISTRY_BASE); }
VF_ENUM(public_inputs_bound_class_level, 2 * 6, 2 * 100) { size_t i = ctx.c.raw(); public_input_case(ctx, REGISTRY_BASE + i % (scenario_registry().size() - REGISTRY_BASE)); }

// (c) constructor text of the verifier-side argument object (commitment generators in use, group, key)
VF_SUB(argument_parameters_bound, 60, 1500) {
  static const char *names[] = {"stack_groth_noninteractive", "stack_hoogh_noninteractive"};
  std::string want = names[ctx.c.index(2)]; size_t entry = 0; for (size_t i = 0; i < scenario_registry().size(); i++) if (want == scenario_registry()[i].name) entry = i;
  ScenarioP s = scenario_registry()[entry].make(ctx); ctx.desc << s->desc.str(); ctx.label(want);
  std::stringstream t, nul; s->prove(nul, t); std::string text = t.str();
  { std::istringstream in(text); std::stringstream o; if (!s->verify(in, o)) { ctx.label("baseline-rejected(C03)"); ctx.discard(); return; } }
  std::vector<std::string> lines = split_lines(s->ctor_text); size_t judged = 0;
  // every line of the group / key part and of the first eight generators; of longer generator lists eight drawn lines (each rebuilt verifier precomputes its tables)
  std::vector<size_t> use; { std::vector<size_t> rest; for (size_t li : s->ctor_lines_in_use) (li < 16 ? use : rest).push_back(li); for (int k = 0; k < 8 && !rest.empty(); k++) { size_t z = ctx.c.index(rest.size()); use.push_back(rest[z]); rest.erase(rest.begin() + z); } }
  for (size_t li : use) {
    if (li >= lines.size()) continue;
    bool modulus = (li == 0 || li == 1 || li == 4 || li == 5);
    for (const Mutation &m : catalogue()) {
      if (m.textual) continue;
      if (modulus && (m.name == "0" || m.name == "1" || m.name == "2" || m.name == "neg-v" || m.name == "v-q" || m.name == "24000-bit")) continue;
      if (!ctx.thorough && !ctx.c.prob(1, 3)) continue;
      Z v = zparse62(lines[li]), mv; if (!mutate_value(ctx, m.name, v, s->p, s->q, mv)) continue;
      std::vector<std::string> ml = lines; ml[li] = z62(mv); bool ok = false;
      try { s->rebuild_verifier(join_lines(ml)); std::istringstream in(text); std::stringstream o; ok = s->verify(in, o); } catch (std::exception &) { ok = false; }
      judged++;
      if (ok) ctx.fail("binding/" + want + "/argument-parameter-line" + std::to_string(li < 8 ? li : 8) + "/" + m.name + "/accepted", s->desc.str() + " ctor text line " + std::to_string(li) + " " + S(v) + " -> " + S(mv));
    }
  }
  s->rebuild_verifier(s->ctor_text);
  ctx.count("mutations_judged", (int64_t)judged); if (judged) ctx.nontrivial(s->desc.str());
}
