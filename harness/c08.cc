// C08 — all players derive the same common card key.
// Oracle: model h = h_self * prod(accepted h_j) mod p (GMP), updated from the return values;
// expected return values from the reference classification of each contribution.
#include "fix.hh"
#include "mutate.hh"
#include <algorithm>
using namespace vf;
const char *vf::PROPERTY = "C08";
void vf::harness_init() {}

struct KeyText { Z h, c, r; std::string text; };
static KeyText parse_key(const std::string &t) { KeyText k; auto l = split_lines(t); k.h = zparse62(l[0]); k.c = zparse62(l[1]); k.r = zparse62(l[2]); k.text = t; return k; }

static bool try_update(BarnettSmartVTMF_dlog *v, const std::string &text, bool &threw) {
  threw = false; std::istringstream in(text);
  try { return v->KeyGenerationProtocol_UpdateKey(in); } catch (std::exception &) { threw = true; return false; }
}
static bool try_remove(BarnettSmartVTMF_dlog *v, const std::string &text, bool &threw) {
  threw = false; std::istringstream in(text);
  try { return v->KeyGenerationProtocol_RemoveKey(in); } catch (std::exception &) { threw = true; return false; }
}

// all k! processing orders (k<=4; 5 in thorough): every player ends with the same h = product of all h_i
VF_SUB(all_orders_same_key, 600, 8000) {
  GroupSpec g = pick_group(ctx);
  size_t k = (size_t)ctx.c.range(1, ctx.thorough ? 5 : 4);
  VtmfPlayers P(g, k, false);
  Z p(P[0]->p), prod = 1; for (size_t i = 0; i < k; i++) prod = (prod * Z(P[i]->h_i)) % p;
  std::vector<size_t> others; size_t norders = 0;
  std::string text = vtmf_group_text(g.kind, g.fsize, g.gsize, g.idx);
  for (size_t me = 0; me < k && !ctx.failed; me++) {
    others.clear(); for (size_t j = 0; j < k; j++) if (j != me) others.push_back(j);
    do {
      // fresh instance holding player me's key is not possible (x_i is private), so use add/remove symmetry:
      // process the order on the live instance, compare, then remove everything again in a generated order
      for (size_t j : others) { bool threw; if (!try_update(P[me], P.keytext[j], threw)) { ctx.fail("commonkey/honest-contribution-refused", "player " + std::to_string(me) + " refused key of " + std::to_string(j)); break; } }
      if (ctx.failed) break;
      norders++;
      if (Z(P[me]->h) != prod) { ctx.fail("commonkey/order-dependent-or-wrong-product", "player " + std::to_string(me) + " h=" + S(Z(P[me]->h)) + " expected " + S(prod)); break; }
      if (P[me]->KeyGenerationProtocol_NumberOfKeys() != others.size()) { ctx.fail("commonkey/number-of-keys", "player " + std::to_string(me)); break; }
      std::vector<size_t> rem = others; for (size_t i = rem.size(); i > 1; i--) std::swap(rem[i - 1], rem[ctx.c.index(i)]);
      for (size_t j : rem) { bool threw; if (!try_remove(P[me], P.keytext[j], threw)) { ctx.fail("commonkey/remove-of-accepted-key-refused", "player " + std::to_string(me)); break; } }
      if (ctx.failed) break;
      if (Z(P[me]->h) != Z(P[me]->h_i)) { ctx.fail("commonkey/remove-does-not-restore", "player " + std::to_string(me) + " after removing all: h=" + S(Z(P[me]->h)) + " h_i=" + S(Z(P[me]->h_i))); break; }
    } while (std::next_permutation(others.begin(), others.end()));
  }
  ctx.count("orders", norders);
  ctx.desc << group_desc(g) << " k=" << k << " all " << norders << " (player, order) pairs";
  ctx.label("k=" + std::to_string(k)); ctx.label(group_kind_name(g.kind));
  if (k >= 3) ctx.nontrivial(ctx.desc.str() + S(prod));
}

// model-based add/remove sequences with malformed contributions
VF_SUB(add_remove_sequences, 4000, 60000) {
  GroupSpec g = pick_group(ctx);
  size_t k = (size_t)ctx.c.range(2, 6);
  VtmfPlayers P(g, k, false);
  Z p(P[0]->p), q(P[0]->q);
  BarnettSmartVTMF_dlog *me = P[0];
  Z model(me->h_i); std::set<size_t> accepted; size_t rejected = 0, removed = 0;
  // one outsider on the same group whose key is never added (for remove-unknown)
  size_t nops = (size_t)ctx.c.range(1, 20); std::ostringstream d; d << group_desc(g) << " k=" << k << " ops:";
  for (size_t op = 0; op < nops && !ctx.failed; op++) {
    size_t kind = ctx.c.weighted({4, 4, 2, 1});
    size_t j = 1 + ctx.c.index(k - 1); bool threw = false;
    if (kind == 0) { // add(j) if not yet accepted
      if (accepted.count(j)) { kind = 2; } else {
        bool ok = try_update(me, P.keytext[j], threw); d << " add" << j;
        if (!ok) { ctx.fail("commonkey/honest-contribution-refused", d.str()); break; }
        model = (model * Z(P[j]->h_i)) % p; accepted.insert(j);
      }
    }
    if (kind == 1) { // add(mutated j)
      KeyText kt = parse_key(P.keytext[j]); auto lines = split_lines(kt.text);
      const Mutation &m = catalogue()[ctx.c.index(catalogue().size())]; size_t line = ctx.c.index(3);
      Expect ex = MUST_REFUSE; Z orig = line == 0 ? kt.h : line == 1 ? kt.c : kt.r, mv;
      if (m.textual) { if (!mutate_text(m.name, lines, line)) continue; if (m.name == "duplicate-line" && line == 2) continue; if (m.name == "swap-with-next" && line == 2) continue; }
      else { if (!mutate_value(ctx, m.name, orig, p, q, mv)) continue; lines[line] = z62(mv); ex = classify(line == 0 ? R_ELEM : line == 1 ? R_HASH : R_EXP, orig, mv, p, q); }
      d << " add" << j << "[line" << line << ":" << m.name << "]";
      bool was = accepted.count(j);
      Z before(me->h);
      bool ok = try_update(me, join_lines(lines), threw);
      if (ok && ex == MUST_REFUSE) { ctx.fail(std::string("commonkey/malformed-contribution-accepted/") + (line == 0 ? "key" : line == 1 ? "challenge" : "response") + "/" + m.name, d.str()); break; }
      if (ok) { // unjudged but accepted: an equivalent representation of the honest contribution
        if (was) { d << "(dup-accepted)"; ctx.label("out-of-protocol-duplicate"); model = Z(me->h); /* duplicate acceptance is outside the stated protocol: resync, not judged */ }
        else { model = (model * kt.h) % p; accepted.insert(j); }
        ctx.label("equivalent-representation-accepted");
      } else { rejected++; if (Z(me->h) != before) { ctx.fail("commonkey/refused-contribution-changed-key", d.str()); break; } }
    }
    if (kind == 2) { // remove(j)
      bool was = accepted.count(j); bool ok = try_remove(me, P.keytext[j], threw); d << " rm" << j;
      if (ok != was) { ctx.fail(was ? "commonkey/remove-of-accepted-key-refused" : "commonkey/remove-of-unknown-key-accepted", d.str()); break; }
      if (ok) { model = (model * zinv(Z(P[j]->h_i), p)) % p; accepted.erase(j); removed++; }
    }
    if (kind == 3) { // remove(unknown): a random group element nobody contributed
      Z x = zpowm(Z(me->g), zrand_below(ctx, q - 2) + 2, p); std::string t = z62(x) + "\n0\n0\n";
      bool ok = try_remove(me, t, threw); d << " rmX";
      if (ok) { ctx.fail("commonkey/remove-of-unknown-key-accepted", d.str()); break; }
    }
    if (Z(me->h) != model) { ctx.fail("commonkey/key-differs-from-product-of-accepted", d.str() + " h=" + S(Z(me->h)) + " model=" + S(model)); break; }
    if (me->KeyGenerationProtocol_NumberOfKeys() != accepted.size()) { ctx.fail("commonkey/number-of-keys", d.str()); break; }
  }
  ctx.desc << d.str(); ctx.label(group_kind_name(g.kind));
  if (k >= 3 && (rejected + removed) >= 1) ctx.nontrivial(d.str());
}
