// C15 — secret sharing and distributed key generation are consistent.
// All parties run the library protocols as tasks of the deterministic simulator (lib/detsim.hh);
// the oracle is computed by the harness from the public members of all honest instances with GMP:
// QUAL / y agreement, share vs. commitments, EVERY (t+1)-subset of honest qualified shares
// interpolates to the same x with g^x = y, refresh invariance, dealer's secret reconstructed.
#include "parties.hh"
#include <memory>
#include "mutate.hh"
using namespace vf;
const char *vf::PROPERTY = "C15";
void vf::harness_init() { silence_cerr(); }

struct Grp { Z p, q, g, h; unsigned long F, G; };
static Grp pick_grp(Ctx &ctx) {
  Grp r; GroupSpec gs{G_SCHNORR_CANON, 0, 0, 0}; if (ctx.thorough && ctx.c.prob(1, 6)) { gs.fsize = 512; gs.gsize = 160; } else { gs.fsize = 384; gs.gsize = 128; } gs.idx = (unsigned)ctx.c.index(3);
  auto l = split_lines(vtmf_group_text(gs.kind, gs.fsize, gs.gsize, gs.idx)); r.p = zparse62(l[0]); r.q = zparse62(l[1]); r.g = zparse62(l[2]); r.F = gs.fsize; r.G = gs.gsize;
  r.h = zpowm(r.g, zrand_below(ctx, r.q - 2) + 2, r.p); return r;
}
enum FaultKind { F_NONE = 0, F_SILENT, F_LIBSWITCH, F_WRONG_SHARE, F_DROP_AFTER, F_FALSE_COMPLAINT, F_BAD_BROADCAST };
struct Faults { std::vector<int> kind; std::vector<size_t> arg, arg2; std::vector<std::vector<bool> > victim; std::string desc; size_t count = 0; Z p; };
// wrong-share: the faulty party follows the protocol, but the network tap adds 1 to its arg-th private value towards each party of a
// generated victim set of 1..t+1 others (so the number of complaints lands below, at and above the disqualification threshold t, with
// honest complainers and honest non-complainers side by side)
static Faults pick_faults(Ctx &ctx, size_t n, size_t maxf, size_t t = 1) {
  Faults f; f.kind.assign(n, F_NONE); f.arg.assign(n, 0); f.arg2.assign(n, 0); f.victim.assign(n, std::vector<bool>(n, false)); size_t k = maxf ? (size_t)ctx.c.range(1, maxf) : 0;
  std::vector<size_t> idx(n); for (size_t i = 0; i < n; i++) idx[i] = i;
  for (size_t i = 0; i < k; i++) { size_t j = i + ctx.c.index(n - i); std::swap(idx[i], idx[j]); size_t who = idx[i];
    f.kind[who] = 1 + (int)ctx.c.weighted({2, 3, 4, 0, 2, 3}); // partial silence (drop-after) is not generated: cascaded time-outs at the parties that were still served
    // desynchronise the honest parties, which is outside the synchrony assumption of the property (DESIGN.md, observation O6)
    static const char *nm[] = {"", "silent", "library-switch", "wrong-share", "drop-after", "false-complaint", "malformed-broadcast"}; f.desc += " P" + std::to_string(who) + ":" + nm[f.kind[who]];
    if (f.kind[who] == F_WRONG_SHARE) { f.arg[who] = ctx.c.weighted({5, 2, 1, 1}); size_t nv = 1 + ctx.c.weighted({3, 3, 1}) % (t + 1); if (nv > n - 1) nv = n - 1;
      std::vector<size_t> others; for (size_t x = 0; x < n; x++) if (x != who) others.push_back(x);
      f.desc += "(value#" + std::to_string(f.arg[who]) + "->"; for (size_t v = 0; v < nv; v++) { size_t z = v + ctx.c.index(others.size() - v); std::swap(others[v], others[z]); f.victim[who][others[v]] = true; f.desc += "P" + std::to_string(others[v]); } f.desc += ")"; }
    // false complaint: the party follows the protocol, but the first end marker (the value n) it broadcasts is turned into the index of
    // another party, i.e. into a complaint against a dealer that served it correctly (its real end marker is then missing)
    if (f.kind[who] == F_FALSE_COMPLAINT) { f.arg[who] = (who + 1 + ctx.c.index(n - 1)) % n; f.desc += "(against P" + std::to_string(f.arg[who]) + ")"; }
    // malformed broadcast: the party follows the protocol, but the payload of its k-th reliable broadcast (a commitment, a public key share, a
    // published share) is replaced for ALL recipients alike by a degenerate or out-of-range value: 0, 1, p-1, v+p, p-v, v+1
    if (f.kind[who] == F_BAD_BROADCAST) { f.arg[who] = ctx.c.weighted({4, 3, 2, 2, 1, 1, 1, 1}); f.arg2[who] = ctx.c.index(6); static const char *mn[] = {"0", "1", "p-1", "v+p", "p-v", "v+1"}; f.desc += "(broadcast#" + std::to_string(f.arg[who]) + ":=" + mn[f.arg2[who]] + ")"; }
    f.count++; }
  return f;
}
static void install_tap(Cluster &cl, const Faults &f) {
  cl.uni.tap = [&cl, f](size_t from, size_t to, unsigned long idx, detsim::Z &v) -> int {
    if (f.kind[from] == F_WRONG_SHARE && f.victim[from][to] && idx == f.arg[from]) { v += 1; return 0; }
    if (f.kind[from] == F_DROP_AFTER) { unsigned long tot = 0; for (size_t x = 0; x < cl.n; x++) tot += cl.uni.count[from][x]; if (tot > f.arg[from] * 3) return 1; }
    return 0; };
  auto lastact = std::make_shared<std::vector<std::vector<long> > >(cl.n, std::vector<long>(cl.n, 0)); auto done = std::make_shared<std::vector<std::vector<bool> > >(cl.n, std::vector<bool>(cl.n, false));
  auto lastsnd = std::make_shared<std::vector<std::vector<long> > >(cl.n, std::vector<long>(cl.n, -1)); auto nsend = std::make_shared<std::vector<std::vector<size_t> > >(cl.n, std::vector<size_t>(cl.n, 0));
  cl.bc.tap = [&cl, f, lastact, done, lastsnd, nsend](size_t from, size_t to, unsigned long idx, detsim::Z &v) -> int {
    if (f.kind[from] == F_FALSE_COMPLAINT) { // the broadcast layer sends 5-tuples (channel, sender, sequence number, action, payload); action 1 = r-send
      if (idx % 5 == 3) (*lastact)[from][to] = v.fits_slong_p() ? v.get_si() : -1;
      else if (idx % 5 == 4 && (*lastact)[from][to] == 1 && !(*done)[from][to] && v == detsim::Z((unsigned long)cl.n)) { v = detsim::Z((unsigned long)f.arg[from]); (*done)[from][to] = true; } }
    if (f.kind[from] == F_BAD_BROADCAST) { // the r-send tuples (action 1) of the faulty sender itself carry its own broadcasts (sender field = from)
      if (idx % 5 == 1) (*lastsnd)[from][to] = v.fits_slong_p() ? v.get_si() : -1;
      if (idx % 5 == 3) (*lastact)[from][to] = v.fits_slong_p() ? v.get_si() : -1;
      else if (idx % 5 == 4 && (*lastact)[from][to] == 1 && (*lastsnd)[from][to] == (long)from) { size_t k = (*nsend)[from][to]++;
        if (k == f.arg[from]) { const detsim::Z &P = f.p; switch (f.arg2[from]) { case 0: v = 0; break; case 1: v = 1; break; case 2: v = P - 1; break; case 3: v = v + P; break; case 4: v = P - v; break; default: v = v + 1; } } } }
    if (f.kind[from] == F_DROP_AFTER) { unsigned long tot = 0; for (size_t x = 0; x < cl.n; x++) tot += cl.bc.count[from][x]; if (tot > (f.arg[from] + 2) * 40) return 1; }
    return 0; };
}
static bool honest(const Faults &f, size_t i) { return f.kind[i] == F_NONE; }
static std::string qstr(const std::vector<size_t> &q) { std::string s = "{"; for (size_t i = 0; i < q.size(); i++) s += (i ? "," : "") + std::to_string(q[i]); return s + "}"; }

// judge shares: every (t+1)-subset of honest parties in QUAL interpolates to one x with g^x = y
static void judge_shares(Ctx &ctx, const std::string &proto, const Grp &G, size_t t, const std::vector<size_t> &hq, const std::vector<Z> &xs /* indexed by party */, const Z &y, const std::string &d, Z *xout = nullptr, const std::string &sigsuffix = "") {
  if (hq.size() < t + 1) { ctx.label("too-few-honest-shares-to-interpolate"); return; }
  bool first = true; Z x0; size_t nsub = 0;
  subsets(hq, t + 1, [&](const std::vector<size_t> &sub) { if (ctx.failed) return; std::vector<Z> sh; for (size_t i : sub) sh.push_back(xs[i]); Z x = lagrange_at_zero(sub, sh, G.q); nsub++;
    if (first) { x0 = x; first = false; if (zpowm(G.g, x, G.p) != y) ctx.fail("sharing/" + proto + "/interpolated-secret-does-not-match-public-key" + sigsuffix, "subset " + qstr(sub) + " " + d); }
    else if (x != x0) ctx.fail("sharing/" + proto + "/subsets-interpolate-to-different-secrets", "subset " + qstr(sub) + " " + d); });
  ctx.count("subsets_interpolated", (int64_t)nsub); if (xout) *xout = x0;
}

// --------------------------------------------------------------------------- GJKR New-DKG
VF_SUB(gjkr_dkg, 110, 2500) {
  Grp G = pick_grp(ctx); size_t n = (size_t)ctx.c.range(4, ctx.thorough ? 7 : 6);
  bool with_faults = ctx.c.prob(3, 5) && n >= 4; size_t tmax = (n - 1) / 3, t = (size_t)ctx.c.range(1, tmax); // the broadcast layer needs n > 3t // t = 0 is degenerate (a share is the secret; the classes use 0 as "no share")
  Faults F = with_faults ? pick_faults(ctx, n, t, t) : pick_faults(ctx, n, 0); F.p = G.p;
  std::vector<bool> present(n, true); for (size_t i = 0; i < n; i++) if (F.kind[i] == F_SILENT) present[i] = false;
  Cluster cl(n, t, present); install_tap(cl, F);
  std::vector<GennaroJareckiKrawczykRabinDKG *> dkg(n, nullptr); std::vector<bool> ret(n, false);
  std::ostringstream d; d << "gjkr_dkg n=" << n << " t=" << t << " F=" << G.F << "/" << G.G << " faults:" << (F.desc.empty() ? " none" : F.desc);
  bool simok = cl.run(ctx, [&](PartyEnv &e) {
    dkg[e.i] = new GennaroJareckiKrawczykRabinDKG(n, t, e.i, G.p.get_mpz_t(), G.q.get_mpz_t(), G.g.get_mpz_t(), G.h.get_mpz_t(), G.F, G.G, true, false, "c15");
    e.rbc->setID("c15-gjkr-dkg"); ret[e.i] = dkg[e.i]->Generate(e.aiou, e.rbc, e.err, F.kind[e.i] == F_LIBSWITCH); e.rbc->unsetID(); });
  ctx.desc << d.str() << " vtime=" << vf::vnow << " msgs=" << cl.uni.sent + cl.bc.sent; ctx.label("n=" + std::to_string(n)); ctx.label(F.count ? "with-faults" : "fault-free"); for (size_t z = 0; z < n; z++) if (F.kind[z]) ctx.label(std::string("fault:") + (F.kind[z] == F_SILENT ? "silent" : F.kind[z] == F_LIBSWITCH ? "library-switch" : F.kind[z] == F_FALSE_COMPLAINT ? "false-complaint" : F.kind[z] == F_BAD_BROADCAST ? "malformed-broadcast" : "wrong-share"));
  if (F.count >= 1 || n >= 4) ctx.nontrivial(d.str() + std::to_string(cl.bc.sent));
  if (!simok) ctx.fail("sharing/gjkr_dkg/simulation-deadlock-or-time-budget", d.str() + cl.task_errors());
  std::vector<size_t> H; for (size_t i = 0; i < n; i++) if (honest(F, i)) H.push_back(i);
  for (size_t i : H) if (!ctx.failed) { if (!ret[i]) ctx.fail("sharing/gjkr_dkg/honest-party-fails", "party " + std::to_string(i) + " Generate() returned false: " + d.str() + " log: " + cl.env[i]->err.str().substr(0, 400) + cl.task_errors()); }
  if (!ctx.failed && !H.empty()) {
    size_t a = H[0];
    for (size_t i : H) { if (dkg[i]->QUAL != dkg[a]->QUAL) { ctx.fail("sharing/gjkr_dkg/qual-differs", "P" + std::to_string(a) + " " + qstr(dkg[a]->QUAL) + " vs P" + std::to_string(i) + " " + qstr(dkg[i]->QUAL) + " " + d.str()); break; }
      if (Z(dkg[i]->y) != Z(dkg[a]->y)) { ctx.fail("sharing/gjkr_dkg/public-key-differs", d.str()); break; }
      if (!dkg[i]->CheckKey()) { ctx.fail("sharing/gjkr_dkg/checkkey-fails-at-honest-party", "party " + std::to_string(i) + " " + d.str()); break; }
      if (zpowm(G.g, Z(dkg[i]->x_i), G.p) != Z(dkg[a]->v_i[i])) { ctx.fail("sharing/gjkr_dkg/share-does-not-match-verification-key", "party " + std::to_string(i) + " " + d.str()); break; } }
    for (size_t i : H) if (!ctx.failed && std::find(dkg[a]->QUAL.begin(), dkg[a]->QUAL.end(), i) == dkg[a]->QUAL.end()) ctx.fail("sharing/gjkr_dkg/honest-party-disqualified", "party " + std::to_string(i) + " not in QUAL " + qstr(dkg[a]->QUAL) + " " + d.str());
    if (!ctx.failed) { std::vector<Z> xs(n); for (size_t i : H) xs[i] = Z(dkg[i]->x_i); judge_shares(ctx, "gjkr_dkg", G, t, H, xs, Z(dkg[a]->y), d.str()); }
  }
  for (auto x : dkg) delete x;
}

// --------------------------------------------------------------------------- Pedersen VSS: share + reconstruct
VF_SUB(pedersen_vss, 90, 2000) {
  Grp G = pick_grp(ctx); size_t n = (size_t)ctx.c.range(4, 6);
  bool with_faults = ctx.c.prob(3, 5) && n >= 4; size_t tmax = (n - 1) / 3, t = (size_t)ctx.c.range(1, tmax); // the broadcast layer needs n > 3t
  Faults F = with_faults ? pick_faults(ctx, n, t, t) : pick_faults(ctx, n, 0); F.p = G.p;
  size_t dealer = ctx.c.index(n); Z sigma = ctx.c.prob(1, 4) ? Z((unsigned long)ctx.c.index(3)) : zrand_below(ctx, G.q);
  std::vector<bool> present(n, true); for (size_t i = 0; i < n; i++) if (F.kind[i] == F_SILENT) present[i] = false;
  Cluster cl(n, t, present); install_tap(cl, F);
  std::vector<PedersenVSS *> vss(n, nullptr); std::vector<bool> ret(n, false), rret(n, false); std::vector<Z> rec(n);
  std::ostringstream d; d << "pedersen_vss n=" << n << " t=" << t << " dealer=" << dealer << " faults:" << (F.desc.empty() ? " none" : F.desc);
  bool simok = cl.run(ctx, [&](PartyEnv &e) {
    vss[e.i] = new PedersenVSS(n, t, e.i, G.p.get_mpz_t(), G.q.get_mpz_t(), G.g.get_mpz_t(), G.h.get_mpz_t(), G.F, G.G, false, "c15");
    e.rbc->setID("c15-vss-share");
    if (e.i == dealer) ret[e.i] = vss[e.i]->Share(sigma.get_mpz_t(), e.aiou, e.rbc, e.err, F.kind[e.i] == F_LIBSWITCH); else ret[e.i] = vss[e.i]->Share(dealer, e.aiou, e.rbc, e.err, F.kind[e.i] == F_LIBSWITCH);
    e.rbc->unsetID(); cl.barrier(e, 1);
    e.rbc->setID("c15-vss-reconstruct"); Z s = 42; rret[e.i] = vss[e.i]->Reconstruct(dealer, s.get_mpz_t(), e.rbc, e.err); rec[e.i] = s; e.rbc->unsetID(); });
  ctx.desc << d.str() << " vtime=" << vf::vnow; ctx.label("n=" + std::to_string(n)); ctx.label(F.count ? "with-faults" : "fault-free"); for (size_t z = 0; z < n; z++) if (F.kind[z]) ctx.label(std::string("fault:") + (F.kind[z] == F_SILENT ? "silent" : F.kind[z] == F_LIBSWITCH ? "library-switch" : F.kind[z] == F_FALSE_COMPLAINT ? "false-complaint" : F.kind[z] == F_BAD_BROADCAST ? "malformed-broadcast" : "wrong-share")); ctx.label(honest(F, dealer) ? "honest-dealer" : "faulty-dealer");
  if (F.count >= 1 || n >= 4) ctx.nontrivial(d.str() + std::to_string(cl.bc.sent));
  if (!simok) ctx.fail("sharing/pedersen_vss/simulation-deadlock-or-time-budget", d.str() + cl.task_errors());
  std::vector<size_t> H; for (size_t i = 0; i < n; i++) if (honest(F, i)) H.push_back(i);
  if (!ctx.failed && honest(F, dealer)) {
    for (size_t i : H) { if (!ret[i]) { ctx.fail("sharing/pedersen_vss/honest-party-fails-with-honest-dealer", "party " + std::to_string(i) + " Share() false: " + d.str() + " log: " + cl.env[i]->err.str().substr(0, 300) + cl.task_errors()); break; }
      if (i == dealer) continue; // by design the dealer's own Reconstruct() returns true without output (it knows the secret)
      if (!rret[i] || rec[i] != sigma) { ctx.fail("sharing/pedersen_vss/reconstruction-differs-from-dealers-secret", "party " + std::to_string(i) + " reconstructed " + S(rec[i]) + " (ret " + std::to_string(rret[i]) + ") secret " + S(sigma) + " " + d.str()); break; }
      // share consistent with the broadcast commitments: g^sigma_i h^tau_i = prod A_j^{(i+1)^j}
      Z lhs = zpowm(G.g, Z(vss[i]->sigma_i), G.p) * zpowm(G.h, Z(vss[i]->tau_i), G.p) % G.p, rhs = 1, pw = 1;
      for (size_t j = 0; j < vss[i]->A_j.size(); j++) { rhs = rhs * zpowm(Z(vss[i]->A_j[j]), pw, G.p) % G.p; pw = pw * Z((unsigned long)(i + 1)) % G.q; }
      if (lhs != rhs) { ctx.fail("sharing/pedersen_vss/share-inconsistent-with-commitments", "party " + std::to_string(i) + " " + d.str()); break; } }
    if (!ctx.failed) { // any t+1 honest shares interpolate to sigma
      std::vector<Z> xs(n); for (size_t i : H) xs[i] = Z(vss[i]->sigma_i);
      if (H.size() >= t + 1) subsets(H, t + 1, [&](const std::vector<size_t> &sub) { if (ctx.failed) return; std::vector<Z> sh; for (size_t i : sub) sh.push_back(xs[i]); if (lagrange_at_zero(sub, sh, G.q) != sigma) ctx.fail("sharing/pedersen_vss/shares-do-not-interpolate-to-the-secret", "subset " + qstr(sub) + " " + d.str()); });
    }
  } else if (!ctx.failed) { // faulty dealer: honest parties that accepted agree with each other on reconstruction
    bool have = false; Z v; for (size_t i : H) if (ret[i] && rret[i]) { if (!have) { v = rec[i]; have = true; } else if (rec[i] != v) { std::string all; if (getenv("VF_ALL_LOGS")) for (size_t z = 0; z < n; z++) all += "\n--- log of P" + std::to_string(z) + " ret=" + std::to_string(ret[z]) + " rret=" + std::to_string(rret[z]) + " rec=" + S(rec[z]) + ":\n" + cl.env[z]->err.str(); ctx.fail("sharing/pedersen_vss/honest-parties-reconstruct-different-values", d.str() + all); break; } }
    bool anyacc = false, anyrej = false; for (size_t i : H) (ret[i] ? anyacc : anyrej) = true; if (anyacc && anyrej) { std::string all; if (getenv("VF_ALL_LOGS")) for (size_t z = 0; z < n; z++) all += "\n--- log of P" + std::to_string(z) + " ret=" + std::to_string(ret[z]) + ":\n" + cl.env[z]->err.str(); ctx.fail("sharing/pedersen_vss/honest-parties-disagree-on-dealer-qualification", d.str() + all); }
  }
  for (auto x : vss) delete x;
}

// --------------------------------------------------------------------------- CGJKR DKG with refresh
VF_SUB(cgjkr_dkg_refresh, 60, 1500) {
  Grp G = pick_grp(ctx); size_t n = (size_t)ctx.c.range(4, 5);
  bool with_faults = ctx.c.prob(3, 5) && n >= 4; size_t tmax = (n - 1) / 3, t = (size_t)ctx.c.range(1, tmax); // the broadcast layer needs n > 3t
  Faults F = with_faults ? pick_faults(ctx, n, t, t) : pick_faults(ctx, n, 0); F.p = G.p;
  std::vector<bool> present(n, true); for (size_t i = 0; i < n; i++) if (F.kind[i] == F_SILENT) present[i] = false;
  Cluster cl(n, t, present); install_tap(cl, F);
  std::vector<CanettiGennaroJareckiKrawczykRabinDKG *> dkg(n, nullptr); std::vector<bool> ret(n, false), rret(n, false); std::vector<Z> x_before(n), y_before(n); std::vector<std::vector<size_t> > qual_before(n);
  std::ostringstream d; d << "cgjkr_dkg_refresh n=" << n << " t=" << t << " faults:" << (F.desc.empty() ? " none" : F.desc);
  bool simok = cl.run(ctx, [&](PartyEnv &e) {
    dkg[e.i] = new CanettiGennaroJareckiKrawczykRabinDKG(n, t, e.i, G.p.get_mpz_t(), G.q.get_mpz_t(), G.g.get_mpz_t(), G.h.get_mpz_t(), G.F, G.G, true, false, "c15");
    e.rbc->setID("c15-cgjkr-generate"); ret[e.i] = dkg[e.i]->Generate(e.aiou, e.rbc, e.err, F.kind[e.i] == F_LIBSWITCH); e.rbc->unsetID();
    x_before[e.i] = Z(dkg[e.i]->x_i); y_before[e.i] = Z(dkg[e.i]->y); qual_before[e.i] = dkg[e.i]->QUAL; cl.barrier(e, 1);
    e.rbc->setID("c15-cgjkr-refresh"); rret[e.i] = dkg[e.i]->Refresh(n, e.i, e.aiou, e.rbc, e.err, F.kind[e.i] == F_LIBSWITCH); e.rbc->unsetID(); });
  ctx.desc << d.str() << " vtime=" << vf::vnow; ctx.label("n=" + std::to_string(n)); ctx.label(F.count ? "with-faults" : "fault-free"); for (size_t z = 0; z < n; z++) if (F.kind[z]) ctx.label(std::string("fault:") + (F.kind[z] == F_SILENT ? "silent" : F.kind[z] == F_LIBSWITCH ? "library-switch" : F.kind[z] == F_FALSE_COMPLAINT ? "false-complaint" : F.kind[z] == F_BAD_BROADCAST ? "malformed-broadcast" : "wrong-share"));
  if (F.count >= 1 || n >= 4) ctx.nontrivial(d.str() + std::to_string(cl.bc.sent));
  if (!simok) ctx.fail("sharing/cgjkr_dkg/simulation-deadlock-or-time-budget", d.str() + cl.task_errors());
  std::vector<size_t> H; for (size_t i = 0; i < n; i++) if (honest(F, i)) H.push_back(i);
  for (size_t i : H) if (!ctx.failed) { if (!ret[i]) { std::string all; if (getenv("VF_ALL_LOGS")) for (size_t z = 0; z < n; z++) all += "\n--- log of P" + std::to_string(z) + ":\n" + cl.env[z]->err.str(); ctx.fail("sharing/cgjkr_dkg/honest-party-fails-generate", "party " + std::to_string(i) + " " + d.str() + " log: " + cl.env[i]->err.str().substr(0, 1500) + cl.task_errors() + all); } else if (!rret[i]) ctx.fail("sharing/cgjkr_dkg/honest-party-fails-refresh", "party " + std::to_string(i) + " " + d.str() + " log: " + cl.env[i]->err.str().substr(0, 300) + cl.task_errors()); }
  if (!ctx.failed && !H.empty()) {
    size_t a = H[0];
    for (size_t i : H) { if (qual_before[i] != qual_before[a]) { ctx.fail("sharing/cgjkr_dkg/qual-differs", d.str()); break; } if (y_before[i] != y_before[a]) { ctx.fail("sharing/cgjkr_dkg/public-key-differs", d.str()); break; } if (Z(dkg[i]->y) != y_before[a]) { ctx.fail("sharing/cgjkr_dkg/refresh-changed-public-key", d.str()); break; } }
    std::string alllogs; if (getenv("VF_ALL_LOGS")) for (size_t z = 0; z < n; z++) alllogs += "\n--- log of P" + std::to_string(z) + ":\n" + cl.env[z]->err.str();
    // the share phase (x_rvss) and the key extraction phase can end with different qualified sets
    std::string sfx = (dkg[a]->x_rvss && dkg[a]->x_rvss->QUAL.size() != qual_before[a].size()) ? "/party-disqualified-after-share-phase" : "";
    Z x1, x2; if (!ctx.failed) judge_shares(ctx, "cgjkr_dkg", G, t, H, x_before, y_before[a], d.str() + " (before refresh) share-phase QUAL " + qstr(dkg[a]->x_rvss->QUAL) + " final QUAL " + qstr(qual_before[a]) + alllogs, &x1, sfx);
    if (!ctx.failed) { std::vector<Z> xs(n); for (size_t i : H) xs[i] = Z(dkg[i]->x_i); judge_shares(ctx, "cgjkr_dkg", G, t, H, xs, y_before[a], d.str() + " (after refresh)", &x2, sfx);
      if (!ctx.failed && H.size() >= t + 1 && x1 != x2) ctx.fail("sharing/cgjkr_dkg/refresh-changed-secret", d.str());
      bool changed = false; for (size_t i : H) if (xs[i] != x_before[i]) changed = true; if (!ctx.failed && t >= 1 && !changed) ctx.fail("sharing/cgjkr_dkg/refresh-left-all-shares-unchanged", d.str()); }
  }
  for (auto x : dkg) delete x;
}
