// C07 — shuffle permutations, rotation offsets and random residues are uniform;
// no drawn value ever lies outside its range.
//
// The library runs on the harness' seeded uniform byte stream (xoshiro256** behind
// gcry_randomize / gcry_create_nonce), so what is judged is the library's
// POST-PROCESSING of uniform bytes.  One *case* = one configuration (sampler x
// modulus / stack size) with N draws from a seed taken from the case's choice
// sequence; each case carries one to three chi-square tests.  Verdict: exact
// p-value Q(dof/2, chi2/2) (regularised upper incomplete gamma, validated in
// harness_init) below 1e-9 => violation.  The scripted sub-property feeds chosen
// raw machine words to the bounded sampler and is exact, not statistical.
#include "fix.hh"
#include <set>
#include <cmath>
#include <climits>
#include <iomanip>
using namespace vf;
const char *vf::PROPERTY = "C07";

typedef unsigned __int128 u128;
// The permutation samplers allocate ~10 small GMP objects per card; with ASan's default 256 MB quarantine the
// harness spends most of its time in page faults.  A smaller quarantine keeps the run CPU-bound (the driver's
// ASAN_OPTIONS do not set this key, so this default applies); memory errors are still reported.
extern "C" const char *__asan_default_options() { return "quarantine_size_mb=16"; }
static const double ALPHA = 1e-9;

// --------------------------------------------------------------------------- exact p-values
// Q(a, x) = Gamma(a, x) / Gamma(a): series for x < a + 1 (there Q is not small, so 1 - P loses
// nothing), modified Lentz continued fraction otherwise (accurate far into the upper tail).
static double gammaQ(double a, double x) {
  if (!(x > 0)) return 1.0;
  if (!(a > 0)) return 0.0;
  double lg = std::lgamma(a), pre = -x + a * std::log(x) - lg;
  if (x < a + 1) {
    double ap = a, del = 1.0 / a, sum = del;
    for (int n = 0; n < 10000000; n++) { ap += 1; del *= x / ap; sum += del; if (std::fabs(del) < std::fabs(sum) * 1e-17) break; }
    double P = sum * std::exp(pre);
    return P >= 1 ? 0.0 : 1.0 - P;
  }
  const double FPMIN = 1e-300;
  double b = x + 1 - a, c = 1 / FPMIN, d = 1 / b, h = d;
  for (int i = 1; i < 10000000; i++) {
    double an = -(double)i * ((double)i - a); b += 2;
    d = an * d + b; if (std::fabs(d) < FPMIN) d = FPMIN;
    c = b + an / c; if (std::fabs(c) < FPMIN) c = FPMIN;
    d = 1 / d; double del = d * c; h *= del;
    if (std::fabs(del - 1) < 1e-16) break;
  }
  return std::exp(pre) * h;
}
static double chi2_sf(double stat, double dof) { return gammaQ(dof / 2, stat / 2); }

// independent reference for validation: even dof closed form e^-y sum y^j/j!, odd dof by the
// recurrence Q(a+1,y) = Q(a,y) + y^a e^-y / Gamma(a+1) started at Q(1/2,y) = erfc(sqrt y); all
// terms positive, evaluated in log space
static double chi2_sf_reference(double stat, unsigned dof) {
  double y = stat / 2, ly = std::log(y), s = 0; unsigned n = dof / 2;
  if (dof % 2 == 0) { for (unsigned j = 0; j < n; j++) s += std::exp(-y + j * ly - std::lgamma(j + 1.0)); return s; }
  s = std::erfc(std::sqrt(y));
  for (unsigned j = 0; j < n; j++) s += std::exp(-y + (j + 0.5) * ly - std::lgamma(j + 1.5));
  return s;
}
static void die(const std::string &why) { fprintf(stderr, "C07 harness self-test failed: %s\n", why.c_str()); fflush(stderr); _exit(2); }

void vf::harness_init() {
  // (a) textbook quantiles
  struct { double x; unsigned k; double p; } q[] = {
    {3.841458820694124, 1, 0.05}, {18.307038053275146, 10, 0.05}, {124.34211340400407, 100, 0.05},
    {15.08627246938899, 5, 0.01}, {45.31474661812586, 20, 0.001}, {34.76425168350175, 50, 0.95},
    {41.44653167389282, 2, 1e-9} /* -2 ln 1e-9 */, {2 * 230.25850929940458, 2, 1e-100}};
  for (auto &t : q) { double p = chi2_sf(t.x, t.k); if (!(std::fabs(p - t.p) <= 3e-6 * t.p)) { std::ostringstream o; o << std::setprecision(17) << "quantile chi2(" << t.k << ")=" << t.x << " gave p=" << p << " expected " << t.p; die(o.str()); } }
  // (b) grid against the closed form / recurrence reference, body and far tail
  const unsigned ks[] = {1, 2, 3, 4, 5, 6, 23, 24, 62, 63, 64, 119, 255, 256, 719, 720, 2601, 3969, 4031, 4032};
  const double zs[] = {-3, -1, 0, 1, 3, 6, 6.5, 8, 12, 20};
  for (unsigned k : ks) for (double z : zs) {
    double x = k + z * std::sqrt(2.0 * k) + (z > 3 ? z * z : 0); if (x <= 0) x = 0.01 * k;
    double r = chi2_sf_reference(x, k), p = chi2_sf(x, k);
    if (r < 1e-280) continue;
    if (!(std::fabs(p - r) <= 1e-9 * r + 1e-15)) { std::ostringstream o; o << std::setprecision(17) << "Q(" << k << "/2," << x << "/2)=" << p << " reference " << r; die(o.str()); }
  }
  if (sizeof(unsigned long) != 8) die("the harness assumes a 64-bit unsigned long");
}

// --------------------------------------------------------------------------- chi-square bookkeeping
struct Chi { double stat = 0, min_e = 1e300, wo = 0, we = 0, wterm = -1; size_t cells = 0, worst = 0; };
static void chi_add(Chi &c, size_t idx, double o, double e) {
  if (e <= 0) return; // impossible cells are judged by the range invariant, not here
  double t = (o - e) * (o - e) / e; c.stat += t; c.cells++; if (e < c.min_e) c.min_e = e;
  if (t > c.wterm) { c.wterm = t; c.worst = idx; c.wo = o; c.we = e; }
}
static Chi chi_flat(const std::vector<uint64_t> &o, double e) { Chi c; for (size_t i = 0; i < o.size(); i++) chi_add(c, i, (double)o[i], e); return c; }
static Chi chi_exp(const std::vector<uint64_t> &o, const std::vector<double> &e) { Chi c; for (size_t i = 0; i < o.size(); i++) chi_add(c, i, (double)o[i], e[i]); return c; }
static const char *pclass(double p) { return p >= 0.1 ? "p>=0.1" : p >= 1e-3 ? "1e-3<=p<0.1" : p >= ALPHA ? "1e-9<=p<1e-3" : "p<1e-9"; }

struct Case { // one statistical case: collects tests, min expected count, evidence text
  Ctx &ctx; std::string cfg; uint64_t seed; double min_e = 1e300; unsigned tests = 0;
  Case(Ctx &c, const std::string &cf, uint64_t s) : ctx(c), cfg(cf), seed(s) { ctx.desc << cfg << " seed=" << seed; }
  // stat ~ chi-square(dof) under the property; bonf = number of p-values of which this is the minimum
  void test(const std::string &sig, const char *shortname, const Chi &c, double stat, double dof, double bonf = 1) {
    double p = chi2_sf(stat, dof) * bonf; if (p > 1) p = 1;
    tests++; ctx.count("tests"); ctx.label(pclass(p)); if (c.min_e < min_e) min_e = c.min_e;
    ctx.desc << " [" << shortname << " chi2=" << std::setprecision(6) << stat << " dof=" << dof << " p=" << std::setprecision(3) << p << "]";
    if (p < ALPHA) {
      std::ostringstream m; m << cfg << " seed=" << seed << ": " << shortname << " chi2=" << std::setprecision(8) << stat << " dof=" << dof << (bonf > 1 ? " (Bonferroni x" + std::to_string((unsigned long)bonf) + ")" : std::string())
        << " p=" << std::setprecision(3) << p << " < 1e-9; " << c.cells << " cells, min expected " << std::setprecision(6) << c.min_e << ", worst cell #" << c.worst << " observed " << std::setprecision(12) << c.wo << " expected " << c.we;
      ctx.fail(sig, m.str());
    }
  }
  void finish(uint64_t draws) {
    ctx.count("draws", (int64_t)draws);
    if (tests && min_e >= 5) ctx.nontrivial(cfg + "/" + std::to_string(seed)); else ctx.label("expected<5");
  }
};

struct NullBuf : std::streambuf { int overflow(int c) override { return c; } };
struct QuietCerr { // the very-strong variants print an entropy warning per call on kernels reporting 256 bits
  NullBuf nb; std::streambuf *old; QuietCerr() { old = std::cerr.rdbuf(&nb); } ~QuietCerr() { std::cerr.rdbuf(old); }
};

static GroupSpec small_group() { GroupSpec g; g.kind = G_SCHNORR; g.fsize = 384; g.gsize = 128; g.idx = 0; return g; }

// read the index component, check that it is a bijection on 0..n-1
static bool read_perm(Ctx &ctx, const TMCG_StackSecret<VTMF_CardSecret> &ss, size_t n, std::vector<size_t> &p, const char *who, const std::string &cfg) {
  if (ss.size() != n) { ctx.fail(std::string("range/") + who + "/wrong-size", cfg + ": stack secret has " + std::to_string(ss.size()) + " entries, expected " + std::to_string(n)); return false; }
  uint64_t seen[8] = {0, 0, 0, 0, 0, 0, 0, 0}; p.resize(n);
  for (size_t i = 0; i < n; i++) {
    size_t v = ss[i].first; p[i] = v;
    if (v >= n) { ctx.fail(std::string("range/") + who + "/index-out-of-range", cfg + ": index " + std::to_string(v) + " at position " + std::to_string(i)); return false; }
    if (seen[v >> 6] >> (v & 63) & 1) { ctx.fail(std::string("range/") + who + "/not-a-bijection", cfg + ": index " + std::to_string(v) + " occurs twice"); return false; }
    seen[v >> 6] |= 1ULL << (v & 63);
  }
  return true;
}

// --------------------------------------------------------------------------- (1) full n! histogram
VF_ENUM(perm_full_histogram, 10, 20) {
  size_t idx = ctx.c.raw(); size_t n = 2 + idx % 5;
  uint64_t seed = ctx.c.seed64(); rng_seed(seed);
  size_t fact = 1; for (size_t i = 2; i <= n; i++) fact *= i;
  uint64_t per = (n == 6 ? 60 : 100) * (ctx.thorough ? 5 : 1), N = std::max<uint64_t>(per * fact, 20000); // n=6: ~50 us per call under ASan
  std::string cfg = "perm n=" + std::to_string(n) + " N=" + std::to_string(N);
  Case cs(ctx, cfg, seed); ctx.label("n=" + std::to_string(n));
  VtmfPlayers P(small_group(), 1); SchindelhauerTMCG tmcg(16, 1, 4);
  std::vector<uint64_t> hist(fact, 0); std::vector<size_t> p; TMCG_StackSecret<VTMF_CardSecret> ss;
  for (uint64_t d = 0; d < N; d++) {
    tmcg.TMCG_CreateStackSecret(ss, false, n, P[0]);
    if (!read_perm(ctx, ss, n, p, "perm", cfg)) return;
    size_t rank = 0; // Lehmer code
    for (size_t i = 0; i < n; i++) { size_t c = 0; for (size_t j = i + 1; j < n; j++) if (p[j] < p[i]) c++; rank = rank * (n - i) + c; }
    hist[rank]++;
  }
  Chi c = chi_flat(hist, (double)N / fact);
  cs.test("uniformity/perm/n=" + std::to_string(n) + "/chi2", "n!-histogram", c, c.stat, (double)fact - 1);
  cs.finish(N);
}

// --------------------------------------------------------------------------- (2) marginals for larger stacks
// Position x value table O[i][v] over N uniform permutations: E = N/n per cell, and the covariance of the
// permutation matrix is (1/(n-1)) Pi (x) Pi with Pi = I - J/n (rank n-1), hence
//     (n-1)/n * sum (O-E)^2/E  ~  chi-square with (n-1)^2 degrees of freedom.
// Adjacent difference (p[i+1]-p[i]) mod n is uniform on 1..n-1 at every position i (n-1 tests, the minimum
// p-value is Bonferroni-corrected); the ordered pair (p[i0],p[i0+1]) is uniform on the n(n-1) distinct pairs.
VF_ENUM(perm_marginals, 8, 16) {
  static const size_t NS[] = {7, 16, 52, 64};
  size_t idx = ctx.c.raw(); size_t n = NS[idx % 4];
  uint64_t seed = ctx.c.seed64(); rng_seed(seed);
  size_t i0 = ctx.c.index(n - 1);
  uint64_t N = (n == 64 ? 12000 : n == 52 ? 14000 : 24000) * (ctx.thorough ? 4 : 1); // ~3.5 us per card per call
  std::string cfg = "perm-marginals n=" + std::to_string(n) + " N=" + std::to_string(N) + " pair-position=" + std::to_string(i0);
  Case cs(ctx, cfg, seed); ctx.label("n=" + std::to_string(n));
  VtmfPlayers P(small_group(), 1); SchindelhauerTMCG tmcg(16, 1, 4);
  std::vector<uint64_t> pos(n * n, 0), diff((n - 1) * n, 0), pair(n * n, 0); std::vector<size_t> p; TMCG_StackSecret<VTMF_CardSecret> ss;
  for (uint64_t d = 0; d < N; d++) {
    tmcg.TMCG_CreateStackSecret(ss, false, n, P[0]);
    if (!read_perm(ctx, ss, n, p, "perm", cfg)) return;
    for (size_t i = 0; i < n; i++) pos[i * n + p[i]]++;
    for (size_t i = 0; i + 1 < n; i++) diff[i * n + (p[i + 1] + n - p[i]) % n]++;
    pair[p[i0] * n + p[i0 + 1]]++;
  }
  std::string sn = std::to_string(n);
  Chi c = chi_flat(pos, (double)N / n);
  cs.test("uniformity/perm/n=" + sn + "/marginal-chi2", "position-x-value", c, c.stat * (n - 1) / n, (double)(n - 1) * (n - 1));
  Chi best; double bestp = 2; // adjacent differences
  for (size_t i = 0; i + 1 < n; i++) {
    Chi ci; for (size_t dlt = 1; dlt < n; dlt++) chi_add(ci, i * n + dlt, (double)diff[i * n + dlt], (double)N / (n - 1));
    double pi = chi2_sf(ci.stat, (double)n - 2); if (pi < bestp) { bestp = pi; best = ci; }
  }
  cs.test("uniformity/perm/n=" + sn + "/adjacent-diff-chi2", "adjacent-difference(min over positions)", best, best.stat, (double)n - 2, (double)(n - 1));
  Chi cp; double ep = (double)N / ((double)n * (n - 1));
  for (size_t v = 0; v < n; v++) for (size_t w = 0; w < n; w++) if (v != w) chi_add(cp, v * n + w, (double)pair[v * n + w], ep);
  if (ep >= 10) cs.test("uniformity/perm/n=" + sn + "/adjacent-pair-chi2", "adjacent-pair-table", cp, cp.stat, (double)n * (n - 1) - 1);
  else ctx.label("pair-table-skipped(expected<10)");
  cs.finish(N);
}

// --------------------------------------------------------------------------- (3) rotations
VF_ENUM(rotation_offsets, 63, 126) {
  size_t idx = ctx.c.raw(); size_t n = 2 + (idx * 37) % 63; // every n in 2..64 once per 63 indices; the stride mixes sizes within a shard
  uint64_t seed = ctx.c.seed64(); rng_seed(seed);
  uint64_t N = std::max<uint64_t>(12000, 250 * n) * (ctx.thorough ? 4 : 1);
  std::string cfg = "rotation n=" + std::to_string(n) + " N=" + std::to_string(N);
  Case cs(ctx, cfg, seed); ctx.label(n <= 8 ? "n<=8" : n <= 32 ? "n<=32" : "n<=64");
  VtmfPlayers P(small_group(), 1); SchindelhauerTMCG tmcg(16, 1, 4);
  std::vector<uint64_t> off(n, 0); std::vector<size_t> p; TMCG_StackSecret<VTMF_CardSecret> ss;
  for (uint64_t d = 0; d < N; d++) {
    size_t r = tmcg.TMCG_CreateStackSecret(ss, true, n, P[0]);
    if (!read_perm(ctx, ss, n, p, "rotation", cfg)) return;
    for (size_t i = 0; i < n; i++) if (p[i] != (p[0] + i) % n) { ctx.fail("relation/rotation/not-a-rotation", cfg + ": entry " + std::to_string(i) + " is " + std::to_string(p[i]) + ", first entry " + std::to_string(p[0])); return; }
    if (r >= n) { ctx.fail("range/rotation/returned-offset-out-of-range", cfg + ": returned " + std::to_string(r)); return; }
    if ((n - p[0]) % n != r) { ctx.fail("relation/rotation/returned-offset-mismatch", cfg + " seed=" + std::to_string(seed) + " draw " + std::to_string(d) + ": contents start at " + std::to_string(p[0]) + " (i.e. rotation by " + std::to_string(p[0]) + "), returned value " + std::to_string(r) + ", expected (n - first) mod n = " + std::to_string((n - p[0]) % n)); return; }
    off[p[0]]++;
  }
  Chi c = chi_flat(off, (double)N / n);
  cs.test("uniformity/rotation/n=" + std::to_string(n) + "/chi2", "offset-histogram", c, c.stat, (double)n - 1);
  cs.finish(N);
}

// --------------------------------------------------------------------------- samplers
typedef unsigned long (*ModFn)(unsigned long);
typedef unsigned long (*UiFn)();
typedef void (*MmFn)(mpz_ptr, mpz_srcptr);
typedef void (*BFn)(mpz_ptr, unsigned long);
static const struct Sampler { const char *name; UiFn ui; ModFn mod; MmFn mm; BFn b; } SAMPLERS[3] = {
  {"ssrandom", tmcg_mpz_ssrandom_ui, tmcg_mpz_ssrandom_mod, tmcg_mpz_ssrandomm, tmcg_mpz_ssrandomb},
  {"srandom", tmcg_mpz_srandom_ui, tmcg_mpz_srandom_mod, tmcg_mpz_srandomm, tmcg_mpz_srandomb},
  {"wrandom", tmcg_mpz_wrandom_ui, tmcg_mpz_wrandom_mod, tmcg_mpz_wrandomm, tmcg_mpz_wrandomb}};

// --------------------------------------------------------------------------- (4) bounded sampler, chi-square
// moduli; 0 stands for the unbounded *_ui variant (2^64 values).  0xC000.., 0xA000.., 0xE000.. are the moduli for
// which a missing rejection loop is statistically visible (2^64/m = 4/3, 8/5, 8/7: the low residues are hit twice).
static const unsigned long MODS[] = {2, 3, 5, 6, 7, 255, 256, 257, 0xFFFFFFFFUL, 0x100000001UL, 0x8000000000000001UL, 0xC000000000000000UL,
                                     ULONG_MAX, 0xA000000000000000UL, 0xE000000000000000UL, 0};
static const size_t NMODS = sizeof(MODS) / sizeof(MODS[0]);
static std::string hexul(unsigned long v) { std::ostringstream o; o << "0x" << std::hex << v; return o.str(); }

VF_ENUM(bounded_sampler_chi2, 48, 96) {
  size_t idx = ctx.c.raw(); const Sampler &S = SAMPLERS[idx % 3]; unsigned long m = MODS[(idx / 3) % NMODS];
  uint64_t seed = ctx.c.seed64(); rng_seed(seed);
  uint64_t N = (ctx.thorough ? 8000000 : 2000000);
  std::string who = std::string(S.name) + (m ? "_mod" : "_ui"), ms = m ? (m <= 1000 ? std::to_string(m) : hexul(m)) : "2^64";
  std::string cfg = who + " m=" + ms + " N=" + std::to_string(N);
  Case cs(ctx, cfg, seed); ctx.label(S.name); ctx.label(m == 0 ? "ui" : m <= 4096 ? "small-m" : "large-m");
  QuietCerr quiet;
  if (m == 0) { // 64-bit words: top six bits and every single bit
    std::vector<uint64_t> top(64, 0), bit(64, 0);
    for (uint64_t d = 0; d < N; d++) { unsigned long r = S.ui(); top[r >> 58]++; for (unsigned j = 0; j < 64; j++) bit[j] += (r >> j) & 1; }
    Chi c = chi_flat(top, (double)N / 64);
    cs.test("uniformity/" + who + "/top-bits-chi2", "top-6-bits", c, c.stat, 63);
    Chi cb; for (unsigned j = 0; j < 64; j++) chi_add(cb, j, (double)bit[j], N / 2.0);
    cs.test("uniformity/" + who + "/bit-balance-chi2", "bit-balance", cb, 2 * cb.stat, 64); // (o-e)^2/e over both outcomes = 2x the one-sided term
    cs.finish(N); return;
  }
  if (m <= 4096) {
    std::vector<uint64_t> h(m, 0);
    for (uint64_t d = 0; d < N; d++) { unsigned long r = S.mod(m); if (r >= m) { ctx.fail("range/" + who + "/out-of-range", cfg + " seed=" + std::to_string(seed) + " draw " + std::to_string(d) + " returned " + std::to_string(r)); return; } h[r]++; }
    Chi c = chi_flat(h, (double)N / m);
    cs.test("uniformity/" + who + "/m=" + ms + "/chi2", "residue-histogram", c, c.stat, (double)m - 1);
  } else { // 64 equal-width buckets floor(64 r / m); bucket b holds ceil((b+1)m/64) - ceil(bm/64) residues (exact)
    std::vector<uint64_t> h(64, 0), low(64, 0); std::vector<double> e(64), el(64);
    for (unsigned b = 0; b < 64; b++) { u128 lo = ((u128)b * m + 63) / 64, hi = ((u128)(b + 1) * m + 63) / 64; e[b] = (double)N * (double)(hi - lo) / (double)m; }
    for (unsigned j = 0; j < 64; j++) el[j] = (double)N * (double)((m - 1 - j) / 64 + 1) / (double)m; // residues = j mod 64 below m
    for (uint64_t d = 0; d < N; d++) {
      unsigned long r = S.mod(m); if (r >= m) { ctx.fail("range/" + who + "/out-of-range", cfg + " seed=" + std::to_string(seed) + " draw " + std::to_string(d) + " returned " + hexul(r)); return; }
      h[(size_t)(((u128)r * 64) / m)]++; low[r & 63]++;
    }
    Chi c = chi_exp(h, e);
    cs.test("uniformity/" + who + "/m=" + ms + "/chi2", "64-buckets", c, c.stat, 63);
    Chi cl = chi_exp(low, el);
    cs.test("uniformity/" + who + "/m=" + ms + "/low-bits-chi2", "low-6-bits", cl, cl.stat, 63);
  }
  cs.finish(N);
}

// --------------------------------------------------------------------------- (5) bounded sampler, exact rejection zone (scripted words)
// Property anchor: "rejection sampling that removes modulo bias".  With L = the largest multiple of m that is
// <= 2^64, every residue has exactly L/m preimages among the raw words [0, L); a word in the zone [L, 2^64)
// must not become an output.  Checked consequences (the mapping raw -> residue itself is NOT assumed):
//   * a zone word followed by a marker word M < L yields the same output as M alone, and consumes both words;
//   * M < L alone (in particular L-1) is accepted: exactly one word is consumed.
// Assumes one attempt = sizeof(unsigned long) bytes; any other granularity is counted as unjudged.
static bool scripted(const Sampler &S, unsigned long m, const std::vector<unsigned long> &raws, unsigned long &out, uint64_t &consumed) {
  std::vector<unsigned char> b(raws.size() * sizeof(unsigned long));
  for (size_t i = 0; i < raws.size(); i++) memcpy(&b[i * sizeof(unsigned long)], &raws[i], sizeof(unsigned long));
  rng_script_clear(); rng_script(b);
  uint64_t before = rng_bytes_drawn(); out = S.mod(m); consumed = rng_bytes_drawn() - before;
  rng_script_clear();
  return consumed >= 8 && consumed % 8 == 0;
}
VF_SUB(bounded_sampler_exact_rejection, 6000, 60000) {
  const Sampler &S = SAMPLERS[ctx.c.index(3)]; unsigned long m; std::string mclass;
  switch (ctx.c.weighted({4, 2, 2, 2, 2})) {
    case 0: m = MODS[ctx.c.index(NMODS - 1)]; mclass = "listed"; break;
    case 1: m = (unsigned long)ctx.c.range(2, 1000); mclass = "small"; break;
    case 2: { unsigned k = (unsigned)ctx.c.range(2, 63); long d = (long)ctx.c.range(0, 6) - 3; m = (1UL << k) + (unsigned long)d; if (m < 2) m = 2; mclass = "near-2^k"; break; }
    case 3: m = 0x8000000000000000UL + (unsigned long)(ctx.c.raw64() >> (unsigned)ctx.c.range(1, 63)); mclass = "above-2^63"; break;
    default: m = (unsigned long)(ctx.c.raw64() >> (unsigned)ctx.c.range(0, 56)); if (m < 2) m = 2; mclass = "random"; break;
  }
  std::string who = std::string(S.name) + "_mod";
  u128 T = (u128)1 << 64, L = T / m * m; unsigned long zone = (unsigned long)(T - L); // zone size = 2^64 mod m
  ctx.desc << who << " m=" << hexul(m) << " (" << mclass << ") rejection-zone size=" << hexul(zone);
  ctx.label(S.name); ctx.label("m:" + mclass); ctx.label(zone ? "zone-nonempty" : "zone-empty");
  QuietCerr quiet;
  // markers below L: L-1, 0, two random
  std::vector<unsigned long> markers; markers.push_back((unsigned long)(L - 1)); markers.push_back(0);
  for (int i = 0; i < 2; i++) markers.push_back((unsigned long)(((u128)ctx.c.raw64() * L) >> 64));
  std::vector<unsigned long> zs; // zone words: first, last, second, random
  if (zone) { zs.push_back((unsigned long)L); zs.push_back(ULONG_MAX); if (zone > 2) { zs.push_back((unsigned long)L + 1); zs.push_back((unsigned long)L + (unsigned long)(ctx.c.raw64() % zone)); } }
  std::string key = who + hexul(m); unsigned judged = 0;
  for (size_t mi = 0; mi < markers.size(); mi++) {
    unsigned long M = markers[mi], o1 = 0, o2 = 0; uint64_t c1 = 0, c2 = 0; key += "," + hexul(M);
    bool g = scripted(S, m, {M}, o1, c1);
    ctx.count("scripted_draws");
    if (o1 >= m) { ctx.fail("range/" + who + "/out-of-range", ctx.desc.str() + ": scripted word " + hexul(M) + " gave " + hexul(o1)); return; }
    if (!g) { ctx.label("unjudged-granularity"); ctx.count("unjudged_granularity"); continue; }
    if (c1 != 8) { ctx.fail("rejection/" + who + "/accepted-range-value-rejected", ctx.desc.str() + ": raw word " + hexul(M) + " lies below L=" + (L == T ? std::string("2^64") : hexul((unsigned long)L)) + " but the sampler consumed " + std::to_string(c1) + " bytes (more than one word); residue " + hexul(M % m) + " loses a preimage"); return; }
    judged++;
    for (size_t zi = 0; zi < zs.size(); zi++) {
      unsigned long Zw = zs[zi];
      std::vector<unsigned long> seq; seq.push_back(Zw); if (mi == 2 && zs.size() > 1) seq.push_back(zs[(zi + 1) % zs.size()]); seq.push_back(M);
      bool g2 = scripted(S, m, seq, o2, c2); ctx.count("scripted_draws");
      if (!g2) { ctx.label("unjudged-granularity"); ctx.count("unjudged_granularity"); continue; }
      std::ostringstream d; d << ctx.desc.str() << ": scripted raw words"; for (auto w : seq) d << " " << hexul(w); d << " -> output " << hexul(o2) << " after " << c2 << " bytes; the marker " << hexul(M) << " alone -> " << hexul(o1);
      if (c2 < 8 * seq.size()) { ctx.fail("rejection/" + who + "/biased-zone-accepted", d.str() + "; a word >= L=" + hexul((unsigned long)L) + " was turned into an output (the 2^64 mod m = " + hexul(zone) + " lowest residues get one preimage too many)"); return; }
      if (c2 > 8 * seq.size()) { ctx.fail("rejection/" + who + "/inconsistent-acceptance", d.str() + "; the marker is accepted alone but rejected after a zone word"); return; }
      if (o2 != o1) { ctx.fail("rejection/" + who + "/output-depends-on-rejected-draw", d.str()); return; }
      judged++;
    }
  }
  ctx.count("exact_checks", judged);
  if (zone && judged) ctx.nontrivial(key);
}

// --------------------------------------------------------------------------- (6) residue sampler (big moduli) and bit sampler
struct ModSpec { std::string name; Z m; };
static const std::vector<ModSpec> &big_moduli() {
  static std::vector<ModSpec> v;
  if (v.empty()) {
    const unsigned ks[] = {8, 64, 160, 256};
    for (unsigned k : ks) {
      std::string K = std::to_string(k); Z p = Z(1) << k;
      v.push_back({"2^" + K, p}); v.push_back({"2^" + K + "-1", p - 1}); v.push_back({"2^" + K + "+1", p + 1});
      v.push_back({"3*2^" + std::to_string(k - 2), 3 * (p >> 2)}); v.push_back({"5*2^" + std::to_string(k - 3), 5 * (p >> 3)});
    }
    Z a, b; Z s160 = 3 * (Z(1) << 158), s512 = 3 * (Z(1) << 510);
    mpz_nextprime(a.get_mpz_t(), s160.get_mpz_t()); mpz_nextprime(b.get_mpz_t(), s512.get_mpz_t());
    v.push_back({"prime160(next after 3*2^158)", a}); v.push_back({"prime512(next after 3*2^510)", b});
  }
  return v;
}
static const unsigned long BITSIZES[] = {1, 2, 3, 5, 6, 7, 8, 9, 15, 16, 17, 31, 32, 33, 63, 64, 65, 160, 255, 256, 257, 521};
static const size_t NBITSIZES = sizeof(BITSIZES) / sizeof(BITSIZES[0]);

VF_ENUM(residue_sampler, 132, 264) {
  size_t idx = ctx.c.raw(); const Sampler &S = SAMPLERS[idx % 3]; size_t cfgi = (idx / 3) % (big_moduli().size() + NBITSIZES);
  uint64_t seed = ctx.c.seed64(); rng_seed(seed);
  // the very-strong variants of randomm/randomb open /proc/sys/kernel/random/entropy_avail on every call (~90 us): fewer draws
  bool slow = (idx % 3 == 0); uint64_t N = (slow ? 12000 : 250000) * (ctx.thorough ? 4 : 1);
  ctx.label(S.name);
  QuietCerr quiet;
  if (cfgi < big_moduli().size()) {
    const ModSpec &ms = big_moduli()[cfgi]; const Z &m = ms.m; std::string who = std::string(S.name) + "m";
    std::string cfg = who + " m=" + ms.name + " N=" + std::to_string(N);
    Case cs(ctx, cfg, seed); ctx.label("randomm");
    bool small = m <= 4096; size_t cells = small ? m.get_ui() : 64;
    std::vector<uint64_t> h(cells, 0), low(64, 0); std::vector<double> e(cells), el(64);
    if (small) for (size_t i = 0; i < cells; i++) e[i] = (double)N / cells;
    else {
      for (unsigned b = 0; b < 64; b++) { Z lo, hi, t1 = m * b, t2 = m * (b + 1); mpz_cdiv_q_ui(lo.get_mpz_t(), t1.get_mpz_t(), 64); mpz_cdiv_q_ui(hi.get_mpz_t(), t2.get_mpz_t(), 64); Z cnt = hi - lo; e[b] = (double)N * (cnt.get_d() / m.get_d()); }
      for (unsigned j = 0; j < 64; j++) { Z cnt = (m - 1 - j) / 64 + 1; el[j] = (double)N * (cnt.get_d() / m.get_d()); }
    }
    Z r, t;
    for (uint64_t d = 0; d < N; d++) {
      r = -1; S.mm(r.get_mpz_t(), m.get_mpz_t());
      if (sgn(r) < 0 || r >= m) { ctx.fail("range/" + who + "/out-of-range", cfg + " seed=" + std::to_string(seed) + " draw " + std::to_string(d) + " returned " + zshort(r.get_mpz_t())); return; }
      if (small) h[r.get_ui()]++;
      else { t = r << 6; mpz_tdiv_q(t.get_mpz_t(), t.get_mpz_t(), m.get_mpz_t()); h[t.get_ui()]++; low[mpz_fdiv_ui(r.get_mpz_t(), 64)]++; }
    }
    Chi c = chi_exp(h, e);
    cs.test("uniformity/" + who + "/m=" + ms.name + "/chi2", small ? "residue-histogram" : "64-buckets", c, c.stat, (double)cells - 1);
    if (!small) { Chi cl = chi_exp(low, el); cs.test("uniformity/" + who + "/m=" + ms.name + "/low-bits-chi2", "low-6-bits", cl, cl.stat, 63); }
    cs.finish(N);
  } else {
    unsigned long bits = BITSIZES[cfgi - big_moduli().size()]; std::string who = std::string(S.name) + "b", bs = std::to_string(bits);
    if (!slow) N = std::min<uint64_t>(N, (ctx.thorough ? 100000000ULL : 25000000ULL) / bits);
    std::string cfg = who + " bits=" + bs + " N=" + std::to_string(N);
    Case cs(ctx, cfg, seed); ctx.label("randomb");
    unsigned tb = bits >= 6 ? 6 : (unsigned)bits; std::vector<uint64_t> top((size_t)1 << tb, 0), bit(bits, 0);
    Z r, t; size_t limbs = (bits + 63) / 64;
    for (uint64_t d = 0; d < N; d++) {
      r = -1; S.b(r.get_mpz_t(), bits);
      if (sgn(r) < 0 || (sgn(r) > 0 && mpz_sizeinbase(r.get_mpz_t(), 2) > bits)) { ctx.fail("range/" + who + "/out-of-range", cfg + " seed=" + std::to_string(seed) + " draw " + std::to_string(d) + " returned " + zshort(r.get_mpz_t()) + " (" + std::to_string(mpz_sizeinbase(r.get_mpz_t(), 2)) + " bits)"); return; }
      t = r >> (bits - tb); top[t.get_ui()]++;
      size_t have = mpz_size(r.get_mpz_t());
      for (size_t l = 0; l < limbs && l < have; l++) { mp_limb_t w = mpz_getlimbn(r.get_mpz_t(), l); size_t base = l * 64, lim = std::min<size_t>(64, bits - base); for (size_t j = 0; j < lim; j++) bit[base + j] += (w >> j) & 1; }
    }
    Chi c = chi_flat(top, (double)N / top.size());
    cs.test("uniformity/" + who + "/bits=" + bs + "/top-bits-chi2", "top-bits", c, c.stat, (double)top.size() - 1);
    Chi cb, worst; double bestp = 2;
    for (size_t j = 0; j < bits; j++) { chi_add(cb, j, (double)bit[j], N / 2.0); Chi one; chi_add(one, j, (double)bit[j], N / 2.0); double pj = chi2_sf(2 * one.stat, 1); if (pj < bestp) { bestp = pj; worst = one; } }
    cs.test("uniformity/" + who + "/bits=" + bs + "/bit-balance-chi2", "bit-balance(sum)", cb, 2 * cb.stat, (double)bits);
    if (bits > 1) cs.test("uniformity/" + who + "/bits=" + bs + "/single-bit-bias", "single-bit(min over bits)", worst, 2 * worst.stat, 1, (double)bits);
    cs.finish(N);
  }
}

// cached residue sampler (used for the masking exponents): a cache of n residues is filled for one modulus and handed out one by
// one; requests for another modulus or beyond the cache are drawn freshly.  Judged: every value lies below the modulus REQUESTED
// (a cached value of a larger modulus handed out for a smaller one is out of range with probability >= 1/2), no cached value is
// handed out twice (moduli >= 2^64, where a repetition among <= 5000 values has probability < 1e-12), uniformity of the top bits
VF_SUB(cached_residue_sampler, 60, 1200) {
  const std::vector<ModSpec> &M = big_moduli(); std::vector<size_t> big; for (size_t i = 0; i < M.size(); i++) if (mpz_sizeinbase(M[i].m.get_mpz_t(), 2) > 64) big.push_back(i);
  if (big.size() < 2) { ctx.discard(); return; }
  const ModSpec &ms = M[big[ctx.c.index(big.size())]]; const Z &m = ms.m; Z m2 = (m >> (1 + ctx.c.index(3))) + 1; // a smaller modulus for the interleaved requests
  uint64_t seed = ctx.c.seed64(); rng_seed(seed); QuietCerr quiet;
  size_t rounds = ctx.thorough ? 12 : 5; std::string cfg = "ssrandomm_cache m=" + ms.name + " rounds=" + std::to_string(rounds);
  Case cs(ctx, cfg, seed); ctx.label("randomm-cache");
  std::vector<uint64_t> h(16, 0); uint64_t N = 0; std::set<std::string> seen; Z r, t;
  for (size_t rd = 0; rd < rounds; rd++) {
    static mpz_t cache[TMCG_MAX_SSRANDOMM_CACHE]; mpz_t cmod; size_t avail = 0; size_t n = ctx.c.prob(1, 4) ? TMCG_MAX_SSRANDOMM_CACHE : (size_t)ctx.c.range(1, TMCG_MAX_SSRANDOMM_CACHE);
    tmcg_mpz_ssrandomm_cache_init(cache, cmod, avail, n, m.get_mpz_t());
    if (avail != n) { ctx.fail("cache/ssrandomm/avail-after-init", cfg + " n=" + std::to_string(n) + " avail=" + std::to_string(avail)); tmcg_mpz_ssrandomm_cache_done(cache, cmod, avail); return; }
    size_t draws = n + (size_t)ctx.c.range(0, 3);
    for (size_t d = 0; d < draws; d++) {
      bool other = ctx.c.prob(1, 6); const Z &req = other ? m2 : m; r = -1;
      tmcg_mpz_ssrandomm_cache(cache, cmod, avail, r.get_mpz_t(), req.get_mpz_t());
      if (sgn(r) < 0 || r >= req) { ctx.fail(std::string("range/ssrandomm_cache/out-of-range") + (other ? "/other-modulus" : ""), cfg + " seed=" + std::to_string(seed) + " round " + std::to_string(rd) + " draw " + std::to_string(d) + " returned " + zshort(r.get_mpz_t()) + " for a modulus of " + std::to_string(mpz_sizeinbase(req.get_mpz_t(), 2)) + " bits"); tmcg_mpz_ssrandomm_cache_done(cache, cmod, avail); return; }
      std::string key = r.get_str(62); if (!seen.insert(key).second) { ctx.fail("cache/ssrandomm/value-handed-out-twice", cfg + " seed=" + std::to_string(seed) + " round " + std::to_string(rd) + " draw " + std::to_string(d)); tmcg_mpz_ssrandomm_cache_done(cache, cmod, avail); return; }
      if (!other) { t = r << 4; mpz_tdiv_q(t.get_mpz_t(), t.get_mpz_t(), m.get_mpz_t()); h[t.get_ui()]++; N++; }
    }
    tmcg_mpz_ssrandomm_cache_done(cache, cmod, avail);
  }
  std::vector<double> e(16); for (unsigned b = 0; b < 16; b++) { Z lo, hi, t1 = m * b, t2 = m * (b + 1); mpz_cdiv_q_ui(lo.get_mpz_t(), t1.get_mpz_t(), 16); mpz_cdiv_q_ui(hi.get_mpz_t(), t2.get_mpz_t(), 16); Z cnt = hi - lo; e[b] = (double)N * (cnt.get_d() / m.get_d()); }
  Chi c = chi_exp(h, e); cs.test("uniformity/ssrandomm_cache/m=" + ms.name + "/chi2", "16-buckets", c, c.stat, 15);
  cs.finish(N);
}
