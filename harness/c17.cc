// C17 — distributed coin flips are common and bound by commitments.
// Two-party protocol over in-memory pipes with a relaying harness (reads the shares off the wire, mutates or
// withholds the peer's commitment/opening); multi-party protocol in the deterministic simulator.
#include "parties.hh"
#include "pipes.hh"
#include "mutate.hh"
using namespace vf;
const char *vf::PROPERTY = "C17";
void vf::harness_init() { silence_cerr(); }

struct Grp { Z p, q, g, h, d; unsigned long F, G; }; // d = log_g h: the harness generates h and therefore knows the trapdoor of the commitment scheme
static Grp pick_grp(Ctx &ctx) {
  Grp r; GroupSpec gs{G_SCHNORR_CANON, 384, 128, (unsigned)ctx.c.index(3)}; if (ctx.c.prob(1, 5)) { gs.fsize = 512; gs.gsize = 160; }
  auto l = split_lines(vtmf_group_text(gs.kind, gs.fsize, gs.gsize, gs.idx)); r.p = zparse62(l[0]); r.q = zparse62(l[1]); r.g = zparse62(l[2]); r.F = gs.fsize; r.G = gs.gsize;
  r.d = zrand_below(ctx, r.q - 2) + 2; r.h = zpowm(r.g, r.d, r.p); return r;
}
static JareckiLysyanskayaEDCF *mk(const Grp &G, size_t n, size_t t) { return new JareckiLysyanskayaEDCF(n, t, G.p.get_mpz_t(), G.q.get_mpz_t(), G.g.get_mpz_t(), G.h.get_mpz_t(), G.F, G.G); }

// wire format of one side of the two-party protocol: line 0 commitment C, line 1 share a, line 2 randomiser a^
VF_SUB(twoparty_honest_agree_on_sum, 700, 20000) {
  Grp G = pick_grp(ctx); JareckiLysyanskayaEDCF *e0 = mk(G, 2, 0), *e1 = mk(G, 2, 0); Z a0, a1; bool r0 = false, r1 = false;
  Relay rl; rl.run(ctx.c.seed64(), ctx.c.seed64(), [&](std::iostream &io) { std::stringstream err; r0 = e0->Flip_twoparty(0, a0.get_mpz_t(), io, io, err); },
                   [&](std::iostream &io) { std::stringstream err; r1 = e1->Flip_twoparty(1, a1.get_mpz_t(), io, io, err); }, nullptr);
  ctx.desc << "twoparty " << G.F << "/" << G.G << " lines " << rl.p_lines.size() << "+" << rl.v_lines.size(); ctx.label("honest-honest"); ctx.nontrivial(ctx.desc.str() + (rl.p_lines.empty() ? "" : rl.p_lines[0]));
  if (!r0 || !r1) { ctx.fail("flip/twoparty/honest-run-fails", ctx.desc.str()); delete e0; delete e1; return; }
  if (a0 != a1) ctx.fail("flip/twoparty/outputs-differ", "a0=" + S(a0) + " a1=" + S(a1));
  if (rl.p_lines.size() >= 2 && rl.v_lines.size() >= 2) { Z s = zmod(zparse62(rl.p_lines[1]) + zparse62(rl.v_lines[1]), G.q); if (s != a0) ctx.fail("flip/twoparty/output-is-not-sum-of-shares", "sum of the shares on the wire " + S(s) + " output " + S(a0)); }
  else ctx.fail("flip/twoparty/unexpected-wire-format", "fewer than two lines per side");
  if (a0 < 0 || a0 >= G.q) ctx.fail("flip/twoparty/output-out-of-range", S(a0));
  delete e0; delete e1;
}

// the honest party is side V (role 1 or 0), the peer runs the library code too but the relay rewrites / withholds its lines
VF_SUB(twoparty_peer_deviates, 900, 25000) {
  Grp G = pick_grp(ctx); size_t honest_role = ctx.c.index(2); JareckiLysyanskayaEDCF *eh = mk(G, 2, 0), *ep = mk(G, 2, 0); Z ah, ap; bool rh = false, rp = false;
  size_t line = ctx.c.index(3); const Mutation &m = catalogue()[ctx.c.index(catalogue().size())]; bool withhold = ctx.c.prob(1, 5);
  Expect ex = MUST_REFUSE; Z v, mv; bool applied = false; size_t honest_lines_before_commitment = 0; bool measured = false; Relay rl;
  auto hook = [&](size_t n, std::string &l) -> int {
    if (n == 0) { // before the peer's commitment is handed over: give the honest side time, then look at what it has sent so far
      for (int k = 0; k < 6; k++) std::this_thread::sleep_for(std::chrono::milliseconds(15)); honest_lines_before_commitment = rl.v_count.load(); measured = true;
      if (withhold) { applied = true; return 1; } }
    if (withhold || n != line) return 0;
    if (m.textual) { applied = true; if (m.name == "delete-line") return 1; if (m.name == "duplicate-line") return 2; if (m.name == "truncate-here") return 3; if (m.name == "non-digit") { l = "?" + l + "!"; return 0; } if (m.name == "empty-line") { l = ""; return 0; } applied = false; return 0; }
    if (!(mpz_set_str(v.get_mpz_t(), l.c_str(), TMCG_MPZ_IO_BASE) == 0)) return 0; if (!mutate_value(ctx, m.name, v, G.p, G.q, mv)) return 0;
    applied = true; if (mv < 0 && zmod(mv - v, G.q) == 0 && line >= 1) ex = UNJUDGED; l = z62(mv); return 0; };
  rl.run(ctx.c.seed64(), ctx.c.seed64(), [&](std::iostream &io) { std::stringstream err; rp = ep->Flip_twoparty(1 - honest_role, ap.get_mpz_t(), io, io, err); },
         [&](std::iostream &io) { std::stringstream err; rh = eh->Flip_twoparty(honest_role, ah.get_mpz_t(), io, io, err); }, hook);
  std::string what = withhold ? "withheld-commitment" : std::string(line == 0 ? "commitment" : line == 1 ? "share" : "randomiser") + ":" + m.name;
  ctx.desc << "twoparty honest-role=" << honest_role << " peer " << what << (applied ? "" : " (not applicable)"); ctx.label(withhold ? "withhold" : (line == 0 ? "commitment" : "opening")); ctx.nontrivial(ctx.desc.str());
  // (1) no share before the peer's commitment was handed over: the honest side may have written its own commitment only
  if (measured && honest_lines_before_commitment > 1) ctx.fail("flip/twoparty/share-revealed-before-peer-commitment", "the honest side had written " + std::to_string(honest_lines_before_commitment) + " lines before it received the peer's commitment");
  if (withhold && rl.v_lines.size() > 1) ctx.fail("flip/twoparty/share-revealed-although-commitment-withheld", "honest side wrote " + std::to_string(rl.v_lines.size()) + " lines");
  // (2) an opening / commitment that does not match => rejection
  if (applied && ex == MUST_REFUSE && !(m.name == "duplicate-line" && line == 2) && rh) ctx.fail("flip/twoparty/mismatching-" + std::string(withhold ? "withheld" : line == 0 ? "commitment" : "opening") + "-accepted/" + (withhold ? "withhold" : m.name), ctx.desc.str() + (m.textual ? "" : " value " + S(v) + " -> " + S(mv)));
  delete eh; delete ep;
}

// "All coin values": a peer that knows the trapdoor d = log_g h of the commitment scheme can open its commitment to any share, so the
// harness steers the coin to the boundary values 0, 1, q-1 and to random targets: the relay waits for the honest side's share, then rewrites the
// peer's opening (a, a^) to (a', a^ + (a - a')/d) with a' = target - a_honest mod q, optionally in the negative representative a' - q (which the
// range check |a| < q admits).  The commitment still opens correctly, so the honest side must complete, and its output must be the residue
// target in [0, q).
VF_SUB(twoparty_steered_coin, 400, 12000) {
  Grp G = pick_grp(ctx); size_t honest_role = ctx.c.index(2); JareckiLysyanskayaEDCF *eh = mk(G, 2, 0), *ep = mk(G, 2, 0); Z ah = -1, ap; bool rh = false, rp = false;
  std::string tcls; Z target; switch (ctx.c.weighted({4, 2, 2, 3})) { case 0: tcls = "0"; target = 0; break; case 1: tcls = "1"; target = 1; break; case 2: tcls = "q-1"; target = G.q - 1; break; default: tcls = "random"; target = zrand_below(ctx, G.q); }
  bool negative = ctx.c.prob(1, 3); Z delta = 0, dinv = zinv(G.d, G.q), a_new; bool steered = false; Relay rl;
  auto hook = [&](size_t n, std::string &l) -> int {
    if (n == 1) { std::string hs; for (int k = 0; k < 400 && !rl.v_line(1, hs); k++) std::this_thread::sleep_for(std::chrono::milliseconds(5)); // the honest side opens without waiting for the peer's opening
      Z a; if (hs.empty() || mpz_set_str(a.get_mpz_t(), l.c_str(), TMCG_MPZ_IO_BASE) != 0) return 0; Z ahon = zparse62(hs);
      a_new = zmod(target - ahon, G.q); delta = zmod(a - a_new, G.q); if (negative && a_new != 0) a_new -= G.q; l = z62(a_new); steered = true; return 0; }
    if (n == 2 && steered) { Z r; if (mpz_set_str(r.get_mpz_t(), l.c_str(), TMCG_MPZ_IO_BASE) != 0) return 0; l = z62(zmod(r + delta * dinv, G.q)); }
    return 0; };
  rl.run(ctx.c.seed64(), ctx.c.seed64(), [&](std::iostream &io) { std::stringstream err; rp = ep->Flip_twoparty(1 - honest_role, ap.get_mpz_t(), io, io, err); },
         [&](std::iostream &io) { std::stringstream err; rh = eh->Flip_twoparty(honest_role, ah.get_mpz_t(), io, io, err); }, hook);
  ctx.desc << "twoparty honest-role=" << honest_role << " coin steered to " << tcls << (negative ? " with the peer's share in the negative representative" : "") << (steered ? "" : " (not steered: honest share not seen in time)") << " -> output " << S(ah);
  ctx.label("target:" + tcls); ctx.label(negative ? "share:negative-representative" : "share:in-range"); if (!steered) { ctx.label("not-steered"); delete eh; delete ep; return; }
  ctx.nontrivial(ctx.desc.str());
  if (!rh) ctx.fail("flip/twoparty/matching-opening-refused/steered", ctx.desc.str());
  else if (ah != target) ctx.fail(ah < 0 || ah >= G.q ? "flip/twoparty/output-out-of-range/steered" : "flip/twoparty/output-is-not-sum-of-shares/steered", "expected the residue " + S(target) + ": " + ctx.desc.str());
  delete eh; delete ep;
}

// multi-party flip --------------------------------------------------------------------------------------
VF_SUB(multiparty_flip, 80, 2500) {
  Grp G = pick_grp(ctx); size_t n = (size_t)ctx.c.range(4, ctx.thorough ? 7 : 5), t = (size_t)ctx.c.range(1, (n - 1) / 3);
  std::vector<bool> present(n, true), libswitch(n, false); std::string fd; size_t nf = ctx.c.prob(2, 3) ? (size_t)ctx.c.range(1, t) : 0;
  std::vector<size_t> idx(n); for (size_t i = 0; i < n; i++) idx[i] = i;
  for (size_t i = 0; i < nf; i++) { size_t j = i + ctx.c.index(n - i); std::swap(idx[i], idx[j]); if (ctx.c.prob(1, 3)) { present[idx[i]] = false; fd += " P" + std::to_string(idx[i]) + ":silent"; } else { libswitch[idx[i]] = true; fd += " P" + std::to_string(idx[i]) + ":library-switch"; } }
  Cluster cl(n, t, present); cl.bc.keep_log = true;
  std::vector<JareckiLysyanskayaEDCF *> ed(n, nullptr); std::vector<bool> ret(n, false); std::vector<Z> out(n);
  std::ostringstream d; d << "multiparty_flip n=" << n << " t=" << t << " faults:" << (fd.empty() ? " none" : fd);
  bool simok = cl.run(ctx, [&](PartyEnv &e) { ed[e.i] = mk(G, n, t); e.rbc->setID("c17-flip"); ret[e.i] = ed[e.i]->Flip(e.i, out[e.i].get_mpz_t(), e.aiou, e.rbc, e.err, libswitch[e.i]); e.rbc->unsetID(); });
  ctx.desc << d.str() << " vtime=" << vf::vnow; ctx.label("n=" + std::to_string(n)); ctx.label(nf ? "with-faults" : "fault-free"); ctx.nontrivial(d.str() + std::to_string(cl.bc.sent));
  if (!simok) ctx.fail("flip/multiparty/simulation-deadlock-or-time-budget", d.str() + cl.task_errors());
  std::vector<size_t> H; for (size_t i = 0; i < n; i++) if (present[i] && !libswitch[i]) H.push_back(i);
  for (size_t i : H) if (!ctx.failed && !ret[i]) ctx.fail("flip/multiparty/honest-party-fails", "party " + std::to_string(i) + " " + d.str() + " log: " + cl.env[i]->err.str().substr(0, 700) + cl.task_errors());
  for (size_t i : H) if (!ctx.failed && out[i] != out[H[0]]) ctx.fail("flip/multiparty/outputs-differ", d.str());
  // sum of the committed shares of the qualified parties, read off the wire: on the Flip channel every qualified party
  // broadcasts a_i as its first and the randomiser as its second message (r-send tuples: id, sender, seq, action 1, payload)
  if (!ctx.failed && !H.empty()) {
    std::string flip_id; for (auto &kv : cl.env[H[0]]->rbc->ID_log) if (kv.second.find("JareckiLysyanskayaEDCF::Flip()") != std::string::npos) flip_id = kv.first;
    if (flip_id.empty()) { ctx.label("flip-channel-not-identified"); }
    else {
      Z idz = zparse62(flip_id), sum = 0; size_t found = 0; std::vector<bool> have(n, false);
      for (size_t j = 0; j < n; j++) { if (!present[j]) continue; const std::vector<Z> &lg = cl.bc.log[j][j]; // the copy a party sends to itself
        for (size_t k = 0; k + 4 < lg.size(); k += 5) if (lg[k] == idz && lg[k + 1] == Z((unsigned long)j) && lg[k + 2] == 1 && lg[k + 3] == 1 && !have[j]) { Z aj = lg[k + 4]; if (libswitch[j]) aj -= 1; /* the switch opens a_j + 1; the committed share is a_j */ sum = zmod(sum + aj, G.q); have[j] = true; found++; } }
      // only parties in Qual broadcast; parties outside Qual are not counted by construction
      std::vector<size_t> qual; for (size_t j = 0; j < n; j++) if (have[j]) qual.push_back(j);
      ctx.count("shares_read_off_the_wire", (int64_t)found);
      if (out[H[0]] != sum) ctx.fail("flip/multiparty/output-is-not-sum-of-committed-shares", "output " + S(out[H[0]]) + " sum over broadcasting parties " + S(sum) + " " + d.str());
    }
  }
  for (auto x : ed) delete x;
}

// A deviating party built by the harness from the library's public building blocks: it runs the Joint-RVSS honestly except that the
// network tap adds 1 to one private share value towards <= t victims (they complain, the party answers with the correct share on the
// broadcast channel and stays qualified, the victims adopt the published share), and then opens a value that does not match its
// commitment (or opens correctly).  The honest parties run JareckiLysyanskayaEDCF::Flip unchanged: they must reconstruct the committed
// share, agree, and output the sum of the committed shares.
VF_SUB(multiparty_flip_mismatching_opening, 70, 2500) {
  Grp G = pick_grp(ctx); size_t n = ctx.c.prob(1, 4) ? 7 : (size_t)ctx.c.range(4, ctx.thorough ? 7 : 5), t = (size_t)ctx.c.range(1, (n - 1) / 3); if (n == 7 && ctx.c.prob(3, 4)) t = 2;
  // 1..t deviating parties; the first one may also hand out a wrong private value (adopted shares)
  size_t nd = (size_t)ctx.c.range(1, t); std::vector<size_t> Dv; std::vector<int> isdev(n, -1); { std::vector<size_t> o(n); for (size_t x = 0; x < n; x++) o[x] = x; for (size_t v = 0; v < nd; v++) { size_t z = v + ctx.c.index(n - v); std::swap(o[v], o[z]); Dv.push_back(o[v]); isdev[o[v]] = (int)v; } }
  size_t D = Dv[0]; size_t nv = ctx.c.weighted({1, 3}) ? (size_t)ctx.c.range(1, t) : 0; size_t which = ctx.c.index(2); // which of the two private values (share / randomiser share)
  // opening of each deviating party: 0 wrong share, 1 wrong randomiser, 2 matching opening, 3 share + q (out of range, same residue), 4 opening withheld
  std::vector<int> open_mode(nd); static const char *OMN[] = {"share+delta", "randomiser+delta", "matching", "share+q", "withheld"};
  for (size_t v = 0; v < nd; v++) open_mode[v] = (int)ctx.c.weighted({4, 2, 1, 2, 2});
  std::vector<bool> victim(n, false); { std::vector<size_t> o; for (size_t x = 0; x < n; x++) if (isdev[x] < 0) o.push_back(x); if (nv > o.size()) nv = o.size(); for (size_t v = 0; v < nv; v++) { size_t z = v + ctx.c.index(o.size() - v); std::swap(o[v], o[z]); victim[o[v]] = true; } }
  Z delta = ctx.c.coin() ? Z(1) : zrand_below(ctx, G.q - 1) + 1;
  std::vector<bool> present(n, true); Cluster cl(n, t, present); cl.bc.keep_log = true;
  cl.uni.tap = [&](size_t from, size_t to, unsigned long idx, detsim::Z &v) -> int { if (from == D && victim[to] && idx == which) v += 1; return 0; };
  std::vector<JareckiLysyanskayaEDCF *> ed(n, nullptr); std::vector<bool> ret(n, false); std::vector<Z> out(n); std::vector<JareckiLysyanskayaRVSS *> rv(n, nullptr); std::vector<bool> d_share_ok(n, false), d_qual(n, false); std::vector<Z> aD(n);
  std::vector<size_t> expect_compl; for (size_t x = 0; x < n; x++) if (isdev[x] >= 0 && open_mode[isdev[x]] != 2) expect_compl.push_back(x); // what the honest parties arrive at (sorted, each once)
  std::ostringstream d; d << "multiparty_flip_mismatching_opening n=" << n << " t=" << t << " deviating:"; for (size_t v = 0; v < nd; v++) d << " P" << Dv[v] << "(" << OMN[open_mode[v]] << ")";
  d << " wrong-private-value#" << which << " of P" << D << "->" << nv << " victim(s)";
  bool simok = cl.run(ctx, [&](PartyEnv &e) {
    if (isdev[e.i] < 0) { ed[e.i] = mk(G, n, t); e.rbc->setID("c17-flip"); ret[e.i] = ed[e.i]->Flip(e.i, out[e.i].get_mpz_t(), e.aiou, e.rbc, e.err, false); e.rbc->unsetID(); return; }
    int om = open_mode[isdev[e.i]]; JareckiLysyanskayaRVSS *r = rv[e.i] = new JareckiLysyanskayaRVSS(n, t, G.p.get_mpz_t(), G.q.get_mpz_t(), G.g.get_mpz_t(), G.h.get_mpz_t(), G.F, G.G);
    e.rbc->setID("c17-flip"); std::stringstream id; id << "JareckiLysyanskayaEDCF::Flip()" << r->p << r->q << r->g << r->h << n << t; e.rbc->setID(id.str()); // the channel label Flip() uses
    d_share_ok[e.i] = r->Share(e.i, e.aiou, e.rbc, e.err, false); aD[e.i] = Z(r->a_i);
    d_qual[e.i] = d_share_ok[e.i] && std::find(r->Qual.begin(), r->Qual.end(), e.i) != r->Qual.end();
    if (d_qual[e.i]) { Z a = Z(r->a_i), ha = Z(r->hata_i); if (om == 0) a = zmod(a + delta, G.q); else if (om == 1) ha = zmod(ha + delta, G.q); else if (om == 3) a = a + G.q;
      if (om != 4) { e.rbc->Broadcast(a.get_mpz_t()); e.rbc->Broadcast(ha.get_mpz_t()); }
      std::vector<mpz_ptr> av; for (size_t j = 0; j < n; j++) { mpz_ptr x = new mpz_t(); mpz_init(x); av.push_back(x); }
      Z tmp; for (size_t j : r->Qual) if (j != e.i) { if (e.rbc->DeliverFrom(av[j], j)) e.rbc->DeliverFrom(tmp.get_mpz_t(), j); }
      std::vector<size_t> compl_; for (size_t x : expect_compl) if (std::find(r->Qual.begin(), r->Qual.end(), x) != r->Qual.end()) compl_.push_back(x);
      r->Reconstruct(e.i, compl_, av, e.rbc, e.err);
      for (auto x : av) { mpz_clear(x); delete x; } }
    e.rbc->unsetID(); e.rbc->unsetID(); });
  bool anymis = !expect_compl.empty();
  ctx.desc << d.str() << " vtime=" << vf::vnow; ctx.label("n=" + std::to_string(n)); ctx.label("t=" + std::to_string(t)); ctx.label("deviating=" + std::to_string(nd)); ctx.label(anymis ? "mismatching-opening" : "matching-opening"); for (size_t v = 0; v < nd; v++) ctx.label(std::string("opening:") + OMN[open_mode[v]]); ctx.label(nv ? "with-adopted-shares" : "no-private-fault");
  ctx.nontrivial(d.str() + std::to_string(cl.bc.sent));
  if (!simok) ctx.fail("flip/multiparty/simulation-deadlock-or-time-budget", d.str() + cl.task_errors());
  std::vector<size_t> H; for (size_t i = 0; i < n; i++) if (isdev[i] < 0) H.push_back(i);
  for (size_t x : Dv) if (!ctx.failed && !d_share_ok[x]) { ctx.label("deviating-party-failed-in-share"); }
  for (size_t i : H) if (!ctx.failed && !ret[i]) ctx.fail("flip/multiparty/honest-party-fails/mismatching-opening", "party " + std::to_string(i) + " " + d.str() + " log: " + cl.env[i]->err.str().substr(0, 900) + cl.task_errors());
  for (size_t i : H) if (!ctx.failed && out[i] != out[H[0]]) ctx.fail("flip/multiparty/outputs-differ/mismatching-opening", "P" + std::to_string(H[0]) + " " + S(out[H[0]]) + " vs P" + std::to_string(i) + " " + S(out[i]) + " " + d.str());
  if (!ctx.failed) { // expected: sum of the honest openings (read off the wire) plus the COMMITTED share of every deviating party that is qualified
    std::string flip_id; for (auto &kv : cl.env[H[0]]->rbc->ID_log) if (kv.second.find("JareckiLysyanskayaEDCF::Flip()") != std::string::npos) flip_id = kv.first;
    if (flip_id.empty()) ctx.label("flip-channel-not-identified");
    else { Z idz = zparse62(flip_id), sum = 0; size_t found = 0; for (size_t x : Dv) if (d_qual[x]) sum = zmod(sum + aD[x], G.q);
      for (size_t j : H) { const std::vector<Z> &lg = cl.bc.log[j][j]; for (size_t k = 0; k + 4 < lg.size(); k += 5) if (lg[k] == idz && lg[k + 1] == Z((unsigned long)j) && lg[k + 2] == 1 && lg[k + 3] == 1) { sum = zmod(sum + lg[k + 4], G.q); found++; break; } }
      ctx.count("shares_read_off_the_wire", (int64_t)found);
      if (found == H.size() && out[H[0]] != sum) ctx.fail("flip/multiparty/output-is-not-sum-of-committed-shares/mismatching-opening", "output " + S(out[H[0]]) + " expected " + S(sum) + " " + d.str()); }
  }
  for (auto x : ed) delete x; for (auto x : rv) delete x;
}
