// probe (temporary)
#include "fix.hh"
#include <aiounicast_nonblock.hh>
#include <aiounicast_select.hh>
#include <fcntl.h>
#include <unistd.h>
#include <chrono>
#include <sys/select.h>
#include <dlfcn.h>
using namespace vf;
const char *vf::PROPERTY = "C13";
void vf::harness_init() {}
static long g_sel = 0;
extern "C" int select(int nfds, fd_set *r, fd_set *w, fd_set *e, struct timeval *tv) {
  typedef int (*fn)(int, fd_set *, fd_set *, fd_set *, struct timeval *);
  static fn real = (fn)dlsym(RTLD_NEXT, "select");
  g_sel++;
  struct timeval z = {0, 0};
  return real(nfds, r, w, e, tv ? &z : nullptr);
}
static double now() { return std::chrono::duration<double>(std::chrono::steady_clock::now().time_since_epoch()).count(); }
VF_SUB(probe, 1, 1) {
  FILE *f = fopen("/tmp/c13probe.txt", "w");
  fprintf(f, "MAX_VALUE_CHARS=%lu maclen=%u blk=%u\n", (unsigned long)TMCG_MAX_VALUE_CHARS, gcry_mac_get_algo_maclen(TMCG_GCRY_MAC_ALGO), (unsigned)gcry_cipher_get_algo_blklen(TMCG_GCRY_ENC_ALGO));
  for (int sel = 0; sel < 2; sel++) for (int mode = 0; mode < 4; mode++) {
    int n = 3; int p[3][3][2];
    for (int i = 0; i < n; i++) for (int j = 0; j < n; j++) pipe2(p[i][j], O_NONBLOCK);
    double t0 = now();
    std::vector<aiounicast *> ep;
    for (int w = 0; w < n; w++) {
      std::vector<int> in, out; std::vector<std::string> key;
      for (int i = 0; i < n; i++) { in.push_back(p[i][w][0]); out.push_back(p[w][i][1]); key.push_back("k" + std::to_string(i + w)); }
      bool a = mode >= 1, e = mode >= 2, c = mode >= 3;
      if (sel) ep.push_back(new aiounicast_select(n, w, in, out, key, aiounicast::aio_scheduler_roundrobin, 0, a, e, c));
      else ep.push_back(new aiounicast_nonblock(n, w, in, out, key, aiounicast::aio_scheduler_roundrobin, 0, a, e, c));
    }
    double t1 = now();
    Z v = 12345; bool s = ep[0]->Send(v.get_mpz_t(), 1, 0);
    Z r; size_t from = 0; bool ok = false; int polls = 0;
    double t2 = now();
    for (; polls < 6 && !ok; polls++) ok = ep[1]->Receive(r.get_mpz_t(), from, aiounicast::aio_scheduler_roundrobin, 0);
    double t3 = now();
    fprintf(f, "sel=%d mode=%d construct3=%.1fms send=%d recv=%d polls=%d from=%zu val=%s recvtime=%.1fms selcalls=%ld\n", sel, mode, (t1 - t0) * 1e3, s, ok, polls, from, r.get_str().c_str(), (t3 - t2) * 1e3, g_sel);
    for (auto x : ep) delete x;
    for (int i = 0; i < n; i++) for (int j = 0; j < n; j++) { close(p[i][j][0]); close(p[i][j][1]); }
  }
  fclose(f);
}
