// C13 — point-to-point channels deliver intact, in order, exactly once.
//
// The harness OWNS THE WIRE.  Every directed link s->r consists of two OS pipes with the
// harness in between:   endpoint s --write--> pipe A --read--> [Link::units] --write--> pipe B --read--> endpoint r
// so the harness decides every fragment boundary, every delay/coalescing and every wire fault.
// Oracle: a reference model, one FIFO of accepted sends per link (see Sim::deliver / Sim::finish).
//
// Wire format as produced by the library (re-derived here only for bookkeeping of boundaries):
//   [IV, blklen raw bytes, once per encrypted link] then per integer:  base-62 line  '\n'  raw MAC tag (maclen bytes, if authenticated)
//   encrypted: line = base62( '+' || ENC(base62(m + 2^256)) ), chunked mode appends "|<chunk counter>" to the line.
//
// Two pure-environment interposers keep the cost bounded (the library code is unchanged):
//   * select(2): the harness is single threaded, nothing can arrive while the library waits, so the
//     50 ms wait of aiounicast_select::Receive is replaced by a zero-timeout poll (virtual time;
//     C13_REAL_SELECT=1 restores the real wait).
//   * gcry_kdf_derive: memoised per process (pure function of its arguments; 25000 PBKDF2
//     iterations per link, direction and purpose otherwise dominate every case).
// Known findings (known_findings.json): ctx.fail() returns true, the case goes on; the model is resynchronised (or the link is no
// longer judged) right where such a signature fires, so that one root cause never surfaces under a second signature.
#include "fix.hh"
#include <aiounicast_nonblock.hh>
#include <aiounicast_select.hh>
#include <fcntl.h>
#include <unistd.h>
#include <signal.h>
#include <dirent.h>
#include <dlfcn.h>
#include <sys/select.h>
#include <deque>
using namespace vf;
const char *vf::PROPERTY = "C13";

// --------------------------------------------------------------------------- interposers
static bool g_real_select = false;
static uint64_t g_vwait_us = 0, g_select_calls = 0;
extern "C" int select(int nfds, fd_set *r, fd_set *w, fd_set *e, struct timeval *tv) {
  typedef int (*fn)(int, fd_set *, fd_set *, fd_set *, struct timeval *);
  static fn real = (fn)dlsym(RTLD_NEXT, "select");
  g_select_calls++;
  if (g_real_select || !tv) return real(nfds, r, w, e, tv);
  struct timeval z = {0, 0}; uint64_t us = (uint64_t)tv->tv_sec * 1000000ULL + (uint64_t)tv->tv_usec;
  int rv = real(nfds, r, w, e, &z);
  if (rv == 0) g_vwait_us += us;
  return rv;
}
extern "C" gpg_error_t gcry_kdf_derive(const void *pass, size_t passlen, int algo, int subalgo, const void *salt, size_t saltlen,
                                       unsigned long iterations, size_t keysize, void *keybuffer) {
  typedef gpg_error_t (*fn)(const void *, size_t, int, int, const void *, size_t, unsigned long, size_t, void *);
  static fn real = (fn)dlsym(RTLD_NEXT, "gcry_kdf_derive");
  static std::map<std::string, std::string> memo;
  std::string key((const char *)pass, passlen); key += '\0'; key.append((const char *)salt, saltlen);
  key += '\0' + std::to_string(algo) + "," + std::to_string(subalgo) + "," + std::to_string(iterations) + "," + std::to_string(keysize);
  auto it = memo.find(key);
  if (it != memo.end()) { memcpy(keybuffer, it->second.data(), keysize); return 0; }
  gpg_error_t err = real(pass, passlen, algo, subalgo, salt, saltlen, iterations, keysize, keybuffer);
  if (!err) memo[key] = std::string((const char *)keybuffer, keysize);
  return err;
}

struct NullBuf : std::streambuf { int overflow(int c) override { return c; } std::streamsize xsputn(const char *, std::streamsize n) override { return n; } };
static int count_fds() { int c = 0; DIR *d = opendir("/proc/self/fd"); if (!d) return -1; while (readdir(d)) c++; closedir(d); return c; }

// --------------------------------------------------------------------------- configuration
enum { M_PLAIN = 0, M_AUTH = 1, M_AUTHENC = 2, M_ENC = 3, M_CHUNKED = 4 };
static const char *MODE_NAME[] = {"plain", "auth", "auth+enc", "enc", "auth+enc+chunked"};
static const size_t S_RR = aiounicast::aio_scheduler_roundrobin, S_RND = aiounicast::aio_scheduler_random, S_DIR = aiounicast::aio_scheduler_direct;
static const char *sched_name(size_t s) { return s == S_RR ? "rr" : s == S_RND ? "rnd" : "dir"; }
struct Cfg {
  bool sel = false; int mode = M_AUTHENC; size_t n = 2; int keyvar = 0; bool blocking_fds = false;
  bool auth() const { return mode == M_AUTH || mode == M_AUTHENC || mode == M_CHUNKED; }
  bool enc() const { return mode == M_AUTHENC || mode == M_ENC || mode == M_CHUNKED; }
  bool chunked() const { return mode == M_CHUNKED; }
  const char *ep() const { return sel ? "select" : "nonblock"; }
};
static const Z HIDE = Z(1) << TMCG_AIO_HIDE_SIZE;
static const Z DELIM = Z(4242424242UL);
static const size_t BUFSZ = TMCG_MAX_VALUE_CHARS; // receive buffer of the endpoints; Send refuses values with 2*digits >= BUFSZ
static Z pow62(unsigned e) { Z r; mpz_ui_pow_ui(r.get_mpz_t(), 62, e); return r; }

// --------------------------------------------------------------------------- the wire
struct Unit { std::string bytes; size_t line = 0; bool is_iv = false; long msg = -1; }; // message unit: line | '\n' | tag
struct Ent { Z v; bool undeliverable; };
struct Link {
  size_t s = 0, r = 0; int a_rd = -1, a_wr = -1, b_rd = -1, b_wr = -1;
  std::deque<Unit> units; size_t head_off = 0, pending = 0; // bytes taken from the sender and not yet handed to the receiver
  bool iv_seen = false, layout_exact = true, used = false;
  std::vector<Ent> sent; size_t delivered = 0;              // the model: FIFO of accepted integers, index of the next undelivered one
  std::vector<std::string> hist;                             // every original frame (for cross-link injection)
  bool tainted = false, judged = true, iv_touched = false, reflect_applied = false;
  std::set<std::string> reflected; size_t frames_fed = 0, unjudged = 0;
};

enum FaultKind { F_FLIP = 0, F_INSERT, F_DELETE, F_DUP, F_SWAP, F_DROP, F_TRUNC, F_REFLECT, F_NKINDS };
static const char *FAULT_NAME[] = {"flip", "insert", "delete", "dup-frame", "swap-frames", "drop-frame", "truncate", "cross-link-frame"};

struct Sim {
  Ctx &ctx; Cfg cfg; size_t n, maclen, ivlen;
  std::vector<aiounicast *> ep; std::vector<Link> links;
  std::ostringstream log; bool any_fault = false, nt_boundary = false, closed = false;
  std::map<std::string, std::vector<std::pair<size_t, std::string> > > eq; // (pair, value) -> (link, line) of encrypted frames
  std::vector<Z> all_values; size_t ndelivered = 0; int fd_before = 0;
  bool array_style = false; size_t drain_arr = 1;

  Link &L(size_t s, size_t r) { return links[s * n + r]; }
  std::string head() const { std::ostringstream o; o << cfg.ep() << "/" << MODE_NAME[cfg.mode] << " n=" << n << (array_style ? " array-receive" : " scalar-receive") << (cfg.sel ? (cfg.blocking_fds ? " blocking-fds" : " nonblocking-fds") : ""); return o.str(); }
  std::string sig(const std::string &cls) const { return std::string("channel/") + cfg.ep() + "/" + MODE_NAME[cfg.mode] + "/" + cls; }
  std::string ssig(const std::string &cls) const { return std::string("secrecy/") + cfg.ep() + "/" + MODE_NAME[cfg.mode] + "/" + cls; }
  bool fail(const std::string &s, const std::string &msg) {
    return ctx.fail(s, msg + " || " + head() + " ops: " + log.str());
  }

  Sim(Ctx &c, const Cfg &cf) : ctx(c), cfg(cf), n(cf.n) {
    fd_before = count_fds();
    maclen = cfg.auth() ? gcry_mac_get_algo_maclen(TMCG_GCRY_MAC_ALGO) : 0;
    ivlen = cfg.enc() ? gcry_cipher_get_algo_blklen(TMCG_GCRY_ENC_ALGO) : 0;
    links.resize(n * n);
    for (size_t s = 0; s < n; s++) for (size_t r = 0; r < n; r++) {
      Link &l = L(s, r); l.s = s; l.r = r; l.judged = cfg.auth(); int p[2];
      if (pipe2(p, O_NONBLOCK) < 0) throw std::runtime_error("pipe2 failed"); l.a_rd = p[0]; l.a_wr = p[1];
      if (pipe2(p, O_NONBLOCK) < 0) throw std::runtime_error("pipe2 failed"); l.b_rd = p[0]; l.b_wr = p[1];
      if (cfg.sel && cfg.blocking_fds) { // t-aio gives the select variant blocking descriptors: library-side ends only
        fcntl(l.a_wr, F_SETFL, fcntl(l.a_wr, F_GETFL) & ~O_NONBLOCK); fcntl(l.b_rd, F_SETFL, fcntl(l.b_rd, F_GETFL) & ~O_NONBLOCK);
      }
    }
    for (size_t w = 0; w < n; w++) {
      std::vector<int> in, out; std::vector<std::string> key;
      for (size_t i = 0; i < n; i++) {
        in.push_back(L(i, w).b_rd); out.push_back(L(w, i).a_wr);
        std::ostringstream k; k << "vf-C13-key" << cfg.keyvar << "-" << std::min(i, w) << "-" << std::max(i, w); key.push_back(k.str()); // symmetric per pair
      }
      if (cfg.sel) ep.push_back(new aiounicast_select(n, w, in, out, key, S_RR, aiounicast::aio_timeout_none, cfg.auth(), cfg.enc(), cfg.chunked()));
      else ep.push_back(new aiounicast_nonblock(n, w, in, out, key, S_RR, aiounicast::aio_timeout_none, cfg.auth(), cfg.enc(), false));
    }
  }
  void close_all() {
    if (closed) return; closed = true;
    for (auto e : ep) delete e; ep.clear();
    for (auto &l : links) { close(l.a_rd); close(l.a_wr); close(l.b_rd); close(l.b_wr); }
    int now = count_fds();
    if (now != fd_before) ctx.fail("harness/descriptor-leak", "open descriptors before " + std::to_string(fd_before) + " after " + std::to_string(now));
  }
  ~Sim() { close_all(); }

  // ---- sender side -------------------------------------------------------
  std::string take(Link &l) { std::string g; char buf[16384]; for (;;) { ssize_t k = read(l.a_rd, buf, sizeof buf); if (k > 0) g.append(buf, (size_t)k); else break; } return g; }
  // split what one Send call put on the wire into units; returns the number of message frames or -1
  long absorb(Link &l, const std::string &g, std::vector<std::string> &lines) {
    size_t pos = 0; long cnt = 0;
    if (cfg.enc() && !l.iv_seen && !g.empty()) {
      if (g.size() < ivlen) return -1;
      Unit u; u.bytes = g.substr(0, ivlen); u.is_iv = true; l.units.push_back(u); l.pending += ivlen; pos = ivlen; l.iv_seen = true;
    }
    while (pos < g.size()) {
      size_t nl = g.find('\n', pos); if (nl == std::string::npos || nl + 1 + maclen > g.size() || nl == pos) return -1;
      for (size_t i = pos; i < nl; i++) { unsigned char ch = (unsigned char)g[i]; if (!(isalnum(ch) || (ch == '|' && cfg.chunked()) || (ch == '-' && !cfg.enc() && i == pos))) return -1; }
      Unit u; u.bytes = g.substr(pos, nl + 1 + maclen - pos); u.line = nl - pos; u.msg = (long)l.hist.size();
      lines.push_back(g.substr(pos, nl - pos)); l.hist.push_back(u.bytes);
      l.pending += u.bytes.size(); l.units.push_back(u); pos = nl + 1 + maclen; cnt++;
    }
    return cnt;
  }
  void secrecy(Link &l, const Z &v, const std::string &g, const std::string &wline) {
    if (!cfg.enc()) return;
    std::string line = cfg.chunked() ? wline.substr(0, wline.find('|')) : wline; // chunked: "<ciphertext>|<plain chunk counter>": compare the ciphertext
    // (a) the digit strings of the integer (and of the length-hidden integer actually encrypted) do not occur on the wire
    Z both[2] = {v, v + HIDE};
    for (int w = 0; w < 2; w++) {
      Z x = abs(both[w]); if (mpz_sizeinbase(x.get_mpz_t(), 2) < 64) continue;
      std::string ds[4] = {x.get_str(62), x.get_str(10), x.get_str(16), x.get_str(-16)};
      for (int b = 0; b < 4; b++) if (g.find(ds[b]) != std::string::npos)
        fail(ssig("digits-visible-on-wire"), std::string("the ") + (b == 0 ? "base-62" : b == 1 ? "decimal" : "hexadecimal") + " digits of " + (w ? "m+2^256" : "m") + " occur in the wire bytes, m=" + S(v));
    }
    // (b) equal integers give different wire bytes (same link, and the reverse direction which shares the key).  Negative integers are
    // left out: m + 2^256 may then have a single digit, and one ciphertext byte repeats by chance (they have their own signature anyway).
    if (v < 0) return;
    std::ostringstream k; k << std::min(l.s, l.r) << "-" << std::max(l.s, l.r) << "|" << v.get_str(62);
    auto &vec = eq[k.str()]; size_t me = l.s * n + l.r;
    for (auto &pr : vec) if (pr.second == line) {
      if (pr.first == me) fail(ssig("equal-integers-equal-wire-bytes"), "two sends of " + S(v) + " on link " + std::to_string(l.s) + ">" + std::to_string(l.r) + " produced the same line");
      else fail(ssig("equal-integers-equal-wire-bytes-across-directions"), "sends of " + S(v) + " on link " + std::to_string(l.s) + ">" + std::to_string(l.r) + " and on the reverse link (same pair key) produced identical wire bytes: " + line.substr(0, 40));
    }
    vec.push_back(std::make_pair(me, line));
  }
  size_t digits62(const Z &v) const { Z x = abs(cfg.enc() ? Z(v + HIDE) : v); return x.get_str(62).size(); }
  // one Send call (scalar if vals.size()==1 && !as_array); keeps the model in step with what really went onto the wire
  bool send(Link &l, const std::vector<Z> &vals, bool as_array, const std::string &cls) {
    l.used = true; bool ok;
    if (!as_array) ok = ep[l.s]->Send(vals[0].get_mpz_t(), l.r, aiounicast::aio_timeout_none);
    else { std::vector<mpz_srcptr> p; for (auto &v : vals) p.push_back(v.get_mpz_t()); ok = ep[l.s]->Send(p, l.r, aiounicast::aio_timeout_none); }
    std::string g = take(l);
    log << " S" << l.s << ">" << l.r << (as_array ? "[" : "(") << cls << (as_array ? "]" : ")") << (ok ? "" : "=refused");
    std::vector<std::string> lines; long cnt = absorb(l, g, lines);
    std::vector<Z> expect = vals; if (as_array && cfg.chunked()) expect.push_back(DELIM);
    if (cnt < 0) { fail(sig("wire-format-unexpected"), "bytes written by Send do not parse as [IV] (line newline tag)*: " + std::to_string(g.size()) + " bytes"); l.tainted = true; l.judged = false; return ok; }
    if (ok && (size_t)cnt != expect.size()) { fail(sig("wire-format-unexpected"), "Send of " + std::to_string(expect.size()) + " integers wrote " + std::to_string(cnt) + " frames"); l.tainted = true; l.judged = false; return ok; }
    if (!ok) {
      if (!as_array) {
        if (cnt != 0 || !g.empty()) fail(sig("refused-send-left-bytes-on-wire"), "Send returned false for " + S(vals[0]) + " but wrote " + std::to_string(g.size()) + " bytes");
        if (cfg.enc() && vals[0] < 0) ctx.count("negative_refused_by_encrypted_send"); // documented refusal: the length-hiding offset is defined for m >= 0 only
        else if ((digits62(vals[0]) + 1) * 2 < BUFSZ) fail(sig("refuses-value-within-limit"), "Send refused " + S(vals[0]) + " (" + std::to_string(digits62(vals[0])) + " base-62 digits)");
      } else {
        bool neg = false; for (auto &v : vals) if (cfg.enc() && v < 0) neg = true;
        if (neg) ctx.count("negative_refused_by_encrypted_send"); // the array stops at the negative element; what went out before it is in the model
        else fail(sig("refuses-value-within-limit"), "Send refused an array whose integers are all within the size limit");
      }
    }
    // the first cnt integers are on the wire: they are the accepted ones
    for (long i = 0; i < cnt && (size_t)i < expect.size(); i++) {
      bool stripped = array_style && cfg.chunked() && as_array && (size_t)i == vals.size(); // delimiter removed by the array Receive
      if (!stripped) { Ent e; e.v = expect[i]; e.undeliverable = cfg.enc() && expect[i] < 0; l.sent.push_back(e); }
      secrecy(l, expect[i], g, lines[i]);
      all_values.push_back(expect[i]);
    }
    return ok;
  }

  // ---- the harness hands bytes to the receiver ----------------------------------------
  std::string boundary_class(const Link &l) const {
    if (l.units.empty() || l.head_off == 0) return "frame-boundary";
    const Unit &u = l.units.front();
    if (u.is_iv) return "inside-iv";
    if (l.head_off < u.line) return "inside-line";
    if (l.head_off == u.line) return "before-newline";
    if (l.head_off == u.line + 1) return "after-newline";
    return "inside-tag";
  }
  size_t feed(Link &l, size_t nb) {
    nb = std::min(nb, l.pending); if (!nb) return 0;
    std::string buf; size_t off = l.head_off;
    for (auto &u : l.units) { size_t take_n = std::min(nb - buf.size(), u.bytes.size() - off); buf.append(u.bytes, off, take_n); off = 0; if (buf.size() >= nb) break; }
    ssize_t w = write(l.b_wr, buf.data(), buf.size()); if (w <= 0) return 0;
    size_t left = (size_t)w; l.pending -= left;
    while (left > 0) { Unit &u = l.units.front(); size_t rem = u.bytes.size() - l.head_off; if (left >= rem) { left -= rem; if (!u.is_iv) l.frames_fed++; l.units.pop_front(); l.head_off = 0; } else { l.head_off += left; left = 0; } }
    return (size_t)w;
  }
  // feed as an op of a sequence: logs and classifies the boundary
  size_t feed_op(Link &l, size_t nb, bool polled_after) {
    size_t w = feed(l, nb); std::string bc = l.layout_exact ? boundary_class(l) : "after-fault";
    log << " F" << l.s << ">" << l.r << ":" << w << "(" << bc << ")";
    if (w) { ctx.label("boundary:" + bc); if (polled_after && (bc == "inside-iv" || bc == "before-newline" || bc == "after-newline" || bc == "inside-tag")) nt_boundary = true; }
    return w;
  }

  // ---- receiver side and oracle -----------------------------------------------------------
  // A modified IV garbles the first blklen plaintext bytes of a CFB stream, i.e. integer #0 (and #1.. while fewer than blklen digits
  // were encrypted before them).  The oracle sees values only, so an integer equal to a directly preceding affected one counts too.
  bool iv_explains(const Link &l, size_t h2) const {
    if (!l.iv_touched || cfg.chunked()) return false;
    size_t cum = 0;
    for (size_t i = 0; i <= h2 && cum < ivlen; i++) {
      bool eq = true; for (size_t k = i; k <= h2 && eq; k++) if (!(l.sent[k].v == l.sent[i].v)) eq = false;
      if (eq) return true;
      cum += Z(l.sent[i].v + HIDE).get_str(62).size();
    }
    return false;
  }
  void deliver(size_t r, size_t from, const std::vector<Z> &vals) {
    ndelivered += vals.size();
    if (from >= n) { fail(sig("bad-sender-index"), "Receive returned true with sender index " + std::to_string(from)); return; }
    Link &l = L(from, r); std::string ln = std::to_string(from) + ">" + std::to_string(r);
    for (auto &v : vals) {
      log << " <" << ln << "=" << S(v);
      if (l.tainted && !l.judged) { l.unjudged++; continue; }
      size_t h = l.delivered;
      if (h < l.sent.size() && l.sent[h].v == v) { l.delivered++; continue; }
      // skips explained by two defects that have their own signature: a negative integer on an encrypted link is dropped by the
      // receiver; a flipped IV bit garbles the first integer of a CFB stream (the IV is not covered by the tag)
      size_t h2 = h; bool sk_neg = false, sk_iv = false;
      while (h2 < l.sent.size() && !(l.sent[h2].v == v)) { if (l.sent[h2].undeliverable) sk_neg = true; else if (iv_explains(l, h2)) sk_iv = true; else break; h2++; }
      if (h2 > h && h2 < l.sent.size() && l.sent[h2].v == v) {
        if (sk_neg) fail(sig("negative-integer-accepted-but-not-delivered"), "Send accepted a negative integer on the encrypted link " + ln + ", the receiver dropped it and went on with the next integer " + S(v));
        if (sk_iv) fail(sig("iv-modified-first-message-skipped"), "after a modification of the (unauthenticated) IV of link " + ln + " the first integer " + S(l.sent[0].v) + " was not delivered but the link went on with " + S(v));
        l.delivered = h2 + 1; continue;
      }
      long idx = -1; for (size_t i = h; i < l.sent.size() && idx < 0; i++) if (l.sent[i].v == v) idx = (long)i;
      if (idx < 0) for (size_t i = h; i-- > 0 && idx < 0;) if (l.sent[i].v == v) idx = (long)i;
      std::string cls, what = "link " + ln + " delivered " + S(v) + " but the next undelivered integer of the model is " + (h < l.sent.size() ? S(l.sent[h].v) : std::string("<none>")) + " (#" + std::to_string(h) + " of " + std::to_string(l.sent.size()) + ")";
      if (!l.tainted) cls = h >= l.sent.size() ? "delivers-more-than-sent" : "fragmentation-changes-delivery";
      // encrypted stream: the foreign frame passes the tag check (same key, same sequence number), uses up the sequence number, its
      // decryption fails; if the genuine frame of that number is missing the link goes on behind it: a gap in the delivered sequence
      // (judged before the next line: a later integer of this link may by chance equal one the reverse link sent)
      else if (l.reflect_applied && cfg.mode == M_AUTHENC && idx > (long)h) cls = "frame-of-reverse-link-accepted-then-gap";
      else if (l.reflected.count(v.get_str(62))) cls = "frame-of-reverse-link-delivered";
      else if (idx < 0) cls = "modified-frame-delivered";
      else if (idx < (long)h) cls = "replayed-frame-delivered";
      else cls = "delivery-continues-after-gap";
      fail(sig(cls), what);
      if (cls == "frame-of-reverse-link-delivered" || cls == "frame-of-reverse-link-accepted-then-gap") l.judged = false; // the foreign frame used up a sequence number: what follows is a consequence of this defect
      if (idx >= (long)h) l.delivered = (size_t)idx + 1;
    }
  }
  // one Receive call at party r; arr == 0: scalar variant, else array of arr integers
  bool recv(size_t r, size_t sched, size_t from, size_t arr) {
    size_t i = sched == S_DIR ? from : n + 3; bool ok;
    if (arr == 0) { Z m = -99; ok = ep[r]->Receive(m.get_mpz_t(), i, sched, aiounicast::aio_timeout_none); if (ok) deliver(r, i, std::vector<Z>(1, m)); }
    else {
      std::vector<Z> zs(arr, Z(-99)); std::vector<mpz_ptr> ps; for (auto &z : zs) ps.push_back(z.get_mpz_t());
      ok = ep[r]->Receive(ps, i, sched, aiounicast::aio_timeout_none); if (ok) deliver(r, i, zs);
    }
    return ok;
  }
  void recv_op(size_t r, size_t sched, size_t from, size_t arr) {
    log << " R" << r << ":" << sched_name(sched); if (sched == S_DIR) log << from; if (arr) log << "x" << arr;
    recv(r, sched, from, arr);
  }
  // hand over everything that is still pending, receive until nothing moves, then judge completeness
  void finish() {
    log << " | drain";
    for (size_t r = 0; r < n; r++) {
      std::vector<Link *> in; for (size_t s = 0; s < n; s++) if (L(s, r).used) in.push_back(&L(s, r));
      if (in.empty()) continue;
      size_t arr = array_style ? drain_arr : 0;
      size_t idle = 0, t = 0, lim = (arr + 3) * 2 * (in.size() + 1) + 4;
      while (idle < lim && t < 200000) {
        bool prog = false;
        for (auto l : in) if (l->pending && feed(*l, l->pending) > 0) prog = true;
        size_t w = t % (in.size() + 1), before = ndelivered; t++;
        if (w < in.size()) recv(r, S_DIR, in[w]->s, arr); else recv(r, S_RR, 0, arr);
        if (ndelivered != before) prog = true;
        idle = prog ? 0 : idle + 1;
      }
      for (auto l : in) {
        if (l->tainted) continue;
        size_t h = l->delivered; bool only_neg = h < l->sent.size(); for (size_t i = h; i < l->sent.size(); i++) if (!l->sent[i].undeliverable) only_neg = false;
        std::string ln = std::to_string(l->s) + ">" + std::to_string(l->r);
        if (only_neg) fail(sig("negative-integer-accepted-but-not-delivered"), "Send accepted " + S(l->sent[h].v) + " on the encrypted link " + ln + " but the receiver never delivers it");
        else if (h < l->sent.size()) fail(sig("message-lost"), "link " + ln + ": " + std::to_string(l->sent.size() - h) + " accepted integer(s) never delivered although every byte was handed over (" + std::to_string(l->pending) + " bytes could not be written), first missing " + S(l->sent[h].v));
      }
    }
  }

  // ---- wire faults -----------------------------------------------------------------------------
  void recount(Link &l) { // after an edit: drop emptied units, recompute the number of pending bytes
    for (size_t i = l.units.size(); i-- > 1;) if (l.units[i].bytes.empty()) l.units.erase(l.units.begin() + i);
    if (!l.units.empty() && l.head_off >= l.units.front().bytes.size()) { l.units.pop_front(); l.head_off = 0; }
    l.pending = 0; for (auto &u : l.units) l.pending += u.bytes.size(); l.pending -= l.head_off;
  }
  // message units that are still completely in the harness buffer
  std::vector<size_t> whole_frames(const Link &l) const { std::vector<size_t> v; for (size_t i = 0; i < l.units.size(); i++) if (!l.units[i].is_iv && !(i == 0 && l.head_off > 0)) v.push_back(i); return v; }
  void mark(Link &l, int kind, bool in_iv) {
    any_fault = true; l.tainted = true; ctx.label(std::string("fault:") + FAULT_NAME[kind]);
    bool frame_level = kind == F_DUP || kind == F_SWAP || kind == F_DROP || kind == F_REFLECT;
    if (!cfg.auth()) l.judged = false;
    if (frame_level && cfg.chunked()) l.judged = false; // insert/remove/replay/reorder of whole messages is promised for the stream mode only
    if (in_iv) l.iv_touched = true;
    if (kind != F_FLIP) l.layout_exact = false;
  }
  // byte-level fault at flat offset `off` of the pending bytes (0 = first byte not yet handed over)
  bool fault_byte(Link &l, int kind, size_t off, unsigned arg) {
    if (off >= l.pending) return false;
    size_t ui = 0, o = off + l.head_off; while (o >= l.units[ui].bytes.size()) { o -= l.units[ui].bytes.size(); ui++; }
    Unit &u = l.units[ui]; bool in_iv = u.is_iv;
    log << " X" << l.s << ">" << l.r << ":" << FAULT_NAME[kind] << "@" << off << (in_iv ? "(iv)" : u.is_iv ? "" : o < u.line ? "(line)" : o == u.line ? "(newline)" : "(tag)");
    if (kind == F_FLIP) { u.bytes[o] = (char)(u.bytes[o] ^ (1u << (arg % 8))); log << "^" << (arg % 8); }
    else if (kind == F_INSERT) { u.bytes.insert(o, 1, (char)(arg & 0xFF)); recount(l); log << "+" << (arg & 0xFF); }
    else if (kind == F_DELETE) { u.bytes.erase(o, 1); recount(l); }
    else if (kind == F_TRUNC) { // everything from off on disappears; later sends follow directly
      u.bytes.erase(o); while (l.units.size() > ui + 1) l.units.pop_back(); recount(l);
      if (o == 0 && !in_iv && cfg.chunked()) { mark(l, F_DROP, false); return true; } // a cut exactly at a frame boundary removes whole messages
    }
    else return false;
    mark(l, kind, in_iv); return true;
  }
  bool fault_frame(Link &l, int kind, size_t a, size_t b) { // a, b index into whole_frames()
    std::vector<size_t> wf = whole_frames(l);
    if (kind == F_DUP) { if (a >= wf.size()) return false; if (b < a) b = a; if (b >= wf.size()) b = wf.size() - 1; Unit c = l.units[wf[a]]; l.units.insert(l.units.begin() + wf[b] + 1, c); recount(l); log << " X" << l.s << ">" << l.r << ":dup-frame#" << c.msg << "-after#" << l.units[wf[b]].msg; }
    else if (kind == F_DROP) { if (a >= wf.size()) return false; log << " X" << l.s << ">" << l.r << ":drop-frame#" << l.units[wf[a]].msg; l.units.erase(l.units.begin() + wf[a]); recount(l); }
    else if (kind == F_SWAP) { if (a >= wf.size() || b >= wf.size() || a == b || l.units[wf[a]].bytes == l.units[wf[b]].bytes) return false; log << " X" << l.s << ">" << l.r << ":swap-frames#" << l.units[wf[a]].msg << ",#" << l.units[wf[b]].msg; std::swap(l.units[wf[a]], l.units[wf[b]]); }
    else return false;
    mark(l, kind, false); return true;
  }
  // a frame recorded on the reverse link r->s (same pair key) is inserted in front of whole frame #a (or at the end)
  bool fault_reflect(Link &l, size_t a, size_t k) {
    Link &rv = L(l.r, l.s); if (l.s == l.r || rv.hist.empty()) return false;
    std::vector<size_t> wf = whole_frames(l); size_t pos = a < wf.size() ? wf[a] : l.units.size();
    if (pos == 0 && l.head_off > 0) return false;
    if (k >= rv.hist.size()) k = rv.hist.size() - 1;
    Unit u; u.bytes = rv.hist[k]; u.line = u.bytes.find('\n'); u.msg = -2;
    l.units.insert(l.units.begin() + pos, u); recount(l);
    // which integer was that (the model of the reverse link knows; delimiters of stripped arrays are not in it, so go by the history index)
    log << " X" << l.s << ">" << l.r << ":cross-link-frame(" << l.r << ">" << l.s << "#" << k << ")@" << pos;
    for (auto &e : rv.sent) l.reflected.insert(e.v.get_str(62));
    l.reflect_applied = true; mark(l, F_REFLECT, false); return true;
  }
};

// --------------------------------------------------------------------------- generators
static Z gen_value(Ctx &ctx, Sim &sim, std::string &cls, bool in_array) {
  bool enc = sim.cfg.enc(); Z v;
  switch (ctx.c.weighted({2, 2, 2, 2, 3, 3, 2, 1, 1, 1, 3, 1})) {
    case 0: v = 0; cls = "0"; break;
    case 1: v = 1; cls = "1"; break;
    case 2: v = HIDE - 1; cls = "2^256-1"; break;
    case 3: v = HIDE; cls = "2^256"; break;
    case 4: v = zrand_bits(ctx, (unsigned)ctx.c.range(1, 64)); cls = "rand<=64b"; break;
    case 5: v = zrand_bits(ctx, (unsigned)ctx.c.range(65, 700)); cls = "rand<=700b"; break;
    case 6: v = zrand_bits(ctx, (unsigned)ctx.c.range(701, 12000)); cls = "rand<=12000b"; break;
    case 7: v = pow62((unsigned)(BUFSZ / 2 - 2)) - 1 - (enc ? HIDE : Z(0)); cls = "largest-certainly-accepted"; break; // 2046 digits
    case 8: if (in_array) { v = pow62((unsigned)(BUFSZ / 2 - 2)) - 1 - (enc ? HIDE : Z(0)); cls = "largest-certainly-accepted"; break; }
      { unsigned d = (unsigned)(BUFSZ / 2 - 1 + ctx.c.index(2)); v = (ctx.c.coin() ? pow62(d - 1) : Z(pow62(d) - 1)) - (enc ? HIDE : Z(0)); cls = "at-size-limit"; break; } // 2047 or 2048 digits
    case 9: switch (ctx.c.index(3)) { case 0: v = -1; break; case 1: v = -HIDE; break; default: v = -zrand_bits(ctx, (unsigned)ctx.c.range(2, 300)) - 1; } cls = "negative"; break;
    case 10: if (sim.all_values.empty()) { v = 0; cls = "0"; } else { v = sim.all_values[ctx.c.index(sim.all_values.size())]; cls = "repeat"; } break;
    default: v = DELIM; cls = "array-delimiter-value"; break;
  }
  if (in_array && cls == "repeat" && mpz_sizeinbase(v.get_mpz_t(), 62) > BUFSZ / 2 - 2) { v = 7; cls = "rand<=64b"; }
  // a dropped element would desynchronise the delimiter-framed arrays of the chunked mode: keep that defect out of this protocol
  if (v < 0 && enc && sim.array_style && sim.cfg.chunked()) { v = -v; cls = "rand<=700b"; }
  return v;
}

VF_SUB(op_sequences, 4000, 80000) {
  Cfg cfg; cfg.sel = ctx.c.weighted({11, 9}) == 1;
  cfg.mode = cfg.sel ? (int)ctx.c.weighted({2, 3, 3, 1, 3}) : (int)ctx.c.weighted({2, 3, 3, 1});
  cfg.n = 2 + (ctx.c.coin() ? 1 : 0); cfg.keyvar = (int)ctx.c.index(2); cfg.blocking_fds = cfg.sel && ctx.c.coin();
  bool array_style = ctx.c.prob(1, 3); size_t K = (size_t)ctx.c.range(1, 4); bool faulty = ctx.c.coin();
  Sim sim(ctx, cfg); sim.array_style = array_style; sim.drain_arr = (array_style && cfg.chunked()) ? K : 1;
  size_t n = cfg.n;
  // links that carry traffic: 1..4, often several into the same receiver
  std::vector<Link *> act; size_t want = (size_t)ctx.c.range(1, 4);
  for (size_t tries = 0; act.size() < want && tries < 12; tries++) {
    size_t s = ctx.c.index(n), r = ctx.c.index(n);
    if (!act.empty() && ctx.c.coin()) r = act[0]->r;
    Link *l = &sim.L(s, r); bool dup = false; for (auto a : act) if (a == l) dup = true; if (!dup) act.push_back(l);
  }
  size_t nops = (size_t)ctx.c.range(6, 40);
  for (size_t op = 0; op < nops && !ctx.failed; op++) {
    size_t kind = ctx.c.weighted({4, 5, 2, (unsigned)(faulty ? 2 : 0)});
    std::vector<Link *> pend; for (auto l : act) if (l->pending) pend.push_back(l);
    if ((kind == 1 || kind == 3) && pend.empty()) kind = 0;
    if (kind == 0) { // send
      Link &l = *act[ctx.c.index(act.size())]; std::string cls;
      bool as_array = array_style && cfg.chunked() ? true : ctx.c.prob(1, 3);
      if (!as_array) { Z v = gen_value(ctx, sim, cls, false); ctx.label("value:" + cls); sim.send(l, std::vector<Z>(1, v), false, cls); }
      else {
        size_t k = (array_style && cfg.chunked()) ? K : (size_t)ctx.c.range(1, 4); std::vector<Z> vs; std::string all;
        for (size_t i = 0; i < k; i++) { vs.push_back(gen_value(ctx, sim, cls, true)); ctx.label("value:" + cls); all += (i ? "," : "") + cls; }
        ctx.label("array-send"); sim.send(l, vs, true, all);
      }
    } else if (kind == 1) { // feed a chosen number of bytes, then poll 0..3 times
      Link &l = *pend[ctx.c.index(pend.size())]; size_t nb = 1;
      const Unit &u = l.units.front(); size_t off = l.head_off, ml = sim.maclen;
      switch (ctx.c.weighted({3, 3, 2, 2, 2, 2, 2, 1})) {
        case 0: nb = 1; break;
        case 1: nb = (size_t)ctx.c.range(1, l.pending); break;
        case 2: nb = (!u.is_iv && off < u.line) ? u.line - off : (size_t)ctx.c.range(1, std::min<size_t>(l.pending, 15)); break;          // stop right before the newline (or inside the IV)
        case 3: nb = (!u.is_iv && off < u.line + 1) ? u.line + 1 - off : 1; break;                                                        // stop right after the newline
        case 4: { size_t tg = ml > 1 ? (size_t)ctx.c.range(1, ml - 1) : 0; nb = (!u.is_iv && ml > 1 && u.line + 1 + tg > off) ? u.line + 1 + tg - off : 1; break; } // stop inside the tag
        case 5: nb = u.bytes.size() - off; break;                                                                                          // exactly one unit
        case 6: { size_t k = (size_t)ctx.c.range(1, l.units.size()); nb = 0; for (size_t i = 0; i < k; i++) nb += l.units[i].bytes.size(); nb -= off; break; } // k whole frames (coalesced)
        default: nb = l.pending; break;
      }
      if (nb < 1) nb = 1;
      size_t polls = ctx.c.weighted({1, 3, 2, 1});
      sim.feed_op(l, nb, polls > 0);
      for (size_t p = 0; p < polls && !ctx.failed; p++) {
        static const size_t SCH[] = {S_RR, S_DIR, S_RND}; size_t sched = SCH[ctx.c.weighted({3, 2, 2})];
        size_t arr = array_style ? (cfg.chunked() ? K : (size_t)ctx.c.range(1, 4)) : 0;
        ctx.label(std::string("sched:") + sched_name(sched)); sim.recv_op(l.r, sched, l.s, arr);
      }
    } else if (kind == 2) { // receive somewhere
      Link &l = *act[ctx.c.index(act.size())]; static const size_t SCH[] = {S_RR, S_RND, S_DIR}; size_t sched = SCH[ctx.c.index(3)];
      size_t from = ctx.c.prob(1, 4) ? ctx.c.index(n) : l.s; size_t arr = array_style ? (cfg.chunked() ? K : (size_t)ctx.c.range(1, 4)) : 0;
      ctx.label(std::string("sched:") + sched_name(sched)); sim.recv_op(l.r, sched, from, arr);
    } else { // wire fault on bytes that have not been handed over yet
      Link &l = *pend[ctx.c.index(pend.size())];
      int fk = (int)ctx.c.weighted({4, 2, 2, 2, 2, 2, 2, 2}); bool done = false;
      std::vector<size_t> wf = sim.whole_frames(l);
      if (fk == F_DUP || fk == F_DROP) { size_t a = ctx.c.index(wf.size()), b = ctx.c.index(wf.size()); done = !wf.empty() && sim.fault_frame(l, fk, a, b); }
      else if (fk == F_SWAP) { size_t a = ctx.c.index(wf.size()), b = ctx.c.index(wf.size()); done = wf.size() >= 2 && sim.fault_frame(l, fk, a, b); }
      else if (fk == F_REFLECT) { Link &rv = sim.L(l.r, l.s); size_t a = ctx.c.index(wf.size() + 1); size_t absidx = l.frames_fed + a; size_t k = (!rv.hist.empty() && ctx.c.prob(3, 4)) ? std::min(absidx, rv.hist.size() - 1) : ctx.c.index(rv.hist.size() + 1); done = sim.fault_reflect(l, a, k); }
      if (!done) {
        if (fk >= F_DUP && fk != F_TRUNC) fk = F_FLIP;
        // aim: a unit, then a region of it
        size_t ui = ctx.c.index(l.units.size()); size_t base = 0; for (size_t i = 0; i < ui; i++) base += l.units[i].bytes.size(); const Unit &u = l.units[ui];
        size_t o;
        switch (ctx.c.weighted({3, 2, 3, 1})) { case 0: o = ctx.c.index(u.bytes.size()); break; case 1: o = u.is_iv ? 0 : u.line; break; case 2: o = u.is_iv ? ctx.c.index(u.bytes.size()) : u.line + 1 + ctx.c.index(sim.maclen ? sim.maclen : 1); break; default: o = 0; }
        if (o >= u.bytes.size()) o = u.bytes.size() - 1;
        size_t flat = base + o; flat = flat >= l.head_off ? flat - l.head_off : 0; if (flat >= l.pending) flat = l.pending - 1;
        unsigned arg = fk == F_INSERT ? (unsigned)(ctx.c.weighted({2, 1, 1}) == 0 ? '\n' : ctx.c.coin() ? 'A' + ctx.c.index(26) : ctx.c.index(256)) : (unsigned)ctx.c.index(8);
        sim.fault_byte(l, fk, flat, arg);
      }
    }
  }
  if (!ctx.failed) sim.finish();
  sim.close_all();
  ctx.count("virtual_select_wait_ms", (int64_t)(g_vwait_us / 1000)); g_vwait_us = 0;
  ctx.label(std::string("ep:") + cfg.ep()); ctx.label(std::string("mode:") + MODE_NAME[cfg.mode]); ctx.label("n=" + std::to_string(n));
  ctx.label(array_style ? "receive:array" : "receive:scalar"); ctx.label(sim.any_fault ? "with-fault" : "fault-free"); ctx.label("links=" + std::to_string(act.size()));
  size_t unj = 0; for (auto &l : sim.links) unj += l.unjudged; if (unj) ctx.label("deliveries-after-fault-not-judged"); ctx.count("integers_delivered", (int64_t)sim.ndelivered);
  ctx.desc << sim.head() << " ops:" << sim.log.str();
  if (sim.any_fault || sim.nt_boundary) ctx.nontrivial(sim.head() + sim.log.str());
}

// --------------------------------------------------------------------------- enumerations
static const size_t NCFG = 9;
static Cfg enum_cfg(size_t i) { Cfg c; c.n = 2; if (i < 4) { c.sel = false; c.mode = (int)i; } else { c.sel = true; c.mode = (int)(i - 4); } return c; }
// deterministic short message lists: 2..4 integers
static std::vector<Z> enum_msgs(size_t v) {
  std::vector<Z> m;
  if (v == 0) { m.push_back(0); m.push_back(1); return m; }
  if (v == 1) { m.push_back(HIDE); m.push_back(0); m.push_back(HIDE - 1); return m; }
  uint64_t h = mix64(0xC13 + v); size_t cnt = 2 + h % 3; static const unsigned bits[] = {1, 8, 40, 64, 100, 200, 256, 257};
  for (size_t i = 0; i < cnt; i++) { h = mix64(h + i); unsigned b = bits[h % 8]; Z x = 0; for (unsigned w = 0; w < (b + 63) / 64; w++) { h = mix64(h); x = (x << 64) + Z((unsigned long)h); } x >>= ((b + 63) / 64) * 64 - b; m.push_back(x); }
  return m;
}
static std::string msgs_desc(const std::vector<Z> &m) { std::string s = "["; for (size_t i = 0; i < m.size(); i++) s += (i ? "," : "") + S(m[i]); return s + "]"; }

// Every split point of a short exchange: hand over [0,k), let the receiver run, hand over the rest.
static const size_t SPLIT_B = 8;
VF_ENUM(split_points, 9 * 8 * 4, 9 * 8 * 60) {
  size_t idx = ctx.c.raw(), ci = idx % NCFG, j = (idx / NCFG) % SPLIT_B, v = idx / (NCFG * SPLIT_B);
  Cfg cfg = enum_cfg(ci); cfg.keyvar = (int)(v % 2); cfg.blocking_fds = cfg.sel && (v & 2);
  std::vector<Z> msgs = enum_msgs(v); bool array_style = (v % 3) == 2; uint64_t ivseed = hash_str("split" + std::to_string(ci) + "/" + std::to_string(v));
  size_t T = 0, done = 0, special = 0;
  for (size_t k = j == 0 ? SPLIT_B : j;; k += SPLIT_B) {
    rng_push(ivseed); Sim sim(ctx, cfg); rng_pop();                 // the same IV for every k: the exchange is byte-identical
    sim.array_style = array_style; sim.drain_arr = msgs.size();
    Link &l = sim.L(0, 1);
    if (array_style) sim.send(l, msgs, true, msgs_desc(msgs)); else for (auto &m : msgs) sim.send(l, std::vector<Z>(1, m), false, S(m));
    T = l.pending; if (k >= T) { sim.close_all(); break; }
    sim.feed_op(l, k, true); std::string bc = sim.boundary_class(l); if (bc != "inside-line" && bc != "frame-boundary") special++;
    size_t sched = (k % 3 == 0) ? S_RR : (k % 3 == 1) ? S_DIR : S_RND; size_t arr = array_style ? msgs.size() : 0;
    for (size_t e = 0, p = 0; e < 2 && p < 12; p++) { size_t b = sim.ndelivered; sim.recv_op(1, sched, 0, arr); e = sim.ndelivered == b ? e + 1 : 0; }
    sim.finish(); sim.close_all(); done++;
    if (ctx.failed) break;
  }
  ctx.count("split_points_checked", (int64_t)done); ctx.count("splits_inside_iv_tag_or_at_newline", (int64_t)special);
  ctx.label(std::string("ep:") + cfg.ep()); ctx.label(std::string("mode:") + MODE_NAME[cfg.mode]); ctx.label(array_style ? "receive:array" : "receive:scalar");
  ctx.desc << cfg.ep() << "/" << MODE_NAME[cfg.mode] << " msgs=" << msgs_desc(msgs) << " wire=" << T << " bytes, every split point k = " << (j == 0 ? SPLIT_B : j) << " mod " << SPLIT_B << " (" << done << " splits)";
  ctx.nontrivial(std::to_string(idx));
}

// The whole exchange trickles in: every piece the transport hands over has the same small size p (1, 2, 3, 5, 7, 11, 15 - all below the
// 16-octet IV and below the tag length -, 16, 17, 31), with a receive call after every piece or only after every third one.  A single
// split (above) is always followed by one large piece, which hides state that is only updated when a read returns "enough" bytes.
static const size_t PIECES[] = {1, 2, 3, 5, 7, 11, 15, 16, 17, 31}; static const size_t NPIECES = 10;
VF_ENUM(uniform_piece_sizes, 9 * 10 * 3, 9 * 10 * 24) {
  size_t idx = ctx.c.raw(), ci = idx % NCFG, pi = (idx / NCFG) % NPIECES, v = idx / (NCFG * NPIECES);
  Cfg cfg = enum_cfg(ci); cfg.keyvar = (int)(v % 2); cfg.blocking_fds = cfg.sel && (v & 2);
  std::vector<Z> msgs = enum_msgs(v); bool array_style = (v % 3) == 2; size_t p = PIECES[pi], gap = (v % 2) ? 3 : 1;
  Sim sim(ctx, cfg); sim.array_style = array_style; sim.drain_arr = msgs.size();
  Link &l = sim.L(0, 1); size_t arr = array_style ? msgs.size() : 0;
  if (array_style) sim.send(l, msgs, true, msgs_desc(msgs)); else for (auto &m : msgs) sim.send(l, std::vector<Z>(1, m), false, S(m));
  size_t T = l.pending, pieces = 0;
  while (l.pending && !ctx.failed) {
    sim.feed_op(l, std::min(p, l.pending), true); pieces++;
    if (pieces % gap == 0) { size_t sched = (pieces % 3 == 0) ? S_RR : (pieces % 3 == 1) ? S_DIR : S_RND; sim.recv_op(1, sched, 0, arr); }
  }
  // every byte has been handed over in small pieces: the receiver must now deliver everything without further input
  for (size_t e = 0, q = 0; e < 3 && q < 4 * (msgs.size() + 4) && !ctx.failed; q++) { size_t b = sim.ndelivered; sim.recv_op(1, q % 2 ? S_RR : S_DIR, 0, arr); e = sim.ndelivered == b ? e + 1 : 0; }
  if (!ctx.failed) sim.finish();
  sim.close_all();
  ctx.count("pieces_handed_over", (int64_t)pieces);
  ctx.label(std::string("ep:") + cfg.ep()); ctx.label(std::string("mode:") + MODE_NAME[cfg.mode]); ctx.label("piece=" + std::to_string(p)); ctx.label(array_style ? "receive:array" : "receive:scalar");
  ctx.desc << cfg.ep() << "/" << MODE_NAME[cfg.mode] << " msgs=" << msgs_desc(msgs) << " wire=" << T << " bytes in pieces of " << p << ", receive after every " << gap << " piece(s)";
  ctx.nontrivial(std::to_string(idx));
}

// A long run of EQUAL integers on one link: with encryption every one of them must look different on the wire, also the 256th and the
// 512th (per-message counters and nonces that are exported into a cipher block must stay injective beyond one octet).  All modes; 600 sends.
VF_ENUM(equal_integers_long_run, 9 * 2, 9 * 6) {
  size_t idx = ctx.c.raw(), ci = idx % NCFG, v = idx / NCFG; Cfg cfg = enum_cfg(ci); cfg.keyvar = (int)(v % 2);
  Z val = v % 2 ? Z(7) : (Z(0x1234567) << 70) + Z((unsigned long)v); size_t runlen = 600;
  Sim sim(ctx, cfg); sim.array_style = false; sim.drain_arr = 1; Link &l = sim.L(0, 1);
  for (size_t i = 0; i < runlen && !ctx.failed; i++) { sim.send(l, std::vector<Z>(1, val), false, "equal"); if (i % 50 == 49) { sim.feed_op(l, l.pending, true); for (int q = 0; q < 60 && !ctx.failed; q++) sim.recv_op(1, S_DIR, 0, 0); } }
  if (!ctx.failed) sim.finish();
  sim.close_all();
  ctx.count("integers_delivered", (int64_t)sim.ndelivered);
  ctx.label(std::string("ep:") + cfg.ep()); ctx.label(std::string("mode:") + MODE_NAME[cfg.mode]);
  ctx.desc << cfg.ep() << "/" << MODE_NAME[cfg.mode] << " " << runlen << " sends of " << S(val) << " on one link";
  ctx.nontrivial(std::to_string(idx));
}

// Every catalogue fault at every byte offset / frame of a short exchange, on a fresh link (first frame carries
// sequence number 1) and on an established link (one integer delivered before the fault).
static const size_t FAULT_B = 16;
VF_ENUM(fault_positions, 9 * 16 * 2, 9 * 16 * 32) {
  size_t idx = ctx.c.raw(), ci = idx % NCFG, j = (idx / NCFG) % FAULT_B, v = idx / (NCFG * FAULT_B);
  Cfg cfg = enum_cfg(ci); cfg.keyvar = (int)((v / 2) % 2); bool established = v % 2; size_t bitrot = v / 2; // thorough: other bit positions, inserted bytes, messages
  std::vector<Z> msgs = enum_msgs(bitrot % 5 == 0 ? 0 : bitrot); if (msgs.size() < 3) msgs.push_back(Z(61)); // >= 3 frames so that swap/drop/dup have room
  Z first = 5, extra = 77, other1 = 3, other2 = HIDE + 9;
  uint64_t ivseed = hash_str("fault" + std::to_string(ci) + "/" + std::to_string(v));
  size_t T = 0, F = 0, done = 0, total = 0;
  for (size_t p = j;; p += FAULT_B) {
    rng_push(ivseed); Sim sim(ctx, cfg); rng_pop();
    Link &l = sim.L(0, 1), &rv = sim.L(1, 0), &other = sim.L(1, 1);
    for (auto &m : msgs) sim.send(rv, std::vector<Z>(1, m + 1000), false, S(m + 1000));  // traffic of the reverse direction (never handed over): material for cross-link frames
    if (established) { sim.send(l, std::vector<Z>(1, first), false, S(first)); sim.feed(l, l.pending); sim.finish(); }
    for (auto &m : msgs) sim.send(l, std::vector<Z>(1, m), false, S(m));
    sim.send(other, std::vector<Z>(1, other1), false, S(other1));
    T = l.pending; F = sim.whole_frames(l).size();
    // position p -> fault
    total = 4 * T + 3 * F + (F - 1) + (F + 1) + F + 1;
    if (p >= total) { sim.close_all(); break; }
    bool ok;
    if (p < 4 * T) { size_t off = p / 4; static const int BK[] = {F_FLIP, F_INSERT, F_DELETE, F_TRUNC}; int kind = BK[p % 4]; unsigned arg = kind == F_FLIP ? (unsigned)((off + bitrot) % 8) : (unsigned)(((off + bitrot) % 3 == 0) ? '\n' : ((off + bitrot) % 3 == 1) ? 'A' + (off % 26) : (off * 37 + bitrot) % 256); ok = sim.fault_byte(l, kind, off, arg); }
    else if (p < 4 * T + F) ok = sim.fault_frame(l, F_DUP, p - 4 * T, p - 4 * T);
    else if (p < 4 * T + 2 * F) ok = sim.fault_frame(l, F_DUP, p - 4 * T - F, F - 1);
    else if (p < 4 * T + 3 * F) ok = sim.fault_frame(l, F_DROP, p - 4 * T - 2 * F, 0);
    else if (p < 4 * T + 3 * F + (F - 1)) ok = sim.fault_frame(l, F_SWAP, p - 4 * T - 3 * F, p - 4 * T - 3 * F + 1);
    else if (p < 4 * T + 3 * F + (F - 1) + (F + 1)) { size_t a = p - (4 * T + 3 * F + (F - 1)); ok = sim.fault_reflect(l, a, (established ? 1 : 0) + a); }
    else if (p < 4 * T + 3 * F + (F - 1) + (F + 1) + F) { size_t a = p - (4 * T + 3 * F + (F - 1) + (F + 1)); ok = sim.fault_reflect(l, a, (established ? 1 : 0) + a) && sim.fault_frame(l, F_DROP, a + 1, 0); } // frame a REPLACED by the reverse link's frame of the same number
    else { ok = true; for (size_t a = 0; a < F && ok; a++) ok = sim.fault_reflect(l, a, (established ? 1 : 0) + a) && sim.fault_frame(l, F_DROP, a + 1, 0); } // the whole pending stream replaced by the reverse link's stream
    (void)ok;
    // hand over in two pieces around the damaged place, receive, then more traffic on both links
    sim.feed_op(l, (size_t)(1 + (p * 7) % (l.pending ? l.pending : 1)), true); sim.recv_op(1, S_RR, 0, 0); sim.recv_op(1, S_DIR, 0, 0);
    sim.finish();
    sim.send(l, std::vector<Z>(1, extra), false, S(extra)); sim.send(other, std::vector<Z>(1, other2), false, S(other2));
    sim.finish(); sim.close_all(); done++;
    if (ctx.failed) break;
  }
  ctx.count("faults_checked", (int64_t)done);
  ctx.label(std::string("ep:") + cfg.ep()); ctx.label(std::string("mode:") + MODE_NAME[cfg.mode]); ctx.label(established ? "established-link" : "fresh-link");
  ctx.desc << cfg.ep() << "/" << MODE_NAME[cfg.mode] << (established ? " established link" : " fresh link") << " msgs=" << msgs_desc(msgs) << " wire=" << T << " bytes, " << F << " frames: faults " << j << " mod " << FAULT_B << " of " << total << " (flip/insert/delete/truncate at every offset, dup/drop/swap/cross-link insertion/cross-link replacement of every frame and of all frames)";
  ctx.nontrivial(std::to_string(idx));
}

// --------------------------------------------------------------------------- process start
void vf::harness_init() {
  signal(SIGPIPE, SIG_IGN);
  g_real_select = getenv("C13_REAL_SELECT") != nullptr;
  if (!getenv("C13_VERBOSE")) { static NullBuf nb; std::cerr.rdbuf(&nb); } // the library reports every refused frame on std::cerr
  // warm-up: lazy initialisations of libgcrypt (and the key derivations) happen here, not inside the first case's descriptor accounting
  Ctx dummy; for (int sel = 0; sel < 2; sel++) { Cfg c; c.sel = sel; c.mode = sel ? M_CHUNKED : M_AUTHENC; c.n = 3; Sim s(dummy, c); }
}
