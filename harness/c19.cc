// C19 — OpenPGP encodings conform to the standard and round-trip.
// Oracle: lib/refpgp.hh (independent reference written from RFC 4880 / RFC 6637 /
// rfc4880bis-06), second judge: gpg --list-packets.  The library's decoder is fed
// only well-formed library/reference output plus the named armor defect classes.
#include "fix.hh"
#include "refpgp.hh"
#include <dirent.h>
using namespace vf;
namespace R = refpgp;
typedef CallasDonnerhackeFinneyShawThayerRFC4880 PGP;
typedef R::Bytes Bytes; // identical to tmcg_openpgp_octets_t (std::vector<uint8_t>)
const char *vf::PROPERTY = "C19";
void vf::harness_init() {
  std::string e = R::selftest();
  if (!e.empty()) { fprintf(stderr, "refpgp self test failed: %s\n", e.c_str()); abort(); }
}

// ---------------------------------------------------------------------------
// helpers
static std::string N(uint64_t v) { return std::to_string(v); }
static Bytes content(Ctx &ctx, size_t n, std::string *cls = nullptr) { // n octets from the choice sequence
  Bytes b(n); std::string c;
  if (n <= 48) { c = "drawn"; for (size_t i = 0; i < n; i++) b[i] = (uint8_t)ctx.c.raw(); }
  else switch (ctx.c.weighted({1, 1, 1, 6, 1})) {
    case 0: c = "zeros"; break;
    case 1: c = "ones"; std::fill(b.begin(), b.end(), 0xFF); break;
    case 2: { c = "ramp"; unsigned s = ctx.c.raw(); for (size_t i = 0; i < n; i++) b[i] = (uint8_t)(s + i); break; }
    case 3: { c = "random"; uint64_t s = ctx.c.raw64(); for (size_t i = 0; i < n; i += 8) { uint64_t r = mix64(s + i); for (size_t k = 0; k < 8 && i + k < n; k++) b[i + k] = (uint8_t)(r >> (8 * k)); } break; }
    default: { c = "few-values"; static const uint8_t vals[] = {0x00, 0x3F, 0x40, 0xFB, 0xFC, 0xFF, 0x0D, 0x0A, 0x2D, 0x3D}; uint64_t s = ctx.c.raw64(); for (size_t i = 0; i < n; i++) b[i] = vals[mix64(s + i) % 10]; break; }
  }
  if (cls) *cls = c; return b;
}
static std::string text(Ctx &ctx, size_t n, bool utf8 = false) { // printable text
  std::string s; for (size_t i = 0; i < n; i++) { unsigned r = ctx.c.raw(); if (utf8 && r % 11 == 0) s += "\xC3\xA4"; else s += (char)(0x20 + r % 95); } return s;
}
struct Mpi { // gcry_mpi_t with the value of a Z
  gcry_mpi_t m;
  explicit Mpi(const Z &v) : m(NULL) { Bytes b = R::be_octets(v); if (b.empty()) { m = gcry_mpi_new(8); gcry_mpi_set_ui(m, 0); } else gcry_mpi_scan(&m, GCRYMPI_FMT_USG, b.data(), b.size(), NULL); }
  ~Mpi() { gcry_mpi_release(m); }
  operator gcry_mpi_t() const { return m; }
private: Mpi(const Mpi &); Mpi &operator=(const Mpi &);
};
static Z fromG(gcry_mpi_t g) {
  if (!g) return Z(-1); size_t n = (gcry_mpi_get_nbits(g) + 7) / 8; Bytes b(n ? n : 1); size_t w = 0;
  if (gcry_mpi_print(GCRYMPI_FMT_USG, b.data(), b.size(), &w, g)) return Z(-2); b.resize(w); return R::from_be(b);
}
static Z gen_int(Ctx &ctx, unsigned maxbits, std::string *cls = nullptr, bool nonzero = false) {
  Z v; std::string c; unsigned k = (unsigned)ctx.c.small(1, maxbits);
  switch (ctx.c.weighted({1, 1, 2, 2, 1, 2, 5})) {
    case 0: v = 0; c = "zero"; break;
    case 1: v = 1; c = "one"; break;
    case 2: v = Z(1) << k; c = "2^k"; break;
    case 3: v = (Z(1) << k) - 1; c = "2^k-1"; break;
    case 4: v = (Z(1) << k) + 1; c = "2^k+1"; break;
    case 5: { unsigned by = (unsigned)ctx.c.range(1, (maxbits + 7) / 8); v = zrand_bits(ctx, 8 * by); if (ctx.c.coin()) mpz_setbit(v.get_mpz_t(), 8 * by - 1); else { v >>= 7; } c = "octet-boundary"; break; }
    default: v = zrand_bits(ctx, k); c = "random"; break;
  }
  if (nonzero && v == 0) { v = 1; c = "one"; }
  if (cls) *cls = c; return v;
}
static std::string diff(const Bytes &lib, const Bytes &ref) {
  size_t d = R::first_diff(lib, ref); std::ostringstream o;
  o << "library (" << lib.size() << " octets) " << R::hex(Bytes(lib.begin() + (d > 8 ? d - 8 : 0), lib.end()), 40) << " vs reference (" << ref.size() << " octets) "
    << R::hex(Bytes(ref.begin() + (d > 8 ? d - 8 : 0), ref.end()), 40) << ", first difference at octet " << d << " (shown from octet " << (d > 8 ? d - 8 : 0) << ")";
  return o.str();
}
static bool same(Ctx &ctx, const std::string &sig, const std::string &what, const Bytes &lib, const Bytes &ref) {
  if (lib == ref) return true; ctx.fail(sig, what + ": " + diff(lib, ref) + " [" + ctx.desc.str() + "]"); return false;
}
static tmcg_openpgp_secure_string_t sec(const std::string &s) { tmcg_openpgp_secure_string_t p; for (size_t i = 0; i < s.size(); i++) p += s[i]; return p; }
static Bytes arr(const tmcg_openpgp_byte_t *p, size_t n) { return p ? Bytes(p, p + n) : Bytes(); }
static std::string cstr(const tmcg_openpgp_byte_t *p, size_t max) { size_t n = 0; while (n < max && p[n]) n++; return std::string((const char *)p, n); }

// one PacketDecode call with its context
struct Dec {
  tmcg_openpgp_packet_ctx_t c; Bytes cur, rest; tmcg_openpgp_notations_t notations; tmcg_openpgp_multiple_octets_t esigs, rfprs; unsigned ret;
  explicit Dec(const Bytes &in) : rest(in) { PGP::MemoryGuardReset(); ret = PGP::PacketDecode(rest, 0, c, cur, notations, esigs, rfprs); }
  ~Dec() { PGP::PacketContextRelease(c); }
private: Dec(const Dec &); Dec &operator=(const Dec &);
};

// ---------------------------------------------------------------------------
// (1) Radix-64 and CRC-24
static void check_radix64(Ctx &ctx, const Bytes &data, bool full) {
  std::string ref = R::b64(data), nb, lb;
  PGP::Radix64Encode(data, nb, false); PGP::Radix64Encode(data, lb, true);
  std::string where = "input (" + N(data.size()) + " octets) " + R::hex(data, 24);
  if (nb != ref) ctx.fail("radix64/encode/differs-from-reference", where + ": library '" + nb.substr(0, 80) + "' reference '" + ref.substr(0, 80) + "' first difference at character " + N(R::first_diff(nb, ref)));
  std::string stripped; size_t line = 0, maxline = 0; bool lonecr = false;
  for (size_t i = 0; i < lb.size(); i++) {
    if (lb[i] == '\r') { if (i + 1 >= lb.size() || lb[i + 1] != '\n') lonecr = true; continue; }
    if (lb[i] == '\n') { line = 0; continue; }
    stripped += lb[i]; if (++line > maxline) maxline = line;
  }
  if (stripped != ref) ctx.fail("radix64/encode-linebreaks/differs-from-reference-after-removing-line-breaks", where + ": first difference at character " + N(R::first_diff(stripped, ref)) + " library '" + stripped.substr(0, 80) + "'");
  if (maxline > 76) ctx.fail("radix64/encode-linebreaks/line-longer-than-76-characters", where + ": longest line " + N(maxline));
  if (lonecr) ctx.fail("radix64/encode-linebreaks/carriage-return-without-line-feed", where);
  Bytes d1; PGP::Radix64Decode(lb, d1);
  if (d1 != data) ctx.fail("radix64/decode/own-output-not-recovered", where + ": " + diff(d1, data));
  Bytes c; PGP::CRC24Compute(data, c);
  if (c != R::crc24_octets(data)) ctx.fail("crc24/compute/differs-from-reference", where + ": library " + R::hex(c) + " reference " + R::hex(R::crc24_octets(data)));
  if (full) {
    Bytes d2; if (data.size() <= 6000 || ctx.c.prob(1, 4)) PGP::Radix64Decode(R::wrap(ref, 76, "\n"), d2); else d2 = data;
    if (d2 != data) ctx.fail("radix64/decode/reference-text-76-columns-not-recovered", where + ": " + diff(d2, data));
    size_t w = (size_t)ctx.c.range(1, 76); Bytes d3; PGP::Radix64Decode(R::wrap(ref, w, ctx.c.coin() ? "\r\n" : "\n"), d3);
    if (d3 != data) ctx.fail("radix64/decode/reference-text-not-recovered", where + " width " + N(w) + ": " + diff(d3, data));
    std::string ce; PGP::CRC24Encode(data, ce);
    if (ce != R::crc24_text(data)) ctx.fail("crc24/encode/differs-from-reference", where + ": library '" + ce + "' reference '" + R::crc24_text(data) + "'");
    if (lb.find('\n') != std::string::npos) ctx.label("library line width " + N(maxline));
  }
}
static std::string wrap_class(size_t L) {
  size_t m48 = L % 48, m57 = L % 57;
  if (L >= 46 && (m48 <= 2 || m48 >= 46)) return "within 2 octets of a 64-column wrap (multiple of 48 octets)";
  if (L >= 55 && (m57 <= 2 || m57 >= 55)) return "within 2 octets of a 76-column wrap (multiple of 57 octets)";
  return "between wrap boundaries";
}
VF_ENUM(radix64_lengths, 203, 203) { // index = length 0..200; 201 = ALL strings of length <= 2; 202 = 3-octet groups
  size_t i = ctx.c.raw();
  if (i <= 200) {
    size_t L = i; bool boundary = wrap_class(L)[0] == 'w'; unsigned nrand = boundary ? 40 : 8; uint64_t n = 0;
    Bytes b(L, 0); check_radix64(ctx, b, true); n++;
    std::fill(b.begin(), b.end(), 0xFF); check_radix64(ctx, b, true); n++;
    for (size_t k = 0; k < L; k++) b[k] = (uint8_t)(k * 37 + 11); check_radix64(ctx, b, true); n++;
    for (unsigned r = 0; r < nrand && !ctx.failed; r++) { uint64_t s = ctx.c.raw64(); for (size_t k = 0; k < L; k++) b[k] = (uint8_t)(mix64(s + k / 8) >> (8 * (k % 8))); check_radix64(ctx, b, r < 4); n++; }
    ctx.count("strings_checked", n); ctx.label(wrap_class(L)); ctx.desc << "length " << L << ": " << n << " strings"; ctx.nontrivial("L" + N(L));
  } else if (i == 201) {
    uint64_t n = 0; Bytes b; check_radix64(ctx, b, true); n++;
    b.resize(1); for (unsigned a = 0; a < 256 && !ctx.failed; a++) { b[0] = a; check_radix64(ctx, b, false); n++; }
    b.resize(2); for (unsigned a = 0; a < 65536 && !ctx.failed; a++) { b[0] = a >> 8; b[1] = a; check_radix64(ctx, b, false); n++; }
    ctx.count("strings_checked", n); ctx.label("exhaustive: every string of length 0..2"); ctx.desc << "all " << n << " strings of length <= 2"; ctx.nontrivial("all<=2");
  } else {
    static const uint8_t sel[16] = {0x00, 0x01, 0x0F, 0x10, 0x3F, 0x40, 0x7F, 0x80, 0xAA, 0xBF, 0xC0, 0xF0, 0xFB, 0xFC, 0xFE, 0xFF};
    uint64_t n = 0; Bytes b(3);
    for (unsigned a = 0; a < 256 && !ctx.failed; a++) for (unsigned x = 0; x < 16; x++) for (unsigned y = 0; y < 16; y++) { b[0] = a; b[1] = sel[x]; b[2] = sel[y]; check_radix64(ctx, b, false); b[0] = sel[x]; b[1] = a; check_radix64(ctx, b, false); b[1] = sel[y]; b[2] = a; check_radix64(ctx, b, false); n += 3; }
    ctx.count("strings_checked", n); ctx.label("3-octet groups: every value at every position"); ctx.desc << n << " three-octet strings"; ctx.nontrivial("groups");
  }
}
VF_SUB(radix64_sampled, 2500, 50000) {
  size_t L; std::string lc;
  switch (ctx.c.weighted({12, 12, 8, 6, 1})) {
    case 0: L = (size_t)ctx.c.range(0, 400); lc = "0..400"; break;
    case 1: { size_t k = (size_t)ctx.c.small(1, 1458); L = 48 * k + (size_t)ctx.c.range(0, 4) - 2; lc = "48k-2..48k+2"; break; }
    case 2: { size_t k = (size_t)ctx.c.small(1, 1228); L = 57 * k + (size_t)ctx.c.range(0, 4) - 2; lc = "57k-2..57k+2"; break; }
    case 3: L = (size_t)ctx.c.small(401, 70000); lc = "401..70000"; break;
    default: L = (size_t)ctx.c.range(60000, 70000); lc = "60000..70000"; break;
  }
  std::string cc; Bytes d = content(ctx, L, &cc);
  ctx.desc << "length " << L << " (" << lc << ", " << cc << ")"; ctx.label("length " + lc); ctx.label("content " + cc);
  check_radix64(ctx, d, true);
  if (L > 200) ctx.nontrivial(N(L) + cc + N(R::crc24(d)));
}

// ---------------------------------------------------------------------------
// (2) ASCII armor
struct AType { tmcg_openpgp_armor_t t; const char *title; bool encodes; };
static const AType ATYPES[] = {
  {TMCG_OPENPGP_ARMOR_MESSAGE, "PGP MESSAGE", true}, {TMCG_OPENPGP_ARMOR_SIGNATURE, "PGP SIGNATURE", true},
  {TMCG_OPENPGP_ARMOR_PRIVATE_KEY_BLOCK, "PGP PRIVATE KEY BLOCK", true}, {TMCG_OPENPGP_ARMOR_PUBLIC_KEY_BLOCK, "PGP PUBLIC KEY BLOCK", true},
  {TMCG_OPENPGP_ARMOR_FILE, "PGP ARMORED FILE", false}};
static std::string gen_comment(Ctx &ctx, std::string *cls) {
  switch (ctx.c.weighted({3, 3, 2, 1})) {
    case 0: *cls = "no comment"; return "";
    case 1: { *cls = "short comment"; std::string s; size_t n = (size_t)ctx.c.range(1, 20); static const char al[] = "abcdefghijklmnopqrstuvwxyzABCXYZ0123456789 .:/@_=+"; for (size_t i = 0; i < n; i++) s += al[ctx.c.index(sizeof(al) - 1)]; while (!s.empty() && s[s.size() - 1] == ' ') s.erase(s.size() - 1); if (s.empty()) s = "c"; return s; }
    case 2: { *cls = "printable comment"; std::string s = text(ctx, (size_t)ctx.c.range(1, 120)); for (size_t i = 0; i + 1 < s.size(); i++) if (s[i] == '-' && s[i + 1] == '-') s[i + 1] = '.'; while (!s.empty() && s[s.size() - 1] == ' ') s.erase(s.size() - 1); if (s.empty()) s = "c"; return s; }
    default: { *cls = "utf-8 comment"; std::string s; size_t n = (size_t)ctx.c.range(1, 30); for (size_t i = 0; i < n; i++) s += (ctx.c.coin() ? "\xC3\xBC" : "x"); return s; }
  }
}
VF_SUB(armor_roundtrip, 4000, 80000) {
  size_t ti = ctx.c.index(4); const AType &at = ATYPES[ti];
  size_t L; if (ctx.c.prob(1, 3)) { size_t k = (size_t)ctx.c.small(1, 60); L = 48 * k + (size_t)ctx.c.range(0, 4) - 2; } else L = (size_t)ctx.c.small(1, ctx.thorough ? 20000 : 6000);
  std::string cc, ccls; Bytes data = content(ctx, L, &cc); std::string comment = gen_comment(ctx, &ccls); bool version = ctx.c.prob(1, 3);
  ctx.desc << at.title << ", payload " << L << " octets (" << cc << "), " << ccls << (version ? ", version header" : "");
  ctx.label(std::string("type ") + at.title); ctx.label(ccls); ctx.label(wrap_class(L)); if (version) ctx.label("version header");
  std::string out;
  if (comment.empty() && !version && ctx.c.coin()) PGP::ArmorEncode(at.t, data, out); else PGP::ArmorEncode(at.t, comment, data, out, version);
  R::Armor a = R::armor_parse(out);
  if (!a.ok) ctx.fail("armor/encode/not-accepted-by-reference-parser", "reference parser: " + a.why + " for " + ctx.desc.str() + " armor: " + jstr(out.substr(0, 300)));
  else {
    if (a.title != at.title) ctx.fail("armor/encode/wrong-header-line", "title '" + a.title + "' for " + ctx.desc.str());
    R::Headers want; if (version) want.push_back(std::make_pair(std::string("Version"), std::string())); if (!comment.empty()) want.push_back(std::make_pair(std::string("Comment"), comment));
    bool hok = a.headers.size() == want.size();
    for (size_t i = 0; hok && i < want.size(); i++) { if (a.headers[i].first != want[i].first) hok = false; if (want[i].first == "Comment" && a.headers[i].second != comment) hok = false; if (want[i].first == "Version" && a.headers[i].second.empty()) hok = false; }
    if (!hok) ctx.fail("armor/encode/armor-headers-differ", ctx.desc.str() + " armor: " + jstr(out.substr(0, 300)));
    same(ctx, "armor/encode/payload-differs-from-input", "payload decoded by the reference", a.data, data);
    if (!a.has_crc) ctx.fail("armor/encode/no-checksum-line", ctx.desc.str());
    ctx.label("library armor line width " + N(a.max_line));
  }
  { Bytes back; tmcg_openpgp_armor_t t = PGP::ArmorDecode(out, back);
    if (t != at.t || back != data) ctx.fail("armor/decode/own-armor-not-recovered", "ArmorDecode returned type " + N(t) + " payload " + N(back.size()) + " octets for " + ctx.desc.str() + (t == at.t ? " " + diff(back, data) : "")); }
  // valid armor assembled by the reference in forms the RFC allows
  size_t v = ctx.c.index(5); if (v == 1 && L < 4) v = 0; // (a checksum-less MESSAGE armor of <= 3 octets trips the library's fixed "+33" skip: outside the emitted domain)
  const AType &rt = (v == 4) ? ATYPES[4] : at; std::string vname, ra; R::Headers h; if (!comment.empty()) h.push_back(std::make_pair(std::string("Comment"), comment));
  switch (v) {
    case 0: vname = "LF line ends, 76 columns"; ra = R::armor_build(rt.title, h, data, 76, "\n"); break;
    case 1: vname = "no checksum line"; ra = R::armor_build(rt.title, h, data, 64, "\r\n", false); break;
    case 2: vname = "text before and after the block"; ra = "Some text before.\r\nMore: text\r\n" + R::armor_build(rt.title, h, data, 64, "\r\n") + "trailing text\r\n"; break;
    case 3: vname = "several armor headers"; h.push_back(std::make_pair(std::string("Hash"), std::string("SHA256"))); h.push_back(std::make_pair(std::string("Charset"), std::string("UTF-8"))); ra = R::armor_build(rt.title, h, data, (size_t)(4 * ctx.c.range(1, 19)), "\r\n"); break;
    default: vname = "armored file (decode only type)"; ra = R::armor_build(rt.title, h, data, 64, "\n"); break;
  }
  ctx.label("reference armor: " + vname);
  { Bytes back; tmcg_openpgp_armor_t t = PGP::ArmorDecode(ra, back);
    if (t != rt.t || back != data) ctx.fail("armor/decode/valid-reference-armor-not-recovered", vname + ": ArmorDecode returned type " + N(t) + " payload " + N(back.size()) + " octets for " + ctx.desc.str()); }
  ctx.nontrivial(N(ti) + comment + N(version) + N(L) + N(R::crc24(data)) + N(v));
}
VF_SUB(armor_negative, 4000, 80000) {
  size_t ti = ctx.c.index(4); const AType &at = ATYPES[ti]; bool lf = ctx.c.prob(1, 4); std::string eol = lf ? "\n" : "\r\n"; size_t width = lf ? 76 : 64;
  size_t L = (size_t)ctx.c.small(1, 700); Bytes data = content(ctx, L); std::string ccls, comment = gen_comment(ctx, &ccls);
  std::string begin = std::string("-----BEGIN ") + at.title + "-----", end = std::string("-----END ") + at.title + "-----";
  std::string hdr = comment.empty() ? "" : "Comment: " + comment + eol, body = R::wrap(R::b64(data), width, eol) + eol, crc = R::crc24_text(data) + eol;
  std::string good = begin + eol + hdr + eol + body + crc + end + eol, bad, cls;
  switch (ctx.c.index(8)) {
    case 0: { cls = "wrong-checksum"; uint32_t delta = (uint32_t)ctx.c.range(1, 0xFFFFFF), c = R::crc24(data) ^ delta; Bytes cb; cb.push_back(c >> 16); cb.push_back(c >> 8); cb.push_back(c); bad = begin + eol + hdr + eol + body + "=" + R::b64(cb) + eol + end + eol; break; }
    case 1: { cls = "wrong-checksum"; Bytes d2 = data; size_t p = ctx.c.index(L); d2[p] ^= (uint8_t)(1u << ctx.c.index(8)); bad = begin + eol + hdr + eol + R::wrap(R::b64(d2), width, eol) + eol + crc + end + eol; break; }
    case 2: cls = "missing-blank-line"; bad = begin + eol + hdr + body + crc + end + eol; break;
    case 3: cls = "duplicated-begin-line"; bad = begin + eol + begin + eol + hdr + eol + body + crc + end + eol; break;
    case 4: { cls = "nested-block-of-the-same-type"; Bytes inner = content(ctx, (size_t)ctx.c.range(1, 60)); bad = begin + eol + hdr + eol + body + R::armor_build(at.title, R::Headers(), inner, width, eol) + body + crc + end + eol; break; }
    case 5: { size_t tj = ti < 3 ? ti + 1 + ctx.c.index(3 - ti) : 3; if (tj == ti) { cls = "nested-block-of-the-same-type"; } else cls = "nested-block-of-another-type"; Bytes inner = content(ctx, (size_t)ctx.c.range(1, 60)); bad = begin + eol + hdr + eol + body + R::armor_build(ATYPES[tj].title, R::Headers(), inner, width, eol) + crc + end + eol; break; }
    case 6: { cls = "begin-line-inside-the-data"; bad = begin + eol + hdr + eol + body + std::string("-----BEGIN ") + ATYPES[ctx.c.index(4)].title + "-----" + eol + body + crc + end + eol; break; }
    default: { cls = "truncated-footer"; size_t cut = (size_t)ctx.c.range(1, end.size()); bad = begin + eol + hdr + eol + body + crc + end.substr(0, end.size() - cut) + (ctx.c.coin() ? eol : ""); break; }
  }
  ctx.desc << cls << " in " << at.title << " armor, payload " << L << " octets, " << (lf ? "LF/76" : "CRLF/64") << ", " << ccls; ctx.label(cls); ctx.label(std::string("type ") + at.title);
  R::Armor ra = R::armor_parse(bad), rg = R::armor_parse(good);
  if (ra.ok || !rg.ok || rg.data != data) { ctx.fail("harness/reference-parser-disagrees-with-defect-construction", cls + ": defective accepted=" + N(ra.ok) + " intact accepted=" + N(rg.ok) + " " + rg.why); return; }
  { Bytes back; tmcg_openpgp_armor_t t = PGP::ArmorDecode(good, back); if (t != at.t || back != data) ctx.fail("armor/decode/valid-reference-armor-not-recovered", "intact counterpart of " + ctx.desc.str()); }
  Bytes back; tmcg_openpgp_armor_t t = PGP::ArmorDecode(bad, back);
  if (t != TMCG_OPENPGP_ARMOR_UNKNOWN) ctx.fail("armor/decode/" + cls + "-accepted", "ArmorDecode returned type " + N(t) + " and " + N(back.size()) + " octets (reference parser: " + ra.why + ") for " + ctx.desc.str() + " armor: " + jstr(bad.substr(0, 400)));
  ctx.nontrivial(cls + N(ti) + N(L) + N(R::crc24(data)) + comment + N(lf) + N(bad.size()));
}

// ---------------------------------------------------------------------------
// (3) packet tags and body lengths
static const uint64_t LEN_BOUNDARIES[] = {0, 1, 2, 3, 100, 190, 191, 192, 193, 194, 255, 256, 257, 447, 448, 8382, 8383, 8384, 8385, 8386, 16319, 16320, 16383, 16384, 65534, 65535, 65536, 65537, 70000,
  16777215ULL, 16777216ULL, 2147483647ULL, 2147483648ULL, 4294967294ULL, 4294967295ULL};
static const size_t N_LENB = sizeof(LEN_BOUNDARIES) / sizeof(LEN_BOUNDARIES[0]);
static void check_length_header(Ctx &ctx, uint64_t len) {
  Bytes lib, ref = R::new_len(len); PGP::PacketLengthEncode((size_t)len, lib);
  if (lib != ref) ctx.fail("length/encode/differs-from-reference", "length " + N(len) + ": library " + R::hex(lib) + " reference " + R::hex(ref));
  Bytes in = ref; in.push_back(0xAB); uint32_t got = 0xDEADBEEF; bool part = true;
  size_t used = PGP::PacketLengthDecode(in, true, 0, got, part);
  if (used != ref.size() || got != (uint32_t)len || part) ctx.fail("length/decode/new-format-differs-from-reference", "header " + R::hex(ref) + " (length " + N(len) + "): library consumed " + N(used) + " octets, length " + N(got) + ", partial " + N(part));
  Bytes five = R::new_len5(len); five.push_back(0xAB); got = 0; used = PGP::PacketLengthDecode(five, true, 0, got, part);
  if (used != 5 || got != (uint32_t)len || part) ctx.fail("length/decode/five-octet-form-differs-from-reference", "length " + N(len) + ": consumed " + N(used) + " length " + N(got));
  // old format length types
  { Bytes o; unsigned lt; if (len < 256) { lt = 0; o.push_back((uint8_t)len); } else if (len < 65536) { lt = 1; R::put16(o, (uint32_t)len); } else { lt = 2; R::put32(o, len); }
    size_t want = o.size(); o.push_back(0xCD); got = 0; used = PGP::PacketLengthDecode(o, false, lt, got, part);
    if (used != want || got != (uint32_t)len || part) ctx.fail("length/decode/old-format-differs-from-reference", "length " + N(len) + " length type " + N(lt) + ": consumed " + N(used) + " length " + N(got)); }
}
// a complete packet with a body of exactly `len` octets through encoder, reference and decoder
static void check_whole_packet(Ctx &ctx, unsigned tag, const Bytes &payload) {
  Bytes lib, body; std::string name;
  switch (tag) {
    case 13: name = "uid"; body = payload; PGP::PacketUidEncode(std::string(payload.begin(), payload.end()), lib); break;
    case 9: name = "sed"; body = payload; PGP::PacketSedEncode(payload, lib); break;
    case 18: name = "seipd"; body = R::seipd_body(payload); PGP::PacketSeipdEncode(payload, lib); break;
    default: name = "literal"; tag = 11; set_vnow((long)(payload.size() % 100000)); body = R::literal_body(0x62, "", (uint32_t)(1790000000UL + payload.size() % 100000), payload); PGP::PacketLitEncode(payload, lib); break;
  }
  Bytes ref = R::packet(tag, body);
  if (!same(ctx, "packet/" + name + "/encode-differs-from-reference", name + " packet with body of " + N(body.size()) + " octets", lib, ref)) return;
  bool decodable = !(payload.empty() && tag != 13);
  if (!decodable) return;
  Bytes trailer = R::packet(13, Bytes(1, 'x')), in = R::cat(lib, trailer);
  Dec d(in);
  if (d.ret != tag) { ctx.fail("packet/" + name + "/own-packet-not-decoded", "PacketDecode returned " + N(d.ret) + " for a " + name + " packet with body of " + N(body.size()) + " octets, header " + R::hex(Bytes(lib.begin(), lib.begin() + std::min<size_t>(6, lib.size())))); return; }
  Bytes got;
  if (tag == 13) got = arr(d.c.uiddata, d.c.uiddatalen); else if (tag == 11) got = arr(d.c.data, d.c.datalen); else got = arr(d.c.encdata, d.c.encdatalen);
  same(ctx, "packet/" + name + "/decoded-content-differs", name + " content after decode", got, payload);
  if (tag == 11 && (d.c.dataformat != 0x62 || d.c.datafilenamelen != 0 || d.c.datatime != (uint32_t)(1790000000UL + payload.size() % 100000))) ctx.fail("packet/literal/decoded-fields-differ", "format " + N(d.c.dataformat) + " name length " + N(d.c.datafilenamelen) + " time " + N(d.c.datatime));
  if (tag == 18 && d.c.version != 1) ctx.fail("packet/seipd/decoded-fields-differ", "version " + N(d.c.version));
  if (!d.c.newformat || d.c.tag != tag) ctx.fail("packet/" + name + "/decoded-header-differs", "newformat " + N(d.c.newformat) + " tag " + N(d.c.tag));
  same(ctx, "packet/decode/current-packet-differs", "current_packet", d.cur, lib);
  same(ctx, "packet/decode/consumed-too-much-or-too-little", "remaining input", d.rest, trailer);
  Bytes ex; unsigned t = PGP::PacketBodyExtract(lib, 0, ex);
  if (t != tag || ex != body) ctx.fail("packet/body-extract/differs-from-reference", name + " body " + N(body.size()) + " octets: returned tag " + N(t) + ", " + N(ex.size()) + " octets");
}
VF_ENUM(packet_lengths, 38, 38) { // index < 35: one boundary length; 35: every length 0..9000; 36: every tag; 37: partial headers
  size_t i = ctx.c.raw();
  if (i < N_LENB) {
    uint64_t len = LEN_BOUNDARIES[i]; check_length_header(ctx, len);
    ctx.desc << "body length " << len; ctx.nontrivial("len" + N(len));
    if (len <= 70000) { // whole packets whose BODY has exactly this length
      static const unsigned tags[] = {13, 9, 18, 11};
      for (unsigned t : tags) { size_t overhead = t == 18 ? 1 : (t == 11 ? 6 : 0); if (len < overhead) continue; check_whole_packet(ctx, t, content(ctx, (size_t)len - overhead)); }
      ctx.label("boundary length with whole packets"); ctx.desc << " (uid, sed, seipd, literal packets)";
    } else ctx.label("boundary length, header only");
    ctx.label(len <= 191 ? "one-octet form" : (len <= 8383 ? "two-octet form" : "five-octet form"));
  } else if (i == N_LENB) {
    for (uint64_t len = 0; len <= 9000 && !ctx.failed; len++) check_length_header(ctx, len);
    ctx.count("lengths_checked", 9001); ctx.label("exhaustive: every length 0..9000 (header)"); ctx.desc << "all lengths 0..9000"; ctx.nontrivial("sweep");
  } else if (i == N_LENB + 1) {
    for (unsigned t = 0; t < 64; t++) { Bytes o; PGP::PacketTagEncode(t, o); if (o.size() != 1 || o[0] != R::new_tag(t)) ctx.fail("tag/encode/differs-from-reference", "tag " + N(t) + ": library " + R::hex(o)); }
    ctx.label("exhaustive: every packet tag 0..63"); ctx.desc << "all tags"; ctx.nontrivial("tags");
  } else {
    for (unsigned e = 0; e <= 30; e++) { Bytes in; in.push_back(224 + e); in.push_back(0); uint32_t got = 0; bool part = false; size_t used = PGP::PacketLengthDecode(in, true, 0, got, part);
      if (used != 1 || !part || got != (1u << e)) ctx.fail("length/decode/partial-header-differs-from-reference", "octet " + N(224 + e) + ": consumed " + N(used) + " length " + N(got) + " partial " + N(part)); }
    ctx.label("exhaustive: every partial body length header"); ctx.desc << "partial headers 224..254"; ctx.nontrivial("partial");
  }
}
// reference-built packets in every length form the RFC allows, decoded by the library
VF_SUB(packet_forms_decode, 3000, 60000) {
  static const unsigned tags[] = {8, 9, 11, 13, 17, 18, 20};
  unsigned tag = tags[ctx.c.index(7)]; size_t L;
  switch (ctx.c.weighted({4, 3, 2, 1})) { case 0: L = (size_t)ctx.c.range(1, 300); break; case 1: { static const size_t b[] = {191, 192, 255, 256, 512, 8383, 8384, 65535, 65536}; L = b[ctx.c.index(9)] + (size_t)ctx.c.range(0, 4) - 2; break; }
    case 2: L = (size_t)ctx.c.small(300, 20000); break; default: L = (size_t)ctx.c.small(20000, 70000); break; }
  std::string cc; Bytes payload = content(ctx, L, &cc), body; std::string fname; unsigned fmt = 0x62, comp = 0, sym = 0, aead = 0, chunk = 0; uint32_t date = 0; Bytes iv;
  switch (tag) {
    case 8: comp = (unsigned)ctx.c.index(4); body.push_back(comp); R::put(body, payload); break;
    case 11: { static const unsigned f[] = {0x62, 0x74, 0x75}; fmt = f[ctx.c.index(3)]; fname = ctx.c.coin() ? "" : (ctx.c.coin() ? "_CONSOLE" : text(ctx, (size_t)ctx.c.range(1, 255))); date = ctx.c.raw(); body = R::literal_body(fmt, fname, date, payload); break; }
    case 17: if (payload.size() < 2) payload.resize(2, 1); body = payload; break;
    case 18: body = R::seipd_body(payload); break;
    case 20: { static const unsigned s[] = {7, 8, 9, 10, 11, 13}; sym = s[ctx.c.index(6)]; aead = 1 + (unsigned)ctx.c.index(2); chunk = (unsigned)ctx.c.range(0, 56); iv = content(ctx, aead == 1 ? 16 : 15); body = R::aead_body(sym, aead, chunk, iv, payload); break; }
    default: body = payload; break;
  }
  // length form
  Bytes pkt; std::string form; bool last = false, newfmt = true; bool can_old = tag < 16, can_partial = (tag == 8 || tag == 9 || tag == 11 || tag == 18) && body.size() >= 512;
  size_t f = ctx.c.weighted({3, 2, (unsigned)(can_old ? 3 : 0), (unsigned)(can_old ? 1 : 0), (unsigned)(can_partial ? 4 : 0)});
  if (f == 0) { form = "new, minimal"; pkt = R::packet(tag, body); }
  else if (f == 1) { form = "new, five-octet"; pkt = R::packet_len5(tag, body); }
  else if (f == 2) { unsigned lt = body.size() < 256 ? (unsigned)ctx.c.index(3) : (body.size() < 65536 ? 1 + (unsigned)ctx.c.index(2) : 2); form = "old, length type " + N(lt); newfmt = false; pkt = R::old_packet(tag, body, lt); }
  else if (f == 3) { form = "old, indeterminate"; newfmt = false; last = true; pkt = R::old_packet(tag, body, 3); }
  else { form = "partial body lengths"; std::vector<unsigned> ex; size_t left = body.size(); unsigned maxe = 0; while (((size_t)2 << maxe) <= left && maxe < 16) maxe++;
    unsigned e0 = (unsigned)ctx.c.range(9, maxe < 9 ? 9 : maxe); ex.push_back(e0); left -= (size_t)1 << e0; unsigned n = (unsigned)ctx.c.range(0, 6);
    for (unsigned k = 0; k < n && left; k++) { unsigned me = 0; while (((size_t)2 << me) <= left) me++; unsigned e = (unsigned)ctx.c.range(0, me); ex.push_back(e); left -= (size_t)1 << e; }
    pkt = R::partial_packet(tag, body, ex); form += " (" + N(ex.size()) + " partial chunks, final " + N(left) + ")"; ctx.label(left == 0 ? "partial: empty final chunk" : "partial: non-empty final chunk"); }
  Bytes trailer = last ? Bytes() : R::packet(13, Bytes(1, 'x'));
  ctx.desc << "tag " << tag << ", body " << body.size() << " octets (" << cc << "), " << form; ctx.label("tag " + N(tag)); ctx.label("form: " + form.substr(0, form.find(" (")));
  Dec d(R::cat(pkt, trailer));
  if (d.ret != tag) { ctx.fail("packet/decode/valid-reference-packet-refused", "PacketDecode returned " + N(d.ret) + " for " + ctx.desc.str() + " header " + R::hex(Bytes(pkt.begin(), pkt.begin() + std::min<size_t>(8, pkt.size())))); return; }
  if (d.c.tag != tag || d.c.newformat != newfmt || d.c.indetlen != last) ctx.fail("packet/decode/header-fields-differ", "tag " + N(d.c.tag) + " newformat " + N(d.c.newformat) + " indeterminate " + N(d.c.indetlen) + " for " + ctx.desc.str());
  Bytes got; std::string fields;
  switch (tag) {
    case 8: got = arr(d.c.compdata, d.c.compdatalen); if (d.c.compalgo != (int)comp) fields = "compression algorithm " + N(d.c.compalgo); break;
    case 9: got = arr(d.c.encdata, d.c.encdatalen); break;
    case 11: got = arr(d.c.data, d.c.datalen); if (d.c.dataformat != fmt || d.c.datatime != date || std::string((const char *)d.c.datafilename, d.c.datafilenamelen) != fname) fields = "format " + N(d.c.dataformat) + " date " + N(d.c.datatime) + " file name length " + N(d.c.datafilenamelen); break;
    case 13: got = arr(d.c.uiddata, d.c.uiddatalen); break;
    case 17: got = arr(d.c.uatdata, d.c.uatdatalen); break;
    case 18: got = arr(d.c.encdata, d.c.encdatalen); if (d.c.version != 1) fields = "version " + N(d.c.version); break;
    default: got = arr(d.c.encdata, d.c.encdatalen); if (d.c.version != 1 || d.c.skalgo != (int)sym || d.c.aeadalgo != (int)aead || d.c.chunksize != chunk || arr(d.c.iv, iv.size()) != iv) fields = "version " + N(d.c.version) + " cipher " + N(d.c.skalgo) + " aead " + N(d.c.aeadalgo) + " chunk " + N(d.c.chunksize); break;
  }
  same(ctx, "packet/decode/content-differs-from-reference-input", "content of tag " + N(tag), got, payload);
  if (!fields.empty()) ctx.fail("packet/decode/fields-differ-from-reference-input", fields + " for " + ctx.desc.str());
  same(ctx, "packet/decode/current-packet-differs", "current_packet", d.cur, pkt);
  same(ctx, "packet/decode/consumed-too-much-or-too-little", "remaining input", d.rest, trailer);
  Bytes ex; unsigned t = PGP::PacketBodyExtract(pkt, 0, ex);
  if (t != tag || ex != body) ctx.fail("packet/body-extract/differs-from-reference", ctx.desc.str() + ": returned tag " + N(t) + ", " + N(ex.size()) + " octets");
  ctx.nontrivial(N(tag) + form + N(body.size()) + N(R::crc24(body)));
}

// ---------------------------------------------------------------------------
// (4) multiprecision integers
static void check_mpi(Ctx &ctx, const Z &v, bool secure_too) {
  Mpi g(v); Bytes ref = R::mpi(v), lib; size_t sum = 7;
  PGP::PacketMPIEncode(g, lib, sum);
  if (lib != ref) ctx.fail("mpi/encode/differs-from-reference", "value " + S(v) + ": library " + R::hex(lib) + " reference " + R::hex(ref));
  if (sum != ((7 + R::sum16(ref)) & 0xFFFF)) ctx.fail("mpi/encode/checksum-differs", "value " + S(v) + ": sum " + N(sum));
  Bytes in = ref; in.push_back(0x5A); in.push_back(0xA5);
  gcry_mpi_t out = NULL; size_t sum2 = 0; size_t used = PGP::PacketMPIDecode(in, out, sum2);
  if (used != ref.size() || fromG(out) != v) ctx.fail("mpi/decode/differs-from-reference", "encoding " + R::hex(ref) + ": consumed " + N(used) + ", value " + S(fromG(out)));
  else if (sum2 != R::sum16(ref)) ctx.fail("mpi/decode/checksum-differs", "encoding " + R::hex(ref) + ": sum " + N(sum2));
  gcry_mpi_release(out);
  if (secure_too) {
    tmcg_openpgp_secure_octets_t so; size_t s3 = 0; PGP::PacketMPIEncode(g, so, s3); Bytes sb(so.begin(), so.end());
    if (sb != ref || s3 != R::sum16(ref)) ctx.fail("mpi/encode-secure/differs-from-reference", "value " + S(v) + ": library " + R::hex(sb) + " reference " + R::hex(ref));
    if (v == 0) return; // the secure-memory decoder refuses the zero MPI it encodes: judged once in edge_cases
    gcry_mpi_t o2 = gcry_mpi_new(8); size_t s4 = 0; size_t u2 = PGP::PacketMPIDecode(so, o2, s4);
    if (u2 != ref.size() || fromG(o2) != v || s4 != R::sum16(ref)) ctx.fail("mpi/decode-secure/differs-from-reference", "encoding " + R::hex(ref) + ": consumed " + N(u2));
    gcry_mpi_release(o2);
  }
}
VF_ENUM(mpi_small_integers, 18, 18) { // index k: every integer in [4096k, 4096(k+1)); 17: 2^n-1, 2^n, 2^n+1 for n <= 4200
  size_t k = ctx.c.raw();
  if (k < 17) { for (unsigned long v = 4096 * k; v < 4096 * (k + 1) && !ctx.failed; v++) check_mpi(ctx, Z(v), v % 64 == 0); ctx.count("integers_checked", 4096); ctx.label("exhaustive: every integer 0..69631"); ctx.desc << "integers " << 4096 * k << ".." << 4096 * (k + 1) - 1; }
  else { for (unsigned n = 0; n <= 4200 && !ctx.failed; n++) { Z p = Z(1) << n; check_mpi(ctx, p - 1, false); check_mpi(ctx, p, n % 16 == 0); check_mpi(ctx, p + 1, false); } ctx.count("integers_checked", 3 * 4201); ctx.label("exhaustive: 2^n-1, 2^n, 2^n+1 for n <= 4200"); ctx.desc << "powers of two and neighbours"; }
  ctx.nontrivial("k" + N(k));
}
VF_SUB(mpi_codec, 4000, 80000) {
  std::string cls; Z v = gen_int(ctx, ctx.thorough ? 16384 : 8192, &cls); size_t bits = R::zbits(v);
  ctx.desc << cls << ", " << bits << " bits: " << S(v); ctx.label(cls); ctx.label("bit length mod 8 = " + N(bits % 8));
  check_mpi(ctx, v, bits <= 4096);
  // non-canonical input: the declared bit count covers leading zero bits / octets; the decoder must consume
  // ceil(bits/8) octets and deliver the numeric value
  unsigned extra = (unsigned)ctx.c.range(1, 40); size_t dbits = bits + extra; if (dbits <= 65535) {
    Bytes mag = R::be_octets(v), in; R::put16(in, (uint32_t)dbits); size_t n = (dbits + 7) / 8; in.insert(in.end(), n - mag.size(), 0); R::put(in, mag); size_t want = in.size(); in.push_back(0x77);
    gcry_mpi_t out = NULL; size_t used = PGP::PacketMPIDecode(in, out);
    if (used != want || fromG(out) != v) ctx.fail("mpi/decode/leading-zero-form-differs-from-reference", "encoding " + R::hex(in) + ": consumed " + N(used) + " (expected " + N(want) + "), value " + S(fromG(out)) + " expected " + S(v));
    if (out) { Bytes re; PGP::PacketMPIEncode(out, re); if (re != R::mpi(v)) ctx.fail("mpi/encode/not-canonical-after-decode", "re-encoded " + R::hex(re)); }
    gcry_mpi_release(out); ctx.label(n > mag.size() ? "decode: leading zero octets" : "decode: leading zero bits only");
  }
  if (cls != "random" || bits > 2048) ctx.nontrivial(cls + v.get_str(62));
}

// ---------------------------------------------------------------------------
// (5) string-to-key
static const unsigned S2K_HASHES[] = {2, 8, 9, 10, 1, 3, 11, 12, 14}; // SHA-1, SHA-256, SHA-384, SHA-512, MD5, RIPEMD-160, SHA-224, SHA3-256, SHA3-512
static const char *hash_name(unsigned h) { switch (h) { case 1: return "MD5"; case 2: return "SHA-1"; case 3: return "RIPEMD-160"; case 8: return "SHA-256"; case 9: return "SHA-384"; case 10: return "SHA-512"; case 11: return "SHA-224"; case 12: return "SHA3-256"; case 14: return "SHA3-512"; } return "?"; }
static void check_s2k(Ctx &ctx, unsigned hash, bool iterated, unsigned c, const Bytes &salt, const std::string &pass, size_t keylen) {
  tmcg_openpgp_secure_octets_t out; PGP::S2KCompute((tmcg_openpgp_hashalgo_t)hash, keylen, sec(pass), salt, iterated, (tmcg_openpgp_byte_t)c, out);
  Bytes lib(out.begin(), out.end()), ref = R::s2k(hash, iterated ? 3 : 1, salt, c, pass, keylen);
  if (lib != ref) ctx.fail(std::string("s2k/") + (iterated ? "iterated" : "salted") + "/differs-from-reference",
    std::string(hash_name(hash)) + " count octet " + N(c) + " (" + N(R::s2k_count(c)) + " octets) key length " + N(keylen) + " salt " + R::hex(salt) + " passphrase (" + N(pass.size()) + " chars) " + jstr(pass.substr(0, 40)) + ": library " + R::hex(lib) + " reference " + R::hex(ref));
}
static unsigned bitrev8(unsigned x) { unsigned r = 0; for (int i = 0; i < 8; i++) if (x & (1u << i)) r |= 0x80u >> i; return r; }
VF_ENUM(s2k_all_count_octets, 1024, 2304) { // index = hash (4 quick / 9 thorough) x count octet (all 256, bit-reversed order to spread the cost)
  size_t i = ctx.c.raw(); unsigned hash = S2K_HASHES[i / 256], c = bitrev8((unsigned)(i % 256));
  size_t dlen = gcry_md_get_algo_dlen(R::gcry_hash_id(hash)); size_t keylen = (size_t)ctx.c.range(1, 64);
  if (c >= 0xD0 && keylen >= dlen) keylen = (size_t)ctx.c.range(1, dlen - 1); // one hash instance (plus the library's spare one) for the expensive counts
  Bytes salt = content(ctx, 8); std::string pass = text(ctx, (size_t)ctx.c.range(0, 40), true);
  ctx.desc << hash_name(hash) << ", count octet " << c << " = " << R::s2k_count(c) << " octets, key length " << keylen << ", passphrase " << pass.size() << " chars";
  ctx.label(hash_name(hash)); ctx.label("count exponent " + N(c >> 4)); ctx.label(keylen > dlen ? "key longer than digest" : (keylen == dlen ? "key = digest length" : "key shorter than digest"));
  check_s2k(ctx, hash, true, c, salt, pass, keylen); ctx.nontrivial(N(hash) + "/" + N(c));
}
VF_SUB(s2k_sampled, 4000, 80000) {
  unsigned hash = S2K_HASHES[ctx.c.index(9)]; bool iterated = ctx.c.prob(2, 3); size_t keylen = (size_t)ctx.c.range(1, 64); size_t dlen = gcry_md_get_algo_dlen(R::gcry_hash_id(hash));
  if (ctx.c.prob(1, 4)) { size_t m = (size_t)ctx.c.range(1, 64 / dlen ? 64 / dlen : 1) * dlen; keylen = m + (size_t)ctx.c.range(0, 2) - 1; if (keylen < 1) keylen = 1; if (keylen > 64) keylen = 64; }
  unsigned c; std::string pcls; std::string pass;
  switch (ctx.c.weighted({4, 2, 1, 1})) {
    case 0: pcls = "short passphrase"; pass = text(ctx, (size_t)ctx.c.range(0, 64), true); c = (unsigned)ctx.c.range(0, 0x7F); break;
    case 1: pcls = "empty passphrase"; c = (unsigned)ctx.c.range(0, 0x9F); break;
    case 2: { pcls = "passphrase longer than the count"; c = (unsigned)ctx.c.range(0, 15); size_t n = R::s2k_count(c) - 8 + (size_t)ctx.c.range(0, 900) - 2; pass = std::string(n, 'p'); for (size_t k = 0; k < n; k += 7) pass[k] = (char)('a' + (k / 7) % 26); break; }
    default: pcls = "binary passphrase"; { Bytes b = content(ctx, (size_t)ctx.c.range(1, 200)); pass.assign(b.begin(), b.end()); } c = (unsigned)ctx.c.small(0, 0xBF); break;
  }
  Bytes salt = content(ctx, 8);
  ctx.desc << hash_name(hash) << (iterated ? ", iterated+salted, count octet " + N(c) : std::string(", salted")) << ", key length " << keylen << ", " << pcls << " (" << pass.size() << ")";
  ctx.label(hash_name(hash)); ctx.label(iterated ? "iterated+salted" : "salted"); ctx.label(pcls); ctx.label(keylen > dlen ? "key longer than digest" : (keylen == dlen ? "key = digest length" : "key shorter than digest"));
  check_s2k(ctx, hash, iterated, c, salt, pass, keylen);
  if (ctx.c.prob(1, 16)) { // documented: nothing is derived unless the salt has 8 octets
    Bytes bad = content(ctx, ctx.c.coin() ? 7 : 9); tmcg_openpgp_secure_octets_t out; PGP::S2KCompute((tmcg_openpgp_hashalgo_t)hash, keylen, sec(pass), bad, iterated, (tmcg_openpgp_byte_t)c, out);
    if (!out.empty()) ctx.fail("s2k/salt-of-wrong-size-accepted", "salt of " + N(bad.size()) + " octets produced " + N(out.size()) + " key octets"); ctx.label("salt of wrong size refused");
  }
  ctx.nontrivial(N(hash) + N(iterated) + N(c) + N(keylen) + pass.substr(0, 64) + R::hex(salt));
}

// ---------------------------------------------------------------------------
// (6) fingerprints and key identifiers
VF_SUB(fingerprint_keyid, 3000, 60000) {
  size_t L; std::string lc;
  switch (ctx.c.weighted({4, 3, 2, 1})) { case 0: L = (size_t)ctx.c.range(6, 600); lc = "6..600"; break; case 1: { static const size_t b[] = {255, 256, 257, 511, 512, 65279, 65280, 65535}; L = b[ctx.c.index(8)]; lc = "length octet boundary"; break; }
    case 2: L = (size_t)ctx.c.small(600, 65535); lc = "600..65535"; break; default: L = (size_t)ctx.c.range(0, 5); lc = "0..5"; break; }
  std::string cc; Bytes body = content(ctx, L, &cc); if (L >= 6 && ctx.c.coin()) { body[0] = 4; body[5] = 17; }
  ctx.desc << "key packet body of " << L << " octets (" << cc << ")"; ctx.label("length " + lc);
  Bytes f4, k4, f5, k5; PGP::FingerprintCompute(body, f4); PGP::KeyidCompute(body, k4); PGP::FingerprintComputeV5(body, f5); PGP::KeyidComputeV5(body, k5);
  same(ctx, "fingerprint/v4/differs-from-reference", "v4 fingerprint", f4, R::fingerprint_v4(body));
  same(ctx, "keyid/v4/differs-from-reference", "v4 key id", k4, R::keyid_v4(body));
  same(ctx, "fingerprint/v5/differs-from-reference", "v5 fingerprint", f5, R::fingerprint_v5(body));
  same(ctx, "keyid/v5/differs-from-reference", "v5 key id", k5, R::keyid_v5(body));
  std::string hx, want; PGP::FingerprintConvertPlain(f4, hx); for (uint8_t b : f4) { char t[3]; snprintf(t, 3, "%02X", b); want += t; }
  if (hx != want) ctx.fail("fingerprint/convert-plain/not-upper-case-hex", hx + " vs " + want);
  ctx.nontrivial(N(L) + R::hex(f4));
}
