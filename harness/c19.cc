// C19 — OpenPGP encodings conform to the standard and round-trip.
// Oracle: lib/refpgp.hh (independent reference written from RFC 4880 / RFC 6637 /
// rfc4880bis-06), second judge: gpg --list-packets.  The library's decoder is fed
// only well-formed library/reference output plus the named armor defect classes.
#include "fix.hh"
#include "refpgp.hh"
#include <dirent.h>
using namespace vf;
namespace R = refpgp;
typedef CallasDonnerhackeFinneyShawThayerRFC4880 PGP;
typedef R::Bytes Bytes; // identical to tmcg_openpgp_octets_t (std::vector<uint8_t>)
const char *vf::PROPERTY = "C19";
void vf::harness_init() {
  std::string e = R::selftest();
  if (!e.empty()) { fprintf(stderr, "refpgp self test failed: %s\n", e.c_str()); abort(); }
}

// ---------------------------------------------------------------------------
// helpers
static std::string N(uint64_t v) { return std::to_string(v); }
static Bytes content(Ctx &ctx, size_t n, std::string *cls = nullptr) { // n octets from the choice sequence
  Bytes b(n); std::string c;
  if (n <= 48) { c = "drawn"; for (size_t i = 0; i < n; i++) b[i] = (uint8_t)ctx.c.raw(); }
  else switch (ctx.c.weighted({1, 1, 1, 6, 1})) {
    case 0: c = "zeros"; break;
    case 1: c = "ones"; std::fill(b.begin(), b.end(), 0xFF); break;
    case 2: { c = "ramp"; unsigned s = ctx.c.raw(); for (size_t i = 0; i < n; i++) b[i] = (uint8_t)(s + i); break; }
    case 3: { c = "random"; uint64_t s = ctx.c.raw64(); for (size_t i = 0; i < n; i += 8) { uint64_t r = mix64(s + i); for (size_t k = 0; k < 8 && i + k < n; k++) b[i + k] = (uint8_t)(r >> (8 * k)); } break; }
    default: { c = "few-values"; static const uint8_t vals[] = {0x00, 0x3F, 0x40, 0xFB, 0xFC, 0xFF, 0x0D, 0x0A, 0x2D, 0x3D}; uint64_t s = ctx.c.raw64(); for (size_t i = 0; i < n; i++) b[i] = vals[mix64(s + i) % 10]; break; }
  }
  if (cls) *cls = c; return b;
}
static std::string text(Ctx &ctx, size_t n, bool utf8 = false) { // printable text
  std::string s; for (size_t i = 0; i < n; i++) { unsigned r = ctx.c.raw(); if (utf8 && r % 11 == 0) s += "\xC3\xA4"; else s += (char)(0x20 + r % 95); } return s;
}
struct Mpi { // gcry_mpi_t with the value of a Z
  gcry_mpi_t m;
  explicit Mpi(const Z &v) : m(NULL) { Bytes b = R::be_octets(v); if (b.empty()) { m = gcry_mpi_new(8); gcry_mpi_set_ui(m, 0); } else gcry_mpi_scan(&m, GCRYMPI_FMT_USG, b.data(), b.size(), NULL); }
  ~Mpi() { gcry_mpi_release(m); }
  operator gcry_mpi_t() const { return m; }
private: Mpi(const Mpi &); Mpi &operator=(const Mpi &);
};
static Z fromG(gcry_mpi_t g) {
  if (!g) return Z(-1); size_t n = (gcry_mpi_get_nbits(g) + 7) / 8; Bytes b(n ? n : 1); size_t w = 0;
  if (gcry_mpi_print(GCRYMPI_FMT_USG, b.data(), b.size(), &w, g)) return Z(-2); b.resize(w); return R::from_be(b);
}
static Z gen_int(Ctx &ctx, unsigned maxbits, std::string *cls = nullptr, bool nonzero = false) {
  Z v; std::string c; unsigned k = (unsigned)ctx.c.small(1, maxbits);
  switch (ctx.c.weighted({1, 1, 2, 2, 1, 2, 5})) {
    case 0: v = 0; c = "zero"; break;
    case 1: v = 1; c = "one"; break;
    case 2: v = Z(1) << k; c = "2^k"; break;
    case 3: v = (Z(1) << k) - 1; c = "2^k-1"; break;
    case 4: v = (Z(1) << k) + 1; c = "2^k+1"; break;
    case 5: { unsigned by = (unsigned)ctx.c.range(1, (maxbits + 7) / 8); v = zrand_bits(ctx, 8 * by); if (ctx.c.coin()) mpz_setbit(v.get_mpz_t(), 8 * by - 1); else { v >>= 7; } c = "octet-boundary"; break; }
    default: v = zrand_bits(ctx, k); c = "random"; break;
  }
  if (nonzero && v == 0) { v = 1; c = "one"; }
  if (cls) *cls = c; return v;
}
static std::string diff(const Bytes &lib, const Bytes &ref) {
  size_t d = R::first_diff(lib, ref); std::ostringstream o;
  o << "library (" << lib.size() << " octets) " << R::hex(Bytes(lib.begin() + (d > 8 ? d - 8 : 0), lib.end()), 40) << " vs reference (" << ref.size() << " octets) "
    << R::hex(Bytes(ref.begin() + (d > 8 ? d - 8 : 0), ref.end()), 40) << ", first difference at octet " << d << " (shown from octet " << (d > 8 ? d - 8 : 0) << ")";
  return o.str();
}
static bool same(Ctx &ctx, const std::string &sig, const std::string &what, const Bytes &lib, const Bytes &ref) {
  if (lib == ref) return true; ctx.fail(sig, what + ": " + diff(lib, ref) + " [" + ctx.desc.str() + "]"); return false;
}
static tmcg_openpgp_secure_string_t sec(const std::string &s) { tmcg_openpgp_secure_string_t p; for (size_t i = 0; i < s.size(); i++) p += s[i]; return p; }
static Bytes arr(const tmcg_openpgp_byte_t *p, size_t n) { return p ? Bytes(p, p + n) : Bytes(); }
static std::string cstr(const tmcg_openpgp_byte_t *p, size_t max) { size_t n = 0; while (n < max && p[n]) n++; return std::string((const char *)p, n); }

// one PacketDecode call with its context
struct Dec {
  tmcg_openpgp_packet_ctx_t c; Bytes cur, rest; tmcg_openpgp_notations_t notations; tmcg_openpgp_multiple_octets_t esigs, rfprs; unsigned ret;
  explicit Dec(const Bytes &in) : rest(in) { PGP::MemoryGuardReset(); ret = PGP::PacketDecode(rest, 0, c, cur, notations, esigs, rfprs); }
  ~Dec() { PGP::PacketContextRelease(c); }
private: Dec(const Dec &); Dec &operator=(const Dec &);
};

// ---------------------------------------------------------------------------
// (1) Radix-64 and CRC-24
static void check_radix64(Ctx &ctx, const Bytes &data, bool full) {
  std::string ref = R::b64(data), nb, lb;
  PGP::Radix64Encode(data, nb, false); PGP::Radix64Encode(data, lb, true);
  std::string where = "input (" + N(data.size()) + " octets) " + R::hex(data, 24);
  if (nb != ref) ctx.fail("radix64/encode/differs-from-reference", where + ": library '" + nb.substr(0, 80) + "' reference '" + ref.substr(0, 80) + "' first difference at character " + N(R::first_diff(nb, ref)));
  std::string stripped; size_t line = 0, maxline = 0; bool lonecr = false;
  for (size_t i = 0; i < lb.size(); i++) {
    if (lb[i] == '\r') { if (i + 1 >= lb.size() || lb[i + 1] != '\n') lonecr = true; continue; }
    if (lb[i] == '\n') { line = 0; continue; }
    stripped += lb[i]; if (++line > maxline) maxline = line;
  }
  if (stripped != ref) ctx.fail("radix64/encode-linebreaks/differs-from-reference-after-removing-line-breaks", where + ": first difference at character " + N(R::first_diff(stripped, ref)) + " library '" + stripped.substr(0, 80) + "'");
  if (maxline > 76) ctx.fail("radix64/encode-linebreaks/line-longer-than-76-characters", where + ": longest line " + N(maxline));
  if (lonecr) ctx.fail("radix64/encode-linebreaks/carriage-return-without-line-feed", where);
  Bytes d1; PGP::Radix64Decode(lb, d1);
  if (d1 != data) ctx.fail("radix64/decode/own-output-not-recovered", where + ": " + diff(d1, data));
  Bytes c; PGP::CRC24Compute(data, c);
  if (c != R::crc24_octets(data)) ctx.fail("crc24/compute/differs-from-reference", where + ": library " + R::hex(c) + " reference " + R::hex(R::crc24_octets(data)));
  if (full) {
    Bytes d2; if (data.size() <= 6000 || ctx.c.prob(1, 4)) PGP::Radix64Decode(R::wrap(ref, 76, "\n"), d2); else d2 = data;
    if (d2 != data) ctx.fail("radix64/decode/reference-text-76-columns-not-recovered", where + ": " + diff(d2, data));
    size_t w = (size_t)ctx.c.range(1, 76); Bytes d3; PGP::Radix64Decode(R::wrap(ref, w, ctx.c.coin() ? "\r\n" : "\n"), d3);
    if (d3 != data) ctx.fail("radix64/decode/reference-text-not-recovered", where + " width " + N(w) + ": " + diff(d3, data));
    std::string ce; PGP::CRC24Encode(data, ce);
    if (ce != R::crc24_text(data)) ctx.fail("crc24/encode/differs-from-reference", where + ": library '" + ce + "' reference '" + R::crc24_text(data) + "'");
    if (lb.find('\n') != std::string::npos) ctx.label("library line width " + N(maxline));
  }
}
static std::string wrap_class(size_t L) {
  size_t m48 = L % 48, m57 = L % 57;
  if (L >= 46 && (m48 <= 2 || m48 >= 46)) return "within 2 octets of a 64-column wrap (multiple of 48 octets)";
  if (L >= 55 && (m57 <= 2 || m57 >= 55)) return "within 2 octets of a 76-column wrap (multiple of 57 octets)";
  return "between wrap boundaries";
}
VF_ENUM(radix64_lengths, 233, 233) { // work items (index permuted to spread the cost): 0..200 = that length; 201..216 = ALL strings of length <= 2; 217..232 = 3-octet groups
  size_t i = ((size_t)ctx.c.raw() * 7) % 233;
  if (i <= 200) {
    size_t L = i; bool boundary = wrap_class(L)[0] == 'w'; unsigned nrand = boundary ? 40 : 8; uint64_t n = 0;
    Bytes b(L, 0); check_radix64(ctx, b, true); n++;
    std::fill(b.begin(), b.end(), 0xFF); check_radix64(ctx, b, true); n++;
    for (size_t k = 0; k < L; k++) b[k] = (uint8_t)(k * 37 + 11); check_radix64(ctx, b, true); n++;
    for (unsigned r = 0; r < nrand && !ctx.failed; r++) { uint64_t s = ctx.c.raw64(); for (size_t k = 0; k < L; k++) b[k] = (uint8_t)(mix64(s + k / 8) >> (8 * (k % 8))); check_radix64(ctx, b, r < 4); n++; }
    ctx.count("strings_checked", n); ctx.label(wrap_class(L)); ctx.desc << "length " << L << ": " << n << " strings"; ctx.nontrivial("L" + N(L));
  } else if (i <= 216) {
    unsigned hi = (unsigned)(i - 201); uint64_t n = 0; Bytes b;
    if (hi == 0) { check_radix64(ctx, b, true); n++; }
    b.resize(1); for (unsigned a = 16 * hi; a < 16 * hi + 16 && !ctx.failed; a++) { b[0] = a; check_radix64(ctx, b, false); n++; }
    b.resize(2); for (unsigned a = 4096 * hi; a < 4096 * hi + 4096 && !ctx.failed; a++) { b[0] = a >> 8; b[1] = a; check_radix64(ctx, b, false); n++; }
    ctx.count("strings_checked", n); ctx.label("exhaustive: every string of length 0..2"); ctx.desc << "all strings of length <= 2 with first octet " << 16 * hi << ".." << 16 * hi + 15; ctx.nontrivial("all<=2/" + N(hi));
  } else {
    static const uint8_t sel[16] = {0x00, 0x01, 0x0F, 0x10, 0x3F, 0x40, 0x7F, 0x80, 0xAA, 0xBF, 0xC0, 0xF0, 0xFB, 0xFC, 0xFE, 0xFF};
    unsigned hi = (unsigned)(i - 217); uint64_t n = 0; Bytes b(3);
    for (unsigned a = 16 * hi; a < 16 * hi + 16 && !ctx.failed; a++) for (unsigned x = 0; x < 16; x++) for (unsigned y = 0; y < 16; y++) { b[0] = a; b[1] = sel[x]; b[2] = sel[y]; check_radix64(ctx, b, false); b[0] = sel[x]; b[1] = a; check_radix64(ctx, b, false); b[1] = sel[y]; b[2] = a; check_radix64(ctx, b, false); n += 3; }
    ctx.count("strings_checked", n); ctx.label("3-octet groups: every value at every position"); ctx.desc << n << " three-octet strings, free octet " << 16 * hi << ".." << 16 * hi + 15; ctx.nontrivial("groups/" + N(hi));
  }
}
VF_SUB(radix64_sampled, 4000, 50000) {
  size_t L; std::string lc;
  switch (ctx.c.weighted({12, 12, 8, 6, 1})) {
    case 0: L = (size_t)ctx.c.range(0, 400); lc = "0..400"; break;
    case 1: { size_t k = (size_t)ctx.c.small(1, 1458); L = 48 * k + (size_t)ctx.c.range(0, 4) - 2; lc = "48k-2..48k+2"; break; }
    case 2: { size_t k = (size_t)ctx.c.small(1, 1228); L = 57 * k + (size_t)ctx.c.range(0, 4) - 2; lc = "57k-2..57k+2"; break; }
    case 3: L = (size_t)ctx.c.small(401, 70000); lc = "401..70000"; break;
    default: L = (size_t)ctx.c.range(60000, 70000); lc = "60000..70000"; break;
  }
  std::string cc; Bytes d = content(ctx, L, &cc);
  ctx.desc << "length " << L << " (" << lc << ", " << cc << ")"; ctx.label("length " + lc); ctx.label("content " + cc);
  check_radix64(ctx, d, true);
  if (L > 200) ctx.nontrivial(N(L) + cc + N(R::crc24(d)));
}

// ---------------------------------------------------------------------------
// (2) ASCII armor
struct AType { tmcg_openpgp_armor_t t; const char *title; bool encodes; };
static const AType ATYPES[] = {
  {TMCG_OPENPGP_ARMOR_MESSAGE, "PGP MESSAGE", true}, {TMCG_OPENPGP_ARMOR_SIGNATURE, "PGP SIGNATURE", true},
  {TMCG_OPENPGP_ARMOR_PRIVATE_KEY_BLOCK, "PGP PRIVATE KEY BLOCK", true}, {TMCG_OPENPGP_ARMOR_PUBLIC_KEY_BLOCK, "PGP PUBLIC KEY BLOCK", true},
  {TMCG_OPENPGP_ARMOR_FILE, "PGP ARMORED FILE", false}};
static std::string gen_comment(Ctx &ctx, std::string *cls) {
  switch (ctx.c.weighted({3, 3, 2, 1})) {
    case 0: *cls = "no comment"; return "";
    case 1: { *cls = "short comment"; std::string s; size_t n = (size_t)ctx.c.range(1, 20); static const char al[] = "abcdefghijklmnopqrstuvwxyzABCXYZ0123456789 .:/@_=+"; for (size_t i = 0; i < n; i++) s += al[ctx.c.index(sizeof(al) - 1)]; while (!s.empty() && s[s.size() - 1] == ' ') s.erase(s.size() - 1); if (s.empty()) s = "c"; return s; }
    case 2: { *cls = "printable comment"; std::string s = text(ctx, (size_t)ctx.c.range(1, 120)); for (size_t i = 0; i + 1 < s.size(); i++) if (s[i] == '-' && s[i + 1] == '-') s[i + 1] = '.'; while (!s.empty() && s[s.size() - 1] == ' ') s.erase(s.size() - 1); if (s.empty()) s = "c"; return s; }
    default: { *cls = "utf-8 comment"; std::string s; size_t n = (size_t)ctx.c.range(1, 30); for (size_t i = 0; i < n; i++) s += (ctx.c.coin() ? "\xC3\xBC" : "x"); return s; }
  }
}
VF_SUB(armor_roundtrip, 4000, 60000) {
  size_t ti = ctx.c.index(4); const AType &at = ATYPES[ti];
  size_t L; if (ctx.c.prob(1, 3)) { size_t k = (size_t)ctx.c.small(1, 60); L = 48 * k + (size_t)ctx.c.range(0, 4) - 2; } else L = (size_t)ctx.c.small(1, ctx.thorough ? 20000 : 6000);
  std::string cc, ccls; Bytes data = content(ctx, L, &cc); std::string comment = gen_comment(ctx, &ccls); bool version = ctx.c.prob(1, 3);
  ctx.desc << at.title << ", payload " << L << " octets (" << cc << "), " << ccls << (version ? ", version header" : "");
  ctx.label(std::string("type ") + at.title); ctx.label(ccls); ctx.label(wrap_class(L)); if (version) ctx.label("version header");
  std::string out;
  if (comment.empty() && !version && ctx.c.coin()) PGP::ArmorEncode(at.t, data, out); else PGP::ArmorEncode(at.t, comment, data, out, version);
  R::Armor a = R::armor_parse(out);
  if (!a.ok) ctx.fail("armor/encode/not-accepted-by-reference-parser", "reference parser: " + a.why + " for " + ctx.desc.str() + " armor: " + jstr(out.substr(0, 300)));
  else {
    if (a.title != at.title) ctx.fail("armor/encode/wrong-header-line", "title '" + a.title + "' for " + ctx.desc.str());
    R::Headers want; if (version) want.push_back(std::make_pair(std::string("Version"), std::string())); if (!comment.empty()) want.push_back(std::make_pair(std::string("Comment"), comment));
    bool hok = a.headers.size() == want.size();
    for (size_t i = 0; hok && i < want.size(); i++) { if (a.headers[i].first != want[i].first) hok = false; if (want[i].first == "Comment" && a.headers[i].second != comment) hok = false; if (want[i].first == "Version" && a.headers[i].second.empty()) hok = false; }
    if (!hok) ctx.fail("armor/encode/armor-headers-differ", ctx.desc.str() + " armor: " + jstr(out.substr(0, 300)));
    same(ctx, "armor/encode/payload-differs-from-input", "payload decoded by the reference", a.data, data);
    if (!a.has_crc) ctx.fail("armor/encode/no-checksum-line", ctx.desc.str());
    ctx.label("library armor line width " + N(a.max_line));
  }
  { Bytes back; tmcg_openpgp_armor_t t = PGP::ArmorDecode(out, back);
    if (t != at.t || back != data) ctx.fail("armor/decode/own-armor-not-recovered", "ArmorDecode returned type " + N(t) + " payload " + N(back.size()) + " octets for " + ctx.desc.str() + (t == at.t ? " " + diff(back, data) : "")); }
  // valid armor assembled by the reference in forms the RFC allows
  size_t v = ctx.c.index(5); if (v == 1 && L < 4) v = 0; // (a checksum-less MESSAGE armor of <= 3 octets trips the library's fixed "+33" skip: outside the emitted domain)
  const AType &rt = (v == 4) ? ATYPES[4] : at; std::string vname, ra; R::Headers h; if (!comment.empty()) h.push_back(std::make_pair(std::string("Comment"), comment));
  switch (v) {
    case 0: vname = "LF line ends, 76 columns"; ra = R::armor_build(rt.title, h, data, 76, "\n"); break;
    case 1: vname = "no checksum line"; ra = R::armor_build(rt.title, h, data, 64, "\r\n", false); break;
    case 2: vname = "text before and after the block"; ra = "Some text before.\r\nMore: text\r\n" + R::armor_build(rt.title, h, data, 64, "\r\n") + "trailing text\r\n"; break;
    case 3: vname = "several armor headers"; h.push_back(std::make_pair(std::string("Hash"), std::string("SHA256"))); h.push_back(std::make_pair(std::string("Charset"), std::string("UTF-8"))); ra = R::armor_build(rt.title, h, data, (size_t)(4 * ctx.c.range(1, 19)), "\r\n"); break;
    default: vname = "armored file (decode only type)"; ra = R::armor_build(rt.title, h, data, 64, "\n"); break;
  }
  ctx.label("reference armor: " + vname);
  { Bytes back; tmcg_openpgp_armor_t t = PGP::ArmorDecode(ra, back);
    if (t != rt.t || back != data) ctx.fail("armor/decode/valid-reference-armor-not-recovered", vname + ": ArmorDecode returned type " + N(t) + " payload " + N(back.size()) + " octets for " + ctx.desc.str()); }
  ctx.nontrivial(N(ti) + comment + N(version) + N(L) + N(R::crc24(data)) + N(v));
}
VF_SUB(armor_negative, 6000, 120000) {
  size_t ti = ctx.c.index(4); const AType &at = ATYPES[ti]; bool lf = ctx.c.prob(1, 4); std::string eol = lf ? "\n" : "\r\n"; size_t width = lf ? 76 : 64;
  size_t L = (size_t)ctx.c.small(1, 700); Bytes data = content(ctx, L); std::string ccls, comment = gen_comment(ctx, &ccls);
  std::string begin = std::string("-----BEGIN ") + at.title + "-----", end = std::string("-----END ") + at.title + "-----";
  std::string hdr = comment.empty() ? "" : "Comment: " + comment + eol, body = R::wrap(R::b64(data), width, eol) + eol, crc = R::crc24_text(data) + eol;
  std::string good = begin + eol + hdr + eol + body + crc + end + eol, bad, cls;
  switch (ctx.c.index(8)) {
    case 0: { cls = "wrong-checksum"; uint32_t delta = (uint32_t)ctx.c.range(1, 0xFFFFFF), c = R::crc24(data) ^ delta; Bytes cb; cb.push_back(c >> 16); cb.push_back(c >> 8); cb.push_back(c); bad = begin + eol + hdr + eol + body + "=" + R::b64(cb) + eol + end + eol; break; }
    case 1: { cls = "wrong-checksum"; Bytes d2 = data; size_t p = ctx.c.index(L); d2[p] ^= (uint8_t)(1u << ctx.c.index(8)); bad = begin + eol + hdr + eol + R::wrap(R::b64(d2), width, eol) + eol + crc + end + eol; break; }
    case 2: cls = "missing-blank-line"; bad = begin + eol + hdr + body + crc + end + eol; break;
    case 3: cls = "duplicated-begin-line"; bad = begin + eol + begin + eol + hdr + eol + body + crc + end + eol; break;
    case 4: { cls = "nested-block-of-the-same-type"; Bytes inner = content(ctx, (size_t)ctx.c.range(1, 60)); bad = begin + eol + hdr + eol + body + R::armor_build(at.title, R::Headers(), inner, width, eol) + body + crc + end + eol; break; }
    case 5: { size_t tj = ti < 3 ? ti + 1 + ctx.c.index(3 - ti) : 3; if (tj == ti) { cls = "nested-block-of-the-same-type"; } else cls = "nested-block-of-another-type"; Bytes inner = content(ctx, (size_t)ctx.c.range(1, 60)); bad = begin + eol + hdr + eol + body + R::armor_build(ATYPES[tj].title, R::Headers(), inner, width, eol) + crc + end + eol; break; }
    case 6: { cls = "begin-line-inside-the-data"; bad = begin + eol + hdr + eol + body + std::string("-----BEGIN ") + ATYPES[ctx.c.index(4)].title + "-----" + eol + body + crc + end + eol; break; }
    default: { cls = "truncated-footer"; size_t cut = (size_t)ctx.c.range(1, end.size()); bad = begin + eol + hdr + eol + body + crc + end.substr(0, end.size() - cut) + (ctx.c.coin() ? eol : ""); break; }
  }
  ctx.desc << cls << " in " << at.title << " armor, payload " << L << " octets, " << (lf ? "LF/76" : "CRLF/64") << ", " << ccls; ctx.label(cls); ctx.label(std::string("type ") + at.title);
  R::Armor ra = R::armor_parse(bad), rg = R::armor_parse(good);
  if (ra.ok || !rg.ok || rg.data != data) { ctx.fail("harness/reference-parser-disagrees-with-defect-construction", cls + ": defective accepted=" + N(ra.ok) + " intact accepted=" + N(rg.ok) + " " + rg.why); return; }
  { Bytes back; tmcg_openpgp_armor_t t = PGP::ArmorDecode(good, back); if (t != at.t || back != data) ctx.fail("armor/decode/valid-reference-armor-not-recovered", "intact counterpart of " + ctx.desc.str()); }
  Bytes back; tmcg_openpgp_armor_t t = PGP::ArmorDecode(bad, back);
  if (t != TMCG_OPENPGP_ARMOR_UNKNOWN) ctx.fail("armor/decode/" + cls + "-accepted", "ArmorDecode returned type " + N(t) + " and " + N(back.size()) + " octets (reference parser: " + ra.why + ") for " + ctx.desc.str() + " armor: " + jstr(bad.substr(0, 400)));
  ctx.nontrivial(cls + N(ti) + N(L) + N(R::crc24(data)) + comment + N(lf) + N(bad.size()));
}

// ---------------------------------------------------------------------------
// (3) packet tags and body lengths
static const uint64_t LEN_BOUNDARIES[] = {0, 1, 2, 3, 100, 190, 191, 192, 193, 194, 255, 256, 257, 447, 448, 8382, 8383, 8384, 8385, 8386, 16319, 16320, 16383, 16384, 65534, 65535, 65536, 65537, 70000,
  16777215ULL, 16777216ULL, 2147483647ULL, 2147483648ULL, 4294967294ULL, 4294967295ULL};
static const size_t N_LENB = sizeof(LEN_BOUNDARIES) / sizeof(LEN_BOUNDARIES[0]);
static void check_length_header(Ctx &ctx, uint64_t len) {
  Bytes lib, ref = R::new_len(len); PGP::PacketLengthEncode((size_t)len, lib);
  if (lib != ref) ctx.fail("length/encode/differs-from-reference", "length " + N(len) + ": library " + R::hex(lib) + " reference " + R::hex(ref));
  Bytes in = ref; in.push_back(0xAB); uint32_t got = 0xDEADBEEF; bool part = true;
  size_t used = PGP::PacketLengthDecode(in, true, 0, got, part);
  if (used != ref.size() || got != (uint32_t)len || part) ctx.fail("length/decode/new-format-differs-from-reference", "header " + R::hex(ref) + " (length " + N(len) + "): library consumed " + N(used) + " octets, length " + N(got) + ", partial " + N(part));
  Bytes five = R::new_len5(len); five.push_back(0xAB); got = 0; used = PGP::PacketLengthDecode(five, true, 0, got, part);
  if (used != 5 || got != (uint32_t)len || part) ctx.fail("length/decode/five-octet-form-differs-from-reference", "length " + N(len) + ": consumed " + N(used) + " length " + N(got));
  // old format length types
  { Bytes o; unsigned lt; if (len < 256) { lt = 0; o.push_back((uint8_t)len); } else if (len < 65536) { lt = 1; R::put16(o, (uint32_t)len); } else { lt = 2; R::put32(o, len); }
    size_t want = o.size(); o.push_back(0xCD); got = 0; used = PGP::PacketLengthDecode(o, false, lt, got, part);
    if (used != want || got != (uint32_t)len || part) ctx.fail("length/decode/old-format-differs-from-reference", "length " + N(len) + " length type " + N(lt) + ": consumed " + N(used) + " length " + N(got)); }
}
// a complete packet with a body of exactly `len` octets through encoder, reference and decoder
static void check_whole_packet(Ctx &ctx, unsigned tag, const Bytes &payload) {
  Bytes lib, body; std::string name;
  switch (tag) {
    case 13: name = "uid"; body = payload; PGP::PacketUidEncode(std::string(payload.begin(), payload.end()), lib); break;
    case 9: name = "sed"; body = payload; PGP::PacketSedEncode(payload, lib); break;
    case 18: name = "seipd"; body = R::seipd_body(payload); PGP::PacketSeipdEncode(payload, lib); break;
    default: name = "literal"; tag = 11; set_vnow((long)(payload.size() % 100000)); body = R::literal_body(0x62, "", (uint32_t)(1790000000UL + payload.size() % 100000), payload); PGP::PacketLitEncode(payload, lib); break;
  }
  Bytes ref = R::packet(tag, body);
  if (!same(ctx, "packet/" + name + "/encode-differs-from-reference", name + " packet with body of " + N(body.size()) + " octets", lib, ref)) return;
  bool decodable = !(payload.empty() && tag != 13);
  if (!decodable) return;
  Bytes trailer = R::packet(13, Bytes(1, 'x')), in = R::cat(lib, trailer);
  Dec d(in);
  if (d.ret != tag) { ctx.fail("packet/" + name + "/own-packet-not-decoded", "PacketDecode returned " + N(d.ret) + " for a " + name + " packet with body of " + N(body.size()) + " octets, header " + R::hex(Bytes(lib.begin(), lib.begin() + std::min<size_t>(6, lib.size())))); return; }
  Bytes got;
  if (tag == 13) got = arr(d.c.uiddata, d.c.uiddatalen); else if (tag == 11) got = arr(d.c.data, d.c.datalen); else got = arr(d.c.encdata, d.c.encdatalen);
  same(ctx, "packet/" + name + "/decoded-content-differs", name + " content after decode", got, payload);
  if (tag == 11 && (d.c.dataformat != 0x62 || d.c.datafilenamelen != 0 || d.c.datatime != (uint32_t)(1790000000UL + payload.size() % 100000))) ctx.fail("packet/literal/decoded-fields-differ", "format " + N(d.c.dataformat) + " name length " + N(d.c.datafilenamelen) + " time " + N(d.c.datatime));
  if (tag == 18 && d.c.version != 1) ctx.fail("packet/seipd/decoded-fields-differ", "version " + N(d.c.version));
  if (!d.c.newformat || d.c.tag != tag) ctx.fail("packet/" + name + "/decoded-header-differs", "newformat " + N(d.c.newformat) + " tag " + N(d.c.tag));
  same(ctx, "packet/decode/current-packet-differs", "current_packet", d.cur, lib);
  same(ctx, "packet/decode/consumed-too-much-or-too-little", "remaining input", d.rest, trailer);
  Bytes ex; unsigned t = PGP::PacketBodyExtract(lib, 0, ex);
  if (t != tag || ex != body) ctx.fail("packet/body-extract/differs-from-reference", name + " body " + N(body.size()) + " octets: returned tag " + N(t) + ", " + N(ex.size()) + " octets");
}
VF_ENUM(packet_lengths, 38, 38) { // index < 35: one boundary length; 35: every length 0..9000; 36: every tag; 37: partial headers
  size_t i = ctx.c.raw();
  if (i < N_LENB) {
    uint64_t len = LEN_BOUNDARIES[i]; check_length_header(ctx, len);
    ctx.desc << "body length " << len; ctx.nontrivial("len" + N(len));
    if (len <= 70000) { // whole packets whose BODY has exactly this length
      static const unsigned tags[] = {13, 9, 18, 11};
      for (unsigned t : tags) { size_t overhead = t == 18 ? 1 : (t == 11 ? 6 : 0); if (len < overhead) continue; check_whole_packet(ctx, t, content(ctx, (size_t)len - overhead)); }
      ctx.label("boundary length with whole packets"); ctx.desc << " (uid, sed, seipd, literal packets)";
    } else ctx.label("boundary length, header only");
    ctx.label(len <= 191 ? "one-octet form" : (len <= 8383 ? "two-octet form" : "five-octet form"));
  } else if (i == N_LENB) {
    for (uint64_t len = 0; len <= 9000 && !ctx.failed; len++) check_length_header(ctx, len);
    ctx.count("lengths_checked", 9001); ctx.label("exhaustive: every length 0..9000 (header)"); ctx.desc << "all lengths 0..9000"; ctx.nontrivial("sweep");
  } else if (i == N_LENB + 1) {
    for (unsigned t = 0; t < 64; t++) { Bytes o; PGP::PacketTagEncode(t, o); if (o.size() != 1 || o[0] != R::new_tag(t)) ctx.fail("tag/encode/differs-from-reference", "tag " + N(t) + ": library " + R::hex(o)); }
    ctx.label("exhaustive: every packet tag 0..63"); ctx.desc << "all tags"; ctx.nontrivial("tags");
  } else {
    for (unsigned e = 0; e <= 30; e++) { Bytes in; in.push_back(224 + e); in.push_back(0); uint32_t got = 0; bool part = false; size_t used = PGP::PacketLengthDecode(in, true, 0, got, part);
      if (used != 1 || !part || got != (1u << e)) ctx.fail("length/decode/partial-header-differs-from-reference", "octet " + N(224 + e) + ": consumed " + N(used) + " length " + N(got) + " partial " + N(part)); }
    ctx.label("exhaustive: every partial body length header"); ctx.desc << "partial headers 224..254"; ctx.nontrivial("partial");
  }
}
// reference-built packets in every length form the RFC allows, decoded by the library
VF_SUB(packet_forms_decode, 4000, 60000) {
  static const unsigned tags[] = {8, 9, 11, 13, 17, 18, 20};
  unsigned tag = tags[ctx.c.index(7)]; size_t L;
  switch (ctx.c.weighted({4, 3, 2, 1})) { case 0: L = (size_t)ctx.c.range(1, 300); break; case 1: { static const size_t b[] = {191, 192, 255, 256, 512, 8383, 8384, 65535, 65536}; L = b[ctx.c.index(9)] + (size_t)ctx.c.range(0, 4) - 2; break; }
    case 2: L = (size_t)ctx.c.small(300, 20000); break; default: L = (size_t)ctx.c.small(20000, 70000); break; }
  std::string cc; Bytes payload = content(ctx, L, &cc), body; std::string fname; unsigned fmt = 0x62, comp = 0, sym = 0, aead = 0, chunk = 0; uint32_t date = 0; Bytes iv;
  switch (tag) {
    case 8: comp = (unsigned)ctx.c.index(4); body.push_back(comp); R::put(body, payload); break;
    case 11: { static const unsigned f[] = {0x62, 0x74, 0x75}; fmt = f[ctx.c.index(3)]; fname = ctx.c.coin() ? "" : (ctx.c.coin() ? "_CONSOLE" : text(ctx, (size_t)ctx.c.range(1, 255))); date = ctx.c.raw(); body = R::literal_body(fmt, fname, date, payload); break; }
    case 17: if (payload.size() < 2) payload.resize(2, 1); body = payload; break;
    case 18: body = R::seipd_body(payload); break;
    case 20: { static const unsigned s[] = {7, 8, 9, 10, 11, 13}; sym = s[ctx.c.index(6)]; aead = 1 + (unsigned)ctx.c.index(2); chunk = (unsigned)ctx.c.range(0, 56); iv = content(ctx, aead == 1 ? 16 : 15); body = R::aead_body(sym, aead, chunk, iv, payload); break; }
    default: body = payload; break;
  }
  // length form
  Bytes pkt; std::string form; bool last = false, newfmt = true; bool can_old = tag < 16, can_partial = (tag == 8 || tag == 9 || tag == 11 || tag == 18) && body.size() >= 512;
  size_t f = ctx.c.weighted({3, 2, (unsigned)(can_old ? 3 : 0), (unsigned)(can_old ? 1 : 0), (unsigned)(can_partial ? 4 : 0)});
  if (f == 0) { form = "new, minimal"; pkt = R::packet(tag, body); }
  else if (f == 1) { form = "new, five-octet"; pkt = R::packet_len5(tag, body); }
  else if (f == 2) { unsigned lt = body.size() < 256 ? (unsigned)ctx.c.index(3) : (body.size() < 65536 ? 1 + (unsigned)ctx.c.index(2) : 2); form = "old, length type " + N(lt); newfmt = false; pkt = R::old_packet(tag, body, lt); }
  else if (f == 3) { form = "old, indeterminate"; newfmt = false; last = true; pkt = R::old_packet(tag, body, 3); }
  else { form = "partial body lengths"; std::vector<unsigned> ex; size_t left = body.size(); unsigned maxe = 0; while (((size_t)2 << maxe) <= left && maxe < 16) maxe++;
    unsigned e0 = (unsigned)ctx.c.range(9, maxe < 9 ? 9 : maxe); ex.push_back(e0); left -= (size_t)1 << e0; unsigned n = (unsigned)ctx.c.range(0, 6);
    for (unsigned k = 0; k < n && left; k++) { unsigned me = 0; while (((size_t)2 << me) <= left) me++; unsigned e = (unsigned)ctx.c.range(0, me); ex.push_back(e); left -= (size_t)1 << e; }
    pkt = R::partial_packet(tag, body, ex); form += " (" + N(ex.size()) + " partial chunks, final " + N(left) + ")"; ctx.label(left == 0 ? "partial: empty final chunk" : "partial: non-empty final chunk"); }
  Bytes trailer = last ? Bytes() : R::packet(13, Bytes(1, 'x'));
  ctx.desc << "tag " << tag << ", body " << body.size() << " octets (" << cc << "), " << form; ctx.label("tag " + N(tag)); ctx.label("form: " + form.substr(0, form.find(" (")));
  Dec d(R::cat(pkt, trailer));
  if (d.ret != tag) { ctx.fail("packet/decode/valid-reference-packet-refused", "PacketDecode returned " + N(d.ret) + " for " + ctx.desc.str() + " header " + R::hex(Bytes(pkt.begin(), pkt.begin() + std::min<size_t>(8, pkt.size())))); return; }
  if (d.c.tag != tag || d.c.newformat != newfmt || d.c.indetlen != last) ctx.fail("packet/decode/header-fields-differ", "tag " + N(d.c.tag) + " newformat " + N(d.c.newformat) + " indeterminate " + N(d.c.indetlen) + " for " + ctx.desc.str());
  Bytes got; std::string fields;
  switch (tag) {
    case 8: got = arr(d.c.compdata, d.c.compdatalen); if (d.c.compalgo != (int)comp) fields = "compression algorithm " + N(d.c.compalgo); break;
    case 9: got = arr(d.c.encdata, d.c.encdatalen); break;
    case 11: got = arr(d.c.data, d.c.datalen); if (d.c.dataformat != fmt || d.c.datatime != date || std::string((const char *)d.c.datafilename, d.c.datafilenamelen) != fname) fields = "format " + N(d.c.dataformat) + " date " + N(d.c.datatime) + " file name length " + N(d.c.datafilenamelen); break;
    case 13: got = arr(d.c.uiddata, d.c.uiddatalen); break;
    case 17: got = arr(d.c.uatdata, d.c.uatdatalen); break;
    case 18: got = arr(d.c.encdata, d.c.encdatalen); if (d.c.version != 1) fields = "version " + N(d.c.version); break;
    default: got = arr(d.c.encdata, d.c.encdatalen); if (d.c.version != 1 || d.c.skalgo != (int)sym || d.c.aeadalgo != (int)aead || d.c.chunksize != chunk || arr(d.c.iv, iv.size()) != iv) fields = "version " + N(d.c.version) + " cipher " + N(d.c.skalgo) + " aead " + N(d.c.aeadalgo) + " chunk " + N(d.c.chunksize); break;
  }
  same(ctx, "packet/decode/content-differs-from-reference-input", "content of tag " + N(tag), got, payload);
  if (!fields.empty()) ctx.fail("packet/decode/fields-differ-from-reference-input", fields + " for " + ctx.desc.str());
  same(ctx, "packet/decode/current-packet-differs", "current_packet", d.cur, pkt);
  same(ctx, "packet/decode/consumed-too-much-or-too-little", "remaining input", d.rest, trailer);
  Bytes ex; unsigned t = PGP::PacketBodyExtract(pkt, 0, ex);
  if (t != tag || ex != body) ctx.fail("packet/body-extract/differs-from-reference", ctx.desc.str() + ": returned tag " + N(t) + ", " + N(ex.size()) + " octets");
  ctx.nontrivial(N(tag) + form + N(body.size()) + N(R::crc24(body)));
}

// ---------------------------------------------------------------------------
// (4) multiprecision integers
static void check_mpi(Ctx &ctx, const Z &v, bool secure_too) {
  Mpi g(v); Bytes ref = R::mpi(v), lib; size_t sum = 7;
  PGP::PacketMPIEncode(g, lib, sum);
  if (lib != ref) ctx.fail("mpi/encode/differs-from-reference", "value " + S(v) + ": library " + R::hex(lib) + " reference " + R::hex(ref));
  if (sum != ((7 + R::sum16(ref)) & 0xFFFF)) ctx.fail("mpi/encode/checksum-differs", "value " + S(v) + ": sum " + N(sum));
  Bytes in = ref; in.push_back(0x5A); in.push_back(0xA5);
  gcry_mpi_t out = NULL; size_t sum2 = 0; size_t used = PGP::PacketMPIDecode(in, out, sum2);
  if (used != ref.size() || fromG(out) != v) ctx.fail("mpi/decode/differs-from-reference", "encoding " + R::hex(ref) + ": consumed " + N(used) + ", value " + S(fromG(out)));
  else if (sum2 != R::sum16(ref)) ctx.fail("mpi/decode/checksum-differs", "encoding " + R::hex(ref) + ": sum " + N(sum2));
  gcry_mpi_release(out);
  if (secure_too) {
    tmcg_openpgp_secure_octets_t so; size_t s3 = 0; PGP::PacketMPIEncode(g, so, s3); Bytes sb(so.begin(), so.end());
    if (sb != ref || s3 != R::sum16(ref)) ctx.fail("mpi/encode-secure/differs-from-reference", "value " + S(v) + ": library " + R::hex(sb) + " reference " + R::hex(ref));
    if (v == 0) return; // the secure-memory decoder refuses the zero MPI it encodes: judged once in edge_cases
    gcry_mpi_t o2 = gcry_mpi_new(8); size_t s4 = 0; size_t u2 = PGP::PacketMPIDecode(so, o2, s4);
    if (u2 != ref.size() || fromG(o2) != v || s4 != R::sum16(ref)) ctx.fail("mpi/decode-secure/differs-from-reference", "encoding " + R::hex(ref) + ": consumed " + N(u2));
    gcry_mpi_release(o2);
  }
}
VF_ENUM(mpi_small_integers, 18, 18) { // index k: every integer in [4096k, 4096(k+1)); 17: 2^n-1, 2^n, 2^n+1 for n <= 4200
  size_t k = ctx.c.raw();
  if (k < 17) { for (unsigned long v = 4096 * k; v < 4096 * (k + 1) && !ctx.failed; v++) check_mpi(ctx, Z(v), v % 64 == 0); ctx.count("integers_checked", 4096); ctx.label("exhaustive: every integer 0..69631"); ctx.desc << "integers " << 4096 * k << ".." << 4096 * (k + 1) - 1; }
  else { for (unsigned n = 0; n <= 4200 && !ctx.failed; n++) { Z p = Z(1) << n; check_mpi(ctx, p - 1, false); check_mpi(ctx, p, n % 16 == 0); check_mpi(ctx, p + 1, false); } ctx.count("integers_checked", 3 * 4201); ctx.label("exhaustive: 2^n-1, 2^n, 2^n+1 for n <= 4200"); ctx.desc << "powers of two and neighbours"; }
  ctx.nontrivial("k" + N(k));
}
VF_SUB(mpi_codec, 6000, 120000) {
  std::string cls; Z v = gen_int(ctx, ctx.thorough ? 16384 : 8192, &cls); size_t bits = R::zbits(v);
  ctx.desc << cls << ", " << bits << " bits: " << S(v); ctx.label(cls); ctx.label("bit length mod 8 = " + N(bits % 8));
  check_mpi(ctx, v, bits <= 4096);
  // non-canonical input: the declared bit count covers leading zero bits / octets; the decoder must consume
  // ceil(bits/8) octets and deliver the numeric value
  unsigned extra = (unsigned)ctx.c.range(1, 40); size_t dbits = bits + extra; if (dbits <= 65535) {
    Bytes mag = R::be_octets(v), in; R::put16(in, (uint32_t)dbits); size_t n = (dbits + 7) / 8; in.insert(in.end(), n - mag.size(), 0); R::put(in, mag); size_t want = in.size(); in.push_back(0x77);
    gcry_mpi_t out = NULL; size_t used = PGP::PacketMPIDecode(in, out);
    if (used != want || fromG(out) != v) ctx.fail("mpi/decode/leading-zero-form-differs-from-reference", "encoding " + R::hex(in) + ": consumed " + N(used) + " (expected " + N(want) + "), value " + S(fromG(out)) + " expected " + S(v));
    if (out) { Bytes re; PGP::PacketMPIEncode(out, re); if (re != R::mpi(v)) ctx.fail("mpi/encode/not-canonical-after-decode", "re-encoded " + R::hex(re)); }
    gcry_mpi_release(out); ctx.label(n > mag.size() ? "decode: leading zero octets" : "decode: leading zero bits only");
  }
  if (cls != "random" || bits > 2048) ctx.nontrivial(cls + v.get_str(62));
}

// ---------------------------------------------------------------------------
// (5) string-to-key
static const unsigned S2K_HASHES[] = {2, 8, 9, 10, 1, 3, 11, 12, 14}; // SHA-1, SHA-256, SHA-384, SHA-512, MD5, RIPEMD-160, SHA-224, SHA3-256, SHA3-512
static const char *hash_name(unsigned h) { switch (h) { case 1: return "MD5"; case 2: return "SHA-1"; case 3: return "RIPEMD-160"; case 8: return "SHA-256"; case 9: return "SHA-384"; case 10: return "SHA-512"; case 11: return "SHA-224"; case 12: return "SHA3-256"; case 14: return "SHA3-512"; } return "?"; }
static void check_s2k(Ctx &ctx, unsigned hash, bool iterated, unsigned c, const Bytes &salt, const std::string &pass, size_t keylen) {
  tmcg_openpgp_secure_octets_t out; PGP::S2KCompute((tmcg_openpgp_hashalgo_t)hash, keylen, sec(pass), salt, iterated, (tmcg_openpgp_byte_t)c, out);
  Bytes lib(out.begin(), out.end()), ref = R::s2k(hash, iterated ? 3 : 1, salt, c, pass, keylen);
  if (lib != ref) ctx.fail(std::string("s2k/") + (iterated ? "iterated" : "salted") + "/differs-from-reference",
    std::string(hash_name(hash)) + " count octet " + N(c) + " (" + N(R::s2k_count(c)) + " octets) key length " + N(keylen) + " salt " + R::hex(salt) + " passphrase (" + N(pass.size()) + " chars) " + jstr(pass.substr(0, 40)) + ": library " + R::hex(lib) + " reference " + R::hex(ref));
}
static unsigned bitrev8(unsigned x) { unsigned r = 0; for (int i = 0; i < 8; i++) if (x & (1u << i)) r |= 0x80u >> i; return r; }
VF_ENUM(s2k_all_count_octets, 1024, 2304) { // index = hash (4 quick / 9 thorough) x count octet (all 256, bit-reversed order to spread the cost)
  size_t i = ctx.c.raw(); unsigned hash = S2K_HASHES[i / 256], c = bitrev8((unsigned)(i % 256));
  size_t dlen = gcry_md_get_algo_dlen(R::gcry_hash_id(hash)); size_t keylen = (size_t)ctx.c.range(1, 64);
  if (c >= 0xD0 && keylen >= dlen) keylen = (size_t)ctx.c.range(1, dlen - 1); // one hash instance (plus the library's spare one) for the expensive counts
  Bytes salt = content(ctx, 8); std::string pass = text(ctx, (size_t)ctx.c.range(0, 40), true);
  ctx.desc << hash_name(hash) << ", count octet " << c << " = " << R::s2k_count(c) << " octets, key length " << keylen << ", passphrase " << pass.size() << " chars";
  ctx.label(hash_name(hash)); ctx.label("count exponent " + N(c >> 4)); ctx.label(keylen > dlen ? "key longer than digest" : (keylen == dlen ? "key = digest length" : "key shorter than digest"));
  check_s2k(ctx, hash, true, c, salt, pass, keylen); ctx.nontrivial(N(hash) + "/" + N(c));
}
VF_SUB(s2k_sampled, 5000, 100000) {
  unsigned hash = S2K_HASHES[ctx.c.index(9)]; bool iterated = ctx.c.prob(2, 3); size_t keylen = (size_t)ctx.c.range(1, 64); size_t dlen = gcry_md_get_algo_dlen(R::gcry_hash_id(hash));
  if (ctx.c.prob(1, 4)) { size_t m = (size_t)ctx.c.range(1, 64 / dlen ? 64 / dlen : 1) * dlen; keylen = m + (size_t)ctx.c.range(0, 2) - 1; if (keylen < 1) keylen = 1; if (keylen > 64) keylen = 64; }
  unsigned c; std::string pcls; std::string pass;
  switch (ctx.c.weighted({4, 2, 1, 1})) {
    case 0: pcls = "short passphrase"; pass = text(ctx, (size_t)ctx.c.range(0, 64), true); c = (unsigned)ctx.c.range(0, 0x7F); break;
    case 1: pcls = "empty passphrase"; c = (unsigned)ctx.c.range(0, 0x9F); break;
    case 2: { pcls = "passphrase longer than the count"; c = (unsigned)ctx.c.range(0, 15); size_t n = R::s2k_count(c) - 8 + (size_t)ctx.c.range(0, 900) - 2; pass = std::string(n, 'p'); for (size_t k = 0; k < n; k += 7) pass[k] = (char)('a' + (k / 7) % 26); break; }
    default: pcls = "binary passphrase"; { Bytes b = content(ctx, (size_t)ctx.c.range(1, 200)); pass.assign(b.begin(), b.end()); } c = (unsigned)ctx.c.small(0, 0xBF); break;
  }
  Bytes salt = content(ctx, 8);
  ctx.desc << hash_name(hash) << (iterated ? ", iterated+salted, count octet " + N(c) : std::string(", salted")) << ", key length " << keylen << ", " << pcls << " (" << pass.size() << ")";
  ctx.label(hash_name(hash)); ctx.label(iterated ? "iterated+salted" : "salted"); ctx.label(pcls); ctx.label(keylen > dlen ? "key longer than digest" : (keylen == dlen ? "key = digest length" : "key shorter than digest"));
  check_s2k(ctx, hash, iterated, c, salt, pass, keylen);
  if (ctx.c.prob(1, 16)) { // documented: nothing is derived unless the salt has 8 octets
    Bytes bad = content(ctx, ctx.c.coin() ? 7 : 9); tmcg_openpgp_secure_octets_t out; PGP::S2KCompute((tmcg_openpgp_hashalgo_t)hash, keylen, sec(pass), bad, iterated, (tmcg_openpgp_byte_t)c, out);
    if (!out.empty()) ctx.fail("s2k/salt-of-wrong-size-accepted", "salt of " + N(bad.size()) + " octets produced " + N(out.size()) + " key octets"); ctx.label("salt of wrong size refused");
  }
  ctx.nontrivial(N(hash) + N(iterated) + N(c) + N(keylen) + pass.substr(0, 64) + R::hex(salt));
}

// ---------------------------------------------------------------------------
// (6) fingerprints and key identifiers
VF_SUB(fingerprint_keyid, 4000, 80000) {
  size_t L; std::string lc;
  switch (ctx.c.weighted({4, 3, 2, 1})) { case 0: L = (size_t)ctx.c.range(6, 600); lc = "6..600"; break; case 1: { static const size_t b[] = {255, 256, 257, 511, 512, 65279, 65280, 65535}; L = b[ctx.c.index(8)]; lc = "length octet boundary"; break; }
    case 2: L = (size_t)ctx.c.small(600, 65535); lc = "600..65535"; break; default: L = (size_t)ctx.c.range(0, 5); lc = "0..5"; break; }
  std::string cc; Bytes body = content(ctx, L, &cc); if (L >= 6 && ctx.c.coin()) { body[0] = 4; body[5] = 17; }
  ctx.desc << "key packet body of " << L << " octets (" << cc << ")"; ctx.label("length " + lc);
  Bytes f4, k4, f5, k5; PGP::FingerprintCompute(body, f4); PGP::KeyidCompute(body, k4); PGP::FingerprintComputeV5(body, f5); PGP::KeyidComputeV5(body, k5);
  same(ctx, "fingerprint/v4/differs-from-reference", "v4 fingerprint", f4, R::fingerprint_v4(body));
  same(ctx, "keyid/v4/differs-from-reference", "v4 key id", k4, R::keyid_v4(body));
  same(ctx, "fingerprint/v5/differs-from-reference", "v5 fingerprint", f5, R::fingerprint_v5(body));
  same(ctx, "keyid/v5/differs-from-reference", "v5 key id", k5, R::keyid_v5(body));
  std::string hx, want; PGP::FingerprintConvertPlain(f4, hx); for (uint8_t b : f4) { char t[3]; snprintf(t, 3, "%02X", b); want += t; }
  if (hx != want) ctx.fail("fingerprint/convert-plain/not-upper-case-hex", hx + " vs " + want);
  ctx.nontrivial(N(L) + R::hex(f4));
}

// ---------------------------------------------------------------------------
// (7) packet encoders against reference encoders, decoder round trip
static bool zeq(Ctx &ctx, const std::string &sig, const char *field, gcry_mpi_t got, const Z &want) {
  Z g = fromG(got); if (g == want) return true; ctx.fail(sig, std::string("field ") + field + ": decoded " + S(g) + " expected " + S(want) + " [" + ctx.desc.str() + "]"); return false;
}
VF_SUB(pkt_uid_literal, 4000, 80000) {
  bool uid = ctx.c.coin(); size_t L;
  switch (ctx.c.weighted({5, 3, 1})) { case 0: L = (size_t)ctx.c.range(uid ? 0 : 1, 200); break; case 1: { static const size_t b[] = {191, 192, 8383, 8384}; L = b[ctx.c.index(4)] + (size_t)ctx.c.range(0, 8) - 7; break; } default: L = (size_t)ctx.c.small(200, 30000); break; }
  if (uid) {
    std::string u; std::string cls;
    switch (ctx.c.weighted({3, 2, 1})) { case 0: cls = "name <address>"; u = text(ctx, L); break; case 1: cls = "utf-8"; u = text(ctx, L, true); break; default: { cls = "arbitrary octets"; Bytes b = content(ctx, L); u.assign(b.begin(), b.end()); break; } }
    ctx.desc << "user id, " << u.size() << " octets (" << cls << ")"; ctx.label("user id: " + cls);
    Bytes lib; PGP::PacketUidEncode(u, lib); Bytes ub(u.begin(), u.end());
    if (same(ctx, "packet/uid/encode-differs-from-reference", "user id packet", lib, R::packet(13, ub))) {
      Dec d(lib); if (d.ret != 13 || arr(d.c.uiddata, d.c.uiddatalen) != ub || !d.rest.empty()) ctx.fail("packet/uid/decode-does-not-recover-fields", "PacketDecode returned " + N(d.ret) + ", " + N(d.c.uiddatalen) + " octets for " + ctx.desc.str());
    }
    ctx.nontrivial("u" + u);
  } else {
    std::string cc; Bytes data = content(ctx, L, &cc); long now = (long)ctx.c.range(0, 400000000UL); set_vnow(now); uint32_t t = (uint32_t)(1790000000UL + now);
    ctx.desc << "literal data, " << L << " octets (" << cc << "), clock " << t; ctx.label("literal data");
    Bytes lib; PGP::PacketLitEncode(data, lib);
    if (same(ctx, "packet/literal/encode-differs-from-reference", "literal packet", lib, R::packet(11, R::literal_body(0x62, "", t, data)))) {
      Dec d(lib); if (d.ret != 11 || arr(d.c.data, d.c.datalen) != data || d.c.dataformat != 0x62 || d.c.datafilenamelen != 0 || d.c.datatime != t || !d.rest.empty()) ctx.fail("packet/literal/decode-does-not-recover-fields", "PacketDecode returned " + N(d.ret) + ", " + N(d.c.datalen) + " octets, time " + N(d.c.datatime) + " for " + ctx.desc.str());
    }
    ctx.nontrivial("l" + N(L) + N(t) + N(R::crc24(data)));
  }
}
struct Curve { const char *name; const tmcg_openpgp_byte_t *oid; };
VF_SUB(pkt_public_key, 5000, 100000) {
  static const unsigned algos[] = {1, 2, 3, 16, 17, 19, 22, 18};
  unsigned algo = algos[ctx.c.index(8)]; bool sub = ctx.c.coin(), v5 = ctx.c.prob(1, 3); uint32_t created = ctx.c.prob(1, 8) ? (ctx.c.coin() ? 0u : 0xFFFFFFFFu) : ctx.c.raw(); unsigned tag = sub ? 14 : 6;
  unsigned maxbits = ctx.thorough ? 4096 : 2048; Bytes lib, material; std::vector<Z> v; std::string desc = std::string(sub ? "subkey" : "primary key") + (v5 ? " v5" : " v4") + " algo " + N(algo);
  Bytes oid; unsigned kh = 0, ks = 0;
  if (algo == 1 || algo == 2 || algo == 3 || algo == 16 || algo == 17) {
    size_t nm = (algo <= 3) ? 2 : (algo == 16 ? 3 : 4); for (size_t i = 0; i < nm; i++) v.push_back(gen_int(ctx, (i == 1 && algo != 16) ? 256 : maxbits, nullptr, true));
    // argument order of the encoder is (p, q, g, y): RSA uses p=n, q=e; Elgamal uses p, g, y
    Z p = v[0], q = (algo == 16) ? Z(0) : v[1], g = (algo == 16) ? v[1] : (algo == 17 ? v[2] : Z(0)), y = (algo == 16) ? v[2] : (algo == 17 ? v[3] : Z(0));
    Mpi mp(p), mq(q), mg(g), my(y);
    if (sub) { if (v5) PGP::PacketSubEncodeV5(created, (tmcg_openpgp_pkalgo_t)algo, mp, mq, mg, my, lib); else PGP::PacketSubEncode(created, (tmcg_openpgp_pkalgo_t)algo, mp, mq, mg, my, lib); }
    else { if (v5) PGP::PacketPubEncodeV5(created, (tmcg_openpgp_pkalgo_t)algo, mp, mq, mg, my, lib); else PGP::PacketPubEncode(created, (tmcg_openpgp_pkalgo_t)algo, mp, mq, mg, my, lib); }
    material = R::mpis(v);
  } else {
    size_t ci = ctx.c.index(7); const tmcg_openpgp_byte_t *o = tmcg_openpgp_oidtable[ci].oid; oid.assign(o + 1, o + 1 + o[0]); desc += std::string(" curve ") + tmcg_openpgp_oidtable[ci].name;
    v.push_back(gen_int(ctx, 1100, nullptr, true)); kh = 8 + (unsigned)ctx.c.index(3); ks = 7 + (unsigned)ctx.c.index(3); Mpi pt(v[0]);
    if (sub) { if (v5) PGP::PacketSubEncodeV5(created, (tmcg_openpgp_pkalgo_t)algo, oid.size(), oid.data(), pt, (tmcg_openpgp_hashalgo_t)kh, (tmcg_openpgp_skalgo_t)ks, lib); else PGP::PacketSubEncode(created, (tmcg_openpgp_pkalgo_t)algo, oid.size(), oid.data(), pt, (tmcg_openpgp_hashalgo_t)kh, (tmcg_openpgp_skalgo_t)ks, lib); }
    else { if (v5) PGP::PacketPubEncodeV5(created, (tmcg_openpgp_pkalgo_t)algo, oid.size(), oid.data(), pt, (tmcg_openpgp_hashalgo_t)kh, (tmcg_openpgp_skalgo_t)ks, lib); else PGP::PacketPubEncode(created, (tmcg_openpgp_pkalgo_t)algo, oid.size(), oid.data(), pt, (tmcg_openpgp_hashalgo_t)kh, (tmcg_openpgp_skalgo_t)ks, lib); }
    material = R::ecc_material(oid, v[0], algo == 18, kh, ks);
  }
  Bytes body = R::key_body(v5 ? 5 : 4, created, algo, material);
  ctx.desc << desc << ", created " << created << ", body " << body.size() << " octets"; ctx.label(std::string(sub ? "subkey" : "primary") + (v5 ? " v5" : " v4")); ctx.label("public-key algorithm " + N(algo));
  std::string sig = std::string("packet/") + (sub ? "subkey" : "pubkey") + (v5 ? "-v5" : "");
  if (!same(ctx, sig + "/encode-differs-from-reference", desc, lib, R::packet(tag, body))) return;
  Dec d(lib);
  if (d.ret != tag) { ctx.fail(sig + "/own-packet-not-decoded", "PacketDecode returned " + N(d.ret) + " for " + ctx.desc.str()); return; }
  std::string ds = sig + "/decode-does-not-recover-fields";
  if (d.c.version != (v5 ? 5 : 4) || d.c.keycreationtime != created || d.c.pkalgo != (int)algo || !d.rest.empty()) ctx.fail(ds, "version " + N(d.c.version) + " created " + N(d.c.keycreationtime) + " algo " + N(d.c.pkalgo) + " for " + ctx.desc.str());
  if (algo <= 3) { zeq(ctx, ds, "n", d.c.n, v[0]); zeq(ctx, ds, "e", d.c.e, v[1]); }
  else if (algo == 16) { zeq(ctx, ds, "p", d.c.p, v[0]); zeq(ctx, ds, "g", d.c.g, v[1]); zeq(ctx, ds, "y", d.c.y, v[2]); }
  else if (algo == 17) { zeq(ctx, ds, "p", d.c.p, v[0]); zeq(ctx, ds, "q", d.c.q, v[1]); zeq(ctx, ds, "g", d.c.g, v[2]); zeq(ctx, ds, "y", d.c.y, v[3]); }
  else { zeq(ctx, ds, "ecpk", d.c.ecpk, v[0]); if (arr(d.c.curveoid, d.c.curveoidlen) != oid) ctx.fail(ds, "curve OID " + R::hex(arr(d.c.curveoid, d.c.curveoidlen)));
    if (algo == 18 && (d.c.kdf_hashalgo != (int)kh || d.c.kdf_skalgo != (int)ks)) ctx.fail(ds, "KDF parameters " + N(d.c.kdf_hashalgo) + "/" + N(d.c.kdf_skalgo)); }
  // fingerprint of the emitted key as the library's users compute it: over the extracted body
  Bytes ex, f; PGP::PacketBodyExtract(lib, 0, ex); if (v5) PGP::FingerprintComputeV5(ex, f); else PGP::FingerprintCompute(ex, f);
  same(ctx, std::string("fingerprint/") + (v5 ? "v5" : "v4") + "/differs-from-reference", "fingerprint of the emitted key", f, v5 ? R::fingerprint_v5(body) : R::fingerprint_v4(body));
  if (ctx.c.prob(1, 20)) { Bytes o; Mpi a(Z(5)); PGP::PacketPubEncode(created, (tmcg_openpgp_pkalgo_t)(ctx.c.coin() ? 19 : 100), a, a, a, a, o); if (!o.empty()) ctx.fail("packet/pubkey/unsupported-algorithm-emits-octets", R::hex(o)); ctx.label("unsupported algorithm emits nothing"); }
  ctx.nontrivial(desc + N(created) + N(R::crc24(body)));
}
VF_SUB(pkt_secret_key, 3000, 40000) {
  unsigned algo = ctx.c.coin() ? 17 : 16; bool sub = ctx.c.coin(), enc = ctx.c.coin(); unsigned tag = sub ? 7 : 5; uint32_t created = ctx.c.raw();
  std::vector<Z> pub; size_t nm = algo == 17 ? 4 : 3; for (size_t i = 0; i < nm; i++) pub.push_back(gen_int(ctx, (algo == 17 && i == 1) ? 256 : 1536, nullptr, true));
  std::string xc; Z x = gen_int(ctx, 512, &xc, true); // (x = 0: the secure-memory MPI decoder refuses the zero MPI, judged in edge_cases)
  if (enc && R::zbits(x) < 80) { x += Z(1) << 80; xc = "at least 81 bits"; }
  // (with a pass phrase and a secret of fewer than 10 octets the encoder copies the 32-octet key into a buffer of
  //  2+len+20 octets; that memory error is judged in edge_cases, not here)
  std::string pass = enc ? text(ctx, (size_t)ctx.c.range(1, 24), true) : std::string(); Bytes salt = content(ctx, 8), iv = content(ctx, 16);
  Z p = pub[0], q = algo == 17 ? pub[1] : Z(0), g = algo == 17 ? pub[2] : pub[1], y = algo == 17 ? pub[3] : pub[2]; Mpi mp(p), mq(q), mg(g), my(y), mx(x);
  ctx.desc << (sub ? "secret subkey" : "secret key") << " algo " << algo << (enc ? ", protected (pass phrase of " + N(pass.size()) + " octets)" : ", unprotected") << ", x " << xc << " " << R::zbits(x) << " bits";
  ctx.label(std::string(sub ? "secret subkey" : "secret key") + (enc ? ", protected" : ", unprotected")); ctx.label("public-key algorithm " + N(algo));
  Bytes lib; if (enc) rng_script(R::cat(salt, iv));
  if (sub) PGP::PacketSsbEncode(created, (tmcg_openpgp_pkalgo_t)algo, mp, mq, mg, my, mx, sec(pass), lib); else PGP::PacketSecEncode(created, (tmcg_openpgp_pkalgo_t)algo, mp, mq, mg, my, mx, sec(pass), lib);
  rng_script_clear();
  std::vector<Z> secv(1, x); Bytes body = R::key_body(4, created, algo, R::mpis(pub));
  R::put(body, enc ? R::secret_sha1_aes256(secv, pass, 8, salt, 0xAC, iv) : R::secret_plain(secv));
  std::string sig = std::string("packet/") + (sub ? "secret-subkey" : "secret-key") + (enc ? "-protected" : "");
  if (!same(ctx, sig + "/encode-differs-from-reference", ctx.desc.str(), lib, R::packet(tag, body))) return;
  Dec d(lib);
  if (d.ret != tag) { ctx.fail(sig + "/own-packet-not-decoded", "PacketDecode returned " + N(d.ret) + " for " + ctx.desc.str()); return; }
  std::string ds = sig + "/decode-does-not-recover-fields";
  if (d.c.version != 4 || d.c.keycreationtime != created || d.c.pkalgo != (int)algo || d.c.s2kconv != (enc ? 254 : 0)) ctx.fail(ds, "version " + N(d.c.version) + " created " + N(d.c.keycreationtime) + " algo " + N(d.c.pkalgo) + " usage " + N(d.c.s2kconv));
  zeq(ctx, ds, "p", d.c.p, pub[0]); if (algo == 17) { zeq(ctx, ds, "q", d.c.q, pub[1]); zeq(ctx, ds, "g", d.c.g, pub[2]); zeq(ctx, ds, "y", d.c.y, pub[3]); } else { zeq(ctx, ds, "g", d.c.g, pub[1]); zeq(ctx, ds, "y", d.c.y, pub[2]); }
  if (!enc) zeq(ctx, ds, "x", d.c.x, x);
  else {
    Bytes m = R::mpi(x), ct = R::cfb_encrypt(GCRY_CIPHER_AES256, R::s2k(8, 3, salt, 0xAC, pass, 32), iv, R::cat(m, R::digest(GCRY_MD_SHA1, m)));
    if (d.c.skalgo != 9 || d.c.s2k_type != 3 || d.c.s2k_hashalgo != 8 || d.c.s2k_count != 0xAC || arr(d.c.s2k_salt, 8) != salt || arr(d.c.iv, 16) != iv || arr(d.c.encdata, d.c.encdatalen) != ct)
      ctx.fail(ds, "cipher " + N(d.c.skalgo) + " s2k " + N(d.c.s2k_type) + "/" + N(d.c.s2k_hashalgo) + "/" + N(d.c.s2k_count) + " salt " + R::hex(arr(d.c.s2k_salt, 8)) + " encrypted part " + N(d.c.encdatalen) + " octets");
  }
  ctx.nontrivial(ctx.desc.str() + N(created) + N(R::crc24(body)));
}
VF_SUB(pkt_pkesk, 3000, 60000) {
  unsigned kind = (unsigned)ctx.c.index(3); Bytes keyid = ctx.c.prob(1, 6) ? Bytes(8, 0) : content(ctx, 8), lib, fields; unsigned algo; std::vector<Z> v; Bytes rkw;
  // the decoder refuses PKESK bodies shorter than 16 octets (an RSA or ECDH value below 2^24): such values do not occur, excluded
  if (kind == 0) { algo = 1; v.push_back(gen_int(ctx, 4096, nullptr, true)); if (R::zbits(v[0]) < 33) v[0] += Z(1) << 40; Mpi me(v[0]); PGP::PacketPkeskEncode(keyid, me, lib); fields = R::mpis(v); }
  else if (kind == 1) { algo = 16; v.push_back(gen_int(ctx, 3072, nullptr, true)); v.push_back(gen_int(ctx, 3072, nullptr, true)); Mpi gk(v[0]), myk(v[1]); PGP::PacketPkeskEncode(keyid, gk, myk, lib); fields = R::mpis(v); }
  else { algo = 18; v.push_back(gen_int(ctx, 1100, nullptr, true)); if (R::zbits(v[0]) < 33) v[0] += Z(1) << 40; { static const size_t edge[3] = {1, 2, 254}; size_t rl = ctx.c.prob(1, 5) ? (ctx.c.prob(1, 3) ? edge[ctx.c.index(3)] : (size_t)ctx.c.range(1, 254)) : (size_t)(8 * ctx.c.range(3, 7)); rkw = content(ctx, rl); } /* wrapped key: multiples of 8 as key wrap gives them, any length, and the shortest / longest length octet values */ tmcg_openpgp_byte_t buf[256]; memset(buf, 0, sizeof buf); memcpy(buf, rkw.data(), rkw.size());
    Mpi e(v[0]); PGP::PacketPkeskEncode(keyid, e, rkw.size(), buf, lib); fields = R::mpis(v); R::put8(fields, (unsigned)rkw.size()); R::put(fields, rkw); }
  ctx.desc << "PKESK algo " << algo << ", key id " << R::hex(keyid) << ", first MPI " << R::zbits(v[0]) << " bits" << (kind == 2 ? ", wrapped key " + N(rkw.size()) + " octets" : std::string()); ctx.label("PKESK algorithm " + N(algo)); if (keyid == Bytes(8, 0)) ctx.label("wild card key id");
  Bytes ref = R::packet(1, R::pkesk_body(keyid, algo, fields));
  if (!same(ctx, "packet/pkesk/encode-differs-from-reference", ctx.desc.str(), lib, ref)) return;
  Dec d(lib); std::string ds = "packet/pkesk/decode-does-not-recover-fields";
  if (d.ret != 1) { ctx.fail("packet/pkesk/own-packet-not-decoded", "PacketDecode returned " + N(d.ret) + " for " + ctx.desc.str()); return; }
  if (d.c.version != 3 || d.c.pkalgo != (int)algo || arr(d.c.keyid, 8) != keyid) ctx.fail(ds, "version " + N(d.c.version) + " algo " + N(d.c.pkalgo) + " key id " + R::hex(arr(d.c.keyid, 8)));
  if (kind == 0) zeq(ctx, ds, "me", d.c.me, v[0]); else if (kind == 1) { zeq(ctx, ds, "gk", d.c.gk, v[0]); zeq(ctx, ds, "myk", d.c.myk, v[1]); }
  else { zeq(ctx, ds, "ecepk", d.c.ecepk, v[0]); if (d.c.rkwlen != rkw.size() || arr(d.c.rkw, d.c.rkwlen) != rkw) ctx.fail(ds, "wrapped key of " + N(d.c.rkwlen) + " octets"); }
  ctx.nontrivial(N(kind) + R::hex(keyid) + N(R::crc24(ref)));
}
VF_SUB(pkt_skesk_decode, 2500, 50000) { // the library has no SKESK encoder: reference-built packets, decoded fields
  bool v5 = ctx.c.coin(); static const unsigned syms[] = {2, 3, 7, 8, 9, 10, 11, 12, 13}; unsigned sym = syms[ctx.c.index(9)], mode = ctx.c.weighted({1, 2, 4}) == 0 ? 0 : (ctx.c.coin() ? 1 : 3);
  unsigned hash = S2K_HASHES[ctx.c.index(7)], cnt = ctx.c.raw() & 0xFF, aead = 1 + (unsigned)ctx.c.index(2); Bytes salt = content(ctx, 8), iv = content(ctx, aead == 1 ? 16 : 15);
  Bytes esk = content(ctx, v5 ? (size_t)ctx.c.range(17, 48) : (ctx.c.coin() ? 0 : (size_t)ctx.c.range(1, 33)));
  Bytes spec = R::s2k_specifier(mode, hash, salt, cnt), body = v5 ? R::skesk5_body(sym, aead, spec, iv, esk) : R::skesk4_body(sym, spec, esk), pkt = ctx.c.prob(1, 4) ? R::old_packet(3, body, 0) : R::packet(3, body);
  ctx.desc << "SKESK v" << (v5 ? 5 : 4) << " cipher " << sym << " s2k mode " << mode << " hash " << hash_name(hash) << (v5 ? " aead " + N(aead) : std::string()) << ", encrypted key " << esk.size() << " octets";
  ctx.label(std::string("SKESK v") + (v5 ? "5" : "4")); ctx.label("s2k mode " + N(mode)); ctx.label(esk.empty() ? "no encrypted session key" : "with encrypted session key");
  Dec d(pkt);
  if (d.ret != 3) { ctx.fail("packet/skesk/valid-reference-packet-refused", "PacketDecode returned " + N(d.ret) + " for " + ctx.desc.str() + " packet " + R::hex(pkt, 64)); return; }
  bool ok = d.c.version == (v5 ? 5 : 4) && d.c.skalgo == (int)sym && d.c.s2k_type == (int)mode && d.c.s2k_hashalgo == (int)hash && arr(d.c.encdata, d.c.encdatalen) == esk;
  if (mode != 0 && arr(d.c.s2k_salt, 8) != salt) ok = false; if (mode == 3 && d.c.s2k_count != cnt) ok = false; if (v5 && (d.c.aeadalgo != (int)aead || arr(d.c.iv, iv.size()) != iv)) ok = false;
  if (!ok) ctx.fail("packet/skesk/decoded-fields-differ-from-reference-input", "version " + N(d.c.version) + " cipher " + N(d.c.skalgo) + " s2k " + N(d.c.s2k_type) + "/" + N(d.c.s2k_hashalgo) + "/" + N(d.c.s2k_count) + " key " + N(d.c.encdatalen) + " octets for " + ctx.desc.str());
  ctx.nontrivial(R::hex(pkt, 80));
}
VF_SUB(pkt_encrypted_containers, 4000, 80000) {
  unsigned kind = (unsigned)ctx.c.index(4); size_t L;
  switch (ctx.c.weighted({5, 3, 1})) { case 0: L = (size_t)ctx.c.range(1, 300); break; case 1: { static const size_t b[] = {191, 192, 8383, 8384}; L = b[ctx.c.index(4)] + (size_t)ctx.c.range(0, 40) - 36; break; } default: L = (size_t)ctx.c.small(300, 40000); break; }
  std::string cc; Bytes data = content(ctx, kind == 2 ? 20 : L, &cc), lib, ref, got; unsigned tag; std::string name, extra;
  if (kind == 0) { name = "sed"; tag = 9; PGP::PacketSedEncode(data, lib); ref = R::packet(9, data); }
  else if (kind == 1) { name = "seipd"; tag = 18; PGP::PacketSeipdEncode(data, lib); ref = R::packet(18, R::seipd_body(data)); }
  else if (kind == 2) { name = "mdc"; tag = 19; PGP::PacketMdcEncode(data, lib); ref = Bytes{0xD3, 0x14}; R::put(ref, data); }
  else { name = "aead"; tag = 20; static const unsigned s[] = {7, 8, 9, 10, 11, 12, 13}; unsigned sym = s[ctx.c.index(7)], aead = 1 + (unsigned)ctx.c.index(2), chunk = (unsigned)ctx.c.range(0, 56); Bytes iv = content(ctx, aead == 1 ? 16 : 15);
    PGP::PacketAeadEncode((tmcg_openpgp_skalgo_t)sym, (tmcg_openpgp_aeadalgo_t)aead, (tmcg_openpgp_byte_t)chunk, iv, data, lib); ref = R::packet(20, R::aead_body(sym, aead, chunk, iv, data));
    Dec d(lib); if (d.ret != 20 || d.c.version != 1 || d.c.skalgo != (int)sym || d.c.aeadalgo != (int)aead || d.c.chunksize != chunk || arr(d.c.iv, iv.size()) != iv || arr(d.c.encdata, d.c.encdatalen) != data) extra = "PacketDecode returned " + N(d.ret) + " cipher " + N(d.c.skalgo) + " aead " + N(d.c.aeadalgo) + " chunk " + N(d.c.chunksize) + " data " + N(d.c.encdatalen); }
  ctx.desc << name << " packet, " << data.size() << " octets (" << cc << ")"; ctx.label(name);
  if (!same(ctx, "packet/" + name + "/encode-differs-from-reference", ctx.desc.str(), lib, ref)) return;
  if (kind <= 1) { Dec d(lib); if (d.ret != tag || arr(d.c.encdata, d.c.encdatalen) != data || (kind == 1 && d.c.version != 1) || !d.rest.empty()) extra = "PacketDecode returned " + N(d.ret) + " data " + N(d.c.encdatalen) + " octets"; }
  if (kind == 2) { Dec d(lib); if (d.ret != 19 || arr(d.c.mdc_hash, 20) != data) extra = "PacketDecode returned " + N(d.ret); }
  if (!extra.empty()) ctx.fail("packet/" + name + "/decode-does-not-recover-fields", extra + " for " + ctx.desc.str());
  ctx.nontrivial(name + N(R::crc24(ref)) + N(ref.size()));
}
VF_SUB(pkt_misc_decode, 2000, 20000) { // one-pass signature, marker, trust, compressed: reference-built, decoded
  unsigned kind = (unsigned)ctx.c.index(3); bool old = ctx.c.prob(1, 3);
  if (kind == 0) {
    unsigned st = ctx.c.coin() ? 0 : 1, h = S2K_HASHES[ctx.c.index(9)], pk = ctx.c.coin() ? 1 : (ctx.c.coin() ? 17 : 22), nested = (unsigned)ctx.c.index(2); Bytes kid = content(ctx, 8), body = R::onepass_body(st, h, pk, kid, nested);
    ctx.desc << "one-pass signature type " << st << " hash " << h << " algo " << pk << " nested " << nested; ctx.label("one-pass signature");
    Dec d(old ? R::old_packet(4, body, 0) : R::packet(4, body));
    if (d.ret != 4 || d.c.version != 3 || d.c.type != (int)st || d.c.hashalgo != (int)h || d.c.pkalgo != (int)pk || arr(d.c.signingkeyid, 8) != kid || d.c.nestedsignature != nested) ctx.fail("packet/onepass/decoded-fields-differ-from-reference-input", "PacketDecode returned " + N(d.ret) + " for " + ctx.desc.str());
    ctx.nontrivial(R::hex(body));
  } else if (kind == 1) {
    Bytes body{'P', 'G', 'P'}; ctx.desc << "marker packet"; ctx.label("marker"); Dec d(old ? R::old_packet(10, body, 0) : R::packet(10, body));
    if (d.ret != 10 || !d.c.marker) ctx.fail("packet/marker/valid-reference-packet-refused", "PacketDecode returned " + N(d.ret));
    ctx.nontrivial(N(old));
  } else {
    Bytes body = content(ctx, (size_t)ctx.c.range(1, 40)), next = R::packet(13, Bytes(3, 'z')); ctx.desc << "trust packet of " << body.size() << " octets followed by a user id"; ctx.label("trust packet is skipped");
    Dec d(R::cat(old ? R::old_packet(12, body, 0) : R::packet(12, body), next));
    if (d.ret != 12 || d.rest != next) ctx.fail("packet/trust/not-skipped-exactly", "PacketDecode returned " + N(d.ret) + ", " + N(d.rest.size()) + " octets left");
    ctx.nontrivial(R::hex(body));
  }
}

// ---------------------------------------------------------------------------
// signatures: subpacket encoder, the PacketSigPrepare* helpers, PacketSigEncode, decoder
VF_SUB(subpacket_encode, 2500, 50000) {
  unsigned type = (unsigned)ctx.c.range(0, 127); bool crit = ctx.c.coin(); size_t L;
  switch (ctx.c.weighted({4, 4, 1})) { case 0: L = (size_t)ctx.c.range(0, 120); break; case 1: { static const size_t b[] = {190, 191, 8382, 8383, 16318, 16319}; L = b[ctx.c.index(6)] + (size_t)ctx.c.range(0, 4) - 2; break; } default: L = (size_t)ctx.c.small(120, 30000); break; }
  Bytes body = content(ctx, L), lib; PGP::SubpacketEncode((tmcg_openpgp_byte_t)type, crit, body, lib);
  ctx.desc << "subpacket type " << type << (crit ? " critical" : "") << ", body " << L << " octets"; ctx.label(L + 1 < 192 ? "one-octet length" : (L + 1 < 8384 ? "two-octet length" : (L + 1 <= 16319 ? "length 8384..16319 (two- or five-octet form allowed)" : "five-octet length")));
  std::vector<R::Sub> ps;
  if (!R::parse_subpackets(lib, ps) || ps.size() != 1 || ps[0].type != type || ps[0].critical != crit || ps[0].body != body) ctx.fail("subpacket/encode/reference-parser-recovers-something-else", ctx.desc.str() + ": library " + R::hex(lib, 24));
  if (L + 1 < 8384) same(ctx, "subpacket/encode/differs-from-reference", ctx.desc.str(), lib, R::subpacket(type, crit, body));
  ctx.nontrivial(N(type) + N(crit) + N(L) + N(R::crc24(body)));
}
// expectations on the decoded context, one reference subpacket at a time
static void expect_sub(Ctx &ctx, const std::string &sig, Dec &d, const R::Sub &s, size_t &nnot, size_t &nemb, size_t &nrcp) {
  const tmcg_openpgp_packet_ctx_t &c = d.c; const Bytes &b = s.body; bool ok = true;
  auto u32 = [&](size_t o) { return ((uint32_t)b[o] << 24) | ((uint32_t)b[o + 1] << 16) | ((uint32_t)b[o + 2] << 8) | b[o + 3]; };
  auto str = [&](const tmcg_openpgp_byte_t *f, size_t cap) { return arr(f, b.size()) == b && (b.size() >= cap || f[b.size()] == 0); };
  switch (s.type) {
    case 2: ok = c.sigcreationtime == u32(0); break; case 3: ok = c.sigexpirationtime == u32(0); break; case 9: ok = c.keyexpirationtime == u32(0); break;
    case 4: ok = c.exportablecertification == (b[0] == 1); break; case 7: ok = c.revocable == (b[0] == 1); break; case 25: ok = c.primaryuserid == (b[0] == 1); break;
    case 5: ok = c.trustlevel == b[0] && c.trustamount == b[1]; break; case 6: ok = str(c.trustregex, sizeof c.trustregex); break;
    case 11: ok = arr(c.psa, c.psalen) == b; break; case 21: ok = arr(c.pha, c.phalen) == b; break; case 22: ok = arr(c.pca, c.pcalen) == b; break; case 34: ok = arr(c.paa, c.paalen) == b; break;
    case 12: ok = c.revocationkey_class == b[0] && c.revocationkey_pkalgo == (int)b[1] && arr(c.revocationkey_fingerprint, b.size() - 2) == Bytes(b.begin() + 2, b.end()); break;
    case 16: ok = arr(c.issuer, 8) == b; break;
    case 20: { size_t nl = ((size_t)b[4] << 8) | b[5]; ok = nnot < d.notations.size() && d.notations[nnot].first == Bytes(b.begin() + 8, b.begin() + 8 + nl) && d.notations[nnot].second == Bytes(b.begin() + 8 + nl, b.end()); nnot++; break; }
    case 23: ok = str(c.keyserverpreferences, sizeof c.keyserverpreferences); break; case 24: ok = str(c.preferedkeyserver, sizeof c.preferedkeyserver); break;
    case 26: ok = str(c.policyuri, sizeof c.policyuri); break; case 28: ok = str(c.signersuserid, sizeof c.signersuserid); break;
    case 27: ok = arr(c.keyflags, c.keyflagslen) == b; break; case 30: ok = arr(c.features, c.featureslen) == b; break;
    case 29: ok = c.revocationcode == (int)b[0] && arr(c.revocationreason, b.size() - 1) == Bytes(b.begin() + 1, b.end()); break;
    case 31: ok = c.signaturetarget_pkalgo == (int)b[0] && c.signaturetarget_hashalgo == (int)b[1] && arr(c.signaturetarget_hash, b.size() - 2) == Bytes(b.begin() + 2, b.end()); break;
    case 32: ok = arr(c.embeddedsignature, c.embeddedsignaturelen) == b && nemb < d.esigs.size() && d.esigs[nemb] == b; nemb++; break;
    case 33: ok = c.issuerkeyversion == b[0] && arr(c.issuerfingerprint, b.size() - 1) == Bytes(b.begin() + 1, b.end()); break;
    case 35: ok = nrcp < d.rfprs.size() && d.rfprs[nrcp] == Bytes(b.begin() + 1, b.end()); nrcp++; break;
    case 37: ok = arr(c.attestedcertifications, c.attestedcertificationslen) == b; break;
    default: break; // unknown types are ignored
  }
  if (!ok) ctx.fail(sig, "subpacket type " + N(s.type) + " body " + R::hex(b, 40) + " is not reflected in the decoded context [" + ctx.desc.str() + "]");
}
static void expect_signature(Ctx &ctx, const std::string &name, const Bytes &pkt, unsigned version, unsigned sigtype, unsigned pk, unsigned hash, const Bytes &hashed_area, const Bytes &left, const std::vector<Z> &m) {
  Dec d(pkt); std::string ds = "packet/signature/" + name + "/decode-does-not-recover-fields";
  if (d.ret != 2) { ctx.fail("packet/signature/" + name + "/not-decoded", "PacketDecode returned " + N(d.ret) + " for " + ctx.desc.str() + " packet " + R::hex(pkt, 80)); return; }
  if (d.c.version != version || d.c.type != (int)sigtype || d.c.pkalgo != (int)pk || d.c.hashalgo != (int)hash || arr(d.c.left, 2) != left || !d.rest.empty())
    ctx.fail(ds, "version " + N(d.c.version) + " type " + N(d.c.type) + " algo " + N(d.c.pkalgo) + " hash " + N(d.c.hashalgo) + " left " + R::hex(arr(d.c.left, 2)) + " for " + ctx.desc.str());
  if (version != 3) {
    same(ctx, ds, "hashed subpacket data", arr(d.c.hspd, d.c.hspdlen), hashed_area);
    std::vector<R::Sub> subs; if (!R::parse_subpackets(hashed_area, subs)) { ctx.fail("harness/reference-cannot-parse-its-own-subpackets", ctx.desc.str()); return; }
    size_t a = 0, b = 0, c = 0; for (auto &s : subs) expect_sub(ctx, ds, d, s, a, b, c);
  }
  if (pk == 1 || pk == 3) zeq(ctx, ds, "md", d.c.md, m[0]); else { zeq(ctx, ds, "r", d.c.r, m[0]); zeq(ctx, ds, "s", d.c.s, m[1]); }
}
static Bytes issuer_keyid(const Bytes &issuer) { if (issuer.size() == 20) return Bytes(issuer.end() - 8, issuer.end()); if (issuer.size() == 8) return issuer; return Bytes(); }
static tmcg_openpgp_notations_t gen_notations(Ctx &ctx, Bytes &area_part) {
  tmcg_openpgp_notations_t n; unsigned k = (unsigned)ctx.c.weighted({3, 2, 1});
  for (unsigned i = 0; i < k; i++) { std::string nm = text(ctx, (size_t)ctx.c.range(1, 30)) + "@example.org", vl = text(ctx, (size_t)ctx.c.range(0, 200), true); tmcg_openpgp_notation_t t; t.first.assign(nm.begin(), nm.end()); t.second.assign(vl.begin(), vl.end()); n.push_back(t);
    R::put(area_part, R::subpacket(20, false, R::notation_body(true, t.first, t.second))); }
  return n;
}
VF_SUB(pkt_signature, 5000, 100000) {
  unsigned kind = (unsigned)ctx.c.index(9); static const unsigned pks[] = {1, 3, 17, 19, 22}; unsigned pk = pks[ctx.c.index(5)], hash = S2K_HASHES[ctx.c.index(9)];
  uint32_t sigtime = ctx.c.prob(1, 10) ? 0xFFFFFFFFu : ctx.c.raw(), exptime = ctx.c.coin() ? 0 : (uint32_t)ctx.c.range(1, 0xFFFFFFFFULL);
  Bytes issuer; { size_t w = ctx.c.weighted({3, 4, 1}); issuer = content(ctx, w == 0 ? 8 : (w == 1 ? 20 : (size_t)ctx.c.range(0, 7))); }
  Bytes flags = content(ctx, (size_t)ctx.c.range(0, 4)); std::string policy = ctx.c.coin() ? "" : "https://example.org/" + text(ctx, (size_t)(ctx.c.prob(1, 4) ? ctx.c.range(165, 175) : ctx.c.range(0, 60)));
  Bytes kid = issuer_keyid(issuer), area, lib; unsigned sigtype = 0, version = 4; std::string name; bool bis = ctx.c.coin();
  auto add = [&](unsigned t, bool crit, const Bytes &b) { R::put(area, R::subpacket(t, crit, b)); };
  auto add_fpr = [&](const Bytes &f) { Bytes b; b.push_back(f.size() == 20 ? 4 : (f.size() == 32 ? 5 : 0)); R::put(b, f); add(33, false, b); };
  Bytes pol(policy.begin(), policy.end());
  // the preference lists below are the library's documented policy; their encoding is the reference's
  Bytes paa; if (GCRYPT_VERSION_NUMBER >= 0x010900) paa.push_back(1); paa.push_back(2);
  auto prefs_tail = [&]() { add(21, false, Bytes{10, 9, 8}); add(22, false, Bytes{1}); add(23, false, Bytes{0x80}); add(27, false, flags); add(30, false, Bytes{(uint8_t)(bis ? 3 : 1)}); if (issuer.size() == 20) add_fpr(issuer); if (bis) add(34, false, paa); };
  switch (kind) {
    case 0: { name = "self-signature"; static const unsigned ty[] = {0x10, 0x11, 0x12, 0x13, 0x18, 0x19, 0x1F}; sigtype = ty[ctx.c.index(7)];
      add(2, false, R::time_body(sigtime)); if (exptime) add(9, false, R::time_body(exptime)); add(11, false, Bytes{9, 10}); if (!kid.empty()) add(16, false, kid); prefs_tail();
      PGP::PacketSigPrepareSelfSignature((tmcg_openpgp_signature_t)sigtype, (tmcg_openpgp_pkalgo_t)pk, (tmcg_openpgp_hashalgo_t)hash, sigtime, exptime, flags, issuer, bis, lib); break; }
    case 1: { name = "designated-revoker"; sigtype = 0x1F; Bytes rev = ctx.c.coin() ? content(ctx, 20) : Bytes(); unsigned pk2 = pks[ctx.c.index(5)];
      add(2, false, R::time_body(sigtime)); add(11, false, Bytes{9, 10}); if (!rev.empty()) { Bytes b{0x80, (uint8_t)pk2}; R::put(b, rev); add(12, true, b); } if (!kid.empty()) add(16, false, kid); prefs_tail();
      PGP::PacketSigPrepareDesignatedRevoker((tmcg_openpgp_pkalgo_t)pk, (tmcg_openpgp_hashalgo_t)hash, sigtime, flags, issuer, (tmcg_openpgp_pkalgo_t)pk2, rev, bis, lib); break; }
    case 2: { name = "detached"; sigtype = (unsigned)ctx.c.index(3); if (ctx.c.prob(1, 4)) { issuer = content(ctx, 32); kid.clear(); }
      add(2, false, R::time_body(sigtime)); if (exptime) add(3, false, R::time_body(exptime)); if (!kid.empty()) add(16, false, kid); if (!pol.empty()) add(26, false, pol); if (issuer.size() == 20 || issuer.size() == 32) add_fpr(issuer);
      PGP::PacketSigPrepareDetachedSignature((tmcg_openpgp_signature_t)sigtype, (tmcg_openpgp_pkalgo_t)pk, (tmcg_openpgp_hashalgo_t)hash, sigtime, exptime, policy, issuer, lib); break; }
    case 3: { name = "detached-v5"; version = 5; sigtype = (unsigned)ctx.c.index(3); issuer = content(ctx, ctx.c.coin() ? 32 : 20);
      add(2, false, R::time_body(sigtime)); if (exptime) add(3, false, R::time_body(exptime)); if (!pol.empty()) add(26, false, pol); add_fpr(issuer);
      PGP::PacketSigPrepareDetachedSignatureV5((tmcg_openpgp_signature_t)sigtype, (tmcg_openpgp_pkalgo_t)pk, (tmcg_openpgp_hashalgo_t)hash, sigtime, exptime, policy, issuer, lib); break; }
    case 4: { name = "revocation"; static const unsigned ty[] = {0x20, 0x28, 0x30}; sigtype = ty[ctx.c.index(3)]; static const unsigned rc[] = {0, 1, 2, 3, 32, 100, 110}; unsigned code = rc[ctx.c.index(7)]; std::string reason = text(ctx, (size_t)(ctx.c.prob(1, 4) ? ctx.c.range(186, 194) : ctx.c.range(0, 80)), true);
      add(2, false, R::time_body(sigtime)); if (!kid.empty()) add(16, false, kid); { Bytes b; b.push_back(code); R::put(b, reason); add(29, false, b); } if (issuer.size() == 20) add_fpr(issuer);
      PGP::PacketSigPrepareRevocationSignature((tmcg_openpgp_signature_t)sigtype, (tmcg_openpgp_pkalgo_t)pk, (tmcg_openpgp_hashalgo_t)hash, sigtime, (tmcg_openpgp_revcode_t)code, reason, issuer, lib); break; }
    case 5: { name = "certification"; sigtype = 0x10 + (unsigned)ctx.c.index(4);
      add(2, false, R::time_body(sigtime)); if (exptime) add(3, false, R::time_body(exptime)); if (!kid.empty()) add(16, false, kid); if (!pol.empty()) add(26, false, pol); if (issuer.size() == 20) add_fpr(issuer);
      PGP::PacketSigPrepareCertificationSignature((tmcg_openpgp_signature_t)sigtype, (tmcg_openpgp_pkalgo_t)pk, (tmcg_openpgp_hashalgo_t)hash, sigtime, exptime, policy, issuer, lib); break; }
    case 6: case 7: { name = kind == 6 ? "timestamp-target" : "timestamp-embedded"; sigtype = 0x40; unsigned tpk = pks[ctx.c.index(5)], th = S2K_HASHES[ctx.c.index(9)]; Bytes thash = content(ctx, gcry_md_get_algo_dlen(R::gcry_hash_id(th))), emb = content(ctx, (size_t)ctx.c.range(20, 400));
      add(2, true, R::time_body(sigtime)); add(7, true, Bytes{0}); if (!kid.empty()) add(16, true, kid); Bytes np; tmcg_openpgp_notations_t nots = gen_notations(ctx, np); R::put(area, np); if (!pol.empty()) add(26, false, pol);
      if (kind == 6) { Bytes b{(uint8_t)tpk, (uint8_t)th}; R::put(b, thash); add(31, true, b); } else add(32, true, emb); if (issuer.size() == 20) add_fpr(issuer);
      if (kind == 6) PGP::PacketSigPrepareTimestampSignature((tmcg_openpgp_pkalgo_t)pk, (tmcg_openpgp_hashalgo_t)hash, sigtime, policy, issuer, (tmcg_openpgp_pkalgo_t)tpk, (tmcg_openpgp_hashalgo_t)th, thash, nots, lib);
      else PGP::PacketSigPrepareTimestampSignature((tmcg_openpgp_pkalgo_t)pk, (tmcg_openpgp_hashalgo_t)hash, sigtime, policy, issuer, emb, nots, lib); break; }
    default: { name = "attestation"; sigtype = 0x16; Bytes att = content(ctx, (size_t)ctx.c.range(0, 12) * gcry_md_get_algo_dlen(R::gcry_hash_id(hash)));
      add(2, true, R::time_body(sigtime)); if (!kid.empty()) add(16, true, kid); Bytes np; tmcg_openpgp_notations_t nots = gen_notations(ctx, np); R::put(area, np); if (!pol.empty()) add(26, false, pol); if (issuer.size() == 20) add_fpr(issuer); add(37, true, att);
      PGP::PacketSigPrepareAttestationSignature((tmcg_openpgp_pkalgo_t)pk, (tmcg_openpgp_hashalgo_t)hash, sigtime, policy, issuer, att, nots, lib); break; }
  }
  ctx.desc << name << " signature v" << version << " type " << sigtype << " algo " << pk << " hash " << hash_name(hash) << ", issuer " << issuer.size() << " octets, hashed area " << area.size() << " octets";
  ctx.label("helper: " + name); ctx.label("signature algorithm " + N(pk)); ctx.label("issuer of " + N(issuer.size() > 8 ? issuer.size() : (issuer.size() == 8 ? 8 : 0)) + " octets");
  Bytes hp = R::sig4_hashed_part(version, sigtype, pk, hash, area);
  if (!same(ctx, "packet/signature/" + name + "/hashed-part-differs-from-reference", ctx.desc.str(), lib, hp)) return;
  Bytes left = content(ctx, 2), pkt; std::vector<Z> m; m.push_back(gen_int(ctx, 4096, nullptr, true));
  if (pk == 1 || pk == 3) { Mpi s(m[0]); PGP::PacketSigEncode(lib, left, s, pkt); } else { m.push_back(gen_int(ctx, 600, nullptr, true)); Mpi r(m[0]), s(m[1]); PGP::PacketSigEncode(lib, left, r, s, pkt); }
  if (!same(ctx, "packet/signature/encode-differs-from-reference", ctx.desc.str(), pkt, R::packet(2, R::sig4_body(hp, Bytes(), left, R::mpis(m))))) return;
  expect_signature(ctx, name, pkt, version, sigtype, pk, hash, area, left, m);
  ctx.nontrivial(name + N(R::crc24(pkt)) + N(pkt.size()));
}
// reference-built signatures (v3, v4, v5) with generated subpacket sets, decoded by the library
static Bytes gen_sub_body(Ctx &ctx, unsigned t) {
  switch (t) {
    case 2: case 3: case 9: return R::time_body(ctx.c.raw());
    case 4: case 7: case 25: return Bytes{(uint8_t)ctx.c.index(2)};
    case 5: return content(ctx, 2);
    case 6: case 24: case 26: case 28: { std::string s = text(ctx, (size_t)(ctx.c.prob(1, 3) ? ctx.c.range(188, 194) : ctx.c.range(0, 90))); return Bytes(s.begin(), s.end()); }
    case 11: case 21: case 22: case 34: { Bytes b = content(ctx, (size_t)ctx.c.range(0, 8)); for (auto &x : b) x = 1 + x % 20; return b; }
    case 12: { Bytes b{(uint8_t)(0x80 | (ctx.c.coin() ? 0x40 : 0)), (uint8_t)17}; R::put(b, content(ctx, ctx.c.coin() ? 20 : 32)); return b; }
    case 16: return content(ctx, 8);
    case 20: { std::string nm = text(ctx, (size_t)ctx.c.range(1, 40)); Bytes v = content(ctx, (size_t)ctx.c.range(0, 300)); return R::notation_body(ctx.c.coin(), Bytes(nm.begin(), nm.end()), v); }
    case 23: case 27: case 30: { Bytes b = content(ctx, (size_t)ctx.c.range(1, 4)); for (auto &x : b) x |= 1; return b; }
    case 29: { Bytes b{(uint8_t)ctx.c.index(4)}; R::put(b, text(ctx, (size_t)ctx.c.range(0, 100))); return b; }
    case 31: { Bytes b{17, 8}; R::put(b, content(ctx, 32)); return b; }
    case 32: return content(ctx, (size_t)ctx.c.range(12, 300));
    case 33: case 35: { bool v5 = ctx.c.coin(); Bytes b{(uint8_t)(v5 ? 5 : 4)}; R::put(b, content(ctx, v5 ? 32 : 20)); for (size_t i = 1; i < b.size(); i++) b[i] |= 1; return b; }
    case 37: return content(ctx, 32 * (size_t)ctx.c.range(0, 6));
    default: return content(ctx, (size_t)ctx.c.range(0, 60));
  }
}
VF_SUB(sig_decode_reference, 5000, 100000) {
  static const unsigned pks[] = {1, 3, 17, 19, 22}; unsigned pk = pks[ctx.c.index(5)], hash = S2K_HASHES[ctx.c.index(9)], version = ctx.c.weighted({1, 4, 2}) == 0 ? 3 : (ctx.c.coin() ? 4 : 5), sigtype = ctx.c.coin() ? 0 : 0x13;
  Bytes left = content(ctx, 2); std::vector<Z> m; m.push_back(gen_int(ctx, 2048, nullptr, true)); if (!(pk == 1 || pk == 3)) m.push_back(gen_int(ctx, 600, nullptr, true));
  Bytes body, area, unhashed; std::string ucls = "empty unhashed area";
  if (version == 3) { uint32_t t = ctx.c.raw(); Bytes kid = content(ctx, 8); body = R::sig3_body(sigtype, t, kid, pk, hash, left, R::mpis(m)); ctx.desc << "v3 signature"; ctx.label("v3");
    Bytes pkt = ctx.c.coin() ? R::old_packet(2, body, body.size() < 256 ? 0 : 1) : R::packet(2, body); Dec d(pkt);
    if (d.ret != 2 || d.c.version != 3 || d.c.type != (int)sigtype || d.c.sigcreationtime != t || arr(d.c.issuer, 8) != kid || d.c.pkalgo != (int)pk || d.c.hashalgo != (int)hash || arr(d.c.left, 2) != left) ctx.fail("packet/signature/v3/decoded-fields-differ-from-reference-input", "PacketDecode returned " + N(d.ret) + " for " + R::hex(pkt, 60));
    else { if (pk == 1 || pk == 3) zeq(ctx, "packet/signature/v3/decoded-fields-differ-from-reference-input", "md", d.c.md, m[0]); else { zeq(ctx, "packet/signature/v3/decoded-fields-differ-from-reference-input", "r", d.c.r, m[0]); zeq(ctx, "packet/signature/v3/decoded-fields-differ-from-reference-input", "s", d.c.s, m[1]); } }
    ctx.nontrivial(R::hex(pkt, 100)); return; }
  static const unsigned known[] = {2, 3, 4, 5, 6, 7, 9, 11, 12, 16, 20, 21, 22, 23, 24, 25, 26, 27, 28, 29, 30, 31, 32, 33, 34, 35, 37};
  unsigned n = (unsigned)ctx.c.range(1, 10); std::set<unsigned> used; std::string types; bool has16 = false;
  for (unsigned i = 0; i < n; i++) {
    unsigned t; bool unknown = ctx.c.prob(1, 10); if (unknown) { static const unsigned u[] = {1, 8, 10, 13, 14, 15, 17, 18, 19, 36, 38, 39, 60, 99, 100, 110, 127}; t = u[ctx.c.index(17)]; } else t = known[ctx.c.index(27)];
    if (used.count(t) && t != 20 && t != 35) continue; used.insert(t); if (t == 16) has16 = true;
    bool crit = !unknown && t != 20 && ctx.c.prob(1, 4); R::put(area, R::subpacket(t, crit, gen_sub_body(ctx, t))); types += N(t) + (crit ? "! " : " "); ctx.label("subpacket type " + (unknown ? std::string("unknown, not critical") : N(t)));
  }
  Bytes ukid;
  switch (ctx.c.weighted({3, 2, 1})) { case 0: break; case 1: if (!has16) { ukid = content(ctx, 8); ukid[0] |= 1; R::put(unhashed, R::subpacket(16, false, ukid)); ucls = "issuer in the unhashed area"; } break; default: R::put(unhashed, R::subpacket(99, false, content(ctx, 5))); ucls = "unknown subpacket in the unhashed area"; break; }
  Bytes hp = R::sig4_hashed_part(version, sigtype, pk, hash, area); body = R::sig4_body(hp, unhashed, left, R::mpis(m)); Bytes pkt = ctx.c.prob(1, 4) ? R::old_packet(2, body, body.size() < 256 ? (unsigned)ctx.c.index(2) : 1) : R::packet(2, body);
  ctx.desc << "v" << version << " signature algo " << pk << ", hashed subpackets " << types << "(" << area.size() << " octets), " << ucls; ctx.label("v" + N(version)); ctx.label(ucls);
  expect_signature(ctx, "reference-built", pkt, version, sigtype, pk, hash, area, left, m);
  if (!ukid.empty() && !ctx.failed) { Dec d(pkt); if (arr(d.c.issuer, 8) != ukid) ctx.fail("packet/signature/reference-built/unhashed-issuer-not-taken", R::hex(arr(d.c.issuer, 8))); }
  ctx.nontrivial(R::hex(pkt, 200) + N(pkt.size()));
}

// ---------------------------------------------------------------------------
// (8) second judge for the RFC 4880 subset: gpg --list-packets in a throw-away home directory
static bool gpg_available() { static int a = -1; if (a < 0) a = (system("gpg --version >/dev/null 2>&1") == 0) ? 1 : 0; return a == 1; }
static bool gpg_list(const Bytes &in, std::string &out) {
  char tmpl[] = "/tmp/c19gpg.XXXXXX"; char *home = mkdtemp(tmpl); if (!home) return false;
  std::string h = home, f = h + "/in.pgp"; { std::ofstream o(f.c_str(), std::ios::binary); o.write((const char *)in.data(), (std::streamsize)in.size()); }
  std::string cmd = "gpg --homedir '" + h + "' --batch --no-tty --no-autostart --no-options --list-packets '" + f + "' 2>/dev/null";
  FILE *p = popen(cmd.c_str(), "r"); bool ok = p != NULL;
  if (p) { char buf[4096]; size_t n; while ((n = fread(buf, 1, sizeof buf, p)) > 0) out.append(buf, n); pclose(p); }
  std::string rm = "rm -rf '" + h + "'"; if (system(rm.c_str()) != 0) ok = ok && true;
  return ok;
}
static std::string HEX(const Bytes &b) { std::string s; char t[3]; for (uint8_t x : b) { snprintf(t, 3, "%02X", x); s += t; } return s; }
VF_SUB(gpg_second_judge, 32, 400) {
  if (!gpg_available()) { ctx.count("gpg_skipped"); ctx.label("skipped: gpg not installed"); ctx.desc << "gpg not available"; return; }
  unsigned kind = (unsigned)ctx.c.index(6); Bytes art; std::vector<std::string> want; std::string name;
  auto key_packet = [&](Bytes &pkt, std::vector<std::string> &w) {
    static const unsigned algos[] = {1, 16, 17, 19, 22, 18}; unsigned algo = algos[ctx.c.index(6)]; bool sub = ctx.c.coin(); uint32_t created = (uint32_t)ctx.c.range(1, 0x7FFFFFFF); std::vector<Z> v; Bytes material;
    if (algo == 1 || algo == 16 || algo == 17) { size_t nm = algo == 1 ? 2 : (algo == 16 ? 3 : 4); for (size_t i = 0; i < nm; i++) v.push_back(gen_int(ctx, 2048, nullptr, true));
      Z p = v[0], q = algo == 16 ? Z(0) : v[1], g = algo == 16 ? v[1] : (algo == 17 ? v[2] : Z(0)), y = algo == 16 ? v[2] : (algo == 17 ? v[3] : Z(0)); Mpi mp(p), mq(q), mg(g), my(y);
      if (sub) PGP::PacketSubEncode(created, (tmcg_openpgp_pkalgo_t)algo, mp, mq, mg, my, pkt); else PGP::PacketPubEncode(created, (tmcg_openpgp_pkalgo_t)algo, mp, mq, mg, my, pkt); material = R::mpis(v);
      for (size_t i = 0; i < nm; i++) w.push_back("pkey[" + N(i) + "]: [" + N(R::zbits(v[i])) + " bits]"); }
    else { size_t ci = ctx.c.index(3); const tmcg_openpgp_byte_t *o = tmcg_openpgp_oidtable[ci].oid; Bytes oid(o + 1, o + 1 + o[0]); v.push_back(gen_int(ctx, 1060, nullptr, true)); Mpi pt(v[0]);
      if (sub) PGP::PacketSubEncode(created, (tmcg_openpgp_pkalgo_t)algo, oid.size(), oid.data(), pt, TMCG_OPENPGP_HASHALGO_SHA256, TMCG_OPENPGP_SKALGO_AES128, pkt); else PGP::PacketPubEncode(created, (tmcg_openpgp_pkalgo_t)algo, oid.size(), oid.data(), pt, TMCG_OPENPGP_HASHALGO_SHA256, TMCG_OPENPGP_SKALGO_AES128, pkt);
      material = R::ecc_material(oid, v[0], algo == 18, 8, 7); w.push_back("pkey[0]: [" + N(8 * (oid.size() + 1)) + " bits]"); w.push_back("pkey[1]: [" + N(R::zbits(v[0])) + " bits]"); if (algo == 18) w.push_back("pkey[2]: [32 bits]"); }
    Bytes body = R::key_body(4, created, algo, material), kid; PGP::KeyidCompute(body, kid);
    w.push_back(sub ? ":public sub key packet:" : ":public key packet:"); w.push_back("version 4, algo " + N(algo) + ", created " + N(created) + ", expires 0"); w.push_back("keyid: " + HEX(R::keyid_v4(body)));
    if (kid != R::keyid_v4(body)) ctx.fail("keyid/v4/differs-from-reference", "emitted key");
    name += "key algo " + N(algo);
  };
  auto uid_packet = [&](Bytes &pkt, std::vector<std::string> &w) { static const char al[] = "abcdefghijklmnopqrstuvwxyzABCDEFGHIJKLMNOPQRSTUVWXYZ0123456789 <>@.()-"; std::string u; size_t n = (size_t)ctx.c.range(1, 250); for (size_t i = 0; i < n; i++) u += al[ctx.c.index(sizeof(al) - 1)];
    PGP::PacketUidEncode(u, pkt); w.push_back(":user ID packet: \"" + u + "\""); name += "user id of " + N(n) + " octets"; };
  switch (kind) {
    case 0: key_packet(art, want); break;
    case 1: uid_packet(art, want); break;
    case 2: { static const unsigned pks[] = {1, 17, 19, 22}; unsigned pk = pks[ctx.c.index(4)], hash = S2K_HASHES[ctx.c.index(4)], st = (unsigned)ctx.c.index(2); uint32_t t = (uint32_t)ctx.c.range(1, 0x7FFFFFFF); Bytes issuer = content(ctx, ctx.c.coin() ? 20 : 8), hp, left = content(ctx, 2);
      PGP::PacketSigPrepareDetachedSignature((tmcg_openpgp_signature_t)st, (tmcg_openpgp_pkalgo_t)pk, (tmcg_openpgp_hashalgo_t)hash, t, 0, ctx.c.coin() ? "https://example.org/policy" : "", issuer, hp);
      std::vector<Z> m; m.push_back(gen_int(ctx, 2048, nullptr, true)); if (pk == 1) { Mpi s(m[0]); PGP::PacketSigEncode(hp, left, s, art); } else { m.push_back(gen_int(ctx, 520, nullptr, true)); Mpi r(m[0]), s(m[1]); PGP::PacketSigEncode(hp, left, r, s, art); }
      char ld[40]; snprintf(ld, sizeof ld, "begin of digest %02x %02x", left[0], left[1]);
      want.push_back(":signature packet: algo " + N(pk) + ", keyid " + HEX(issuer_keyid(issuer))); want.push_back("version 4, created " + N(t) + ", md5len 0, sigclass 0x0" + N(st)); want.push_back("digest algo " + N(hash) + ", " + ld);
      for (auto &z : m) want.push_back("data: [" + N(R::zbits(z)) + " bits]"); want.push_back("hashed subpkt 2 len 4 (sig created"); if (issuer.size() == 20) want.push_back("hashed subpkt 33 len 21 (issuer fpr v4 " + HEX(issuer) + ")");
      name = "detached signature algo " + N(pk); break; }
    case 3: { Bytes data = content(ctx, (size_t)ctx.c.range(1, 3000)); long now = (long)ctx.c.range(0, 100000000); set_vnow(now); PGP::PacketLitEncode(data, art);
      want.push_back(":literal data packet:"); want.push_back("mode b (62), created " + N(1790000000UL + now) + ", name=\"\","); want.push_back("raw data: " + N(data.size()) + " bytes"); name = "literal data of " + N(data.size()) + " octets"; break; }
    case 4: { bool rsa = ctx.c.coin(); Bytes kid = content(ctx, 8); Z a = gen_int(ctx, 3072, nullptr, true) + (Z(1) << 40), b = gen_int(ctx, 3072, nullptr, true); Mpi ma(a), mb(b);
      if (rsa) PGP::PacketPkeskEncode(kid, ma, art); else PGP::PacketPkeskEncode(kid, ma, mb, art);
      want.push_back(":pubkey enc packet: version 3, algo " + N(rsa ? 1 : 16) + ", keyid " + HEX(kid)); want.push_back("data: [" + N(R::zbits(a)) + " bits]"); if (!rsa) want.push_back("data: [" + N(R::zbits(b)) + " bits]"); name = rsa ? "PKESK RSA" : "PKESK Elgamal"; break; }
    default: { Bytes k, u; key_packet(k, want); name += " + "; uid_packet(u, want); std::string a; PGP::ArmorEncode(TMCG_OPENPGP_ARMOR_PUBLIC_KEY_BLOCK, ctx.c.coin() ? "second judge" : "", R::cat(k, u), a, ctx.c.coin()); art.assign(a.begin(), a.end()); name = "armored key block: " + name; break; }
  }
  ctx.desc << name << " (" << art.size() << " octets)"; ctx.label(name.substr(0, name.find(" algo")).substr(0, name.find(" of ")));
  std::string out; if (!gpg_list(art, out)) { ctx.count("gpg_skipped"); ctx.label("skipped: gpg could not be run"); return; }
  for (auto &w : want) if (out.find(w) == std::string::npos) { ctx.fail("gpg/list-packets/does-not-show-the-encoded-fields", "expected '" + w + "' for " + ctx.desc.str() + "; artefact " + R::hex(art, 120) + "; gpg printed: " + out.substr(0, 900)); break; }
  ctx.count("gpg_runs"); ctx.nontrivial(name + N(R::crc24(art)));
}

// ---------------------------------------------------------------------------
// single edge cases, each with its own signature (kept apart so that none of them masks the sampled checks)
VF_ENUM(edge_cases, 7, 7) {
  size_t i = ctx.c.raw();
  switch (i) {
    case 0: { ctx.desc << "armor with an empty payload, all four types"; ctx.label("armor: empty payload");
      for (size_t t = 0; t < 4; t++) { std::string a; PGP::ArmorEncode(ATYPES[t].t, Bytes(), a); R::Armor ra = R::armor_parse(a);
        if (!ra.ok || !ra.data.empty() || ra.title != ATYPES[t].title) ctx.fail("armor/encode/not-accepted-by-reference-parser", "empty payload: " + ra.why + " " + jstr(a));
        Bytes back(1, 0x42); back.clear(); tmcg_openpgp_armor_t r = PGP::ArmorDecode(a, back);
        if (r != ATYPES[t].t || !back.empty()) ctx.fail("armor/roundtrip/own-armor-of-empty-payload-refused", std::string("ArmorEncode(") + ATYPES[t].title + ", empty) = " + jstr(a) + " ; ArmorDecode of it returned type " + N(r) + " (expected " + N(ATYPES[t].t) + ")"); }
      break; }
    case 1: { ctx.desc << "literal data packet with empty data"; ctx.label("literal: empty data"); set_vnow(5); Bytes lib; PGP::PacketLitEncode(Bytes(), lib);
      Bytes ref = R::packet(11, R::literal_body(0x62, "", 1790000005u, Bytes())); same(ctx, "packet/literal/encode-differs-from-reference", "empty literal", lib, ref);
      Dec d(lib); if (d.ret != 11 || d.c.datalen != 0) ctx.fail("packet/literal/own-packet-with-empty-data-refused", "PacketLitEncode(empty) = " + R::hex(lib) + " ; PacketDecode of it returned " + N(d.ret) + " (expected 11)"); break; }
    case 2: { ctx.desc << "zero MPI through the secure-memory codec"; ctx.label("mpi: zero in secure memory"); Mpi z(Z(0)); tmcg_openpgp_secure_octets_t so; PGP::PacketMPIEncode(z, so); Bytes sb(so.begin(), so.end());
      if (sb != R::mpi(Z(0))) ctx.fail("mpi/encode-secure/differs-from-reference", R::hex(sb)); gcry_mpi_t o = gcry_mpi_new(8); gcry_mpi_set_ui(o, 9); size_t used = PGP::PacketMPIDecode(so, o);
      if (used != 2 || fromG(o) != 0) ctx.fail("mpi/decode-secure/zero-refused", "PacketMPIEncode(0) into secure octets = " + R::hex(sb) + " ; PacketMPIDecode(secure octets) returned " + N(used) + " (expected 2, value 0); the non-secure overload returns 2");
      gcry_mpi_release(o); break; }
    case 3: { ctx.desc << "armor whose checksum line is wrong and one character short"; ctx.label("armor: malformed wrong checksum"); Bytes data{'h', 'e', 'l', 'l', 'o', ' ', 'w', 'o', 'r', 'l', 'd'}; uint32_t c = R::crc24(data) ^ 0x5A5A5A; Bytes cb{(uint8_t)(c >> 16), (uint8_t)(c >> 8), (uint8_t)c};
      std::string a = "-----BEGIN PGP MESSAGE-----\r\n\r\n" + R::b64(data) + "\r\n=" + R::b64(cb).substr(0, 3) + "\r\n-----END PGP MESSAGE-----\r\n"; R::Armor ra = R::armor_parse(a);
      if (ra.ok) ctx.fail("harness/reference-parser-disagrees-with-defect-construction", "short checksum accepted by the reference");
      Bytes back; tmcg_openpgp_armor_t r = PGP::ArmorDecode(a, back); if (r != TMCG_OPENPGP_ARMOR_UNKNOWN) ctx.fail("armor/decode/wrong-checksum-of-three-characters-accepted", "ArmorDecode returned type " + N(r) + " and " + N(back.size()) + " octets for " + jstr(a) + " (correct checksum would be " + R::crc24_text(data) + ")"); break; }
    case 4: { ctx.desc << "complete MESSAGE block nested inside a SIGNATURE block"; ctx.label("armor: nested block of an earlier type"); Bytes inner{'i', 'n', 'n', 'e', 'r', '!', '!'}, outer{'o', 'u', 't', 'e', 'r', ' ', 'd', 'a', 't', 'a'};
      std::string a = "-----BEGIN PGP SIGNATURE-----\r\n\r\n" + R::b64(outer) + "\r\n" + R::armor_build("PGP MESSAGE", R::Headers(), inner) + R::crc24_text(outer) + "\r\n-----END PGP SIGNATURE-----\r\n";
      if (R::armor_parse(a).ok) ctx.fail("harness/reference-parser-disagrees-with-defect-construction", "nested block accepted by the reference");
      Bytes back; tmcg_openpgp_armor_t r = PGP::ArmorDecode(a, back); if (r != TMCG_OPENPGP_ARMOR_UNKNOWN) ctx.fail("armor/decode/nested-block-of-earlier-type-accepted", "ArmorDecode returned type " + N(r) + " and payload " + jstr(std::string(back.begin(), back.end())) + " for " + jstr(a)); break; }
    case 5: { ctx.desc << "armor comment that contains five dashes"; ctx.label("armor: comment with five dashes"); Bytes data{1, 2, 3, 4, 5, 6, 7, 8, 9}; std::string a; PGP::ArmorEncode(TMCG_OPENPGP_ARMOR_MESSAGE, "see ----- below", data, a);
      R::Armor ra = R::armor_parse(a); if (!ra.ok || ra.data != data) ctx.fail("armor/encode/not-accepted-by-reference-parser", ra.why);
      Bytes back; tmcg_openpgp_armor_t r = PGP::ArmorDecode(a, back); if (r != TMCG_OPENPGP_ARMOR_MESSAGE || back != data) ctx.fail("armor/roundtrip/own-armor-with-dashes-in-comment-refused", "ArmorEncode(MESSAGE, comment 'see ----- below') = " + jstr(a) + " ; ArmorDecode of it returned type " + N(r)); break; }
    default: { ctx.desc << "protected secret key with a secret of fewer than ten octets"; ctx.label("secret key: short secret, protected"); Mpi p(Z(1) << 600), q((Z(1) << 159) + 7), g(Z(3)), y(Z(1) << 500), x(Z(5)); Bytes salt(8, 1), iv(16, 2), lib; rng_script(R::cat(salt, iv));
      PGP::PacketSecEncode(1700000000, TMCG_OPENPGP_PKALGO_DSA, p, q, g, y, x, sec("pw"), lib); rng_script_clear();
      std::vector<Z> pub{Z(1) << 600, (Z(1) << 159) + 7, Z(3), Z(1) << 500}, sv{Z(5)}; Bytes body = R::key_body(4, 1700000000, 17, R::mpis(pub)); R::put(body, R::secret_sha1_aes256(sv, "pw", 8, salt, 0xAC, iv));
      same(ctx, "packet/secret-key-protected/encode-differs-from-reference", "short secret", lib, R::packet(5, body)); break; }
  }
  ctx.nontrivial("edge" + N(i));
}
