// C19 — OpenPGP encodings conform to the standard and round-trip.
// Oracle: lib/refpgp.hh (independent reference written from RFC 4880 / RFC 6637 /
// rfc4880bis-06), second judge: gpg --list-packets.  The library's decoder is fed
// only well-formed library/reference output plus the named armor defect classes.
#include "fix.hh"
#include "refpgp.hh"
#include <dirent.h>
using namespace vf;
namespace R = refpgp;
typedef CallasDonnerhackeFinneyShawThayerRFC4880 PGP;
typedef R::Bytes Bytes; // identical to tmcg_openpgp_octets_t (std::vector<uint8_t>)
const char *vf::PROPERTY = "C19";
void vf::harness_init() {
  std::string e = R::selftest();
  if (!e.empty()) { fprintf(stderr, "refpgp self test failed: %s\n", e.c_str()); abort(); }
}

// ---------------------------------------------------------------------------
// helpers
static std::string N(uint64_t v) { return std::to_string(v); }
static Bytes content(Ctx &ctx, size_t n, std::string *cls = nullptr) { // n octets from the choice sequence
  Bytes b(n); std::string c;
  if (n <= 48) { c = "drawn"; for (size_t i = 0; i < n; i++) b[i] = (uint8_t)ctx.c.raw(); }
  else switch (ctx.c.weighted({1, 1, 1, 6, 1})) {
    case 0: c = "zeros"; break;
    case 1: c = "ones"; std::fill(b.begin(), b.end(), 0xFF); break;
    case 2: { c = "ramp"; unsigned s = ctx.c.raw(); for (size_t i = 0; i < n; i++) b[i] = (uint8_t)(s + i); break; }
    case 3: { c = "random"; uint64_t s = ctx.c.raw64(); for (size_t i = 0; i < n; i += 8) { uint64_t r = mix64(s + i); for (size_t k = 0; k < 8 && i + k < n; k++) b[i + k] = (uint8_t)(r >> (8 * k)); } break; }
    default: { c = "few-values"; static const uint8_t vals[] = {0x00, 0x3F, 0x40, 0xFB, 0xFC, 0xFF, 0x0D, 0x0A, 0x2D, 0x3D}; uint64_t s = ctx.c.raw64(); for (size_t i = 0; i < n; i++) b[i] = vals[mix64(s + i) % 10]; break; }
  }
  if (cls) *cls = c; return b;
}
static std::string text(Ctx &ctx, size_t n, bool utf8 = false) { // printable text
  std::string s; for (size_t i = 0; i < n; i++) { unsigned r = ctx.c.raw(); if (utf8 && r % 11 == 0) s += "\xC3\xA4"; else s += (char)(0x20 + r % 95); } return s;
}
struct Mpi { // gcry_mpi_t with the value of a Z
  gcry_mpi_t m;
  explicit Mpi(const Z &v) : m(NULL) { Bytes b = R::be_octets(v); if (b.empty()) { m = gcry_mpi_new(8); gcry_mpi_set_ui(m, 0); } else gcry_mpi_scan(&m, GCRYMPI_FMT_USG, b.data(), b.size(), NULL); }
  ~Mpi() { gcry_mpi_release(m); }
  operator gcry_mpi_t() const { return m; }
private: Mpi(const Mpi &); Mpi &operator=(const Mpi &);
};
static Z fromG(gcry_mpi_t g) {
  if (!g) return Z(-1); size_t n = (gcry_mpi_get_nbits(g) + 7) / 8; Bytes b(n ? n : 1); size_t w = 0;
  if (gcry_mpi_print(GCRYMPI_FMT_USG, b.data(), b.size(), &w, g)) return Z(-2); b.resize(w); return R::from_be(b);
}
static Z gen_int(Ctx &ctx, unsigned maxbits, std::string *cls = nullptr, bool nonzero = false) {
  Z v; std::string c; unsigned k = (unsigned)ctx.c.small(1, maxbits);
  switch (ctx.c.weighted({1, 1, 2, 2, 1, 2, 5})) {
    case 0: v = 0; c = "zero"; break;
    case 1: v = 1; c = "one"; break;
    case 2: v = Z(1) << k; c = "2^k"; break;
    case 3: v = (Z(1) << k) - 1; c = "2^k-1"; break;
    case 4: v = (Z(1) << k) + 1; c = "2^k+1"; break;
    case 5: { unsigned by = (unsigned)ctx.c.range(1, (maxbits + 7) / 8); v = zrand_bits(ctx, 8 * by); if (ctx.c.coin()) mpz_setbit(v.get_mpz_t(), 8 * by - 1); else { v >>= 7; } c = "octet-boundary"; break; }
    default: v = zrand_bits(ctx, k); c = "random"; break;
  }
  if (nonzero && v == 0) { v = 1; c = "one"; }
  if (cls) *cls = c; return v;
}
static std::string diff(const Bytes &lib, const Bytes &ref) {
  size_t d = R::first_diff(lib, ref); std::ostringstream o;
  o << "library (" << lib.size() << " octets) " << R::hex(Bytes(lib.begin() + (d > 8 ? d - 8 : 0), lib.end()), 40) << " vs reference (" << ref.size() << " octets) "
    << R::hex(Bytes(ref.begin() + (d > 8 ? d - 8 : 0), ref.end()), 40) << ", first difference at octet " << d << " (shown from octet " << (d > 8 ? d - 8 : 0) << ")";
  return o.str();
}
static bool same(Ctx &ctx, const std::string &sig, const std::string &what, const Bytes &lib, const Bytes &ref) {
  if (lib == ref) return true; ctx.fail(sig, what + ": " + diff(lib, ref) + " [" + ctx.desc.str() + "]"); return false;
}
static tmcg_openpgp_secure_string_t sec(const std::string &s) { tmcg_openpgp_secure_string_t p; for (size_t i = 0; i < s.size(); i++) p += s[i]; return p; }
static Bytes arr(const tmcg_openpgp_byte_t *p, size_t n) { return p ? Bytes(p, p + n) : Bytes(); }
static std::string cstr(const tmcg_openpgp_byte_t *p, size_t max) { size_t n = 0; while (n < max && p[n]) n++; return std::string((const char *)p, n); }

// one PacketDecode call with its context
struct Dec {
  tmcg_openpgp_packet_ctx_t c; Bytes cur, rest; tmcg_openpgp_notations_t notations; tmcg_openpgp_multiple_octets_t esigs, rfprs; unsigned ret;
  explicit Dec(const Bytes &in) : rest(in) { PGP::MemoryGuardReset(); ret = PGP::PacketDecode(rest, 0, c, cur, notations, esigs, rfprs); }
  ~Dec() { PGP::PacketContextRelease(c); }
private: Dec(const Dec &); Dec &operator=(const Dec &);
};

// ---------------------------------------------------------------------------
// (1) Radix-64 and CRC-24
static void check_radix64(Ctx &ctx, const Bytes &data, bool full) {
  std::string ref = R::b64(data), nb, lb;
  PGP::Radix64Encode(data, nb, false); PGP::Radix64Encode(data, lb, true);
  std::string where = "input (" + N(data.size()) + " octets) " + R::hex(data, 24);
  if (nb != ref) ctx.fail("radix64/encode/differs-from-reference", where + ": library '" + nb.substr(0, 80) + "' reference '" + ref.substr(0, 80) + "' first difference at character " + N(R::first_diff(nb, ref)));
  std::string stripped; size_t line = 0, maxline = 0; bool lonecr = false;
  for (size_t i = 0; i < lb.size(); i++) {
    if (lb[i] == '\r') { if (i + 1 >= lb.size() || lb[i + 1] != '\n') lonecr = true; continue; }
    if (lb[i] == '\n') { line = 0; continue; }
    stripped += lb[i]; if (++line > maxline) maxline = line;
  }
  if (stripped != ref) ctx.fail("radix64/encode-linebreaks/differs-from-reference-after-removing-line-breaks", where + ": first difference at character " + N(R::first_diff(stripped, ref)) + " library '" + stripped.substr(0, 80) + "'");
  if (maxline > 76) ctx.fail("radix64/encode-linebreaks/line-longer-than-76-characters", where + ": longest line " + N(maxline));
  if (lonecr) ctx.fail("radix64/encode-linebreaks/carriage-return-without-line-feed", where);
  Bytes d1; PGP::Radix64Decode(lb, d1);
  if (d1 != data) ctx.fail("radix64/decode/own-output-not-recovered", where + ": " + diff(d1, data));
  Bytes c; PGP::CRC24Compute(data, c);
  if (c != R::crc24_octets(data)) ctx.fail("crc24/compute/differs-from-reference", where + ": library " + R::hex(c) + " reference " + R::hex(R::crc24_octets(data)));
  if (full) {
    Bytes d2; if (data.size() <= 6000 || ctx.c.prob(1, 4)) PGP::Radix64Decode(R::wrap(ref, 76, "\n"), d2); else d2 = data;
    if (d2 != data) ctx.fail("radix64/decode/reference-text-76-columns-not-recovered", where + ": " + diff(d2, data));
    size_t w = (size_t)ctx.c.range(1, 76); Bytes d3; PGP::Radix64Decode(R::wrap(ref, w, ctx.c.coin() ? "\r\n" : "\n"), d3);
    if (d3 != data) ctx.fail("radix64/decode/reference-text-not-recovered", where + " width " + N(w) + ": " + diff(d3, data));
    std::string ce; PGP::CRC24Encode(data, ce);
    if (ce != R::crc24_text(data)) ctx.fail("crc24/encode/differs-from-reference", where + ": library '" + ce + "' reference '" + R::crc24_text(data) + "'");
    if (lb.find('\n') != std::string::npos) ctx.label("library line width " + N(maxline));
  }
}
static std::string wrap_class(size_t L) {
  size_t m48 = L % 48, m57 = L % 57;
  if (L >= 46 && (m48 <= 2 || m48 >= 46)) return "within 2 octets of a 64-column wrap (multiple of 48 octets)";
  if (L >= 55 && (m57 <= 2 || m57 >= 55)) return "within 2 octets of a 76-column wrap (multiple of 57 octets)";
  return "between wrap boundaries";
}
VF_ENUM(radix64_lengths, 203, 203) { // index = length 0..200; 201 = ALL strings of length <= 2; 202 = 3-octet groups
  size_t i = ctx.c.raw();
  if (i <= 200) {
    size_t L = i; bool boundary = wrap_class(L)[0] == 'w'; unsigned nrand = boundary ? 40 : 8; uint64_t n = 0;
    Bytes b(L, 0); check_radix64(ctx, b, true); n++;
    std::fill(b.begin(), b.end(), 0xFF); check_radix64(ctx, b, true); n++;
    for (size_t k = 0; k < L; k++) b[k] = (uint8_t)(k * 37 + 11); check_radix64(ctx, b, true); n++;
    for (unsigned r = 0; r < nrand && !ctx.failed; r++) { uint64_t s = ctx.c.raw64(); for (size_t k = 0; k < L; k++) b[k] = (uint8_t)(mix64(s + k / 8) >> (8 * (k % 8))); check_radix64(ctx, b, r < 4); n++; }
    ctx.count("strings_checked", n); ctx.label(wrap_class(L)); ctx.desc << "length " << L << ": " << n << " strings"; ctx.nontrivial("L" + N(L));
  } else if (i == 201) {
    uint64_t n = 0; Bytes b; check_radix64(ctx, b, true); n++;
    b.resize(1); for (unsigned a = 0; a < 256 && !ctx.failed; a++) { b[0] = a; check_radix64(ctx, b, false); n++; }
    b.resize(2); for (unsigned a = 0; a < 65536 && !ctx.failed; a++) { b[0] = a >> 8; b[1] = a; check_radix64(ctx, b, false); n++; }
    ctx.count("strings_checked", n); ctx.label("exhaustive: every string of length 0..2"); ctx.desc << "all " << n << " strings of length <= 2"; ctx.nontrivial("all<=2");
  } else {
    static const uint8_t sel[16] = {0x00, 0x01, 0x0F, 0x10, 0x3F, 0x40, 0x7F, 0x80, 0xAA, 0xBF, 0xC0, 0xF0, 0xFB, 0xFC, 0xFE, 0xFF};
    uint64_t n = 0; Bytes b(3);
    for (unsigned a = 0; a < 256 && !ctx.failed; a++) for (unsigned x = 0; x < 16; x++) for (unsigned y = 0; y < 16; y++) { b[0] = a; b[1] = sel[x]; b[2] = sel[y]; check_radix64(ctx, b, false); b[0] = sel[x]; b[1] = a; check_radix64(ctx, b, false); b[1] = sel[y]; b[2] = a; check_radix64(ctx, b, false); n += 3; }
    ctx.count("strings_checked", n); ctx.label("3-octet groups: every value at every position"); ctx.desc << n << " three-octet strings"; ctx.nontrivial("groups");
  }
}
VF_SUB(radix64_sampled, 2500, 50000) {
  size_t L; std::string lc;
  switch (ctx.c.weighted({12, 12, 8, 6, 1})) {
    case 0: L = (size_t)ctx.c.range(0, 400); lc = "0..400"; break;
    case 1: { size_t k = (size_t)ctx.c.small(1, 1458); L = 48 * k + (size_t)ctx.c.range(0, 4) - 2; lc = "48k-2..48k+2"; break; }
    case 2: { size_t k = (size_t)ctx.c.small(1, 1228); L = 57 * k + (size_t)ctx.c.range(0, 4) - 2; lc = "57k-2..57k+2"; break; }
    case 3: L = (size_t)ctx.c.small(401, 70000); lc = "401..70000"; break;
    default: L = (size_t)ctx.c.range(60000, 70000); lc = "60000..70000"; break;
  }
  std::string cc; Bytes d = content(ctx, L, &cc);
  ctx.desc << "length " << L << " (" << lc << ", " << cc << ")"; ctx.label("length " + lc); ctx.label("content " + cc);
  check_radix64(ctx, d, true);
  if (L > 200) ctx.nontrivial(N(L) + cc + N(R::crc24(d)));
}

// ---------------------------------------------------------------------------
// (2) ASCII armor
struct AType { tmcg_openpgp_armor_t t; const char *title; bool encodes; };
static const AType ATYPES[] = {
  {TMCG_OPENPGP_ARMOR_MESSAGE, "PGP MESSAGE", true}, {TMCG_OPENPGP_ARMOR_SIGNATURE, "PGP SIGNATURE", true},
  {TMCG_OPENPGP_ARMOR_PRIVATE_KEY_BLOCK, "PGP PRIVATE KEY BLOCK", true}, {TMCG_OPENPGP_ARMOR_PUBLIC_KEY_BLOCK, "PGP PUBLIC KEY BLOCK", true},
  {TMCG_OPENPGP_ARMOR_FILE, "PGP ARMORED FILE", false}};
static std::string gen_comment(Ctx &ctx, std::string *cls) {
  switch (ctx.c.weighted({3, 3, 2, 1})) {
    case 0: *cls = "no comment"; return "";
    case 1: { *cls = "short comment"; std::string s; size_t n = (size_t)ctx.c.range(1, 20); static const char al[] = "abcdefghijklmnopqrstuvwxyzABCXYZ0123456789 .:/@_=+"; for (size_t i = 0; i < n; i++) s += al[ctx.c.index(sizeof(al) - 1)]; while (!s.empty() && s[s.size() - 1] == ' ') s.erase(s.size() - 1); if (s.empty()) s = "c"; return s; }
    case 2: { *cls = "printable comment"; std::string s = text(ctx, (size_t)ctx.c.range(1, 120)); for (size_t i = 0; i + 1 < s.size(); i++) if (s[i] == '-' && s[i + 1] == '-') s[i + 1] = '.'; while (!s.empty() && s[s.size() - 1] == ' ') s.erase(s.size() - 1); if (s.empty()) s = "c"; return s; }
    default: { *cls = "utf-8 comment"; std::string s; size_t n = (size_t)ctx.c.range(1, 30); for (size_t i = 0; i < n; i++) s += (ctx.c.coin() ? "\xC3\xBC" : "x"); return s; }
  }
}
VF_SUB(armor_roundtrip, 4000, 80000) {
  size_t ti = ctx.c.index(4); const AType &at = ATYPES[ti];
  size_t L; if (ctx.c.prob(1, 3)) { size_t k = (size_t)ctx.c.small(1, 60); L = 48 * k + (size_t)ctx.c.range(0, 4) - 2; } else L = (size_t)ctx.c.small(1, ctx.thorough ? 20000 : 6000);
  std::string cc, ccls; Bytes data = content(ctx, L, &cc); std::string comment = gen_comment(ctx, &ccls); bool version = ctx.c.prob(1, 3);
  ctx.desc << at.title << ", payload " << L << " octets (" << cc << "), " << ccls << (version ? ", version header" : "");
  ctx.label(std::string("type ") + at.title); ctx.label(ccls); ctx.label(wrap_class(L)); if (version) ctx.label("version header");
  std::string out;
  if (comment.empty() && !version && ctx.c.coin()) PGP::ArmorEncode(at.t, data, out); else PGP::ArmorEncode(at.t, comment, data, out, version);
  R::Armor a = R::armor_parse(out);
  if (!a.ok) ctx.fail("armor/encode/not-accepted-by-reference-parser", "reference parser: " + a.why + " for " + ctx.desc.str() + " armor: " + jstr(out.substr(0, 300)));
  else {
    if (a.title != at.title) ctx.fail("armor/encode/wrong-header-line", "title '" + a.title + "' for " + ctx.desc.str());
    R::Headers want; if (version) want.push_back(std::make_pair(std::string("Version"), std::string())); if (!comment.empty()) want.push_back(std::make_pair(std::string("Comment"), comment));
    bool hok = a.headers.size() == want.size();
    for (size_t i = 0; hok && i < want.size(); i++) { if (a.headers[i].first != want[i].first) hok = false; if (want[i].first == "Comment" && a.headers[i].second != comment) hok = false; if (want[i].first == "Version" && a.headers[i].second.empty()) hok = false; }
    if (!hok) ctx.fail("armor/encode/armor-headers-differ", ctx.desc.str() + " armor: " + jstr(out.substr(0, 300)));
    same(ctx, "armor/encode/payload-differs-from-input", "payload decoded by the reference", a.data, data);
    if (!a.has_crc) ctx.fail("armor/encode/no-checksum-line", ctx.desc.str());
    ctx.label("library armor line width " + N(a.max_line));
  }
  { Bytes back; tmcg_openpgp_armor_t t = PGP::ArmorDecode(out, back);
    if (t != at.t || back != data) ctx.fail("armor/decode/own-armor-not-recovered", "ArmorDecode returned type " + N(t) + " payload " + N(back.size()) + " octets for " + ctx.desc.str() + (t == at.t ? " " + diff(back, data) : "")); }
  // valid armor assembled by the reference in forms the RFC allows
  size_t v = ctx.c.index(5); if (v == 1 && L < 4) v = 0; // (a checksum-less MESSAGE armor of <= 3 octets trips the library's fixed "+33" skip: outside the emitted domain)
  const AType &rt = (v == 4) ? ATYPES[4] : at; std::string vname, ra; R::Headers h; if (!comment.empty()) h.push_back(std::make_pair(std::string("Comment"), comment));
  switch (v) {
    case 0: vname = "LF line ends, 76 columns"; ra = R::armor_build(rt.title, h, data, 76, "\n"); break;
    case 1: vname = "no checksum line"; ra = R::armor_build(rt.title, h, data, 64, "\r\n", false); break;
    case 2: vname = "text before and after the block"; ra = "Some text before.\r\nMore: text\r\n" + R::armor_build(rt.title, h, data, 64, "\r\n") + "trailing text\r\n"; break;
    case 3: vname = "several armor headers"; h.push_back(std::make_pair(std::string("Hash"), std::string("SHA256"))); h.push_back(std::make_pair(std::string("Charset"), std::string("UTF-8"))); ra = R::armor_build(rt.title, h, data, (size_t)(4 * ctx.c.range(1, 19)), "\r\n"); break;
    default: vname = "armored file (decode only type)"; ra = R::armor_build(rt.title, h, data, 64, "\n"); break;
  }
  ctx.label("reference armor: " + vname);
  { Bytes back; tmcg_openpgp_armor_t t = PGP::ArmorDecode(ra, back);
    if (t != rt.t || back != data) ctx.fail("armor/decode/valid-reference-armor-not-recovered", vname + ": ArmorDecode returned type " + N(t) + " payload " + N(back.size()) + " octets for " + ctx.desc.str()); }
  ctx.nontrivial(N(ti) + comment + N(version) + N(L) + N(R::crc24(data)) + N(v));
}
VF_SUB(armor_negative, 4000, 80000) {
  size_t ti = ctx.c.index(4); const AType &at = ATYPES[ti]; bool lf = ctx.c.prob(1, 4); std::string eol = lf ? "\n" : "\r\n"; size_t width = lf ? 76 : 64;
  size_t L = (size_t)ctx.c.small(1, 700); Bytes data = content(ctx, L); std::string ccls, comment = gen_comment(ctx, &ccls);
  std::string begin = std::string("-----BEGIN ") + at.title + "-----", end = std::string("-----END ") + at.title + "-----";
  std::string hdr = comment.empty() ? "" : "Comment: " + comment + eol, body = R::wrap(R::b64(data), width, eol) + eol, crc = R::crc24_text(data) + eol;
  std::string good = begin + eol + hdr + eol + body + crc + end + eol, bad, cls;
  switch (ctx.c.index(8)) {
    case 0: { cls = "wrong-checksum"; uint32_t delta = (uint32_t)ctx.c.range(1, 0xFFFFFF), c = R::crc24(data) ^ delta; Bytes cb; cb.push_back(c >> 16); cb.push_back(c >> 8); cb.push_back(c); bad = begin + eol + hdr + eol + body + "=" + R::b64(cb) + eol + end + eol; break; }
    case 1: { cls = "wrong-checksum"; Bytes d2 = data; size_t p = ctx.c.index(L); d2[p] ^= (uint8_t)(1u << ctx.c.index(8)); bad = begin + eol + hdr + eol + R::wrap(R::b64(d2), width, eol) + eol + crc + end + eol; break; }
    case 2: cls = "missing-blank-line"; bad = begin + eol + hdr + body + crc + end + eol; break;
    case 3: cls = "duplicated-begin-line"; bad = begin + eol + begin + eol + hdr + eol + body + crc + end + eol; break;
    case 4: { cls = "nested-block-of-the-same-type"; Bytes inner = content(ctx, (size_t)ctx.c.range(1, 60)); bad = begin + eol + hdr + eol + body + R::armor_build(at.title, R::Headers(), inner, width, eol) + body + crc + end + eol; break; }
    case 5: { size_t tj = ti < 3 ? ti + 1 + ctx.c.index(3 - ti) : 3; if (tj == ti) { cls = "nested-block-of-the-same-type"; } else cls = "nested-block-of-another-type"; Bytes inner = content(ctx, (size_t)ctx.c.range(1, 60)); bad = begin + eol + hdr + eol + body + R::armor_build(ATYPES[tj].title, R::Headers(), inner, width, eol) + crc + end + eol; break; }
    case 6: { cls = "begin-line-inside-the-data"; bad = begin + eol + hdr + eol + body + std::string("-----BEGIN ") + ATYPES[ctx.c.index(4)].title + "-----" + eol + body + crc + end + eol; break; }
    default: { cls = "truncated-footer"; size_t cut = (size_t)ctx.c.range(1, end.size()); bad = begin + eol + hdr + eol + body + crc + end.substr(0, end.size() - cut) + (ctx.c.coin() ? eol : ""); break; }
  }
  ctx.desc << cls << " in " << at.title << " armor, payload " << L << " octets, " << (lf ? "LF/76" : "CRLF/64") << ", " << ccls; ctx.label(cls); ctx.label(std::string("type ") + at.title);
  R::Armor ra = R::armor_parse(bad), rg = R::armor_parse(good);
  if (ra.ok || !rg.ok || rg.data != data) { ctx.fail("harness/reference-parser-disagrees-with-defect-construction", cls + ": defective accepted=" + N(ra.ok) + " intact accepted=" + N(rg.ok) + " " + rg.why); return; }
  { Bytes back; tmcg_openpgp_armor_t t = PGP::ArmorDecode(good, back); if (t != at.t || back != data) ctx.fail("armor/decode/valid-reference-armor-not-recovered", "intact counterpart of " + ctx.desc.str()); }
  Bytes back; tmcg_openpgp_armor_t t = PGP::ArmorDecode(bad, back);
  if (t != TMCG_OPENPGP_ARMOR_UNKNOWN) ctx.fail("armor/decode/" + cls + "-accepted", "ArmorDecode returned type " + N(t) + " and " + N(back.size()) + " octets (reference parser: " + ra.why + ") for " + ctx.desc.str() + " armor: " + jstr(bad.substr(0, 400)));
  ctx.nontrivial(cls + N(ti) + N(L) + N(R::crc24(data)) + comment + N(lf) + N(bad.size()));
}
