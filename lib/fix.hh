// fix.hh — shared fixtures: integers from choice sequences, cached library-
// generated groups and Rabin keys, VTMF player sets with exchanged keys.
#pragma once
#include <libTMCG.hh>
#include <gmpxx.h>
#include <fstream>
#include <sstream>
#include <sys/stat.h>
#include <unistd.h>
#include "vf.hh"

namespace vf {
typedef mpz_class Z;
static inline std::string S(const Z &z) { return zshort(z.get_mpz_t()); }
static inline Z zrand_bits(Ctx &ctx, unsigned bits) {
  Z r = 0; for (unsigned i = 0; i < (bits + 31) / 32; i++) { r <<= 32; r += ctx.c.raw(); }
  if (bits % 32) r >>= (32 - bits % 32);
  return r;
}
static inline Z zrand_below(Ctx &ctx, const Z &m) { if (m <= 1) return 0; return zrand_bits(ctx, mpz_sizeinbase(m.get_mpz_t(), 2) + 32) % m; }
static inline Z zpowm(const Z &b, const Z &e, const Z &m) { Z r; mpz_powm(r.get_mpz_t(), b.get_mpz_t(), e.get_mpz_t(), m.get_mpz_t()); return r; }
static inline Z zinv(const Z &a, const Z &m) { Z r; if (!mpz_invert(r.get_mpz_t(), a.get_mpz_t(), m.get_mpz_t())) return 0; return r; }
static inline Z zmod(const Z &a, const Z &m) { Z r; mpz_mod(r.get_mpz_t(), a.get_mpz_t(), m.get_mpz_t()); return r; }
static inline bool zprime(const Z &a, int reps = 40) { return mpz_probab_prime_p(a.get_mpz_t(), reps) != 0; }
static inline Z zfrom(mpz_srcptr p) { return Z(p); }
static inline Z zparse62(const std::string &s) { Z r; mpz_set_str(r.get_mpz_t(), s.c_str(), TMCG_MPZ_IO_BASE); return r; }
static inline std::string z62(const Z &z) { return z.get_str(TMCG_MPZ_IO_BASE); }

// ---------------------------------------------------------------------------
// Disk cache for expensive library-generated fixtures.  The directory is keyed
// by the harness executable (whose name carries the hash of the library
// objects), so a changed library regenerates its fixtures.
static inline std::string cache_dir() {
  static std::string d;
  if (d.empty()) {
    char buf[4096]; ssize_t n = readlink("/proc/self/exe", buf, sizeof buf - 1); std::string exe = n > 0 ? std::string(buf, n) : "unknown";
    size_t sl = exe.rfind('/'); std::string base = sl == std::string::npos ? exe : exe.substr(sl + 1);
    std::string root = exe.substr(0, sl == std::string::npos ? 0 : sl) + "/../cache";
    mkdir(root.c_str(), 0755); d = root + "/" + base; mkdir(d.c_str(), 0755);
  }
  return d;
}
static inline bool cache_get(const std::string &key, std::string &out) {
  std::ifstream f(cache_dir() + "/" + key); if (!f) return false; std::stringstream ss; ss << f.rdbuf(); out = ss.str(); return !out.empty();
}
static inline void cache_put(const std::string &key, const std::string &val) {
  std::string p = cache_dir() + "/" + key, t = p + ".tmp" + std::to_string(getpid());
  { std::ofstream f(t); f << val; } rename(t.c_str(), p.c_str());
}

// Run `gen` with the library random stream seeded from `key` (so the fixture is
// a pure function of the key and the library), caching the resulting text.
static inline std::string cached_fixture(const std::string &key, std::function<std::string()> gen) {
  std::string v; if (cache_get(key, v)) return v;
  rng_push(hash_str("fixture:" + key)); v = gen(); rng_pop(); cache_put(key, v); return v;
}

enum GroupKind { G_SCHNORR = 0, G_SCHNORR_CANON = 1, G_QR = 2 };
static inline const char *group_kind_name(int k) { return k == G_SCHNORR ? "schnorr" : k == G_SCHNORR_CANON ? "schnorr-canonical" : "qr"; }

// Text of PublishGroup for a library-generated group (p, q, g, k lines).
static inline std::string vtmf_group_text(int kind, unsigned long fsize, unsigned long gsize, unsigned idx) {
  std::ostringstream key; key << "vtmfgroup-" << kind << "-" << fsize << "-" << gsize << "-" << idx;
  return cached_fixture(key.str(), [&]() {
    std::ostringstream o;
    if (kind == G_QR) { BarnettSmartVTMF_dlog_GroupQR v(fsize, gsize); v.PublishGroup(o); }
    else { BarnettSmartVTMF_dlog v(fsize, gsize, kind == G_SCHNORR_CANON); v.PublishGroup(o); }
    return o.str();
  });
}
static inline BarnettSmartVTMF_dlog *vtmf_from_text(int kind, const std::string &text, unsigned long fsize, unsigned long gsize) {
  std::istringstream in(text);
  if (kind == G_QR) return new BarnettSmartVTMF_dlog_GroupQR(in, fsize, gsize);
  return new BarnettSmartVTMF_dlog(in, fsize, gsize, kind == G_SCHNORR_CANON);
}

struct GroupSpec { int kind; unsigned long fsize, gsize; unsigned idx; };
static inline GroupSpec pick_group(Ctx &ctx, bool allow_qr = true) {
  GroupSpec g; g.kind = (int)ctx.c.index(allow_qr ? 3 : 2);
  static const unsigned long sch[][2] = {{384, 128}, {512, 160}, {1024, 160}, {2048, 256}};
  static const unsigned long qr[][2] = {{256, 128}, {384, 160}, {1024, 256}};
  if (g.kind == G_QR) { size_t i = ctx.c.weighted({6, 3, (unsigned)(ctx.thorough ? 1 : 0)}); g.fsize = qr[i][0]; g.gsize = qr[i][1]; }
  else { size_t i = ctx.c.weighted({6, 4, (unsigned)(ctx.thorough ? 1 : 0), (unsigned)(ctx.thorough ? 1 : 0)}); g.fsize = sch[i][0]; g.gsize = sch[i][1]; }
  g.idx = (unsigned)ctx.c.index(g.fsize >= 1024 ? 1 : 3);
  return g;
}
static inline std::string group_desc(const GroupSpec &g) { std::ostringstream o; o << group_kind_name(g.kind) << "(" << g.fsize << "/" << g.gsize << ")#" << g.idx; return o.str(); }

// k VTMF instances on one group with exchanged and finalized keys.
struct VtmfPlayers {
  std::vector<BarnettSmartVTMF_dlog *> v; GroupSpec g; std::vector<std::string> keytext;
  VtmfPlayers(const GroupSpec &gs, size_t k, bool exchange = true) : g(gs) {
    std::string text = vtmf_group_text(gs.kind, gs.fsize, gs.gsize, gs.idx);
    for (size_t i = 0; i < k; i++) { v.push_back(vtmf_from_text(gs.kind, text, gs.fsize, gs.gsize)); v[i]->KeyGenerationProtocol_GenerateKey(); }
    for (size_t i = 0; i < k; i++) { std::ostringstream o; v[i]->KeyGenerationProtocol_PublishKey(o); keytext.push_back(o.str()); }
    if (exchange) {
      for (size_t i = 0; i < k; i++) {
        for (size_t j = 0; j < k; j++) if (j != i) { std::istringstream in(keytext[j]); if (!v[i]->KeyGenerationProtocol_UpdateKey(in)) throw std::runtime_error("fixture: honest key share refused"); }
        v[i]->KeyGenerationProtocol_Finalize();
      }
    }
  }
  ~VtmfPlayers() { for (auto p : v) delete p; }
  size_t size() const { return v.size(); }
  BarnettSmartVTMF_dlog *operator[](size_t i) { return v[i]; }
};

// Rabin keys (TMCG_SecretKey export text), cached
static inline std::string rabin_key_text(unsigned long size, bool nizk, unsigned idx) {
  std::ostringstream key; key << "rabinkey-" << size << "-" << (nizk ? 1 : 0) << "-" << idx;
  return cached_fixture(key.str(), [&]() {
    std::ostringstream name; name << "Player" << idx;
    TMCG_SecretKey sk(name.str(), name.str() + "@example.invalid", size, nizk);
    std::ostringstream o; o << sk; return o.str();
  });
}

} // namespace vf
