// cards.hh — reference opening procedures (the C01 procedure) shared by card/stack harnesses
#pragma once
#include "fix.hh"
#include "pipes.hh"
namespace vf {

// open VTMF card `c` at player `who` with verified contributions of all players except `skip` (skip >= k: nobody skipped)
static inline size_t vtmf_open(VtmfPlayers &P, std::vector<SchindelhauerTMCG *> &T, const VTMF_Card &c, size_t who, size_t skip, bool &verified) {
  verified = true;
  T[who]->TMCG_SelfCardSecret(c, P[who]);
  for (size_t j = 0; j < P.size(); j++) {
    if (j == who || j == skip) continue;
    std::stringstream proof, dummy_in, dummy_out;
    T[j]->TMCG_ProveCardSecret(c, P[j], dummy_in, proof);
    if (!T[who]->TMCG_VerifyCardSecret(c, P[who], proof, dummy_out)) verified = false;
  }
  return T[who]->TMCG_TypeOfCard(c, P[who]);
}

// "God view" opening used where the verified procedure is too expensive (large stacks):
// m = c_2 / c_1^{sum x_j} needs the secret keys, which are private members; instead ask every
// player for its share d_j = c_1^{x_j} through the public proof (first line of the decryption proof is d_j).
// -> not used; openings always go through the library procedure above.

static const unsigned long RABIN_SIZES[] = {672, 768, 1024};
struct RabinPlayers {
  std::vector<TMCG_SecretKey *> sk; TMCG_PublicKeyRing ring;
  RabinPlayers(Ctx &ctx, size_t k, std::ostream &d) : ring(k) {
    unsigned off = (unsigned)ctx.c.index(3);
    for (size_t i = 0; i < k; i++) {
      unsigned long sz = RABIN_SIZES[ctx.c.weighted({5, 3, 2})];
      sk.push_back(new TMCG_SecretKey(rabin_key_text(sz, false, (unsigned)((i + off) % 6))));
      ring.keys[i] = TMCG_PublicKey(*sk[i]); d << (i ? "," : " keys=") << sz;
    }
  }
  // fixed players (no draws): for harness-level statics, which must not consume choices of the case that happens to come first
  RabinPlayers(size_t k, unsigned long sz, unsigned off) : ring(k) { for (size_t i = 0; i < k; i++) { sk.push_back(new TMCG_SecretKey(rabin_key_text(sz, false, (unsigned)((i + off) % 6)))); ring.keys[i] = TMCG_PublicKey(*sk[i]); } }
  ~RabinPlayers() { for (auto p : sk) delete p; }
  size_t size() const { return sk.size(); }
};
// open Rabin-encoded card at player `who` (interactive QR/NQR proofs by every other player)
static inline size_t rabin_open(Ctx &ctx, RabinPlayers &P, unsigned long kappa, size_t w, const TMCG_Card &c, size_t who, bool &verified, std::string &why) {
  size_t k = P.size(); verified = true;
  SchindelhauerTMCG tmcg(kappa, k, w);
  TMCG_CardSecret cs(k, w);
  tmcg.TMCG_SelfCardSecret(c, cs, *P.sk[who], who);
  for (size_t j = 0; j < k; j++) {
    if (j == who) continue;
    Duplex dx; bool ok = false;
    dx.run(ctx.c.seed64(), ctx.c.seed64(),
      [&](std::iostream &io) { SchindelhauerTMCG pt(kappa, k, w); pt.TMCG_ProveCardSecret(c, *P.sk[j], j, io, io); },
      [&](std::iostream &io) { ok = tmcg.TMCG_VerifyCardSecret(c, cs, P.ring.keys[j], j, io, io); });
    if (!ok || dx.a_threw || dx.b_threw) { verified = false; why = "prover " + std::to_string(j) + (dx.stalled() ? " stalled " : " ") + dx.a_what + dx.b_what; return (size_t)-1; }
  }
  return tmcg.TMCG_TypeOfCard(cs);
}
} // namespace vf
