// interpose.cc — harness-side interposers.  Linked into every harness
// executable; because the library objects are linked statically into the same
// executable, their calls to gcry_randomize / gcry_create_nonce /
// gcry_mpi_randomize / time resolve to these definitions.  No change to /repo.
#include "vf.hh"
#include <gcrypt.h>
#include <dlfcn.h>
#include <time.h>
#include <deque>
#include <atomic>

#if defined(__has_feature)
#if __has_feature(address_sanitizer)
#define VF_ASAN 1
#endif
#endif
#if defined(__SANITIZE_ADDRESS__)
#define VF_ASAN 1
#endif
#ifdef VF_ASAN
extern "C" void *__asan_region_is_poisoned(void *beg, size_t size);
#endif

namespace vf {

struct Rng {
  uint64_t s[4] = {0x9E3779B97F4A7C15ULL, 0xD1B54A32D192ED03ULL, 0x8CB92BA72F3D8DD7ULL, 0x2545F4914F6CDD1DULL};
  std::deque<unsigned char> script;   // exact bytes served first
  std::deque<int> req_fill;           // per upcoming request: >=0 => every byte is that value, -1 => stream
  uint64_t drawn = 0;
  std::vector<unsigned char> *sink = nullptr;
  static inline uint64_t rotl(uint64_t x, int k) { return (x << k) | (x >> (64 - k)); }
  uint64_t next() { // xoshiro256**
    uint64_t r = rotl(s[1] * 5, 7) * 9, t = s[1] << 17;
    s[2] ^= s[0]; s[3] ^= s[1]; s[1] ^= s[2]; s[0] ^= s[3]; s[2] ^= t; s[3] = rotl(s[3], 45); return r;
  }
  void seed(uint64_t x) { for (int i = 0; i < 4; i++) { x = mix64(x + i + 1); s[i] = x; } if (!(s[0] | s[1] | s[2] | s[3])) s[0] = 1; script.clear(); req_fill.clear(); drawn = 0; }
  void fill(unsigned char *b, size_t len) {
    int rf = -1;
    if (!req_fill.empty()) { rf = req_fill.front(); req_fill.pop_front(); }
    size_t i = 0;
    while (i < len) {
      if (rf >= 0) { b[i++] = (unsigned char)rf; continue; }
      if (!script.empty()) { b[i++] = script.front(); script.pop_front(); continue; }
      uint64_t r = next();
      for (int k = 0; k < 8 && i < len; k++) { b[i++] = (unsigned char)(r >> (8 * k)); }
    }
    drawn += len;
    if (sink) sink->insert(sink->end(), b, b + len);
  }
};
static thread_local Rng tl_rng;

static thread_local std::vector<Rng> tl_stack;
void rng_seed(uint64_t seed) { tl_rng.seed(seed); }
void rng_push(uint64_t seed) { tl_stack.push_back(tl_rng); tl_rng = Rng(); tl_rng.seed(seed); }
void rng_pop() { if (!tl_stack.empty()) { tl_rng = tl_stack.back(); tl_stack.pop_back(); } }
void rng_script(const std::vector<unsigned char> &bytes) { tl_rng.script.insert(tl_rng.script.end(), bytes.begin(), bytes.end()); }
void rng_script_requests(const std::vector<int> &fills) { tl_rng.req_fill.assign(fills.begin(), fills.end()); }
void rng_script_clear() { tl_rng.script.clear(); tl_rng.req_fill.clear(); }
uint64_t rng_bytes_drawn() { return tl_rng.drawn; }
void rng_record(std::vector<unsigned char> *sink) { tl_rng.sink = sink; }

long vnow = 0;
static const time_t base_time = 1790000000; // fixed epoch of the virtual clock (2026-09-21)
void set_vnow(long v) { vnow = v; }

} // namespace vf

extern "C" {

void gcry_randomize(void *buf, size_t len, enum gcry_random_level) { vf::tl_rng.fill((unsigned char *)buf, len); }
void gcry_create_nonce(void *buf, size_t len) { vf::tl_rng.fill((unsigned char *)buf, len); }
void *gcry_random_bytes(size_t n, enum gcry_random_level) { void *p = gcry_xmalloc(n ? n : 1); vf::tl_rng.fill((unsigned char *)p, n); return p; }
void *gcry_random_bytes_secure(size_t n, enum gcry_random_level) { void *p = gcry_xmalloc_secure(n ? n : 1); vf::tl_rng.fill((unsigned char *)p, n); return p; }
void gcry_mpi_randomize(gcry_mpi_t w, unsigned int nbits, enum gcry_random_level) {
  size_t nbytes = (nbits + 7) / 8;
  std::vector<unsigned char> b(nbytes ? nbytes : 1, 0);
  vf::tl_rng.fill(b.data(), nbytes);
  gcry_mpi_t t = NULL;
  if (nbytes && gcry_mpi_scan(&t, GCRYMPI_FMT_USG, b.data(), nbytes, NULL) == 0) {
    // like libgcrypt's own routine: whole octets, NO masking down to nbits (callers that need fewer bits clear them themselves;
    // an earlier version of this double masked here and so hid a missing gcry_mpi_clear_highbit in the caller)
    gcry_mpi_set(w, t); gcry_mpi_release(t);
  } else gcry_mpi_set_ui(w, 0);
}

time_t time(time_t *t) { time_t r = vf::base_time + vf::vnow; if (t) *t = r; return r; }

// ---- GMP write guard: ASan cannot see writes performed inside libgmp -------
#ifdef VF_ASAN
static void guard(void *p, size_t need, const char *who) {
  if (!p || !need) return;
  void *bad = __asan_region_is_poisoned(p, need);
  if (bad) {
    fprintf(stderr, "GMP-GUARD: %s writes %zu bytes into caller buffer, poisoned at offset %zu\n", who, need, (size_t)((char *)bad - (char *)p));
    fprintf(stderr, "SUMMARY: GmpGuard: heap-buffer-overflow in %s\n", who);
    fflush(stderr);
    __builtin_trap();
  }
}
void *__gmpz_export(void *rop, size_t *countp, int order, size_t size, int endian, size_t nails, mpz_srcptr op) {
  typedef void *(*fn)(void *, size_t *, int, size_t, int, size_t, mpz_srcptr);
  static fn real = (fn)dlsym(RTLD_NEXT, "__gmpz_export");
  if (rop && size) {
    size_t numb = 8 * size - nails; size_t bits = mpz_sgn(op) ? mpz_sizeinbase(op, 2) : 0;
    size_t count = (bits + numb - 1) / numb;
    guard(rop, count * size, "mpz_export");
  }
  return real(rop, countp, order, size, endian, nails, op);
}
char *__gmpz_get_str(char *str, int base, mpz_srcptr op) {
  typedef char *(*fn)(char *, int, mpz_srcptr);
  static fn real = (fn)dlsym(RTLD_NEXT, "__gmpz_get_str");
  if (str) {
    int b = base < 0 ? -base : base; if (b < 2) b = 10;
    // exact length is not known before conversion; use GMP's documented bound minus slack:
    // digits <= sizeinbase (may be 1 too big), plus sign, plus NUL
    size_t need = mpz_sizeinbase(op, b);
    if (need > 1) need -= 1; // lower bound on digits actually written
    need += (mpz_sgn(op) < 0 ? 1 : 0) + 1;
    guard(str, need, "mpz_get_str");
  }
  return real(str, base, op);
}
// The mpz_t OBJECTS handed to libgmp: the library keeps them in new[]-allocated tables (fixed-base exponentiation, caches) and indexes
// those tables with values derived from its input; GMP reads and writes the 16-byte struct inside the uninstrumented libgmp, so an index
// one past the end is invisible to ASan (the struct lands in the redzone).  The most used entry points check that every mpz_t they are
// given lies in addressable memory.
static inline void sguard(const void *p, const char *who) {
  if (!p) return;
  void *bad = __asan_region_is_poisoned(const_cast<void *>(p), sizeof(__mpz_struct));
  if (bad) {
    fprintf(stderr, "GMP-GUARD: %s is handed an mpz_t object outside addressable memory (%p)\n", who, p);
    fprintf(stderr, "SUMMARY: GmpGuard: heap-buffer-overflow in %s\n", who);
    fflush(stderr);
    __builtin_trap();
  }
}
#define VF_REAL(ret, name, ...) typedef ret (*fn)(__VA_ARGS__); static fn real = (fn)dlsym(RTLD_NEXT, "__gmpz_" #name)
void __gmpz_init(mpz_ptr a) { VF_REAL(void, init, mpz_ptr); sguard(a, "mpz_init"); real(a); }
void __gmpz_init2(mpz_ptr a, mp_bitcnt_t n) { VF_REAL(void, init2, mpz_ptr, mp_bitcnt_t); sguard(a, "mpz_init2"); real(a, n); }
void __gmpz_clear(mpz_ptr a) { VF_REAL(void, clear, mpz_ptr); sguard(a, "mpz_clear"); real(a); }
void __gmpz_init_set(mpz_ptr a, mpz_srcptr b) { VF_REAL(void, init_set, mpz_ptr, mpz_srcptr); sguard(a, "mpz_init_set"); sguard(b, "mpz_init_set"); real(a, b); }
void __gmpz_init_set_ui(mpz_ptr a, unsigned long b) { VF_REAL(void, init_set_ui, mpz_ptr, unsigned long); sguard(a, "mpz_init_set_ui"); real(a, b); }
void __gmpz_init_set_si(mpz_ptr a, long b) { VF_REAL(void, init_set_si, mpz_ptr, long); sguard(a, "mpz_init_set_si"); real(a, b); }
void __gmpz_set(mpz_ptr a, mpz_srcptr b) { VF_REAL(void, set, mpz_ptr, mpz_srcptr); sguard(a, "mpz_set"); sguard(b, "mpz_set"); real(a, b); }
void __gmpz_set_ui(mpz_ptr a, unsigned long b) { VF_REAL(void, set_ui, mpz_ptr, unsigned long); sguard(a, "mpz_set_ui"); real(a, b); }
void __gmpz_set_si(mpz_ptr a, long b) { VF_REAL(void, set_si, mpz_ptr, long); sguard(a, "mpz_set_si"); real(a, b); }
int __gmpz_set_str(mpz_ptr a, const char *s, int b) { VF_REAL(int, set_str, mpz_ptr, const char *, int); sguard(a, "mpz_set_str"); return real(a, s, b); }
void __gmpz_add(mpz_ptr r, mpz_srcptr a, mpz_srcptr b) { VF_REAL(void, add, mpz_ptr, mpz_srcptr, mpz_srcptr); sguard(r, "mpz_add"); sguard(a, "mpz_add"); sguard(b, "mpz_add"); real(r, a, b); }
void __gmpz_sub(mpz_ptr r, mpz_srcptr a, mpz_srcptr b) { VF_REAL(void, sub, mpz_ptr, mpz_srcptr, mpz_srcptr); sguard(r, "mpz_sub"); sguard(a, "mpz_sub"); sguard(b, "mpz_sub"); real(r, a, b); }
void __gmpz_mul(mpz_ptr r, mpz_srcptr a, mpz_srcptr b) { VF_REAL(void, mul, mpz_ptr, mpz_srcptr, mpz_srcptr); sguard(r, "mpz_mul"); sguard(a, "mpz_mul"); sguard(b, "mpz_mul"); real(r, a, b); }
void __gmpz_mod(mpz_ptr r, mpz_srcptr a, mpz_srcptr b) { VF_REAL(void, mod, mpz_ptr, mpz_srcptr, mpz_srcptr); sguard(r, "mpz_mod"); sguard(a, "mpz_mod"); sguard(b, "mpz_mod"); real(r, a, b); }
void __gmpz_powm(mpz_ptr r, mpz_srcptr a, mpz_srcptr e, mpz_srcptr m) { VF_REAL(void, powm, mpz_ptr, mpz_srcptr, mpz_srcptr, mpz_srcptr); sguard(r, "mpz_powm"); sguard(a, "mpz_powm"); sguard(e, "mpz_powm"); sguard(m, "mpz_powm"); real(r, a, e, m); }
void __gmpz_powm_ui(mpz_ptr r, mpz_srcptr a, unsigned long e, mpz_srcptr m) { VF_REAL(void, powm_ui, mpz_ptr, mpz_srcptr, unsigned long, mpz_srcptr); sguard(r, "mpz_powm_ui"); sguard(a, "mpz_powm_ui"); sguard(m, "mpz_powm_ui"); real(r, a, e, m); }
int __gmpz_invert(mpz_ptr r, mpz_srcptr a, mpz_srcptr m) { VF_REAL(int, invert, mpz_ptr, mpz_srcptr, mpz_srcptr); sguard(r, "mpz_invert"); sguard(a, "mpz_invert"); sguard(m, "mpz_invert"); return real(r, a, m); }
int __gmpz_cmp(mpz_srcptr a, mpz_srcptr b) { VF_REAL(int, cmp, mpz_srcptr, mpz_srcptr); sguard(a, "mpz_cmp"); sguard(b, "mpz_cmp"); return real(a, b); }
int __gmpz_cmp_ui(mpz_srcptr a, unsigned long b) { VF_REAL(int, cmp_ui, mpz_srcptr, unsigned long); sguard(a, "mpz_cmp_ui"); return real(a, b); }
size_t __gmpz_sizeinbase(mpz_srcptr a, int b) { VF_REAL(size_t, sizeinbase, mpz_srcptr, int); sguard(a, "mpz_sizeinbase"); return real(a, b); }
int __gmpz_tstbit(mpz_srcptr a, mp_bitcnt_t b) { VF_REAL(int, tstbit, mpz_srcptr, mp_bitcnt_t); sguard(a, "mpz_tstbit"); return real(a, b); }
#endif

} // extern "C"

// ---- operator new/delete replacement ----------------------------------------------------------
// The library reads stacks through 640 MB line buffers (new char[TMCG_MAX_STACK_CHARS]); under ASan
// every such allocation costs >2 s of shadow poisoning.  Requests >= 32 MiB are therefore served by
// mmap with a PROT_NONE guard page behind them (an overrun still faults); everything else goes to
// malloc/free, which ASan instruments as usual.  A single request above 1 GiB is reported and aborts
// (the "unbounded allocation" class of C12) instead of being attempted.
#include <sys/mman.h>
#include <new>
#include <mutex>
namespace {
struct BigEnt { void *user; void *base; size_t tot; };
struct BigTab { std::mutex mu; BigEnt e[256]; int n = 0; };
BigTab &bigtab() { static BigTab t; return t; }
const size_t BIG = (size_t)32 << 20, HUGE_REQ = (size_t)1 << 30;
void *vf_alloc(size_t n) {
  if (n >= HUGE_REQ) {
    fprintf(stderr, "VF-ALLOC: single allocation request of %zu bytes\nSUMMARY: VfAlloc: allocation-size-too-big in operator new\n", n); fflush(stderr); __builtin_trap();
  }
  if (n >= BIG) {
    size_t pg = 4096, body = ((n + pg - 1) / pg) * pg, tot = body + pg;
    char *p = (char *)mmap(NULL, tot, PROT_READ | PROT_WRITE, MAP_PRIVATE | MAP_ANONYMOUS | MAP_NORESERVE, -1, 0);
    if (p == MAP_FAILED) throw std::bad_alloc();
    mprotect(p + body, pg, PROT_NONE);
    char *user = p + (body - n); user -= ((uintptr_t)user & 15); // buffer ends (almost) at the guard page
    BigTab &t = bigtab(); std::lock_guard<std::mutex> lk(t.mu);
    if (t.n >= 256) { munmap(p, tot); throw std::bad_alloc(); }
    t.e[t.n].user = user; t.e[t.n].base = p; t.e[t.n].tot = tot; t.n++;
    return user;
  }
  void *p = malloc(n ? n : 1); if (!p) throw std::bad_alloc(); return p;
}
void vf_free(void *p) {
  if (!p) return;
  { BigTab &t = bigtab(); std::lock_guard<std::mutex> lk(t.mu);
    for (int i = 0; i < t.n; i++) if (t.e[i].user == p) { munmap(t.e[i].base, t.e[i].tot); t.e[i] = t.e[t.n - 1]; t.n--; return; }
  }
  free(p);
}
}
void *operator new(size_t n) { return vf_alloc(n); }
void *operator new[](size_t n) { return vf_alloc(n); }
void *operator new(size_t n, const std::nothrow_t &) noexcept { try { return vf_alloc(n); } catch (...) { return nullptr; } }
void *operator new[](size_t n, const std::nothrow_t &) noexcept { try { return vf_alloc(n); } catch (...) { return nullptr; } }
void operator delete(void *p) noexcept { vf_free(p); }
void operator delete[](void *p) noexcept { vf_free(p); }
void operator delete(void *p, size_t) noexcept { vf_free(p); }
void operator delete[](void *p, size_t) noexcept { vf_free(p); }
