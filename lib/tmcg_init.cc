// library initialisation, kept out of vf_main.cc so that the rapidcheck TU does not include libTMCG.hh
#include <libTMCG.hh>
namespace tmcg_init { bool init() { return init_libTMCG(); } }
