// detsim.hh — deterministic simulator for n-party protocol runs: real threads
// passing one baton (exactly one runs at a time), an in-memory implementation
// of the library's abstract unicast interface, a virtual clock behind time()
// (vf::vnow, see interpose.cc) and a seeded scheduler.  A run is a pure function
// of (library code, task seeds, scheduler seed).
#pragma once
#include <thread>
#include <mutex>
#include <condition_variable>
#include <functional>
#include <vector>
#include <deque>
#include <map>
#include <libTMCG.hh>
#include <gmpxx.h>
#include "vf.hh"

namespace detsim {

struct Task { std::thread th; bool done = false, blocked = false; std::function<bool()> pred; long deadline = -1; std::function<void()> fn; uint64_t seed = 1; bool threw = false; std::string what; };
struct Sim {
  std::mutex mu; std::condition_variable cv;
  std::vector<Task *> tasks; int current = -1; uint64_t sched_state = 1; unsigned long steps = 0, clock_advances = 0; bool deadlock = false;
  long max_vtime = 100000; bool vtime_exceeded = false;
  uint64_t srnd() { sched_state ^= sched_state << 13; sched_state ^= sched_state >> 7; sched_state ^= sched_state << 17; return sched_state; }
};
static Sim *g_sim = nullptr;
static thread_local int self = -1;

static void pick_next() { // caller holds the lock
  Sim &S = *g_sim;
  for (;;) {
    std::vector<int> run; long mind = -1; bool alive = false;
    for (size_t i = 0; i < S.tasks.size(); i++) { Task *t = S.tasks[i]; if (t->done) continue; alive = true;
      if (!t->blocked) run.push_back((int)i);
      else if (t->pred && t->pred()) run.push_back((int)i);
      else if (t->deadline >= 0 && t->deadline <= vf::vnow) run.push_back((int)i);
      else if (t->deadline >= 0 && (mind < 0 || t->deadline < mind)) mind = t->deadline; }
    if (!alive) { S.current = -2; S.cv.notify_all(); return; }
    if (!run.empty()) { S.current = run[S.srnd() % run.size()]; S.steps++; S.cv.notify_all(); return; }
    if (mind >= 0 && mind <= S.max_vtime) { vf::vnow = mind; S.clock_advances++; continue; }
    // nobody can run: deadlock (or virtual time budget exhausted): release everybody with failing predicates
    if (mind > S.max_vtime) S.vtime_exceeded = true; else S.deadlock = true;
    for (Task *t : S.tasks) if (!t->done && t->blocked) { t->deadline = vf::vnow; }
  }
}
static void wait_turn(std::unique_lock<std::mutex> &lk) { g_sim->cv.wait(lk, [] { return g_sim->current == self; }); }
// block the calling task until pred() holds or the virtual deadline passes; returns pred()
static bool block_until(std::function<bool()> pred, long deadline) {
  Sim &S = *g_sim; std::unique_lock<std::mutex> lk(S.mu); Task *t = S.tasks[self];
  if (pred()) { t->blocked = false; pick_next(); wait_turn(lk); return true; } // still a scheduling point
  t->blocked = true; t->pred = pred; t->deadline = deadline; pick_next(); wait_turn(lk); t->blocked = false; t->pred = nullptr; return pred();
}
static void yield() { block_until([] { return true; }, -1); }
static void sleep_v(long secs) { long d = vf::vnow + secs; block_until([d] { return vf::vnow >= d; }, d); }

static void spawn(Sim &S, uint64_t seed, std::function<void()> fn) { Task *t = new Task(); t->fn = fn; t->seed = seed; S.tasks.push_back(t); }
static void run(Sim &S, uint64_t sched_seed) {
  g_sim = &S; S.sched_state = sched_seed ? sched_seed : 1; vf::vnow = 0;
  for (size_t i = 0; i < S.tasks.size(); i++) { Task *t = S.tasks[i]; int id = (int)i;
    t->th = std::thread([t, id, &S] { self = id; vf::rng_seed(t->seed); { std::unique_lock<std::mutex> lk(S.mu); wait_turn(lk); }
      try { t->fn(); } catch (std::exception &e) { t->threw = true; t->what = e.what(); } catch (...) { t->threw = true; t->what = "?"; }
      std::unique_lock<std::mutex> lk(S.mu); t->done = true; pick_next(); }); }
  { std::unique_lock<std::mutex> lk(S.mu); pick_next(); }
  for (auto t : S.tasks) t->th.join();
  g_sim = nullptr;
}
static void cleanup(Sim &S) { for (auto t : S.tasks) delete t; S.tasks.clear(); }

// --------------------------------------------------------------------------- network
typedef mpz_class Z;
struct Msg { Z v; unsigned long seq; };
struct Net { size_t n; std::vector<std::vector<std::deque<Msg> > > q; unsigned long sent = 0, seq = 0; unsigned long jitter_window = 0; // 0: strict oldest-first (no jitter)

  // optional tap on every sent value: (from, to, index of the value on that link, value) -> action: 0 pass (value may be rewritten), 1 drop, 2 duplicate
  std::function<int(size_t, size_t, unsigned long, Z &)> tap; std::vector<std::vector<unsigned long> > count;
  std::vector<std::vector<std::vector<Z> > > log; bool keep_log = false;
  Net(size_t n_) : n(n_), q(n_, std::vector<std::deque<Msg> >(n_)), count(n_, std::vector<unsigned long>(n_, 0)), log(n_, std::vector<std::vector<Z> >(n_)) {} };

struct SimNet : public aiounicast {
  Net *net;
  SimNet(size_t n_in, size_t j_in, Net *nt, time_t to) : aiounicast(n_in, j_in, aio_scheduler_roundrobin, to, false, false, false), net(nt) {}
  bool push(mpz_srcptr m, size_t i_in) { if (i_in >= n) return false; Z v(m); int act = 0; unsigned long idx = net->count[j][i_in]++; if (net->tap) act = net->tap(j, i_in, idx, v);
    if (net->keep_log) net->log[j][i_in].push_back(v);
    if (act == 1) return true; net->q[j][i_in].push_back(Msg{v, net->seq++}); if (act == 2) net->q[j][i_in].push_back(Msg{v, net->seq++}); net->sent++; return true; }
  bool Send(mpz_srcptr m, const size_t i_in, const time_t) override { bool r = push(m, i_in); yield(); return r; }
  bool Send(const std::vector<mpz_srcptr> &m, const size_t i_in, const time_t) override { for (auto x : m) if (!push(x, i_in)) return false; yield(); return true; }
  bool pick(size_t need, size_t &i_out, size_t scheduler) {
    if (scheduler == aio_scheduler_direct) return i_out < n && net->q[i_out][j].size() >= need;
    // Synchrony model: messages become visible in the order they were sent (oldest head first); with jitter_window > 0,
    // one time in four any link whose head message is at most `jitter_window` sends younger than the oldest may be served.
    // Which party runs next is always the scheduler's (seeded) choice, so send orders still vary from run to run.
    // (A receiver that starves an old message indefinitely would model an asynchronous network, which the timeout-based
    // protocols do not claim to tolerate; the broadcast class alone is explored under arbitrary schedules in C14.)
    std::vector<size_t> c; unsigned long oldest = ~0UL; size_t oi = n;
    for (size_t i = 0; i < n; i++) if (net->q[i][j].size() >= need) { c.push_back(i); if (net->q[i][j].front().seq < oldest) { oldest = net->q[i][j].front().seq; oi = i; } }
    if (c.empty()) return false;
    unsigned long win = net->jitter_window;
    if (win && g_sim->srnd() % 4 == 0) { std::vector<size_t> near; for (size_t i : c) if (net->q[i][j].front().seq <= oldest + win) near.push_back(i); i_out = near[g_sim->srnd() % near.size()]; }
    else i_out = oi;
    return true; }
  bool recvN(std::vector<mpz_ptr> &m, size_t &i_out, size_t scheduler, time_t timeout) {
    if (scheduler == aio_scheduler_default) scheduler = aio_default_scheduler; if (timeout == aio_timeout_default) timeout = aio_default_timeout;
    size_t need = m.size(), who = i_out; bool direct = (scheduler == aio_scheduler_direct);
    long dl = vf::vnow + (timeout > 0 ? (long)timeout : 1);
    bool ok = block_until([&] { size_t w = who; return pick(need, w, scheduler); }, dl);
    if (!ok) { if (!direct) i_out = n; return false; }
    size_t w = who; if (!pick(need, w, scheduler)) { if (!direct) i_out = n; return false; } i_out = w;
    for (size_t k = 0; k < need; k++) { mpz_set(m[k], net->q[w][j].front().v.get_mpz_t()); net->q[w][j].pop_front(); }
    return true; }
  bool Receive(mpz_ptr m, size_t &i_out, const size_t scheduler, const time_t timeout) override { std::vector<mpz_ptr> v; v.push_back(m); return recvN(v, i_out, scheduler, timeout); }
  bool Receive(std::vector<mpz_ptr> &m, size_t &i_out, const size_t scheduler, const time_t timeout) override { return recvN(m, i_out, scheduler, timeout); }
  void Reset(const size_t, const bool) override {}
};

} // namespace detsim
