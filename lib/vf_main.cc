// vf_main.cc — generic runner: rapidcheck drives generation and shrinking of
// the choice sequence; --replay bypasses rapidcheck entirely.
#include "vf.hh"
#include <rapidcheck.h>
#include <fstream>
#include <iostream>
#include <chrono>
#include <unistd.h>
#include <fcntl.h>

namespace vf {
std::vector<SubInfo> &registry() { static std::vector<SubInfo> r; return r; }
}
using namespace vf;

static std::map<std::string, std::string> g_known;
static Stats g_st;
static std::string g_out, g_tier = "quick";
static const SubInfo *g_sub = nullptr;

static std::string join_u32(const std::vector<uint32_t> &v) {
  std::string s; for (size_t i = 0; i < v.size(); i++) { if (i) s += ","; s += std::to_string(v[i]); } return s;
}
static std::vector<uint32_t> parse_u32(const std::string &s) {
  std::vector<uint32_t> v; size_t i = 0;
  while (i < s.size()) { size_t j = s.find(',', i); if (j == std::string::npos) j = s.size(); if (j > i) v.push_back((uint32_t)strtoul(s.substr(i, j - i).c_str(), NULL, 10)); i = j + 1; }
  return v;
}

static void write_current(const std::vector<uint32_t> &prefix, uint64_t tailseed) {
  if (g_out.empty()) return;
  std::string p = g_out + ".cur";
  int fd = open(p.c_str(), O_WRONLY | O_CREAT | O_TRUNC, 0644);
  if (fd < 0) return;
  std::string s = "{\"sub\":" + jstr(g_sub->name) + ",\"tailseed\":\"" + std::to_string(tailseed) + "\",\"prefix\":[" + join_u32(prefix) + "]}\n";
  ssize_t r = write(fd, s.data(), s.size()); (void)r; close(fd);
}

struct CaseResult { bool failed = false, discarded = false; std::string sig, msg, desc; std::vector<uint32_t> used; };

static CaseResult run_one(const std::vector<uint32_t> &prefix, uint64_t tailseed, bool account) {
  Ctx ctx; ctx.c.prefix = prefix; ctx.c.tailseed = tailseed; ctx.thorough = (g_tier == "thorough");
  ctx.st = &g_st; ctx.known = &g_known; ctx.property = PROPERTY;
  rng_seed(ctx.c.raw64()); // the library's random stream is part of the case
  rng_script_clear(); rng_record(nullptr); set_vnow(0);
  try { g_sub->fn(ctx); }
  catch (const std::exception &e) { ctx.fail(std::string("unexpected-exception/") + g_sub->name, std::string("exception escaped the harness: ") + e.what()); }
  catch (...) { ctx.fail(std::string("unexpected-exception/") + g_sub->name, "non-standard exception escaped the harness"); }
  CaseResult r; r.failed = ctx.failed; r.discarded = ctx.discarded; r.sig = ctx.fail_sig; r.msg = ctx.fail_msg; r.used = ctx.c.used;
  r.desc = ctx.desc.str(); if (r.desc.empty()) r.desc = "choices=[" + join_u32(ctx.c.used.size() > 24 ? std::vector<uint32_t>(ctx.c.used.begin(), ctx.c.used.begin() + 24) : ctx.c.used) + "]";
  if (account) {
    g_st.evaluations++;
    if (ctx.discarded) g_st.discards++;
    if (ctx.case_labels.empty()) ctx.case_labels.push_back("default");
    for (auto &l : ctx.case_labels) {
      g_st.labels[l]++;
      auto &sv = g_st.samples[l]; if (sv.size() < 2) sv.push_back(r.desc);
    }
    if (ctx.is_nontrivial && !ctx.discarded) g_st.nontrivial.insert(hash_str(std::string(g_sub->name) + "\x1e" + ctx.nt_key));
  }
  return r;
}

static void write_stats(const std::vector<CaseResult> &fails, const std::vector<std::vector<uint32_t> > &fail_prefix, double wall) {
  if (g_out.empty()) return;
  std::ofstream o(g_out + ".tmp");
  o << "{\"sub\":" << jstr(g_sub->name) << ",\"evaluations\":" << g_st.evaluations << ",\"discards\":" << g_st.discards << ",\"wall_s\":" << wall;
  o << ",\"nontrivial\":[";
  { bool f = true; for (uint64_t h : g_st.nontrivial) { if (!f) o << ","; f = false; o << "\"" << std::hex << h << std::dec << "\""; } }
  o << "],\"labels\":{";
  { bool f = true; for (auto &kv : g_st.labels) { if (!f) o << ","; f = false; o << jstr(kv.first) << ":" << kv.second; } }
  o << "},\"samples\":{";
  { bool f = true; for (auto &kv : g_st.samples) { if (!f) o << ","; f = false; o << jstr(kv.first) << ":["; for (size_t i = 0; i < kv.second.size(); i++) { if (i) o << ","; o << jstr(kv.second[i]); } o << "]"; } }
  o << "},\"excluded_known\":{";
  { bool f = true; for (auto &kv : g_st.excluded_known) { if (!f) o << ","; f = false; o << jstr(kv.first) << ":" << kv.second; } }
  o << "},\"counters\":{";
  { bool f = true; for (auto &kv : g_st.counters) { if (!f) o << ","; f = false; o << jstr(kv.first) << ":" << kv.second; } }
  o << "},\"failures\":[";
  for (size_t i = 0; i < fails.size(); i++) {
    if (i) o << ",";
    o << "{\"sub\":" << jstr(g_sub->name) << ",\"signature\":" << jstr(fails[i].sig) << ",\"message\":" << jstr(fails[i].msg) << ",\"desc\":" << jstr(fails[i].desc)
      << ",\"tailseed\":\"0\",\"prefix\":[" << join_u32(fail_prefix[i]) << "]}";
  }
  o << "]}\n"; o.close();
  rename((g_out + ".tmp").c_str(), g_out.c_str());
  unlink((g_out + ".cur").c_str());
}

static double now_s() { return std::chrono::duration<double>(std::chrono::steady_clock::now().time_since_epoch()).count(); }

// Shrink a failing choice vector with rapidcheck's shrinkers (remove chunks,
// then shrink each element towards zero); budgeted.
static std::vector<uint32_t> shrink_case(const std::vector<uint32_t> &used, const std::string &sig, long budget, CaseResult &best) {
  std::vector<uint32_t> last = used; long evals = 0;
  // drop trailing zeros first (the zero tail reproduces them)
  while (!last.empty() && last.back() == 0) last.pop_back();
  auto shrinkFn = [](const std::vector<uint32_t> &v) {
    return rc::seq::concat(rc::shrink::removeChunks(v), rc::shrink::eachElement(v, &rc::shrink::integral<uint32_t>));
  };
  auto gen = rc::gen::shrink(rc::gen::just(last), shrinkFn);
  std::string saved = getenv("RC_PARAMS") ? getenv("RC_PARAMS") : "";
  setenv("RC_PARAMS", "max_success=1 seed=1", 1);
  FILE *devnull = fopen("/dev/null", "w"); (void)devnull;
  int saved_err = dup(2); int nul = open("/dev/null", O_WRONLY); dup2(nul, 2);
  rc::check("shrink", [&]() {
    std::vector<uint32_t> v = *gen;
    if (evals >= budget) return; // budget exhausted: accept everything else
    evals++;
    CaseResult r = run_one(v, 0, false);
    if (r.failed && r.sig == sig) { last = v; best = r; RC_FAIL("still failing"); }
  });
  dup2(saved_err, 2); close(nul); close(saved_err);
  setenv("RC_PARAMS", saved.c_str(), 1);
  g_st.counters["shrink_evaluations"] += evals;
  return last;
}

namespace tmcg_init { bool init(); }

int main(int argc, char **argv) {
  std::string sub, replay_prefix, known_file; long cases = -1, from = 0, shrink_budget = 200; uint64_t seed = 1, tailseed = 0; bool list = false, replay = false;
  unsigned max_size = 0;
  for (int i = 1; i < argc; i++) {
    std::string a = argv[i]; auto nxt = [&]() { return std::string(i + 1 < argc ? argv[++i] : ""); };
    if (a == "--list") list = true;
    else if (a == "--sub") sub = nxt();
    else if (a == "--cases") cases = atol(nxt().c_str());
    else if (a == "--from") from = atol(nxt().c_str());
    else if (a == "--seed") seed = strtoull(nxt().c_str(), NULL, 10);
    else if (a == "--tier") g_tier = nxt();
    else if (a == "--out") g_out = nxt();
    else if (a == "--known") known_file = nxt();
    else if (a == "--replay") { replay = true; replay_prefix = nxt(); }
    else if (a == "--tailseed") tailseed = strtoull(nxt().c_str(), NULL, 10);
    else if (a == "--shrink-budget") shrink_budget = atol(nxt().c_str());
    else if (a == "--max-size") max_size = atoi(nxt().c_str());
    else { fprintf(stderr, "unknown argument %s\n", a.c_str()); return 2; }
  }
  if (list) {
    for (auto &s : registry()) printf("{\"name\":%s,\"quick\":%ld,\"thorough\":%ld,\"enumerated\":%s}\n", jstr(s.name).c_str(), s.quick, s.thorough, s.enumerated ? "true" : "false");
    return 0;
  }
  for (auto &s : registry()) if (s.name == sub) g_sub = &s;
  if (!g_sub) { fprintf(stderr, "no such sub-property: %s\n", sub.c_str()); return 2; }
  if (!known_file.empty()) { // lines: signature \t what
    std::ifstream k(known_file); std::string line;
    while (std::getline(k, line)) { size_t t = line.find('\t'); if (t == std::string::npos) g_known[line] = ""; else g_known[line.substr(0, t)] = line.substr(t + 1); }
  }
  if (!tmcg_init::init()) { fprintf(stderr, "library initialisation failed\n"); return 2; }
  harness_init();

  if (replay) {
    if (replay_prefix == "-") replay_prefix = "";
    CaseResult r = run_one(parse_u32(replay_prefix), tailseed, true);
    for (auto &kv : g_st.excluded_known) printf("KNOWN %s\n", kv.first.c_str());
    if (r.failed) { printf("REPLAY-FAIL signature=%s message=%s\ncase: %s\n", r.sig.c_str(), r.msg.c_str(), r.desc.c_str()); return 3; }
    printf("REPLAY-PASS case: %s\n", r.desc.c_str()); return 0;
  }

  if (cases < 0) cases = (g_tier == "thorough") ? g_sub->thorough : g_sub->quick;
  double t0 = now_s();
  std::vector<CaseResult> fails; std::vector<std::vector<uint32_t> > fail_prefix;

  if (g_sub->enumerated) {
    for (long i = from; i < from + cases; i++) {
      uint64_t ts = mix64(seed ^ mix64((uint64_t)i + 77)) | 1;
      std::vector<uint32_t> prefix; prefix.push_back((uint32_t)(ts >> 32)); prefix.push_back((uint32_t)ts); prefix.push_back((uint32_t)i);
      write_current(prefix, ts);
      CaseResult r = run_one(prefix, ts, true);
      if (r.failed) { // indices are independent: keep going, report each distinct signature once
        g_st.failures++;
        bool seen = false; for (auto &f : fails) if (f.sig == r.sig) seen = true;
        if (seen) continue;
        CaseResult best = r; std::vector<uint32_t> m = shrink_case(r.used, r.sig, shrink_budget, best);
        fails.push_back(best); fail_prefix.push_back(m);
        if (fails.size() >= 12) break;
      }
    }
  } else {
    long remaining = cases; uint64_t cur_seed = seed; int restarts = 0;
    while (remaining > 0 && restarts < 1) {
      std::ostringstream p; p << "seed=" << cur_seed << " max_success=" << remaining << " max_size=" << (max_size ? max_size : 100) << " noshrink=1 max_discard_ratio=1000";
      setenv("RC_PARAMS", p.str().c_str(), 1);
      CaseResult found; bool have = false; long done = 0;
      int saved_err = dup(2); int nul = open("/dev/null", O_WRONLY); dup2(nul, 2);
      rc::check(std::string(PROPERTY) + "/" + g_sub->name, [&]() {
        // the whole case is (tailseed); structural shrinking happens on the materialised draws
        uint64_t ts = *rc::gen::noShrink(rc::gen::resize(100, rc::gen::arbitrary<uint64_t>()));
        ts = mix64(ts) | 1;
        std::vector<uint32_t> prefix;
        write_current(prefix, ts);
        CaseResult r = run_one(prefix, ts, true);
        done++;
        if (r.failed) { found = r; have = true; RC_FAIL(r.sig); }
      });
      dup2(saved_err, 2); close(nul); close(saved_err);
      remaining -= done;
      if (have) {
        g_st.failures++;
        CaseResult best = found;
        std::vector<uint32_t> m = shrink_case(found.used, found.sig, shrink_budget, best);
        fails.push_back(best); fail_prefix.push_back(m);
      }
      restarts++;
    }
  }
  write_stats(fails, fail_prefix, now_s() - t0);
  for (size_t i = 0; i < fails.size(); i++) fprintf(stdout, "FAIL sub=%s signature=%s message=%s\n", g_sub->name.c_str(), fails[i].sig.c_str(), fails[i].msg.c_str());
  return fails.empty() ? 0 : 3;
}
