// vf.hh — harness API shared by every property harness under /verif/harness.
//
// A harness is a set of sub-properties.  Each sub-property is a function
// `void f(vf::Ctx&)` that draws every random decision from ctx.c (a choice
// sequence), runs the code under test, and calls ctx.fail(signature, message)
// when its oracle is violated.  The runner (vf_main.cc) drives the functions
// through rapidcheck (generation + shrinking of the choice sequence), through
// plain enumeration, or through a replay of a saved choice sequence.
#pragma once
#include <cstdint>
#include <cstdio>
#include <cstdlib>
#include <cstring>
#include <string>
#include <vector>
#include <map>
#include <set>
#include <sstream>
#include <functional>
#include <stdexcept>
#include <gmp.h>

namespace vf {

static inline uint64_t mix64(uint64_t x) {
  x += 0x9E3779B97F4A7C15ULL; x = (x ^ (x >> 30)) * 0xBF58476D1CE4E5B9ULL;
  x = (x ^ (x >> 27)) * 0x94D049BB133111EBULL; return x ^ (x >> 31);
}
static inline uint64_t hash_str(const std::string &s, uint64_t h = 1469598103934665603ULL) {
  for (unsigned char ch : s) { h ^= ch; h *= 1099511628211ULL; }
  return mix64(h);
}

// ---------------------------------------------------------------------------
// Choice sequence: explicit prefix, then a counter-based pseudo-random tail
// (tailseed == 0 means "all zeros", the minimal tail used while shrinking).
struct Choices {
  std::vector<uint32_t> prefix;
  uint64_t tailseed = 0;
  size_t pos = 0;
  std::vector<uint32_t> used;
  uint32_t raw() {
    uint32_t v;
    if (pos < prefix.size()) v = prefix[pos];
    else if (tailseed == 0) v = 0;
    else v = (uint32_t)(mix64(tailseed ^ mix64(pos + 1)) >> 16);
    pos++; used.push_back(v); return v;
  }
  uint64_t raw64() { uint64_t a = raw(); return (a << 32) | raw(); }
  // uniform-ish integer in [lo, hi] (inclusive); 0 maps to lo (shrink target)
  uint64_t range(uint64_t lo, uint64_t hi) {
    if (hi <= lo) { return lo; }
    uint64_t span = hi - lo + 1;
    if (span == 0) return raw64();
    if (span <= 0xFFFFFFFFULL) return lo + raw() % span;
    return lo + raw64() % span;
  }
  size_t index(size_t n) { return n ? (size_t)range(0, n - 1) : 0; }
  bool coin() { return raw() & 1; }
  // true with probability num/den
  bool prob(unsigned num, unsigned den) { return (raw() % den) < num; }
  template <class T> const T &pick(const std::vector<T> &v) { return v[index(v.size())]; }
  // index according to integer weights
  size_t weighted(std::initializer_list<unsigned> w) {
    unsigned tot = 0; for (unsigned x : w) tot += x;
    unsigned r = raw() % (tot ? tot : 1); size_t i = 0;
    for (unsigned x : w) { if (r < x) return i; r -= x; i++; }
    return 0;
  }
  // size-biased integer in [lo,hi]: mostly small
  uint64_t small(uint64_t lo, uint64_t hi) {
    if (hi <= lo) return lo;
    uint64_t span = hi - lo;
    unsigned bits = 0; while ((span >> bits) > 1 && bits < 63) bits++;
    unsigned b = raw() % (bits + 2);
    uint64_t cap = (b >= 63) ? span : std::min<uint64_t>(span, (1ULL << b));
    return lo + (cap ? raw64() % (cap + 1) : 0);
  }
  uint64_t seed64() { return raw64() | 1; }
};

// ---------------------------------------------------------------------------
struct Stats {
  uint64_t evaluations = 0, discards = 0, failures = 0;
  std::set<uint64_t> nontrivial;                       // hashes of distinct non-trivial cases
  std::map<std::string, uint64_t> labels;              // class histogram
  std::map<std::string, std::vector<std::string> > samples; // per label, first few descriptions
  std::map<std::string, uint64_t> excluded_known;      // signature -> count
  std::map<std::string, std::string> known_what;
  std::map<std::string, int64_t> counters;
};

struct Ctx {
  Choices c;
  bool thorough = false;
  bool failed = false, discarded = false;
  std::string fail_sig, fail_msg;
  std::vector<std::string> case_labels;
  bool is_nontrivial = false; std::string nt_key;
  std::ostringstream desc;   // human-readable description of the case (becomes a sample)
  Stats *st = nullptr;
  const std::map<std::string, std::string> *known = nullptr; // signature -> what
  const char *property = "";

  void label(const std::string &l) { case_labels.push_back(l); }
  void nontrivial(const std::string &key) { is_nontrivial = true; nt_key += key; nt_key += '\x1f'; }
  void count(const std::string &name, int64_t n = 1) { if (st) st->counters[name] += n; }
  void discard() { discarded = true; }
  // Record an oracle violation.  Returns true when it is a listed known
  // finding (the caller may continue with the rest of the case).
  bool fail(const std::string &signature, const std::string &msg) {
    if (known) {
      auto it = known->find(signature);
      if (it != known->end()) { if (st) { st->excluded_known[signature]++; st->known_what[signature] = it->second; } return true; }
    }
    if (!failed) { failed = true; fail_sig = signature; fail_msg = msg; }
    return false;
  }
  bool check(bool cond, const std::string &signature, const std::string &msg) {
    if (!cond) fail(signature, msg); return cond;
  }
};

typedef void (*SubFn)(Ctx &);
struct SubInfo { std::string name; SubFn fn; long quick, thorough; bool enumerated; unsigned max_size; };
std::vector<SubInfo> &registry();
struct Reg { Reg(const char *n, SubFn f, long q, long t, bool e, unsigned ms = 64) { registry().push_back(SubInfo{n, f, q, t, e, ms}); } };

// generated sub-property: q/t = number of cases in the quick/thorough tier
#define VF_SUB(name, q, t) static void name(vf::Ctx &ctx); static vf::Reg vf_reg_##name(#name, name, q, t, false); static void name(vf::Ctx &ctx)
// enumerated sub-property: the first draw ctx.c.raw() is the index 0..N-1, every index is run once
#define VF_ENUM(name, q, t) static void name(vf::Ctx &ctx); static vf::Reg vf_reg_##name(#name, name, q, t, true); static void name(vf::Ctx &ctx)

extern const char *PROPERTY;         // defined by the harness
void harness_init();                 // defined by the harness (may be empty)

// --- RNG / clock control (interpose.cc) ------------------------------------
void rng_seed(uint64_t seed);                 // (re)seed the calling thread's stream
void rng_push(uint64_t seed);                 // save the calling thread's stream and start a fresh one
void rng_pop();                               // restore the saved stream
void rng_script(const std::vector<unsigned char> &bytes); // bytes served before the stream
void rng_script_requests(const std::vector<int> &fills); // i-th upcoming request: every byte = fills[i] (>=0) or stream (-1)
void rng_script_clear();
uint64_t rng_bytes_drawn();
void rng_record(std::vector<unsigned char> *sink); // thread-local recording sink (nullptr = off)
extern long vnow;                             // virtual seconds since base
void set_vnow(long v);

// --- small helpers -----------------------------------------------------------
static inline std::string jstr(const std::string &s) {
  std::string o = "\"";
  for (unsigned char ch : s) {
    if (ch == '"' || ch == '\\') { o += '\\'; o += ch; }
    else if (ch == '\n') o += "\\n";
    else if (ch == '\t') o += "\\t";
    else if (ch < 0x20 || ch >= 0x7f) { char b[8]; snprintf(b, sizeof b, "\\u%04x", ch); o += b; }
    else o += ch;
  }
  return o + "\"";
}
static inline std::string zstr(mpz_srcptr z, int base = 10) {
  char *s = mpz_get_str(NULL, base, z); std::string r(s); free(s); return r;
}
static inline std::string zshort(mpz_srcptr z) {
  std::string s = zstr(z, 16);
  if (s.size() > 24) { std::ostringstream o; o << s.substr(0, 10) << ".." << s.substr(s.size() - 6) << "(" << mpz_sizeinbase(z, 2) << "b)"; return o.str(); }
  return "0x" + s;
}

} // namespace vf
