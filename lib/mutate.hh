// mutate.hh — the value- and text-level mutation catalogue (DESIGN §3 "catalogue") and
// the reference classification of a mutated value, independent of the library.
#pragma once
#include "fix.hh"
namespace vf {

enum Role { R_EXP, R_ELEM, R_HASH, R_OTHER }; // exponent mod q / group element mod p / hash challenge / anything else

struct Mutation { std::string name; bool textual; };
static inline const std::vector<Mutation> &catalogue() {
  static const std::vector<Mutation> c = {
    {"+1", false}, {"-1", false}, {"random-residue", false}, {"0", false}, {"1", false}, {"2", false}, {"p-1", false}, {"p", false}, {"q", false},
    {"v+q", false}, {"v-q", false}, {"v+p", false}, {"neg-v", false}, {"order-k-element", false}, {"2048-bit", false}, {"24000-bit", false},
    {"swap-with-next", true}, {"delete-line", true}, {"duplicate-line", true}, {"truncate-here", true}, {"non-digit", true}, {"empty-line", true},
    {"v-p", false}}; // appended last so that the indices of the older entries (and with them saved replay files) stay valid
  return c;
}

// value mutation: returns false when the mutation is not applicable / yields the same value
static inline bool mutate_value(Ctx &ctx, const std::string &m, const Z &v, const Z &p, const Z &q, Z &out) {
  if (m == "+1") out = v + 1; else if (m == "-1") out = v - 1;
  else if (m == "random-residue") out = zrand_below(ctx, p > 0 ? p : Z(1000003));
  else if (m == "0") out = 0; else if (m == "1") out = 1; else if (m == "2") out = 2;
  else if (m == "p-1") out = p - 1; else if (m == "p") out = p; else if (m == "q") out = q;
  else if (m == "v+q") out = v + q; else if (m == "v-q") out = v - q; else if (m == "v+p") out = v + p; else if (m == "v-p") out = v - p; else if (m == "neg-v") out = -v;
  else if (m == "order-k-element") { // an element of Z_p^* outside the order-q subgroup: x^q for random x has order dividing k = (p-1)/q
    if (p <= 3 || q <= 1) return false; Z k = (p - 1) / q; if (k <= 1) return false;
    for (int t = 0; t < 40; t++) { Z x = zrand_below(ctx, p - 3) + 2; out = zpowm(x, q, p); if (out != 1 && zpowm(out, q, p) != 1) break; out = v; }
  }
  else if (m == "2048-bit") { out = zrand_bits(ctx, 2048); mpz_setbit(out.get_mpz_t(), 2047); }
  else if (m == "24000-bit") { out = zrand_bits(ctx, 64); out <<= 23936; out += 12345; }
  else return false;
  return out != v;
}

// reference classification: what must the receiver do with v' in place of v?
enum Expect { MUST_REFUSE, UNJUDGED };
static inline Expect classify(Role role, const Z &v, const Z &vp, const Z &p, const Z &q) {
  if (role == R_EXP) {
    if (q > 0 && zmod(vp - v, q) == 0) { // congruent: not a different residue
      if (vp < 0) return UNJUDGED;       // negative representative of the same residue: outcome recorded, not judged
      return MUST_REFUSE;                // v+q etc.: out of range, must not be silently reduced
    }
    return MUST_REFUSE;
  }
  if (role == R_ELEM) return MUST_REFUSE; // any other integer is a different element or out of range
  if (role == R_HASH) return MUST_REFUSE;
  return MUST_REFUSE;
}

static inline std::vector<std::string> split_lines(const std::string &s) {
  std::vector<std::string> v; size_t i = 0; while (i < s.size()) { size_t j = s.find('\n', i); if (j == std::string::npos) { v.push_back(s.substr(i)); break; } v.push_back(s.substr(i, j - i)); i = j + 1; } return v;
}
static inline std::string join_lines(const std::vector<std::string> &v) { std::string s; for (auto &l : v) { s += l; s += '\n'; } return s; }

// apply a textual mutation at line `pos`; returns false if not applicable
static inline bool mutate_text(const std::string &m, std::vector<std::string> &lines, size_t pos) {
  if (pos >= lines.size()) return false;
  if (m == "swap-with-next") { if (pos + 1 >= lines.size() || lines[pos] == lines[pos + 1]) return false; std::swap(lines[pos], lines[pos + 1]); return true; }
  if (m == "delete-line") { lines.erase(lines.begin() + pos); return true; }
  if (m == "duplicate-line") { lines.insert(lines.begin() + pos, lines[pos]); return true; }
  if (m == "truncate-here") { lines.resize(pos); return true; }
  if (m == "non-digit") { lines[pos] = "?" + lines[pos] + "!"; return true; }
  if (m == "empty-line") { if (lines[pos].empty()) return false; lines[pos] = ""; return true; }
  return false;
}

} // namespace vf
