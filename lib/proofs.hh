// proofs.hh — registry of the library's prove/verify pairs, each as a Scenario:
// a TRUE statement with its witness, the library prover, the library verifier,
// handles to the verifier-side public inputs (C05) and statement edits that
// make the statement false while the prover keeps its old witness (C04).
#pragma once
#include "cards.hh"
#include "mutate.hh"
#include <memory>
#include <algorithm>

namespace vf {

struct Scenario {
  std::string name; bool interactive = false;
  std::function<void(std::istream &, std::ostream &)> prove;
  std::function<bool(std::istream &, std::ostream &)> verify;
  std::function<void()> after_accept;                    // undo verifier side effects after a `true`
  std::vector<std::pair<std::string, mpz_ptr> > pub;      // verifier-side public inputs the statement speaks about
  std::vector<std::pair<std::string, std::function<bool(Ctx &)> > > edits; // statement edits -> false statement (return false: not applicable)
  std::vector<std::function<void()> > cleanup; std::ostringstream desc;
  std::string ctor_text;                                 // PublishGroup text the verifier-side argument object was built from
  std::vector<size_t> ctor_lines_in_use;                 // lines of ctor_text the proof depends on
  std::function<void(const std::string &)> rebuild_verifier; // rebuild the verifier-side object from (mutated) text
  bool rabin = false;
  Z p, q;                                                // group of the statement (for the reference classification)
  size_t n = 0, kappa = 0;
  ~Scenario() { for (size_t i = cleanup.size(); i-- > 0;) cleanup[i](); }
  template <class T> T *own(T *x) { cleanup.push_back([x] { delete x; }); return x; }
};
typedef std::shared_ptr<Scenario> ScenarioP;

struct RunResult { bool accepted = false, threw = false, stalled = false; std::string what; std::vector<std::string> p_lines, v_lines; };

// honest run (or run with a hook on the prover->verifier lines for interactive scenarios)
static inline RunResult run_scenario(Ctx &ctx, Scenario &s, std::function<int(size_t, std::string &)> hook = nullptr) {
  RunResult r;
  if (!s.interactive) {
    std::stringstream t, nul_in, nul_out; s.prove(nul_in, t);
    r.p_lines = split_lines(t.str());
    std::string text = t.str();
    if (hook) { std::vector<std::string> out; for (size_t i = 0; i < r.p_lines.size(); i++) { std::string l = r.p_lines[i]; int a = hook(i, l); if (a == 3) break; if (a == 1) continue; out.push_back(l); if (a == 2) out.push_back(l); } text = join_lines(out); }
    std::istringstream in(text);
    try { r.accepted = s.verify(in, nul_out); } catch (std::exception &e) { r.threw = true; r.what = e.what(); r.accepted = false; }
  } else {
    Relay rl; bool acc = false;
    rl.run(ctx.c.seed64(), ctx.c.seed64(), [&](std::iostream &io) { s.prove(io, io); }, [&](std::iostream &io) { acc = s.verify(io, io); }, hook);
    r.accepted = acc && !rl.v_threw; r.threw = rl.v_threw || rl.p_threw; r.what = rl.p_what + rl.v_what; r.stalled = rl.stalled(); r.p_lines = rl.p_lines; r.v_lines = rl.v_lines;
  }
  if (r.accepted && s.after_accept) s.after_accept();
  return r;
}

// --------------------------------------------------------------------------- builders
struct VtmfWorld { // 2..3 players, player 0 is the verifier, the last one the prover
  std::shared_ptr<VtmfPlayers> P; GroupSpec g; size_t prover, verifier;
  BarnettSmartVTMF_dlog *pv() { return (*P)[prover]; } BarnettSmartVTMF_dlog *vv() { return (*P)[verifier]; }
};
static inline VtmfWorld make_world(Ctx &ctx, bool allow_qr = true, size_t k = 0) {
  VtmfWorld w; w.g = pick_group(ctx, allow_qr); if (!k) k = (size_t)ctx.c.range(2, 3);
  w.P = std::make_shared<VtmfPlayers>(w.g, k); w.verifier = 0; w.prover = k - 1; return w;
}
static inline void base(Scenario &s, VtmfWorld &w, const char *name) {
  s.name = name; s.p = Z(w.vv()->p); s.q = Z(w.vv()->q); s.desc << name << " " << group_desc(w.g);
  s.cleanup.push_back([w] {}); // keeps the world alive
}
static inline mpz_ptr newz(Scenario &s, const Z &v = 0) { mpz_ptr p = new mpz_t(); mpz_init_set(p, v.get_mpz_t()); s.cleanup.push_back([p] { mpz_clear(p); delete[] p; }); return p; }
static inline void group_pubs(Scenario &s, BarnettSmartVTMF_dlog *v) { s.pub.push_back({"group.p", v->p}); s.pub.push_back({"group.q", v->q}); s.pub.push_back({"group.g", v->g}); s.pub.push_back({"commonkey.h", v->h}); }

// class-level argument objects carry their own group (their PublishGroup text, mutated line by line elsewhere); the VTMF instance of the world is not an input of theirs
static inline void drop_group_pubs(Scenario &s) { std::vector<std::pair<std::string, mpz_ptr> > k; for (auto &x : s.pub) if (x.first.compare(0, 6, "group.") != 0 && x.first != "commonkey.h") k.push_back(x); s.pub = k; }
// random group element of the world's group as Z
static inline Z rand_elem(Ctx &ctx, BarnettSmartVTMF_dlog *v) { return zpowm(Z(v->g), zrand_below(ctx, Z(v->q) - 2) + 2, Z(v->p)); }

// 0: key share NIZK (PublishKey -> UpdateKey on a fresh observer)
static inline ScenarioP sc_key_nizk(Ctx &ctx) {
  auto s = std::make_shared<Scenario>(); GroupSpec g = pick_group(ctx);
  auto P = std::make_shared<VtmfPlayers>(g, 2, false); s->cleanup.push_back([P] {});
  s->name = "key_nizk"; s->p = Z((*P)[0]->p); s->q = Z((*P)[0]->q); s->desc << "key_nizk " << group_desc(g);
  BarnettSmartVTMF_dlog *pr = (*P)[1], *ve = (*P)[0]; std::string keytext = P->keytext[1];
  s->prove = [pr](std::istream &, std::ostream &out) { pr->KeyGenerationProtocol_PublishKey(out); };
  s->verify = [ve](std::istream &in, std::ostream &) { return ve->KeyGenerationProtocol_UpdateKey(in); };
  s->after_accept = [ve, keytext] { std::istringstream in(keytext); ve->KeyGenerationProtocol_RemoveKey(in); };
  s->pub.push_back({"group.p", ve->p}); s->pub.push_back({"group.q", ve->q}); s->pub.push_back({"group.g", ve->g});
  return s;
}
// 1: interactive proof of knowledge of the key share
static inline ScenarioP sc_key_interactive(Ctx &ctx, bool publiccoin) {
  auto s = std::make_shared<Scenario>(); VtmfWorld w = make_world(ctx); base(*s, w, publiccoin ? "key_interactive_publiccoin" : "key_interactive"); s->interactive = true;
  BarnettSmartVTMF_dlog *pr = w.pv(), *ve = w.vv(); mpz_ptr key = newz(*s, Z(pr->h_i));
  if (publiccoin) {
    JareckiLysyanskayaEDCF *e1 = s->own(new JareckiLysyanskayaEDCF(2, 0, pr->p, pr->q, pr->g, pr->h, w.g.fsize, w.g.gsize)), *e2 = s->own(new JareckiLysyanskayaEDCF(2, 0, ve->p, ve->q, ve->g, ve->h, w.g.fsize, w.g.gsize));
    s->prove = [pr, e1](std::istream &in, std::ostream &out) { pr->KeyGenerationProtocol_ProveKey_interactive_publiccoin(e1, in, out); };
    s->verify = [ve, key, e2](std::istream &in, std::ostream &out) { return ve->KeyGenerationProtocol_VerifyKey_interactive_publiccoin(key, e2, in, out); };
  } else {
    s->prove = [pr](std::istream &in, std::ostream &out) { pr->KeyGenerationProtocol_ProveKey_interactive(in, out); };
    s->verify = [ve, key](std::istream &in, std::ostream &out) { return ve->KeyGenerationProtocol_VerifyKey_interactive(key, in, out); };
  }
  s->pub.push_back({"key.h_i", key}); s->pub.push_back({"group.p", ve->p}); s->pub.push_back({"group.q", ve->q}); s->pub.push_back({"group.g", ve->g}); // (the common key h is not part of this statement)
  s->edits.push_back({"key-times-g^delta", [key, ve](Ctx &c) { Z d = zrand_below(c, Z(ve->q) - 2) + 1; Z k = (Z(key) * zpowm(Z(ve->g), d, Z(ve->p))) % Z(ve->p); mpz_set(key, k.get_mpz_t()); return true; }});
  return s;
}
// 2: equality of discrete logs (CP), generic path and table path
static inline ScenarioP sc_cp(Ctx &ctx, bool table) {
  auto s = std::make_shared<Scenario>(); VtmfWorld w = make_world(ctx); base(*s, w, table ? "cp_table_path" : "cp_generic"); BarnettSmartVTMF_dlog *pr = w.pv(), *ve = w.vv();
  Z p = s->p, q = s->q, alpha = zrand_below(ctx, q - 1) + 1;
  Z gg = table ? Z(ve->g) : rand_elem(ctx, ve), hh = table ? Z(ve->h) : rand_elem(ctx, ve);
  mpz_ptr x = newz(*s, zpowm(gg, alpha, p)), y = newz(*s, zpowm(hh, alpha, p)), G = newz(*s, gg), H = newz(*s, hh), A = newz(*s, alpha);
  s->prove = [=](std::istream &, std::ostream &out) { pr->CP_Prove(x, y, G, H, A, out, table); };
  s->verify = [=](std::istream &in, std::ostream &) { return ve->CP_Verify(x, y, G, H, in, table); };
  s->pub = {{"x", x}, {"y", y}}; if (!table) { s->pub.push_back({"gg", G}); s->pub.push_back({"hh", H}); } group_pubs(*s, ve);
  s->edits.push_back({"y-with-other-exponent", [=](Ctx &c) { Z d = zrand_below(c, q - 2) + 1; Z ny = (Z(y) * zpowm(hh, d, p)) % p; mpz_set(y, ny.get_mpz_t()); return true; }});
  return s;
}
// 3: OR proof, first / second branch known
static inline ScenarioP sc_or(Ctx &ctx, bool first) {
  auto s = std::make_shared<Scenario>(); VtmfWorld w = make_world(ctx); base(*s, w, first ? "or_first" : "or_second"); BarnettSmartVTMF_dlog *pr = w.pv(), *ve = w.vv();
  Z p = s->p, q = s->q, alpha = zrand_below(ctx, q - 1) + 1, g1 = rand_elem(ctx, ve), g2 = rand_elem(ctx, ve);
  Z y1 = first ? zpowm(g1, alpha, p) : rand_elem(ctx, ve), y2 = first ? rand_elem(ctx, ve) : zpowm(g2, alpha, p);
  mpz_ptr Y1 = newz(*s, y1), Y2 = newz(*s, y2), G1 = newz(*s, g1), G2 = newz(*s, g2), A = newz(*s, alpha);
  s->prove = [=](std::istream &, std::ostream &out) { if (first) pr->OR_ProveFirst(Y1, Y2, G1, G2, A, out); else pr->OR_ProveSecond(Y1, Y2, G1, G2, A, out); };
  s->verify = [=](std::istream &in, std::ostream &) { return ve->OR_Verify(Y1, Y2, G1, G2, in); };
  s->pub = {{"y_1", Y1}, {"y_2", Y2}, {"g_1", G1}, {"g_2", G2}}; group_pubs(*s, ve);
  s->edits.push_back({"known-branch-image-replaced", [=](Ctx &c) { Z r = rand_elem(c, ve); mpz_set(first ? Y1 : Y2, r.get_mpz_t()); return true; }});
  return s;
}
// 4: verifiable masking / 5: re-masking / 6: decryption share (VTMF level and TMCG wrappers)
static inline ScenarioP sc_masking(Ctx &ctx) {
  auto s = std::make_shared<Scenario>(); VtmfWorld w = make_world(ctx); base(*s, w, "masking"); BarnettSmartVTMF_dlog *pr = w.pv(), *ve = w.vv();
  Z p = s->p; mpz_ptr m = newz(*s, rand_elem(ctx, ve)), c1 = newz(*s), c2 = newz(*s), r = newz(*s);
  pr->VerifiableMaskingProtocol_Mask(m, c1, c2, r);
  s->prove = [=](std::istream &, std::ostream &out) { pr->VerifiableMaskingProtocol_Prove(m, c1, c2, r, out); };
  s->verify = [=](std::istream &in, std::ostream &) { return ve->VerifiableMaskingProtocol_Verify(m, c1, c2, in); };
  s->pub = {{"m", m}, {"c_1", c1}, {"c_2", c2}}; group_pubs(*s, ve);
  s->edits.push_back({"mask-changes-message", [=](Ctx &c) { Z d = zrand_below(c, Z(ve->q) - 2) + 1; Z n2 = (Z(c2) * zpowm(Z(ve->g), d, p)) % p; mpz_set(c2, n2.get_mpz_t()); return true; }});
  return s;
}
static inline ScenarioP sc_remasking(Ctx &ctx, bool wrapper) {
  auto s = std::make_shared<Scenario>(); VtmfWorld w = make_world(ctx); base(*s, w, wrapper ? "tmcg_maskcard_vtmf" : "remasking"); BarnettSmartVTMF_dlog *pr = w.pv(), *ve = w.vv();
  Z p = s->p; SchindelhauerTMCG *T = s->own(new SchindelhauerTMCG(16, w.P->size(), 4));
  VTMF_Card *c = s->own(new VTMF_Card()), *cc = s->own(new VTMF_Card()); VTMF_CardSecret *cs = s->own(new VTMF_CardSecret());
  { VTMF_CardSecret tmp; T->TMCG_CreatePrivateCard(*c, tmp, pr, ctx.c.index(16)); }
  if (wrapper) { T->TMCG_CreateCardSecret(*cs, pr); T->TMCG_MaskCard(*c, *cc, *cs, pr, ctx.c.coin()); }
  else pr->VerifiableRemaskingProtocol_Mask(c->c_1, c->c_2, cc->c_1, cc->c_2, cs->r);
  if (wrapper) {
    s->prove = [=](std::istream &in, std::ostream &out) { T->TMCG_ProveMaskCard(*c, *cc, *cs, pr, in, out); };
    s->verify = [=](std::istream &in, std::ostream &out) { return T->TMCG_VerifyMaskCard(*c, *cc, ve, in, out); };
  } else {
    s->prove = [=](std::istream &, std::ostream &out) { pr->VerifiableRemaskingProtocol_Prove(c->c_1, c->c_2, cc->c_1, cc->c_2, cs->r, out); };
    s->verify = [=](std::istream &in, std::ostream &) { return ve->VerifiableRemaskingProtocol_Verify(c->c_1, c->c_2, cc->c_1, cc->c_2, in); };
  }
  s->pub = {{"c.c_1", c->c_1}, {"c.c_2", c->c_2}, {"cc.c_1", cc->c_1}, {"cc.c_2", cc->c_2}}; group_pubs(*s, ve);
  s->edits.push_back({"remask-changes-type", [=](Ctx &cx) { Z d = zrand_below(cx, Z(ve->q) - 2) + 1; Z n2 = (Z(cc->c_2) * zpowm(Z(ve->g), d, p)) % p; mpz_set(cc->c_2, n2.get_mpz_t()); return true; }});
  return s;
}
static inline ScenarioP sc_decryption(Ctx &ctx, bool wrapper) {
  auto s = std::make_shared<Scenario>(); VtmfWorld w = make_world(ctx); base(*s, w, wrapper ? "tmcg_cardsecret_vtmf" : "decryption_share"); BarnettSmartVTMF_dlog *pr = w.pv(), *ve = w.vv();
  SchindelhauerTMCG *T = s->own(new SchindelhauerTMCG(16, w.P->size(), 4));
  VTMF_Card *c = s->own(new VTMF_Card()); { VTMF_CardSecret tmp; T->TMCG_CreatePrivateCard(*c, tmp, pr, ctx.c.index(16)); }
  if (wrapper) {
    s->prove = [=](std::istream &in, std::ostream &out) { T->TMCG_ProveCardSecret(*c, pr, in, out); };
    T->TMCG_SelfCardSecret(*c, ve); // precondition of the opening procedure: own share computed on the checked card
    s->verify = [=](std::istream &in, std::ostream &out) { return T->TMCG_VerifyCardSecret(*c, ve, in, out); };
  } else {
    s->prove = [=](std::istream &, std::ostream &out) { pr->VerifiableDecryptionProtocol_Prove(c->c_1, out); };
    ve->VerifiableDecryptionProtocol_Verify_Initialize(c->c_1);
    s->verify = [=](std::istream &in, std::ostream &) { return ve->VerifiableDecryptionProtocol_Verify_Update(c->c_1, in); };
  }
  s->pub = {{"c.c_1", c->c_1}}; group_pubs(*s, ve);
  return s;
}

// --- stack equality family -------------------------------------------------------------------
struct StackWorld {
  VtmfWorld w; SchindelhauerTMCG *Tp, *Tv; TMCG_Stack<VTMF_Card> *s, *s2; TMCG_StackSecret<VTMF_CardSecret> *ss; size_t n; bool cyclic; std::vector<size_t> types;
};
static inline StackWorld make_stack(Ctx &ctx, Scenario &sc, const char *name, bool cyclic, size_t kappa, size_t maxn, bool allow_qr = true) {
  StackWorld W; W.w = make_world(ctx, allow_qr); base(sc, W.w, name);
  W.n = (size_t)ctx.c.range(cyclic ? 2 : 2, std::min<size_t>(maxn, ctx.c.prob(1, 5) ? maxn : 6)); W.cyclic = cyclic; sc.n = W.n; sc.kappa = kappa;
  W.Tp = sc.own(new SchindelhauerTMCG(kappa, W.w.P->size(), 5)); W.Tv = sc.own(new SchindelhauerTMCG(kappa, W.w.P->size(), 5));
  W.s = sc.own(new TMCG_Stack<VTMF_Card>()); W.s2 = sc.own(new TMCG_Stack<VTMF_Card>()); W.ss = sc.own(new TMCG_StackSecret<VTMF_CardSecret>());
  bool repeats = ctx.c.coin();
  for (size_t i = 0; i < W.n; i++) { VTMF_Card c; VTMF_CardSecret cs; size_t t = repeats ? ctx.c.index(2) : ctx.c.index(32); W.types.push_back(t); W.Tp->TMCG_CreatePrivateCard(c, cs, W.w.pv(), t); W.s->push(c); }
  W.Tp->TMCG_CreateStackSecret(*W.ss, cyclic, W.n, W.w.pv());
  W.Tp->TMCG_MixStack(*W.s, *W.s2, *W.ss, W.w.pv(), ctx.c.coin());
  sc.desc << " n=" << W.n << (cyclic ? " rotation" : " permutation") << " kappa=" << kappa;
  for (size_t i = 0; i < W.n; i++) { sc.pub.push_back({"s[" + std::to_string(i) + "].c_1", (*W.s)[i].c_1}); sc.pub.push_back({"s[" + std::to_string(i) + "].c_2", (*W.s)[i].c_2}); sc.pub.push_back({"s2[" + std::to_string(i) + "].c_1", (*W.s2)[i].c_1}); sc.pub.push_back({"s2[" + std::to_string(i) + "].c_2", (*W.s2)[i].c_2}); }
  group_pubs(sc, W.w.vv());
  return W;
}
// statement edits on the output stack (prover keeps the old witness)
static inline void stack_edits(Scenario &sc, StackWorld W) {
  BarnettSmartVTMF_dlog *pv = W.w.pv(); TMCG_Stack<VTMF_Card> *s2 = W.s2; SchindelhauerTMCG *T = W.Tp; size_t n = W.n; std::vector<size_t> types = W.types; TMCG_StackSecret<VTMF_CardSecret> *ss = W.ss;
  sc.edits.push_back({"output-card-substituted-by-other-type", [=](Ctx &c) { size_t i = c.c.index(n); size_t cur = types[(*ss)[i].first]; VTMF_Card x; VTMF_CardSecret cs; T->TMCG_CreatePrivateCard(x, cs, pv, (cur + 1 + c.c.index(30)) % 32); (*s2)[i] = x; return true; }});
  sc.edits.push_back({"output-card-duplicated", [=](Ctx &c) { if (n < 2) return false; size_t i = c.c.index(n), j = (i + 1 + c.c.index(n - 1)) % n; if (types[(*ss)[i].first] == types[(*ss)[j].first]) return false; VTMF_CardSecret cs; VTMF_Card x; T->TMCG_CreateCardSecret(cs, pv); T->TMCG_MaskCard((*s2)[j], x, cs, pv); (*s2)[i] = x; return true; }});
  sc.edits.push_back({"output-card-retyped-by-g^delta", [=](Ctx &c) { size_t i = c.c.index(n); Z p(pv->p); Z d = zrand_below(c, Z(pv->q) - 2) + 1; Z n2 = (Z((*s2)[i].c_2) * zpowm(Z(pv->g), d, p)) % p; mpz_set((*s2)[i].c_2, n2.get_mpz_t()); return true; }});
  sc.edits.push_back({"output-card-masked-under-other-key", [=](Ctx &c) { size_t i = c.c.index(n); Z p(pv->p), q(pv->q); Z r = zrand_below(c, q - 2) + 1, h2 = zpowm(Z(pv->g), zrand_below(c, q - 2) + 1, p);
      Z c1 = (Z((*s2)[i].c_1) * zpowm(Z(pv->g), r, p)) % p, c2 = (Z((*s2)[i].c_2) * zpowm(h2, r, p)) % p; mpz_set((*s2)[i].c_1, c1.get_mpz_t()); mpz_set((*s2)[i].c_2, c2.get_mpz_t()); return true; }});
}
static inline ScenarioP sc_stack_cutchoose(Ctx &ctx, bool cyclic) {
  auto s = std::make_shared<Scenario>(); static const size_t ks[] = {1, 2, 3, 8, 16}; size_t kappa = ks[ctx.c.weighted({3, 3, 2, 1, 1})]; if (ctx.thorough && ctx.c.prob(1, 20)) kappa = 80;
  StackWorld W = make_stack(ctx, *s, cyclic ? "stack_cutchoose_rotation" : "stack_cutchoose_permutation", cyclic, kappa, ctx.thorough ? 24 : 10); s->interactive = true;
  s->prove = [W](std::istream &in, std::ostream &out) { W.Tp->TMCG_ProveStackEquality(*W.s, *W.s2, *W.ss, W.cyclic, W.w.P->v[W.w.prover], in, out); };
  s->verify = [W](std::istream &in, std::ostream &out) { return W.Tv->TMCG_VerifyStackEquality(*W.s, *W.s2, W.cyclic, W.w.P->v[W.w.verifier], in, out); };
  stack_edits(*s, W);
  return s;
}
// argument vectors of the class-level shuffle / rotation arguments, built from the stacks at call time (edits change the stacks in place)
struct PairVecs { std::vector<size_t> pi; std::vector<mpz_ptr> R; std::vector<std::pair<mpz_ptr, mpz_ptr> > e, E;
  static mpz_ptr dup(mpz_srcptr x) { mpz_ptr t = new mpz_t(); mpz_init_set(t, x); return t; }
  PairVecs(const TMCG_Stack<VTMF_Card> &s, const TMCG_Stack<VTMF_Card> &s2, const TMCG_StackSecret<VTMF_CardSecret> *ss) {
    for (size_t i = 0; i < s.size(); i++) { if (ss) { pi.push_back((*ss)[i].first); R.push_back(dup((*ss)[(*ss)[i].first].second.r)); }
      e.push_back(std::make_pair(dup(s[i].c_1), dup(s[i].c_2))); E.push_back(std::make_pair(dup(s2[i].c_1), dup(s2[i].c_2))); } }
  ~PairVecs() { for (auto x : R) { mpz_clear(x); delete[] x; } for (auto &x : e) { mpz_clear(x.first); mpz_clear(x.second); delete[] x.first; delete[] x.second; } for (auto &x : E) { mpz_clear(x.first); mpz_clear(x.second); delete[] x.first; delete[] x.second; } }
};
static inline unsigned long pick_le(Ctx &ctx, const GroupSpec &g, BarnettSmartVTMF_dlog *v) { unsigned long qb = mpz_sizeinbase(v->q, 2); unsigned long maxle = (qb - 64) / 2; if (maxle > TMCG_GROTH_L_E) maxle = TMCG_GROTH_L_E; return ctx.c.coin() ? maxle : (unsigned long)ctx.c.range(8, maxle); }
static inline ScenarioP sc_stack_groth(Ctx &ctx, bool interactive, bool class_level = false) {
  auto s = std::make_shared<Scenario>(); StackWorld W = make_stack(ctx, *s, class_level ? "groth_class_interactive" : interactive ? "stack_groth_interactive" : "stack_groth_noninteractive", false, 0, ctx.thorough ? 64 : 12, false); s->interactive = interactive;
  BarnettSmartVTMF_dlog *pv = W.w.pv(), *vv = W.w.vv(); unsigned long le = pick_le(ctx, W.w.g, pv); size_t cap = W.n + (size_t)ctx.c.range(0, 3);
  // the size arguments are lower bounds (CheckGroup accepts larger parameters): sometimes declare less than the real sizes
  unsigned long decl_F = W.w.g.fsize, decl_G = W.w.g.gsize; bool lower = ctx.c.prob(1, 3); if (lower) { decl_F -= (unsigned long)ctx.c.range(0, 64); decl_G -= (unsigned long)ctx.c.range(1, 40); }
  GrothVSSHE *vp = s->own(new GrothVSSHE(cap, pv->p, pv->q, pv->k, pv->g, pv->h, le, decl_F, decl_G));
  // documented set-up step: the commitment generators are re-derived from a common public coin
  bool setup = ctx.c.prob(1, 2); if (setup) { Z a = zrand_bits(ctx, 160) + 1; vp->SetupGenerators_publiccoin(a.get_mpz_t()); }
  s->desc << (lower ? " declared-sizes-lower" : "") << (setup ? " publiccoin-generators" : "");
  std::stringstream pg; vp->PublishGroup(pg); s->ctor_text = pg.str();
  auto holder = std::make_shared<GrothVSSHE *>(nullptr); { std::istringstream in(s->ctor_text); *holder = new GrothVSSHE(cap, in, le, decl_F, decl_G); }
  s->cleanup.push_back([holder] { delete *holder; });
  { unsigned long F = decl_F, G = decl_G; s->rebuild_verifier = [holder, cap, le, F, G](const std::string &t) { delete *holder; *holder = nullptr; std::istringstream in(t); *holder = new GrothVSSHE(cap, in, le, F, G); }; }
  for (size_t i = 0; i < 4; i++) s->ctor_lines_in_use.push_back(i); s->ctor_lines_in_use.push_back(4); s->ctor_lines_in_use.push_back(5); s->ctor_lines_in_use.push_back(7); for (size_t i = 0; i < W.n; i++) s->ctor_lines_in_use.push_back(8 + i);
  GrothVSSHE *vvs = *holder; (void)vvs;
  s->desc << " l_e=" << le << " cap=" << cap;
  if (class_level) { drop_group_pubs(*s); // the plain interactive variant of the class (the TMCG wrappers use the public-coin variant)
    s->prove = [=](std::istream &in, std::ostream &out) { PairVecs a(*W.s, *W.s2, W.ss); vp->Prove_interactive(a.pi, a.R, a.e, a.E, in, out); };
    s->verify = [=](std::istream &in, std::ostream &out) { PairVecs a(*W.s, *W.s2, nullptr); return (*holder)->Verify_interactive(a.e, a.E, in, out); };
  } else if (interactive) {
    s->prove = [=](std::istream &in, std::ostream &out) { W.Tp->TMCG_ProveStackEquality_Groth(*W.s, *W.s2, *W.ss, pv, vp, in, out); };
    s->verify = [=](std::istream &in, std::ostream &out) { return W.Tv->TMCG_VerifyStackEquality_Groth(*W.s, *W.s2, vv, *holder, in, out); };
  } else {
    s->prove = [=](std::istream &, std::ostream &out) { W.Tp->TMCG_ProveStackEquality_Groth_noninteractive(*W.s, *W.s2, *W.ss, pv, vp, out); };
    s->verify = [=](std::istream &in, std::ostream &) { return W.Tv->TMCG_VerifyStackEquality_Groth_noninteractive(*W.s, *W.s2, vv, *holder, in); };
  }
  stack_edits(*s, W);
  return s;
}
static inline ScenarioP sc_stack_hoogh(Ctx &ctx, bool interactive, bool class_level = false) {
  auto s = std::make_shared<Scenario>(); StackWorld W = make_stack(ctx, *s, class_level ? "hoogh_class_interactive" : interactive ? "stack_hoogh_interactive" : "stack_hoogh_noninteractive", true, 0, ctx.thorough ? 48 : 10, false); s->interactive = interactive;
  BarnettSmartVTMF_dlog *pv = W.w.pv(), *vv = W.w.vv();
  HooghSchoenmakersSkoricVillegasVRHE *hp = s->own(new HooghSchoenmakersSkoricVillegasVRHE(pv->p, pv->q, pv->g, pv->h, W.w.g.fsize, W.w.g.gsize));
  std::stringstream pg; hp->PublishGroup(pg); s->ctor_text = pg.str();
  auto holder = std::make_shared<HooghSchoenmakersSkoricVillegasVRHE *>(nullptr); { std::istringstream in(s->ctor_text); *holder = new HooghSchoenmakersSkoricVillegasVRHE(in, W.w.g.fsize, W.w.g.gsize); }
  s->cleanup.push_back([holder] { delete *holder; });
  { unsigned long F = W.w.g.fsize, G = W.w.g.gsize; s->rebuild_verifier = [holder, F, G](const std::string &t) { delete *holder; *holder = nullptr; std::istringstream in(t); *holder = new HooghSchoenmakersSkoricVillegasVRHE(in, F, G); }; }
  for (size_t i = 0; i < 4; i++) s->ctor_lines_in_use.push_back(i);
  if (class_level) { drop_group_pubs(*s);
    s->prove = [=](std::istream &in, std::ostream &out) { PairVecs a(*W.s, *W.s2, W.ss); size_t r = (W.ss->size() - (*W.ss)[0].first) % W.ss->size(); hp->Prove_interactive(r, a.R, a.e, a.E, in, out); };
    s->verify = [=](std::istream &in, std::ostream &out) { PairVecs a(*W.s, *W.s2, nullptr); return (*holder)->Verify_interactive(a.e, a.E, in, out); };
  } else if (interactive) {
    s->prove = [=](std::istream &in, std::ostream &out) { W.Tp->TMCG_ProveStackEquality_Hoogh(*W.s, *W.s2, *W.ss, pv, hp, in, out); };
    s->verify = [=](std::istream &in, std::ostream &out) { return W.Tv->TMCG_VerifyStackEquality_Hoogh(*W.s, *W.s2, vv, *holder, in, out); };
  } else {
    s->prove = [=](std::istream &, std::ostream &out) { W.Tp->TMCG_ProveStackEquality_Hoogh_noninteractive(*W.s, *W.s2, *W.ss, pv, hp, out); };
    s->verify = [=](std::istream &in, std::ostream &) { return W.Tv->TMCG_VerifyStackEquality_Hoogh_noninteractive(*W.s, *W.s2, vv, *holder, in); };
  }
  stack_edits(*s, W);
  // a non-cyclic permutation presented as a rotation: re-mix with a permutation secret (statement false for the rotation argument)
  TMCG_Stack<VTMF_Card> *s0 = W.s, *s2 = W.s2; TMCG_StackSecret<VTMF_CardSecret> *ss = W.ss; SchindelhauerTMCG *T = W.Tp; size_t n = W.n; std::vector<size_t> types = W.types;
  s->edits.push_back({"non-cyclic-permutation-presented-as-rotation", [=](Ctx &c) {
      if (n < 3) return false; std::set<size_t> dt(types.begin(), types.end()); if (dt.size() < n) return false; // needs pairwise distinct types so that no rotation explains the result
      std::vector<size_t> pi(n); for (size_t i = 0; i < n; i++) pi[i] = i; std::swap(pi[0], pi[1]); // a transposition is not a rotation for n>=3
      ss->clear(); T->TMCG_CreateStackSecret(*ss, pi, n, pv); TMCG_Stack<VTMF_Card> t; T->TMCG_MixStack(*s0, t, *ss, pv); *s2 = t; return true; }});
  return s;
}
// --- Groth's shuffle of known content, class level ----------------------------------------------
static inline ScenarioP sc_skc(Ctx &ctx, int variant /*0 interactive,1 publiccoin,2 noninteractive*/) {
  auto s = std::make_shared<Scenario>(); GroupSpec g = pick_group(ctx, false);
  std::string gt = vtmf_group_text(g.kind, g.fsize, g.gsize, g.idx); auto lines = split_lines(gt); Z p = zparse62(lines[0]), q = zparse62(lines[1]), gg = zparse62(lines[2]), k = zparse62(lines[3]);
  s->name = variant == 0 ? "skc_interactive" : variant == 1 ? "skc_publiccoin" : "skc_noninteractive"; s->interactive = variant != 2; s->p = p; s->q = q;
  size_t n = (size_t)ctx.c.range(2, ctx.thorough ? 32 : 10); s->n = n; unsigned long qb = mpz_sizeinbase(q.get_mpz_t(), 2), le = std::min<unsigned long>((qb - 64) / 2, TMCG_GROTH_L_E);
  Z h = zpowm(gg, zrand_below(ctx, q - 2) + 1, p);
  unsigned long decl_F = g.fsize, decl_G = g.gsize; bool lower = ctx.c.prob(1, 3); if (lower) { decl_F -= (unsigned long)ctx.c.range(0, 64); decl_G -= (unsigned long)ctx.c.range(1, 40); }
  PedersenCommitmentScheme *com = s->own(new PedersenCommitmentScheme(n, p.get_mpz_t(), q.get_mpz_t(), k.get_mpz_t(), h.get_mpz_t(), decl_F, decl_G));
  bool setup = ctx.c.prob(1, 2); Z coin_a = zrand_bits(ctx, 160) + 1; if (setup) com->SetupGenerators_publiccoin(coin_a.get_mpz_t());
  std::stringstream t1, t2; com->PublishGroup(t1); com->PublishGroup(t2);
  GrothSKC *sp = s->own(new GrothSKC(n, t1, le, decl_F, decl_G)), *sv = s->own(new GrothSKC(n, t2, le, decl_F, decl_G));
  if (setup && ctx.c.coin()) { sp->SetupGenerators_publiccoin(coin_a.get_mpz_t()); sv->SetupGenerators_publiccoin(coin_a.get_mpz_t()); com->SetupGenerators_publiccoin(coin_a.get_mpz_t()); } // every instance re-derives the same generators itself
  std::vector<size_t> pi(n); for (size_t i = 0; i < n; i++) pi[i] = i; for (size_t i = n - 1; i > 0; i--) std::swap(pi[i], pi[ctx.c.index(i + 1)]);
  auto m = std::make_shared<std::vector<mpz_ptr> >(), mpi = std::make_shared<std::vector<mpz_ptr> >();
  bool repeats = ctx.c.prob(1, 4);
  for (size_t i = 0; i < n; i++) m->push_back(newz(*s, repeats ? Z((unsigned long)ctx.c.index(2)) : zrand_below(ctx, q)));
  for (size_t i = 0; i < n; i++) mpi->push_back(newz(*s, Z((*m)[pi[i]])));
  mpz_ptr c = newz(*s), r = newz(*s); com->Commit(c, r, *mpi);
  bool opt = ctx.c.coin(); s->desc << s->name << " " << group_desc(g) << " n=" << n << " l_e=" << le << " optimizations=" << opt << (lower ? " declared-sizes-lower" : "") << (setup ? " publiccoin-generators" : "");
  JareckiLysyanskayaEDCF *e1 = nullptr, *e2 = nullptr;
  if (variant == 1) { e1 = s->own(new JareckiLysyanskayaEDCF(2, 0, p.get_mpz_t(), q.get_mpz_t(), com->g[0], com->h, g.fsize, g.gsize)); e2 = s->own(new JareckiLysyanskayaEDCF(2, 0, p.get_mpz_t(), q.get_mpz_t(), com->g[0], com->h, g.fsize, g.gsize)); }
  s->prove = [=](std::istream &in, std::ostream &out) { if (variant == 0) sp->Prove_interactive(pi, r, *m, in, out); else if (variant == 1) sp->Prove_interactive_publiccoin(pi, r, *m, e1, in, out); else sp->Prove_noninteractive(pi, r, *m, out); };
  s->verify = [=](std::istream &in, std::ostream &out) { if (variant == 0) return sv->Verify_interactive(c, *m, in, out, opt); if (variant == 1) return sv->Verify_interactive_publiccoin(c, *m, e2, in, out, opt); return sv->Verify_noninteractive(c, *m, in, opt); };
  s->pub.push_back({"commitment.c", c}); for (size_t i = 0; i < n; i++) s->pub.push_back({"m[" + std::to_string(i) + "]", (*m)[i]});
  s->edits.push_back({"known-content-changed", [=](Ctx &cx) { size_t i = cx.c.index(n); Z nv = (Z((*m)[i]) + 1 + zrand_below(cx, q - 2)) % q; mpz_set((*m)[i], nv.get_mpz_t()); return true; }});
  s->edits.push_back({"commitment-to-other-content", [=](Ctx &cx) { Z nc = (Z(c) * zpowm(Z(com->g[cx.c.index(n)]), zrand_below(cx, q - 2) + 1, p)) % p; mpz_set(c, nc.get_mpz_t()); return true; }});
  return s;
}
// --- Pedersen commitment: Commit / Verify ---------------------------------------------------------
static inline ScenarioP sc_pedersen(Ctx &ctx) {
  auto s = std::make_shared<Scenario>(); GroupSpec g = pick_group(ctx, false);
  std::string gt = vtmf_group_text(g.kind, g.fsize, g.gsize, g.idx); auto lines = split_lines(gt); Z p = zparse62(lines[0]), q = zparse62(lines[1]), gg = zparse62(lines[2]), k = zparse62(lines[3]);
  s->name = "pedersen_commit_open"; s->p = p; s->q = q; size_t n = (size_t)ctx.c.range(1, 12); s->n = n; Z h = zpowm(gg, zrand_below(ctx, q - 2) + 1, p);
  unsigned long decl_F = g.fsize, decl_G = g.gsize; bool lower = ctx.c.prob(1, 3); if (lower) { decl_F -= (unsigned long)ctx.c.range(0, 64); decl_G -= (unsigned long)ctx.c.range(1, 40); }
  PedersenCommitmentScheme *com = s->own(new PedersenCommitmentScheme(n, p.get_mpz_t(), q.get_mpz_t(), k.get_mpz_t(), h.get_mpz_t(), decl_F, decl_G));
  bool setup = ctx.c.prob(1, 2); if (setup) { Z a = zrand_bits(ctx, 160) + 1; com->SetupGenerators_publiccoin(a.get_mpz_t()); }
  std::stringstream t; com->PublishGroup(t); PedersenCommitmentScheme *cv = s->own(new PedersenCommitmentScheme(n, t, decl_F, decl_G));
  auto m = std::make_shared<std::vector<mpz_ptr> >(); for (size_t i = 0; i < n; i++) m->push_back(newz(*s, zrand_below(ctx, q)));
  mpz_ptr c = newz(*s), r = newz(*s); s->desc << "pedersen " << group_desc(g) << " n=" << n << (lower ? " declared-sizes-lower" : "") << (setup ? " publiccoin-generators" : "");
  // "proof" = the opening (r); transcript carries r
  s->prove = [=](std::istream &, std::ostream &out) { com->Commit(c, r, *m); out << r << std::endl; };
  s->verify = [=](std::istream &in, std::ostream &) { mpz_t rr; mpz_init(rr); in >> rr; bool ok = in.good() && cv->Verify(c, rr, *m); mpz_clear(rr); return ok; };
  s->pub.push_back({"commitment.c", c}); for (size_t i = 0; i < n; i++) s->pub.push_back({"m[" + std::to_string(i) + "]", (*m)[i]});
  return s;
}
// --- two-party coin flip (both roles honest => both return true and agree) ---------------------
static inline ScenarioP sc_flip(Ctx &ctx) {
  auto s = std::make_shared<Scenario>(); VtmfWorld w = make_world(ctx, false); base(*s, w, "flip_twoparty"); s->interactive = true; BarnettSmartVTMF_dlog *pr = w.pv(), *ve = w.vv();
  JareckiLysyanskayaEDCF *e1 = s->own(new JareckiLysyanskayaEDCF(2, 0, pr->p, pr->q, pr->g, pr->h, w.g.fsize, w.g.gsize)), *e2 = s->own(new JareckiLysyanskayaEDCF(2, 0, ve->p, ve->q, ve->g, ve->h, w.g.fsize, w.g.gsize));
  mpz_ptr a1 = newz(*s), a2 = newz(*s); auto ok1 = std::make_shared<bool>(false);
  s->prove = [=](std::istream &in, std::ostream &out) { std::stringstream err; *ok1 = e1->Flip_twoparty(0, a1, in, out, err); };
  s->verify = [=](std::istream &in, std::ostream &out) { std::stringstream err; bool ok2 = e2->Flip_twoparty(1, a2, in, out, err); return ok2; };
  return s;
}
// --- Rabin encoding: mask card proof and card secret proof (interactive) ---------------------------
static inline ScenarioP sc_rabin_maskcard(Ctx &ctx) {
  auto s = std::make_shared<Scenario>(); s->name = "tmcg_maskcard_rabin"; s->interactive = true; size_t k = (size_t)ctx.c.range(1, 2), w = (size_t)ctx.c.range(1, 2); unsigned long kappa = (unsigned long)ctx.c.range(1, 4); s->kappa = kappa;
  std::ostringstream d; RabinPlayers *P = s->own(new RabinPlayers(ctx, k, d)); s->desc << "tmcg_maskcard_rabin k=" << k << " w=" << w << " kappa=" << kappa << d.str();
  SchindelhauerTMCG *Tp = s->own(new SchindelhauerTMCG(kappa, k, w)), *Tv = s->own(new SchindelhauerTMCG(kappa, k, w));
  TMCG_Card *c = s->own(new TMCG_Card(k, w)), *cc = s->own(new TMCG_Card(k, w)); TMCG_CardSecret *cs = s->own(new TMCG_CardSecret(k, w));
  Tp->TMCG_CreateOpenCard(*c, P->ring, ctx.c.index((size_t)1 << w)); Tp->TMCG_CreateCardSecret(*cs, P->ring, ctx.c.index(k)); Tp->TMCG_MaskCard(*c, *cc, *cs, P->ring);
  s->prove = [=](std::istream &in, std::ostream &out) { Tp->TMCG_ProveMaskCard(*c, *cc, *cs, P->ring, in, out); };
  s->verify = [=](std::istream &in, std::ostream &out) { return Tv->TMCG_VerifyMaskCard(*c, *cc, P->ring, in, out); };
  s->p = Z(P->ring.keys[0].m); s->q = s->p; s->rabin = true;
  return s;
}
static inline ScenarioP sc_rabin_cardsecret(Ctx &ctx) {
  auto s = std::make_shared<Scenario>(); s->name = "tmcg_cardsecret_rabin"; s->interactive = true; size_t k = 2, w = (size_t)ctx.c.range(1, 3); unsigned long kappa = (unsigned long)ctx.c.range(1, 4); s->kappa = kappa;
  std::ostringstream d; RabinPlayers *P = s->own(new RabinPlayers(ctx, k, d)); s->desc << "tmcg_cardsecret_rabin w=" << w << " kappa=" << kappa << d.str();
  SchindelhauerTMCG *Tp = s->own(new SchindelhauerTMCG(kappa, k, w)), *Tv = s->own(new SchindelhauerTMCG(kappa, k, w));
  TMCG_Card *c = s->own(new TMCG_Card(k, w)); TMCG_CardSecret *cs = s->own(new TMCG_CardSecret(k, w)), *vcs = s->own(new TMCG_CardSecret(k, w));
  Tp->TMCG_CreatePrivateCard(*c, *cs, P->ring, 1, ctx.c.index((size_t)1 << w));
  s->prove = [=](std::istream &in, std::ostream &out) { Tp->TMCG_ProveCardSecret(*c, *P->sk[1], 1, in, out); };
  s->verify = [=](std::istream &in, std::ostream &out) { return Tv->TMCG_VerifyCardSecret(*c, *vcs, P->ring.keys[1], 1, in, out); };
  s->p = Z(P->ring.keys[1].m); s->q = s->p; s->rabin = true;
  return s;
}
static inline ScenarioP sc_rabin_stack(Ctx &ctx, bool cyclic) {
  auto s = std::make_shared<Scenario>(); s->name = cyclic ? "stack_cutchoose_rabin_rotation" : "stack_cutchoose_rabin_permutation"; s->interactive = true; size_t k = (size_t)ctx.c.range(1, 2), w = (size_t)ctx.c.range(1, 2), n = (size_t)ctx.c.range(2, 4); unsigned long kappa = (unsigned long)ctx.c.range(1, 3); s->kappa = kappa; s->n = n;
  std::ostringstream d; RabinPlayers *P = s->own(new RabinPlayers(ctx, k, d)); s->desc << s->name << " k=" << k << " w=" << w << " n=" << n << " kappa=" << kappa << d.str();
  SchindelhauerTMCG *Tp = s->own(new SchindelhauerTMCG(kappa, k, w)), *Tv = s->own(new SchindelhauerTMCG(kappa, k, w));
  TMCG_Stack<TMCG_Card> *st = s->own(new TMCG_Stack<TMCG_Card>()), *st2 = s->own(new TMCG_Stack<TMCG_Card>()); TMCG_StackSecret<TMCG_CardSecret> *ss = s->own(new TMCG_StackSecret<TMCG_CardSecret>());
  for (size_t i = 0; i < n; i++) { TMCG_Card c(k, w); Tp->TMCG_CreateOpenCard(c, P->ring, ctx.c.index((size_t)1 << w)); st->push(c); }
  size_t idx = ctx.c.index(k); Tp->TMCG_CreateStackSecret(*ss, cyclic, P->ring, idx, n); Tp->TMCG_MixStack(*st, *st2, *ss, P->ring);
  s->prove = [=](std::istream &in, std::ostream &out) { Tp->TMCG_ProveStackEquality(*st, *st2, *ss, cyclic, P->ring, idx, in, out); };
  s->verify = [=](std::istream &in, std::ostream &out) { return Tv->TMCG_VerifyStackEquality(*st, *st2, cyclic, P->ring, in, out); };
  s->p = Z(P->ring.keys[0].m); s->q = s->p; s->rabin = true;
  return s;
}

typedef ScenarioP (*Builder)(Ctx &);
struct Entry { const char *name; Builder make; };
static const size_t REGISTRY_BASE = 27; // entries of the first version; later ones are visited by their own sub-properties
static inline const std::vector<Entry> &scenario_registry() {
  static const std::vector<Entry> r = {
    {"key_nizk", [](Ctx &c) { return sc_key_nizk(c); }},
    {"key_interactive", [](Ctx &c) { return sc_key_interactive(c, false); }},
    {"key_interactive_publiccoin", [](Ctx &c) { return sc_key_interactive(c, true); }},
    {"cp_generic", [](Ctx &c) { return sc_cp(c, false); }},
    {"cp_table_path", [](Ctx &c) { return sc_cp(c, true); }},
    {"or_first", [](Ctx &c) { return sc_or(c, true); }},
    {"or_second", [](Ctx &c) { return sc_or(c, false); }},
    {"masking", [](Ctx &c) { return sc_masking(c); }},
    {"remasking", [](Ctx &c) { return sc_remasking(c, false); }},
    {"tmcg_maskcard_vtmf", [](Ctx &c) { return sc_remasking(c, true); }},
    {"decryption_share", [](Ctx &c) { return sc_decryption(c, false); }},
    {"tmcg_cardsecret_vtmf", [](Ctx &c) { return sc_decryption(c, true); }},
    {"stack_cutchoose_permutation", [](Ctx &c) { return sc_stack_cutchoose(c, false); }},
    {"stack_cutchoose_rotation", [](Ctx &c) { return sc_stack_cutchoose(c, true); }},
    {"stack_groth_interactive", [](Ctx &c) { return sc_stack_groth(c, true); }},
    {"stack_groth_noninteractive", [](Ctx &c) { return sc_stack_groth(c, false); }},
    {"stack_hoogh_interactive", [](Ctx &c) { return sc_stack_hoogh(c, true); }},
    {"stack_hoogh_noninteractive", [](Ctx &c) { return sc_stack_hoogh(c, false); }},
    {"skc_interactive", [](Ctx &c) { return sc_skc(c, 0); }},
    {"skc_publiccoin", [](Ctx &c) { return sc_skc(c, 1); }},
    {"skc_noninteractive", [](Ctx &c) { return sc_skc(c, 2); }},
    {"pedersen_commit_open", [](Ctx &c) { return sc_pedersen(c); }},
    {"flip_twoparty", [](Ctx &c) { return sc_flip(c); }},
    {"tmcg_maskcard_rabin", [](Ctx &c) { return sc_rabin_maskcard(c); }},
    {"tmcg_cardsecret_rabin", [](Ctx &c) { return sc_rabin_cardsecret(c); }},
    {"stack_cutchoose_rabin_permutation", [](Ctx &c) { return sc_rabin_stack(c, false); }},
    {"stack_cutchoose_rabin_rotation", [](Ctx &c) { return sc_rabin_stack(c, true); }},
    // appended after the first 27 (REGISTRY_BASE) entries so that saved replay files keep their meaning
    {"groth_class_interactive", [](Ctx &c) { return sc_stack_groth(c, true, true); }},
    {"hoogh_class_interactive", [](Ctx &c) { return sc_stack_hoogh(c, true, true); }},
  };
  return r;
}

} // namespace vf
