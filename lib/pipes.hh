// pipes.hh — in-memory blocking byte pipes and iostream pairs for two-party
// interactive protocols (optionally with a relaying man in the middle).  Each
// party runs in its own std::thread with its own (thread-local) library random
// stream, so the outcome depends only on the data exchanged, not on OS
// scheduling.  A monitor detects the state "every live thread waits for input
// and no data is in flight" (a protocol dead end, e.g. after a dropped message)
// and closes the pipes so that the parties fail cleanly; a real-time stall
// limit is the fallback.
#pragma once
#include <streambuf>
#include <iostream>
#include <deque>
#include <mutex>
#include <condition_variable>
#include <thread>
#include <functional>
#include <chrono>
#include <string>
#include <atomic>
#include <vector>
#include "vf.hh"

namespace vf {

struct Pipe;
struct Monitor {
  std::atomic<int> blocked{0}, alive{0};
  std::vector<Pipe *> pipes;
  bool deadlocked();
};

struct Pipe {
  std::mutex mu; std::condition_variable cv;
  std::deque<char> q; bool closed = false; bool stalled = false;
  std::string log;            // everything ever written (for transcripts)
  long stall_ms = 60000; Monitor *mon = nullptr;
  void write(const char *s, size_t n) {
    std::unique_lock<std::mutex> lk(mu);
    if (closed) return;
    q.insert(q.end(), s, s + n); log.append(s, n);
    cv.notify_all();
  }
  void close() { std::unique_lock<std::mutex> lk(mu); closed = true; cv.notify_all(); }
  bool empty_unlocked() { std::unique_lock<std::mutex> lk(mu); return q.empty(); }
  // blocking read of one char; returns -1 at EOF
  int get() {
    std::unique_lock<std::mutex> lk(mu);
    if (q.empty() && !closed) {
      if (mon) mon->blocked++;
      long waited = 0; int suspicious = 0;
      while (q.empty() && !closed) {
        cv.wait_for(lk, std::chrono::milliseconds(10)); waited += 10;
        if (!q.empty() || closed) break;
        if (mon) { lk.unlock(); bool d = mon->deadlocked(); lk.lock(); if (!q.empty() || closed) break; if (d) { if (++suspicious >= 3) { stalled = true; closed = true; break; } } else suspicious = 0; }
        if (waited >= stall_ms) { stalled = true; closed = true; break; }
      }
      if (mon) mon->blocked--;
      cv.notify_all();
    }
    if (q.empty()) return -1;
    char c = q.front(); q.pop_front(); return (unsigned char)c;
  }
};
inline bool Monitor::deadlocked() {
  if (alive.load() == 0 || blocked.load() < alive.load()) return false;
  for (Pipe *p : pipes) if (!p->empty_unlocked()) return false;
  return blocked.load() >= alive.load();
}

struct PipeBuf : public std::streambuf {
  Pipe *rd, *wr; char ch;
  PipeBuf(Pipe *r, Pipe *w) : rd(r), wr(w) {}
  int_type underflow() override { if (!rd) return traits_type::eof(); int c = rd->get(); if (c < 0) return traits_type::eof(); ch = (char)c; setg(&ch, &ch, &ch + 1); return traits_type::to_int_type(ch); }
  int_type overflow(int_type c) override { if (c != traits_type::eof() && wr) { char b = (char)c; wr->write(&b, 1); } return c; }
  std::streamsize xsputn(const char *s, std::streamsize n) override { if (wr) wr->write(s, (size_t)n); return n; }
};

// Two parties A and B connected by a pair of pipes; each gets one iostream used as both `in` and `out`.
struct Duplex {
  Pipe a2b, b2a; Monitor mon;
  bool a_threw = false, b_threw = false; std::string a_what, b_what;
  void run(uint64_t seedA, uint64_t seedB, std::function<void(std::iostream &)> fa, std::function<void(std::iostream &)> fb) {
    mon.pipes = {&a2b, &b2a}; a2b.mon = b2a.mon = &mon; mon.alive = 2;
    std::thread ta([&] { rng_seed(seedA); PipeBuf buf(&b2a, &a2b); std::iostream io(&buf);
      try { fa(io); } catch (std::exception &e) { a_threw = true; a_what = e.what(); } catch (...) { a_threw = true; a_what = "?"; }
      mon.alive--; a2b.close(); });
    std::thread tb([&] { rng_seed(seedB); PipeBuf buf(&a2b, &b2a); std::iostream io(&buf);
      try { fb(io); } catch (std::exception &e) { b_threw = true; b_what = e.what(); } catch (...) { b_threw = true; b_what = "?"; }
      mon.alive--; b2a.close(); });
    ta.join(); tb.join();
  }
  bool stalled() const { return a2b.stalled || b2a.stalled; }
};

// Prover <-> relay <-> verifier.  The relay forwards complete lines; lines from
// the prover to the verifier pass through `hook(lineno, line)` which returns
// 0 = forward (possibly modified), 1 = drop, 2 = forward twice, 3 = close the link here.
struct Relay {
  Pipe p2r, r2v, v2r, r2p; Monitor mon;
  bool p_threw = false, v_threw = false; std::string p_what, v_what;
  std::vector<std::string> p_lines, v_lines; // transcript as seen by the relay (before modification)
  std::atomic<size_t> v_count{0};             // number of complete lines the verifier side has written so far
  std::mutex vmu; bool v_line(size_t i, std::string &out) { std::lock_guard<std::mutex> lk(vmu); if (i >= v_lines.size()) return false; out = v_lines[i]; return true; } // safe to call from a hook while the other direction is running
  static bool read_line(Pipe &p, std::string &line) { line.clear(); for (;;) { int c = p.get(); if (c < 0) return !line.empty(); if (c == '\n') return true; line.push_back((char)c); } }
  void run(uint64_t seedP, uint64_t seedV, std::function<void(std::iostream &)> fp, std::function<void(std::iostream &)> fv,
           std::function<int(size_t, std::string &)> hook) {
    mon.pipes = {&p2r, &r2v, &v2r, &r2p}; p2r.mon = r2v.mon = v2r.mon = r2p.mon = &mon; mon.alive = 4;
    std::thread tp([&] { rng_seed(seedP); PipeBuf buf(&r2p, &p2r); std::iostream io(&buf);
      try { fp(io); } catch (std::exception &e) { p_threw = true; p_what = e.what(); } catch (...) { p_threw = true; p_what = "?"; }
      mon.alive--; p2r.close(); });
    std::thread tv([&] { rng_seed(seedV); PipeBuf buf(&r2v, &v2r); std::iostream io(&buf);
      try { fv(io); } catch (std::exception &e) { v_threw = true; v_what = e.what(); } catch (...) { v_threw = true; v_what = "?"; }
      mon.alive--; v2r.close(); });
    std::thread f1([&] { std::string l; size_t n = 0; while (read_line(p2r, l)) { p_lines.push_back(l); int a = hook ? hook(n, l) : 0; n++;
        if (a == 3) break; if (a == 1) continue; l.push_back('\n'); r2v.write(l.data(), l.size()); if (a == 2) r2v.write(l.data(), l.size()); }
      mon.alive--; r2v.close(); });
    std::thread f2([&] { std::string l; while (read_line(v2r, l)) { { std::lock_guard<std::mutex> lk(vmu); v_lines.push_back(l); } v_count++; l.push_back('\n'); r2p.write(l.data(), l.size()); } mon.alive--; r2p.close(); });
    tp.join(); tv.join(); p2r.close(); v2r.close(); f1.join(); f2.join();
  }
  bool stalled() const { return p2r.stalled || r2v.stalled || v2r.stalled || r2p.stalled; }
};

} // namespace vf
