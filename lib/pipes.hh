// pipes.hh — in-memory blocking byte pipes and iostream pairs for two-party
// interactive protocols.  Each party runs in its own std::thread with its own
// (thread-local) library random stream, so the outcome depends only on the
// data exchanged, not on OS scheduling.  A read that cannot be satisfied
// within `stall_ms` of real time closes the pipe (the protocol step then fails
// cleanly); a closed write end gives EOF to the reader.
#pragma once
#include <streambuf>
#include <iostream>
#include <deque>
#include <mutex>
#include <condition_variable>
#include <thread>
#include <functional>
#include <chrono>
#include <string>
#include "vf.hh"

namespace vf {

struct Pipe {
  std::mutex mu; std::condition_variable cv;
  std::deque<char> q; bool closed = false; bool stalled = false;
  std::string log;            // everything ever written (for transcripts)
  std::function<void(Pipe &)> on_write; // optional tap, called with mu held after each flush of a line
  long stall_ms = 20000;
  void write(const char *s, size_t n) {
    std::unique_lock<std::mutex> lk(mu);
    if (closed) return;
    q.insert(q.end(), s, s + n); log.append(s, n);
    cv.notify_all();
  }
  void close() { std::unique_lock<std::mutex> lk(mu); closed = true; cv.notify_all(); }
  // blocking read of one char; returns -1 at EOF
  int get() {
    std::unique_lock<std::mutex> lk(mu);
    if (!cv.wait_for(lk, std::chrono::milliseconds(stall_ms), [&] { return !q.empty() || closed; })) { stalled = true; closed = true; cv.notify_all(); return -1; }
    if (q.empty()) return -1;
    char c = q.front(); q.pop_front(); return (unsigned char)c;
  }
};

struct PipeBuf : public std::streambuf {
  Pipe *rd, *wr; char ch;
  PipeBuf(Pipe *r, Pipe *w) : rd(r), wr(w) {}
  int_type underflow() override { if (!rd) return traits_type::eof(); int c = rd->get(); if (c < 0) return traits_type::eof(); ch = (char)c; setg(&ch, &ch, &ch + 1); return traits_type::to_int_type(ch); }
  int_type overflow(int_type c) override { if (c != traits_type::eof() && wr) { char b = (char)c; wr->write(&b, 1); } return c; }
  std::streamsize xsputn(const char *s, std::streamsize n) override { if (wr) wr->write(s, (size_t)n); return n; }
};

// Run two parties A and B connected by a pair of pipes.  Each gets an
// iostream (used as both `in` and `out`).  Seeds give each thread its own
// library random stream.  Returns after both finished.
struct Duplex {
  Pipe a2b, b2a;
  bool a_threw = false, b_threw = false; std::string a_what, b_what;
  void run(uint64_t seedA, uint64_t seedB, std::function<void(std::iostream &)> fa, std::function<void(std::iostream &)> fb) {
    std::thread ta([&] { rng_seed(seedA); PipeBuf buf(&b2a, &a2b); std::iostream io(&buf);
      try { fa(io); } catch (std::exception &e) { a_threw = true; a_what = e.what(); } catch (...) { a_threw = true; a_what = "?"; }
      a2b.close(); });
    std::thread tb([&] { rng_seed(seedB); PipeBuf buf(&a2b, &b2a); std::iostream io(&buf);
      try { fb(io); } catch (std::exception &e) { b_threw = true; b_what = e.what(); } catch (...) { b_threw = true; b_what = "?"; }
      b2a.close(); });
    ta.join(); tb.join();
  }
  bool stalled() const { return a2b.stalled || b2a.stalled; }
};

} // namespace vf
