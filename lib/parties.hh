// parties.hh — n protocol parties in the deterministic simulator: a private
// unicast network, a second network carrying the reliable broadcast, one
// CachinKursawePetzoldShoupRBC per party, harness-level barriers between
// protocol phases (the tests use rbc->Sync for that) and the lingering rule:
// a party that is done keeps serving the broadcast protocol until every
// present party is done.
#pragma once
#include "detsim.hh"
#include "fix.hh"

namespace vf {
struct NullBuf : std::streambuf { int overflow(int c) override { return c; } };
static inline void silence_cerr() { static NullBuf nb; static bool done = false; if (!done && !getenv("VF_VERBOSE")) { std::cerr.rdbuf(&nb); done = true; } }

struct PartyEnv { size_t i, n, t; detsim::SimNet *aiou = nullptr, *aiou2 = nullptr; CachinKursawePetzoldShoupRBC *rbc = nullptr; std::stringstream err; bool ok = true; int phase = 0; };
struct Cluster {
  size_t n, t; detsim::Net uni, bc; std::vector<PartyEnv *> env; std::vector<bool> present; size_t alive = 0, finished = 0; std::map<int, size_t> arrived; detsim::Sim sim;
  time_t timeout;
  Cluster(size_t n_, size_t t_, const std::vector<bool> &pres, time_t to = aiounicast::aio_timeout_middle) : n(n_), t(t_), uni(n_), bc(n_), present(pres), timeout(to) {
    for (size_t i = 0; i < n; i++) { PartyEnv *e = new PartyEnv(); e->i = i; e->n = n; e->t = t; if (present[i]) { alive++; e->aiou = new detsim::SimNet(n, i, &uni, timeout); e->aiou2 = new detsim::SimNet(n, i, &bc, timeout);
        e->rbc = new CachinKursawePetzoldShoupRBC(n, t, i, e->aiou2, aiounicast::aio_scheduler_roundrobin, timeout); } env.push_back(e); }
  }
  ~Cluster() { for (auto e : env) { delete e->rbc; delete e->aiou; delete e->aiou2; delete e; } detsim::cleanup(sim); }
  // serve the broadcast protocol while waiting for the others
  void barrier(PartyEnv &e, int k) { arrived[k]++; mpz_t tmp; mpz_init(tmp); size_t l; while (arrived[k] < alive) e.rbc->Deliver(tmp, l, aiounicast::aio_scheduler_roundrobin, 0); mpz_clear(tmp); }
  void finish(PartyEnv &e) { finished++; mpz_t tmp; mpz_init(tmp); size_t l; while (finished < alive) e.rbc->Deliver(tmp, l, aiounicast::aio_scheduler_roundrobin, 0); mpz_clear(tmp); }
  // run body(env) for every present party; returns false on simulator deadlock / virtual time budget
  bool run(Ctx &ctx, std::function<void(PartyEnv &)> body) {
    for (size_t i = 0; i < n; i++) if (present[i]) { PartyEnv *e = env[i]; detsim::spawn(sim, ctx.c.seed64(), [this, e, body] { body(*e); finish(*e); }); }
    detsim::run(sim, ctx.c.seed64());
    return !sim.deadlock && !sim.vtime_exceeded;
  }
  std::string task_errors() { std::string s; for (auto t : sim.tasks) if (t->threw) s += " [task threw: " + t->what + "]"; return s; }
};

// Lagrange interpolation at 0 of the points (idx+1, share) modulo q
static inline Z lagrange_at_zero(const std::vector<size_t> &idx, const std::vector<Z> &shares, const Z &q) {
  Z x = 0;
  for (size_t a = 0; a < idx.size(); a++) { Z num = 1, den = 1; for (size_t b = 0; b < idx.size(); b++) if (a != b) { num = zmod(num * Z((unsigned long)(idx[b] + 1)), q); den = zmod(den * (Z((unsigned long)(idx[b] + 1)) - Z((unsigned long)(idx[a] + 1))), q); }
    x = zmod(x + shares[a] * num % q * zinv(den, q), q); }
  return zmod(x, q);
}
// all k-subsets of `items`
static inline void subsets(const std::vector<size_t> &items, size_t k, std::function<void(const std::vector<size_t> &)> f) {
  std::vector<size_t> pick; std::function<void(size_t)> rec = [&](size_t start) { if (pick.size() == k) { f(pick); return; } for (size_t i = start; i < items.size(); i++) { pick.push_back(items[i]); rec(i + 1); pick.pop_back(); } }; rec(0);
}
} // namespace vf
