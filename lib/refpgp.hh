// refpgp.hh — independent reference implementation of the OpenPGP encodings
// used as the oracle of property C19.  Written from the text of RFC 4880
// (sections 3.2, 3.7, 4.2, 5.x, 6, 12.2), RFC 6637 (sections 9, 10) and
// draft-ietf-openpgp-rfc4880bis-06 (v5 keys/fingerprints, AEAD packet, v5
// SKESK).  It shares no code with the library under test.  Trusted
// primitives: libgcrypt message digests / AES-CFB (the *constructions* on top
// of them are re-implemented here) and GMP's mpz_export/mpz_import.
#pragma once
#include <cstdint>
#include <cstring>
#include <string>
#include <vector>
#include <utility>
#include <gmpxx.h>
#include <gcrypt.h>

namespace refpgp {

typedef std::vector<uint8_t> Bytes;

static inline void put(Bytes &o, const Bytes &a) { o.insert(o.end(), a.begin(), a.end()); }
static inline void put(Bytes &o, const std::string &a) { o.insert(o.end(), a.begin(), a.end()); }
static inline void put8(Bytes &o, unsigned v) { o.push_back((uint8_t)(v & 0xFF)); }
static inline void put16(Bytes &o, uint32_t v) { o.push_back((uint8_t)(v >> 8)); o.push_back((uint8_t)v); }
static inline void put32(Bytes &o, uint64_t v) { o.push_back((uint8_t)(v >> 24)); o.push_back((uint8_t)(v >> 16)); o.push_back((uint8_t)(v >> 8)); o.push_back((uint8_t)v); }
static inline Bytes cat(const Bytes &a, const Bytes &b) { Bytes o = a; put(o, b); return o; }
static inline std::string hex(const Bytes &b, size_t max = 48) {
  static const char *d = "0123456789abcdef"; std::string s;
  for (size_t i = 0; i < b.size() && i < max; i++) { s += d[b[i] >> 4]; s += d[b[i] & 15]; }
  if (b.size() > max) s += "..(" + std::to_string(b.size()) + " octets)";
  return s;
}
// position of the first difference (or the common length when one is a prefix of the other)
template <class A, class B> static inline size_t first_diff(const A &a, const B &b) {
  size_t n = a.size() < b.size() ? a.size() : b.size(), i = 0; while (i < n && (uint8_t)a[i] == (uint8_t)b[i]) i++; return i;
}

// ---------------------------------------------------------------------------
// RFC 4880 6.3: Radix-64 = MIME base64
static const char R64[65] = "ABCDEFGHIJKLMNOPQRSTUVWXYZabcdefghijklmnopqrstuvwxyz0123456789+/";
static inline int r64_value(unsigned char c) {
  if (c >= 'A' && c <= 'Z') return c - 'A';
  if (c >= 'a' && c <= 'z') return c - 'a' + 26;
  if (c >= '0' && c <= '9') return c - '0' + 52;
  if (c == '+') return 62; if (c == '/') return 63; return -1;
}
// one unbroken line
static inline std::string b64(const Bytes &d) {
  std::string o; uint32_t acc = 0; int nbits = 0;
  for (size_t i = 0; i < d.size(); i++) {
    acc = (acc << 8) | d[i]; nbits += 8;
    while (nbits >= 6) { nbits -= 6; o += R64[(acc >> nbits) & 63]; }
  }
  if (nbits > 0) o += R64[(acc << (6 - nbits)) & 63];
  while (o.size() % 4) o += '=';
  return o;
}
// lines of at most `width` characters joined by eol (no eol after the last line)
static inline std::string wrap(const std::string &s, size_t width, const std::string &eol) {
  std::string o;
  for (size_t i = 0; i < s.size(); i += width) { if (i) o += eol; o += s.substr(i, width); }
  return o;
}
// strict decoder: white space is skipped, everything else must be alphabet or
// trailing padding; the number of significant characters must be a multiple of 4
static inline bool b64_decode(const std::string &s, Bytes &out, std::string *why = nullptr) {
  uint32_t acc = 0; int nbits = 0; size_t sig = 0, pad = 0;
  for (size_t i = 0; i < s.size(); i++) {
    unsigned char c = (unsigned char)s[i];
    if (c == ' ' || c == '\t' || c == '\r' || c == '\n') continue;
    if (c == '=') { pad++; sig++; continue; }
    if (pad) { if (why) *why = "data after padding"; return false; }
    int v = r64_value(c); if (v < 0) { if (why) *why = "character outside the alphabet"; return false; }
    acc = (acc << 6) | (uint32_t)v; nbits += 6; sig++;
    if (nbits >= 8) { nbits -= 8; out.push_back((uint8_t)((acc >> nbits) & 0xFF)); }
  }
  if (sig % 4) { if (why) *why = "length not a multiple of four"; return false; }
  if (pad > 2) { if (why) *why = "too much padding"; return false; }
  return true;
}

// RFC 4880 6.1: CRC-24, generator 0x864CFB (x^24 implied), register preset 0xB704CE.
// Formulated as bit-serial polynomial division, most significant bit first.
static inline uint32_t crc24(const Bytes &d) {
  uint32_t reg = 0xB704CE;
  for (size_t i = 0; i < d.size(); i++)
    for (int b = 7; b >= 0; b--) {
      unsigned in = (d[i] >> b) & 1, top = (reg >> 23) & 1;
      reg = (reg << 1) & 0xFFFFFF;
      if (in ^ top) reg ^= 0x864CFB;
    }
  return reg;
}
static inline Bytes crc24_octets(const Bytes &d) { uint32_t c = crc24(d); Bytes o; o.push_back(c >> 16); o.push_back(c >> 8); o.push_back(c); return o; }
static inline std::string crc24_text(const Bytes &d) { return "=" + b64(crc24_octets(d)); }

// ---------------------------------------------------------------------------
// RFC 4880 6.2: ASCII armor
typedef std::vector<std::pair<std::string, std::string> > Headers;
static inline std::string armor_build(const std::string &title, const Headers &h, const Bytes &data,
                                      size_t width = 64, const std::string &eol = "\r\n", bool with_crc = true) {
  std::string o = "-----BEGIN " + title + "-----" + eol;
  for (size_t i = 0; i < h.size(); i++) o += h[i].first + ": " + h[i].second + eol;
  o += eol;
  std::string body = wrap(b64(data), width, eol);
  if (!body.empty()) o += body + eol;
  if (with_crc) o += crc24_text(data) + eol;
  o += "-----END " + title + "-----" + eol;
  return o;
}
struct Armor {
  bool ok = false; std::string why, title; Headers headers; Bytes data; bool has_crc = false; uint32_t crc = 0;
  size_t max_line = 0, body_lines = 0; bool crlf_everywhere = true;
};
// strict reference parser of ONE armor block (text before the block is allowed, RFC 4880 6.2)
static inline Armor armor_parse(const std::string &text) {
  Armor a; std::vector<std::string> lines; size_t p = 0;
  while (p <= text.size()) {
    size_t q = text.find('\n', p); bool last = (q == std::string::npos);
    std::string l = text.substr(p, last ? std::string::npos : q - p);
    if (!last) { if (l.empty() || l[l.size() - 1] != '\r') a.crlf_everywhere = false; }
    while (!l.empty() && (l[l.size() - 1] == '\r' || l[l.size() - 1] == ' ' || l[l.size() - 1] == '\t')) l.erase(l.size() - 1);
    if (!(last && l.empty())) lines.push_back(l);
    if (last) break; p = q + 1;
  }
  size_t i = 0;
  for (; i < lines.size(); i++) if (lines[i].compare(0, 11, "-----BEGIN ") == 0) break;
  if (i == lines.size()) { a.why = "no header line"; return a; }
  const std::string &hl = lines[i];
  if (hl.size() < 17 || hl.compare(hl.size() - 5, 5, "-----") != 0) { a.why = "malformed header line"; return a; }
  a.title = hl.substr(11, hl.size() - 16);
  i++;
  // armor headers up to the blank line
  bool blank = false;
  for (; i < lines.size(); i++) {
    if (lines[i].empty()) { blank = true; i++; break; }
    size_t c = lines[i].find(": ");
    if (c == std::string::npos || c == 0) { a.why = "missing blank line after the armor headers"; return a; }
    a.headers.push_back(std::make_pair(lines[i].substr(0, c), lines[i].substr(c + 2)));
  }
  if (!blank) { a.why = "missing blank line after the armor headers"; return a; }
  std::string body; bool ended = false;
  for (; i < lines.size(); i++) {
    const std::string &l = lines[i];
    if (l.compare(0, 10, "-----BEGIN") == 0) { a.why = "nested armor header line"; return a; }
    if (l.compare(0, 5, "-----") == 0) {
      if (l != "-----END " + a.title + "-----") { a.why = "tail does not match the header line"; return a; }
      ended = true; i++; break;
    }
    if (a.has_crc) { a.why = "data after the checksum"; return a; }
    if (!l.empty() && l[0] == '=' ) {
      if (l.size() != 5) { a.why = "malformed checksum"; return a; }
      Bytes c; if (!b64_decode(l.substr(1), c) || c.size() != 3) { a.why = "malformed checksum"; return a; }
      a.has_crc = true; a.crc = ((uint32_t)c[0] << 16) | ((uint32_t)c[1] << 8) | c[2]; continue;
    }
    if (l.empty()) continue; // white space inside the radix-64 data carries no meaning
    if (l.size() > a.max_line) a.max_line = l.size();
    if (l.size() > 76) { a.why = "line longer than 76 characters"; return a; }
    a.body_lines++; body += l;
  }
  if (!ended) { a.why = "no armor tail"; return a; }
  std::string why;
  if (!b64_decode(body, a.data, &why)) { a.why = "radix-64 body: " + why; return a; }
  if (a.has_crc && a.crc != crc24(a.data)) { a.why = "checksum mismatch"; return a; }
  a.ok = true; return a;
}

// ---------------------------------------------------------------------------
// RFC 4880 4.2: packet headers
static inline Bytes new_len(uint64_t n) {
  Bytes o;
  if (n <= 191) o.push_back((uint8_t)n);
  else if (n <= 8383) { uint64_t m = n - 192; o.push_back((uint8_t)(192 + (m >> 8))); o.push_back((uint8_t)(m & 0xFF)); }
  else { o.push_back(255); put32(o, n); }
  return o;
}
static inline Bytes new_len5(uint64_t n) { Bytes o; o.push_back(255); put32(o, n); return o; } // legal non-minimal form
static inline uint8_t new_tag(unsigned tag) { return (uint8_t)(0xC0 | (tag & 0x3F)); }
static inline Bytes packet(unsigned tag, const Bytes &body) { Bytes o; o.push_back(new_tag(tag)); put(o, new_len(body.size())); put(o, body); return o; }
static inline Bytes packet_len5(unsigned tag, const Bytes &body) { Bytes o; o.push_back(new_tag(tag)); put(o, new_len5(body.size())); put(o, body); return o; }
// old format (4.2.1): lentype 0/1/2 = 1/2/4 length octets, 3 = indeterminate (to the end of input)
static inline Bytes old_packet(unsigned tag, const Bytes &body, unsigned lentype) {
  Bytes o; o.push_back((uint8_t)(0x80 | ((tag & 0x0F) << 2) | (lentype & 3)));
  if (lentype == 0) o.push_back((uint8_t)body.size());
  else if (lentype == 1) put16(o, (uint32_t)body.size());
  else if (lentype == 2) put32(o, body.size());
  put(o, body); return o;
}
// partial body lengths (4.2.2.4): exps[i] = power of two of the i-th partial chunk; the rest gets a definite length
static inline Bytes partial_packet(unsigned tag, const Bytes &body, const std::vector<unsigned> &exps) {
  Bytes o; o.push_back(new_tag(tag)); size_t pos = 0;
  for (size_t i = 0; i < exps.size(); i++) {
    size_t n = (size_t)1 << exps[i]; if (pos + n > body.size()) break;
    o.push_back((uint8_t)(224 + exps[i])); o.insert(o.end(), body.begin() + pos, body.begin() + pos + n); pos += n;
  }
  put(o, new_len(body.size() - pos)); o.insert(o.end(), body.begin() + pos, body.end());
  return o;
}
// reference parser of a length in new format / of subpacket lengths; returns octets consumed (0 = error)
static inline size_t parse_new_len(const Bytes &in, size_t pos, uint64_t &len, bool &partial) {
  partial = false; if (pos >= in.size()) return 0; unsigned a = in[pos];
  if (a <= 191) { len = a; return 1; }
  if (a <= 223) { if (pos + 1 >= in.size()) return 0; len = ((uint64_t)(a - 192) << 8) + in[pos + 1] + 192; return 2; }
  if (a == 255) { if (pos + 4 >= in.size()) return 0; len = ((uint64_t)in[pos + 1] << 24) | ((uint64_t)in[pos + 2] << 16) | ((uint64_t)in[pos + 3] << 8) | in[pos + 4]; return 5; }
  partial = true; len = (uint64_t)1 << (a & 0x1F); return 1;
}
static inline size_t parse_sub_len(const Bytes &in, size_t pos, uint64_t &len) { // 5.2.3.1
  if (pos >= in.size()) return 0; unsigned a = in[pos];
  if (a < 192) { len = a; return 1; }
  if (a < 255) { if (pos + 1 >= in.size()) return 0; len = ((uint64_t)(a - 192) << 8) + in[pos + 1] + 192; return 2; }
  if (pos + 4 >= in.size()) return 0; len = ((uint64_t)in[pos + 1] << 24) | ((uint64_t)in[pos + 2] << 16) | ((uint64_t)in[pos + 3] << 8) | in[pos + 4]; return 5;
}

// ---------------------------------------------------------------------------
// RFC 4880 3.2: multiprecision integers
static inline size_t zbits(const mpz_class &v) { return sgn(v) == 0 ? 0 : mpz_sizeinbase(v.get_mpz_t(), 2); }
static inline Bytes be_octets(const mpz_class &v) { // minimal big-endian magnitude, empty for zero
  Bytes o((zbits(v) + 7) / 8); if (!o.empty()) { size_t cnt = 0; mpz_export(o.data(), &cnt, 1, 1, 1, 0, v.get_mpz_t()); }
  return o;
}
static inline Bytes mpi(const mpz_class &v) { Bytes o; put16(o, (uint32_t)zbits(v)); put(o, be_octets(v)); return o; }
static inline mpz_class from_be(const Bytes &b) { mpz_class r; if (!b.empty()) mpz_import(r.get_mpz_t(), b.size(), 1, 1, 1, 0, b.data()); return r; }
static inline unsigned sum16(const Bytes &b) { unsigned s = 0; for (size_t i = 0; i < b.size(); i++) s = (s + b[i]) & 0xFFFF; return s; }

// ---------------------------------------------------------------------------
// hashing (trusted primitive)
static inline int gcry_hash_id(unsigned pgp) { // RFC 4880 9.4 (+ bis: 12 = SHA3-256, 14 = SHA3-512)
  switch (pgp) { case 1: return GCRY_MD_MD5; case 2: return GCRY_MD_SHA1; case 3: return GCRY_MD_RMD160; case 8: return GCRY_MD_SHA256;
    case 9: return GCRY_MD_SHA384; case 10: return GCRY_MD_SHA512; case 11: return GCRY_MD_SHA224; case 12: return GCRY_MD_SHA3_256; case 14: return GCRY_MD_SHA3_512; }
  return 0;
}
static inline Bytes digest(int gcry_algo, const Bytes &d) {
  Bytes o(gcry_md_get_algo_dlen(gcry_algo)); gcry_md_hash_buffer(gcry_algo, o.data(), d.empty() ? (const void *)"" : (const void *)d.data(), d.size()); return o;
}
// RFC 4880 3.7.1: string-to-key.  mode 0 = simple, 1 = salted, 3 = iterated and salted
static inline uint32_t s2k_count(unsigned c) { return ((uint32_t)16 + (c & 15)) << ((c >> 4) + 6); }
static inline Bytes s2k(unsigned pgp_hash, unsigned mode, const Bytes &salt, unsigned count_octet, const std::string &pass, size_t keylen) {
  int algo = gcry_hash_id(pgp_hash); size_t dlen = gcry_md_get_algo_dlen(algo); Bytes key;
  if (!dlen) return key;
  Bytes unit; if (mode == 1 || mode == 3) put(unit, salt); put(unit, pass);
  uint64_t total = unit.size();
  if (mode == 3) { uint64_t cnt = s2k_count(count_octet); if (cnt > total) total = cnt; }
  for (size_t inst = 0; key.size() < keylen; inst++) {
    gcry_md_hd_t h; if (gcry_md_open(&h, algo, 0)) return Bytes();
    Bytes zeros(inst, 0); if (inst) gcry_md_write(h, zeros.data(), inst);
    uint64_t done = 0;
    if (unit.empty()) { /* nothing to hash */ }
    else while (done < total) { uint64_t n = total - done; if (n > unit.size()) n = unit.size(); gcry_md_write(h, unit.data(), (size_t)n); done += n; }
    unsigned char *r = gcry_md_read(h, algo);
    for (size_t i = 0; i < dlen && key.size() < keylen; i++) key.push_back(r[i]);
    gcry_md_close(h);
  }
  return key;
}

// ---------------------------------------------------------------------------
// RFC 4880 12.2 / bis-06 12.2: fingerprints and key IDs (body = packet body from the version octet on)
static inline Bytes fingerprint_v4(const Bytes &body) { Bytes m; m.push_back(0x99); put16(m, (uint32_t)body.size()); put(m, body); return digest(GCRY_MD_SHA1, m); }
static inline Bytes keyid_v4(const Bytes &body) { Bytes f = fingerprint_v4(body); return Bytes(f.end() - 8, f.end()); }
static inline Bytes fingerprint_v5(const Bytes &body) { Bytes m; m.push_back(0x9A); put32(m, body.size()); put(m, body); return digest(GCRY_MD_SHA256, m); }
static inline Bytes keyid_v5(const Bytes &body) { Bytes f = fingerprint_v5(body); return Bytes(f.begin(), f.begin() + 8); }

// ---------------------------------------------------------------------------
// packet bodies
// 5.5.2 public key material; v5: bis-06 5.5.2 (four-octet count of the key material)
static inline Bytes key_body(unsigned version, uint32_t created, unsigned algo, const Bytes &material) {
  Bytes o; put8(o, version); put32(o, created); put8(o, algo);
  if (version == 5) put32(o, material.size());
  put(o, material); return o;
}
static inline Bytes mpis(const std::vector<mpz_class> &v) { Bytes o; for (size_t i = 0; i < v.size(); i++) put(o, mpi(v[i])); return o; }
// RFC 6637 9: ECDSA / EdDSA: oid, point; ECDH additionally KDF parameters 03 01 hash sym
static inline Bytes ecc_material(const Bytes &oid, const mpz_class &point, bool ecdh, unsigned kdf_hash, unsigned kdf_sym) {
  Bytes o; put8(o, (unsigned)oid.size()); put(o, oid); put(o, mpi(point));
  if (ecdh) { put8(o, 3); put8(o, 1); put8(o, kdf_hash); put8(o, kdf_sym); }
  return o;
}
// 5.5.3 secret key part, unencrypted: usage 0, MPIs, two-octet sum
static inline Bytes secret_plain(const std::vector<mpz_class> &sec) { Bytes m = mpis(sec), o; put8(o, 0); put(o, m); put16(o, sum16(m)); return o; }
// 5.5.3, usage 254: sym algo, S2K specifier (iterated+salted), IV, CFB(MPIs || SHA-1(MPIs))
static inline Bytes cfb_encrypt(int gcry_cipher, const Bytes &key, const Bytes &iv, const Bytes &plain) {
  Bytes o = plain; gcry_cipher_hd_t h; if (gcry_cipher_open(&h, gcry_cipher, GCRY_CIPHER_MODE_CFB, 0)) return Bytes();
  gcry_cipher_setkey(h, key.data(), key.size()); gcry_cipher_setiv(h, iv.data(), iv.size());
  if (!o.empty()) gcry_cipher_encrypt(h, o.data(), o.size(), NULL, 0);
  gcry_cipher_close(h); return o;
}
static inline Bytes secret_sha1_aes256(const std::vector<mpz_class> &sec, const std::string &pass, unsigned s2k_hash, const Bytes &salt, unsigned count_octet, const Bytes &iv) {
  Bytes m = mpis(sec), plain = cat(m, digest(GCRY_MD_SHA1, m)), o;
  put8(o, 254); put8(o, 9 /* AES-256 */); put8(o, 3); put8(o, s2k_hash); put(o, salt); put8(o, count_octet); put(o, iv);
  put(o, cfb_encrypt(GCRY_CIPHER_AES256, s2k(s2k_hash, 3, salt, count_octet, pass, 32), iv, plain));
  return o;
}
// 5.1 PKESK v3
static inline Bytes pkesk_body(const Bytes &keyid, unsigned algo, const Bytes &algo_fields) { Bytes o; put8(o, 3); put(o, keyid); put8(o, algo); put(o, algo_fields); return o; }
// 5.3 SKESK v4 / bis-06 5.3 v5
static inline Bytes s2k_specifier(unsigned mode, unsigned hash, const Bytes &salt, unsigned count_octet) {
  Bytes o; put8(o, mode); put8(o, hash); if (mode == 1 || mode == 3) put(o, salt); if (mode == 3) put8(o, count_octet); return o;
}
static inline Bytes skesk4_body(unsigned sym, const Bytes &s2kspec, const Bytes &esk) { Bytes o; put8(o, 4); put8(o, sym); put(o, s2kspec); put(o, esk); return o; }
static inline Bytes skesk5_body(unsigned sym, unsigned aead, const Bytes &s2kspec, const Bytes &iv, const Bytes &esk_and_tag) { Bytes o; put8(o, 5); put8(o, sym); put8(o, aead); put(o, s2kspec); put(o, iv); put(o, esk_and_tag); return o; }
// 5.4 one-pass signature
static inline Bytes onepass_body(unsigned sigtype, unsigned hash, unsigned pk, const Bytes &keyid, unsigned nested) { Bytes o; put8(o, 3); put8(o, sigtype); put8(o, hash); put8(o, pk); put(o, keyid); put8(o, nested); return o; }
// 5.9 literal data
static inline Bytes literal_body(unsigned format, const std::string &filename, uint32_t date, const Bytes &data) { Bytes o; put8(o, format); put8(o, (unsigned)filename.size()); put(o, filename); put32(o, date); put(o, data); return o; }
// 5.13 / 5.14 / bis-06 5.16
static inline Bytes seipd_body(const Bytes &enc) { Bytes o; put8(o, 1); put(o, enc); return o; }
static inline Bytes aead_body(unsigned sym, unsigned aead, unsigned chunk, const Bytes &iv, const Bytes &enc) { Bytes o; put8(o, 1); put8(o, sym); put8(o, aead); put8(o, chunk); put(o, iv); put(o, enc); return o; }

// 5.2.3.1 signature subpackets
static inline Bytes subpacket(unsigned type, bool critical, const Bytes &body) { Bytes o = new_len(body.size() + 1); put8(o, (type & 0x7F) | (critical ? 0x80 : 0)); put(o, body); return o; }
struct Sub { unsigned type; bool critical; Bytes body; };
static inline bool parse_subpackets(const Bytes &area, std::vector<Sub> &out) {
  size_t p = 0;
  while (p < area.size()) {
    uint64_t len; size_t hl = parse_sub_len(area, p, len); if (!hl || len < 1 || p + hl + len > area.size()) return false;
    Sub s; s.type = area[p + hl] & 0x7F; s.critical = (area[p + hl] & 0x80) != 0; s.body.assign(area.begin() + p + hl + 1, area.begin() + p + hl + len);
    out.push_back(s); p += hl + len;
  }
  return true;
}
static inline Bytes time_body(uint32_t t) { Bytes o; put32(o, t); return o; }
static inline Bytes notation_body(bool human, const Bytes &name, const Bytes &value) { Bytes o; put8(o, human ? 0x80 : 0); put8(o, 0); put8(o, 0); put8(o, 0); put16(o, (uint32_t)name.size()); put16(o, (uint32_t)value.size()); put(o, name); put(o, value); return o; }
// 5.2.3 v4 (and bis-06 v5) signature: the "hashed part" up to the end of the hashed subpackets
static inline Bytes sig4_hashed_part(unsigned version, unsigned sigtype, unsigned pk, unsigned hash, const Bytes &hashed_area) { Bytes o; put8(o, version); put8(o, sigtype); put8(o, pk); put8(o, hash); put16(o, (uint32_t)hashed_area.size()); put(o, hashed_area); return o; }
static inline Bytes sig4_body(const Bytes &hashed_part, const Bytes &unhashed_area, const Bytes &left16, const Bytes &sig_mpis) { Bytes o = hashed_part; put16(o, (uint32_t)unhashed_area.size()); put(o, unhashed_area); put(o, left16); put(o, sig_mpis); return o; }
// 5.2.2 v3 signature
static inline Bytes sig3_body(unsigned sigtype, uint32_t created, const Bytes &keyid, unsigned pk, unsigned hash, const Bytes &left16, const Bytes &sig_mpis) { Bytes o; put8(o, 3); put8(o, 5); put8(o, sigtype); put32(o, created); put(o, keyid); put8(o, pk); put8(o, hash); put(o, left16); put(o, sig_mpis); return o; }

// self test of the reference against published vectors; returns an empty string when fine
static inline std::string selftest() {
  struct { const char *in, *out; } v[] = {{"", ""}, {"f", "Zg=="}, {"fo", "Zm8="}, {"foo", "Zm9v"}, {"foob", "Zm9vYg=="}, {"fooba", "Zm9vYmE="}, {"foobar", "Zm9vYmFy"}}; // RFC 4648 10
  for (auto &t : v) { Bytes b(t.in, t.in + strlen(t.in)); if (b64(b) != t.out) return "base64 vector"; Bytes d; if (!b64_decode(t.out, d) || d != b) return "base64 decode vector"; }
  { const char *s = "123456789"; Bytes b(s, s + 9); if (crc24(b) != 0x21CF02) return "crc24 check value"; if (crc24(Bytes()) != 0xB704CE) return "crc24 of the empty string"; }
  { Bytes a = mpi(mpz_class(1)), b = mpi(mpz_class(511)); const uint8_t ea[] = {0, 1, 1}, eb[] = {0, 9, 1, 0xFF}; // RFC 4880 3.2 examples
    if (a != Bytes(ea, ea + 3) || b != Bytes(eb, eb + 4)) return "mpi examples"; }
  if (new_len(100) != Bytes{100} || new_len(1723) != Bytes{0xC5, 0xFB} || new_len(100000) != Bytes{0xFF, 0x00, 0x01, 0x86, 0xA0}) return "length examples (RFC 4880 4.2.3)";
  if (s2k_count(0) != 1024 || s2k_count(255) != 65011712 || s2k_count(96) != 65536) return "s2k count";
  { Bytes k = s2k(2, 0, Bytes(), 0, "abc", 20); const uint8_t e[] = {0xa9, 0x99, 0x3e, 0x36, 0x47, 0x06, 0x81, 0x6a, 0xba, 0x3e, 0x25, 0x71, 0x78, 0x50, 0xc2, 0x6c, 0x9c, 0xd0, 0xd8, 0x9d}; if (k != Bytes(e, e + 20)) return "simple s2k = SHA-1(abc)"; }
  return "";
}

} // namespace refpgp
