#!/usr/bin/env python3
"""verif.py — driver of the libtmcg property checks.

  verif.py setup                      build the library (sanitized) and every harness from /repo's working tree
  verif.py run Cxx [--tier quick|thorough]   run one property check, write evidence/Cxx.json
  verif.py replay Cxx <file.json>     re-run one saved case (no generator library involved)
  verif.py list Cxx                   list the sub-properties of a harness

Exit status of `run`: 0 = property held on everything explored (known findings are
printed as KNOWN-FINDING lines), 1 = violation (a line `VIOLATION property=Cxx replay=<path>`).
"""
import sys, os, json, hashlib, subprocess, time, glob, fcntl, shutil, re, signal
from concurrent.futures import ThreadPoolExecutor

VERIF = os.path.dirname(os.path.abspath(__file__))
REPO = os.environ.get("VERIF_REPO", "/repo")
BUILD = os.environ.get("VERIF_BUILD", os.path.join(VERIF, "build"))
NCPU = int(os.environ.get("VERIF_JOBS", str(os.cpu_count() or 8)))
CXX = "clang++"
BASE_FLAGS = ["-std=gnu++14", "-g", "-O1", "-fno-omit-frame-pointer", "-DHAVE_CONFIG_H", "-w"]
SAN_FLAGS = ["-fsanitize=address,undefined", "-fno-sanitize=enum", "-fno-sanitize-recover=undefined"]
FLAVOURS = {
    "asan": BASE_FLAGS + SAN_FLAGS,
    "fuzz": BASE_FLAGS + SAN_FLAGS + ["-fsanitize=fuzzer-no-link"],
    # line coverage of /repo/src under the generated cases (tools/coverage.sh; never used by a registered command)
    "cov": BASE_FLAGS + SAN_FLAGS + ["-fprofile-instr-generate", "-fcoverage-mapping"],
}
RUN_FLAVOUR = os.environ.get("VERIF_FLAVOUR", "asan")
LIBS = ["-lgmpxx", "-lgcrypt", "-lgpg-error", "-lgmp", "-ldl", "-lpthread"]
ASAN_ENV = "detect_leaks=0:abort_on_error=0:allocator_may_return_null=1:max_allocation_size_mb=2048:detect_stack_use_after_return=0"
UBSAN_ENV = "print_stacktrace=1:halt_on_error=1"

def sha(*parts):
    h = hashlib.sha256()
    for p in parts:
        h.update(p if isinstance(p, bytes) else str(p).encode()); h.update(b"\0")
    return h.hexdigest()[:20]

def read(p):
    with open(p, "rb") as f: return f.read()

def log(*a):
    print(*a, file=sys.stderr, flush=True)

# --------------------------------------------------------------------------- build
def config_include_dir():
    """directory holding libTMCG_config.h: /repo's own if configured, else a committed fallback copy"""
    if os.path.exists(os.path.join(REPO, "libTMCG_config.h")):
        return REPO
    return os.path.join(VERIF, "lib", "fallback_config")

def repo_sources():
    srcs = sorted(glob.glob(os.path.join(REPO, "src", "*.cc")))
    return [s for s in srcs if os.path.basename(s) != "gen_primes.cc"]

def repo_header_hash():
    hs = sorted(glob.glob(os.path.join(REPO, "src", "*.hh")) + glob.glob(os.path.join(REPO, "src", "*.h")))
    hs.append(os.path.join(config_include_dir(), "libTMCG_config.h"))
    return sha(*[read(h) for h in hs])

def verif_header_hash():
    hs = sorted(glob.glob(os.path.join(VERIF, "lib", "*.hh")))
    return sha(*[read(h) for h in hs])

def compile_obj(src, flags, extra_key, outdir):
    key = sha(read(src), " ".join(flags), extra_key, os.path.basename(src))
    obj = os.path.join(outdir, os.path.basename(src).replace(".cc", "") + "-" + key + ".o")
    if os.path.exists(obj):
        return obj, 0.0
    t0 = time.time()
    tmp = obj + ".tmp%d" % os.getpid()
    cmd = [CXX] + flags + ["-I", config_include_dir(), "-I", os.path.join(REPO, "src"), "-I", os.path.join(VERIF, "lib"), "-c", src, "-o", tmp]
    r = subprocess.run(cmd, capture_output=True, text=True)
    if r.returncode != 0:
        raise RuntimeError("compile failed: %s\n%s" % (" ".join(cmd), r.stderr[-4000:]))
    os.rename(tmp, obj)
    return obj, time.time() - t0

class BuildLock:
    def __enter__(self):
        os.makedirs(BUILD, exist_ok=True)
        self.f = open(os.path.join(BUILD, ".lock"), "w")
        fcntl.flock(self.f, fcntl.LOCK_EX)
        return self
    def __exit__(self, *a):
        fcntl.flock(self.f, fcntl.LOCK_UN); self.f.close()

def build_library(flavour, pool):
    outdir = os.path.join(BUILD, flavour, "obj"); os.makedirs(outdir, exist_ok=True)
    hh = repo_header_hash()
    flags = FLAVOURS[flavour]
    futs = [pool.submit(compile_obj, s, flags, hh, outdir) for s in repo_sources()]
    return futs

HARNESS_EXTRA = {  # extra translation units / flags per harness
}

def harness_sources(prop):
    c = sorted(glob.glob(os.path.join(VERIF, "harness", prop.lower() + "_*.cc")) + glob.glob(os.path.join(VERIF, "harness", prop.lower() + ".cc")))
    return c

def build(props, flavour="asan"):
    """returns {prop: exe path}"""
    t0 = time.time()
    with BuildLock():
        with ThreadPoolExecutor(NCPU) as pool:
            libf = build_library(flavour, pool)
            hh = sha(repo_header_hash(), verif_header_hash())
            outdir = os.path.join(BUILD, flavour, "hobj"); os.makedirs(outdir, exist_ok=True)
            flags = FLAVOURS[flavour]
            common = {}
            for n in ["interpose.cc", "tmcg_init.cc", "vf_main.cc"]:
                common[n] = pool.submit(compile_obj, os.path.join(VERIF, "lib", n), flags, hh, outdir)
            hf = {}
            for p in props:
                srcs = harness_sources(p)
                if not srcs:
                    raise RuntimeError("no harness source for " + p)
                hf[p] = [pool.submit(compile_obj, s, flags, hh, outdir) for s in srcs]
            libobjs = [f.result()[0] for f in libf]
            comobjs = [common[n].result()[0] for n in common]
            # archive of the library objects
            akey = sha(*libobjs)
            ar = os.path.join(BUILD, flavour, "libtmcg-%s.a" % akey)
            if not os.path.exists(ar):
                tmp = ar + ".tmp%d" % os.getpid()
                subprocess.run(["ar", "rcs", tmp] + libobjs, check=True)
                os.rename(tmp, ar)
            exes = {}
            bindir = os.path.join(BUILD, flavour, "bin"); os.makedirs(bindir, exist_ok=True)
            def link(p):
                hobjs = [f.result()[0] for f in hf[p]]
                key = sha(akey, *(hobjs + comobjs))
                exe = os.path.join(bindir, "%s-%s" % (p, key))
                if not os.path.exists(exe):
                    tmp = exe + ".tmp%d" % os.getpid()
                    cmd = [CXX] + flags + hobjs + comobjs + [ar, "-lrapidcheck"] + LIBS + ["-o", tmp]
                    r = subprocess.run(cmd, capture_output=True, text=True)
                    if r.returncode != 0:
                        raise RuntimeError("link failed for %s:\n%s" % (p, r.stderr[-4000:]))
                    os.rename(tmp, exe)
                return exe
            for p, e in zip(props, pool.map(link, props)):
                exes[p] = e
    # prune stale binaries / archives (keep the build dir small)
    prune(flavour, keep=set(exes.values()) | {ar})
    log("[build] %s flavour=%s %.1fs" % (",".join(props), flavour, time.time() - t0))
    return exes

def prune(flavour, keep):
    # remove binaries and archives older than 2 days that are not in use; objects are small enough to keep
    now = time.time()
    for pat in ["bin/*", "libtmcg-*.a"]:
        for f in glob.glob(os.path.join(BUILD, flavour, pat)):
            if f not in keep and now - os.path.getmtime(f) > 2 * 86400:
                try: os.unlink(f)
                except OSError: pass

# --------------------------------------------------------------------------- known findings
def load_known():
    p = os.path.join(VERIF, "known_findings.json")
    if not os.path.exists(p): return []
    return json.load(open(p)).get("findings", [])

def known_for(prop):
    if os.environ.get("VERIF_IGNORE_KNOWN"):   # maintenance only (re-recording the replay of a known finding): never set by a registered command
        return {}
    return {f["key"]: f for f in load_known() if f["property"] == prop and f.get("status") == "known"}

# --------------------------------------------------------------------------- meta
def load_meta(prop):
    return json.load(open(os.path.join(VERIF, "harness", "meta.d", prop + ".json")))

def env_for_run():
    e = dict(os.environ)
    e["ASAN_OPTIONS"] = ASAN_ENV
    e["UBSAN_OPTIONS"] = UBSAN_ENV
    e.pop("RC_PARAMS", None)
    return e

def crash_signature(sub, stderr_text, rc):
    """signature of a sanitizer/abort/signal death: error class + innermost /repo function, no line numbers"""
    kind = None; func = None
    m = re.search(r"SUMMARY: (\w+): ([\w-]+)(?: [^\n]*? in ([^\n]+))?", stderr_text)
    if m:
        kind = m.group(2); func = m.group(3)
    if not kind:
        m = re.search(r"runtime error: ([^\n]+)", stderr_text)
        if m: kind = "ubsan:" + re.sub(r"0x[0-9a-f]+|\d+", "N", m.group(1))[:60]
    if not kind:
        m = re.search(r"Assertion `([^']+)' failed", stderr_text)
        if m: kind = "assert:" + m.group(1)[:80]
    if not kind:
        kind = "exit%d" % rc
    # innermost frame inside /repo/src
    fm = re.search(r"#\d+ 0x[0-9a-f]+ in ([^\n]+?) " + re.escape(os.path.join(REPO, "src")) + r"/([\w.]+):\d+", stderr_text)
    if fm:
        func = re.sub(r"\(.*", "", fm.group(1)) + "@" + fm.group(2)
    elif func:
        func = re.sub(r"\(.*", "", func.strip())
    return "crash/%s/%s/%s" % (sub, kind, func or "?")

# --------------------------------------------------------------------------- run
def run_shard(exe, sub, cases, frm, seed, tier, known_file, out, timeout, extra):
    cmd = [exe, "--sub", sub, "--cases", str(cases), "--from", str(frm), "--seed", str(seed), "--tier", tier, "--known", known_file, "--out", out] + extra
    t0 = time.time()
    try:
        p = subprocess.run(cmd, capture_output=True, text=True, errors="replace", timeout=timeout, env=env_for_run())
        rc, so, se, to = p.returncode, p.stdout, p.stderr, False
    except subprocess.TimeoutExpired as e:
        rc, so, se, to = -9, (e.stdout or b"").decode(errors="replace") if isinstance(e.stdout, bytes) else (e.stdout or ""), (e.stderr or b"").decode(errors="replace") if isinstance(e.stderr, bytes) else (e.stderr or ""), True
    res = {"sub": sub, "cases": cases, "from": frm, "rc": rc, "timeout": to, "wall": time.time() - t0, "stderr": se[-6000:], "stdout": so[-2000:], "stats": None, "cur": None}
    if os.path.exists(out):
        try: res["stats"] = json.load(open(out))
        except Exception as ex: res["stderr"] += "\n[driver] unreadable stats: %s" % ex
    if os.path.exists(out + ".cur"):
        try: res["cur"] = json.load(open(out + ".cur"))
        except Exception: pass
    return res

def replay_case(exe, case, tier, known_file, timeout=900):
    pref = ",".join(str(x) for x in case.get("prefix", [])) or "-"
    cmd = [exe, "--sub", case["sub"], "--tier", tier, "--known", known_file, "--replay", pref, "--tailseed", str(case.get("tailseed", "0"))]
    try:
        p = subprocess.run(cmd, capture_output=True, text=True, errors="replace", timeout=timeout, env=env_for_run())
    except subprocess.TimeoutExpired:
        return {"outcome": "timeout", "signature": None, "text": ""}
    if p.returncode == 0:
        return {"outcome": "pass", "signature": None, "text": p.stdout[-1500:], "known": re.findall(r"^KNOWN (.+)$", p.stdout, re.M)}
    if p.returncode == 3:
        m = re.search(r"REPLAY-FAIL signature=(\S+)", p.stdout)
        return {"outcome": "fail", "signature": m.group(1) if m else "?", "text": p.stdout[-3000:], "known": re.findall(r"^KNOWN (.+)$", p.stdout, re.M)}
    return {"outcome": "crash", "signature": crash_signature(case["sub"], p.stderr, p.returncode), "text": p.stderr[-3000:]}

def write_known_file(prop, rundir):
    kf = os.path.join(rundir, "known.tsv")
    with open(kf, "w") as f:
        for k, v in known_for(prop).items():
            f.write("%s\t%s\n" % (k, v.get("what", "").replace("\n", " ")))
    return kf

def plan_shards(subs, tier, meta):
    shards = []
    for s in subs:
        n = s[tier]
        if n <= 0: continue
        per = meta.get("shards", {}).get(s["name"])
        k = per if per else min(NCPU, n)
        k = max(1, min(k, n))
        base, rem = divmod(n, k); frm = 0
        for i in range(k):
            c = base + (1 if i < rem else 0)
            if c: shards.append((s["name"], c, frm, i)); frm += c
    return shards

def run_property(prop, tier, seed):
    t0 = time.time()
    meta = load_meta(prop)
    if meta.get("engine") == "fuzz":
        import fuzzdrv
        return fuzzdrv.run_property(sys.modules[__name__], prop, tier, seed, meta)
    exe = build([prop], RUN_FLAVOUR)[prop]
    rundir = os.path.join(BUILD, "run", "%s-%s-%d" % (prop, tier, os.getpid())); shutil.rmtree(rundir, ignore_errors=True); os.makedirs(rundir)
    known_file = write_known_file(prop, rundir)
    known = known_for(prop)
    subs = [json.loads(l) for l in subprocess.run([exe, "--list"], capture_output=True, text=True, env=env_for_run()).stdout.splitlines() if l.startswith("{")]
    subs_by_name = {s["name"]: s for s in subs}
    only = os.environ.get("VERIF_ONLY_SUB")
    if only: subs = [s for s in subs if s["name"] in only.split(",")]
    scale = float(os.environ.get("VERIF_SCALE", "1"))
    if scale != 1:
        for s in subs:
            if not s["enumerated"]: s[tier] = max(1, int(s[tier] * scale))
    timeout = meta.get("shard_timeout", {}).get(tier, 900 if tier == "quick" else 5400)

    failures = []   # candidate failing cases
    known_hits = {}  # signature -> count
    replayed = 0
    # 1. committed regression replays
    for rp in sorted(glob.glob(os.path.join(VERIF, "replays", prop, "*.json"))):
        case = json.load(open(rp))
        if case["sub"] not in subs_by_name: continue
        r = replay_case(exe, case, tier, known_file)
        replayed += 1
        for k in r.get("known", []): known_hits[k] = known_hits.get(k, 0) + 1
        if r["outcome"] in ("fail", "crash"):
            if r["signature"] in known: known_hits[r["signature"]] = known_hits.get(r["signature"], 0) + 1
            else: failures.append({"case": case, "signature": r["signature"], "message": r["text"], "origin": "replay:" + os.path.basename(rp)})
    # 2. generated / enumerated shards
    shards = plan_shards(subs, tier, meta)
    results = []
    with ThreadPoolExecutor(NCPU) as pool:
        futs = []
        for (sub, cases, frm, idx) in shards:
            sseed = int(sha(seed, prop, sub, idx), 16) % (2 ** 63)
            out = os.path.join(rundir, "%s.%d.json" % (sub, idx))
            futs.append(pool.submit(run_shard, exe, sub, cases, frm, sseed, tier, known_file, out, timeout, []))
        for f in futs: results.append(f.result())
    if os.environ.get("VERIF_DEBUG"):
        for r in sorted(results, key=lambda r: -r["wall"])[:12]:
            log("[shard] %-34s cases=%-7d rc=%d wall=%.1fs" % (r["sub"], r["cases"], r["rc"], r["wall"]))

    agg = {"evaluations": 0, "discards": 0, "nontrivial": set(), "labels": {}, "samples": {}, "excluded_known": {}, "counters": {}, "per_sub": {}}
    inconclusive = []; crashed = []
    for r in results:
        st = r["stats"]
        if st:
            agg["evaluations"] += st["evaluations"]; agg["discards"] += st["discards"]
            agg["nontrivial"].update(st["nontrivial"])
            ps = agg["per_sub"].setdefault(r["sub"], {"evaluations": 0, "nontrivial": set()})
            ps["evaluations"] += st["evaluations"]; ps["nontrivial"].update(st["nontrivial"])
            for k, v in st["labels"].items(): agg["labels"][r["sub"] + ":" + k] = agg["labels"].get(r["sub"] + ":" + k, 0) + v
            for k, v in st["samples"].items():
                sl = agg["samples"].setdefault(r["sub"] + ":" + k, [])
                if len(sl) < 2: sl.extend(v[: 2 - len(sl)])
            for k, v in st["excluded_known"].items(): known_hits[k] = known_hits.get(k, 0) + v
            for k, v in st["counters"].items(): agg["counters"][r["sub"] + ":" + k] = agg["counters"].get(r["sub"] + ":" + k, 0) + v
            for fl in st["failures"]:
                failures.append({"case": {"sub": fl["sub"], "prefix": fl["prefix"], "tailseed": fl["tailseed"]}, "signature": fl["signature"], "message": fl["message"], "desc": fl.get("desc", ""), "origin": "generated"})
        elif r["timeout"]:
            inconclusive.append({"sub": r["sub"], "reason": "watchdog after %ds" % timeout, "case": r["cur"]})
        else:
            sig = crash_signature(r["sub"], r["stderr"], r["rc"])
            crashed.append(r)
            if r["cur"]:
                case = dict(r["cur"]);
                if sig in known: known_hits[sig] = known_hits.get(sig, 0) + 1
                else: failures.append({"case": case, "signature": sig, "message": r["stderr"][-2500:], "origin": "crash"})
            else:
                failures.append({"case": {"sub": r["sub"], "prefix": [], "tailseed": "0"}, "signature": "harness-died-before-first-case/" + r["sub"], "message": r["stderr"][-2500:], "origin": "crash", "unreplayable": True})

    # 3. confirm failures by three plain replays
    violations = []; flaky = []
    seen_sig = set()
    for fl in failures:
        if fl["signature"] in seen_sig: continue
        seen_sig.add(fl["signature"])
        if fl.get("unreplayable"):
            violations.append(fl); continue
        outs = [replay_case(exe, fl["case"], tier, known_file) for _ in range(3)]
        if all(o["outcome"] in ("fail", "crash") for o in outs):
            sig = outs[0]["signature"]
            if sig in known: known_hits[sig] = known_hits.get(sig, 0) + 1; continue
            fl["signature"] = sig; fl["replay_text"] = outs[0]["text"]
            violations.append(fl)
        else:
            flaky.append({"signature": fl["signature"], "outcomes": [o["outcome"] for o in outs]})

    rdir = os.path.join(BUILD, "replay", prop); os.makedirs(rdir, exist_ok=True)
    vio_paths = []
    for v in violations:
        body = {"property": prop, "sub": v["case"]["sub"], "prefix": v["case"].get("prefix", []), "tailseed": str(v["case"].get("tailseed", "0")),
                "signature": v["signature"], "message": v.get("message", "")[:3000], "desc": v.get("desc", ""), "origin": v["origin"], "replay_output": v.get("replay_text", "")[:3000]}
        path = os.path.join(rdir, "%s-%s.json" % (prop, sha(json.dumps(body, sort_keys=True))[:12]))
        json.dump(body, open(path, "w"), indent=1)
        vio_paths.append(path)

    # 4. evidence
    samples = []
    for k in sorted(agg["samples"]):
        for s in agg["samples"][k]:
            samples.append({"class": k, "case": s})
    samples = samples[:60]
    ev = {
        "property_id": prop, "tier": tier, "seed": int(seed), "level": meta["level"],
        "coverage": {
            "evaluations": agg["evaluations"] + replayed,
            "distinct_nontrivial": len(agg["nontrivial"]),
            "rule": meta["rule"],
            "samples": samples if samples else [{"note": "no case completed"}],
            "classes": agg["labels"],
            "per_sub": {k: {"evaluations": v["evaluations"], "distinct_nontrivial": len(v["nontrivial"])} for k, v in agg["per_sub"].items()},
            "counters": agg["counters"],
            "excluded_known": known_hits,
            "regression_replays": replayed,
            "discards": agg["discards"],
            "inconclusive": inconclusive,
            "flaky_unconfirmed": flaky,
            "crashed_shards": len(crashed),
            "exhaustive": bool(meta.get("exhaustive_part")),
            "exhaustive_part": meta.get("exhaustive_part", ""),
            "engine": meta.get("engine", "pbt (rapidcheck over choice sequences)"),
        },
        "assumptions": meta.get("assumptions", []),
        "wall_s": round(time.time() - t0, 2),
        "violations": len(violations),
    }
    write_evidence(prop, ev)

    allk = {f["key"]: f for f in load_known() if f["property"] == prop and f.get("status") == "known"}
    for k, n in sorted(known_hits.items()):
        print("KNOWN-FINDING: property=%s %s — %s (hit %d times)" % (prop, k, allk.get(k, {}).get("what", ""), n))
    for inc in inconclusive:
        print("INCONCLUSIVE: property=%s sub=%s %s" % (prop, inc["sub"], inc["reason"]))
    print("%s tier=%s evaluations=%d distinct_nontrivial=%d violations=%d wall=%.1fs" % (prop, tier, ev["coverage"]["evaluations"], ev["coverage"]["distinct_nontrivial"], len(violations), time.time() - t0))
    for v, p in zip(violations, vio_paths):
        print("  signature=%s :: %s" % (v["signature"], (v.get("message") or "").strip().splitlines()[0][:300] if (v.get("message") or "").strip() else ""))
        print("VIOLATION property=%s replay=%s" % (prop, p))
    sys.stdout.flush()
    shutil.rmtree(rundir, ignore_errors=True)
    return 1 if violations else 0

def write_evidence(prop, ev):
    edir = os.environ.get("VERIF_EVIDENCE_DIR", os.path.join(VERIF, "evidence"))
    os.makedirs(edir, exist_ok=True)
    tmp = os.path.join(edir, prop + ".json.tmp")
    json.dump(ev, open(tmp, "w"), indent=1)
    os.rename(tmp, os.path.join(edir, prop + ".json"))

def cmd_replay(prop, path):
    meta = load_meta(prop)
    if meta.get("engine") == "fuzz":
        import fuzzdrv
        return fuzzdrv.replay(sys.modules[__name__], prop, path, meta)
    exe = build([prop])[prop]
    rundir = os.path.join(BUILD, "run", prop + "-replay"); os.makedirs(rundir, exist_ok=True)
    kf = write_known_file(prop, rundir)
    case = json.load(open(path))
    r = replay_case(exe, case, "quick", kf)
    print(r["outcome"], r.get("signature"))
    print(r["text"])
    return 0 if r["outcome"] == "pass" else 1

def all_props():
    enabled = open(os.path.join(VERIF, "harness", "ENABLED")).read().split()
    return sorted(p for p in enabled if os.path.exists(os.path.join(VERIF, "harness", "meta.d", p + ".json")))

def main():
    a = sys.argv[1:]
    if not a:
        print(__doc__); return 2
    seed = int(os.environ.get("VERIF_SEED", "20260923") or "20260923")
    if a[0] == "setup":
        props = [p for p in all_props() if load_meta(p).get("engine") != "fuzz"]
        build(props)
        fz = [p for p in all_props() if load_meta(p).get("engine") == "fuzz"]
        if fz:
            import fuzzdrv
            for p in fz: fuzzdrv.build_targets(sys.modules[__name__], p, load_meta(p))
        return 0
    if a[0] == "run":
        prop = a[1]; tier = os.environ.get("VERIF_TIER", "quick")
        if "--tier" in a: tier = a[a.index("--tier") + 1]
        return run_property(prop, tier, seed)
    if a[0] == "replay":
        return cmd_replay(a[1], a[2])
    if a[0] == "list":
        exe = build([a[1]])[a[1]]
        print(subprocess.run([exe, "--list"], capture_output=True, text=True, env=env_for_run()).stdout)
        return 0
    print(__doc__); return 2

if __name__ == "__main__":
    sys.exit(main())
