#!/bin/bash
# refresh_evidence.sh : run every enabled check once (quick tier, default seed) against /repo so that evidence/*.json describes the committed state
cd "$(dirname "$0")/.." || exit 2
for id in ${@:-$(cat harness/ENABLED)}; do
  t0=$(date +%s); out=$(python3 verif.py run $id --tier quick 2>&1); rc=$?
  echo "$id rc=$rc $(( $(date +%s)-t0 ))s :: $(echo "$out" | grep -E "tier=quick|VIOLATION|HARNESS" | tail -2 | tr '\n' ' ' | cut -c1-220)"
done
