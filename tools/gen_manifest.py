#!/usr/bin/env python3
"""regenerate MANIFEST.json from harness/meta.json (single source of truth for per-property texts)"""
import json, os
V = os.path.dirname(os.path.dirname(os.path.abspath(__file__)))
import glob
meta = {os.path.basename(f)[:-5]: json.load(open(f)) for f in glob.glob(os.path.join(V, "harness", "meta.d", "C*.json"))}
props = [json.loads(l) for l in open(os.path.join(V, "properties.jsonl"))]
checks = []; na = []
for p in props:
    pid = p["id"]; m = meta.get(pid)
    enabled = open(os.path.join(V, "harness", "ENABLED")).read().split()
    if not m or m.get("disabled") or pid not in enabled:
        na.append({"property_id": pid, "reason": (m or {}).get("disabled", "check not built yet (see DESIGN.md section 6 for the order of implementation)")})
        continue
    checks.append({
        "property_id": pid,
        "quick_cmd": "python3 verif.py run %s --tier quick" % pid,
        "thorough_cmd": "python3 verif.py run %s --tier thorough" % pid,
        "evidence_file": "evidence/%s.json" % pid,
        "replay_cmd_template": "python3 verif.py replay %s {path}" % pid,
        "engine": m.get("engine", "pbt"),
        "level_claimed": {"category": m["level"], "text": m["level_text"], "design_ref": m.get("design_ref", "DESIGN.md Part I (I.4 as built, I.7 sensitivity) and Part II section 3, " + pid)},
        "level_note": m["level_note"],
        "technique": m["technique"],
    })
man = {
    "version": 1,
    "setup_cmd": "python3 verif.py setup",
    "hooks": {"guard": "LIBTMCG_VERIF", "enable": "none needed: no hook is compiled into /repo; observation goes through public members, return values, streams and three harness-side interposers (gcry_randomize/gcry_create_nonce, time, mpz_export/mpz_get_str)",
              "baseline_off_cmd": "cd /repo && make -k check", "source_commits": [], "add_only": True},
    "engines": [
        {"name": "pbt", "path": "lib/vf_main.cc", "serves_properties": [c["property_id"] for c in checks if c["engine"] == "pbt"], "kind_free_text": "rapidcheck-driven generation and shrinking of choice sequences; every harness/cNN.cc decodes a choice sequence into a case and judges it with an independent oracle"},
        {"name": "fuzz", "path": "fuzzdrv.py", "serves_properties": [c["property_id"] for c in checks if c["engine"] == "fuzz"], "kind_free_text": "libFuzzer (fork mode) targets with structure-aware decoding, ASan/UBSan and the GMP write guard"},
    ],
    "checks": checks,
    "not_applicable": na,
    "notes": "All checks build the library from /repo's working tree (src/*.cc) with clang ASan+UBSan into /verif/build (cached by content hash). VERIF_SEED selects the seed; known findings are listed in known_findings.json.",
}
json.dump(man, open(os.path.join(V, "MANIFEST.json"), "w"), indent=1)
print("checks:", [c["property_id"] for c in checks], "not_applicable:", [n["property_id"] for n in na])
