#!/bin/bash
# confirm_seed.sh <ID> <relevant existing test> : re-check a sub-agent's seeded change in its scratch worktree
#  1. demo fails with the change, 2. demo passes without it, 3. the named existing test still passes with the change.
# The change is taken out and put back with `git apply -R` / `git apply` of a diff file: the stash of git is shared by
# all worktrees of a repository and collided with sub-agents working in parallel.
ID=$1; T=$2; W=${SEED_DIR_PREFIX:-/tmp/seed-}$ID; MK="make -f $(dirname "$(readlink -f "$0")")/seedtools/Makefile.seed -C $W"
out=$W/confirm.log; : > $out
cd $W || exit 2
git -C $W diff --quiet -- src && { echo "no change applied in $W" | tee -a $out; exit 2; }
git -C $W diff -- src > $W/_confirm_change.diff
$MK -j8 lib >>$out 2>&1
g++ -std=gnu++14 -O1 -g -w -DHAVE_CONFIG_H -I/repo -Isrc demo/demo.cc _obj/libtmcg.a -lgcrypt -lgpg-error -lgmp -lpthread -o _obj/demo_with >>$out 2>&1
( cd $W && timeout 1800 ./_obj/demo_with >>$out 2>&1 ); WITH=$?
if [ -n "$T" ]; then $MK test T=$T >>$out 2>&1; TST=$(grep "exit status of $T" $out | tail -1 | awk '{print $NF}'); else TST=skipped; fi
git -C $W apply -R $W/_confirm_change.diff >>$out 2>&1 || { echo "cannot take the change out" | tee -a $out; exit 2; }
$MK -j8 lib >>$out 2>&1
g++ -std=gnu++14 -O1 -g -w -DHAVE_CONFIG_H -I/repo -Isrc demo/demo.cc _obj/libtmcg.a -lgcrypt -lgpg-error -lgmp -lpthread -o _obj/demo_without >>$out 2>&1
( cd $W && timeout 1800 ./_obj/demo_without >>$out 2>&1 ); WITHOUT=$?
git -C $W apply $W/_confirm_change.diff >>$out 2>&1; rm -f $W/_confirm_change.diff
echo "SEED $ID: demo with change exit=$WITH, without change exit=$WITHOUT, existing test $T with change exit=$TST"
