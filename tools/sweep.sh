#!/bin/bash
# sweep.sh <tier> <seed>... : run every enabled check with other VERIF_SEED values (false-alarm / boundary reading); evidence goes to a scratch dir
cd "$(dirname "$0")/.." || exit 2
tier=$1; shift
python3 verif.py setup >/dev/null 2>&1
for s in "$@"; do
  for id in ${SWEEP_IDS:-$(cat harness/ENABLED)}; do
    t0=$(date +%s); out=$(VERIF_SEED=$s VERIF_EVIDENCE_DIR=$PWD/build/sweep_ev/$s python3 verif.py run $id --tier $tier 2>&1); rc=$?
    echo "seed=$s $id rc=$rc $(( $(date +%s)-t0 ))s :: $(echo "$out" | grep -E "tier=$tier|VIOLATION|HARNESS|signature=|inconclusive" | tail -4 | tr '\n' ' ' | cut -c1-400)"
  done
done
