#!/bin/bash
# seed_round.sh <ID> <existing test> : confirm a sub-agent's change in /tmp/seed-<ID>, then run the check of <ID> against it (scratch worktree)
cd "$(dirname "$0")/.." || exit 2
ID=$1; T=$2
c=$(bash tools/confirm_seed.sh $ID $T 2>&1 | tail -1); echo "$c"
cp ${SEED_DIR_PREFIX:-/tmp/seed-}$ID/demo/patch.diff /tmp/seedpatch-$ID.diff
python3 tools/mutate.py run $ID /tmp/seedpatch-$ID.diff 2>&1 | tail -12
