#!/bin/bash
# for each revert diff: which committed replay files of that property fail on the reverted tree?
cd /verif
for f in mutants/${1:-*}/revert-*.diff; do id=$(basename $(dirname $f)); sha=$(basename $f .diff); W=/tmp/vrc-$sha
  git -C /repo worktree add --detach $W HEAD >/dev/null 2>&1; git -C $W apply /verif/$f || { echo "$id $sha: patch failed"; continue; }
  fails=""
  if [ "$id" = "C12" ]; then files=$(ls replays/$id/*.bin 2>/dev/null); else files=$(ls replays/$id/*.json 2>/dev/null); fi
  for r in $files; do out=$(VERIF_REPO=$W VERIF_EVIDENCE_DIR=/tmp/ev-rc python3 verif.py replay $id $r 2>&1 | tail -4); if echo "$out" | grep -q "REPLAY-PASS\|^pass"; then :; else fails="$fails $(basename $r)"; fi; done
  echo "$id $sha: failing replays:${fails:- NONE}"
  git -C /repo worktree remove --force $W; done
git -C /repo worktree prune; rm -rf /tmp/ev-rc
