#!/bin/bash
# coverage.sh [Cxx ...] : line coverage of /repo/src reached by the quick tiers (pbt harnesses; C12's fuzz targets are not included).
# Reads the generator's reach, not a verdict: a function the property anchors in that no case executes is a blind spot.
# Output: build/cov/report.txt (per file), build/cov/functions.txt (per function), build/cov/uncovered/<file>.txt (lines never executed)
cd "$(dirname "$0")/.." || exit 2
ids=${@:-$(tr " " "\n" < harness/ENABLED | grep -v C12)}
rm -rf build/cov/prof build/cov/ev; mkdir -p build/cov/prof
for id in $ids; do
  VERIF_FLAVOUR=cov LLVM_PROFILE_FILE=$PWD/build/cov/prof/$id-%p.profraw VERIF_EVIDENCE_DIR=$PWD/build/cov/ev VERIF_SCALE=${COV_SCALE:-0.25} python3 verif.py run $id --tier quick 2>&1 | grep -E "tier=quick|VIOLATION" | tail -1
done
llvm-profdata merge -sparse build/cov/prof/*.profraw -o build/cov/all.profdata 2>/dev/null
objs=""; first=""; for id in $ids; do e=$(ls -t build/cov/bin/$id-* | head -1); if [ -z "$first" ]; then first=$e; else objs="$objs -object $e"; fi; done
llvm-cov report $first $objs -instr-profile=build/cov/all.profdata /repo/src > build/cov/report.txt 2>/dev/null
llvm-cov report $first $objs -instr-profile=build/cov/all.profdata -show-functions /repo/src/*.cc 2>/dev/null | c++filt > build/cov/functions.txt
tail -40 build/cov/report.txt | cut -c1-60,100-200
