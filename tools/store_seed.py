#!/usr/bin/env python3
"""store_seed.py ID 'change' 'needs' 'confirm line' 'check result' : copy a confirmed seeded change from /tmp/seed-ID into /verif/seeded/ID"""
import sys, os, shutil, json
V = os.path.dirname(os.path.dirname(os.path.abspath(__file__)))
i, change, needs, confirm, result = sys.argv[1:6]
src = os.environ.get("SEED_DIR_PREFIX", "/tmp/seed-") + "%s/demo" % i; dst = os.path.join(V, "seeded", i + os.environ.get("SEED_SUFFIX", "")); os.makedirs(dst, exist_ok=True)
for f in ("patch.diff", "demo.cc", "NOTES.md"): shutil.copy(os.path.join(src, f), os.path.join(dst, f))
test = confirm.split("existing test ")[1].split(" ")[0] if "existing test " in confirm else ""
json.dump({"property": i, "change": change, "needs_to_manifest": needs,
  "origin": "fresh sub-agent given only the property text and its own scratch worktree /tmp/seed-%s (no access to /verif)" % i,
  "confirmed_by_me": {"command": "tools/confirm_seed.sh %s %s" % (i, test), "result": confirm, "meaning": "demo fails with the change, passes without it; the named existing test still passes with the change"},
  "check_run": {"command": "python3 tools/mutate.py run %s seeded/%s/patch.diff" % (i, i + os.environ.get("SEED_SUFFIX", "")), "result": result}}, open(os.path.join(dst, "meta.json"), "w"), indent=1)
print("stored", dst)
