#!/usr/bin/env python3
"""Sensitivity testing with deliberate breakages (own mutants and sub-agent seeded changes).

  mutate.py new Cxx name path 'old text' 'new text' [--count N]   create mutants/Cxx/name.diff from a textual replacement and run the check on it
  mutate.py run Cxx name|path.diff [--tier quick]                   run the check of Cxx against a saved diff
  mutate.py all [Cxx]                                               run every saved diff, print a table

Mutants are applied in a scratch git worktree under /tmp (never in /repo); the check is pointed at it through
VERIF_REPO, evidence goes to a scratch directory.  Exit 0 = caught (check exited 1 with a VIOLATION line)."""
import sys, os, subprocess, tempfile, shutil, json, glob, time
V = os.path.dirname(os.path.dirname(os.path.abspath(__file__)))

def sh(cmd, **kw):
    return subprocess.run(cmd, shell=isinstance(cmd, str), capture_output=True, text=True, **kw)

def make_worktree():
    d = tempfile.mkdtemp(prefix="vmut-", dir="/tmp")
    os.rmdir(d)
    r = sh(["git", "-C", "/repo", "worktree", "add", "--detach", d, "HEAD"])
    if r.returncode: raise SystemExit("worktree failed: " + r.stderr)
    return d

def drop_worktree(d):
    sh(["git", "-C", "/repo", "worktree", "remove", "--force", d]); shutil.rmtree(d, ignore_errors=True); sh(["git", "-C", "/repo", "worktree", "prune"])

def run_check(prop, wt, tier="quick", extra_env=None):
    env = dict(os.environ); env["VERIF_REPO"] = wt; env["VERIF_EVIDENCE_DIR"] = os.path.join(wt, "_evidence")
    if extra_env: env.update(extra_env)
    t0 = time.time()
    r = subprocess.run([sys.executable, os.path.join(V, "verif.py"), "run", prop, "--tier", tier], capture_output=True, text=True, env=env, cwd=V)
    vio = [l for l in r.stdout.splitlines() if l.startswith("VIOLATION") or l.strip().startswith("signature=")]
    return r.returncode, vio, time.time() - t0, r.stdout[-1500:] + r.stderr[-1500:]

def cmd_new(a):
    prop, name, path, old, new = a[:5]
    count = int(a[a.index("--count") + 1]) if "--count" in a else 1
    wt = make_worktree()
    try:
        f = os.path.join(wt, path); s = open(f).read()
        if s.count(old) < 1: raise SystemExit("old text not found in " + path)
        if s.count(old) != count: raise SystemExit("old text occurs %d times (expected %d)" % (s.count(old), count))
        open(f, "w").write(s.replace(old, new))
        diff = sh(["git", "-C", wt, "diff"]).stdout
        os.makedirs(os.path.join(V, "mutants", prop), exist_ok=True)
        dp = os.path.join(V, "mutants", prop, name + ".diff"); open(dp, "w").write(diff)
        rc, vio, wall, tail = run_check(prop, wt)
        print("%s %s: %s in %.0fs" % (prop, name, "CAUGHT" if rc == 1 and vio else "MISSED rc=%d" % rc, wall))
        for v in vio[:4]: print("   ", v)
        if rc != 1: print(tail)
        return 0 if rc == 1 else 1
    finally:
        drop_worktree(wt)

def run_diff(prop, dp, tier="quick"):
    wt = make_worktree()
    try:
        r = sh(["git", "-C", wt, "apply", dp])
        if r.returncode: return None, ["patch does not apply: " + r.stderr.strip()], 0, ""
        return run_check(prop, wt, tier)
    finally:
        drop_worktree(wt)

def cmd_run(a):
    prop, name = a[:2]; tier = a[a.index("--tier") + 1] if "--tier" in a else "quick"
    dp = os.path.abspath(name) if os.path.exists(name) else os.path.join(V, "mutants", prop, name + ".diff")
    rc, vio, wall, tail = run_diff(prop, dp, tier)
    print("%s %s: %s in %.0fs" % (prop, os.path.basename(dp), "CAUGHT" if rc == 1 and vio else ("PATCH-DOES-NOT-APPLY" if rc is None else "MISSED rc=%s" % rc), wall))
    for v in vio[:4]: print("   ", v)
    if rc != 1: print(tail)
    return 0 if rc == 1 else 1

def cmd_all(a):
    props = a or sorted(os.listdir(os.path.join(V, "mutants")))
    rows = []
    for p in props:
        for dp in sorted(glob.glob(os.path.join(V, "mutants", p, "*.diff"))):
            rc, vio, wall, tail = run_diff(p, dp)
            rows.append((p, os.path.basename(dp), "caught" if rc == 1 and vio else "MISSED(rc=%s)" % rc, "%.0fs" % wall, (vio[0].strip() if vio else "")[:140]))
            print(" | ".join(rows[-1]), flush=True)
    return 0

if __name__ == "__main__":
    c = sys.argv[1]; a = sys.argv[2:]
    sys.exit({"new": cmd_new, "run": cmd_run, "all": cmd_all}[c](a))
